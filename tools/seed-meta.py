#!/usr/bin/env python3
"""Writes seeded/<dir>/meta.json from result.json (tools/seed-intake.sh) plus the
hand-written description below. Seeds are changes to wa-lang/wa produced by
independent sub-agents that saw only the property text; none is ever committed
to /repo."""
import json, os, glob, sys

V = os.path.dirname(os.path.dirname(os.path.abspath(__file__)))
INFO = {
 "C21-mapper-hoisted": ("internal/lsp/server_text_sync.go: protocol.NewMapper hoisted out of the per-change loop, so the 2nd+ change of one notification is resolved against the pre-notification text",
   "one didChange notification with >= 2 incremental changes where a later change lies at/after an earlier one that changed byte length, UTF-16 length or line count (top-to-bottom order)"),
 "C10-split-threshold-16": ("both allocator copies: split threshold in $heap_reuse_varying raised from size >= n+8 to size >= n+16, a block of n+8 is handed out whole and later freed onto the next size class's list",
   "fixed lists enabled; a 40- or 56-byte free block on the general list, a class-32/48 request while that class's list is empty, free of that block, then a request in the upper part of the next class"),
 "C22-overlap-trim-x": ("internal/lsp/diff/lcs/common.go overlap(): the last trimming case no longer advances prop.X, the trimmed diagonal claims equal text that is not equal",
   "two mostly unrelated texts of 100+ characters differing by > ~100 edits (two-sided search gives up) and a shorter diagonal starting inside a longer accepted one in B only (~2% of such pairs)"),
 "C13-delete-compaction-else-if": ("waroot/src/runtime/map.wa mapImp.Delete: the re-parenting of the relocated last node's right child became an else-if of the left child's",
   "last node slot holds an inner node with two children, a key in an earlier slot is deleted, a later fix-up walks the stale parent link: present keys are then not found by lookup although len/range still see them"),
 "C17-btype-imm11-from-bit12": ("internal/native/riscv/encode.go encodeB_Imm: instruction bit 7 taken from offset bit 12 instead of bit 11",
   "a conditional branch with an accepted offset outside [-2048, 2046]"),
 "C05-store32-default-align": ("internal/wat/printer/printer_funcs.go: i64.store32 treats align=2 as the default and omits it",
   "a module containing i64.store32 with an explicit align=2 (the compiler never emits i64.store32)"),
 "C15-mul-fast-path-64bit": ("internal/constant/value.go: the int64 fast path of constant multiplication admits operand bit lengths summing to 64 (must be 63): products in [2^63, 2^64) wrap",
   "a constant product a*b with both operands in int64, bit lengths summing to exactly 64 and |a*b| >= 2^63, e.g. 0xFFFFFFFF*0xFFFFFFFF"),
 "C01-append-exact-fit-reallocates": ("wir/value_slice.go genAppendFunc: in-place append only when len+n < cap (was <=): an append that exactly fills the capacity reallocates",
   "append with len(x)+len(y) == cap(x) exactly, observed through an alias (write through result / original, two appends to one prefix) or through cap()"),
 "C16-defer-invoke-arg-index": ("compile_func.go genMakeDefer, interface-invoke branch: the defer wrapper reads argument k from captured field k instead of k+1: the module is invalid",
   "a defer statement whose deferred call is an interface method invocation with at least one argument"),
 "C09-wz-binary-right-assoc": ("w2parser parseBinaryExpr recurses with oprec instead of oprec+1: binary operators are right-associative in .wz only",
   "a .wz expression chaining two or more operators of equal precedence without parentheses where regrouping changes the value (a-b-c, a/b*c, a<<b>>c)"),
 "C12-fixed-list-flush-loses-tail": ("heap_malloc.wat.ws $wa_lfixed_free_all stops on the tail node: one block is lost at every flush of a full fixed-size free list",
   "an iteration that keeps more than 64 objects of one size class alive at once and then drops them (flush of a full fixed list); 32 bytes lost per iteration, malloc/free stay balanced"),
 "C28-buildvfs-compiles-unlocked": ("api.BuildVFS reuses the locked LoadProgramVFS and drops its own lock: the compile phase runs outside the API mutex",
   "concurrent API use that includes api.BuildVFS overlapping another call's compile phase"),
 "C07-qualified-literal-parens": ("internal/printer/nodes.go isTypeName no longer accepts pkg.T: stripParens removes the parentheses protecting a package-qualified composite literal in an if/for/switch/range header",
   "a parenthesised control-clause header containing an unparenthesised composite literal of a package-qualified type"),
 "C06-import-root-not-called": ("watstrip markRoot skips imported functions: an import that is only exported / in elem / start, never called directly, is removed while its reference stays",
   "an imported function that is a root (elem, re-export, start) and not the target of any direct call"),
 "C11-lower-join-keeps-next": ("heap_malloc.wat.ws $wa_l128_free: joining with the lower neighbour no longer sets p->next = bp->next; after an upper merge the absorbed upper block stays on the free list",
   "three address-adjacent blocks of the variable-size list, the outer two freed first and the middle one last, then two allocations served from the stale node and the merged block"),
 "C04": ("", ""),
}

for d in sorted(glob.glob(os.path.join(V, "seeded", "*"))):
    name = os.path.basename(d)
    rp = os.path.join(d, "result.json")
    if not os.path.exists(rp):
        continue
    r = json.load(open(rp))
    change, needs = INFO.get(name, ("see notes.md", "see notes.md"))
    extra = {}
    ep = os.path.join(d, "extra.json")
    if os.path.exists(ep):
        extra = json.load(open(ep))
    meta = {
        "property": r["property"],
        "breaks": change,
        "needs_to_manifest": needs,
        "origin": "independent sub-agent given only the property text and a scratch worktree of /repo (nothing from /verif)",
        "confirmed_in_scratch_worktree": {
            "repo_head": r["repo_head"], "compiles": r["build"] == "ok",
            "existing_test_suite_passes_with_change": r["existing_suite_with_change"] == "pass",
            "demonstration_without_change": r["demo_without_change"], "demonstration_with_change": r["demo_with_change"],
        },
        "check": {"command": "tools/mutant-run.sh %s seeded/%s/patch.diff  (quick tier against a scratch worktree with the patch applied)" % (r["property"], name),
                  "exit": r["check_exit"], "caught": r["check_exit"] == 1, "violation_keys": [k for k in r["check_keys"].split(";") if k]},
        "what_was_run": r["ran"],
    }
    meta.update(extra)
    json.dump(meta, open(os.path.join(d, "meta.json"), "w"), indent=1, ensure_ascii=False)
    print(name, "caught" if meta["check"]["caught"] else "NOT caught (exit %s)" % r["check_exit"])
