#!/usr/bin/env python3
"""Writes seeded/<dir>/meta.json from result.json (tools/seed-intake.sh) plus the
hand-written description below. Seeds are changes to wa-lang/wa produced by
independent sub-agents that saw only the property text; none is ever committed
to /repo."""
import json, os, glob, sys

V = os.path.dirname(os.path.dirname(os.path.abspath(__file__)))
INFO = {
 "C21-mapper-hoisted": ("internal/lsp/server_text_sync.go: protocol.NewMapper hoisted out of the per-change loop, so the 2nd+ change of one notification is resolved against the pre-notification text",
   "one didChange notification with >= 2 incremental changes where a later change lies at/after an earlier one that changed byte length, UTF-16 length or line count (top-to-bottom order)"),
 "C10-split-threshold-16": ("both allocator copies: split threshold in $heap_reuse_varying raised from size >= n+8 to size >= n+16, a block of n+8 is handed out whole and later freed onto the next size class's list",
   "fixed lists enabled; a 40- or 56-byte free block on the general list, a class-32/48 request while that class's list is empty, free of that block, then a request in the upper part of the next class"),
 "C22-overlap-trim-x": ("internal/lsp/diff/lcs/common.go overlap(): the last trimming case no longer advances prop.X, the trimmed diagonal claims equal text that is not equal",
   "two mostly unrelated texts of 100+ characters differing by > ~100 edits (two-sided search gives up) and a shorter diagonal starting inside a longer accepted one in B only (~2% of such pairs)"),
 "C13-delete-compaction-else-if": ("waroot/src/runtime/map.wa mapImp.Delete: the re-parenting of the relocated last node's right child became an else-if of the left child's",
   "last node slot holds an inner node with two children, a key in an earlier slot is deleted, a later fix-up walks the stale parent link: present keys are then not found by lookup although len/range still see them"),
 "C17-btype-imm11-from-bit12": ("internal/native/riscv/encode.go encodeB_Imm: instruction bit 7 taken from offset bit 12 instead of bit 11",
   "a conditional branch with an accepted offset outside [-2048, 2046]"),
 "C05-store32-default-align": ("internal/wat/printer/printer_funcs.go: i64.store32 treats align=2 as the default and omits it",
   "a module containing i64.store32 with an explicit align=2 (the compiler never emits i64.store32)"),
 "C15-mul-fast-path-64bit": ("internal/constant/value.go: the int64 fast path of constant multiplication admits operand bit lengths summing to 64 (must be 63): products in [2^63, 2^64) wrap",
   "a constant product a*b with both operands in int64, bit lengths summing to exactly 64 and |a*b| >= 2^63, e.g. 0xFFFFFFFF*0xFFFFFFFF"),
 "C01-append-exact-fit-reallocates": ("wir/value_slice.go genAppendFunc: in-place append only when len+n < cap (was <=): an append that exactly fills the capacity reallocates",
   "append with len(x)+len(y) == cap(x) exactly, observed through an alias (write through result / original, two appends to one prefix) or through cap()"),
 "C16-defer-invoke-arg-index": ("compile_func.go genMakeDefer, interface-invoke branch: the defer wrapper reads argument k from captured field k instead of k+1: the module is invalid",
   "a defer statement whose deferred call is an interface method invocation with at least one argument"),
 "C09-wz-binary-right-assoc": ("w2parser parseBinaryExpr recurses with oprec instead of oprec+1: binary operators are right-associative in .wz only",
   "a .wz expression chaining two or more operators of equal precedence without parentheses where regrouping changes the value (a-b-c, a/b*c, a<<b>>c)"),
 "C12-fixed-list-flush-loses-tail": ("heap_malloc.wat.ws $wa_lfixed_free_all stops on the tail node: one block is lost at every flush of a full fixed-size free list",
   "an iteration that keeps more than 64 objects of one size class alive at once and then drops them (flush of a full fixed list); 32 bytes lost per iteration, malloc/free stay balanced"),
 "C28-buildvfs-compiles-unlocked": ("api.BuildVFS reuses the locked LoadProgramVFS and drops its own lock: the compile phase runs outside the API mutex",
   "concurrent API use that includes api.BuildVFS overlapping another call's compile phase"),
 "C07-qualified-literal-parens": ("internal/printer/nodes.go isTypeName no longer accepts pkg.T: stripParens removes the parentheses protecting a package-qualified composite literal in an if/for/switch/range header",
   "a parenthesised control-clause header containing an unparenthesised composite literal of a package-qualified type"),
 "C06-import-root-not-called": ("watstrip markRoot skips imported functions: an import that is only exported / in elem / start, never called directly, is removed while its reference stays",
   "an imported function that is a root (elem, re-export, start) and not the target of any direct call"),
 "C11-lower-join-keeps-next": ("heap_malloc.wat.ws $wa_l128_free: joining with the lower neighbour no longer sets p->next = bp->next; after an upper merge the absorbed upper block stays on the free list",
   "three address-adjacent blocks of the variable-size list, the outer two freed first and the middle one last, then two allocations served from the stale node and the merged block"),
 "C21-replacement-char-treated-invalid": ("internal/lsp/protocol/mapper.go PositionOffset: the `sz == 1` part of the invalid-UTF-8 test was dropped, a well-formed U+FFFD is reported as invalid UTF-8 and the change is rejected",
   "an incremental change whose range start or end lies on a line containing a well-formed U+FFFD, at a column past it"),
 "C06-else-arm-not-walked": ("watstrip markFuncReachable_ins walks the then-arm of an `if` twice and never the else-arm",
   "a function whose only references are call instructions inside else arms (not exported, not in elem, not the start function)"),
 "C09-wz-u16-alias-not-unsigned": ("internal/types/universe_wz.go: the Chinese alias of u16 (短正整) loses its IsUnsigned flag, constant folding of unary ^ on a typed constant of that type goes negative and is rejected",
   "a .wz program applying unary ^ to a typed constant of type 短正整"),
 "C13-compare-by-subtraction": ("wir/value_basic.go emitCompare: a fast path orders i32/int/rune (and u8/u16/bool) by subtraction, which wraps for operands more than 2^31-1 apart: the key order of maps is no longer transitive",
   "a map with int/i32/rune keys (or struct/interface keys containing them) at least two of which differ by more than 2^31-1, and a tree rotation or successor copy that moves such a key"),
 "C10-bump-fit-check-without-header": ("both allocator copies, $heap_new_allocation: the fits-below-heap-top test uses the payload size without the 8-byte block header",
   "a request served by the bump allocator whose rounded size equals exactly __heap_top - __heap_ptr"),
 "C07-tab-in-interpreted-literal": ("internal/printer/printer.go print(): only raw strings are bracketed for the tabwriter, a literal TAB inside an interpreted string or rune literal is treated as a cell separator and replaced by blanks",
   "a .wa file with a literal TAB byte inside \"...\" or a rune literal"),
 "C01-map-delete-right-child-parent": ("waroot/src/runtime/map.wa mapImp.Delete: when the last node is moved into the freed slot its right child's parent index is not rewritten (Left used twice)",
   "last node of the node table has a right child, an older key is deleted, a new key is inserted (reusing the stale slot), then an operation whose fix-up passes through that child's parent"),
 "C16-f32-to-u32-uses-f64-trunc": ("wir/instruction_emitter.go EmitGenConvert: the f32 -> u32 and f64 -> u32 arms were merged keeping only i64.trunc_f64_s: an f32 operand is fed to an f64 instruction, the module is invalid",
   "a conversion of a non-constant f32 value to u32 / uint / uintptr (or a named type over them)"),
 "C04-label-shadow-outermost": ("wat2wasm_helper.go findLabelIndex walks the label stack from the outermost scope: a label name bound twice in nested block/loop/if resolves to the outer binding",
   "a function with two nested blocks/loops/ifs carrying the same label name and a br/br_if/br_table naming it from inside the inner one"),
 "C18-la64-carry-boundary-0x800": ("internal/native/pcrel/la64.go MakeLa64PCRel: hi20 carry applied for lo12 > 0x800 instead of >= 0x800",
   "a pcalau12i/addi.d pair whose target address has low 12 bits exactly 0x800"),
 "C19-u32-fifth-byte-bound": ("internal/wasm/leb128 decodeUint32: fifth-byte overflow test `b > 0x07` (was `b&0xf0 > 0`): values with bit 31 set are rejected as overflowing",
   "an unsigned 32-bit LEB128 value >= 2^31 decoded with DecodeUint32/LoadUint32"),
 "C25-mid-flag-lost-on-idle-poll": ("internal/3rdparty/slip Reader.ReadPacket: `mid` (packet in progress) recomputed from the current call only, an idle poll that reads nothing clears it",
   "all payload bytes of a packet delivered as prefix, at least one further ReadPacket call on a dry transport, then the terminating END arrives"),
 "C26-header-slice-overwritten": ("go-dap readContentLengthHeader keeps the bufio.ReadSlice view of the header across the next read: a refill overwrites it before it is parsed",
   "a stream delivered in pieces such that bufio's buffer runs empty while the three delimiter bytes after the header's CR are fetched"),
 "C30-trap-with-matching-output": ("apptest.runTest: the error guard only fires for exit errors; a trap whose captured stdout equals the declared Output is `continue`d and the package reported ok",
   "a test/example function with an `// Output:` comment that ends in a WebAssembly trap after printing exactly the declared output"),
 "C24-in-place-filter-skips-neighbour": ("loader.Import filters build-tagged files in place while iterating: the file following a removed one is never evaluated and stays in the package",
   "a non-main package with two files adjacent in sorted name order whose constraints are both false"),
 "C23-defer-assert-pos-of-keyword": ("compile_func.go genMakeDefer passes inst.Pos() (the defer keyword) instead of inst.Call.Pos() to genBuiltin: a failing deferred assert reports the wrong column",
   "unit-test mode, an assert called through defer, and the assertion fails"),
 "C29-exit-during-init-status-lost": ("internal/wazero Module.RunMain no longer returns early on an exit-type error of the instantiation: main is called on the closed module and the result becomes exit code 0",
   "a program that calls the exit function or panics while package-level variables / init functions run (before main)"),
 "C27-anon-struct-counter-global": ("anonymous-struct naming moved to a package-level counter in wir that is never reset: the second compile of the same source in one process numbers the types differently",
   "more than one compilation in the same process of a program with an anonymous struct type whose name reaches the output (ref-counted field, heap-allocated or boxed)"),
 "C20-divuw-zero-extends": ("wemu riscv64 cpu.go DIVUW: the int32 cast was dropped, the 32-bit quotient is zero- instead of sign-extended",
   "DIVUW with low word of rs2 == 1 and bit 31 of rs1 set (quotient >= 2^31)"),
 "C14-parseuint-64-wrap-undetected": ("waroot/src/strconv/atoi.wa ParseUint: the `n1 < n` wrap test removed from the digit loop; with bitSize 64 the remaining `n1 > maxVal` can never fire",
   "ParseUint/ParseInt with bitSize 64 on a string whose value is 2^64..2^64+3 followed by any digits (prefix*base fits, +digit wraps) in a base that is not a power of two"),
 "C31-rem64-minus1-check-32bit": ("vendored wazero amd64 compiler performDivisionOnInts: the 64-bit `divisor == -1` shortcut of signed remainder compares with CMPL (low 32 bits only)",
   "i64.rem_s on the amd64 compiler engine with a divisor != -1 whose low 32 bits are all ones and a dividend that is not a multiple of it"),
 "C08-float-const-div-zero-panics": ("internal/types expr.go binary: the zero-divisor check only looks at integer operands, constant.BinaryOp panics on a constant float division by zero and the panic escapes the loader",
   "a `/` whose dividend is a constant of non-integer type and whose divisor is a constant zero"),
 "C03-wat2c-trunc-i64-lower-bound": ("wat2c: lower bound passed to WASM_TRUNC for i64.trunc_f32_s/f64_s changed from the next double below -2^63 to -2^63: the C code aborts for exactly -2^63",
   "i64.trunc_f64_s / i64.trunc_f32_s translated by wat2c, compiled with gcc and called with exactly -2^63"),
 "C02-x64-convert-u32-signed": ("wat2x64 f64.convert_i32_u converts from eax instead of the zero-extended rax: u32 values >= 2^31 become value - 2^32",
   "a native x64 build that executes f64.convert_i32_u on a non-constant operand >= 2147483648"),
}

rows = []
for d in sorted(glob.glob(os.path.join(V, "seeded", "*"))):
    if not os.path.isdir(d):
        continue
    name = os.path.basename(d)
    rp = os.path.join(d, "result.json")
    if not os.path.exists(rp):
        continue
    r = json.load(open(rp))
    change, needs = INFO.get(name, ("see notes.md", "see notes.md"))
    extra = {}
    ep = os.path.join(d, "extra.json")
    if os.path.exists(ep):
        extra = json.load(open(ep))
    meta = {
        "property": r["property"],
        "breaks": change,
        "needs_to_manifest": needs,
        "origin": "independent sub-agent given only the property text and a scratch worktree of /repo (nothing from /verif)",
        "confirmed_in_scratch_worktree": {
            "repo_head": r["repo_head"], "compiles": r["build"] == "ok",
            "existing_test_suite_passes_with_change": r["existing_suite_with_change"] == "pass",
            "demonstration_without_change": r["demo_without_change"], "demonstration_with_change": r["demo_with_change"],
        },
        "check": {"command": "tools/mutant-run.sh %s seeded/%s/patch.diff  (quick tier against a scratch worktree with the patch applied)" % (r["property"], name),
                  "exit": r["check_exit"], "caught": r["check_exit"] == 1, "violation_keys": [k for k in r["check_keys"].split(";") if k]},
        "what_was_run": r["ran"],
    }
    meta.update(extra)
    json.dump(meta, open(os.path.join(d, "meta.json"), "w"), indent=1, ensure_ascii=False)
    print(name, "caught" if meta["check"]["caught"] else "NOT caught (exit %s)" % r["check_exit"])
    before = extra.get("check_before_strengthening")
    rows.append((name, r["property"], change, needs, meta["check"]["caught"], meta["check"]["violation_keys"], before, extra.get("strengthening", ""),
                 r["build"], r["existing_suite_with_change"], r["demo_without_change"], r["demo_with_change"]))

with open(os.path.join(V, "seeded", "README.md"), "w") as f:
    f.write("""# Independently seeded changes

Each directory holds one change to wa-lang/wa written by a fresh sub-agent that was given only
the text of one property and a scratch git worktree of /repo (nothing from /verif). The change
breaks the property while the repository still builds and its existing test suite still passes.
Every claim was re-confirmed here in a scratch worktree (`tools/seed-intake.sh`, `tools/seed-demo.sh`):
build, existing suite with the change, the agent's demonstration without and with the change, and
the property's quick check against the changed tree (`tools/mutant-run.sh`, which never touches /repo).
None of these changes is committed to /repo.

Files per directory: `patch.diff`, `notes.md` (the agent's description), `demo/` (its demonstration),
`meta.json` (what it breaks, what it needs to manifest, what was run, outcome), logs of the confirmation runs.
`meta.json` is generated by `tools/seed-meta.py` from `result.json` (+ `extra.json` for checks that were
strengthened because of the seed).

| seed | build / suite / demo without / demo with | caught by `./check %s quick` | violation keys | check strengthened because of it |
|---|---|---|---|---|
""" % "<ID>")
    for (name, pid, change, needs, caught, keys, before, strength, build, suite, dwo, dwi) in rows:
        st = ""
        if before is not None:
            st = "yes (missed before)" if not before.get("caught") else "yes"
        f.write("| %s | %s / %s / %s / %s | %s | %s | %s |\n" % (name, build, suite, dwo, dwi, "yes" if caught else "**no**",
                "<br>".join("`%s`" % k.replace("|", "\\|") for k in keys[:4]) + (" …" if len(keys) > 4 else ""), st))
    f.write("\n## What each change breaks and what it needs to manifest\n\n")
    for (name, pid, change, needs, caught, keys, before, strength, *_rest) in rows:
        f.write("- **%s** (%s): %s. Needs: %s.%s\n" % (name, pid, change, needs, (" Strengthening: " + strength) if strength else ""))
    n = len(rows); c = sum(1 for r in rows if r[4]); b = sum(1 for r in rows if r[6] is not None and not r[6].get("caught"))
    f.write("\n%d seeds, %d caught by the current checks; %d of them were missed by the check as first built and led to a stronger generator.\n" % (n, c, b))
