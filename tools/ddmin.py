#!/usr/bin/env python3
"""ddmin over lines: tools/ddmin.py <file> <needle> [cmd...]  — keeps removing line chunks while
`cmd file` output still contains needle. Default cmd: /verif/bin/wa run"""
import sys, subprocess, tempfile, os
src=open(sys.argv[1]).read().split('\n'); needle=sys.argv[2]; cmd=sys.argv[3:] or ['/verif/bin/wa','run']
ext=os.path.splitext(sys.argv[1])[1]
def bad(lines):
    with tempfile.NamedTemporaryFile('w',suffix=ext,delete=False) as f:
        f.write('\n'.join(lines)); p=f.name
    try:
        r=subprocess.run(cmd+[p],stdout=subprocess.PIPE,stderr=subprocess.STDOUT,text=True,timeout=60)
        return needle in r.stdout
    except Exception: return False
    finally: os.unlink(p)
assert bad(src)
n=2
while len(src)>=2:
    chunk=max(1,len(src)//n); removed=False
    for i in range(0,len(src),chunk):
        cand=src[:i]+src[i+chunk:]
        if cand and bad(cand):
            src=cand; n=max(n-1,2); removed=True; break
    if not removed:
        if chunk==1: break
        n=min(n*2,len(src))
print('\n'.join(src))
