#!/usr/bin/env python3
"""usage: tools/seed-note.py <seeded-dir-name> <check-log> "<note>"
Records the outcome of a re-run of the check (tools/mutant-run.sh log) against a seeded
change after the check was strengthened; the first (missed) outcome is kept in extra.json."""
import json,sys,os,re,shutil
V=os.path.dirname(os.path.dirname(os.path.abspath(__file__)))
name,log,note=sys.argv[1],sys.argv[2],sys.argv[3]
out=os.path.join(V,"seeded",name)
txt=open(log,errors="replace").read()
m=re.search(r"mutant-run: property=\S+ patch=\S+ exit=(\d+)",txt)
rc=int(m.group(1))
keys=";".join(sorted(set(re.findall(r"^  key=(.*)$",txt,re.M))))+";"
r=json.load(open(out+"/result.json"))
ep=out+"/extra.json"
e=json.load(open(ep)) if os.path.exists(ep) else {}
e.setdefault("check_before_strengthening",{"exit":r["check_exit"],"caught":r["check_exit"]==1})
e["strengthening"]=note
r["check_exit"]=rc; r["check_keys"]=keys
r["ran"]=r.get("ran","")+" ; after strengthening: tools/mutant-run.sh %s seeded/%s/patch.diff (exit %d)"%(r["property"],name,rc)
json.dump(r,open(out+"/result.json","w"),indent=1)
json.dump(e,open(ep,"w"),indent=1,ensure_ascii=False)
shutil.copy(log,out+"/check.log")
print(name,"exit",rc,keys)
