#!/bin/bash
# usage: tools/seed-demo.sh <PID> <name> <mode>
# Confirms a sub-agent's non-Go-test demonstration: runs it against a scratch worktree
# of /repo without and with the seeded change and patches the two demo fields of
# seeded/<PID>-<name>/result.json.
#   mode gomod      : demo/ is an external module whose go.mod replaces wa-lang.org/wa => /tmp/seed-<PID>
#   mode gomod-run  : same, but the demonstration is a main package (go run .)
#   mode runsh-tree : demo/run.sh <tree>
#   mode runsh-wa   : build the wa CLI from the tree, demo/run.sh <wa binary>
set -u
PID=$1; NAME=$2; MODE=$3
export GOFLAGS=-mod=mod GOPROXY=off GOSUMDB=off GOTOOLCHAIN=local
OUT=/verif/seeded/$PID-$NAME
WT=/tmp/seed-$PID
git -C /repo worktree remove --force "$WT" >/dev/null 2>&1; rm -rf "$WT"
git -C /repo worktree add --detach "$WT" HEAD >/dev/null 2>&1 || { echo "worktree failed"; exit 3; }
trap 'git -C /repo worktree remove --force "$WT" >/dev/null 2>&1; rm -rf "$WT" /tmp/seed-demo-wa-$PID' EXIT
run_demo() {
  case $MODE in
    gomod) (cd "$OUT/demo" && cp /verif/go.sum . 2>/dev/null; go test -count=1 ./... ) ;;
    gomod-run) (cd "$OUT/demo" && cp /verif/go.sum . 2>/dev/null; go run . ) ;;
    runsh-tree) bash "$OUT/demo/run.sh" "$WT" ;;
    runsh-wa) (cd "$WT" && go build -o /tmp/seed-demo-wa-$PID .) && bash "$OUT/demo/run.sh" /tmp/seed-demo-wa-$PID ;;
  esac
}
run_demo > "$OUT/demo-without.log" 2>&1 && without=pass || without=FAIL
git -C "$WT" apply "$OUT/patch.diff" || { echo "patch does not apply"; exit 3; }
run_demo > "$OUT/demo-with.log" 2>&1 && with=pass || with=FAIL
python3 - "$OUT/result.json" "$without" "$with" "$MODE" <<'EOF'
import json,sys
p,wo,wi,mode=sys.argv[1:5]
r=json.load(open(p)); r["demo_without_change"]=wo; r["demo_with_change"]=wi
r["ran"]=r.get("ran","")+" ; tools/seed-demo.sh %s %s %s"%(r["property"],r["name"],mode)
json.dump(r,open(p,"w"),indent=1)
print(r["property"],r["name"],"demo without:",wo,"with:",wi)
EOF
