#!/bin/sh
# usage: tools/mutant-run.sh <ID> <patch-file> [tier]
# Applies a patch to a scratch git worktree of /repo (never to /repo itself),
# runs the check against it and prints the exit status. 1 = mutant caught.
ID=$1; PATCH=$(realpath "$2"); TIER=${3:-quick}
WT=$(mktemp -d /tmp/mut-XXXXXX)
rmdir "$WT"
git -C /repo worktree add --detach "$WT" HEAD >/dev/null 2>&1 || { echo "worktree failed"; exit 3; }
ALT=/verif/.run/alt-$(printf %s "$WT" | sha256sum | cut -c1-10)
trap 'git -C /repo worktree remove --force "$WT" >/dev/null 2>&1; rm -rf "$WT" "$ALT"' EXIT
git -C "$WT" apply "$PATCH" || { echo "patch does not apply"; exit 3; }
cd /verif && VERIF_REPO="$WT" ./check "$ID" "$TIER"
rc=$?
echo "mutant-run: property=$ID patch=$(basename $PATCH) exit=$rc"
exit $rc
