#!/bin/sh
# Runs the repository's own test suite with the verif guard OFF (no hooks exist,
# so this is the plain suite).
cd /repo && GOFLAGS=-mod=mod GOPROXY=off GOSUMDB=off GOTOOLCHAIN=local go test -vet=off -count=1 -timeout 25m ./...
