#!/bin/sh
# Populates /verif/harness/xarch/{riscv64asm,loong64asm,arm64asm,x86asm} with the
# golang.org/x/arch disassemblers (BSD licence, std-only) from the Go toolchain
# source tree that ships with the sandbox.  The copy is committed, so this is
# normally a no-op; it restores any of the four packages that is missing.
# The packages are the independent decoders of check C17; they are imported as
# wa-lang.org/wa/zverif/harness/xarch/<name>.  Idempotent.
set -e
SRC=${XARCH_SRC:-/opt/veriftools/go1.26.8/src/cmd/vendor/golang.org/x/arch}
DST=$(cd "$(dirname "$0")/.." && pwd)/harness/xarch
mkdir -p "$DST"
for p in riscv64/riscv64asm loong64/loong64asm arm64/arm64asm x86/x86asm; do
	name=$(basename "$p")
	if [ -f "$DST/$name/decode.go" ]; then
		continue
	fi
	if [ ! -d "$SRC/$p" ]; then
		echo "xarch.sh: $SRC/$p not found and $DST/$name missing" >&2
		exit 1
	fi
	rm -rf "$DST/$name"
	mkdir -p "$DST/$name"
	cp "$SRC/$p"/*.go "$DST/$name/"
	rm -f "$DST/$name"/*_test.go
	echo "xarch.sh: copied $p -> harness/xarch/$name"
done
[ -f "$DST/LICENSE" ] || cp "$SRC/LICENSE" "$DST/LICENSE"
exit 0
