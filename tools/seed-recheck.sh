#!/bin/bash
# usage: tools/seed-recheck.sh <PID> <name> "<what was strengthened>"
# Re-runs the property's check against a seeded change after the check was
# strengthened; keeps the earlier (missed) outcome in extra.json.
set -u
PID=$1; NAME=$2; NOTE=${3:-}
export GOFLAGS=-mod=mod GOPROXY=off GOSUMDB=off GOTOOLCHAIN=local
OUT=/verif/seeded/$PID-$NAME
cd /verif && tools/mutant-run.sh "$PID" "$OUT/patch.diff" >"$OUT/check.log" 2>&1; rc=$?
keys=$(grep -a "^  key=" "$OUT/check.log" | sed 's/^  key=//' | sort -u | tr '\n' ';')
python3 - "$OUT" "$rc" "$keys" "$NOTE" <<'EOF'
import json,sys,os
out,rc,keys,note=sys.argv[1],int(sys.argv[2]),sys.argv[3],sys.argv[4]
r=json.load(open(out+"/result.json"))
ep=out+"/extra.json"
e=json.load(open(ep)) if os.path.exists(ep) else {}
if "check_before_strengthening" not in e:
    e["check_before_strengthening"]={"exit":r["check_exit"],"caught":r["check_exit"]==1}
if note: e["strengthening"]=note
r["check_exit"]=rc; r["check_keys"]=keys
r["ran"]=r.get("ran","")+" ; after strengthening: tools/seed-recheck.sh %s %s (exit %d)"%(r["property"],r["name"],rc)
json.dump(r,open(out+"/result.json","w"),indent=1)
json.dump(e,open(ep,"w"),indent=1,ensure_ascii=False)
print(r["property"],r["name"],"exit",rc,keys)
EOF
