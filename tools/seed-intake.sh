#!/bin/bash
# usage: tools/seed-intake.sh <PID> <name> <src-dir> [<demo-pkg-dir> <test-regex>]
#   <src-dir> holds patch.diff, notes.md, demo/ as delivered by an independent sub-agent.
# Confirms in a scratch worktree (never in /repo) that the change compiles, that the
# existing test suite still passes with it, that the Go-test demonstration (if one is
# given) passes without the change and fails with it, then runs the property's check
# against it and stores everything under /verif/seeded/<PID>-<name>/.
set -u
PID=$1; NAME=$2; SRC=$3; DEMOPKG=${4:-}; RX=${5:-}
export GOFLAGS=-mod=mod GOPROXY=off GOSUMDB=off GOTOOLCHAIN=local
OUT=/verif/seeded/$PID-$NAME
mkdir -p "$OUT"
cp "$SRC/patch.diff" "$OUT/patch.diff"
[ -f "$SRC/notes.md" ] && cp "$SRC/notes.md" "$OUT/notes.md"
[ -d "$SRC/demo" ] && rm -rf "$OUT/demo" && cp -r "$SRC/demo" "$OUT/demo"
WT=$(mktemp -d /tmp/seedchk-XXXXXX); rmdir "$WT"
git -C /repo worktree add --detach "$WT" HEAD >/dev/null 2>&1 || { echo "worktree failed"; exit 3; }
trap 'git -C /repo worktree remove --force "$WT" >/dev/null 2>&1; rm -rf "$WT"' EXIT
demo_without="n/a"; demo_with="n/a"
if [ -n "$DEMOPKG" ]; then
  cp "$OUT"/demo/*_test.go "$WT/$DEMOPKG/"
  (cd "$WT" && go test -vet=off -count=1 -run "$RX" "./$DEMOPKG/" >"$OUT/demo-without.log" 2>&1) && demo_without=pass || demo_without=FAIL
fi
git -C "$WT" apply "$OUT/patch.diff" || { echo "patch does not apply"; exit 3; }
(cd "$WT" && go build ./... >"$OUT/build.log" 2>&1) && build=ok || build=FAIL
if [ -n "$DEMOPKG" ]; then
  (cd "$WT" && go test -vet=off -count=1 -run "$RX" "./$DEMOPKG/" >"$OUT/demo-with.log" 2>&1) && demo_with=pass || demo_with=FAIL
  for f in "$OUT"/demo/*_test.go; do rm -f "$WT/$DEMOPKG/$(basename "$f")"; done
fi
(cd "$WT" && go test -vet=off -count=1 ./... >"$OUT/suite.log" 2>&1) && suite=pass || suite=FAIL
grep -v "no test files" "$OUT/suite.log" | grep -v "^ok" | tail -5 > "$OUT/suite-nonok.log"
sha=$(git -C /repo rev-parse --short HEAD)
cd /verif && tools/mutant-run.sh "$PID" "$OUT/patch.diff" >"$OUT/check.log" 2>&1; rc=$?
keys=$(grep -a "^  key=" "$OUT/check.log" | sed 's/^  key=//' | sort -u | tr '\n' ';')
python3 - "$OUT/result.json" "$PID" "$NAME" "$sha" "$build" "$suite" "$demo_without" "$demo_with" "$rc" "$keys" "tools/seed-intake.sh $PID $NAME $SRC $DEMOPKG $RX" <<'EOF'
import json,sys
a=sys.argv
json.dump({"property":a[2],"name":a[3],"repo_head":a[4],"build":a[5],"existing_suite_with_change":a[6],
 "demo_without_change":a[7],"demo_with_change":a[8],"check_exit":int(a[9]),"check_keys":a[10],"ran":a[11]},open(a[1],"w"),indent=1)
EOF
cat "$OUT/result.json"
