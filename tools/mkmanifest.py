#!/usr/bin/env python3
"""Assemble /verif/MANIFEST.json from manifest.d/base.json + manifest.d/C??.json.
A property without a fragment is listed under not_applicable with the reason in
manifest.d/not_applicable.json (or a default 'not yet claimed')."""
import json, os, glob, sys
V = os.path.dirname(os.path.dirname(os.path.abspath(__file__)))
base = json.load(open(os.path.join(V, "manifest.d", "base.json")))
props = [json.loads(l)["id"] for l in open(os.path.join(V, "properties.jsonl")) if l.strip()]
na_reasons = {}
p = os.path.join(V, "manifest.d", "not_applicable.json")
if os.path.exists(p):
    na_reasons = json.load(open(p))
checks, claimed = [], set()
for f in sorted(glob.glob(os.path.join(V, "manifest.d", "C[0-9]*.json"))):
    c = json.load(open(f))
    pid = c["property_id"]
    lower = pid.lower()
    if not os.path.isfile(os.path.join(V, "harness", lower, "check.json")):
        print("skip %s: no harness" % pid, file=sys.stderr)
        continue
    c.setdefault("quick_cmd", "./check %s quick" % pid)
    c.setdefault("thorough_cmd", "./check %s thorough" % pid)
    c.setdefault("evidence_file", "/verif/evidence/%s.json" % pid)
    c.setdefault("replay_cmd_template", "./check --replay {path}")
    c.setdefault("engine", "pbt-go")
    checks.append(c)
    claimed.add(pid)
base["checks"] = checks
base["not_applicable"] = [{"property_id": i, "reason": na_reasons.get(i, "not yet claimed: check under construction")}
                          for i in props if i not in claimed]
base["engines"][0]["serves_properties"] = sorted(claimed)
out = os.path.join(V, "MANIFEST.json")
json.dump(base, open(out + ".tmp", "w"), indent=1, ensure_ascii=False)
os.replace(out + ".tmp", out)
print("MANIFEST.json: %d checks, %d not_applicable" % (len(checks), len(base["not_applicable"])))
