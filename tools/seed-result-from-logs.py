#!/usr/bin/env python3
"""usage: tools/seed-result-from-logs.py <seeded-dir-name> "<ran>"
Rebuilds result.json from the logs tools/seed-intake.sh left in the directory
(build.log, suite.log, demo-without.log, demo-with.log, check.log)."""
import json,os,re,subprocess,sys
V=os.path.dirname(os.path.dirname(os.path.abspath(__file__)))
name,ran=sys.argv[1],sys.argv[2]
d=os.path.join(V,"seeded",name)
def rd(f):
    p=os.path.join(d,f)
    return open(p,errors="replace").read() if os.path.exists(p) else None
build=rd("build.log"); suite=rd("suite.log"); dwo=rd("demo-without.log"); dwi=rd("demo-with.log"); chk=rd("check.log") or ""
def gotest(txt):
    if txt is None: return "n/a"
    if re.search(r"^(FAIL|--- FAIL|panic:)",txt,re.M): return "FAIL"
    return "pass" if re.search(r"^ok\s",txt,re.M) else "FAIL"
m=re.search(r"mutant-run: property=\S+ patch=\S+ exit=(\d+)",chk)
rc=int(m.group(1)) if m else -1
keys=";".join(sorted(set(re.findall(r"^  key=(.*)$",chk,re.M))))
r={"property":name.split("-")[0],"name":name.split("-",1)[1],
   "repo_head":subprocess.check_output(["git","-C","/repo","rev-parse","--short","HEAD"],text=True).strip(),
   "build":"ok" if build is not None and build.strip()=="" else "FAIL",
   "existing_suite_with_change":gotest(suite) if suite and "FAIL" in suite else ("pass" if suite else "n/a"),
   "demo_without_change":gotest(dwo),"demo_with_change":gotest(dwi),
   "check_exit":rc,"check_keys":keys+(";" if keys else ""),"ran":ran+" (result.json rebuilt from the logs by tools/seed-result-from-logs.py)"}
json.dump(r,open(os.path.join(d,"result.json"),"w"),indent=1)
print(json.dumps(r))
