#!/bin/sh
# Offline setup: compile every harness so the checks start from a warm build cache.
set -e
cd /verif
export GOFLAGS=-mod=mod GOPROXY=off GOSUMDB=off GOTOOLCHAIN=local
[ -x tools/xarch.sh ] && tools/xarch.sh
./check --build-all
