module wa-lang.org/wa/zverif

go 1.23

require (
	pgregory.net/rapid v1.3.0
	wa-lang.org/wa v0.0.0
)

replace wa-lang.org/wa => /repo
