package c02

import (
	"fmt"
	"os"
	"testing"
)

func TestDbgProg(t *testing.T) {
	defer theWorker().Close()
	src, _ := os.ReadFile(os.Getenv("DBG_SRC"))
	k, w, n := CompareProgramSource("p.wa", string(src))
	fmt.Printf("RESULT %q %d %s\n", k, n, head(w, 300))
}
