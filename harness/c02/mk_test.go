package c02

import (
	"encoding/json"
	"fmt"
	"os"
	"path/filepath"
	"testing"

	"wa-lang.org/wa/zverif/harness/core"
	om "wa-lang.org/wa/zverif/harness/opmatrix"
)

// mkCorpus evaluates a handmade case and, when it violates the property,
// writes it as corpus/C02/<name>.json (development aid, run with C02_MK=1).
func mkCorpus(t *testing.T, name string, c *om.Case) {
	v := evalCase(c)
	key, what := v.key, v.what
	if v.rejected != "" {
		key, what = fmt.Sprintf("op=%s/%s@wat2x64-panic", c.Funcs[0].Op, c.Funcs[0].ShapeClass()), v.rejected
	}
	if v.inconclusive != "" {
		what = "INCONCLUSIVE " + v.inconclusive
	}
	fmt.Printf("%-28s key=%q %s\n", name, key, head(what, 220))
	if key == "" || os.Getenv("C02_MK") != "write" {
		return
	}
	raw, _ := json.Marshal(payload{Kind: "opmatrix", Case: c.Strip()})
	data, _ := json.MarshalIndent(core.ReplayFile{Property: prop, Test: "OpMatrixNative", Key: key, What: what, Seed: 1, Case: raw}, "", " ")
	os.WriteFile(filepath.Join(core.VerifDir(), "corpus", prop, name+".json"), data, 0o644)
}

func TestMkCorpus(t *testing.T) {
	if os.Getenv("C02_MK") == "" {
		t.Skip("development aid")
	}
	cfg := &om.Config{Start: true}
	u := func(v ...uint64) []uint64 { return v }
	want := os.Getenv("C02_ONLY")
	mk := func(name string, c *om.Case) {
		if want == "" || want == name {
			mkCorpus(t, name, c)
		}
	}
	mk("convert-u-no-union-member", om.Handmade(cfg, "i", "f", "f32.convert_i32_u", true, false, nil, []string{"local.get $a", "f32.convert_i32_u"}, u(0xffffffff), u(5)))
	mk("convert-i64-u", om.Handmade(cfg, "I", "F", "f64.convert_i64_u", true, false, nil, []string{"local.get $a", "f64.convert_i64_u"}, u(0xffffffffffffffff), u(5)))
	mk("multi-return-implicit-order", om.Handmade(cfg, "ii", "ii", "return", true, false, nil, []string{"local.get $b", "local.get $a"}, u(1, 2)))
	mk("multi-return-implicit-mixed", om.Handmade(cfg, "iF", "Fi", "return", true, false, nil, []string{"local.get $b", "local.get $a"}, u(1, 2)))
	mk("br_if-value", om.Handmade(cfg, "iii", "i", "br_if", true, false, nil, []string{"block $B (result i32)", "local.get $a", "local.get $b", "br_if $B", "drop", "local.get $c", "end"}, u(7, 1, 9), u(7, 0, 9)))
	mk("br_table-value", func() *om.Case {
		c := om.Handmade(cfg, "ii", "i", "br_table", true, false, nil, []string{"block $b1 (result i32)", "block $b0 (result i32)", "local.get $b", "local.get $a", "br_table $b0 $b1", "end", "i32.const 10", "i32.add", "end", "i32.const 20", "i32.add"}, u(0, 5), u(1, 5))
		c.Funcs[0].Shape = "brtableval"
		return c
	}())
	mk("if-else-multi-result", om.Handmade(cfg, "iIi", "Ii", "if", true, false, nil, []string{"local.get $a", "if $I (result i64 i32)", "local.get $b", "local.get $c", "else", "i64.const 5", "i32.const 6", "end"}, u(1, 7, 8), u(0, 7, 8)))
	mk("implicit-return-after-nested-unreachable", om.Handmade(cfg, "i", "i", "unreachable", true, false, nil, []string{"local.get $a", "if $I (result i32)", "i32.const 7", "else", "i32.const 0", "unreachable", "end"}, u(1), u(5)))
	mk("i32-shl-count-32", om.Handmade(cfg, "ii", "i", "i32.shl", true, false, nil, []string{"local.get $a", "local.get $b", "i32.shl"}, u(1, 32), u(3, 33)))
	mk("f32-nearest-tie", om.Handmade(cfg, "f", "f", "f32.nearest", false, false, nil, []string{"local.get $a", "f32.nearest"}, u(0x40200000), u(0x3f000000), u(0xbf000000)))
	mk("f64-nearest-tie", om.Handmade(cfg, "F", "F", "f64.nearest", false, false, nil, []string{"local.get $a", "f64.nearest"}, u(0x4004000000000000), u(0x3fe0000000000000)))
	mk("f32-min-nan", om.Handmade(cfg, "ff", "f", "f32.min", false, false, nil, []string{"local.get $a", "local.get $b", "f32.min"}, u(0x7fc00000, 0x3f800000), u(0x3f800000, 0x7fc00000)))
	mk("f32-min-zeros", om.Handmade(cfg, "ff", "f", "f32.min", false, false, nil, []string{"local.get $a", "local.get $b", "f32.min"}, u(0, 0x80000000), u(0x80000000, 0)))
	mk("f64-max-zeros", om.Handmade(cfg, "FF", "F", "f64.max", false, false, nil, []string{"local.get $a", "local.get $b", "f64.max"}, u(1<<63, 0), u(0, 1<<63)))
	mk("f64-max-nan", om.Handmade(cfg, "FF", "F", "f64.max", false, false, nil, []string{"local.get $a", "local.get $b", "f64.max"}, u(0x7ff8000000000000, 0x3ff0000000000000)))
	mk("i32-trunc-f32-s-oor", om.Handmade(cfg, "f", "i", "i32.trunc_f32_s", true, false, nil, []string{"local.get $a", "i32.trunc_f32_s"}, u(0x4f000000), u(0x7fc00000)))
	om.HandmadeClass = ""
	for _, o := range []struct {
		op, in, out string
		arg         uint64
	}{
		{"i32.trunc_f32_u", "f", "i", 0x4f800000}, {"i32.trunc_f64_s", "F", "i", 0x41e0000000000000}, {"i32.trunc_f64_u", "F", "i", 0xbff0000000000000},
		{"i64.trunc_f32_s", "f", "I", 0x5f000000}, {"i64.trunc_f32_u", "f", "I", 0xbf800000}, {"i64.trunc_f64_s", "F", "I", 0x43e0000000000000}, {"i64.trunc_f64_u", "F", "I", 0x7ff8000000000000},
	} {
		mk("trunc-range-"+o.op, om.Handmade(cfg, o.in, o.out, o.op, true, false, nil, []string{"local.get $a", o.op}, u(o.arg)))
	}
	mk("i64-trunc-f32-s-wide", om.Handmade(cfg, "f", "I", "i64.trunc_f32_s", true, false, nil, []string{"local.get $a", "i64.trunc_f32_s"}, u(0x501502f9)))
	mk("i64-trunc-f32-u-wide", om.Handmade(cfg, "f", "I", "i64.trunc_f32_u", true, false, nil, []string{"local.get $a", "i64.trunc_f32_u"}, u(0x501502f9)))
	mk("i32-rem-s-min-m1", om.Handmade(cfg, "ii", "i", "i32.rem_s", true, false, nil, []string{"local.get $a", "local.get $b", "i32.rem_s"}, u(0x80000000, 0xffffffff)))
	mk("i64-rem-s-min-m1", om.Handmade(cfg, "II", "I", "i64.rem_s", true, false, nil, []string{"local.get $a", "local.get $b", "i64.rem_s"}, u(1<<63, ^uint64(0))))
	mk("f32-neg-zero", om.Handmade(cfg, "f", "f", "f32.neg", true, false, nil, []string{"local.get $a", "f32.neg"}, u(0), u(0x7fc00000)))
	mk("f64-neg-zero", om.Handmade(cfg, "F", "F", "f64.neg", true, false, nil, []string{"local.get $a", "f64.neg"}, u(0), u(0x7ff8000000000000)))
	mk("i32-rotl-negative", om.Handmade(cfg, "ii", "i", "i32.rotl", true, false, nil, []string{"local.get $a", "local.get $b", "i32.rotl"}, u(0x80000001, 4), u(0xf0000000, 1)))
	mk("i32-rotr-negative", om.Handmade(cfg, "ii", "i", "i32.rotr", true, false, nil, []string{"local.get $a", "local.get $b", "i32.rotr"}, u(0x80000001, 4)))
	mk("i64-rotl-negative", om.Handmade(cfg, "II", "I", "i64.rotl", true, false, nil, []string{"local.get $a", "local.get $b", "i64.rotl"}, u(1<<63|1, 4)))
	mk("f32-const-small", om.Handmade(cfg, "", "f", "f32.const", true, false, nil, []string{"f32.const 1e-10"}, u()))
	mk("f64-const-digits", om.Handmade(cfg, "", "F", "f64.const", true, false, nil, []string{"f64.const 0.1234567890123"}, u()))
	mk("memory-copy-overlap", om.Handmade(cfg, "", "", "memory.copy", true, true, nil, []string{"i32.const 8", "i32.const 0", "i32.const 200", "memory.copy"}, u()))
	mk("memory-grow-negative", om.Handmade(cfg, "i", "i", "memory.grow", true, true, nil, []string{"local.get $a", "memory.grow", "memory.size", "i32.const 100", "i32.mul", "i32.add"}, u(0xffffffff), u(0)))
	om.HandmadeClass = "oob"
	mk("load-oob", om.Handmade(cfg, "i", "i", "i32.load", true, false, nil, []string{"local.get $a", "i32.load"}, u(0xffffffff), u(65533), u(3*65536)))
	om.HandmadeClass = "sig"
	mk("call-indirect-sig", om.Handmade(cfg, "i", "i", "call_indirect", true, false, nil, []string{"i32.const 1", "i32.const 2", "local.get $a", "call_indirect (type $t_ii_i)"}, u(4), u(1)))
	om.HandmadeClass = "idx-oob"
	mk("call-indirect-idx-oob", om.Handmade(cfg, "i", "i", "call_indirect", true, false, nil, []string{"i32.const 1", "i32.const 2", "local.get $a", "call_indirect (type $t_ii_i)"}, u(9), u(0xffffffff)))
	om.HandmadeClass = ""
	mk("call-indirect-null", om.Handmade(cfg, "i", "i", "call_indirect", true, false, nil, []string{"i32.const 1", "i32.const 2", "local.get $a", "call_indirect (type $t_ii_i)"}, u(0), u(2)))
	mk("i32-div-s-min-m1", om.Handmade(cfg, "ii", "i", "i32.div_s", true, false, nil, []string{"local.get $a", "local.get $b", "i32.div_s"}, u(0x80000000, 0xffffffff), u(7, 0)))
	mk("global-f32-init", om.Handmade(cfg, "", "f", "global.get", true, false, nil, []string{"global.get $g_f"}, u()))
	om.HandmadeClass = ""
	mk("local-zero-i64", om.Handmade(cfg, "I", "I", "local.get", true, false, map[string]byte{"z": 'I'}, []string{"local.get $z"}, u(5)))
	mk("local-zero-f64", om.Handmade(cfg, "F", "F", "local.get", true, false, map[string]byte{"z": 'F'}, []string{"local.get $z"}, u(5)))
	mk("i64-trunc-f64-u-big", om.Handmade(cfg, "F", "I", "i64.trunc_f64_u", true, false, nil, []string{"local.get $a", "i64.trunc_f64_u"}, u(0x43e8000000000000), u(0x4008000000000000)))
	mk("i32-trunc-f64-u-big", om.Handmade(cfg, "F", "i", "i32.trunc_f64_u", true, false, nil, []string{"local.get $a", "i32.trunc_f64_u"}, u(0x41e8000000000000), u(0x4008000000000000)))
	mk("f32-convert-i32-u", om.Handmade(cfg, "i", "f", "f32.convert_i32_u", true, false, nil, []string{"local.get $a", "f32.convert_i32_u"}, u(0xffffff00), u(7)))
	mk("f64-convert-i32-u", om.Handmade(cfg, "i", "F", "f64.convert_i32_u", true, false, nil, []string{"local.get $a", "f64.convert_i32_u"}, u(0xffffff00), u(7)))
	mk("f32-convert-i64-u", om.Handmade(cfg, "I", "f", "f32.convert_i64_u", true, false, nil, []string{"local.get $a", "f32.convert_i64_u"}, u(0xffffff0000000000), u(7)))
	mk("memory-grow", om.Handmade(cfg, "i", "i", "memory.grow", true, true, nil, []string{"local.get $a", "memory.grow", "memory.size", "i32.const 100", "i32.mul", "i32.add"}, u(1), u(0), u(5), u(0xffffffff), u(1)))
	mk("i64-div-s-min-m1", om.Handmade(cfg, "II", "I", "i64.div_s", true, false, nil, []string{"local.get $a", "local.get $b", "i64.div_s"}, u(1<<63, ^uint64(0))))
	mk("i32-div-u-zero", om.Handmade(cfg, "ii", "i", "i32.div_u", true, false, nil, []string{"local.get $a", "local.get $b", "i32.div_u"}, u(7, 0)))
	mk("unreachable", om.Handmade(cfg, "i", "i", "unreachable", true, false, nil, []string{"local.get $a", "if $I", "unreachable", "end", "i32.const 1"}, u(0), u(1)))
	mk("i32-popcnt-clz-ctz", om.Handmade(cfg, "i", "i", "i32.clz", true, false, nil, []string{"local.get $a", "i32.clz", "local.get $a", "i32.ctz", "i32.add", "local.get $a", "i32.popcnt", "i32.add"}, u(0), u(0x80000000), u(0x10), u(0xffffffff)))
	mk("i64-popcnt-clz-ctz", om.Handmade(cfg, "I", "I", "i64.clz", true, false, nil, []string{"local.get $a", "i64.clz", "local.get $a", "i64.ctz", "i64.add", "local.get $a", "i64.popcnt", "i64.add"}, u(0), u(1<<63), u(0x10), u(^uint64(0))))
	mk("f32-copysign-abs", om.Handmade(cfg, "ff", "f", "f32.copysign", true, false, nil, []string{"local.get $a", "f32.abs", "local.get $b", "f32.copysign"}, u(0x7fc00001, 0x80000000), u(0xbf800000, 0)))
	mk("f64-ceil-floor-trunc", om.Handmade(cfg, "F", "F", "f64.ceil", false, false, nil, []string{"local.get $a", "f64.ceil", "local.get $a", "f64.floor", "f64.add", "local.get $a", "f64.trunc", "f64.add"}, u(0xbfe0000000000000), u(0x4004000000000000), u(0x8000000000000000)))
	mk("f32-sqrt-neg", om.Handmade(cfg, "f", "f", "f32.sqrt", false, false, nil, []string{"local.get $a", "f32.sqrt"}, u(0xbf800000), u(0x40800000), u(0x80000000)))
	mk("i32-shifts", om.Handmade(cfg, "ii", "i", "i32.shr_s", true, false, nil, []string{"local.get $a", "local.get $b", "i32.shr_s", "local.get $a", "local.get $b", "i32.shr_u", "i32.xor", "local.get $a", "local.get $b", "i32.shl", "i32.xor"}, u(0x80000001, 33), u(0xf0000000, 4), u(5, 0xffffffff)))
	mk("i64-shifts", om.Handmade(cfg, "II", "I", "i64.shr_s", true, false, nil, []string{"local.get $a", "local.get $b", "i64.shr_s", "local.get $a", "local.get $b", "i64.shr_u", "i64.xor", "local.get $a", "local.get $b", "i64.shl", "i64.xor"}, u(1<<63|1, 65), u(0xf000000000000000, 4)))
	mk("select-f64", om.Handmade(cfg, "FFi", "F", "select", true, false, nil, []string{"local.get $a", "local.get $b", "local.get $c", "select"}, u(1, 2, 0), u(1, 2, 0x100)))
	mk("params-12", om.Handmade(cfg, "iIfFiIfFiIfF", "F", "local.get", true, false, nil, []string{"local.get $l"}, u(1, 2, 3, 4, 5, 6, 7, 8, 9, 10, 11, 12)))
	mk("params-9-i32", om.Handmade(cfg, "iiiiiiiii", "i", "local.get", true, false, nil, []string{"local.get $g", "local.get $i", "i32.add"}, u(1, 2, 3, 4, 5, 6, 7, 8, 9)))
	mk("x-pending-values-loop", om.Handmade(cfg, "i", "ii", "br", true, false, nil, []string{"i32.const 11", "i32.const 22", "block $b", "loop $l", "local.get $a", "i32.eqz", "if $I", "br $b", "else", "end", "local.get $a", "i32.const 1", "i32.sub", "local.set $a", "br $l", "end", "end"}, u(3), u(0)))
	mk("x-if-multi-result", om.Handmade(cfg, "i", "ii", "if", true, false, nil, []string{"local.get $a", "if $I (result i32 i32)", "i32.const 11", "i32.const 22", "else", "i32.const 33", "i32.const 44", "end"}, u(1), u(0)))
	mk("x-if-multi-result-call", om.Handmade(cfg, "i", "ii", "if", true, false, map[string]byte{"d": 'i'}, []string{"local.get $a", "if $I (result i32 i32)", "i32.const 11", "i32.const 22", "else", "i32.const 5", "i32.const 6", "call $h_add", "call $h_dup", "local.set $d", "i32.const 44", "drop", "end"}, u(1), u(0)))
	mk("x-append-then", om.Handmade(cfg, "iiiiiiii", "i", "if", true, true, map[string]byte{"item": 'i', "xlen": 'i', "ylen": 'i', "newlen": 'i', "src": 'i', "dest": 'i'}, []string{
		"local.get $c", "local.set $xlen", "local.get $g", "local.set $ylen", "local.get $xlen", "local.get $ylen", "i32.add", "local.set $newlen",
		"local.get $newlen", "local.get $d", "i32.le_u",
		"if $I (result i32 i32 i32 i32)",
		"local.get $a", "i32.const 0", "call $h_add", "local.get $b", "local.get $newlen", "local.get $d",
		"local.get $f", "local.set $src", "local.get $b", "i32.const 4", "local.get $xlen", "i32.mul", "i32.add", "local.set $dest",
		"block $block1", "loop $loop1", "local.get $ylen", "i32.eqz", "if $J", "br $block1", "else", "end",
		"local.get $src", "i32.load offset=0 align=4", "local.set $item", "local.get $dest", "local.get $item", "i32.store offset=0 align=4",
		"local.get $src", "i32.const 4", "i32.add", "local.set $src", "local.get $dest", "i32.const 4", "i32.add", "local.set $dest",
		"local.get $ylen", "i32.const 1", "i32.sub", "local.set $ylen", "br $loop1", "end", "end",
		"else", "i32.const 1", "i32.const 2", "i32.const 3", "i32.const 4", "end",
		"i32.add", "i32.add", "i32.add"}, u(100, 1024, 3, 10, 200, 2048, 1, 1)))
	mk("x-8params-4results", om.Handmade(cfg, "iiiiiiii", "iiii", "return", true, false, nil, []string{"local.get $g", "local.get $h", "local.get $a", "local.get $f"}, u(1, 2, 3, 4, 5, 6, 7, 8)))
	mk("x-2params-4results", om.Handmade(cfg, "ii", "iiii", "return", true, false, nil, []string{"local.get $a", "local.get $b", "local.get $a", "local.get $b"}, u(1, 2)))
	mk("x-7params-3results", om.Handmade(cfg, "iIfFiIi", "iIi", "return", true, false, nil, []string{"local.get $g", "local.get $f", "local.get $a"}, u(1, 2, 3, 4, 5, 6, 7)))
}
