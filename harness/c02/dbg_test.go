package c02

import (
	"os"
	"testing"

	"wa-lang.org/wa/zverif/harness/wk"
)

func TestDbgWat(t *testing.T) {
	defer theWorker().Close()
	src, _ := os.ReadFile(os.Getenv("DBG_SRC"))
	o := theWorker().Do("native_build", wk.Src{Name: "p.wa", Src: string(src)})
	var b nativeBuilt
	o.Decode(&b)
	os.WriteFile("/tmp/c3scratch/p.wat", []byte(b.Wat), 0o644)
	os.WriteFile("/tmp/c3scratch/p.nasm", []byte(b.Nasm), 0o644)
}
