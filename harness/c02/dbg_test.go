package c02

import (
	"os"
	"testing"
)

func TestDbgAsm(t *testing.T) {
	wat, _ := os.ReadFile(os.Getenv("DBG_WAT"))
	asm, err, p := translate(string(wat))
	if err != nil || p != "" {
		t.Fatal(err, p)
	}
	os.WriteFile("/tmp/c3scratch/ab.s", asm, 0o644)
}
