package c02

import (
	"testing"

	"wa-lang.org/wa/zverif/harness/core"
	om "wa-lang.org/wa/zverif/harness/opmatrix"
)

// Every instruction the WAT front end accepts has a generator shape (the
// per-(opcode, class) histogram of the OpMatrix test shows what was executed).
func TestInstructionSet(t *testing.T) {
	if !core.FirstShard() {
		return
	}
	s := core.NewStats(prop, "InstructionSet")
	defer s.Flush()
	s.Rule("static enumeration of internal/wat/token instructions against the generator's shape table; memory.init is attempted and recorded as rejected by the assembler")
	om.CheckInstructionSet(t, s)
}
