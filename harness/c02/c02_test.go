// Package c02 checks property C02: native x86-64 executables behave like the
// WebAssembly build.  The same WAT is (1) assembled with watutil.Wat2Wasm and
// run on the vendored wazero with a harness host module syscall_linux, and
// (2) translated with wat2x64.Wat2X64(.., abi.X64Unix, ""), built with the gcc
// command line of internal/app/appnative/native_x64/build_wa_wz.go and
// executed; stdout bytes and the exit status must agree.
package c02

import (
	"bytes"
	"encoding/json"
	"fmt"
	"os"
	"os/exec"
	"path/filepath"
	"strings"
	"sync"
	"syscall"
	"testing"

	"pgregory.net/rapid"
	"wa-lang.org/wa/internal/native/abi"
	"wa-lang.org/wa/internal/native/wat2x64"
	"wa-lang.org/wa/zverif/harness/core"
	om "wa-lang.org/wa/zverif/harness/opmatrix"
)

const prop = "C02"

func TestMain(m *testing.M) { core.Main(m) }

const maxOut = 4 << 20

// translate runs wat2x64 in-process; a panic is an outcome.
func translate(wat string) (asm []byte, err error, panicked string) {
	defer func() {
		if r := recover(); r != nil {
			panicked = fmt.Sprint(r)
		}
	}()
	_, asm, err = wat2x64.Wat2X64("opm.wat", []byte(wat), abi.X64Unix, "")
	return
}

// nativeRun is what the executable did.
type nativeRun struct {
	Stdout       []byte
	Stderr       string
	Exited       bool
	Code         int
	Signal       string
	Inconclusive string
	BuildErr     string
}

func (n nativeRun) endString() string {
	if n.Exited {
		return fmt.Sprintf("exit status %d", n.Code)
	}
	return "killed by " + n.Signal
}

func limited(cpu int, dir string, name string, args ...string) (so, se []byte, err error, ws syscall.WaitStatus) {
	sh := fmt.Sprintf("ulimit -t %d; exec \"$0\" \"$@\"", cpu)
	cmd := exec.Command("/bin/sh", append([]string{"-c", sh, name}, args...)...)
	cmd.Dir = dir
	var o, e bytes.Buffer
	cmd.Stdout, cmd.Stderr = &o, &e
	err = cmd.Run()
	if cmd.ProcessState != nil {
		ws, _ = cmd.ProcessState.Sys().(syscall.WaitStatus)
	}
	return o.Bytes(), e.Bytes(), err, ws
}

// buildAndRun assembles/links exactly like BuildApp_wa_wz on linux/amd64
// (gcc <file.s> -o <exe> -static -z noexecstack -nostdlib) and runs the
// executable without arguments.
func buildAndRun(asm []byte, extraAsm string) (r nativeRun) {
	dir, err := os.MkdirTemp("", "c02-")
	if err != nil {
		r.Inconclusive = err.Error()
		return
	}
	defer os.RemoveAll(dir)
	src := append(append([]byte{}, asm...), extraAsm...)
	os.WriteFile(filepath.Join(dir, "app.exe.s"), src, 0o666)
	_, se, err, ws := limited(120, dir, "gcc", "app.exe.s", "-o", "app.exe", "-static", "-z", "noexecstack", "-nostdlib")
	if err != nil {
		if ws.Signaled() {
			r.Inconclusive = "gcc killed by " + ws.Signal().String()
			return
		}
		if _, isExit := err.(*exec.ExitError); !isExit {
			r.Inconclusive = "cannot run gcc: " + err.Error()
			return
		}
		r.BuildErr = head(string(se), 600)
		return
	}
	so, se, err, ws := limited(20, dir, "./app.exe")
	r.Stdout, r.Stderr = so, head(string(se), 300)
	if len(r.Stdout) > maxOut {
		r.Stdout = r.Stdout[:maxOut]
	}
	switch {
	case ws.Signaled() && (ws.Signal() == syscall.SIGXCPU || ws.Signal() == syscall.SIGKILL):
		r.Inconclusive = "executable hit the CPU limit (" + ws.Signal().String() + ")"
	case ws.Signaled():
		r.Signal = ws.Signal().String()
	case err == nil || ws.Exited():
		r.Exited, r.Code = true, ws.ExitStatus()
	default:
		r.Inconclusive = "cannot run the executable: " + err.Error()
	}
	return
}

func head(s string, n int) string {
	if len(s) > n {
		return s[:n] + "…"
	}
	return s
}

// ---------------------------------------------------------------- oracle (layer I)

type payload struct {
	Kind string   `json:"kind"` // "opmatrix" | "program"
	Case *om.Case `json:"case,omitempty"`
	Name string   `json:"name,omitempty"`
	Src  string   `json:"src,omitempty"`
}

type verdict struct {
	key, what    string
	call         int
	rejected     string
	inconclusive string
	wz           om.LinuxRun
	lines        int // output lines compared
	all          []item
}

type item struct {
	call      int
	key, what string
}

// lineOwner maps an output line index (0 = the marker) to the call printing it.
func lineOwner(c *om.Case, line int) int {
	n := 1
	for k, call := range c.Calls {
		n += om.LinesOf(&c.Funcs[call.F])
		if line < n {
			return k
		}
	}
	return len(c.Calls) - 1
}

func callKey(c *om.Case, k int) string {
	if k < 0 || k >= len(c.Calls) {
		return "op=_start/script"
	}
	f := &c.Funcs[c.Calls[k].F]
	return keyCfg.Key(f.Op, c.Calls[k].Class)
}

// group merges the (opcode, class) pairs that share one root cause in wat2x64.
func group(op, class string) (string, string) {
	base := op
	if i := strings.IndexByte(op, '.'); i >= 0 {
		base = op[i+1:]
	}
	switch {
	case (base == "min" || base == "max") && (class == "nan" || class == "+0/-0"):
		return "f.minmax", "nan-or-signed-zeros" // minss/maxss/minsd/maxsd semantics
	case strings.HasPrefix(base, "trunc_f") && (class == "oor" || class == "nan"):
		return "trunc_f", "oor-or-nan" // cvttss2si/cvttsd2si without range check
	case strings.HasPrefix(base, "trunc_f") && strings.HasSuffix(base, "_u") && class == ">=2^63":
		return "i64.trunc_f_u", ">=2^63"
	case base == "convert_i64_u" && class == "u>=2^63":
		return "convert_i64_u", "u>=2^63" // cvtsi2ss/sd treat the operand as signed
	case base == "rem_s" && class == "min/-1":
		return "rem_s", "min/-1" // idiv overflow
	}
	return "", ""
}

var keyCfg = &om.Config{Group: group}

func evalCase(c *om.Case) (v verdict) {
	v.call = -1
	wasm, err := om.Assemble(c.Wat)
	if err != nil {
		v.inconclusive = "assembler rejected the module: " + err.Error()
		return
	}
	v.wz = om.RunLinux(wasm, false, maxOut)
	if v.wz.Err != "" {
		v.inconclusive = "wazero cannot load the module: " + v.wz.Err
		return
	}
	asm, terr, panicked := translate(c.Wat)
	if terr != nil {
		v.rejected = "error: " + terr.Error()
		return
	}
	if panicked != "" {
		v.rejected = "panic: " + panicked
		return
	}
	nr := buildAndRun(asm, "")
	if nr.Inconclusive != "" {
		v.inconclusive = nr.Inconclusive
		return
	}
	if nr.BuildErr != "" {
		v.key, v.what = "asm-build", "gcc rejects the generated assembly: "+nr.BuildErr
		return
	}
	wl := strings.Split(string(v.wz.Stdout), "\n")
	nl := strings.Split(string(nr.Stdout), "\n")
	n := len(wl)
	if len(nl) < n {
		n = len(nl)
	}
	if len(wl) == len(nl) {
		// same number of lines: every differing line is attributable to its own call
		seen := map[int]bool{}
		for i := 0; i < n; i++ {
			if wl[i] != nl[i] {
				k := lineOwner(c, i)
				if !seen[k] {
					seen[k] = true
					v.all = append(v.all, item{k, callKey(c, k), fmt.Sprintf("%s: output line %d: wazero %q, native %q", om.Describe(c, k), i, head(wl[i], 80), head(nl[i], 80))})
				}
				if f := &c.Funcs[c.Calls[k].F]; f.Stateful {
					break
				}
			}
		}
	}
	for i := 0; i < n; i++ {
		if wl[i] != nl[i] {
			if i == n-1 && (len(wl) != len(nl)) && (strings.HasPrefix(wl[i], nl[i]) || strings.HasPrefix(nl[i], wl[i])) {
				break // one side simply stopped here
			}
			k := lineOwner(c, i)
			v.call, v.key = k, callKey(c, k)
			v.what = fmt.Sprintf("%s: output line %d: wazero %q, native %q (native ended with %s)", om.Describe(c, k), i, head(wl[i], 80), head(nl[i], 80), nr.endString())
			return
		}
	}
	v.lines = n
	if !bytes.Equal(v.wz.Stdout, nr.Stdout) {
		short := len(wl)
		if len(nl) < short {
			short = len(nl)
		}
		k := lineOwner(c, short-1)
		v.call, v.key = k, callKey(c, k)
		v.what = fmt.Sprintf("%s: wazero printed %d lines and ended with %s %d %s; native printed %d lines and ended with %s; stderr %q",
			om.Describe(c, k), len(wl)-1, v.wz.End, v.wz.Code, head(v.wz.Trap, 60), len(nl)-1, nr.endString(), nr.Stderr)
		return
	}
	// same output: compare how the run ended
	switch v.wz.End {
	case "exit":
		if !nr.Exited || nr.Code != v.wz.Code {
			k := len(c.Calls) - 1
			v.call, v.key = k, "exit-status"
			if !nr.Exited {
				v.key = callKey(c, k)
			}
			v.what = fmt.Sprintf("same output, but wazero ended with exit status %d and the native executable with %s; stderr %q", v.wz.Code, nr.endString(), nr.Stderr)
		}
	case "trap":
		if nr.Exited && nr.Code == 0 {
			k := lineOwner(c, len(wl)-1)
			v.call, v.key = k, callKey(c, k)
			v.what = fmt.Sprintf("%s: wazero trapped (%s) after %d lines; the native executable ran on and exited with status 0", om.Describe(c, k), head(v.wz.Trap, 80), len(wl)-1)
		}
	}
	return
}

func exclusion() (*om.Exclusion, *om.Config) {
	ex := om.NewExclusion(prop)
	return ex, &om.Config{Excluded: ex.Excluded, OnExcluded: ex.OnExcluded, NFuncs: core.Scale(40, 60), CallsPer: 3, Start: true, Group: group}
}

func TestOpMatrixNative(t *testing.T) {
	s := core.NewStats(prop, "OpMatrixNative")
	s.Rule("rapid: opmatrix modules (one-instruction / short-chain functions over the accepted instruction set, control shapes, memory at every width/offset/alignment, bulk memory, grow, globals, call/call_indirect, up to 12 parameters of mixed types) whose generated _start runs the call script with immediate operands and reports every result (floats as bit patterns, NaN canonicalised unless bit-exact by the spec), a memory hash after every stateful call and finally proc_exit(code), through the imports the native runtime provides (syscall_linux.print_i64/print_rune/print_str/proc_exit); at most one call expected to trap, placed last; oracle = stdout bytes and exit status (trap ⇒ abnormal end) of the gcc-linked wat2x64 output versus wazero with a harness syscall_linux host; non-trivial = distinct (opcode, operand class) pairs that reached a verdict")
	s.Assume("vendored wazero (checked against V8 by C31) is the reference; gcc/as/ld as installed")
	ex, cfg := exclusion()
	defer ex.Flush(s)
	s.Check(t, func(t *rapid.T, c *core.Case) {
		oc := om.Generate(t, cfg)
		c.Set(payload{Kind: "opmatrix", Case: oc.Strip()})
		v := evalCase(oc)
		if v.rejected != "" {
			if strings.HasPrefix(v.rejected, "panic:") {
				for i := range oc.Funcs {
					if oc.Funcs[i].Text == "" {
						continue
					}
					one := om.Minimal(oc, cfg, firstCallOf(oc, i))
					if _, _, p := translate(one.Wat); p != "" {
						c.Set(payload{Kind: "opmatrix", Case: one.Strip()})
						c.Fail(fmt.Sprintf("op=%s/%s@wat2x64-panic", oc.Funcs[i].Op, oc.Funcs[i].ShapeClass()), "wat2x64 panics instead of translating or returning an error: %s\n%s", head(v.rejected, 300), oc.Funcs[i].Text)
						break
					}
				}
			}
			s.Counter("rejected_by_domain/translator", 1)
			s.Note("translator rejected: " + head(v.rejected, 200))
			return
		}
		if v.inconclusive != "" {
			s.Counter("inconclusive", 1)
			s.Note("inconclusive: " + head(v.inconclusive, 200))
			t.Skip(v.inconclusive)
		}
		if v.key != "" {
			pl := payload{Kind: "opmatrix", Case: oc.Strip()}
			if !core.IsKnown(prop, v.key) && v.call >= 0 {
				mc := om.Minimal(oc, cfg, v.call)
				if mv := evalCase(mc); mv.key == v.key {
					pl.Case, v.what = mc.Strip(), mv.what
				}
			}
			if dir := os.Getenv("C02_SURVEY"); dir != "" {
				for _, it := range v.all {
					fn := filepath.Join(dir, strings.NewReplacer("/", "_", " ", "_", ">", "gt", "<", "lt", "*", "x").Replace(it.key)+".txt")
					if _, err := os.Stat(fn); err != nil {
						os.WriteFile(fn, []byte(it.what+"\n"+oc.Funcs[oc.Calls[it.call].F].Text), 0o644)
					}
				}
				raw, _ := json.Marshal(pl)
				data, _ := json.MarshalIndent(core.ReplayFile{Property: prop, Test: "OpMatrixNative", Key: v.key, What: v.what, Seed: core.Seed(), Case: raw}, "", " ")
				fn := filepath.Join(dir, strings.NewReplacer("/", "_", " ", "_", ">", "gt", "<", "lt", "*", "x").Replace(v.key)+".json")
				if _, err := os.Stat(fn); err != nil {
					os.WriteFile(fn, data, 0o644)
				}
				return
			}
			c.Set(pl)
			c.Fail(v.key, "%s", v.what)
		}
		// account for the calls that produced compared output
		done := 1
		for k, call := range oc.Calls {
			f := &oc.Funcs[call.F]
			done += om.LinesOf(f)
			if done > v.lines+1 && v.wz.End == "trap" && om.LinesOf(f) > 0 {
				s.Count("op="+f.Op+"/"+call.Class, 1) // the trapping call itself
				s.Nontrivial(core.Hash64(f.Op, call.Class))
				s.Count("outcome/trap", 1)
				break
			}
			s.Count("op="+f.Op+"/"+call.Class, 1)
			s.Nontrivial(core.Hash64(f.Op, call.Class))
			s.Count("outcome/return", 1)
			if k == len(oc.Calls)/2 {
				s.Sample(map[string]interface{}{"func": f.Text, "call": om.Describe(oc, k), "exit": fmt.Sprintf("%s %d", v.wz.End, v.wz.Code), "stdout_lines": v.lines})
			}
		}
		for _, f := range oc.Funcs {
			s.Count("shape/"+f.Shape, 1)
		}
		s.Count("end/"+v.wz.End, 1)
		s.Eval(int64(len(oc.Calls)) - 1)
	})
}

func firstCallOf(c *om.Case, fi int) int {
	for k, call := range c.Calls {
		if call.F == fi {
			return k
		}
	}
	args := make([]string, len(c.Funcs[fi].Params))
	for i := range args {
		args[i] = "0"
	}
	c.Calls = append(c.Calls, om.Call{F: fi, Args: args, Class: "-"})
	return len(c.Calls) - 1
}

// ---------------------------------------------------------------- replay

// replay answers from a table filled by evaluating all corpus files
// concurrently (core.RunReplays calls it sequentially on the first shard).
func replay(test string, raw json.RawMessage) (string, string) {
	if os.Getenv("VERIF_MODE") == "corpus" {
		prewarmOnce.Do(prewarm)
		if r, ok := prewarmed[string(raw)]; ok {
			return r[0], r[1]
		}
	}
	return replayOne(test, raw)
}

var (
	prewarmOnce sync.Once
	prewarmed   = map[string][2]string{}
)

func prewarm() {
	files, _ := filepath.Glob(filepath.Join(core.VerifDir(), "corpus", prop, "*.json"))
	var mu sync.Mutex
	var wg sync.WaitGroup
	sem := make(chan struct{}, 8)
	for _, f := range files {
		rf, err := core.LoadReplay(f)
		if err != nil {
			continue
		}
		wg.Add(1)
		go func(rf *core.ReplayFile) {
			defer wg.Done()
			sem <- struct{}{}
			defer func() { <-sem }()
			defer func() { recover() }() // a panicking case is evaluated again (and reported) by the sequential path
			k, w := replayOne(rf.Test, rf.Case)
			mu.Lock()
			prewarmed[string(rf.Case)] = [2]string{k, w}
			mu.Unlock()
		}(rf)
	}
	wg.Wait()
}

func replayOne(test string, raw json.RawMessage) (string, string) {
	var p payload
	if err := json.Unmarshal(raw, &p); err != nil {
		return "harness/bad-replay", err.Error()
	}
	if p.Kind == "program" {
		key, what, _ := CompareProgramSource(p.Name, p.Src)
		if strings.HasPrefix(key, "rejected/") || strings.HasPrefix(key, "inconclusive/") {
			return "", ""
		}
		return key, what
	}
	if p.Case == nil {
		return "harness/bad-replay", "no case"
	}
	v := evalCase(p.Case)
	if strings.HasPrefix(v.rejected, "panic:") && len(p.Case.Funcs) >= 5 {
		f := p.Case.Funcs[len(p.Case.Funcs)-5]
		return fmt.Sprintf("op=%s/%s@wat2x64-panic", f.Op, f.ShapeClass()), "wat2x64 panics instead of translating or returning an error: " + head(v.rejected, 300)
	}
	return v.key, v.what
}

func TestReplay(t *testing.T) { core.RunReplays(t, prop, replay) }
