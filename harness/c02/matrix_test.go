package c02

import (
	"fmt"
	"testing"

	"wa-lang.org/wa/zverif/harness/core"
	om "wa-lang.org/wa/zverif/harness/opmatrix"
)

// TestBoundaryMatrix: every non-trapping cell of the boundary matrix (see
// opmatrix/matrix.go) as one native executable per shard versus wazero.  A
// native process cannot continue after a trap, so the cells that trap on the
// reference engine are dropped here (the random group runs them one per
// module) and counted.
func TestBoundaryMatrix(t *testing.T) {
	s := core.NewStats(prop, "BoundaryMatrix")
	defer s.Flush()
	s.Rule("deterministic enumeration (sharded by instruction index): one function per plain numeric instruction of the accepted set × the complete boundary matrix (integer unary = special ∪ shift-count list, integer binary = special × special, shifts/rotates special × counts, float unary = whole special list, float binary = fixed 26-value subset squared), compiled into a _start script; cells of known findings and cells that trap on wazero are dropped and counted; oracle as OpMatrixNative (stdout bytes + exit status of the wat2x64+gcc executable versus wazero); non-trivial = cells with a boundary operand")
	s.Exhaustive(true)
	ex, cfg := exclusion()
	defer ex.Flush(s)
	sh, n := core.Shard()
	plain := *cfg
	plain.Start = false
	pc, st := om.Matrix(&plain, sh, n)
	wasm, err := om.Assemble(pc.Wat)
	if err != nil {
		t.Fatalf("harness: assembler rejected the matrix module: %v", err)
	}
	ref := om.RunWazero(wasm, pc, false, false)
	if ref.Err != "" {
		t.Fatalf("harness: wazero cannot load the matrix module: %s", ref.Err)
	}
	oc, traps := om.WithoutTraps(pc, cfg, ref.Calls)
	v := evalCase(oc)
	if v.rejected != "" {
		t.Fatalf("VIOLATION-CANDIDATE harness: translator rejected the matrix module: %s", head(v.rejected, 300))
	}
	if v.inconclusive != "" {
		s.Counter("inconclusive", 1)
		t.Skip(v.inconclusive)
	}
	report := func(call int, key, what string) {
		c := s.NewCase(t)
		pl := payload{Kind: "opmatrix", Case: oc.Strip()}
		if call >= 0 {
			pl.Case = om.Minimal(oc, cfg, call).Strip()
		}
		c.Set(pl)
		c.Fail(key, "%s", what)
	}
	for _, it := range v.all {
		report(it.call, it.key, it.what)
	}
	if v.key != "" && len(v.all) == 0 {
		report(v.call, v.key, v.what)
	}
	boundary := 0
	for _, call := range oc.Calls {
		f := &oc.Funcs[call.F]
		s.Count("op="+f.Op+"/"+call.Class, 1)
		if om.BoundaryCell(f, call) {
			s.Nontrivial(core.Hash64(f.Op, call.Args))
			boundary++
		}
	}
	s.Eval(int64(len(oc.Calls)))
	s.Counter("matrix/cells", int64(len(oc.Calls)))
	s.Counter("matrix/cells_with_boundary_operand", int64(boundary))
	s.Counter("matrix/trapping_cells_dropped", int64(traps))
	s.Counter("matrix/cells_excluded_by_known", int64(st.Excluded))
	s.Counter("matrix/instructions", int64(st.Ops))
	if len(oc.Calls) > 0 {
		k := len(oc.Calls) / 2
		s.Sample(map[string]interface{}{"cell": om.Describe(oc, k), "stdout_lines": v.lines, "exit": fmt.Sprintf("%s %d", v.wz.End, v.wz.Code)})
	}
}
