package c02

import (
	"bytes"
	"fmt"
	"strings"
	"sync"
	"testing"

	"pgregory.net/rapid"
	"wa-lang.org/wa/zverif/harness/core"
	om "wa-lang.org/wa/zverif/harness/opmatrix"
	"wa-lang.org/wa/zverif/harness/wk"
)

var (
	workerOnce sync.Once
	worker     *wk.Client
)

func theWorker() *wk.Client {
	workerOnce.Do(func() { worker = wk.New(wk.Options{}) })
	return worker
}

type nativeBuilt struct {
	Main    string `json:"main"`
	Wat     string `json:"wat"`
	Nasm    string `json:"nasm"`
	GccArgs string `json:"gccargs"`
	Clang   string `json:"clang"`
}

// CompareProgramSource is the plug-in hook for generated programs (layer II):
// Wa source -> WAT exactly as `wa native build` (TargetOS=linux, arch x64)
// produces it (worker op native_build) -> (1) Wat2Wasm + wazero with the
// syscall_linux host, (2) Wat2X64 + the program's own assembly + gcc, run.
// stdout bytes and exit status must agree.  Keys starting "rejected/" or
// "inconclusive/" are not violations.
func CompareProgramSource(name, src string) (key, what string, outBytes int) {
	o := theWorker().Do("native_build", wk.Src{Name: name, Src: src})
	if o.Kind != wk.OK {
		return "rejected/build", o.String(), 0
	}
	var b nativeBuilt
	if err := o.Decode(&b); err != nil {
		return "rejected/build", err.Error(), 0
	}
	if b.GccArgs != "" || b.Clang != "" {
		return "rejected/needs-c-toolchain-args", "program carries gcc arguments / C code (not generated here)", 0
	}
	wasm, err := om.Assemble(b.Wat)
	if err != nil {
		return "rejected/assemble", err.Error(), 0
	}
	wz := om.RunLinux(wasm, false, maxOut)
	if wz.Err != "" {
		return "rejected/wazero-load", wz.Err, 0
	}
	asm, terr, panicked := translate(b.Wat)
	if terr != nil {
		return "rejected/wat2x64-error", terr.Error(), 0
	}
	if panicked != "" {
		return "program/wat2x64-panic", "wat2x64 panics on compiler output: " + head(panicked, 300), 0
	}
	nr := buildAndRun(asm, b.Nasm)
	if nr.Inconclusive != "" {
		return "inconclusive/native", nr.Inconclusive, 0
	}
	if nr.BuildErr != "" {
		return "program/asm-build", "gcc rejects the assembly generated from compiler output: " + nr.BuildErr, 0
	}
	if !bytes.Equal(wz.Stdout, nr.Stdout) {
		wl, nl := strings.Split(string(wz.Stdout), "\n"), strings.Split(string(nr.Stdout), "\n")
		i := 0
		for i < len(wl) && i < len(nl) && wl[i] == nl[i] {
			i++
		}
		a, bb := "<end>", "<end>"
		if i < len(wl) {
			a = wl[i]
		}
		if i < len(nl) {
			bb = nl[i]
		}
		return "program/stdout", fmt.Sprintf("stdout line %d: wazero %q, native %q (wazero %s %d, native %s, stderr %q)", i+1, head(a, 120), head(bb, 120), wz.End, wz.Code, nr.endString(), nr.Stderr), len(wz.Stdout)
	}
	switch wz.End {
	case "exit":
		if !nr.Exited || nr.Code != wz.Code {
			return "program/exit-status", fmt.Sprintf("same stdout (%d bytes); wazero exit status %d, native %s, stderr %q", len(wz.Stdout), wz.Code, nr.endString(), nr.Stderr), len(wz.Stdout)
		}
	case "trap":
		if nr.Exited && nr.Code == 0 {
			return "program/exit-status", fmt.Sprintf("wazero trapped (%s), the native executable exited with status 0", head(wz.Trap, 100)), len(wz.Stdout)
		}
	}
	return "", "", len(wz.Stdout)
}

func checkProgram(s *core.Stats, c *core.Case, p om.Program) {
	c.Set(payload{Kind: "program", Name: p.Name, Src: p.Src})
	key, what, n := CompareProgramSource(p.Name, p.Src)
	switch {
	case key == "":
		s.Count("program/equal", 1)
		if n >= 5 {
			s.Nontrivial(core.Hash64(p.Src))
			s.Sample(map[string]interface{}{"program": p.Name, "stdout_bytes": n})
		}
	case strings.HasPrefix(key, "rejected/"), strings.HasPrefix(key, "inconclusive/"):
		s.Counter(key, 1)
		s.Note(fmt.Sprintf("%s: %s: %s", p.Name, key, head(what, 200)))
	default:
		c.Fail(key, "%s: %s", p.Name, what)
	}
}

func TestExamplePrograms(t *testing.T) {
	s := core.NewStats(prop, "ExamplePrograms")
	defer s.Flush()
	defer theWorker().Close()
	s.Rule("enumeration of the single-file programs under waroot/examples (quick: the cheap ones) compiled as `wa native build` does (TargetOS=linux, arch x64 -> WAT); the same WAT runs on wazero with a syscall_linux host and as wat2x64+gcc executable; stdout bytes and exit status must agree (both sides run the same Wa-level print code); non-trivial = >= 5 bytes of output compared")
	sh, n := core.Shard()
	k := 0
	for _, p := range om.ExamplePrograms() {
		if !core.Thorough() && !om.QuickProgram(p.Name) {
			continue
		}
		k++
		if k%n != sh {
			continue
		}
		checkProgram(s, s.NewCase(t), p)
		s.Eval(1)
	}
}

func TestTemplatePrograms(t *testing.T) {
	s := core.NewStats(prop, "TemplatePrograms")
	defer theWorker().Close()
	s.Rule("rapid: small hand-templated Wa programs with drawn constants (stand-in for the typed program generator; hook CompareProgramSource); same oracle as ExamplePrograms")
	s.Check(t, func(t *rapid.T, c *core.Case) {
		checkProgram(s, c, om.TemplateProgram(t))
	})
}
