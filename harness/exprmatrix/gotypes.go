package exprmatrix

import (
	"fmt"
	"go/ast"
	"go/constant"
	"go/parser"
	"go/token"
	"go/types"
	"math/big"
	"strings"
)

// ConstDecl is one constant declaration `const c<i>[: T] = E` (Decl == true) or
// `const c<i> = T(E)` (Decl == false, T typed); T == numTypes… is spelled by
// Typed == false: `const c<i> = E`.
type ConstDecl struct {
	E     *Expr `json:"e"`
	Typed bool  `json:"typed,omitempty"` // a target type T is applied
	T     Type  `json:"t"`               // the target type when Typed
	Conv  bool  `json:"conv,omitempty"`  // write T(E) instead of `: T`
}

// Wa renders the declaration for constant number i.
func (d ConstDecl) Wa(i int) string {
	switch {
	case !d.Typed:
		return fmt.Sprintf("const c%d = %s", i, d.E.Wa(AsConstants))
	case d.Conv:
		return fmt.Sprintf("const c%d = %s(%s)", i, d.T, d.E.Wa(AsConstants))
	}
	return fmt.Sprintf("const c%d: %s = %s", i, d.T, d.E.Wa(AsConstants))
}

// Go renders the declaration for constant number i.
func (d ConstDecl) Go(i int) string {
	switch {
	case !d.Typed:
		return fmt.Sprintf("const c%d = %s", i, d.E.Go(AsConstants))
	case d.Conv:
		return fmt.Sprintf("const c%d = %s(%s)", i, d.T.GoName(), d.E.Go(AsConstants))
	}
	return fmt.Sprintf("const c%d %s = %s", i, d.T.GoName(), d.E.Go(AsConstants))
}

// Exact evaluates the declaration with ConstEval: the exact value of c<i>, or
// the reason the declaration must be rejected.
func (d ConstDecl) Exact() (Const, *Reject) {
	c, rej := ConstEval(d.E)
	if rej != nil {
		return Const{}, rej
	}
	if !d.Typed {
		return c, nil
	}
	return c.convert(d.T, d.E)
}

// ResultType is the type of c<i> when the declaration is valid.
func (d ConstDecl) ResultType() Type {
	if d.Typed {
		return d.T
	}
	return d.E.T
}

// GoVerdict is go/types' opinion on one declaration.
type GoVerdict struct {
	OK    bool
	Err   string   // first error reported inside the declaration
	Kind  string   // "bool" | "int" | "float" when OK
	Int   *big.Int // exact value (Kind int)
	Rat   *big.Rat // exact value (Kind float; nil when go/constant left exact rational arithmetic)
	Bool  bool
	Type  string // go/types' type string
	Exact string // constant.Value.ExactString()
}

// GoTypes checks the Go rendering of the declarations (and of the named
// constants their leaves need) with go/types.  It returns one verdict per
// declaration, or an error if the rendering does not even parse (a harness bug).
// The leaves of the declarations are renumbered from 0.
func GoTypes(ds []ConstDecl) ([]GoVerdict, error) {
	var src strings.Builder
	src.WriteString("package p\n")
	exprs := make([]*Expr, len(ds))
	for i, d := range ds {
		exprs[i] = d.E
	}
	Number(0, exprs...)
	line := 2
	for _, c := range GoDecls(exprs, false, true).Consts {
		src.WriteString(c + "\n")
		line++
	}
	first := line
	for i, d := range ds {
		src.WriteString(d.Go(i) + "\n")
	}
	fset := token.NewFileSet()
	f, err := parser.ParseFile(fset, "p.go", src.String(), 0)
	if err != nil {
		return nil, fmt.Errorf("go rendering does not parse: %v\n%s", err, src.String())
	}
	out := make([]GoVerdict, len(ds))
	for i := range out {
		out[i].OK = true
	}
	conf := types.Config{
		Error: func(err error) {
			te, ok := err.(types.Error)
			if !ok {
				return
			}
			ln := te.Fset.Position(te.Pos).Line
			if i := ln - first; i >= 0 && i < len(out) && out[i].OK {
				out[i].OK, out[i].Err = false, te.Msg
			} else if i < 0 {
				// an error in a named-constant declaration is a harness bug; flag everything
				for j := range out {
					if out[j].OK {
						out[j].OK, out[j].Err = false, "named constant: "+te.Msg
					}
				}
			}
		},
	}
	pkg, _ := conf.Check("p", fset, []*ast.File{f}, nil)
	if pkg == nil {
		return nil, fmt.Errorf("go/types returned no package")
	}
	for i := range out {
		if !out[i].OK {
			continue
		}
		obj, _ := pkg.Scope().Lookup(fmt.Sprintf("c%d", i)).(*types.Const)
		if obj == nil {
			out[i].OK, out[i].Err = false, "constant not found"
			continue
		}
		v := obj.Val()
		out[i].Type, out[i].Exact = obj.Type().String(), v.ExactString()
		switch v.Kind() {
		case constant.Bool:
			out[i].Kind, out[i].Bool = "bool", constant.BoolVal(v)
		case constant.Int:
			out[i].Kind = "int"
			switch x := constant.Val(v).(type) {
			case int64:
				out[i].Int = big.NewInt(x)
			case *big.Int:
				out[i].Int = x
			}
		case constant.Float:
			out[i].Kind = "float"
			switch x := constant.Val(v).(type) {
			case *big.Rat:
				out[i].Rat = x
			case *big.Float:
				// exact only if the 512-bit float happens to be exact; report it
				// as a rational, callers compare only when both sides are exact.
				if r, acc := x.Rat(nil); acc == big.Exact {
					out[i].Rat = r
				}
			}
		default:
			out[i].OK, out[i].Err = false, "unexpected constant kind "+v.Kind().String()
		}
	}
	return out, nil
}
