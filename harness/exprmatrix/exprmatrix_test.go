package exprmatrix

import (
	"bytes"
	"encoding/json"
	"fmt"
	"os"
	"os/exec"
	"path/filepath"
	"strings"
	"testing"

	"pgregory.net/rapid"
)

// Self-checks of the shared generator / evaluators (not a property of the
// repository under test): run with `go test ./harness/exprmatrix`.

// The native evaluator against the real Go toolchain: one Go program with many
// operand-rendered expressions is built and run; its output must be what Eval
// and WaPrint predict.
func TestEvalAgainstGoToolchain(t *testing.T) {
	if testing.Short() {
		t.Skip("builds a Go program")
	}
	var exprs []*Expr
	rapid.Check(t, func(rt *rapid.T) {
		if len(exprs) >= 3000 {
			return
		}
		cfg := Config{Special: true, Untyped: true, LeafModes: true, Pins: true, MaxDepth: 3}
		e := cfg.AnyTree().Draw(rt, "e")
		if err := e.Check(); err != nil {
			rt.Fatalf("ill-typed tree %s: %v", e.Wa(AsConstants), err)
		}
		if _, err := Eval(e); err != nil {
			rt.Fatalf("generated tree outside the domain: %v", err)
		}
		exprs = append(exprs, e)
	})
	Number(0, exprs...)
	d := GoDecls(exprs, true, true)
	var src bytes.Buffer
	src.WriteString("package main\nimport (\"fmt\"; \"math\")\nvar _ = math.Pi\n")
	for _, l := range append(d.Globals, d.Consts...) {
		src.WriteString(l + "\n")
	}
	src.WriteString("func main() {\n")
	for _, l := range d.Init {
		src.WriteString("\t" + l + "\n")
	}
	var want bytes.Buffer
	for i, e := range exprs {
		v, _ := Eval(e)
		conv := v.T.GoName()
		fmt.Fprintf(&src, "\tfmt.Println(%d, %s(%s))\n", i, conv, e.Go(AsOperands))
		fmt.Fprintf(&want, "%d %s\n", i, v.WaPrint())
	}
	src.WriteString("}\n")
	dir := t.TempDir()
	os.WriteFile(filepath.Join(dir, "main.go"), src.Bytes(), 0o644)
	os.WriteFile(filepath.Join(dir, "go.mod"), []byte("module m\ngo 1.21\n"), 0o644)
	cmd := exec.Command("go", "run", ".")
	cmd.Dir = dir
	cmd.Env = append(os.Environ(), "GOFLAGS=-mod=mod", "GOPROXY=off", "GOTOOLCHAIN=local")
	out, err := cmd.CombinedOutput()
	if err != nil {
		t.Fatalf("go run: %v\n%s", err, firstLines(string(out), 30))
	}
	got := strings.Split(string(out), "\n")
	exp := strings.Split(want.String(), "\n")
	for i := range exp {
		if i >= len(got) || got[i] != exp[i] {
			g := "<missing>"
			if i < len(got) {
				g = got[i]
			}
			t.Fatalf("native evaluator disagrees with Go on %s: go prints %q, Eval predicts %q", exprs[i].Go(AsOperands), g, exp[i])
		}
	}
	t.Logf("%d expressions agree with the Go toolchain", len(exprs))
}

func firstLines(s string, n int) string {
	l := strings.Split(s, "\n")
	if len(l) > n {
		l = l[:n]
	}
	return strings.Join(l, "\n")
}

// ConstEval against go/types on both directions, and against Eval on valid
// typed trees.
func TestExactAgainstGoTypes(t *testing.T) {
	acc, rej := 0, 0
	rapid.Check(t, func(rt *rapid.T) {
		cfg := Config{Untyped: true, LeafModes: true, MaxDepth: 3}
		d := cfg.ConstDecl().Draw(rt, "decl")
		Number(0, d.E)
		c, r := d.Exact()
		gv, err := GoTypes([]ConstDecl{d})
		if err != nil {
			rt.Fatalf("%v", err)
		}
		g := gv[0]
		if (r == nil) != g.OK {
			rt.Fatalf("verdicts differ on %s: exact=%v go/types ok=%v err=%q", d.Go(0), r, g.OK, g.Err)
		}
		if r != nil {
			rej++
			return
		}
		acc++
		switch {
		case c.T.IsBool():
			if g.Kind != "bool" || g.Bool != c.Bool {
				rt.Fatalf("value differs on %s: exact %v, go %v", d.Go(0), c, g.Exact)
			}
		case c.T.IsInteger():
			if g.Kind != "int" || g.Int.Cmp(c.Int) != 0 {
				rt.Fatalf("value differs on %s: exact %v, go %v", d.Go(0), c, g.Exact)
			}
		default:
			if g.Kind == "int" { // go/constant normalises integer-valued floats of typed float constants? never for Float kind
				rt.Fatalf("kind differs on %s: exact %v, go %v", d.Go(0), c, g.Exact)
			}
			if g.Rat != nil && g.Rat.Cmp(c.Rat) != 0 {
				rt.Fatalf("value differs on %s: exact %v, go %v", d.Go(0), c, g.Exact)
			}
		}
		if !d.E.HasUntyped() && !d.Typed {
			v, err := Eval(d.E)
			if err != nil {
				rt.Fatalf("valid constant outside the run-time domain: %s: %v", d.Go(0), err)
			}
			if w := c.Value(); !(v.Same(w) || v.IsNegZero() && w.Float64() == 0) {
				rt.Fatalf("Eval %v != ConstEval %v on %s", v.Text(), w.Text(), d.Go(0))
			}
		}
	})
	t.Logf("accepted %d rejected %d", acc, rej)
}

func TestJSONRoundTrip(t *testing.T) {
	rapid.Check(t, func(rt *rapid.T) {
		cfg := Config{Special: true, Untyped: true, LeafModes: true, Pins: true}
		e := cfg.AnyTree().Draw(rt, "e")
		Number(3, e)
		b, err := json.Marshal(e)
		if err != nil {
			rt.Fatal(err)
		}
		var f Expr
		if err := json.Unmarshal(b, &f); err != nil {
			rt.Fatalf("%v: %s", err, b)
		}
		if e.Wa(AsConstants) != f.Wa(AsConstants) || e.Wa(AsOperands) != f.Wa(AsOperands) {
			rt.Fatalf("round trip changed %s into %s", e.Wa(AsConstants), f.Wa(AsConstants))
		}
		v1, _ := Eval(e)
		v2, _ := Eval(&f)
		if !v1.Same(v2) {
			rt.Fatalf("round trip changed the value")
		}
	})
}
