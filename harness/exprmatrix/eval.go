package exprmatrix

import (
	"fmt"
	"math"
)

// DomainError says that a tree leaves the domain in which Go defines the
// run-time result.
type DomainError struct {
	Why  string // invalid-constant-subtree | div-by-zero | negative-shift-count | float-to-int-nan | float-to-int-range | float-narrowing-overflow | untyped-not-representable | untyped-root
	Node *Expr
}

func (d *DomainError) Error() string {
	return fmt.Sprintf("exprmatrix: outside the defined domain: %s at %s", d.Why, d.Node.Wa(AsConstants))
}

// Eval is the native evaluator: the value Go computes for the tree when every
// typed leaf is a variable.  Untyped sub-trees are constants in every
// rendering; they are evaluated exactly and converted to the type their context
// gives them (which must be able to represent them).
func Eval(e *Expr) (Value, error) {
	if e.T == UntypedInt || e.T == UntypedFloat {
		return Value{}, &DomainError{"untyped-root", e}
	}
	if e.K != KLeaf && isConstTree(e) {
		// no variable operand below: the compiler folds the sub-tree, so its value
		// is the constant value (which has no −0) — and it must be a valid constant
		c, rej := ConstEval(e)
		if rej != nil {
			return Value{}, &DomainError{"invalid-constant-subtree", e}
		}
		if c.T == UntypedBool {
			return BoolValue(c.Bool), nil
		}
		return c.Value(), nil
	}
	switch e.K {
	case KLeaf:
		if e.Val == nil { // untyped bool literal
			return BoolValue(e.Lit == "true"), nil
		}
		return *e.Val, nil
	case KUnary:
		x, err := Eval(e.X)
		if err != nil {
			return Value{}, err
		}
		return evalUnary(e.Op, x), nil
	case KConv:
		if e.X.T == UntypedInt || e.X.T == UntypedFloat {
			return untypedAs(e.X, e.T)
		}
		x, err := Eval(e.X)
		if err != nil {
			return Value{}, err
		}
		v, why := Convert(x, e.T)
		if why != "" {
			return Value{}, &DomainError{why, e}
		}
		return v, nil
	case KBinary:
		return evalBinary(e)
	}
	panic("exprmatrix: bad node")
}

// untypedAs evaluates an untyped constant sub-tree exactly and converts it to t.
func untypedAs(e *Expr, t Type) (Value, error) {
	c, rej := ConstEval(e)
	if rej != nil {
		return Value{}, &DomainError{"untyped-not-representable", e}
	}
	c, rej = c.convert(t, e)
	if rej != nil {
		return Value{}, &DomainError{"untyped-not-representable", e}
	}
	return c.Value(), nil
}

func operand(e *Expr, t Type) (Value, error) {
	if e.T == UntypedInt || e.T == UntypedFloat {
		return untypedAs(e, t)
	}
	return Eval(e) // typed, or an untyped-bool comparison (evaluated natively: its value is a bool)
}

func evalBinary(e *Expr) (Value, error) {
	switch {
	case e.Op.IsShift():
		x, err := Eval(e.X) // e.T typed ⇒ e.X typed
		if err != nil {
			return Value{}, err
		}
		var cnt uint64
		if e.Y.T.IsUntyped() {
			y, err := untypedAs(e.Y, Uint)
			if err != nil {
				return Value{}, err
			}
			cnt = y.U
		} else {
			y, err := Eval(e.Y)
			if err != nil {
				return Value{}, err
			}
			if y.T.IsSigned() && y.Int64() < 0 {
				return Value{}, &DomainError{"negative-shift-count", e}
			}
			cnt = y.U
		}
		return evalShift(e.Op, x, cnt), nil
	case e.Op.IsLogical():
		// Both operands are evaluated eagerly: they are side-effect free and
		// always inside the domain, so short-circuiting is unobservable.
		x, err := operand(e.X, Bool)
		if err != nil {
			return Value{}, err
		}
		y, err := operand(e.Y, Bool)
		if err != nil {
			return Value{}, err
		}
		if e.Op == OpLAnd {
			return BoolValue(x.Bool() && y.Bool()), nil
		}
		return BoolValue(x.Bool() || y.Bool()), nil
	}
	ct, _ := commonType(e.X.T, e.Y.T)
	if ct == UntypedInt || ct == UntypedFloat { // comparison of two untyped constants inside a typed tree
		c, rej := ConstEval(e)
		if rej != nil {
			return Value{}, &DomainError{"untyped-not-representable", e}
		}
		return BoolValue(c.Bool), nil
	}
	x, err := operand(e.X, ct)
	if err != nil {
		return Value{}, err
	}
	y, err := operand(e.Y, ct)
	if err != nil {
		return Value{}, err
	}
	if e.Op.IsComparison() {
		return BoolValue(evalCompare(e.Op, x, y)), nil
	}
	if ct.IsInteger() && (e.Op == OpQuo || e.Op == OpRem) && y.U == 0 {
		return Value{}, &DomainError{"div-by-zero", e}
	}
	return evalArith(e.Op, x, y), nil
}

// ---------------------------------------------------------------- Go's own operators

type integer interface {
	~uint8 | ~uint16 | ~uint32 | ~uint64 | ~int32 | ~int64
}
type float interface{ ~float32 | ~float64 }
type number interface{ integer | float }

func intArith[T integer](op Op, a, b T) T {
	switch op {
	case OpAdd:
		return a + b
	case OpSub:
		return a - b
	case OpMul:
		return a * b
	case OpQuo:
		return a / b // b != 0 checked by the caller; MinInt / -1 == MinInt in Go
	case OpRem:
		return a % b
	case OpAnd:
		return a & b
	case OpOr:
		return a | b
	case OpXor:
		return a ^ b
	case OpAndNot:
		return a &^ b
	}
	panic("exprmatrix: bad integer operator " + op.String())
}

func floatArith[T float](op Op, a, b T) T {
	switch op {
	case OpAdd:
		return a + b
	case OpSub:
		return a - b
	case OpMul:
		return a * b
	case OpQuo:
		return a / b
	}
	panic("exprmatrix: bad float operator " + op.String())
}

func compare[T number](op Op, a, b T) bool {
	switch op {
	case OpEq:
		return a == b
	case OpNe:
		return a != b
	case OpLt:
		return a < b
	case OpLe:
		return a <= b
	case OpGt:
		return a > b
	case OpGe:
		return a >= b
	}
	panic("exprmatrix: bad comparison " + op.String())
}

func evalArith(op Op, x, y Value) Value {
	switch x.T {
	case U8:
		return UintValue(U8, uint64(intArith(op, uint8(x.U), uint8(y.U))))
	case U16:
		return UintValue(U16, uint64(intArith(op, uint16(x.U), uint16(y.U))))
	case U32, Uint:
		return UintValue(x.T, uint64(intArith(op, uint32(x.U), uint32(y.U))))
	case U64:
		return UintValue(U64, intArith(op, x.U, y.U))
	case I32, Int:
		return IntValue(x.T, int64(intArith(op, int32(x.U), int32(y.U))))
	case I64:
		return IntValue(I64, intArith(op, int64(x.U), int64(y.U)))
	case F32:
		return F32Value(floatArith(op, x.Float32(), y.Float32()))
	case F64:
		return F64Value(floatArith(op, x.Float64(), y.Float64()))
	}
	panic("exprmatrix: arithmetic on " + x.T.String())
}

func evalCompare(op Op, x, y Value) bool {
	switch x.T {
	case Bool:
		if op == OpEq {
			return x.U == y.U
		}
		return x.U != y.U
	case U8, U16, U32, Uint, U64:
		return compare(op, x.U, y.U)
	case I32, Int, I64:
		return compare(op, int64(x.U), int64(y.U))
	case F32:
		return compare(op, x.Float32(), y.Float32())
	case F64:
		return compare(op, x.Float64(), y.Float64())
	}
	panic("exprmatrix: comparison on " + x.T.String())
}

func evalShift(op Op, x Value, cnt uint64) Value {
	if op == OpShl {
		switch x.T {
		case U8:
			return UintValue(U8, uint64(uint8(x.U)<<cnt))
		case U16:
			return UintValue(U16, uint64(uint16(x.U)<<cnt))
		case U32, Uint:
			return UintValue(x.T, uint64(uint32(x.U)<<cnt))
		case U64:
			return UintValue(U64, x.U<<cnt)
		case I32, Int:
			return IntValue(x.T, int64(int32(x.U)<<cnt))
		case I64:
			return IntValue(I64, int64(x.U)<<cnt)
		}
	} else {
		switch x.T {
		case U8:
			return UintValue(U8, uint64(uint8(x.U)>>cnt))
		case U16:
			return UintValue(U16, uint64(uint16(x.U)>>cnt))
		case U32, Uint:
			return UintValue(x.T, uint64(uint32(x.U)>>cnt))
		case U64:
			return UintValue(U64, x.U>>cnt)
		case I32, Int:
			return IntValue(x.T, int64(int32(x.U)>>cnt))
		case I64:
			return IntValue(I64, int64(x.U)>>cnt)
		}
	}
	panic("exprmatrix: shift of " + x.T.String())
}

func evalUnary(op Op, x Value) Value {
	switch op {
	case OpLNot:
		return BoolValue(!x.Bool())
	case OpCpl:
		switch x.T {
		case U8:
			return UintValue(U8, uint64(^uint8(x.U)))
		case U16:
			return UintValue(U16, uint64(^uint16(x.U)))
		case U32, Uint:
			return UintValue(x.T, uint64(^uint32(x.U)))
		case U64:
			return UintValue(U64, ^x.U)
		case I32, Int:
			return IntValue(x.T, int64(^int32(x.U)))
		case I64:
			return IntValue(I64, ^int64(x.U))
		}
	case OpNeg:
		switch x.T {
		case U8:
			return UintValue(U8, uint64(-uint8(x.U)))
		case U16:
			return UintValue(U16, uint64(-uint16(x.U)))
		case U32, Uint:
			return UintValue(x.T, uint64(-uint32(x.U)))
		case U64:
			return UintValue(U64, -x.U)
		case I32, Int:
			return IntValue(x.T, int64(-int32(x.U)))
		case I64:
			return IntValue(I64, -int64(x.U))
		case F32:
			return F32Value(-x.Float32())
		case F64:
			return F64Value(-x.Float64())
		}
	}
	panic("exprmatrix: unary " + op.String() + " on " + x.T.String())
}

// ---------------------------------------------------------------- conversions

func convNum[S number](s S, to Type) Value {
	switch to {
	case U8:
		return UintValue(U8, uint64(uint8(s)))
	case U16:
		return UintValue(U16, uint64(uint16(s)))
	case U32, Uint:
		return UintValue(to, uint64(uint32(s)))
	case U64:
		return UintValue(U64, uint64(s))
	case I32, Int:
		return IntValue(to, int64(int32(s)))
	case I64:
		return IntValue(I64, int64(s))
	case F32:
		return F32Value(float32(s))
	case F64:
		return F64Value(float64(s))
	}
	panic("exprmatrix: conversion to " + to.String())
}

// Convert is the run-time conversion to(x) with Go's native conversions.  why
// is non-empty when Go leaves the result implementation-defined.
func Convert(x Value, to Type) (v Value, why string) {
	if x.T.IsBool() || to.IsBool() {
		if x.T == Bool && to.IsBool() {
			return BoolValue(x.Bool()), ""
		}
		panic("exprmatrix: bool conversion")
	}
	if x.T.IsFloat() {
		f := x.Float64()
		if to.IsInteger() {
			if math.IsNaN(f) {
				return Value{}, "float-to-int-nan"
			}
			tr := math.Trunc(f)
			lo, _ := new(bigFloat).SetInt(to.MinInt()).Float64()
			hi, _ := new(bigFloat).SetInt(to.MaxInt()).Float64() // may round up to 2^k: then tr must be < hi
			inRange := tr >= lo && tr <= hi
			if hiExact := to.Bits() <= 32; !hiExact && tr == hi {
				inRange = false // hi was rounded up to 2^63 / 2^64
			}
			if !inRange {
				return Value{}, "float-to-int-range"
			}
		}
		if to == F32 && x.T == F64 && !math.IsInf(f, 0) && !math.IsNaN(f) && math.IsInf(float64(float32(f)), 0) {
			return Value{}, "float-narrowing-overflow"
		}
		if x.T == F32 {
			return convNum(x.Float32(), to), ""
		}
		return convNum(f, to), ""
	}
	switch x.T {
	case U8:
		return convNum(uint8(x.U), to), ""
	case U16:
		return convNum(uint16(x.U), to), ""
	case U32, Uint:
		return convNum(uint32(x.U), to), ""
	case U64:
		return convNum(x.U, to), ""
	case I32, Int:
		return convNum(int32(x.U), to), ""
	case I64:
		return convNum(int64(x.U), to), ""
	}
	panic("exprmatrix: conversion from " + x.T.String())
}
