package exprmatrix

import (
	"math"
	"math/big"
	"strconv"
	"strings"

	"pgregory.net/rapid"
)

// Config parameterises the tree generators.
type Config struct {
	Types      []Type // operand types to draw from (default: all eleven scalars)
	MaxDepth   int    // default 3
	Special    bool   // allow NaN / ±Inf / −0 operand leaves (they have no constant form)
	ConstValid bool   // the tree must also be a valid constant expression (ConstEval succeeds)
	Untyped    bool   // allow untyped constant sub-trees as operands of typed operators
	LeafModes  bool   // draw LeafLit / LeafNamed / LeafBare per leaf (default: LeafLit)
	Pins       bool   // pin some leaves (they stay constants under AsOperands: partial folding)
	// Exclude is the known-finding hook: it is called for every candidate node
	// whose value is defined; returning true discards the candidate (the
	// generator draws another one or falls back to a leaf).
	Exclude func(e *Expr) bool
}

func (c Config) types() []Type {
	if len(c.Types) == 0 {
		return Scalars
	}
	return c.Types
}

func (c Config) has(t Type) bool {
	for _, x := range c.types() {
		if x == t {
			return true
		}
	}
	return false
}

func (c Config) subset(of []Type) []Type {
	var out []Type
	for _, t := range of {
		if c.has(t) {
			out = append(out, t)
		}
	}
	return out
}

func (c Config) depth() int {
	if c.MaxDepth <= 0 {
		return 3
	}
	return c.MaxDepth
}

// ---------------------------------------------------------------- values

// GenValue draws a boundary-biased value of type t.  special admits NaN, ±Inf
// and −0 for float types.
func GenValue(t Type, special bool) *rapid.Generator[Value] {
	return rapid.Custom(func(rt *rapid.T) Value { return drawValue(rt, t, special) })
}

var shiftWidths = []int64{0, 1, 7, 8, 9, 15, 16, 17, 31, 32, 33, 63, 64, 65, 127, 128}

func drawValue(rt *rapid.T, t Type, special bool) Value {
	switch {
	case t == Bool:
		return BoolValue(rapid.Bool().Draw(rt, "bool"))
	case t.IsFloat():
		return drawFloat(rt, t, special)
	}
	bits := uint(t.Bits())
	switch rapid.IntRange(0, 8).Draw(rt, "iclass") {
	case 0:
		if t.IsSigned() {
			return IntValue(t, rapid.Int64Range(-16, 16).Draw(rt, "small"))
		}
		return IntValue(t, rapid.Int64Range(0, 16).Draw(rt, "small"))
	case 1:
		lims := []*big.Int{t.MaxInt(), t.MinInt(), big.NewInt(0), big.NewInt(1)}
		x := new(big.Int).Set(rapid.SampledFrom(lims).Draw(rt, "limit"))
		x.Add(x, big.NewInt(rapid.Int64Range(-2, 2).Draw(rt, "d")))
		return bigToValue(t, x)
	case 2:
		k := uint(rapid.IntRange(0, int(bits)).Draw(rt, "k"))
		x := pow2(k)
		x.Add(x, big.NewInt(rapid.Int64Range(-2, 2).Draw(rt, "d")))
		if t.IsSigned() && rapid.Bool().Draw(rt, "neg") {
			x.Neg(x)
		}
		return bigToValue(t, x)
	case 3:
		return IntValue(t, rapid.SampledFrom(shiftWidths).Draw(rt, "width"))
	case 4:
		k := rapid.SampledFrom([]uint{31, 32, 63, 64, 8, 16}).Draw(rt, "wk")
		x := pow2(k)
		x.Add(x, big.NewInt(rapid.Int64Range(-2, 2).Draw(rt, "d")))
		if t.IsSigned() && rapid.Bool().Draw(rt, "neg") {
			x.Neg(x)
		}
		return bigToValue(t, x)
	case 5:
		pats := []uint64{0x5555555555555555, 0xaaaaaaaaaaaaaaaa, 0x00ff00ff00ff00ff, 0xff00ff00ff00ff00,
			0x8000000080000000, 0x7fffffff7fffffff, 0x0123456789abcdef, 0xfedcba9876543210}
		return UintValue(t, rapid.SampledFrom(pats).Draw(rt, "pattern"))
	default:
		return UintValue(t, rapid.Uint64().Draw(rt, "any"))
	}
}

// bigToValue wraps x into t (two's complement).
func bigToValue(t Type, x *big.Int) Value {
	m := new(big.Int).And(x, new(big.Int).Sub(pow2(64), big.NewInt(1))) // And with a positive mask is two's complement for negatives
	return UintValue(t, m.Uint64())
}

func drawFloat(rt *rapid.T, t Type, special bool) Value {
	mk := func(f float64) Value { return FloatValue(t, f) }
	hi := 6
	if special {
		hi = 7
	}
	switch rapid.IntRange(0, hi).Draw(rt, "fclass") {
	case 0:
		return mk(float64(rapid.IntRange(-8, 8).Draw(rt, "small")))
	case 1:
		fr := []float64{0.5, 1.5, 0.25, 0.1, 0.2, 0.3, 2.5, -0.5, -1.5, 0.75, 1e-3, 3.14159, 1e10, 123456.789, -2.5}
		return mk(rapid.SampledFrom(fr).Draw(rt, "fraction"))
	case 2:
		var lims []float64
		if t == F32 {
			lims = []float64{math.MaxFloat32, math.SmallestNonzeroFloat32, 0x1p-126, 0x1p-126 - 0x1p-149, 1 + 0x1p-23, 1 - 0x1p-24, 0x1p127}
		} else {
			lims = []float64{math.MaxFloat64, math.SmallestNonzeroFloat64, 0x1p-1022, 0x1p-1022 - 0x1p-1074, 1 + 0x1p-52, 1 - 0x1p-53, 0x1p1023,
				math.MaxFloat32, math.SmallestNonzeroFloat32, 0x1p-126, float64(math.MaxFloat32) + 0x1p102, float64(math.MaxFloat32) + 0x1p103, 0x1p-150, 0x1p-149 * 1.5}
		}
		f := rapid.SampledFrom(lims).Draw(rt, "limit")
		if rapid.Bool().Draw(rt, "neg") {
			f = -f
		}
		return mk(f)
	case 3:
		ints := []float64{0x1p31, 0x1p31 - 1, 0x1p31 + 1, 0x1p32, 0x1p32 - 1, 0x1p32 + 1, 0x1p63, 0x1p64, 0x1p24, 0x1p24 + 1, 0x1p24 - 1,
			0x1p53, 0x1p53 + 2, 0x1p53 - 1, 255, 256, 65535, 65536, 0x1p62, 0x1p63 - 1024, 0x1p64 - 2048, 2147483520, 4294967040}
		f := rapid.SampledFrom(ints).Draw(rt, "intbound")
		v := mk(f)
		switch rapid.IntRange(-1, 1).Draw(rt, "ulp") {
		case -1:
			v = nextAfter(v, -1)
		case 1:
			v = nextAfter(v, +1)
		}
		if rapid.Bool().Draw(rt, "neg") {
			v = evalUnary(OpNeg, v)
		}
		return v
	case 4:
		lo, hi := -1074, 1023
		if t == F32 {
			lo, hi = -149, 127
		}
		k := rapid.IntRange(lo, hi).Draw(rt, "exp")
		v := mk(math.Ldexp(1, k))
		switch rapid.IntRange(-1, 1).Draw(rt, "ulp") {
		case -1:
			v = nextAfter(v, -1)
		case 1:
			v = nextAfter(v, +1)
		}
		if rapid.Bool().Draw(rt, "neg") {
			v = evalUnary(OpNeg, v)
		}
		return v
	case 5, 6:
		for {
			var v Value
			if t == F32 {
				v = Value{F32, uint64(rapid.Uint32().Draw(rt, "bits"))}
			} else {
				v = Value{F64, rapid.Uint64().Draw(rt, "bits")}
			}
			if v.IsNaN() || v.IsInf() || v.IsNegZero() {
				return mk(1)
			}
			return v
		}
	default:
		sp := []float64{math.Copysign(0, -1), math.Inf(1), math.Inf(-1), math.NaN()}
		return mk(rapid.SampledFrom(sp).Draw(rt, "special"))
	}
}

func nextAfter(v Value, dir int) Value {
	if v.T == F32 {
		return F32Value(math.Nextafter32(v.Float32(), float32(math.Inf(dir))))
	}
	return F64Value(math.Nextafter(v.Float64(), math.Inf(dir)))
}

// ---------------------------------------------------------------- typed trees

// Tree draws a typed tree of result type t (for t == Bool the root may be an
// untyped-bool comparison).  The tree is inside Eval's domain and — with
// ConstValid — inside ConstEval's; candidates outside are regenerated or
// guarded by construction.
func (c Config) Tree(t Type) *rapid.Generator[*Expr] {
	return rapid.Custom(func(rt *rapid.T) *Expr { return c.tree(rt, t, c.depth()) })
}

// AnyTree draws a result type from Types and then a tree of it.
func (c Config) AnyTree() *rapid.Generator[*Expr] {
	return rapid.Custom(func(rt *rapid.T) *Expr {
		t := rapid.SampledFrom(c.types()).Draw(rt, "type")
		return c.tree(rt, t, c.depth())
	})
}

func (c Config) leaf(rt *rapid.T, t Type) *Expr {
	l := Leaf(drawValue(rt, t, c.Special && !c.ConstValid))
	if c.LeafModes {
		l.Mode = LeafMode(rapid.IntRange(0, 2).Draw(rt, "leafmode"))
	}
	if c.Pins && rapid.IntRange(0, 5).Draw(rt, "pin") == 0 && l.Val.Constable() {
		l.Pin = true
	}
	return l
}

func (c Config) ok(e *Expr) bool {
	if _, err := Eval(e); err != nil {
		return false
	}
	if c.ConstValid || isConstTree(e) {
		// a sub-tree without variable operands is a constant expression in every
		// rendering (pinned leaves, untyped literals): it must be a valid one
		if _, rej := ConstEval(e); rej != nil {
			return false
		}
	}
	if c.Exclude != nil && c.Exclude(e) {
		return false
	}
	return true
}

func (c Config) tree(rt *rapid.T, t Type, depth int) *Expr {
	if t == UntypedBool {
		t = Bool
	}
	if depth <= 0 || rapid.IntRange(0, 4).Draw(rt, "leaf?") == 0 {
		return c.leaf(rt, t)
	}
	for attempt := 0; attempt < 4; attempt++ {
		e := c.node(rt, t, depth)
		if e == nil {
			continue
		}
		if c.ok(e) {
			return e
		}
		if g := c.guard(e); g != nil && c.ok(g) {
			return g
		}
	}
	return c.leaf(rt, t)
}

// guard repairs the commonest way out of the domain by construction: an
// integer divisor that evaluates to zero becomes (y | 1).
func (c Config) guard(e *Expr) *Expr {
	if e.K == KBinary && (e.Op == OpQuo || e.Op == OpRem) && e.T.IsInteger() && !e.Y.T.IsUntyped() {
		one := Leaf(IntValue(e.Y.T, 1))
		one.Mode, one.Pin = LeafLit, true
		g := *e
		g.Y = Binary(OpOr, e.Y.T, e.Y, one)
		return &g
	}
	return nil
}

// operandOf draws an operand of type t for a typed operator: a sub-tree, or
// (Untyped) an untyped constant sub-tree that t can represent.
func (c Config) operandOf(rt *rapid.T, t Type, depth int) *Expr {
	if c.Untyped && t.IsNumeric() && rapid.IntRange(0, 6).Draw(rt, "untyped?") == 0 {
		u := Config{MaxDepth: 2}.untyped(rt, 2, t.IsFloat())
		if k, rej := ConstEval(u); rej == nil && k.Representable(t) {
			return u
		}
		v := drawValue(rt, t, false)
		return untypedLeafOf(v)
	}
	return c.tree(rt, t, depth-1)
}

func untypedLeafOf(v Value) *Expr {
	if v.T.IsFloat() {
		return UntypedLeaf(UntypedFloat, v.Literal())
	}
	return UntypedLeaf(UntypedInt, v.Literal())
}

func logicalType(x, y *Expr) Type {
	if x.T == Bool || y.T == Bool {
		return Bool
	}
	return UntypedBool
}

func (c Config) node(rt *rapid.T, t Type, depth int) *Expr {
	switch {
	case t == Bool:
		switch rapid.IntRange(0, 5).Draw(rt, "boolnode") {
		case 0, 1, 2: // comparison over some operand type
			ot := rapid.SampledFrom(c.types()).Draw(rt, "cmptype")
			ops := OrderedCmpOps
			if ot == Bool {
				ops = EqCmpOps
			}
			op := rapid.SampledFrom(ops).Draw(rt, "cmpop")
			x := c.tree(rt, ot, depth-1)
			var y *Expr
			if rapid.IntRange(0, 3).Draw(rt, "cmpnear") == 0 && ot.IsNumeric() {
				y = c.nearOperand(rt, x) // equal or adjacent value: comparisons that are not decided by magnitude
			} else {
				y = c.operandOf(rt, ot, depth)
			}
			if x.T == UntypedBool && y.T == UntypedBool {
				return Binary(op, UntypedBool, x, y)
			}
			return Binary(op, UntypedBool, x, y)
		case 3:
			op := rapid.SampledFrom([]Op{OpLAnd, OpLOr}).Draw(rt, "logop")
			x, y := c.tree(rt, Bool, depth-1), c.tree(rt, Bool, depth-1)
			return Binary(op, logicalType(x, y), x, y)
		case 4:
			return Unary(OpLNot, c.tree(rt, Bool, depth-1))
		default:
			if !c.has(Bool) {
				return nil
			}
			return Conv(Bool, c.tree(rt, Bool, depth-1))
		}
	case t.IsInteger():
		switch rapid.IntRange(0, 9).Draw(rt, "intnode") {
		case 0, 1, 2, 3:
			op := rapid.SampledFrom(IntBinaryOps).Draw(rt, "op")
			x := c.tree(rt, t, depth-1)
			y := c.operandOf(rt, t, depth)
			if y.T.IsUntyped() && rapid.Bool().Draw(rt, "swap") {
				if sw := Binary(op, t, y, x); sw.Check() == nil {
					return sw
				}
			}
			return Binary(op, t, x, y)
		case 4, 5:
			return c.shift(rt, t, depth)
		case 6:
			op := rapid.SampledFrom([]Op{OpNeg, OpCpl}).Draw(rt, "unop")
			return Unary(op, c.tree(rt, t, depth-1))
		default:
			return c.conv(rt, t, depth)
		}
	case t.IsFloat():
		switch rapid.IntRange(0, 6).Draw(rt, "floatnode") {
		case 0, 1, 2, 3:
			op := rapid.SampledFrom(FloatBinaryOps).Draw(rt, "op")
			x := c.tree(rt, t, depth-1)
			y := c.operandOf(rt, t, depth)
			return Binary(op, t, x, y)
		case 4:
			return Unary(OpNeg, c.tree(rt, t, depth-1))
		default:
			return c.conv(rt, t, depth)
		}
	}
	return nil
}

// nearOperand makes a leaf whose value equals x's value or is its neighbour.
func (c Config) nearOperand(rt *rapid.T, x *Expr) *Expr {
	v, err := Eval(x)
	if err != nil || v.T == Bool {
		return c.leaf(rt, x.T)
	}
	d := rapid.IntRange(-1, 1).Draw(rt, "delta")
	var w Value
	switch {
	case v.T.IsFloat():
		w = v
		if d != 0 && !v.IsNaN() && !v.IsInf() {
			w = nextAfter(v, d)
		}
		if !w.Constable() && !(c.Special && !c.ConstValid) {
			w = FloatValue(v.T, 1)
		}
	default:
		w = UintValue(v.T, v.U+uint64(int64(d)))
	}
	l := Leaf(w)
	if c.LeafModes {
		l.Mode = LeafMode(rapid.IntRange(0, 2).Draw(rt, "leafmode"))
	}
	return l
}

func (c Config) shift(rt *rapid.T, t Type, depth int) *Expr {
	op := rapid.SampledFrom(ShiftOps).Draw(rt, "shop")
	x := c.tree(rt, t, depth-1)
	var y *Expr
	ints := c.subset(Integers)
	if len(ints) == 0 {
		ints = []Type{t}
	}
	ct := rapid.SampledFrom(ints).Draw(rt, "counttype")
	w := int64(t.Bits())
	switch rapid.IntRange(0, 3).Draw(rt, "countkind") {
	case 0, 1: // leaf count biased to the width of the shifted operand
		cands := []int64{0, 1, w - 1, w, w + 1, w / 2, 2*w - 1, 2 * w, 63, 64, 65, 3}
		n := rapid.SampledFrom(cands).Draw(rt, "count")
		if n > ct.MaxInt().Int64() && ct.Bits() < 64 {
			n = ct.MaxInt().Int64()
		}
		y = Leaf(IntValue(ct, n))
		if c.LeafModes {
			y.Mode = LeafMode(rapid.IntRange(0, 2).Draw(rt, "leafmode"))
		}
	case 2: // untyped literal count
		if c.Untyped {
			y = UntypedLeaf(UntypedInt, strconv.FormatInt(rapid.SampledFrom([]int64{0, 1, w - 1, w, w + 1, 2 * w}).Draw(rt, "ucount"), 10))
			break
		}
		fallthrough
	default: // computed count, kept small by masking
		sub := c.tree(rt, ct, depth-1)
		mask := Leaf(IntValue(ct, rapid.SampledFrom([]int64{7, 31, 63, 127}).Draw(rt, "mask")))
		mask.Pin = true
		y = Binary(OpAnd, ct, sub, mask)
	}
	return Binary(op, t, x, y)
}

func (c Config) conv(rt *rapid.T, t Type, depth int) *Expr {
	srcs := c.subset(Numeric)
	if len(srcs) == 0 {
		return nil
	}
	st := rapid.SampledFrom(srcs).Draw(rt, "convfrom")
	if c.Untyped && rapid.IntRange(0, 5).Draw(rt, "convuntyped") == 0 {
		u := Config{MaxDepth: 2}.untyped(rt, 2, rapid.Bool().Draw(rt, "ufloat"))
		return Conv(t, u)
	}
	var x *Expr
	if st.IsFloat() && t.IsInteger() && rapid.IntRange(0, 2).Draw(rt, "convfit") != 0 {
		// float → int is only defined when the truncated value fits: bias the
		// operand to integer-valued floats inside / at the edge of the target range
		x = c.floatForInt(rt, st, t)
	} else {
		x = c.tree(rt, st, depth-1)
	}
	return Conv(t, x)
}

func (c Config) floatForInt(rt *rapid.T, ft, it Type) *Expr {
	lo, _ := new(big.Float).SetInt(it.MinInt()).Float64()
	hi, _ := new(big.Float).SetInt(it.MaxInt()).Float64()
	cands := []float64{0, 1, -1, lo, hi, hi / 2, lo / 2, 0x1p31, 0x1p31 - 1, -0x1p31, 0x1p32 - 1, 0x1p63 - 1024, 0x1p63, 0x1p64 - 2048, 255, 65535, 2147483520, 4294967040, 16777216, 3}
	f := rapid.SampledFrom(cands).Draw(rt, "fint")
	if !c.ConstValid && rapid.Bool().Draw(rt, "frac") {
		f += rapid.SampledFrom([]float64{0.5, -0.5, 0.25, 0.99}).Draw(rt, "fracpart")
	}
	v := FloatValue(ft, f)
	switch rapid.IntRange(-1, 1).Draw(rt, "ulp") {
	case -1:
		v = nextAfter(v, -1)
	case 1:
		v = nextAfter(v, 1)
	}
	if !v.Constable() {
		v = FloatValue(ft, 0)
	}
	l := Leaf(v)
	if c.LeafModes {
		l.Mode = LeafMode(rapid.IntRange(0, 1).Draw(rt, "leafmode"))
	}
	return l
}

// ---------------------------------------------------------------- untyped trees

// MaxUntypedBits bounds the size of untyped integer constants the generators
// build (go/types — the second opinion — refuses integer constants beyond 512
// bits; Wa's checker has no such limit).
const MaxUntypedBits = 480

// UntypedTree draws a purely untyped constant tree (untyped int or untyped float
// root; comparisons are reached through UntypedBoolTree).  Every tree is a
// valid constant expression.
func (c Config) UntypedTree(float bool) *rapid.Generator[*Expr] {
	return rapid.Custom(func(rt *rapid.T) *Expr { return c.untyped(rt, c.depth(), float) })
}

// UntypedBoolTree draws a comparison / logical tree over untyped constants.
func (c Config) UntypedBoolTree() *rapid.Generator[*Expr] {
	return rapid.Custom(func(rt *rapid.T) *Expr { return c.untypedBool(rt, c.depth()) })
}

func untypedOK(e *Expr) bool {
	k, rej := ConstEval(e)
	if rej != nil {
		return false
	}
	if k.T == UntypedInt && k.Int.BitLen() > MaxUntypedBits {
		return false
	}
	if k.T == UntypedFloat && (k.Rat.Num().BitLen() > 1500 || k.Rat.Denom().BitLen() > 1500) {
		return false
	}
	return true
}

func (c Config) untyped(rt *rapid.T, depth int, float bool) *Expr {
	if depth <= 0 || rapid.IntRange(0, 3).Draw(rt, "uleaf?") == 0 {
		return untypedLeaf(rt, float)
	}
	for attempt := 0; attempt < 4; attempt++ {
		var e *Expr
		if float {
			switch rapid.IntRange(0, 5).Draw(rt, "ufnode") {
			case 0, 1, 2, 3:
				op := rapid.SampledFrom(FloatBinaryOps).Draw(rt, "op")
				// one side may be an untyped int: the operation is still a float operation
				x := c.untyped(rt, depth-1, true)
				y := c.untyped(rt, depth-1, rapid.IntRange(0, 2).Draw(rt, "yfloat") != 0)
				if rapid.Bool().Draw(rt, "swap") {
					x, y = y, x
				}
				e = Binary(op, UntypedFloat, x, y)
			default:
				e = Unary(OpNeg, c.untyped(rt, depth-1, true))
			}
		} else {
			switch rapid.IntRange(0, 7).Draw(rt, "uinode") {
			case 0, 1, 2, 3:
				op := rapid.SampledFrom(IntBinaryOps).Draw(rt, "op")
				e = Binary(op, UntypedInt, c.untyped(rt, depth-1, false), c.untyped(rt, depth-1, false))
			case 4, 5:
				op := rapid.SampledFrom(ShiftOps).Draw(rt, "shop")
				x := c.untyped(rt, depth-1, false)
				cnt := rapid.SampledFrom([]int64{0, 1, 3, 7, 8, 31, 32, 33, 40, 62, 63, 64, 65, 100, 127, 128, 200}).Draw(rt, "ucount")
				y := UntypedLeaf(UntypedInt, strconv.FormatInt(cnt, 10))
				if rapid.IntRange(0, 7).Draw(rt, "floatlhs") == 0 {
					// an integer-valued untyped float may be shifted by a constant count
					if k, rej := ConstEval(x); rej == nil && k.Int.BitLen() < 60 {
						x = UntypedLeaf(UntypedFloat, k.Int.String()+".0")
					}
				}
				e = Binary(op, UntypedInt, x, y)
			default:
				op := rapid.SampledFrom([]Op{OpNeg, OpCpl}).Draw(rt, "unop")
				e = Unary(op, c.untyped(rt, depth-1, false))
			}
		}
		if e.Check() == nil && untypedOK(e) {
			return e
		}
	}
	return untypedLeaf(rt, float)
}

func (c Config) untypedBool(rt *rapid.T, depth int) *Expr {
	if depth <= 1 || rapid.IntRange(0, 2).Draw(rt, "ubcmp") != 0 {
		op := rapid.SampledFrom(OrderedCmpOps).Draw(rt, "cmpop")
		fx, fy := rapid.Bool().Draw(rt, "xfloat"), rapid.Bool().Draw(rt, "yfloat")
		x := c.untyped(rt, depth-1, fx)
		y := c.untyped(rt, depth-1, fy)
		if rapid.IntRange(0, 2).Draw(rt, "same") == 0 {
			// equal values written differently (1<<62 vs 4611686018427387904.0)
			if k, rej := ConstEval(x); rej == nil {
				if k.T == UntypedInt {
					y = UntypedLeaf(UntypedInt, k.Int.String())
				} else if k.Rat.IsInt() && k.Rat.Num().BitLen() <= MaxUntypedBits {
					y = UntypedLeaf(UntypedInt, k.Rat.Num().String())
				}
			}
		}
		return Binary(op, UntypedBool, x, y)
	}
	switch rapid.IntRange(0, 2).Draw(rt, "ubnode") {
	case 0:
		return Unary(OpLNot, c.untypedBool(rt, depth-1))
	case 1:
		return Binary(OpLAnd, UntypedBool, c.untypedBool(rt, depth-1), c.untypedBool(rt, depth-1))
	}
	return Binary(OpLOr, UntypedBool, c.untypedBool(rt, depth-1), c.untypedBool(rt, depth-1))
}

var floatLits = []string{"0.0", "1.0", "0.5", "0.1", "0.2", "0.3", "1.5", "2.5", "3.0", "7.0", "10.0", "0.25", "1e10", "1e-10",
	"3.4028234663852886e38", "3.4028235e38", "3.4028236e38", "1.7976931348623157e308", "4.9e-324", "1e-45", "1.401298464324817e-45", "7e-46",
	"16777216.0", "16777217.0", "9007199254740992.0", "9007199254740993.0", "0.30000000000000004", "2147483648.0", "4294967295.0", "4294967296.0",
	"9223372036854775807.0", "9223372036854775808.0", "18446744073709551615.0", "18446744073709551616.0", "1e100", "1e-100", "6.02214076e23",
	"1.1754943508222875e-38", "2.2250738585072014e-308", "0.000001", "123456789.125", "1e38", "1e39", "1e308"}

func untypedLeaf(rt *rapid.T, float bool) *Expr {
	if float {
		switch rapid.IntRange(0, 2).Draw(rt, "uflit") {
		case 0:
			n := rapid.IntRange(-20, 20).Draw(rt, "n")
			d := rapid.SampledFrom([]int{2, 4, 5, 8, 10, 16, 100}).Draw(rt, "d")
			s := strconv.FormatFloat(float64(n)/float64(d), 'f', -1, 64)
			if !strings.Contains(s, ".") {
				s += ".0"
			}
			return UntypedLeaf(UntypedFloat, s)
		case 1:
			lit := rapid.SampledFrom(floatLits).Draw(rt, "flit")
			if rapid.IntRange(0, 3).Draw(rt, "neg") == 0 {
				lit = "-" + lit
			}
			return UntypedLeaf(UntypedFloat, lit)
		default:
			m := rapid.IntRange(1, 99999).Draw(rt, "mant")
			e := rapid.IntRange(-60, 60).Draw(rt, "exp")
			return UntypedLeaf(UntypedFloat, strconv.Itoa(m)+"e"+strconv.Itoa(e))
		}
	}
	var x *big.Int
	switch rapid.IntRange(0, 3).Draw(rt, "uilit") {
	case 0:
		x = big.NewInt(rapid.Int64Range(-20, 20).Draw(rt, "small"))
	case 1:
		k := uint(rapid.SampledFrom([]int{7, 8, 15, 16, 31, 32, 63, 64}).Draw(rt, "limk"))
		x = pow2(k)
		x.Add(x, big.NewInt(rapid.Int64Range(-2, 2).Draw(rt, "d")))
		if rapid.Bool().Draw(rt, "neg") {
			x.Neg(x)
		}
	case 2:
		k := uint(rapid.IntRange(0, 200).Draw(rt, "k"))
		x = pow2(k)
		x.Add(x, big.NewInt(rapid.Int64Range(-2, 2).Draw(rt, "d")))
		if rapid.Bool().Draw(rt, "neg") {
			x.Neg(x)
		}
	default:
		x = new(big.Int).SetUint64(rapid.Uint64().Draw(rt, "any"))
		if rapid.Bool().Draw(rt, "neg") {
			x.Neg(x)
		}
	}
	return UntypedLeaf(UntypedInt, x.String())
}

// ---------------------------------------------------------------- constant declarations

// ConstDecls draws one constant declaration together with the verdict the
// exact evaluator gives it.  Both directions are produced on purpose:
// representable values (incl. exactly at the limits of the target type) and
// values that overflow / are truncated, through typed operators, untyped
// arithmetic or the final conversion.  Declarations that are invalid for other
// reasons (division by zero, non-constant operands, absurd shift counts) are
// regenerated.
func (c Config) ConstDecl() *rapid.Generator[ConstDecl] {
	return rapid.Custom(func(rt *rapid.T) ConstDecl {
		for attempt := 0; attempt < 8; attempt++ {
			d := c.constDecl(rt)
			if d.E.Check() != nil {
				continue
			}
			if _, rej := d.Exact(); rej == nil || rej.Representability() {
				return d
			}
		}
		return ConstDecl{E: UntypedLeaf(UntypedInt, "1")}
	})
}

func (c Config) constDecl(rt *rapid.T) ConstDecl {
	tc := c
	tc.Special = false
	typedTargets := c.subset(Scalars)
	kind := rapid.IntRange(0, 5).Draw(rt, "declkind")
	switch kind {
	case 0: // limit probe: an untyped value at distance d of a limit of the target type, optionally split into an operation
		t := rapid.SampledFrom(c.subset(Numeric)).Draw(rt, "target")
		return ConstDecl{E: limitProbe(rt, t), Typed: true, T: t, Conv: rapid.Bool().Draw(rt, "conv")}
	case 1: // typed tree that may overflow inside; no further conversion
		tc.ConstValid = false
		tc.LeafModes = true
		e := tc.AnyTree().Draw(rt, "tree")
		return ConstDecl{E: e}
	case 2: // valid typed tree converted to another type
		tc.ConstValid = true
		tc.LeafModes = true
		e := tc.AnyTree().Draw(rt, "tree")
		var targets []Type
		for _, t := range typedTargets {
			if t.IsBool() == e.T.IsBool() {
				targets = append(targets, t)
			}
		}
		if len(targets) == 0 {
			return ConstDecl{E: e}
		}
		t := rapid.SampledFrom(targets).Draw(rt, "target")
		return ConstDecl{E: e, Typed: true, T: t, Conv: e.T.IsUntyped() && rapid.Bool().Draw(rt, "conv") || !e.T.IsUntyped() && e.T != t}
	case 3, 4: // untyped tree, typed or left untyped
		float := rapid.Bool().Draw(rt, "float")
		e := c.untyped(rt, c.depth(), float)
		if rapid.IntRange(0, 3).Draw(rt, "keepuntyped") == 0 {
			return ConstDecl{E: e}
		}
		t := rapid.SampledFrom(c.subset(Numeric)).Draw(rt, "target")
		return ConstDecl{E: e, Typed: true, T: t, Conv: rapid.Bool().Draw(rt, "conv")}
	default:
		e := c.untypedBool(rt, c.depth())
		if rapid.Bool().Draw(rt, "typedbool") && c.has(Bool) {
			return ConstDecl{E: e, Typed: true, T: Bool}
		}
		return ConstDecl{E: e}
	}
}

// limitProbe builds an untyped expression whose value is lim+d for a limit of
// t (integer Min/Max, float ±Max and the round-to-infinity threshold).
func limitProbe(rt *rapid.T, t Type) *Expr {
	var v *big.Int
	if t.IsInteger() {
		v = new(big.Int).Set(rapid.SampledFrom([]*big.Int{t.MaxInt(), t.MinInt()}).Draw(rt, "lim"))
		v.Add(v, big.NewInt(rapid.Int64Range(-2, 2).Draw(rt, "d")))
	} else {
		var max, half *big.Int // largest finite value; half an ulp above it
		if t == F32 {
			max = new(big.Int).Lsh(big.NewInt(1<<24-1), 104)
			half = pow2(103)
		} else {
			max = new(big.Int).Lsh(big.NewInt(1<<53-1), 971)
			half = pow2(970)
		}
		v = new(big.Int).Set(max)
		switch rapid.IntRange(0, 4).Draw(rt, "flim") {
		case 0:
		case 1:
			v.Add(v, half).Sub(v, big.NewInt(1)) // still rounds down to Max
		case 2:
			v.Add(v, half) // tie: rounds to even = 2^128 / 2^1024: overflow
		case 3:
			v.Add(v, half).Add(v, big.NewInt(1))
		default:
			v.Sub(v, big.NewInt(1))
		}
		if rapid.Bool().Draw(rt, "neg") {
			v.Neg(v)
		}
	}
	form := rapid.IntRange(0, 4).Draw(rt, "probeform")
	if v.BitLen() > MaxUntypedBits {
		form = 3 // go/types (the second opinion) refuses untyped *integer* constants beyond 512 bits
	}
	switch form {
	case 0:
		return UntypedLeaf(UntypedInt, v.String())
	case 1: // a + b
		a := big.NewInt(rapid.Int64Range(-1000, 1000).Draw(rt, "a"))
		b := new(big.Int).Sub(v, a)
		return Binary(OpAdd, UntypedInt, UntypedLeaf(UntypedInt, a.String()), UntypedLeaf(UntypedInt, b.String()))
	case 2: // (v*2)/2
		d := new(big.Int).Lsh(v, 1)
		return Binary(OpQuo, UntypedInt, UntypedLeaf(UntypedInt, d.String()), UntypedLeaf(UntypedInt, "2"))
	case 3: // float literal form when exact: v.0
		return UntypedLeaf(UntypedFloat, v.String()+".0")
	default: // (1 << k) + r
		if v.Sign() > 0 && v.BitLen() > 1 {
			k := v.BitLen() - 1
			r := new(big.Int).Sub(v, pow2(uint(k)))
			sh := Binary(OpShl, UntypedInt, UntypedLeaf(UntypedInt, "1"), UntypedLeaf(UntypedInt, strconv.Itoa(k)))
			return Binary(OpAdd, UntypedInt, sh, UntypedLeaf(UntypedInt, r.String()))
		}
		return UntypedLeaf(UntypedInt, v.String())
	}
}
