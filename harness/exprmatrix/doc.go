// Package exprmatrix is the scalar operator / conversion matrix shared by the
// language-level checks (C15 constant folding, C01 compiled arithmetic).
//
// It models typed scalar expression trees over Wa's eleven scalar types
//
//	bool u8 u16 i32 int u32 uint i64 u64 f32 f64        (int/uint are 32 bit)
//
// plus the three untyped constant kinds (untyped bool/int/float), and offers
// four independent views of one tree:
//
//   - Eval       – the NATIVE evaluator: Go's own operators on Go's own
//     fixed-width types (int32(a) << uint64(b) *is* the reference
//     semantics).  It reports a *DomainError when a tree leaves
//     the domain in which Go defines the result (integer division
//     by zero, negative shift count, float→int of NaN or of a
//     value whose truncation does not fit, finite f64→f32
//     overflow).  MinInt / −1 and shift counts ≥ width are
//     defined by Go and stay in.  Sub-trees without a variable
//     operand (pinned leaves, untyped literals) are folded by
//     every compiler: they take their constant value.
//   - ConstEval  – the EXACT evaluator: the Go specification's constant
//     semantics on math/big values (exact untyped arithmetic,
//     typed constants must stay representable after every
//     operation, typed floats are rounded after every operation).
//     It either yields the exact value or a *Reject saying which
//     node is not representable ("overflow", "truncated") or is
//     otherwise not a constant ("div-by-zero", "shift-count",
//     "not-constant").
//   - GoTypes    – a second opinion on ConstEval: the Go rendering of the same
//     constant declarations checked by go/types + go/constant
//     from the standard library.
//   - Wa / Go    – renderers.  Style AsOperands writes every typed leaf as a
//     package-level global ("g7", defeats folding); AsConstants
//     writes it as a literal conversion "i32(-5)", a named typed
//     constant "k7" or a bare literal (forces folding).  Leaves
//     marked Pin stay constant in both styles (partial folding).
//     Decls renders the matching global/const declarations.
//
// Values print canonically with Value.String (ints decimal, floats as IEEE bit
// pattern, bools 0/1) and, for comparing with program output, with
// Value.WaPrint: exactly what Wa's println prints (its host uses Go's
// fmt.Fprint, whose shortest round-trip float format is injective on non-NaN
// floats; every NaN prints "NaN").
//
// Generators (rapid): GenValue (boundary-biased operand values), Config.Tree (typed
// trees that stay inside Eval's domain — out-of-domain nodes are regenerated
// or guarded by construction, e.g. "y | 1" divisors — and, with
// Config.ConstValid, inside ConstEval's), Config.UntypedTree (untyped constant trees),
// Config.ConstDecl (a tree plus a target type for `const c: T = e` / T(e) in both
// the representable and the non-representable direction).  Class / IsBoundary
// classify operand values (zero, min, max, 2^k±1, shift-width, subnormal,
// 2^31/2^32/2^63/2^64 neighbours …) for non-triviality rules and histograms.
//
// Everything is JSON-marshalable (Expr, Value) so a single expression is a
// complete replay payload.  Config.Exclude is the known-finding hook: a
// predicate on candidate nodes that makes the generator draw another node.
//
// Typical use (a run-time-only check such as C01):
//
//	cfg := exprmatrix.Config{Special: true, MaxDepth: 3}
//	e := cfg.AnyTree().Draw(t, "e")            // all leaves are operands
//	exprmatrix.Number(0, exprs...)             // g0, g1, … over the whole batch
//	d := exprmatrix.WaDecls(exprs, true, false) // d.Globals, d.Init (+ import "math" if d.NeedMath)
//	line := "println(" + e.Wa(exprmatrix.AsOperands) + ")"
//	v, _ := exprmatrix.Eval(e)                 // v.WaPrint() is the expected output
package exprmatrix
