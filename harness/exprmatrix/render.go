package exprmatrix

import (
	"fmt"
	"strings"
)

// Style selects how typed leaves are written.
type Style uint8

const (
	// AsOperands writes every typed leaf that is not pinned as its global
	// ("g7"): nothing but pinned leaves and untyped sub-trees can be folded.
	AsOperands Style = iota
	// AsConstants writes every typed leaf as a constant (by its LeafMode): the
	// whole tree is a constant expression.
	AsConstants
)

type lang uint8

const (
	langWa lang = iota
	langGo
)

// Wa renders the expression in Wa syntax, fully parenthesised.
func (e *Expr) Wa(s Style) string {
	var b strings.Builder
	render(&b, e, s, langWa, false)
	return b.String()
}

// Go renders the expression in Go syntax (int→int32, uint→uint32).
func (e *Expr) Go(s Style) string {
	var b strings.Builder
	render(&b, e, s, langGo, false)
	return b.String()
}

func typeName(t Type, l lang) string {
	if l == langGo {
		return t.GoName()
	}
	return t.String()
}

// GlobalName / ConstName are the identifiers of a numbered leaf.
func GlobalName(id int) string { return fmt.Sprintf("g%d", id) }
func ConstName(id int) string  { return fmt.Sprintf("k%d", id) }

func isBareLeaf(e *Expr) bool { return e.K == KLeaf && e.Val != nil && e.Mode == LeafBare }

// render writes e; bareOK says that the context converts an untyped constant
// to e's type, so a LeafBare leaf may be written as a plain literal.
func render(b *strings.Builder, e *Expr, s Style, l lang, bareOK bool) {
	switch e.K {
	case KLeaf:
		if e.Val == nil { // untyped literal
			if strings.HasPrefix(e.Lit, "-") {
				b.WriteString("(" + e.Lit + ")")
			} else {
				b.WriteString(e.Lit)
			}
			return
		}
		if s == AsOperands && !e.Pin {
			b.WriteString(GlobalName(e.ID))
			return
		}
		switch {
		case !e.Val.Constable(): // NaN, ±Inf, −0 have no constant form: an expression that is not a constant
			if e.T == F32 {
				fmt.Fprintf(b, "math.Float32frombits(0x%08x)", e.Val.norm().U)
			} else {
				fmt.Fprintf(b, "math.Float64frombits(0x%016x)", e.Val.norm().U)
			}
		case e.Mode == LeafNamed:
			b.WriteString(ConstName(e.ID))
		case e.Mode == LeafBare && bareOK && e.T != Bool:
			lit := e.Val.Literal()
			if strings.HasPrefix(lit, "-") {
				lit = "(" + lit + ")"
			}
			b.WriteString(lit)
		default:
			b.WriteString(typeName(e.T, l) + "(" + e.Val.Literal() + ")")
		}
	case KUnary:
		b.WriteString("(" + e.Op.Token())
		render(b, e.X, s, l, false)
		b.WriteString(")")
	case KConv:
		b.WriteString(typeName(e.T, l) + "(")
		render(b, e.X, s, l, false)
		b.WriteString(")")
	case KBinary:
		xBare, yBare := false, false
		switch {
		case e.Op.IsShift():
			yBare = true // a constant count is converted to uint; its own type is irrelevant
		case e.Op.IsLogical():
		default:
			// the sibling must be written as a typed expression
			xBare = !e.Y.T.IsUntyped() && !isBareLeaf(e.Y)
			yBare = !e.X.T.IsUntyped()
		}
		b.WriteString("(")
		render(b, e.X, s, l, xBare)
		b.WriteString(" " + e.Op.Token() + " ")
		render(b, e.Y, s, l, yBare)
		b.WriteString(")")
	}
}

// Decls are the declarations the leaves of some trees need.
type Decls struct {
	Globals  []string // `global g7: i32 = -5` (Wa) / `var g7 int32 = -5` (Go); special floats are declared without initialiser
	Consts   []string // `const k7: i32 = -5` for LeafNamed leaves
	Init     []string // statements for main: `g9 = math.Float64frombits(0x7ff8000000000001)`
	NeedMath bool     // Init uses package math
}

// WaDecls renders the declarations for the (numbered) typed leaves of exprs.
// withGlobals / withConsts select which families are wanted (a constants-only
// program needs no globals).
func WaDecls(exprs []*Expr, withGlobals, withConsts bool) Decls {
	return decls(exprs, langWa, withGlobals, withConsts)
}

// GoDecls is WaDecls for the Go rendering.
func GoDecls(exprs []*Expr, withGlobals, withConsts bool) Decls {
	return decls(exprs, langGo, withGlobals, withConsts)
}

func decls(exprs []*Expr, l lang, withGlobals, withConsts bool) Decls {
	var d Decls
	for _, e := range exprs {
		for _, lf := range e.Leaves() {
			v := *lf.Val
			tn := typeName(v.T, l)
			if withGlobals && !lf.Pin {
				name := GlobalName(lf.ID)
				switch {
				case v.Constable() && l == langWa:
					d.Globals = append(d.Globals, fmt.Sprintf("global %s: %s = %s", name, tn, v.Literal()))
				case v.Constable():
					d.Globals = append(d.Globals, fmt.Sprintf("var %s %s = %s", name, tn, v.Literal()))
				default:
					d.NeedMath = true
					fn, bits := "Float64frombits", fmt.Sprintf("0x%016x", v.norm().U)
					if v.T == F32 {
						fn, bits = "Float32frombits", fmt.Sprintf("0x%08x", v.norm().U)
					}
					if l == langWa {
						d.Globals = append(d.Globals, fmt.Sprintf("global %s: %s", name, tn))
					} else {
						d.Globals = append(d.Globals, fmt.Sprintf("var %s %s", name, tn))
					}
					d.Init = append(d.Init, fmt.Sprintf("%s = math.%s(%s)", name, fn, bits))
				}
			}
			if withConsts && lf.Mode == LeafNamed && v.Constable() {
				if l == langWa {
					d.Consts = append(d.Consts, fmt.Sprintf("const %s: %s = %s", ConstName(lf.ID), tn, v.Literal()))
				} else {
					d.Consts = append(d.Consts, fmt.Sprintf("const %s %s = %s", ConstName(lf.ID), tn, v.Literal()))
				}
			}
		}
	}
	return d
}
