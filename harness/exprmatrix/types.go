package exprmatrix

import (
	"encoding/json"
	"fmt"
	"math"
	"math/big"
	"strconv"
	"strings"
)

// Type is a Wa scalar type or an untyped constant kind.
type Type uint8

const (
	Bool Type = iota
	U8
	U16
	I32
	Int // 32 bit in Wa
	U32
	Uint // 32 bit in Wa
	I64
	U64
	F32
	F64
	UntypedBool
	UntypedInt
	UntypedFloat
	numTypes
)

var typeNames = [numTypes]string{"bool", "u8", "u16", "i32", "int", "u32", "uint", "i64", "u64", "f32", "f64",
	"untyped bool", "untyped int", "untyped float"}
var goNames = [numTypes]string{"bool", "uint8", "uint16", "int32", "int32", "uint32", "uint32", "int64", "uint64", "float32", "float64",
	"untyped bool", "untyped int", "untyped float"}

// Scalars lists the typed scalar types, Integers/Floats/Numeric their subsets.
var (
	Scalars  = []Type{Bool, U8, U16, I32, Int, U32, Uint, I64, U64, F32, F64}
	Integers = []Type{U8, U16, I32, Int, U32, Uint, I64, U64}
	Floats   = []Type{F32, F64}
	Numeric  = []Type{U8, U16, I32, Int, U32, Uint, I64, U64, F32, F64}
)

// String is the Wa spelling ("i32", "untyped int").
func (t Type) String() string {
	if t < numTypes {
		return typeNames[t]
	}
	return fmt.Sprintf("Type(%d)", uint8(t))
}

// GoName is the Go spelling used by the Go rendering (int→int32, uint→uint32).
// A Go rendering that must keep int and i32 distinct declares named types; the
// renderers here only need value semantics.
func (t Type) GoName() string { return goNames[t] }

// ParseType is the inverse of String.
func ParseType(s string) (Type, bool) {
	for i, n := range typeNames {
		if n == s {
			return Type(i), true
		}
	}
	return 0, false
}

func (t Type) MarshalJSON() ([]byte, error) { return json.Marshal(t.String()) }
func (t *Type) UnmarshalJSON(b []byte) error {
	var s string
	if err := json.Unmarshal(b, &s); err != nil {
		return err
	}
	v, ok := ParseType(s)
	if !ok {
		return fmt.Errorf("exprmatrix: unknown type %q", s)
	}
	*t = v
	return nil
}

func (t Type) IsUntyped() bool  { return t >= UntypedBool && t < numTypes }
func (t Type) IsBool() bool     { return t == Bool || t == UntypedBool }
func (t Type) IsFloat() bool    { return t == F32 || t == F64 || t == UntypedFloat }
func (t Type) IsInteger() bool  { return (t >= U8 && t <= U64) || t == UntypedInt }
func (t Type) IsNumeric() bool  { return t.IsInteger() || t.IsFloat() }
func (t Type) IsSigned() bool   { return t == I32 || t == Int || t == I64 }
func (t Type) IsUnsigned() bool { return t == U8 || t == U16 || t == U32 || t == Uint || t == U64 }

// Bits is the width of a typed numeric type (bool: 1, untyped: 0).
func (t Type) Bits() int {
	switch t {
	case Bool:
		return 1
	case U8:
		return 8
	case U16:
		return 16
	case I32, Int, U32, Uint, F32:
		return 32
	case I64, U64, F64:
		return 64
	}
	return 0
}

// MinInt / MaxInt are the limits of a typed integer type.
func (t Type) MinInt() *big.Int {
	if t.IsSigned() {
		return new(big.Int).Neg(new(big.Int).Lsh(big.NewInt(1), uint(t.Bits()-1)))
	}
	return new(big.Int)
}

func (t Type) MaxInt() *big.Int {
	n := uint(t.Bits())
	if t.IsSigned() {
		n--
	}
	m := new(big.Int).Lsh(big.NewInt(1), n)
	return m.Sub(m, big.NewInt(1))
}

// ---------------------------------------------------------------- Value

// Value is one typed scalar value.  U holds: integers as their 64-bit
// two's-complement sign/zero extension, f32 as Float32bits (low 32 bits), f64 as
// Float64bits, bool as 0/1.
type Value struct {
	T Type
	U uint64
}

// IntValue makes an integer value of type t from v, wrapping to t's width.
func IntValue(t Type, v int64) Value { return UintValue(t, uint64(v)) }

// UintValue makes an integer value of type t from the low bits of u.
func UintValue(t Type, u uint64) Value {
	switch t {
	case U8:
		u = uint64(uint8(u))
	case U16:
		u = uint64(uint16(u))
	case U32, Uint:
		u = uint64(uint32(u))
	case I32, Int:
		u = uint64(int64(int32(u)))
	case I64, U64:
	default:
		panic("exprmatrix: UintValue of non-integer type " + t.String())
	}
	return Value{t, u}
}

func F32Value(f float32) Value { return Value{F32, uint64(math.Float32bits(f))} }
func F64Value(f float64) Value { return Value{F64, math.Float64bits(f)} }
func BoolValue(b bool) Value {
	if b {
		return Value{Bool, 1}
	}
	return Value{Bool, 0}
}

// FloatValue makes an f32 or f64 from f (rounded to nearest for f32).
func FloatValue(t Type, f float64) Value {
	if t == F32 {
		return F32Value(float32(f))
	}
	return F64Value(f)
}

func (v Value) Int64() int64     { return int64(v.U) }
func (v Value) Uint64() uint64   { return v.U }
func (v Value) Bool() bool       { return v.U != 0 }
func (v Value) Float32() float32 { return math.Float32frombits(uint32(v.U)) }

// Float64 returns a float value widened (exactly) to float64.
func (v Value) Float64() float64 {
	if v.T == F32 {
		return float64(v.Float32())
	}
	return math.Float64frombits(v.U)
}

// IsNaN / IsInf / IsNegZero classify float values.
func (v Value) IsNaN() bool { return v.T.IsFloat() && math.IsNaN(v.Float64()) }
func (v Value) IsInf() bool { return v.T.IsFloat() && math.IsInf(v.Float64(), 0) }
func (v Value) IsNegZero() bool {
	return v.T.IsFloat() && v.Float64() == 0 && math.Signbit(v.Float64())
}

// Constable reports whether the value can be written as a Wa constant (NaN,
// ±Inf and −0 cannot).
func (v Value) Constable() bool { return !(v.IsNaN() || v.IsInf() || v.IsNegZero()) }

// BigInt returns the exact value of an integer value.
func (v Value) BigInt() *big.Int {
	if v.T.IsUnsigned() {
		return new(big.Int).SetUint64(v.U)
	}
	return big.NewInt(int64(v.U))
}

// Rat returns the exact value of a finite float or of an integer.
func (v Value) Rat() *big.Rat {
	if v.T.IsInteger() {
		return new(big.Rat).SetInt(v.BigInt())
	}
	r := new(big.Rat)
	if r.SetFloat64(v.Float64()) == nil {
		return nil
	}
	return r
}

// norm canonicalises NaNs so that values compare with ==.
func (v Value) norm() Value {
	if v.IsNaN() {
		if v.T == F32 {
			return Value{F32, 0x7fc00000}
		}
		return Value{F64, 0x7ff8000000000001}
	}
	return v
}

// Same reports equality of type and value (all NaNs are the same value; +0 and
// −0 are different).
func (v Value) Same(w Value) bool { return v.norm() == w.norm() }

// String is the canonical form: integers in decimal, floats as their IEEE bit
// pattern ("0x3ff8000000000000"), bools as 0/1.
func (v Value) String() string {
	switch {
	case v.T.IsFloat():
		n := v.norm()
		if v.T == F32 {
			return fmt.Sprintf("0x%08x", n.U)
		}
		return fmt.Sprintf("0x%016x", n.U)
	case v.T.IsUnsigned() || v.T == Bool:
		return strconv.FormatUint(v.U, 10)
	}
	return strconv.FormatInt(int64(v.U), 10)
}

// WaPrint is what Wa's println prints for the value (host side: fmt.Fprint).
func (v Value) WaPrint() string {
	switch v.T {
	case Bool:
		return strconv.FormatBool(v.U != 0)
	case F32:
		return fmt.Sprint(v.Float32())
	case F64:
		return fmt.Sprint(v.Float64())
	}
	return v.String()
}

// Literal is the source literal whose (untyped) constant value converts to v
// exactly: decimal integers, shortest round-trip decimals for floats (always
// with a '.' or exponent), true/false.  It panics for values that are not
// Constable.
func (v Value) Literal() string {
	switch {
	case v.T == Bool:
		return strconv.FormatBool(v.U != 0)
	case v.T.IsFloat():
		if !v.Constable() {
			panic("exprmatrix: no literal for " + v.WaPrint())
		}
		var s string
		if v.T == F32 {
			s = strconv.FormatFloat(v.Float64(), 'g', -1, 32)
		} else {
			s = strconv.FormatFloat(v.Float64(), 'g', -1, 64)
		}
		if !strings.ContainsAny(s, ".e") {
			s += ".0"
		}
		return s
	}
	return v.String()
}

// Text / ParseValue: "i32:-5", "f64:1.5#0x3ff8000000000000", "bool:1".
func (v Value) Text() string {
	if v.T.IsFloat() {
		return v.T.String() + ":" + v.WaPrint() + "#" + v.String()
	}
	return v.T.String() + ":" + v.String()
}

func ParseValue(s string) (Value, error) {
	i := strings.IndexByte(s, ':')
	if i < 0 {
		return Value{}, fmt.Errorf("exprmatrix: bad value %q", s)
	}
	t, ok := ParseType(s[:i])
	if !ok || t.IsUntyped() {
		return Value{}, fmt.Errorf("exprmatrix: bad value type in %q", s)
	}
	rest := s[i+1:]
	switch {
	case t.IsFloat():
		if j := strings.IndexByte(rest, '#'); j >= 0 {
			u, err := strconv.ParseUint(rest[j+1:], 0, 64)
			if err != nil {
				return Value{}, err
			}
			return Value{t, u}, nil
		}
		f, err := strconv.ParseFloat(rest, t.Bits())
		if err != nil {
			return Value{}, err
		}
		return FloatValue(t, f), nil
	case t.IsSigned():
		n, err := strconv.ParseInt(rest, 10, 64)
		if err != nil {
			return Value{}, err
		}
		return IntValue(t, n), nil
	case t == Bool:
		return BoolValue(rest == "1" || rest == "true"), nil
	}
	u, err := strconv.ParseUint(rest, 10, 64)
	if err != nil {
		return Value{}, err
	}
	return UintValue(t, u), nil
}

func (v Value) MarshalJSON() ([]byte, error) { return json.Marshal(v.Text()) }
func (v *Value) UnmarshalJSON(b []byte) error {
	var s string
	if err := json.Unmarshal(b, &s); err != nil {
		return err
	}
	w, err := ParseValue(s)
	if err != nil {
		return err
	}
	*v = w
	return nil
}
