package exprmatrix

import (
	"math"
	"math/big"
)

// Class names the boundary class of an operand or result value.  Integer
// classes: zero one minus-one min max near-min near-max width-nbr (within 2 of
// ±2^31, 2^32, ±2^63 where the type is wider than that) shift-width (a value
// w−1, w, w+1 for w ∈ {8,16,32,64}) pow2 pow2±1 small other.  Float classes:
// nan inf negzero zero subnormal max min-normal one 2^31-nbr 2^32-nbr 2^63-nbr
// 2^64-nbr 2^24-nbr 2^53-nbr int fraction.  Bool: true false.
func Class(v Value) string {
	switch {
	case v.T.IsBool():
		if v.Bool() {
			return "true"
		}
		return "false"
	case v.T.IsFloat():
		return floatClass(v)
	}
	return intClass(v.T, v.BigInt())
}

// IsBoundary reports whether a class is a boundary class (everything except
// small / other / int / fraction / true / false).
func IsBoundary(class string) bool {
	switch class {
	case "small", "other", "int", "fraction", "true", "false":
		return false
	}
	return true
}

func within(x, c *big.Int, d int64) bool {
	t := new(big.Int).Sub(x, c)
	return t.CmpAbs(big.NewInt(d)) <= 0
}

func pow2(k uint) *big.Int { return new(big.Int).Lsh(big.NewInt(1), k) }

func intClass(t Type, x *big.Int) string {
	switch {
	case x.Sign() == 0:
		return "zero"
	case x.IsInt64() && x.Int64() == 1:
		return "one"
	case x.IsInt64() && x.Int64() == -1:
		return "minus-one"
	}
	if !t.IsUntyped() {
		switch {
		case t.IsSigned() && x.Cmp(t.MinInt()) == 0:
			return "min"
		case x.Cmp(t.MaxInt()) == 0:
			return "max"
		case t.IsSigned() && within(x, t.MinInt(), 2):
			return "near-min"
		case within(x, t.MaxInt(), 2):
			return "near-max"
		}
	}
	for _, k := range []uint{31, 32, 63, 64} {
		if (t.IsUntyped() || int(k) < t.Bits()) && (within(x, pow2(k), 2) || within(x, new(big.Int).Neg(pow2(k)), 2)) {
			return "width-nbr"
		}
	}
	if x.IsInt64() {
		switch x.Int64() {
		case 7, 8, 9, 15, 16, 17, 31, 32, 33, 63, 64, 65:
			return "shift-width"
		}
	}
	a := new(big.Int).Abs(x)
	if a.BitLen() > 4 {
		if new(big.Int).And(a, new(big.Int).Sub(a, big.NewInt(1))).Sign() == 0 {
			return "pow2"
		}
		up, dn := new(big.Int).Add(a, big.NewInt(1)), new(big.Int).Sub(a, big.NewInt(1))
		if new(big.Int).And(up, a).Sign() == 0 || new(big.Int).And(dn, new(big.Int).Sub(dn, big.NewInt(1))).Sign() == 0 {
			return "pow2±1"
		}
		return "other"
	}
	return "small"
}

func floatClass(v Value) string {
	f := v.Float64()
	a := math.Abs(f)
	switch {
	case math.IsNaN(f):
		return "nan"
	case math.IsInf(f, 0):
		return "inf"
	case f == 0 && math.Signbit(f):
		return "negzero"
	case f == 0:
		return "zero"
	case a == 1:
		return "one"
	}
	if v.T == F32 {
		switch {
		case a < 0x1p-126:
			return "subnormal"
		case a == math.MaxFloat32:
			return "max"
		case a == 0x1p-126:
			return "min-normal"
		}
	} else {
		switch {
		case a < 0x1p-1022:
			return "subnormal"
		case a == math.MaxFloat64:
			return "max"
		case a == 0x1p-1022:
			return "min-normal"
		}
	}
	near := func(c float64) bool {
		// within 2 units or 2 ulps (of the value's own format)
		if math.Abs(a-c) <= 2 {
			return true
		}
		if v.T == F32 {
			c32 := float32(c)
			lo := math.Nextafter32(math.Nextafter32(c32, 0), 0)
			hi := math.Nextafter32(math.Nextafter32(c32, float32(math.Inf(1))), float32(math.Inf(1)))
			return float32(a) >= lo && float32(a) <= hi
		}
		lo := math.Nextafter(math.Nextafter(c, 0), 0)
		hi := math.Nextafter(math.Nextafter(c, math.Inf(1)), math.Inf(1))
		return a >= lo && a <= hi
	}
	switch {
	case near(0x1p31):
		return "2^31-nbr"
	case near(0x1p32):
		return "2^32-nbr"
	case near(0x1p63):
		return "2^63-nbr"
	case near(0x1p64):
		return "2^64-nbr"
	case near(0x1p24):
		return "2^24-nbr"
	case near(0x1p53):
		return "2^53-nbr"
	}
	if a == math.Trunc(a) {
		return "int"
	}
	return "fraction"
}

// ConstClass classifies an exact constant value: integers as Class does
// (limits of every typed integer type count: "lim" = within 2 of some type's
// Min, Max or Max+1), floats by magnitude.
func ConstClass(c Const) string {
	switch {
	case c.T.IsBool():
		if c.Bool {
			return "true"
		}
		return "false"
	case c.T.IsInteger():
		if !c.T.IsUntyped() {
			return intClass(c.T, c.Int)
		}
		if cl := intClass(UntypedInt, c.Int); cl == "zero" || cl == "one" || cl == "minus-one" {
			return cl
		}
		for _, t := range Integers {
			if within(c.Int, t.MinInt(), 2) && t.IsSigned() || within(c.Int, t.MaxInt(), 2) || within(c.Int, new(big.Int).Add(t.MaxInt(), big.NewInt(1)), 2) {
				return "lim"
			}
		}
		if c.Int.BitLen() > 64 {
			return "huge"
		}
		return intClass(UntypedInt, c.Int)
	}
	if c.T == F32 || c.T == F64 {
		return floatClass(c.Value())
	}
	r := c.Rat
	a := new(big.Rat).Abs(r)
	f, exact := a.Float64()
	switch {
	case r.Sign() == 0:
		return "zero"
	case math.IsInf(f, 0):
		return "beyond-f64"
	case f > math.MaxFloat32:
		return "beyond-f32"
	case f < 0x1p-1022:
		return "subnormal"
	case !exact:
		return "inexact-f64"
	}
	return floatClass(F64Value(f))
}

// NonTrivial implements the shared rule: at least two operators and an operand
// or the result in a boundary class.  extraOps counts operators outside the
// tree (the conversion implied by a typed declaration).
func NonTrivial(e *Expr, extraOps int) bool {
	if e.Ops()+extraOps < 2 {
		return false
	}
	b := false
	e.Walk(func(x *Expr) {
		if x.K != KLeaf {
			return
		}
		if x.Val != nil {
			b = b || IsBoundary(Class(*x.Val))
		} else if c, rej := ConstEval(x); rej == nil {
			cl := ConstClass(c)
			b = b || IsBoundary(cl) && cl != "inexact-f64"
		}
	})
	if b {
		return true
	}
	if v, err := Eval(e); err == nil {
		return IsBoundary(Class(v))
	}
	if c, rej := ConstEval(e); rej == nil {
		return IsBoundary(ConstClass(c))
	}
	return false
}
