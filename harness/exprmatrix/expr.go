package exprmatrix

import (
	"encoding/json"
	"fmt"
)

// Op is an operator.
type Op uint8

const (
	OpNone Op = iota
	// binary arithmetic / bitwise
	OpAdd
	OpSub
	OpMul
	OpQuo
	OpRem
	OpAnd
	OpOr
	OpXor
	OpAndNot
	OpShl
	OpShr
	// comparisons
	OpEq
	OpNe
	OpLt
	OpLe
	OpGt
	OpGe
	// logical
	OpLAnd
	OpLOr
	// unary
	OpNeg  // -x
	OpCpl  // ^x
	OpLNot // !x
	// conversion T(x)
	OpConv
	numOps
)

var opTokens = [numOps]string{"", "+", "-", "*", "/", "%", "&", "|", "^", "&^", "<<", ">>",
	"==", "!=", "<", "<=", ">", ">=", "&&", "||", "neg", "cpl", "not", "conv"}

// String is a stable name: the source token for binary operators, "neg" / "cpl"
// / "not" for unary − ^ !, "conv" for conversions.
func (o Op) String() string {
	if o < numOps {
		return opTokens[o]
	}
	return fmt.Sprintf("Op(%d)", uint8(o))
}

// Token is the source spelling.
func (o Op) Token() string {
	switch o {
	case OpNeg:
		return "-"
	case OpCpl:
		return "^"
	case OpLNot:
		return "!"
	}
	return o.String()
}

func (o Op) MarshalJSON() ([]byte, error) { return json.Marshal(o.String()) }
func (o *Op) UnmarshalJSON(b []byte) error {
	var s string
	if err := json.Unmarshal(b, &s); err != nil {
		return err
	}
	for i, n := range opTokens {
		if n == s {
			*o = Op(i)
			return nil
		}
	}
	return fmt.Errorf("exprmatrix: unknown operator %q", s)
}

func (o Op) IsShift() bool      { return o == OpShl || o == OpShr }
func (o Op) IsComparison() bool { return o >= OpEq && o <= OpGe }
func (o Op) IsLogical() bool    { return o == OpLAnd || o == OpLOr }
func (o Op) IsUnary() bool      { return o == OpNeg || o == OpCpl || o == OpLNot }
func (o Op) IsArith() bool      { return o >= OpAdd && o <= OpAndNot }

// Operator tables used by generators and coverage histograms.
var (
	IntBinaryOps   = []Op{OpAdd, OpSub, OpMul, OpQuo, OpRem, OpAnd, OpOr, OpXor, OpAndNot}
	FloatBinaryOps = []Op{OpAdd, OpSub, OpMul, OpQuo}
	ShiftOps       = []Op{OpShl, OpShr}
	OrderedCmpOps  = []Op{OpEq, OpNe, OpLt, OpLe, OpGt, OpGe}
	EqCmpOps       = []Op{OpEq, OpNe}
)

// Kind of a node.
type Kind uint8

const (
	KLeaf Kind = iota
	KUnary
	KBinary
	KConv
)

// LeafMode says how a typed leaf is written when it is rendered as a constant.
type LeafMode uint8

const (
	LeafLit   LeafMode = iota // conversion of a literal: i32(-5)
	LeafNamed                 // named typed constant: k7 (declared `const k7: i32 = -5`)
	LeafBare                  // bare literal: (-5) – only where the context converts it to the leaf type
)

// Expr is a node.  Typed leaves carry Val; untyped leaves carry Lit, the source
// literal ("12", "0.1", "1e30", "true") whose exact value is the constant.
type Expr struct {
	K    Kind     `json:"k"`
	Op   Op       `json:"op,omitempty"`
	T    Type     `json:"t"` // result type
	X    *Expr    `json:"x,omitempty"`
	Y    *Expr    `json:"y,omitempty"`
	Val  *Value   `json:"val,omitempty"`
	Lit  string   `json:"lit,omitempty"`
	Mode LeafMode `json:"mode,omitempty"`
	Pin  bool     `json:"pin,omitempty"` // stays a constant even in the AsOperands rendering
	ID   int      `json:"id,omitempty"`  // g<ID> / k<ID>, assigned by Number
}

// Leaf makes a typed leaf.
func Leaf(v Value) *Expr { w := v; return &Expr{K: KLeaf, T: v.T, Val: &w} }

// UntypedLeaf makes an untyped literal leaf; lit must be a valid literal of the
// kind (decimal integer, decimal float with '.' or exponent, true/false).
func UntypedLeaf(t Type, lit string) *Expr { return &Expr{K: KLeaf, T: t, Lit: lit} }

// Unary makes op x; the result type is x's type.
func Unary(op Op, x *Expr) *Expr { return &Expr{K: KUnary, Op: op, T: x.T, X: x} }

// Binary makes x op y with result type t (the caller knows the typing rule:
// operand type for arithmetic, left operand type for shifts, UntypedBool for
// comparisons).
func Binary(op Op, t Type, x, y *Expr) *Expr { return &Expr{K: KBinary, Op: op, T: t, X: x, Y: y} }

// Conv makes t(x).
func Conv(t Type, x *Expr) *Expr { return &Expr{K: KConv, Op: OpConv, T: t, X: x} }

// Walk visits every node, parents first.
func (e *Expr) Walk(f func(*Expr)) {
	if e == nil {
		return
	}
	f(e)
	e.X.Walk(f)
	e.Y.Walk(f)
}

// Clone deep-copies a tree.
func (e *Expr) Clone() *Expr {
	if e == nil {
		return nil
	}
	c := *e
	if e.Val != nil {
		v := *e.Val
		c.Val = &v
	}
	c.X, c.Y = e.X.Clone(), e.Y.Clone()
	return &c
}

// Ops counts operator nodes (unary, binary, conversion).
func (e *Expr) Ops() int {
	n := 0
	e.Walk(func(x *Expr) {
		if x.K != KLeaf {
			n++
		}
	})
	return n
}

// Size counts nodes.
func (e *Expr) Size() int {
	n := 0
	e.Walk(func(*Expr) { n++ })
	return n
}

// Leaves returns the typed leaves in evaluation order.
func (e *Expr) Leaves() []*Expr {
	var out []*Expr
	e.Walk(func(x *Expr) {
		if x.K == KLeaf && x.Val != nil {
			out = append(out, x)
		}
	})
	return out
}

// HasUntyped reports whether any node is untyped.
func (e *Expr) HasUntyped() bool {
	u := false
	e.Walk(func(x *Expr) {
		if x.T.IsUntyped() {
			u = true
		}
	})
	return u
}

// Number assigns consecutive IDs (starting at first) to the typed leaves of the
// given trees and returns the next free ID.
func Number(first int, exprs ...*Expr) int {
	for _, e := range exprs {
		for _, l := range e.Leaves() {
			l.ID = first
			first++
		}
	}
	return first
}

// Check validates the static typing of a tree (the rules both Go and Wa
// impose); generators only build trees that pass.  It returns nil or a
// description of the first ill-typed node.
func (e *Expr) Check() error {
	switch e.K {
	case KLeaf:
		if e.T.IsUntyped() {
			if e.Lit == "" {
				return fmt.Errorf("untyped leaf without literal")
			}
			return nil
		}
		if e.Val == nil || e.Val.T != e.T {
			return fmt.Errorf("typed leaf %v without matching value", e.T)
		}
		return nil
	case KUnary:
		if err := e.X.Check(); err != nil {
			return err
		}
		ok := e.T == e.X.T
		switch e.Op {
		case OpNeg:
			ok = ok && e.T.IsNumeric()
		case OpCpl:
			ok = ok && e.T.IsInteger()
		case OpLNot:
			ok = ok && e.T.IsBool()
		default:
			ok = false
		}
		if !ok {
			return fmt.Errorf("ill-typed unary %v on %v", e.Op, e.X.T)
		}
		return nil
	case KConv:
		if err := e.X.Check(); err != nil {
			return err
		}
		if e.T.IsUntyped() || e.T.IsBool() != e.X.T.IsBool() {
			return fmt.Errorf("ill-typed conversion %v(%v)", e.T, e.X.T)
		}
		return nil
	case KBinary:
		if err := e.X.Check(); err != nil {
			return err
		}
		if err := e.Y.Check(); err != nil {
			return err
		}
		xt, yt := e.X.T, e.Y.T
		switch {
		case e.Op.IsShift():
			lhsOK := xt.IsInteger() || xt == UntypedFloat // integer-valued untyped float is allowed
			if !lhsOK || !(yt.IsInteger() || yt == UntypedFloat) {
				return fmt.Errorf("ill-typed shift %v %v %v", xt, e.Op, yt)
			}
			want := xt
			if xt == UntypedFloat {
				want = UntypedInt
			}
			if e.T != want {
				return fmt.Errorf("shift result %v, want %v", e.T, want)
			}
			if xt.IsUntyped() && !yt.IsUntyped() && !isConstTree(e.Y) {
				return fmt.Errorf("untyped shift operand with non-constant count")
			}
			return nil
		case e.Op.IsLogical():
			if !xt.IsBool() || !yt.IsBool() {
				return fmt.Errorf("ill-typed %v %v %v", xt, e.Op, yt)
			}
			want := UntypedBool
			if xt == Bool || yt == Bool {
				want = Bool
			}
			if e.T != want {
				return fmt.Errorf("logical result %v, want %v", e.T, want)
			}
			return nil
		}
		ct, ok := commonType(xt, yt)
		if !ok {
			return fmt.Errorf("mismatched operands %v %v %v", xt, e.Op, yt)
		}
		switch {
		case e.Op.IsComparison():
			if e.T != UntypedBool {
				return fmt.Errorf("comparison result %v", e.T)
			}
			if ct.IsBool() && e.Op != OpEq && e.Op != OpNe {
				return fmt.Errorf("ordered comparison of bools")
			}
			return nil
		case e.Op.IsArith():
			if e.T != ct || !ct.IsNumeric() {
				return fmt.Errorf("arithmetic result %v on %v", e.T, ct)
			}
			if ct.IsFloat() && e.Op >= OpRem {
				return fmt.Errorf("operator %v on floats", e.Op)
			}
			return nil
		}
	}
	return fmt.Errorf("unknown node")
}

// commonType is the operand type of a non-shift binary operation: identical
// typed types, or the typed side when the other is untyped, or the larger
// untyped kind.
func commonType(x, y Type) (Type, bool) {
	switch {
	case !x.IsUntyped() && !y.IsUntyped():
		return x, x == y
	case x.IsUntyped() && y.IsUntyped():
		if x.IsBool() != y.IsBool() {
			return 0, false
		}
		if x > y {
			return x, true
		}
		return y, true
	case x.IsUntyped():
		x, y = y, x
	}
	// x typed, y untyped
	switch {
	case x.IsBool():
		return x, y == UntypedBool
	case y == UntypedBool:
		return 0, false
	}
	return x, true
}

// isConstTree: every leaf is written as a constant in every rendering.
func isConstTree(e *Expr) bool {
	c := true
	e.Walk(func(x *Expr) {
		if x.K == KLeaf && x.Val != nil && !x.Pin {
			c = false
		}
	})
	return c
}
