package exprmatrix

import (
	"fmt"
	"math"
	"math/big"
)

type bigFloat = big.Float

// Const is the exact value of a constant expression: Int for integer types
// (typed or untyped), Rat for float types (typed floats hold the exactly
// representable rounded value), Bool for booleans.
type Const struct {
	T    Type
	Int  *big.Int
	Rat  *big.Rat
	Bool bool
}

// Reject says why a tree is not a valid constant expression.
type Reject struct {
	Kind   string // overflow | truncated | div-by-zero | shift-count | not-constant
	Node   *Expr  // the innermost offending node
	Detail string
}

func (r *Reject) Error() string {
	return fmt.Sprintf("%s: %s at %s", r.Kind, r.Detail, r.Node.Wa(AsConstants))
}

// Representability reports whether the rejection is an overflow /
// representability rejection (as opposed to division by zero etc.).
func (r *Reject) Representability() bool { return r.Kind == "overflow" || r.Kind == "truncated" }

// MaxShift is the largest constant shift count the type checkers accept.
const MaxShift = 1023 - 1 + 52

// MaxRatBits bounds numerator/denominator sizes of untyped float constants:
// beyond 4096 bits go/constant leaves exact rational arithmetic (a documented
// implementation limit), so generators stay below.
const MaxRatBits = 3000

// String prints the exact value ("12", "3/8", "true").
func (c Const) String() string {
	switch {
	case c.T.IsBool():
		return fmt.Sprint(c.Bool)
	case c.T.IsInteger():
		return c.Int.String()
	}
	return c.Rat.RatString()
}

// AsRat returns the exact numeric value.
func (c Const) AsRat() *big.Rat {
	if c.T.IsInteger() {
		return new(big.Rat).SetInt(c.Int)
	}
	return c.Rat
}

// Value converts a typed constant to a run-time value.
func (c Const) Value() Value {
	switch {
	case c.T == Bool:
		return BoolValue(c.Bool)
	case c.T.IsUnsigned():
		return UintValue(c.T, c.Int.Uint64())
	case c.T.IsSigned():
		return IntValue(c.T, c.Int.Int64())
	case c.T == F32:
		f, _ := c.Rat.Float32()
		return F32Value(f)
	case c.T == F64:
		f, _ := c.Rat.Float64()
		return F64Value(f)
	}
	panic("exprmatrix: Value of untyped constant")
}

// ConstOf is the constant a typed value denotes (nil for NaN, ±Inf, −0).
func ConstOf(v Value) *Const {
	switch {
	case v.T == Bool:
		return &Const{T: Bool, Bool: v.Bool()}
	case v.T.IsInteger():
		return &Const{T: v.T, Int: v.BigInt()}
	case !v.Constable():
		return nil
	}
	return &Const{T: v.T, Rat: v.Rat()}
}

// FitsInt reports whether x is representable in the integer type t.
func FitsInt(x *big.Int, t Type) bool {
	if t == UntypedInt {
		return true
	}
	return x.Cmp(t.MinInt()) >= 0 && x.Cmp(t.MaxInt()) <= 0
}

// RoundFloat rounds x to the float type t (nearest even); ok is false when the
// rounded value is infinite.
func RoundFloat(x *big.Rat, t Type) (r *big.Rat, ok bool) {
	switch t {
	case F32:
		f, _ := x.Float32()
		if math.IsInf(float64(f), 0) {
			return nil, false
		}
		return new(big.Rat).SetFloat64(float64(f)), true
	case F64:
		f, _ := x.Float64()
		if math.IsInf(f, 0) {
			return nil, false
		}
		return new(big.Rat).SetFloat64(f), true
	}
	return x, true
}

// convert implements constant conversion / representability: the value of c as
// a constant of type t.
func (c Const) convert(t Type, at *Expr) (Const, *Reject) {
	switch {
	case c.T.IsBool() || t.IsBool():
		if c.T.IsBool() && t.IsBool() {
			return Const{T: t, Bool: c.Bool}, nil
		}
		return Const{}, &Reject{"not-constant", at, "bool/number conversion"}
	case t.IsInteger():
		var x *big.Int
		if c.T.IsInteger() {
			x = c.Int
		} else {
			if !c.Rat.IsInt() {
				return Const{}, &Reject{"truncated", at, fmt.Sprintf("%s is not an integer (to %v)", c.Rat.RatString(), t)}
			}
			x = new(big.Int).Set(c.Rat.Num())
		}
		if !FitsInt(x, t) {
			return Const{}, &Reject{"overflow", at, fmt.Sprintf("%s overflows %v", x, t)}
		}
		return Const{T: t, Int: x}, nil
	case t.IsFloat():
		r, ok := RoundFloat(c.AsRat(), t)
		if !ok {
			return Const{}, &Reject{"overflow", at, fmt.Sprintf("%s overflows %v", c.String(), t)}
		}
		return Const{T: t, Rat: r}, nil
	}
	panic("exprmatrix: convert to " + t.String())
}

// Representable reports whether the exact value c is representable as a
// constant of type t ("const x: t = c" / "t(c)" is accepted).
func (c Const) Representable(t Type) bool {
	_, rej := c.convert(t, nil)
	return rej == nil
}

// ConstEval evaluates the tree as a constant expression (every leaf a
// constant), following the Go specification with math/big arithmetic.
func ConstEval(e *Expr) (Const, *Reject) {
	switch e.K {
	case KLeaf:
		return leafConst(e)
	case KUnary:
		x, rej := ConstEval(e.X)
		if rej != nil {
			return Const{}, rej
		}
		return constUnary(e, x)
	case KConv:
		x, rej := ConstEval(e.X)
		if rej != nil {
			return Const{}, rej
		}
		return x.convert(e.T, e)
	case KBinary:
		x, rej := ConstEval(e.X)
		if rej != nil {
			return Const{}, rej
		}
		y, rej := ConstEval(e.Y)
		if rej != nil {
			return Const{}, rej
		}
		return constBinary(e, x, y)
	}
	panic("exprmatrix: bad node")
}

func leafConst(e *Expr) (Const, *Reject) {
	if e.Val != nil {
		c := ConstOf(*e.Val)
		if c == nil {
			return Const{}, &Reject{"not-constant", e, e.Val.WaPrint() + " has no constant form"}
		}
		return *c, nil
	}
	switch e.T {
	case UntypedBool:
		return Const{T: UntypedBool, Bool: e.Lit == "true"}, nil
	case UntypedInt:
		x, ok := new(big.Int).SetString(e.Lit, 0)
		if !ok {
			panic("exprmatrix: bad untyped int literal " + e.Lit)
		}
		return Const{T: UntypedInt, Int: x}, nil
	case UntypedFloat:
		r, ok := new(big.Rat).SetString(e.Lit)
		if !ok {
			panic("exprmatrix: bad untyped float literal " + e.Lit)
		}
		return Const{T: UntypedFloat, Rat: r}, nil
	}
	panic("exprmatrix: bad leaf")
}

// finish applies the "typed constants must be representable after every
// operation" rule: range check for integers, rounding for floats.
func finish(e *Expr, t Type, i *big.Int, r *big.Rat) (Const, *Reject) {
	if t.IsInteger() {
		if !FitsInt(i, t) {
			return Const{}, &Reject{"overflow", e, fmt.Sprintf("%s overflows %v", i, t)}
		}
		return Const{T: t, Int: i}, nil
	}
	rr, ok := RoundFloat(r, t)
	if !ok {
		return Const{}, &Reject{"overflow", e, fmt.Sprintf("%s overflows %v", r.FloatString(3), t)}
	}
	if t == UntypedFloat && (rr.Num().BitLen() > MaxRatBits || rr.Denom().BitLen() > MaxRatBits) {
		return Const{}, &Reject{"not-constant", e, "untyped float beyond the exact-rational range"}
	}
	return Const{T: t, Rat: rr}, nil
}

func constUnary(e *Expr, x Const) (Const, *Reject) {
	switch e.Op {
	case OpLNot:
		return Const{T: x.T, Bool: !x.Bool}, nil
	case OpNeg:
		if x.T.IsInteger() {
			return finish(e, x.T, new(big.Int).Neg(x.Int), nil)
		}
		return finish(e, x.T, nil, new(big.Rat).Neg(x.Rat))
	case OpCpl:
		var z *big.Int
		if x.T.IsUnsigned() {
			z = new(big.Int).Sub(x.T.MaxInt(), x.Int) // all bits flipped within the width
		} else {
			z = new(big.Int).Not(x.Int) // −x−1
		}
		return finish(e, x.T, z, nil)
	}
	panic("exprmatrix: bad unary")
}

func constBinary(e *Expr, x, y Const) (Const, *Reject) {
	switch {
	case e.Op.IsShift():
		return constShift(e, x, y)
	case e.Op.IsLogical():
		t := UntypedBool
		if x.T == Bool || y.T == Bool {
			t = Bool
		}
		if e.Op == OpLAnd {
			return Const{T: t, Bool: x.Bool && y.Bool}, nil
		}
		return Const{T: t, Bool: x.Bool || y.Bool}, nil
	}
	ct, ok := commonType(x.T, y.T)
	if !ok {
		panic(fmt.Sprintf("exprmatrix: mismatched constant operands %v %v %v", x.T, e.Op, y.T))
	}
	// implicit conversion of the untyped side (or of both to the larger untyped kind)
	var rej *Reject
	if x.T != ct {
		if x, rej = x.convert(ct, e.X); rej != nil {
			return Const{}, rej
		}
	}
	if y.T != ct {
		if y, rej = y.convert(ct, e.Y); rej != nil {
			return Const{}, rej
		}
	}
	if e.Op.IsComparison() {
		var cmp int
		switch {
		case ct.IsBool():
			if x.Bool != y.Bool {
				cmp = 1
			}
		case ct.IsInteger():
			cmp = x.Int.Cmp(y.Int)
		default:
			cmp = x.Rat.Cmp(y.Rat)
		}
		var b bool
		switch e.Op {
		case OpEq:
			b = cmp == 0
		case OpNe:
			b = cmp != 0
		case OpLt:
			b = cmp < 0
		case OpLe:
			b = cmp <= 0
		case OpGt:
			b = cmp > 0
		case OpGe:
			b = cmp >= 0
		}
		return Const{T: UntypedBool, Bool: b}, nil
	}
	if ct.IsInteger() {
		z := new(big.Int)
		switch e.Op {
		case OpAdd:
			z.Add(x.Int, y.Int)
		case OpSub:
			z.Sub(x.Int, y.Int)
		case OpMul:
			z.Mul(x.Int, y.Int)
		case OpQuo, OpRem:
			if y.Int.Sign() == 0 {
				return Const{}, &Reject{"div-by-zero", e, "integer division by zero"}
			}
			if e.Op == OpQuo {
				z.Quo(x.Int, y.Int) // truncated toward zero
			} else {
				z.Rem(x.Int, y.Int) // sign of the dividend
			}
		case OpAnd:
			z.And(x.Int, y.Int)
		case OpOr:
			z.Or(x.Int, y.Int)
		case OpXor:
			z.Xor(x.Int, y.Int)
		case OpAndNot:
			z.AndNot(x.Int, y.Int)
		default:
			panic("exprmatrix: bad integer operator")
		}
		return finish(e, ct, z, nil)
	}
	z := new(big.Rat)
	switch e.Op {
	case OpAdd:
		z.Add(x.Rat, y.Rat)
	case OpSub:
		z.Sub(x.Rat, y.Rat)
	case OpMul:
		z.Mul(x.Rat, y.Rat)
	case OpQuo:
		if y.Rat.Sign() == 0 {
			return Const{}, &Reject{"div-by-zero", e, "float division by zero"}
		}
		z.Quo(x.Rat, y.Rat)
	default:
		panic("exprmatrix: bad float operator")
	}
	return finish(e, ct, nil, z)
}

func constShift(e *Expr, x, y Const) (Const, *Reject) {
	// count: an integer constant ≥ 0 (an untyped one must be representable as uint)
	var cnt *big.Int
	switch {
	case y.T.IsInteger():
		cnt = y.Int
	case y.Rat.IsInt():
		cnt = y.Rat.Num()
	default:
		return Const{}, &Reject{"truncated", e.Y, "shift count is not an integer"}
	}
	if cnt.Sign() < 0 {
		return Const{}, &Reject{"shift-count", e.Y, "negative shift count"}
	}
	if y.T.IsUntyped() && !FitsInt(cnt, Uint) {
		return Const{}, &Reject{"overflow", e.Y, "shift count overflows uint"}
	}
	if !cnt.IsUint64() || cnt.Uint64() > MaxShift {
		return Const{}, &Reject{"shift-count", e.Y, "invalid (too large) shift count"}
	}
	t := x.T
	var v *big.Int
	switch {
	case x.T.IsInteger():
		v = x.Int
	case x.T == UntypedFloat && x.Rat.IsInt():
		v, t = x.Rat.Num(), UntypedInt
	default:
		return Const{}, &Reject{"truncated", e.X, "shifted operand is not an integer"}
	}
	z := new(big.Int)
	if e.Op == OpShl {
		z.Lsh(v, uint(cnt.Uint64()))
	} else {
		z.Rsh(v, uint(cnt.Uint64())) // arithmetic shift (floor), as for Go's >>
	}
	return finish(e, t, z, nil)
}
