// Package memtrace runs a compiled Wa module with its allocator instrumented
// from the outside: the compiler's WAT text is rewritten so that
// $runtime.malloc / $runtime.free / $runtime.HeapAlloc go through host
// functions (no hook in the repository's sources). The host keeps an exact
// live map, fills fresh blocks with garbage before HeapAlloc zeroes them,
// checks every free, and overwrites freed payloads with garbage.
package memtrace

import (
	"bytes"
	"context"
	"fmt"
	"sort"
	"strings"

	"wa-lang.org/wa/internal/3rdparty/wazero"
	"wa-lang.org/wa/internal/3rdparty/wazero/api"
	"wa-lang.org/wa/internal/3rdparty/wazero/sys"
	"wa-lang.org/wa/internal/wat/watutil"
)

// Report is what one instrumented run observed.
type Report struct {
	Stdout     string
	RunErr     string   // trap / exit error text ("" = main returned normally)
	Events     []string // invalid events: double free, free of a non-block, overlap, non-zero allocation
	Mallocs    int
	MallocBytes int64
	Frees      int
	FreesInRun int // frees that happened before main returned (all of them: nothing runs afterwards)
	LiveBlocks int
	LiveBytes  int64
	HighWater  uint32 // highest payload end ever handed out (heap growth)
}

// Rewrite instruments the compiler's WAT text. ok is false when the expected
// allocator functions are not present (layout of the runtime changed).
func Rewrite(wat string) (out string, ok bool) {
	const mallocDef = "(func $runtime.malloc (param $size i32) (result i32)"
	const freeDef = "(func $runtime.free (param $ptr i32)"
	const heapAllocDef = `(func $runtime.HeapAlloc (export "runtime.HeapAlloc") (param $nbytes i32) (result i32)`
	if strings.Count(wat, mallocDef) != 1 || strings.Count(wat, freeDef) != 1 || strings.Count(wat, heapAllocDef) != 1 {
		return "", false
	}
	wat = strings.Replace(wat, mallocDef, "(func $runtime.malloc.real (param $size i32) (result i32)", 1)
	wat = strings.Replace(wat, freeDef, "(func $runtime.free.real (param $ptr i32)", 1)
	wat = strings.Replace(wat, heapAllocDef, "(func $runtime.HeapAlloc.real (param $nbytes i32) (result i32)", 1)
	imports := `
  (import "verif" "on_malloc" (func $verif.on_malloc (param i32) (param i32)))
  (import "verif" "on_free" (func $verif.on_free (param i32)))
  (import "verif" "on_heap_alloc" (func $verif.on_heap_alloc (param i32) (param i32)))
`
	// imports have to precede every definition: put them right after the last existing import line
	idx := strings.LastIndex(wat, "(import ")
	if idx < 0 {
		return "", false
	}
	eol := strings.IndexByte(wat[idx:], '\n')
	if eol < 0 {
		return "", false
	}
	wat = wat[:idx+eol+1] + imports + wat[idx+eol+1:]
	wrappers := `
(func $runtime.malloc (param $size i32) (result i32)
	(local $p i32)
	local.get $size
	call $runtime.malloc.real
	local.set $p
	local.get $p
	local.get $size
	call $verif.on_malloc
	local.get $p
)

(func $runtime.free (param $ptr i32)
	local.get $ptr
	call $verif.on_free
	local.get $ptr
	call $runtime.free.real
)

(func $runtime.HeapAlloc (export "runtime.HeapAlloc") (param $nbytes i32) (result i32)
	(local $p i32)
	local.get $nbytes
	call $runtime.HeapAlloc.real
	local.set $p
	local.get $p
	local.get $nbytes
	call $verif.on_heap_alloc
	local.get $p
)
`
	// definitions may appear anywhere after the imports: put the wrappers in front of the real malloc
	at := strings.Index(wat, "(func $runtime.malloc.real")
	// keep the comment line that precedes the definition attached to it
	wat = wat[:at] + strings.TrimLeft(wrappers, "\n") + "\n" + wat[at:]
	return wat, true
}

type tracer struct {
	poison  bool
	live    map[uint32]uint32 // payload ptr -> requested size
	freed   map[uint32]bool
	rep     *Report
	stdout  bytes.Buffer
	maxEvts int
}

func (tr *tracer) event(format string, a ...interface{}) {
	if len(tr.rep.Events) < 20 {
		tr.rep.Events = append(tr.rep.Events, fmt.Sprintf(format, a...))
	}
}

func fill(mem api.Memory, ctx context.Context, ptr, size uint32, b byte) {
	if size == 0 {
		return
	}
	buf := bytes.Repeat([]byte{b}, int(size))
	mem.Write(ctx, ptr, buf)
}

// Run executes the module built from wat. With poison, fresh blocks are filled
// with 0xCD before they are zeroed and freed payloads are overwritten with 0xDB.
func Run(name string, wat []byte, mainFunc string, poison bool) (*Report, error) {
	text, ok := Rewrite(string(wat))
	if !ok {
		return nil, fmt.Errorf("memtrace: $runtime.malloc/$runtime.free/$runtime.HeapAlloc not found in the expected form")
	}
	wasmBytes, err := watutil.Wat2Wasm(name, []byte(text))
	if err != nil {
		return nil, fmt.Errorf("memtrace: instrumented WAT does not assemble: %w", err)
	}
	ctx := context.Background()
	rt := wazero.NewRuntimeWithConfig(ctx, wazero.NewRuntimeConfigInterpreter())
	defer rt.Close(ctx)
	tr := &tracer{poison: poison, live: map[uint32]uint32{}, freed: map[uint32]bool{}, rep: &Report{}}

	w := &tr.stdout
	js := rt.NewHostModuleBuilder("syscall_js")
	js = js.NewFunctionBuilder().WithFunc(func(ctx context.Context, m api.Module, pos uint32) { fmt.Fprintf(w, "<pos %d>", pos) }).Export("print_position")
	js = js.NewFunctionBuilder().WithFunc(func(ctx context.Context, m api.Module, v uint32) { fmt.Fprint(w, v != 0) }).Export("print_bool")
	js = js.NewFunctionBuilder().WithFunc(func(ctx context.Context, m api.Module, v int32) { fmt.Fprint(w, v) }).Export("print_i32")
	js = js.NewFunctionBuilder().WithFunc(func(ctx context.Context, m api.Module, v uint32) { fmt.Fprint(w, v) }).Export("print_u32")
	js = js.NewFunctionBuilder().WithFunc(func(ctx context.Context, m api.Module, v uint32) { fmt.Fprintf(w, "0x%x", v) }).Export("print_ptr")
	js = js.NewFunctionBuilder().WithFunc(func(ctx context.Context, m api.Module, v int64) { fmt.Fprint(w, v) }).Export("print_i64")
	js = js.NewFunctionBuilder().WithFunc(func(ctx context.Context, m api.Module, v uint64) { fmt.Fprint(w, v) }).Export("print_u64")
	js = js.NewFunctionBuilder().WithFunc(func(ctx context.Context, m api.Module, v float32) { fmt.Fprint(w, v) }).Export("print_f32")
	js = js.NewFunctionBuilder().WithFunc(func(ctx context.Context, m api.Module, v float64) { fmt.Fprint(w, v) }).Export("print_f64")
	js = js.NewFunctionBuilder().WithFunc(func(ctx context.Context, m api.Module, ch uint32) { fmt.Fprintf(w, "%c", rune(ch)) }).Export("print_rune")
	js = js.NewFunctionBuilder().WithFunc(func(ctx context.Context, m api.Module, ptr, n uint32) {
		b, _ := m.Memory().Read(ctx, ptr, n)
		w.Write(b)
	}).Export("print_str")
	js = js.NewFunctionBuilder().WithFunc(func(ctx context.Context, m api.Module, code uint32) {
		panic(sys.NewExitError(m.Name(), code))
	}).Export("proc_exit")
	if _, err := js.Instantiate(ctx, rt); err != nil {
		return nil, fmt.Errorf("memtrace: host syscall_js: %w", err)
	}

	vf := rt.NewHostModuleBuilder("verif")
	vf = vf.NewFunctionBuilder().WithFunc(func(ctx context.Context, m api.Module, p, size uint32) {
		if p == 0 {
			return
		}
		tr.rep.Mallocs++
		tr.rep.MallocBytes += int64(size)
		if p%8 != 0 {
			tr.event("malloc(%d) returned unaligned pointer %d", size, p)
		}
		// overlap with a live block
		for q, qs := range tr.live {
			if p < q+qs && q < p+size {
				tr.event("malloc(%d) = %d overlaps live block [%d,%d)", size, p, q, q+qs)
				break
			}
		}
		tr.live[p] = size
		delete(tr.freed, p)
		if end := p + size; end > tr.rep.HighWater {
			tr.rep.HighWater = end
		}
		if tr.poison {
			fill(m.Memory(), ctx, p, size, 0xCD)
		}
	}).Export("on_malloc")
	vf = vf.NewFunctionBuilder().WithFunc(func(ctx context.Context, m api.Module, p uint32) {
		size, ok := tr.live[p]
		switch {
		case ok:
		case tr.freed[p]:
			tr.event("double free of block %d", p)
			return
		default:
			tr.event("free(%d): not the start of a live block", p)
			return
		}
		tr.rep.Frees++
		delete(tr.live, p)
		tr.freed[p] = true
		if tr.poison {
			fill(m.Memory(), ctx, p, size, 0xDB)
		}
	}).Export("on_free")
	vf = vf.NewFunctionBuilder().WithFunc(func(ctx context.Context, m api.Module, p, nbytes uint32) {
		if p == 0 || nbytes == 0 {
			return
		}
		b, ok := m.Memory().Read(ctx, p, nbytes)
		if !ok {
			tr.event("HeapAlloc(%d) = %d lies outside linear memory", nbytes, p)
			return
		}
		for i, x := range b {
			if x != 0 {
				tr.event("HeapAlloc(%d) = %d: byte %d reads 0x%02x, not zero", nbytes, p, i, x)
				break
			}
		}
	}).Export("on_heap_alloc")
	if _, err := vf.Instantiate(ctx, rt); err != nil {
		return nil, fmt.Errorf("memtrace: host verif: %w", err)
	}

	compiled, err := rt.CompileModule(ctx, wasmBytes)
	if err != nil {
		return nil, fmt.Errorf("memtrace: instrumented module does not validate: %w", err)
	}
	conf := wazero.NewModuleConfig().WithName(name)
	mod, err := rt.InstantiateModule(ctx, compiled, conf)
	if err == nil {
		fn := mod.ExportedFunction(mainFunc)
		if fn == nil {
			return nil, fmt.Errorf("memtrace: main function %q not exported", mainFunc)
		}
		_, err = fn.Call(ctx)
	}
	if err != nil {
		tr.rep.RunErr = err.Error()
	}
	tr.rep.Stdout = tr.stdout.String()
	tr.rep.FreesInRun = tr.rep.Frees
	tr.rep.LiveBlocks = len(tr.live)
	for _, s := range tr.live {
		tr.rep.LiveBytes += int64(s)
	}
	sort.Strings(tr.rep.Events)
	return tr.rep, nil
}
