// Package c06 checks property C06: watstrip.WatStrip (what `wa build
// --optimize` and `wa native` run) yields a valid module that behaves exactly
// like the original for every call on its exports, start function and table
// entries, and removes exactly the functions that are unreachable from
// exports, start and element segments.
package c06

import (
	"encoding/json"
	"fmt"
	"os"
	"path/filepath"
	"reflect"
	"runtime/debug"
	"sort"
	"strings"
	"testing"

	"pgregory.net/rapid"
	"wa-lang.org/wa/internal/wat/watutil"
	"wa-lang.org/wa/internal/wat/watutil/watstrip"
	"wa-lang.org/wa/zverif/harness/core"
	"wa-lang.org/wa/zverif/harness/watgen"
	"wa-lang.org/wa/zverif/harness/wk"
)

const prop = "C06"

func TestMain(m *testing.M) { core.Main(m) }

type kase struct {
	Source string        `json:"source"`
	Text   string        `json:"text"`
	Script []watgen.Call `json:"script,omitempty"`
}

var node = watgen.NewNode()

var knownClasses = []struct {
	key  string
	feat []string
}{
	{"ident/all-digits", []string{watgen.FeatNumericIdent}},
	{"limits/max-zero", []string{watgen.FeatLimitsMaxZero}},
	{"export/multiple-inline", []string{watgen.FeatMultiInlineExport}},
	{"export/empty-name", []string{watgen.FeatEmptyExportName}},
	{"print/export-name-escapes", []string{watgen.FeatHardExportName}},
	{"strip/function-referenced-by-index", []string{watgen.FeatNumericFuncRef, watgen.FeatAnonFunc, watgen.FeatAnonInlineExport}},
}

type result struct {
	out      []byte
	err      string
	panicked bool
	frame    string
}

func guard(f func() ([]byte, error)) (r result) {
	defer func() {
		if x := recover(); x != nil {
			r = result{err: fmt.Sprint(x), panicked: true, frame: core.PanicFrame(string(debug.Stack()))}
		}
	}()
	b, err := f()
	if err != nil {
		return result{err: err.Error()}
	}
	return result{out: b}
}

func errClass(msg string) string {
	if i := strings.Index(msg, ": "); i > 0 && strings.Contains(msg[:i], ".wat:") {
		msg = msg[i+2:]
	}
	var sb strings.Builder
	inq := false
	for _, r := range msg {
		switch {
		case r == '"':
			inq = !inq
			sb.WriteRune('"')
		case inq, r >= '0' && r <= '9':
		case r == ' ':
			sb.WriteRune('_')
		default:
			sb.WriteRune(r)
		}
	}
	s := sb.String()
	if len(s) > 60 {
		s = s[:60]
	}
	return s
}

// funcNames lists the identifiers of all functions (imports first); anonymous
// ones appear as "#<index>".
func funcNames(m *watgen.Module, only map[uint32]bool) []string {
	var out []string
	for i := 0; i < m.NumFuncs(); i++ {
		if only != nil && !only[uint32(i)] {
			continue
		}
		n := m.FuncName(uint32(i))
		if n == "" {
			n = fmt.Sprintf("#%d", i)
		}
		out = append(out, n)
	}
	sort.Strings(out)
	return out
}

type verdict struct {
	key, what string
	domain    bool
	harness   string
	removed   int
	keptRoots map[string]bool // reasons why kept functions are alive, for the histogram
}

// oracle.  model may be nil (derived with the strict reader); script may be
// empty (then only instantiation, getters and memory are compared).
func oracle(text string, model *watgen.Module, script []watgen.Call, run bool) (v verdict) {
	src := []byte(text)
	orig := guard(func() ([]byte, error) { return watutil.Wat2Wasm("case.wat", src) })
	if orig.panicked || orig.out == nil {
		return verdict{}
	}
	v.domain = true
	if model == nil {
		m, err := watgen.ReadWAT(src)
		if err != nil {
			v.harness = "strict reader cannot read the source: " + err.Error()
			return
		}
		model = m
	}
	class := ""
	cl := watgen.Classes(model)
outer:
	for _, k := range knownClasses {
		for _, f := range k.feat {
			if cl[f] {
				class = k.key
				break outer
			}
		}
	}
	fail := func(key, format string, a ...interface{}) verdict {
		if class != "" {
			key = class
		}
		v.key, v.what = key, fmt.Sprintf(format, a...)
		return v
	}
	st := guard(func() ([]byte, error) { return watstrip.WatStrip("case.wat", src) })
	if st.panicked {
		return fail("panic:"+st.frame, "WatStrip panicked: %s", st.err)
	}
	if st.out == nil {
		return fail("strip/error/"+errClass(st.err), "WatStrip fails on text Wat2Wasm accepts: %s", st.err)
	}
	sw := guard(func() ([]byte, error) { return watutil.Wat2Wasm("stripped.wat", st.out) })
	if sw.panicked {
		return fail("stripped/assemble-panic/"+errClass(sw.err), "stripped text makes Wat2Wasm panic: %s\n--- stripped ---\n%s", sw.err, clip(st.out))
	}
	if sw.out == nil {
		return fail("stripped/does-not-assemble/"+errClass(sw.err), "stripped text does not assemble: %s\n--- stripped ---\n%s", sw.err, clip(st.out))
	}
	ok, msg, err := node.Validate(sw.out)
	if err != nil {
		v.harness = "node unavailable: " + err.Error()
		return
	}
	if !ok {
		if ok0, _, _ := node.Validate(orig.out); ok0 {
			return fail("stripped/invalid/v8", "V8 rejects the stripped module: %s\n--- stripped ---\n%s", msg, clip(st.out))
		}
	}
	if werr := watgen.WazeroCompile(sw.out); werr != nil && watgen.WazeroCompile(orig.out) == nil {
		return fail("stripped/invalid/wazero", "wazero rejects the stripped module: %v", werr)
	}
	// exactness of the removed set against the harness's own call graph
	sm, err := watgen.ReadWAT(st.out)
	if err != nil {
		return fail("stripped/reference-rejects", "the strict reader rejects the stripped text: %v\n--- stripped ---\n%s", err, clip(st.out))
	}
	live := watgen.Reachable(model)
	wantKept := funcNames(model, live)
	gotKept := funcNames(sm, nil)
	v.removed = model.NumFuncs() - len(live)
	if !reflect.DeepEqual(wantKept, gotKept) {
		var missing, extra []string
		w, g := map[string]bool{}, map[string]bool{}
		for _, n := range wantKept {
			w[n] = true
		}
		for _, n := range gotKept {
			g[n] = true
			if !w[n] {
				extra = append(extra, n)
			}
		}
		for _, n := range wantKept {
			if !g[n] {
				missing = append(missing, n)
			}
		}
		if len(missing) > 0 {
			return fail("exactness/live-function-removed", "reachable from exports/start/elem but removed: %v (kept although dead: %v)\n--- stripped ---\n%s", missing, extra, clip(st.out))
		}
		return fail("exactness/dead-function-kept", "unreachable from exports/start/elem but kept: %v\n--- stripped ---\n%s", extra, clip(st.out))
	}
	// everything else must be untouched: same exports, start, globals, memory, table, elem, data
	if d := sectionDiff(model, sm); d != "" {
		return fail("stripped/"+strings.SplitN(d, ":", 2)[0], "stripped module differs outside the function list: %s\n--- stripped ---\n%s", d, clip(st.out))
	}
	roots := watgen.Roots(model)
	v.keptRoots = map[string]bool{}
	for f := range live {
		rs := roots[f]
		switch {
		case len(rs) == 0:
			v.keptRoots["call_only"] = true
		case !contains(rs, "export") && contains(rs, "start"):
			v.keptRoots["start_only"] = true
		case !contains(rs, "export") && contains(rs, "elem"):
			v.keptRoots["elem_only"] = true
		}
	}
	if !run {
		return
	}
	full := append(append([]watgen.Call{}, script...), watgen.GetterCalls(model)...)
	t1, e1 := watgen.RunWazero(orig.out, model, full)
	if e1 != nil {
		v.harness = "cannot run the original module: " + e1.Error()
		return
	}
	t2, e2 := watgen.RunWazero(sw.out, model, full)
	if e2 != nil {
		return fail("behaviour/stripped-does-not-instantiate", "stripped module cannot be compiled/linked: %v", e2)
	}
	if t1.InstErr != t2.InstErr {
		return fail("behaviour/instantiation", "instantiation (start function): original %q, stripped %q", t1.InstErr, t2.InstErr)
	}
	for i := range t1.Calls {
		if !reflect.DeepEqual(t1.Calls[i], t2.Calls[i]) {
			return fail("behaviour/call-result", "call %d %s%v: original %+v, stripped %+v\n--- stripped ---\n%s", i, full[i].Export, full[i].Args, t1.Calls[i], t2.Calls[i], clip(st.out))
		}
	}
	if !reflect.DeepEqual(t1.HostCalls, t2.HostCalls) {
		return fail("behaviour/import-trace", "host call trace differs: original %v, stripped %v", t1.HostCalls, t2.HostCalls)
	}
	if t1.MemHash != t2.MemHash || t1.MemPages != t2.MemPages {
		return fail("behaviour/memory", "final memory differs: %s/%d pages vs %s/%d pages", t1.MemHash, t1.MemPages, t2.MemHash, t2.MemPages)
	}
	return
}

func contains(l []string, s string) bool {
	for _, x := range l {
		if x == s {
			return true
		}
	}
	return false
}

// sectionDiff compares everything but the function lists by name.
func sectionDiff(a, b *watgen.Module) string {
	name := func(m *watgen.Module, idx uint32) string {
		if n := m.FuncName(idx); n != "" {
			return n
		}
		return fmt.Sprintf("#%d", idx)
	}
	ex := func(m *watgen.Module) []string {
		var out []string
		for _, e := range m.Exports {
			ref := fmt.Sprint(e.Index)
			if e.Kind == watgen.ExternFunc {
				ref = name(m, e.Index)
			}
			out = append(out, fmt.Sprintf("%q kind%d %s", e.Name, e.Kind, ref))
		}
		sort.Strings(out)
		return out
	}
	if x, y := ex(a), ex(b); !reflect.DeepEqual(x, y) {
		return fmt.Sprintf("exports: original %v, stripped %v", x, y)
	}
	st := func(m *watgen.Module) string {
		if m.Start == nil {
			return ""
		}
		return name(m, *m.Start)
	}
	if st(a) != st(b) {
		return fmt.Sprintf("start: original %q, stripped %q", st(a), st(b))
	}
	el := func(m *watgen.Module) []string {
		var out []string
		for _, e := range m.Elems {
			s := fmt.Sprintf("@%d", e.Offset)
			for _, f := range e.Funcs {
				s += " " + name(m, f)
			}
			out = append(out, s)
		}
		return out
	}
	if x, y := el(a), el(b); !reflect.DeepEqual(x, y) {
		return fmt.Sprintf("elems: original %v, stripped %v", x, y)
	}
	if !reflect.DeepEqual(a.Memory, b.Memory) && !(a.Memory != nil && b.Memory != nil && a.Memory.Lim == b.Memory.Lim) {
		return fmt.Sprintf("memory: original %+v, stripped %+v", a.Memory, b.Memory)
	}
	if (a.Table == nil) != (b.Table == nil) || a.Table != nil && a.Table.Lim != b.Table.Lim {
		return "table: limits differ"
	}
	if len(a.Globals) != len(b.Globals) {
		return fmt.Sprintf("globals: %d vs %d", len(a.Globals), len(b.Globals))
	}
	if len(a.Data) != len(b.Data) {
		return fmt.Sprintf("data: %d vs %d segments", len(a.Data), len(b.Data))
	}
	for i := range a.Data {
		if a.Data[i].Offset != b.Data[i].Offset || string(a.Data[i].Bytes) != string(b.Data[i].Bytes) {
			return fmt.Sprintf("data: segment %d differs", i)
		}
	}
	return ""
}

func clip(b []byte) string {
	if len(b) > 2500 {
		return string(b[:2500]) + "…"
	}
	return string(b)
}

func disabled() (map[string]bool, []string) {
	dis := map[string]bool{}
	var keys []string
	for _, k := range knownClasses {
		if core.IsKnown(prop, k.key) {
			for _, f := range k.feat {
				dis[f] = true
			}
			keys = append(keys, k.key)
		}
	}
	return dis, keys
}

func TestGenerated(t *testing.T) {
	s := core.NewStats(prop, "Generated")
	s.Rule("rapid: watgen Exec module (host imports, getters, table trampolines, dead and live functions under every root kind, optional designated trap) + call script; oracle: WatStrip output assembles and validates (V8, wazero); kept function set == reachability from exports/start/elem in the harness's own call graph (imports included); exports/start/elem/memory/table/globals/data unchanged; same script on original and stripped module on wazero gives identical results, traps, host-call trace, getter values and memory hash; non-trivial = ≥1 function removed and ≥1 function kept only because of a non-export root (start, elem, or a call from a live function)")
	s.Assume("differential execution uses one engine (vendored wazero interpreter) for both modules; host imports follow watgen.HostFuncResult")
	s.Assume("reachability oracle = watgen.Reachable over the generator's model (direct calls; table contents are roots)")
	dis, keys := disabled()
	s.Check(t, func(rt *rapid.T, c *core.Case) {
		opt := watgen.Options{Disable: dis, Exec: true, Trampolines: true, Trap: "any"}
		g := watgen.Gen(rt, opt)
		c.Set(kase{Source: "watgen", Text: g.Text, Script: g.Script})
		for _, k := range keys {
			s.Counter("excluded_by_known/"+k, 1)
		}
		v := oracle(g.Text, g.M, g.Script, true)
		if v.harness != "" {
			rt.Fatalf("HARNESS: %s\n%s", v.harness, g.Text)
		}
		if !v.domain {
			s.Counter("rejected_by_domain", 1)
			return
		}
		if v.key != "" {
			c.Fail(v.key, "%s\n--- source ---\n%s", v.what, g.Text)
		}
		var fs []string
		for f, n := range g.Features {
			if n > 0 && (strings.HasPrefix(f, "trap") || f == watgen.FeatStart || f == watgen.FeatElem || f == watgen.FeatCallIndirect || f == watgen.FeatCallInNested || f == watgen.FeatImportFunc || f == watgen.FeatInlineExport || f == watgen.FeatSeparateExport || f == watgen.FeatTableSet || f == watgen.FeatLoop || f == watgen.FeatStartNonFirst) {
				fs = append(fs, "construct/"+f)
			}
		}
		for r := range v.keptRoots {
			fs = append(fs, "kept/"+r)
		}
		if v.removed > 0 {
			fs = append(fs, "removed/some")
		} else {
			fs = append(fs, "removed/none")
		}
		sort.Strings(fs)
		for _, f := range fs {
			c.Class(f)
		}
		if v.removed > 0 && len(v.keptRoots) > 0 {
			c.Nontrivial(g.Text)
		}
	})
}

var compilerPrograms = []string{
	"waroot/examples/eq.wa", "waroot/examples/struct.wa", "waroot/examples/copy.wa",
	"waroot/examples/strbytes.wa", "waroot/examples/short-var.wa", "waroot/examples/fib/fib.wa",
}

// Compiler-emitted WAT: validity + exactness of the removed set + unchanged
// sections.  (Its imports are the Wa runtime's host ABI, which the harness does
// not model here — behaviour of compiler output under --optimize is C01's job.)
func TestCompilerWAT(t *testing.T) {
	s := core.NewStats(prop, "CompilerWAT")
	defer s.Flush()
	s.Rule("enumeration: compiler-emitted WAT of waroot/examples programs (≈190 functions, most of the runtime dead): stripped text assembles and validates, kept set == reachability, other sections unchanged; one program per shard; non-trivial = ≥1 function removed")
	sh, n := core.Shard()
	progs := compilerPrograms
	if !core.Thorough() && len(progs) > 2 {
		progs = progs[:2]
	}
	w := wk.New(wk.Options{})
	defer w.Close()
	for i, p := range progs {
		if i%n != sh {
			continue
		}
		src, err := os.ReadFile(filepath.Join(core.RepoDir(), p))
		if err != nil {
			s.Counter("missing_program", 1)
			continue
		}
		o := w.Do("build", wk.Src{Name: filepath.Base(p), Src: string(src)})
		var r struct {
			Wat string `json:"wat"`
		}
		if o.Kind != wk.OK || o.Decode(&r) != nil || r.Wat == "" {
			s.Counter("rejected_by_domain/build_failed", 1)
			continue
		}
		c := s.NewCase(t)
		c.Set(kase{Source: "compiler:" + p, Text: r.Wat})
		v := oracle(r.Wat, nil, nil, false)
		if v.harness != "" {
			s.Counter("unmodelled_by_reference", 1)
			s.Note(p + ": " + v.harness)
			continue
		}
		if !v.domain {
			s.Counter("rejected_by_domain", 1)
			continue
		}
		if v.key != "" {
			c.Fail("compiler/"+v.key, "%s: %s", p, v.what)
		}
		c.Class("compiler_wat")
		s.Counter("compiler_functions_removed", int64(v.removed))
		if v.removed > 0 {
			c.Nontrivial(p)
		}
		c.Done()
	}
}

func replay(test string, raw json.RawMessage) (string, string) {
	var k kase
	if err := json.Unmarshal(raw, &k); err != nil {
		return "harness/bad-replay", err.Error()
	}
	run := !strings.HasPrefix(k.Source, "compiler:")
	v := oracle(k.Text, nil, k.Script, run)
	if v.harness != "" {
		// a corpus module whose imports the harness cannot provide is only checked statically
		if run {
			v = oracle(k.Text, nil, nil, false)
		}
		if v.harness != "" {
			return "harness/replay", v.harness
		}
	}
	if v.key != "" && strings.HasPrefix(k.Source, "compiler:") {
		v.key = "compiler/" + v.key
	}
	return v.key, v.what
}

func TestReplay(t *testing.T) { core.RunReplays(t, prop, replay) }
