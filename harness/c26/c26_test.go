// Package c26 checks property C26: every registered debug-adapter message,
// filled by reflection from rapid draws, written with WriteProtocolMessage and
// read back with ReadProtocolMessage through a reader that splits the stream at
// arbitrary places, is equal to the original.
package c26

import (
	"bufio"
	"bytes"
	"encoding/json"
	"fmt"
	"go/ast"
	"go/parser"
	"go/token"
	"io"
	"math"
	"path/filepath"
	"reflect"
	"sort"
	"strings"
	"testing"
	"unicode/utf8"

	"pgregory.net/rapid"
	dap "wa-lang.org/wa/internal/3rdparty/go-dap"
	"wa-lang.org/wa/zverif/harness/core"
)

const prop = "C26"

func TestMain(m *testing.M) { core.Main(m) }

var byName = func() map[string]entry {
	m := map[string]entry{}
	for _, e := range table {
		m[e.name] = e
	}
	return m
}()

// ---------------------------------------------------------------- replayable case

type wireMsg struct {
	Name string          `json:"type"`
	JSON json.RawMessage `json:"msg"`
}

type kase struct {
	Msgs        []wireMsg `json:"msgs"`
	Chunks      []int     `json:"chunks"`
	BufSize     int       `json:"bufsize"`
	EOFWithData bool      `json:"eof_with_data"`
}

// ---------------------------------------------------------------- chunking reader

// chunkReader hands out the stream in pieces whose sizes cycle through sizes.
// It never returns (0, nil); the final piece may come with io.EOF.
type chunkReader struct {
	data        []byte
	pos         int
	sizes       []int
	i           int
	eofWithData bool
	cuts        []int // stream offsets at which a Read ended
}

func (r *chunkReader) Read(p []byte) (int, error) {
	if len(p) == 0 {
		return 0, nil
	}
	if r.pos >= len(r.data) {
		return 0, io.EOF
	}
	n := 1
	if len(r.sizes) > 0 {
		n = r.sizes[r.i%len(r.sizes)]
		r.i++
	}
	if n < 1 {
		n = 1
	}
	if n > len(p) {
		n = len(p)
	}
	if n > len(r.data)-r.pos {
		n = len(r.data) - r.pos
	}
	copy(p, r.data[r.pos:r.pos+n])
	r.pos += n
	r.cuts = append(r.cuts, r.pos)
	if r.pos == len(r.data) && r.eofWithData {
		return n, io.EOF
	}
	return n, nil
}

// ---------------------------------------------------------------- oracle

type rtFacts struct {
	splitHeader, splitDelim, splitDigits, splitRune, splitBoundary, splitBody bool
	streamLen                                                                  int
}

// roundTrip writes msgs to one stream and reads them back; "" = property holds.
func roundTrip(msgs []dap.Message, chunks []int, bufSize int, eofWithData bool) (key, what string, f rtFacts) {
	var stream bytes.Buffer
	type span struct{ hs, he, be int }
	var spans []span
	for i, m := range msgs {
		hs := stream.Len()
		if err := dap.WriteProtocolMessage(&stream, m); err != nil {
			return "write/error/" + typeName(m), fmt.Sprintf("WriteProtocolMessage(#%d %s) = %v", i, describe(m), err), f
		}
		b := stream.Bytes()[hs:]
		j := bytes.Index(b, []byte("\r\n\r\n"))
		if j < 0 {
			return "write/no-delimiter", fmt.Sprintf("message #%d %s was written without a header delimiter: %q", i, typeName(m), b), f
		}
		spans = append(spans, span{hs, hs + j + 4, stream.Len()})
	}
	data := append([]byte(nil), stream.Bytes()...)
	f.streamLen = len(data)
	cr := &chunkReader{data: data, sizes: chunks, eofWithData: eofWithData}
	br := bufio.NewReaderSize(cr, bufSize)
	for i, m := range msgs {
		got, err := dap.ReadProtocolMessage(br)
		if err != nil {
			if fe, ok := err.(*dap.DecodeProtocolMessageFieldError); ok {
				return "read/unregistered/" + typeName(m), fmt.Sprintf("message #%d %s: ReadProtocolMessage = %v", i, describe(m), fe), f
			}
			return "read/error/" + errKind(err), fmt.Sprintf("message #%d of %d (%s, stream bytes %d..%d of %d, chunks %v, bufio %d): ReadProtocolMessage = %v", i, len(msgs), describe(m), spans[i].hs, spans[i].be, len(data), head(chunks), bufSize, err), f
		}
		if path, why := equalMsg(m, got); path != "" {
			return "mismatch/" + typeName(m) + "/" + stripIdx(path), fmt.Sprintf("message #%d %s read back as %s: %s at %s (chunks %v, bufio %d)", i, describe(m), describe(got), why, path, head(chunks), bufSize), f
		}
	}
	if rest := br.Buffered() + len(data) - cr.pos; rest != 0 {
		return "read/left-unread", fmt.Sprintf("%d bytes left unread after %d messages", rest, len(msgs)), f
	}
	if m, err := dap.ReadProtocolMessage(br); err == nil {
		return "read/extra-message", fmt.Sprintf("a further message %s was read from an exhausted stream", describe(m)), f
	}
	for _, c := range cr.cuts {
		for _, sp := range spans {
			switch {
			case c == sp.be && c != len(data):
				f.splitBoundary = true
			case c > sp.hs && c < sp.he:
				f.splitHeader = true
				if c > sp.he-4 {
					f.splitDelim = true
				} else if c > sp.hs+len("Content-Length: ") && c < sp.he-4 {
					f.splitDigits = true
				}
			case c > sp.he && c < sp.be:
				f.splitBody = true
				if !utf8.RuneStart(data[c]) {
					f.splitRune = true
				}
			}
		}
	}
	return "", "", f
}

// errKind names the failure structurally (which layer gave up and how).
func errKind(err error) string {
	switch err {
	case io.EOF:
		return "eof-before-message"
	case io.ErrUnexpectedEOF:
		return "unexpected-eof"
	case dap.ErrHeaderDelimiterNotCrLfCrLf:
		return "header-delimiter"
	case dap.ErrHeaderNotContentLength:
		return "header-format"
	case dap.ErrHeaderContentTooLong:
		return "header-too-long"
	}
	switch err.(type) {
	case *json.SyntaxError:
		return "json-syntax"
	case *json.UnmarshalTypeError:
		return "json-type"
	}
	return fmt.Sprintf("%T", err)
}

func head(c []int) []int {
	if len(c) > 12 {
		return c[:12]
	}
	return c
}

func typeName(m dap.Message) string {
	t := reflect.TypeOf(m)
	for t.Kind() == reflect.Ptr {
		t = t.Elem()
	}
	return t.Name()
}

func describe(m dap.Message) string {
	b, err := json.Marshal(m)
	if err != nil {
		return fmt.Sprintf("%s{marshal error %v}", typeName(m), err)
	}
	if len(b) > 600 {
		b = append(b[:600:600], "…"...)
	}
	return typeName(m) + string(b)
}

func stripIdx(p string) string { // structural: drop slice indexes and map keys
	var b strings.Builder
	depth := 0
	for _, r := range p {
		switch {
		case r == '[':
			depth++
			b.WriteString("[]")
		case r == ']':
			depth--
		case depth == 0:
			b.WriteRune(r)
		}
	}
	return b.String()
}

var rawType = reflect.TypeOf(json.RawMessage(nil))

func hasOmitEmpty(sf reflect.StructField) bool {
	tag := sf.Tag.Get("json")
	_, opts, _ := strings.Cut(tag, ",")
	for _, o := range strings.Split(opts, ",") {
		if o == "omitempty" {
			return true
		}
	}
	return false
}

// equalMsg compares the original with what was read back.  The only
// normalisations are the documented ones: where a field is tagged omitempty a
// nil and an empty slice/map are the same thing (neither is transmitted);
// json.RawMessage is compared as JSON; InitializeRequest.arguments.pathFormat
// "" means the protocol default "path" (the codec fills that default in).
func equalMsg(want, got dap.Message) (path, why string) {
	if reflect.TypeOf(want) != reflect.TypeOf(got) {
		return "(type)", fmt.Sprintf("type %T, want %T", got, want)
	}
	return eq(reflect.ValueOf(want).Elem(), reflect.ValueOf(got).Elem(), false, typeName(want))
}

func eq(a, b reflect.Value, omit bool, path string) (string, string) {
	switch a.Kind() {
	case reflect.Struct:
		for i := 0; i < a.NumField(); i++ {
			sf := a.Type().Field(i)
			p := path + "." + sf.Name
			if p == "InitializeRequest.Arguments.PathFormat" && a.Field(i).String() == "" && b.Field(i).String() == "path" {
				continue
			}
			if pp, w := eq(a.Field(i), b.Field(i), hasOmitEmpty(sf), p); pp != "" {
				return pp, w
			}
		}
	case reflect.Ptr:
		if a.IsNil() != b.IsNil() {
			return path, fmt.Sprintf("nil-ness differs: sent nil=%v, got nil=%v", a.IsNil(), b.IsNil())
		}
		if !a.IsNil() {
			return eq(a.Elem(), b.Elem(), false, path)
		}
	case reflect.Slice:
		if a.Type() == rawType {
			var x, y interface{}
			ab := a.Bytes()
			if len(ab) == 0 {
				ab = []byte("null") // encoding/json writes an empty RawMessage as null
			}
			ea := json.Unmarshal(ab, &x)
			eb := json.Unmarshal(b.Bytes(), &y)
			if ea != nil || eb != nil || !reflect.DeepEqual(x, y) {
				return path, fmt.Sprintf("raw JSON differs: sent %q, got %q", a.Bytes(), b.Bytes())
			}
			return "", ""
		}
		if a.Len() != b.Len() {
			return path, fmt.Sprintf("length %d, want %d", b.Len(), a.Len())
		}
		if a.Len() == 0 && !omit && a.IsNil() != b.IsNil() {
			return path, fmt.Sprintf("sent nil=%v slice (no omitempty), got nil=%v", a.IsNil(), b.IsNil())
		}
		for i := 0; i < a.Len(); i++ {
			if pp, w := eq(a.Index(i), b.Index(i), false, fmt.Sprintf("%s[%d]", path, i)); pp != "" {
				return pp, w
			}
		}
	case reflect.Map:
		if a.Len() != b.Len() {
			return path, fmt.Sprintf("map size %d, want %d", b.Len(), a.Len())
		}
		if a.Len() == 0 && !omit && a.IsNil() != b.IsNil() {
			return path, fmt.Sprintf("sent nil=%v map (no omitempty), got nil=%v", a.IsNil(), b.IsNil())
		}
		for _, k := range a.MapKeys() {
			bv := b.MapIndex(k)
			if !bv.IsValid() {
				return fmt.Sprintf("%s[%q]", path, k.String()), "key missing"
			}
			if pp, w := eq(a.MapIndex(k), bv, false, fmt.Sprintf("%s[%q]", path, k.String())); pp != "" {
				return pp, w
			}
		}
	case reflect.Interface:
		if !reflect.DeepEqual(a.Interface(), b.Interface()) {
			return path, fmt.Sprintf("got %#v, want %#v", b.Interface(), a.Interface())
		}
	case reflect.String:
		if a.String() != b.String() {
			return path, fmt.Sprintf("got %q, want %q", b.String(), a.String())
		}
	case reflect.Int, reflect.Int64, reflect.Int32:
		if a.Int() != b.Int() {
			return path, fmt.Sprintf("got %d, want %d", b.Int(), a.Int())
		}
	case reflect.Bool:
		if a.Bool() != b.Bool() {
			return path, fmt.Sprintf("got %v, want %v", b.Bool(), a.Bool())
		}
	case reflect.Float64:
		if a.Float() != b.Float() {
			return path, fmt.Sprintf("got %v, want %v", b.Float(), a.Float())
		}
	default:
		return path, "harness: unsupported kind " + a.Kind().String()
	}
	return "", ""
}

// ---------------------------------------------------------------- generators

type msgFacts struct {
	optionalSet bool // a non-zero value in an omitempty field
	escaped     bool // a string that needs JSON escaping
	astral      bool
	nilNoOmit   bool // nil slice/map in a field without omitempty (travels as null)
	emptyOmit   bool // empty non-nil slice/map in an omitempty field
	rawMsg      bool
	anyVal      bool
	bigInt      bool
}

var stringAtoms = []string{
	"a", "Z", "0", " ", "/", ":", "main.wa", "\"", "\\", "\n", "\r", "\t", "\x00", "\x1f", "\x7f", "\b", "\f",
	"<", ">", "&", "'", "\u2028", "\u2029", "\u00a0", "\ufeff", "\u00e9", "\u00df", "\u4e2d", "\u6587", "\u0301",
	"\U0001F600", "\U0001D11E", "\U0010FFFF", "\ufffd", "\uffff", "\ud7ff", "\ue000",
	"Content-Length: 5\r\n\r\n", "\r\n\r\n", "{", "}", "[", "]", ",", "null", "\\u0000", "\\\"",
}

func needsEscape(s string) bool {
	for _, r := range s {
		if r < 0x20 || r == '"' || r == '\\' || r == '<' || r == '>' || r == '&' || r == 0x2028 || r == 0x2029 {
			return true
		}
	}
	return false
}

func genString(f *msgFacts) *rapid.Generator[string] {
	return rapid.Custom(func(t *rapid.T) string {
		var s string
		switch rapid.IntRange(0, 9).Draw(t, "sclass") {
		case 0:
			s = ""
		case 1, 2:
			s = rapid.SampledFrom([]string{"x", "main", "/tmp/a b/c.wa", "stopped", "path", "uri", "breakpoint"}).Draw(t, "plain")
		case 3: // arbitrary valid UTF-8
			s = rapid.String().Draw(t, "anystr")
			if !utf8.ValidString(s) {
				s = strings.ToValidUTF8(s, "�")
			}
		case 4: // long
			s = strings.Repeat(rapid.SampledFrom(stringAtoms).Draw(t, "rep"), rapid.IntRange(20, 300).Draw(t, "n"))
		default:
			s = strings.Join(rapid.SliceOfN(rapid.SampledFrom(stringAtoms), 1, 8).Draw(t, "atoms"), "")
		}
		if needsEscape(s) {
			f.escaped = true
		}
		for _, r := range s {
			if r >= 0x10000 {
				f.astral = true
			}
		}
		return s
	})
}

var intEdges = []int64{0, 1, -1, 2, 255, 65536, math.MaxInt32, math.MinInt32, math.MaxInt32 + 1, 1 << 53, -(1 << 53), 1<<53 + 1, -(1 << 53) - 1, 1<<53 - 1, math.MaxInt64, math.MinInt64}

func genInt(f *msgFacts) *rapid.Generator[int64] {
	return rapid.Custom(func(t *rapid.T) int64 {
		var v int64
		switch rapid.IntRange(0, 3).Draw(t, "iclass") {
		case 0:
			v = rapid.SampledFrom(intEdges).Draw(t, "edge")
		case 1:
			v = rapid.Int64().Draw(t, "any")
		default:
			v = rapid.Int64Range(-3, 1000).Draw(t, "small")
		}
		if v >= 1<<53 || v <= -(1<<53) {
			f.bigInt = true
		}
		return v
	})
}

// genJSON draws a JSON-normal value: what encoding/json itself produces when
// it decodes into interface{} (nil, bool, float64, string, []interface{},
// map[string]interface{} — both never nil).
func genJSON(t *rapid.T, f *msgFacts, depth int) interface{} {
	hi := 6
	if depth >= 2 {
		hi = 4
	}
	switch rapid.IntRange(0, hi).Draw(t, "jclass") {
	case 0:
		return nil
	case 1:
		return rapid.Bool().Draw(t, "jb")
	case 2:
		switch rapid.IntRange(0, 2).Draw(t, "fclass") {
		case 0:
			return float64(rapid.Int64Range(-1<<53, 1<<53).Draw(t, "jint"))
		case 1:
			return rapid.SampledFrom([]float64{0, 1, -1, 0.5, 1e21, 1e-7, 1.7976931348623157e308, 5e-324, 123456789.125, -2.5e-10}).Draw(t, "jedge")
		}
		v := rapid.Float64().Draw(t, "jf")
		if math.IsNaN(v) || math.IsInf(v, 0) {
			v = 0
		}
		return v
	case 3, 4:
		return genString(f).Draw(t, "js")
	case 5:
		n := rapid.IntRange(0, 3).Draw(t, "jn")
		out := make([]interface{}, 0, n)
		for i := 0; i < n; i++ {
			out = append(out, genJSON(t, f, depth+1))
		}
		return out
	default:
		n := rapid.IntRange(0, 3).Draw(t, "jm")
		out := make(map[string]interface{}, n)
		for i := 0; i < n; i++ {
			out[genString(f).Draw(t, "jk")] = genJSON(t, f, depth+1)
		}
		return out
	}
}

// fill sets v (settable) from rapid draws.  sparse makes optional things
// mostly absent, dense mostly present.
func fill(t *rapid.T, f *msgFacts, v reflect.Value, omit bool, depth int, dense int) {
	present := func(label string) bool { return rapid.IntRange(0, 9).Draw(t, label) < dense }
	switch v.Kind() {
	case reflect.Struct:
		for i := 0; i < v.NumField(); i++ {
			sf := v.Type().Field(i)
			fill(t, f, v.Field(i), hasOmitEmpty(sf), depth+1, dense)
		}
	case reflect.Ptr:
		if depth < 6 && present("ptr") {
			v.Set(reflect.New(v.Type().Elem()))
			fill(t, f, v.Elem(), false, depth+1, dense)
			if omit {
				f.optionalSet = true
			}
		}
	case reflect.Slice:
		if v.Type() == rawType {
			var val interface{} = genJSON(t, f, 1)
			raw, _ := json.Marshal(val)
			if rapid.IntRange(0, 3).Draw(t, "rawstyle") == 0 {
				// the same value spelled without Go's HTML-safe escaping
				var b bytes.Buffer
				enc := json.NewEncoder(&b)
				enc.SetEscapeHTML(false)
				enc.Encode(val)
				raw = bytes.TrimRight(b.Bytes(), "\n")
			}
			v.SetBytes(raw)
			f.rawMsg = true
			return
		}
		n := 0
		switch r := rapid.IntRange(0, 9).Draw(t, "slice"); {
		case r == 1: // empty, non-nil
			if omit {
				f.emptyOmit = true
			}
		case r >= 2 && depth < 6 && present("slicefill"):
			n = rapid.IntRange(1, 3).Draw(t, "len")
		default: // nil
			if !omit {
				f.nilNoOmit = true
			}
			return
		}
		v.Set(reflect.MakeSlice(v.Type(), n, n))
		for i := 0; i < n; i++ {
			fill(t, f, v.Index(i), false, depth+1, dense)
		}
		if n > 0 && omit {
			f.optionalSet = true
		}
	case reflect.Map:
		switch rapid.IntRange(0, 4).Draw(t, "map") {
		case 0:
			if !omit {
				f.nilNoOmit = true
			}
			return
		case 1:
			v.Set(reflect.MakeMap(v.Type()))
			if omit {
				f.emptyOmit = true
			}
			return
		}
		n := rapid.IntRange(1, 3).Draw(t, "maplen")
		v.Set(reflect.MakeMap(v.Type()))
		for i := 0; i < n; i++ {
			k := reflect.ValueOf(genString(f).Draw(t, "key"))
			e := reflect.New(v.Type().Elem()).Elem()
			fill(t, f, e, false, depth+1, dense)
			v.SetMapIndex(k, e)
		}
		if omit {
			f.optionalSet = true
		}
	case reflect.Interface:
		if present("iface") {
			val := genJSON(t, f, 0)
			if val != nil {
				v.Set(reflect.ValueOf(val))
				f.anyVal = true
				if omit {
					f.optionalSet = true
				}
			}
		}
	case reflect.String:
		if !omit || present("str") {
			s := genString(f).Draw(t, "s")
			v.SetString(s)
			if omit && s != "" {
				f.optionalSet = true
			}
		}
	case reflect.Int:
		if !omit || present("int") {
			n := genInt(f).Draw(t, "i")
			v.SetInt(n)
			if omit && n != 0 {
				f.optionalSet = true
			}
		}
	case reflect.Bool:
		b := rapid.Bool().Draw(t, "b")
		v.SetBool(b)
		if omit && b {
			f.optionalSet = true
		}
	default:
		t.Fatalf("harness: cannot fill kind %s", v.Kind())
	}
}

var commands = func() []string {
	var out []string
	for _, e := range table {
		if e.kind == "request" {
			out = append(out, e.key)
		}
	}
	return out
}()

// setEnvelope makes type/command/event/success consistent with the Go type.
func setEnvelope(t *rapid.T, e entry, m dap.Message) {
	switch x := m.(type) {
	case dap.RequestMessage:
		r := x.GetRequest()
		r.Type, r.Command = "request", e.key
	case dap.EventMessage:
		ev := x.GetEvent()
		ev.Type, ev.Event = "event", e.key
	case dap.ResponseMessage:
		r := x.GetResponse()
		r.Type = "response"
		if e.name == "ErrorResponse" {
			r.Success = false
			if t != nil {
				r.Command = rapid.SampledFrom(append([]string{"", "noSuchCommand"}, commands...)).Draw(t, "errcmd")
			}
		} else {
			r.Success, r.Command = true, e.key
		}
	}
}

func genMessage(t *rapid.T, f *msgFacts, e entry) dap.Message {
	m := e.new()
	dense := rapid.SampledFrom([]int{1, 5, 5, 9}).Draw(t, "dense")
	fill(t, f, reflect.ValueOf(m).Elem(), false, 0, dense)
	setEnvelope(t, e, m)
	return m
}

func genChunks(t *rapid.T) ([]int, string) {
	mode := rapid.SampledFrom([]string{"1-byte", "tiny", "tiny", "mixed", "mixed", "large", "whole"}).Draw(t, "chunkmode")
	switch mode {
	case "1-byte":
		return []int{1}, mode
	case "tiny":
		return rapid.SliceOfN(rapid.IntRange(1, 4), 1, 16).Draw(t, "chunks"), mode
	case "mixed":
		return rapid.SliceOfN(rapid.OneOf(rapid.IntRange(1, 8), rapid.IntRange(1, 40), rapid.IntRange(1, 700)), 1, 24).Draw(t, "chunks"), mode
	case "large":
		return rapid.SliceOfN(rapid.IntRange(64, 5000), 1, 8).Draw(t, "chunks"), mode
	}
	return []int{1 << 30}, mode
}

func toWire(msgs []dap.Message) []wireMsg {
	out := make([]wireMsg, len(msgs))
	for i, m := range msgs {
		b, err := json.Marshal(m)
		if err != nil {
			b, _ = json.Marshal(fmt.Sprintf("marshal error: %v", err))
		}
		out[i] = wireMsg{typeName(m), b}
	}
	return out
}

// ---------------------------------------------------------------- tests

const ruleText = "rapid: streams of 1..10 messages, each of a type drawn from the 105 types registered in the default codec (+ ErrorResponse), every field filled by reflection (strings with control characters, quotes, HTML-sensitive characters, U+2028/9, astral runes; ints incl. ±2^53 and int64 limits; nil/empty/filled slices and maps; optional pointers; interface{} and json.RawMessage with JSON-normal values), consistent envelope; written with WriteProtocolMessage, read with ReadProtocolMessage through a chunking reader (1-byte, tiny, mixed, large, whole; optional data+EOF final read) under bufio sizes 16..4096. " +
	"Oracle: each message read back has the same Go type and is field-by-field equal (nil≡empty only under omitempty, RawMessage compared as JSON, InitializeRequest pathFormat \"\"≡\"path\"), nothing is left unread, no extra message appears. " +
	"Non-trivial = some message has a non-zero optional (omitempty) field and a string that needs JSON escaping, and the chunking splits the stream inside a header or inside a body"

func TestRoundTrip(t *testing.T) {
	s := core.NewStats(prop, "RoundTrip")
	s.Rule(ruleText)
	s.Assume("encoding/json is trusted (the code under test is the framing, the type dispatch and the schema structs with their tags)")
	hit := map[string]int{}
	s.Check(t, func(t *rapid.T, c *core.Case) {
		n := rapid.SampledFrom([]int{1, 1, 1, 2, 3, 5, 10}).Draw(t, "nmsgs")
		var msgs []dap.Message
		var f msgFacts
		var names []string
		for i := 0; i < n; i++ {
			e := rapid.SampledFrom(table).Draw(t, "type")
			msgs = append(msgs, genMessage(t, &f, e))
			names = append(names, e.name)
		}
		chunks, mode := genChunks(t)
		bufSize := rapid.SampledFrom([]int{16, 16, 17, 23, 32, 64, 100, 512, 4096}).Draw(t, "bufsize")
		eofWithData := rapid.Bool().Draw(t, "eofWithData")
		c.Set(kase{Msgs: toWire(msgs), Chunks: chunks, BufSize: bufSize, EOFWithData: eofWithData})
		key, what, rf := roundTrip(msgs, chunks, bufSize, eofWithData)
		if key != "" {
			c.Fail(key, "%s", what)
		}
		for _, nm := range names {
			c.Class("type/" + nm)
			hit[nm]++
		}
		c.Class("chunks/" + mode)
		c.Class(fmt.Sprintf("bufio/%d", bufSize))
		c.Class(fmt.Sprintf("msgs/%d", n))
		flag := func(b bool, name string) {
			if b {
				c.Class(name)
			}
		}
		flag(eofWithData, "reader/data+EOF")
		flag(rf.splitHeader, "split/in-header")
		flag(rf.splitDelim, "split/in-delimiter")
		flag(rf.splitDigits, "split/in-length-digits")
		flag(rf.splitRune, "split/in-multibyte-rune")
		flag(rf.splitBody, "split/in-body")
		flag(rf.splitBoundary, "split/at-message-boundary")
		flag(f.optionalSet, "msg/optional-field-set")
		flag(f.escaped, "msg/string-needs-escaping")
		flag(f.astral, "msg/astral-rune")
		flag(f.nilNoOmit, "msg/nil-slice-or-map-sent-as-null")
		flag(f.emptyOmit, "msg/empty-under-omitempty")
		flag(f.rawMsg, "msg/raw-json")
		flag(f.anyVal, "msg/interface-value")
		flag(f.bigInt, "msg/int-beyond-2^53")
		if f.optionalSet && f.escaped && (rf.splitHeader || rf.splitBody) {
			c.Nontrivial()
		}
	})
	s.Counter("distinct_types_generated", int64(len(hit)))
	s.Counter("types_in_table", int64(len(table)))
	if len(hit) < len(table) {
		var missing []string
		for _, e := range table {
			if hit[e.name] == 0 {
				missing = append(missing, e.name)
			}
		}
		s.Note(fmt.Sprintf("shard never generated: %v", missing))
		if totalHits(hit) >= 20*len(table) {
			t.Errorf("harness: %d message types were never generated in %d messages: %v", len(missing), totalHits(hit), missing)
		}
	}
}

func totalHits(m map[string]int) int {
	n := 0
	for _, v := range m {
		n += v
	}
	return n
}

// Every type of the table once with only the envelope set and once densely
// filled from a fixed pattern, through a 1-byte reader: guarantees that no
// registered type is skipped whatever the random draws do.
func TestEveryTypeEnumerated(t *testing.T) {
	s := core.NewStats(prop, "EveryTypeEnumerated")
	defer s.Flush()
	s.Rule("enumeration of all types in the table × {zero value with envelope only} × chunking {1 byte, 3 bytes, whole} (exhaustive over types); non-trivial = every case (each is a distinct registered type)")
	s.Exhaustive(true)
	sh, n := core.Shard()
	for i, e := range table {
		if i%n != sh {
			continue
		}
		for _, chunks := range [][]int{{1}, {3}, {1 << 30}} {
			m := e.new()
			setEnvelope(nil, e, m)
			c := s.NewCase(t)
			c.Set(kase{Msgs: toWire([]dap.Message{m}), Chunks: chunks, BufSize: 16})
			if key, what, _ := roundTrip([]dap.Message{m}, chunks, 16, false); key != "" {
				c.Fail(key, "%s", what)
			}
			c.Class("type/" + e.name)
			c.Nontrivial(e.name, chunks[0])
			c.Done()
		}
	}
}

// The table must be exactly the set of constructors registered in the source
// under test (parsed with go/parser at run time).
func TestRegistry(t *testing.T) {
	if !core.FirstShard() {
		return
	}
	s := core.NewStats(prop, "Registry")
	defer s.Flush()
	s.Rule("go/parser over schematypes.go of the tree under test: the constructor maps requestCtor/responseCtor/eventCtor are compared with the harness table; non-trivial = each registered (kind, key, type) triple present in both")
	src := filepath.Join(core.RepoDir(), "internal", "3rdparty", "go-dap", "schematypes.go")
	fset := token.NewFileSet()
	file, err := parser.ParseFile(fset, src, nil, 0)
	if err != nil {
		t.Fatalf("harness: cannot parse %s: %v", src, err)
	}
	type triple struct{ kind, key, name string }
	inSrc := map[triple]bool{}
	kinds := map[string]string{"requestCtor": "request", "responseCtor": "response", "eventCtor": "event"}
	ast.Inspect(file, func(n ast.Node) bool {
		vs, ok := n.(*ast.ValueSpec)
		if !ok || len(vs.Names) != 1 || len(vs.Values) != 1 {
			return true
		}
		kind, ok := kinds[vs.Names[0].Name]
		if !ok {
			return true
		}
		lit, ok := vs.Values[0].(*ast.CompositeLit)
		if !ok {
			return true
		}
		for _, el := range lit.Elts {
			kv := el.(*ast.KeyValueExpr)
			key := strings.Trim(kv.Key.(*ast.BasicLit).Value, `"`)
			name := ""
			ast.Inspect(kv.Value, func(n ast.Node) bool {
				if u, ok := n.(*ast.UnaryExpr); ok && name == "" {
					if cl, ok := u.X.(*ast.CompositeLit); ok {
						if id, ok := cl.Type.(*ast.Ident); ok {
							name = id.Name
						}
					}
				}
				return true
			})
			inSrc[triple{kind, key, name}] = true
		}
		return false
	})
	inTable := map[triple]bool{}
	for _, e := range table {
		if e.name == "ErrorResponse" {
			continue
		}
		inTable[triple{e.kind, e.key, e.name}] = true
	}
	var onlySrc, onlyTable []string
	for k := range inSrc {
		s.Eval(1)
		if inTable[k] {
			s.Nontrivial(core.Hash64(k.kind, k.key, k.name))
		} else {
			onlySrc = append(onlySrc, fmt.Sprint(k))
		}
	}
	for k := range inTable {
		if !inSrc[k] {
			onlyTable = append(onlyTable, fmt.Sprint(k))
		}
	}
	sort.Strings(onlySrc)
	sort.Strings(onlyTable)
	s.Counter("registered_in_source", int64(len(inSrc)))
	s.Counter("registered_but_not_in_harness_table", int64(len(onlySrc)))
	s.Counter("in_harness_table_but_not_registered", int64(len(onlyTable)))
	if len(onlyTable) > 0 {
		s.Note(fmt.Sprintf("types of the frozen table that the source no longer registers (the round trip decides): %v", onlyTable))
	}
	if len(onlySrc) > 0 {
		t.Errorf("harness: table is stale, registered but never generated: %v (regenerate harness/c26/types_gen.go)", onlySrc)
	}
}

// ---------------------------------------------------------------- replay

func replay(test string, raw json.RawMessage) (string, string) {
	var k kase
	if err := json.Unmarshal(raw, &k); err != nil {
		return "harness/bad-replay", err.Error()
	}
	var msgs []dap.Message
	for _, w := range k.Msgs {
		e, ok := byName[w.Name]
		if !ok {
			return "harness/bad-replay", "unknown type " + w.Name
		}
		m := e.new()
		if err := json.Unmarshal(w.JSON, m); err != nil {
			return "harness/bad-replay", err.Error()
		}
		msgs = append(msgs, m)
	}
	if k.BufSize == 0 {
		k.BufSize = 4096
	}
	key, what, _ := roundTrip(msgs, k.Chunks, k.BufSize, k.EOFWithData)
	return key, what
}

func TestReplay(t *testing.T) { core.RunReplays(t, prop, replay) }
