package c01

import (
	"fmt"
	"strings"
	"testing"

	"pgregory.net/rapid"
	"wa-lang.org/wa/zverif/harness/core"
	xm "wa-lang.org/wa/zverif/harness/exprmatrix"
	"wa-lang.org/wa/zverif/harness/wk"
)

// mkase is the replayable form of an expression batch (a single expression after bisection).
type mkase struct {
	Exprs []*xm.Expr `json:"exprs"`
}

// renderMatrix builds one Wa program that prints every expression, operands
// living in package-level globals (nothing can be folded), and the expected lines.
func renderMatrix(exprs []*xm.Expr) (src string, want []string, err error) {
	xm.Number(0, exprs...)
	d := xm.WaDecls(exprs, true, false)
	var b strings.Builder
	if d.NeedMath {
		b.WriteString("import \"math\"\n\n")
	}
	for _, l := range d.Globals {
		b.WriteString(l + "\n")
	}
	b.WriteString("\nfunc main {\n")
	for _, l := range d.Init {
		b.WriteString("\t" + l + "\n")
	}
	for i, e := range exprs {
		v, err := xm.Eval(e)
		if err != nil {
			return "", nil, fmt.Errorf("expression %d leaves the defined domain: %v", i, err)
		}
		fmt.Fprintf(&b, "\tprintln(%d, %s)\n", i, e.Wa(xm.AsOperands))
		want = append(want, fmt.Sprintf("%d %s", i, v.WaPrint()))
	}
	b.WriteString("}\n")
	return b.String(), want, nil
}

// judgeMatrix returns the index of the first wrong expression (-1 = all right).
func judgeMatrix(w *wk.Client, exprs []*xm.Expr) (bad int, key, what, domain string) {
	src, want, err := renderMatrix(exprs)
	if err != nil {
		return -1, "", "", "generator: " + err.Error()
	}
	o := w.Do("run", wk.Src{Name: "m.wa", Src: src})
	var rr wk.RunResult
	o.Decode(&rr)
	got := strings.Split(strings.TrimRight(rr.Out(), "\n"), "\n")
	switch o.Kind {
	case wk.OK:
	case wk.Error:
		if rr.Stage != "run" {
			return -1, "", "", "wa-compile-error: " + firstLines(o.Err, 3)
		}
		// a trap: the first expression without an output line is the culprit
		bad = len(got)
		if rr.Out() == "" {
			bad = 0
		}
		if bad >= len(exprs) {
			bad = len(exprs) - 1
		}
		return bad, "expr/trap/" + trapClass(o.Err), fmt.Sprintf("expression %d traps at run time (%s) but is defined: %s", bad, firstLines(o.Err, 1), exprs[bad].Wa(xm.AsOperands)), ""
	case wk.Panic, wk.Exited:
		return -1, "", "", "wa-compiler-crash: " + firstLines(o.String(), 3)
	default:
		return -1, "", "", "inconclusive: " + o.String()
	}
	for i := range want {
		g := ""
		if i < len(got) {
			g = got[i]
		}
		if g != want[i] {
			e := exprs[i]
			return i, "expr/" + exprClass(e), fmt.Sprintf("%s\n  operands: %s\n  Go (native evaluator): %s\n  Wa: %s", e.Wa(xm.AsOperands), operandText(e), want[i], g), ""
		}
	}
	return -1, "", "", ""
}

// exprClass names the root operator and type of an expression (structural key).
func exprClass(e *xm.Expr) string {
	return fmt.Sprintf("%s/%s", rootOp(e), e.T)
}

func rootOp(e *xm.Expr) string {
	if e.Op != 0 || e.K != xm.KLeaf {
		return fmt.Sprintf("k%v-op%v", e.K, e.Op)
	}
	return "leaf"
}

func operandText(e *xm.Expr) string {
	d := xm.WaDecls([]*xm.Expr{e}, true, false)
	return strings.Join(append(d.Globals, d.Init...), "; ")
}

func TestExprMatrix(t *testing.T) {
	s := core.NewStats(prop, "ExprMatrix")
	s.Rule("rapid-drawn batches of 80 typed scalar expression trees (harness/exprmatrix: every operator × type, every conversion pair, boundary-biased operand values incl. shift counts ≥ width, MinInt/−1, ±0, NaN, ±Inf, subnormals) whose operands are package-level globals, printed by one Wa program; oracle = the native evaluator (Go's own operators on Go's fixed-width types) — no Go build; a failing batch is narrowed to the single expression; non-trivial = expression has ≥ 2 operators or a boundary-class operand; distinct by expression")
	w := getWorker()
	cfg := xm.Config{Special: true, MaxDepth: 3}
	s.Check(t, func(t *rapid.T, c *core.Case) {
		exprs := rapid.SliceOfN(cfg.AnyTree(), 80, 80).Draw(t, "exprs")
		c.Set(mkase{Exprs: exprs})
		bad, key, what, domain := judgeMatrix(w, exprs)
		if domain != "" {
			s.Counter("rejected_by_domain/"+strings.SplitN(domain, ":", 2)[0], 1)
			t.Skip(domain)
		}
		s.Eval(int64(len(exprs)) - 1) // Done() adds one
		for _, e := range exprs {
			s.Class("type/" + fmt.Sprint(e.T))
			if xm.NonTrivial(e, 0) {
				s.Nontrivial(core.Hash64(e.Wa(xm.AsOperands), operandText(e)))
			}
		}
		if key != "" {
			// re-check the single expression in its own program so that the replay payload is minimal
			one := []*xm.Expr{exprs[bad]}
			if b2, k2, w2, _ := judgeMatrix(w, one); b2 == 0 && k2 != "" {
				c.Set(mkase{Exprs: one})
				c.Fail(k2, "%s", w2)
			}
			c.Fail(key, "(only in the batch) %s", what)
		}
	})
}
