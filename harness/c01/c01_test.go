package c01

import (
	"time"
	"encoding/json"
	"fmt"
	"os"
	"path/filepath"
	"sort"
	"strings"
	"testing"

	"pgregory.net/rapid"
	"wa-lang.org/wa/zverif/harness/core"
	"wa-lang.org/wa/zverif/harness/wagen"
	"wa-lang.org/wa/zverif/harness/wk"
)

const prop = "C01"

func TestMain(m *testing.M) { core.Main(m) }

// kase is the replayable form: both renderings of one program.
type kase struct {
	Wa       string   `json:"wa"`
	Go       string   `json:"go"`
	Features []string `json:"features,omitempty"`
}

// exclusions derived from the listed known findings.
func exclusions() map[string]bool {
	ex := map[string]bool{}
	for _, k := range []string{wagen.ExclShiftGEWidth, wagen.ExclMinDivNeg1, wagen.ExclFloatToUintBig, wagen.ExclArrayEq, wagen.ExclStructEq, wagen.ExclIntI32Iface} {
		if core.IsKnown(prop, k) {
			ex[k] = true
		}
	}
	return ex
}

type verdict struct {
	key, what string
	domain    string // non-empty: outside the property's domain (counted, not failed)
}

// judge runs both sides and compares.
func judge(w *wk.Client, k kase) verdict {
	gr := wagen.RunGo(k.Go)
	if gr.BuildErr != "" {
		return verdict{domain: "generator-bug/go-build: " + firstLines(gr.BuildErr, 6)}
	}
	if gr.RunErr != "" {
		return verdict{domain: "generator-bug/go-run: " + firstLines(gr.RunErr, 6)}
	}
	o := w.Do("run", wk.Src{Name: "p.wa", Src: k.Wa})
	var rr wk.RunResult
	o.Decode(&rr)
	switch o.Kind {
	case wk.OK:
		if rr.Out() != gr.Stdout {
			return verdict{key: "output-mismatch", what: diffText(gr.Stdout, rr.Out())}
		}
		return verdict{}
	case wk.Error:
		if rr.Stage == "build" {
			return verdict{domain: "wa-compile-error: " + firstLines(o.Err, 3)}
		}
		if rr.Stage == "assemble" {
			return verdict{domain: "wa-assemble-error: " + firstLines(o.Err, 3)}
		}
		return verdict{key: "abnormal-termination/" + trapClass(o.Err), what: fmt.Sprintf("Go ran to completion, Wa run failed: %s\nstdout so far:\n%s", firstLines(o.Err, 4), tail(rr.Stdout, 400))}
	case wk.Panic, wk.Exited:
		return verdict{domain: "wa-compiler-crash: " + firstLines(o.String(), 4)}
	case wk.Killed:
		return verdict{key: "wa-nontermination", what: "Go terminated; the Wa build/run used more than the CPU budget: " + o.String()}
	}
	return verdict{domain: "inconclusive: " + o.String()}
}

func trapClass(msg string) string {
	for _, c := range []string{"integer divide by zero", "integer overflow", "out of bounds memory access", "unreachable", "invalid conversion to integer", "indirect call", "stack overflow", "exit_code"} {
		if strings.Contains(msg, c) {
			return strings.ReplaceAll(c, " ", "-")
		}
	}
	return "other"
}

func firstLines(s string, n int) string {
	ls := strings.Split(strings.TrimSpace(s), "\n")
	if len(ls) > n {
		ls = ls[:n]
	}
	return strings.Join(ls, "\n")
}

func tail(s string, n int) string {
	if len(s) > n {
		return "…" + s[len(s)-n:]
	}
	return s
}

func diffText(want, got string) string {
	wl, gl := strings.Split(want, "\n"), strings.Split(got, "\n")
	for i := 0; i < len(wl) || i < len(gl); i++ {
		var a, b string
		if i < len(wl) {
			a = wl[i]
		}
		if i < len(gl) {
			b = gl[i]
		}
		if a != b {
			return fmt.Sprintf("first difference at output line %d:\n  Go: %q\n  Wa: %q\n(%d vs %d lines)", i+1, a, b, len(wl), len(gl))
		}
	}
	return "outputs differ"
}

var worker *wk.Client

func getWorker() *wk.Client {
	if worker == nil {
		worker = wk.New(wk.Options{CPULimit: 150 * time.Second}) // generous: the budget only separates "slow on a loaded machine" from "does not terminate"
	}
	return worker
}

func saveDebug(kind string, k kase, note string) {
	dir := os.Getenv("VERIF_DEBUG_DIR")
	if dir == "" {
		return
	}
	os.MkdirAll(dir, 0o755)
	h := core.Hash64(k.Wa)
	os.WriteFile(filepath.Join(dir, fmt.Sprintf("%s-%x.wa", kind, h)), []byte(k.Wa), 0o644)
	os.WriteFile(filepath.Join(dir, fmt.Sprintf("%s-%x.go", kind, h)), []byte(k.Go), 0o644)
	os.WriteFile(filepath.Join(dir, fmt.Sprintf("%s-%x.txt", kind, h)), []byte(note), 0o644)
}

// TestPrograms: wagen programs, Go toolchain as the reference.
func TestPrograms(t *testing.T) {
	s := core.NewStats(prop, "Programs")
	s.Rule("rapid-drawn typed programs (harness/wagen: scalars of every width, control flow, functions, closures, methods, structs, arrays, slices incl. append aliasing with statically known capacity, strings, maps ranged only through commutative digests, interfaces and assertions, defer), rendered as .wa and as Go; oracle = stdout of `go build`+run byte-equal to stdout of the Wa build on the embedded runtime and normal termination of both; non-trivial = program uses ≥ 3 feature classes beyond plain arithmetic; distinct by source hash")
	s.Assume("the Go toolchain (go1.23) is the reference semantics; Wa int/uint are rendered as 32-bit defined types in Go; a program the Go toolchain rejects or that panics in Go is a generator bug and is counted, not judged")
	ex := exclusions()
	for k := range ex {
		s.Note("generator switch active for known finding: " + k)
	}
	w := getWorker()
	var judged, domainOut int64
	s.Check(t, func(t *rapid.T, c *core.Case) {
		p := wagen.Gen(t, wagen.Options{Exclude: ex})
		k := kase{Wa: p.Src[wagen.Wa], Go: p.Src[wagen.Go], Features: p.FeatureList()}
		c.Set(k)
		v := judge(w, k)
		if v.domain != "" {
			cls := strings.SplitN(v.domain, ":", 2)[0]
			s.Counter("rejected_by_domain/"+cls, 1)
			saveDebug(strings.ReplaceAll(cls, "/", "_"), k, v.domain)
			domainOut++
			t.Skip(v.domain)
		}
		judged++
		for _, f := range k.Features {
			c.Class("feature/" + f)
		}
		if v.key != "" {
			saveDebug("violation", k, v.what)
			c.Fail(v.key, "%s", v.what)
		}
		if nontrivialFeatures(k.Features) >= 3 {
			c.Nontrivial(k.Wa)
		}
	})
	if judged > 0 && domainOut*4 > judged {
		t.Errorf("generator health: %d of %d programs fell outside the domain (see counters)", domainOut, judged+domainOut)
	}
}

var plain = map[string]bool{"arith-int": true, "compare": true, "logic": true, "if": true, "call": true, "len": true}

func nontrivialFeatures(fs []string) int {
	n := 0
	for _, f := range fs {
		if !plain[f] {
			n++
		}
	}
	return n
}

// ---------------------------------------------------------------- replay

func replay(test string, raw json.RawMessage) (string, string) {
	if test == "ExprMatrix" {
		var mk mkase
		if err := json.Unmarshal(raw, &mk); err != nil {
			return "harness/bad-replay", err.Error()
		}
		_, key, what, _ := judgeMatrix(getWorker(), mk.Exprs)
		return key, what
	}
	var k kase
	if err := json.Unmarshal(raw, &k); err != nil {
		return "harness/bad-replay", err.Error()
	}
	v := judge(getWorker(), k)
	if v.domain != "" {
		return "", ""
	}
	// Reproducers of listed findings carry the finding's structural key as their
	// test name ("key:<key>"): a mismatch on that minimal program IS that finding.
	if strings.HasPrefix(test, "key:") && v.key != "" {
		return strings.TrimPrefix(test, "key:"), v.what
	}
	return v.key, v.what
}

func TestReplay(t *testing.T) { core.RunReplays(t, prop, replay) }

var _ = sort.Strings
