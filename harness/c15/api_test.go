package c15

import (
	"bytes"
	"fmt"
	goconst "go/constant"
	gotoken "go/token"
	"math"
	"math/big"
	"strconv"
	"strings"
	"testing"

	"pgregory.net/rapid"
	waconst "wa-lang.org/wa/internal/constant"
	watoken "wa-lang.org/wa/internal/token"
	"wa-lang.org/wa/zverif/harness/core"
)

// ---------------------------------------------------------------- operands

// operand is the replayable description of one constant operand: the same
// source (a literal, a machine number, a big value) builds the Wa value, the
// go/constant value and the exact math/big value.
type operand struct {
	Ctor string `json:"ctor"` // lit-int | lit-float | int64 | uint64 | float64 | make-int | make-rat | bool
	Text string `json:"text"` // decimal / literal / "a/b" / float64 bits in hex / true|false
}

type built struct {
	wa    waconst.Value
	gv    goconst.Value
	exact *big.Rat // nil for bools
	isInt bool     // the operand is of Int kind
	b     bool
}

func stripUnderscores(s string) string { return strings.ReplaceAll(s, "_", "") }

// parseLit is the reference literal parser: math/big on the literal with the
// digit separators removed.
func parseLit(lit string, float bool) (*big.Rat, bool) {
	s := stripUnderscores(lit)
	if !float {
		if len(s) > 1 && s[0] == '0' && s[1] >= '0' && s[1] <= '7' { // legacy octal 017
			x, ok := new(big.Int).SetString(s[1:], 8)
			if !ok {
				return nil, false
			}
			return new(big.Rat).SetInt(x), true
		}
		x, ok := new(big.Int).SetString(s, 0)
		if !ok {
			return nil, false
		}
		return new(big.Rat).SetInt(x), true
	}
	r, ok := new(big.Rat).SetString(s)
	return r, ok
}

func (o operand) build() (b built, err error) {
	switch o.Ctor {
	case "bool":
		b.b = o.Text == "true"
		b.wa, b.gv = waconst.MakeBool(b.b), goconst.MakeBool(b.b)
	case "lit-int":
		r, ok := parseLit(o.Text, false)
		if !ok {
			return b, fmt.Errorf("bad int literal %q", o.Text)
		}
		b.exact, b.isInt = r, true
		b.wa = waconst.MakeFromLiteral(o.Text, watoken.INT, 0)
		b.gv = goconst.MakeFromLiteral(o.Text, gotoken.INT, 0)
	case "lit-float":
		r, ok := parseLit(o.Text, true)
		if !ok {
			return b, fmt.Errorf("bad float literal %q", o.Text)
		}
		b.exact = r
		b.wa = waconst.MakeFromLiteral(o.Text, watoken.FLOAT, 0)
		b.gv = goconst.MakeFromLiteral(o.Text, gotoken.FLOAT, 0)
	case "int64":
		v, e := strconv.ParseInt(o.Text, 10, 64)
		if e != nil {
			return b, e
		}
		b.exact, b.isInt = new(big.Rat).SetInt64(v), true
		b.wa, b.gv = waconst.MakeInt64(v), goconst.MakeInt64(v)
	case "uint64":
		v, e := strconv.ParseUint(o.Text, 10, 64)
		if e != nil {
			return b, e
		}
		b.exact, b.isInt = new(big.Rat).SetInt(new(big.Int).SetUint64(v)), true
		b.wa, b.gv = waconst.MakeUint64(v), goconst.MakeUint64(v)
	case "float64":
		u, e := strconv.ParseUint(o.Text, 0, 64)
		if e != nil {
			return b, e
		}
		f := math.Float64frombits(u)
		if math.IsNaN(f) || math.IsInf(f, 0) {
			return b, fmt.Errorf("non-finite float64 operand")
		}
		b.exact = new(big.Rat).SetFloat64(f)
		b.wa, b.gv = waconst.MakeFloat64(f), goconst.MakeFloat64(f)
	case "make-int":
		x, ok := new(big.Int).SetString(o.Text, 10)
		if !ok {
			return b, fmt.Errorf("bad big int %q", o.Text)
		}
		b.exact, b.isInt = new(big.Rat).SetInt(x), true
		b.wa, b.gv = waconst.Make(new(big.Int).Set(x)), goconst.Make(new(big.Int).Set(x))
	case "make-rat":
		r, ok := new(big.Rat).SetString(o.Text)
		if !ok {
			return b, fmt.Errorf("bad rational %q", o.Text)
		}
		b.exact = r
		b.wa, b.gv = waconst.Make(new(big.Rat).Set(r)), goconst.Make(new(big.Rat).Set(r))
	default:
		return b, fmt.Errorf("unknown ctor %q", o.Ctor)
	}
	if !b.isInt && b.exact != nil && b.wa.Kind() == waconst.Int {
		// this (older) go/constant represents MakeFloat64(0) and the literal 0.0
		// as the integer 0: same value; the kind of results follows the operands
		b.isInt = true
	}
	return b, nil
}

// exactOfWa / exactOfGo read a numeric constant back as an exact rational; ok is
// false for Unknown and for values that left exact arithmetic (*big.Float that
// is not an exact rational of moderate size — never produced in this domain).
func ratOf(v interface{}) (*big.Rat, bool) {
	switch x := v.(type) {
	case int64:
		return new(big.Rat).SetInt64(x), true
	case *big.Int:
		return new(big.Rat).SetInt(x), true
	case *big.Rat:
		return x, true
	case *big.Float:
		if x.IsInf() {
			return nil, false
		}
		r, _ := x.Rat(nil)
		return r, true
	}
	return nil, false
}

// ---------------------------------------------------------------- generators

func genBigInt() *rapid.Generator[*big.Int] {
	return rapid.Custom(func(t *rapid.T) *big.Int {
		var x *big.Int
		switch rapid.IntRange(0, 4).Draw(t, "iclass") {
		case 0:
			x = big.NewInt(rapid.Int64Range(-20, 20).Draw(t, "small"))
		case 1: // ±2^k + d, k ≤ 600
			k := uint(rapid.IntRange(0, 600).Draw(t, "k"))
			x = new(big.Int).Lsh(big.NewInt(1), k)
			x.Add(x, big.NewInt(rapid.Int64Range(-2, 2).Draw(t, "d")))
		case 2: // around machine word limits
			k := uint(rapid.SampledFrom([]int{7, 8, 15, 16, 31, 32, 52, 53, 62, 63, 64, 65, 127, 128}).Draw(t, "wk"))
			x = new(big.Int).Lsh(big.NewInt(1), k)
			x.Add(x, big.NewInt(rapid.Int64Range(-2, 2).Draw(t, "d")))
		case 3:
			x = new(big.Int).SetUint64(rapid.Uint64().Draw(t, "u64"))
		default: // random limbs
			n := rapid.IntRange(1, 9).Draw(t, "limbs")
			x = new(big.Int)
			for i := 0; i < n; i++ {
				x.Lsh(x, 64).Or(x, new(big.Int).SetUint64(rapid.Uint64().Draw(t, "limb")))
			}
		}
		if rapid.Bool().Draw(t, "neg") {
			x.Neg(x)
		}
		return x
	})
}

func genIntOperand() *rapid.Generator[operand] {
	return rapid.Custom(func(t *rapid.T) operand {
		x := genBigInt().Draw(t, "x")
		switch rapid.IntRange(0, 3).Draw(t, "ictor") {
		case 0:
			if x.IsInt64() {
				return operand{"int64", x.String()}
			}
		case 1:
			if x.IsUint64() {
				return operand{"uint64", x.String()}
			}
		case 2:
			return operand{"make-int", x.String()}
		}
		if x.Sign() < 0 { // a literal has no sign; negative values come from the other constructors
			return operand{"make-int", x.String()}
		}
		return operand{"lit-int", x.String()}
	})
}

func genRatOperand() *rapid.Generator[operand] {
	return rapid.Custom(func(t *rapid.T) operand {
		switch rapid.IntRange(0, 3).Draw(t, "rctor") {
		case 0:
			lits := []string{"0.1", "0.5", "1.5", "2.25", "1e10", "1e-10", "3.4028234663852886e38", "1.7976931348623157e308", "4.9e-324",
				"1e100", "1e-100", "16777217.0", "9007199254740993.0", "0.30000000000000004", "1e400", "1e-400", "123.456e7", "0.0", "1.0", "7.0"}
			return operand{"lit-float", rapid.SampledFrom(lits).Draw(t, "flit")}
		case 1:
			var f float64
			switch rapid.IntRange(0, 2).Draw(t, "f64class") {
			case 0:
				f = rapid.SampledFrom([]float64{0, 1, -1, 0.5, 0.1, math.MaxFloat64, math.SmallestNonzeroFloat64, math.MaxFloat32, 0x1p63, 0x1p64, 0x1p53 + 2, -0x1p63, 0x1p-1022, 1e300, 1e-300}).Draw(t, "f64")
			default:
				f = math.Float64frombits(rapid.Uint64().Draw(t, "bits"))
				if math.IsNaN(f) || math.IsInf(f, 0) {
					f = 1.25
				}
			}
			return operand{"float64", fmt.Sprintf("0x%016x", math.Float64bits(f))}
		default:
			n := genBigInt().Draw(t, "num")
			d := genBigInt().Draw(t, "den")
			if d.Sign() == 0 {
				d = big.NewInt(3)
			}
			return operand{"make-rat", new(big.Rat).SetFrac(n, d).String()}
		}
	})
}

func genNumOperand() *rapid.Generator[operand] {
	return rapid.Custom(func(t *rapid.T) operand {
		if rapid.IntRange(0, 2).Draw(t, "kind") == 0 {
			return genRatOperand().Draw(t, "rat")
		}
		return genIntOperand().Draw(t, "int")
	})
}

// literal generator for MakeFromLiteral: every base, separators, exponents.
func genLiteral() *rapid.Generator[operand] {
	return rapid.Custom(func(t *rapid.T) operand {
		digits := func(alpha string, n int, label string) string {
			var b strings.Builder
			for i := 0; i < n; i++ {
				b.WriteByte(alpha[rapid.IntRange(0, len(alpha)-1).Draw(t, label)])
				if i < n-1 && rapid.IntRange(0, 5).Draw(t, "sep") == 0 {
					b.WriteByte('_')
				}
			}
			return b.String()
		}
		n := rapid.IntRange(1, 40).Draw(t, "ndigits")
		switch rapid.IntRange(0, 7).Draw(t, "litkind") {
		case 0:
			s := digits("0123456789", n, "dec")
			s = strings.TrimLeft(s, "0_")
			if s == "" {
				s = "0"
			}
			return operand{"lit-int", s}
		case 1:
			return operand{"lit-int", rapid.SampledFrom([]string{"0x", "0X"}).Draw(t, "pfx") + digits("0123456789abcdefABCDEF", n, "hex")}
		case 2:
			return operand{"lit-int", rapid.SampledFrom([]string{"0o", "0O"}).Draw(t, "pfx") + digits("01234567", n, "oct")}
		case 3:
			return operand{"lit-int", rapid.SampledFrom([]string{"0b", "0B"}).Draw(t, "pfx") + digits("01", n, "bin")}
		case 4:
			return operand{"lit-int", "0" + digits("01234567", n, "legacyoct")}
		case 5: // decimal float: mantissa[.frac][e±exp]
			s := digits("0123456789", rapid.IntRange(1, 20).Draw(t, "ip"), "dec")
			if rapid.Bool().Draw(t, "frac") {
				s += "." + digits("0123456789", rapid.IntRange(1, 20).Draw(t, "fp"), "dec")
			} else {
				s += "."
			}
			if rapid.Bool().Draw(t, "hasexp") {
				s += rapid.SampledFrom([]string{"e", "E", "e+", "e-"}).Draw(t, "e") + strconv.Itoa(rapid.IntRange(0, 400).Draw(t, "exp"))
			}
			return operand{"lit-float", s}
		case 6: // exponent only
			return operand{"lit-float", digits("0123456789", rapid.IntRange(1, 10).Draw(t, "ip"), "dec") + "e" + strconv.Itoa(rapid.IntRange(-400, 400).Draw(t, "exp"))}
		default: // hex float
			s := "0x" + digits("0123456789abcdef", rapid.IntRange(1, 16).Draw(t, "ip"), "hex")
			if rapid.Bool().Draw(t, "frac") {
				s += "." + digits("0123456789abcdef", rapid.IntRange(1, 16).Draw(t, "fp"), "hex")
			}
			s += rapid.SampledFrom([]string{"p", "P", "p-", "p+"}).Draw(t, "p") + strconv.Itoa(rapid.IntRange(0, 300).Draw(t, "exp"))
			return operand{"lit-float", s}
		}
	})
}

// ---------------------------------------------------------------- oracle

type apiCase struct {
	Kind string  `json:"kind"` // always "api"
	Fn   string  `json:"fn"`
	Op   string  `json:"op,omitempty"`
	X    operand `json:"x"`
	Y    operand `json:"y,omitempty"`
	N    uint    `json:"n,omitempty"` // shift count / xor precision
}

var waTok = map[string]watoken.Token{"+": watoken.ADD, "-": watoken.SUB, "*": watoken.MUL, "/": watoken.QUO, "/=": watoken.QUO_ASSIGN, "%": watoken.REM,
	"&": watoken.AND, "|": watoken.OR, "^": watoken.XOR, "&^": watoken.AND_NOT, "<<": watoken.SHL, ">>": watoken.SHR,
	"==": watoken.EQL, "!=": watoken.NEQ, "<": watoken.LSS, "<=": watoken.LEQ, ">": watoken.GTR, ">=": watoken.GEQ, "!": watoken.NOT}
var goTok = map[string]gotoken.Token{"+": gotoken.ADD, "-": gotoken.SUB, "*": gotoken.MUL, "/": gotoken.QUO, "/=": gotoken.QUO_ASSIGN, "%": gotoken.REM,
	"&": gotoken.AND, "|": gotoken.OR, "^": gotoken.XOR, "&^": gotoken.AND_NOT, "<<": gotoken.SHL, ">>": gotoken.SHR,
	"==": gotoken.EQL, "!=": gotoken.NEQ, "<": gotoken.LSS, "<=": gotoken.LEQ, ">": gotoken.GTR, ">=": gotoken.GEQ, "!": gotoken.NOT}

func kindName(k int) string {
	return [...]string{"Unknown", "Bool", "String", "Int", "Float", "Complex"}[k]
}

// sameNumeric compares a Wa result with the exact value and with go/constant.
func sameNumeric(fn, desc string, wa waconst.Value, gv goconst.Value, want *big.Rat, wantInt bool) (string, string) {
	got, ok := ratOf(waconst.Val(wa))
	if !ok {
		return "api/" + fn + "/not-numeric", fmt.Sprintf("%s = %v (kind %s); exact value %s", desc, wa, kindName(int(wa.Kind())), want.RatString())
	}
	if got.Cmp(want) != 0 {
		return "api/" + fn + "/wrong-value", fmt.Sprintf("%s = %s; exact value %s (go/constant: %s)", desc, wa.ExactString(), want.RatString(), gv.ExactString())
	}
	if wantInt != (wa.Kind() == waconst.Int) {
		return "api/" + fn + "/wrong-kind", fmt.Sprintf("%s has kind %s; expected Int=%v (go/constant: %s)", desc, kindName(int(wa.Kind())), wantInt, kindName(int(gv.Kind())))
	}
	if g, ok := ratOf(goconst.Val(gv)); !ok || g.Cmp(want) != 0 {
		return "harness/api-oracle", fmt.Sprintf("go/constant disagrees with math/big on %s: %s vs %s", desc, gv.ExactString(), want.RatString())
	}
	return "", ""
}

func floorShift(x *big.Int, op string, n uint) *big.Int {
	if op == "<<" {
		return new(big.Int).Lsh(x, n)
	}
	return new(big.Int).Rsh(x, n) // big.Int.Rsh is an arithmetic (floor) shift
}

// checkAPI returns "" when internal/constant agrees with math/big (and
// go/constant) on the case.
func checkAPI(k apiCase) (key, what string) {
	x, err := k.X.build()
	if err != nil {
		return "harness/bad-case", err.Error()
	}
	var y built
	if k.Y.Ctor != "" {
		if y, err = k.Y.build(); err != nil {
			return "harness/bad-case", err.Error()
		}
	}
	// every constructor must produce the exact value it was given
	for _, o := range []struct {
		b built
		o operand
	}{{x, k.X}, {y, k.Y}} {
		if o.o.Ctor == "" || o.o.Ctor == "bool" {
			continue
		}
		fn := "make/" + o.o.Ctor
		if o.b.wa.Kind() == waconst.Unknown {
			return "api/" + fn + "/unknown", fmt.Sprintf("constructor %s(%s) returned Unknown; value %s", o.o.Ctor, o.o.Text, o.b.exact.RatString())
		}
		got, ok := ratOf(waconst.Val(o.b.wa))
		if !ok || got.Cmp(o.b.exact) != 0 {
			return "api/" + fn + "/wrong-value", fmt.Sprintf("constructor %s(%s) = %s; exact value %s", o.o.Ctor, o.o.Text, o.b.wa.ExactString(), o.b.exact.RatString())
		}
		if o.b.isInt && o.b.wa.Kind() != waconst.Int {
			return "api/" + fn + "/wrong-kind", fmt.Sprintf("constructor %s(%s) has kind %s", o.o.Ctor, o.o.Text, kindName(int(o.b.wa.Kind())))
		}
	}
	switch k.Fn {
	case "literal":
		return "", "" // the constructor check above is the property
	case "binary":
		desc := fmt.Sprintf("BinaryOp(%s, %s, %s)", x.wa.ExactString(), k.Op, y.wa.ExactString())
		want := new(big.Rat)
		wantInt := x.isInt && y.isInt
		switch k.Op {
		case "+":
			want.Add(x.exact, y.exact)
		case "-":
			want.Sub(x.exact, y.exact)
		case "*":
			want.Mul(x.exact, y.exact)
		case "/":
			want.Quo(x.exact, y.exact)
			wantInt = false
		default:
			if !wantInt {
				return "harness/bad-case", "integer operator on non-integers"
			}
			a, b := x.exact.Num(), y.exact.Num()
			z := new(big.Int)
			switch k.Op {
			case "/=":
				z.Quo(a, b)
			case "%":
				z.Rem(a, b)
			case "&":
				z.And(a, b)
			case "|":
				z.Or(a, b)
			case "^":
				z.Xor(a, b)
			case "&^":
				z.AndNot(a, b)
			}
			want.SetInt(z)
		}
		return sameNumeric("BinaryOp/"+k.Op, desc, waconst.BinaryOp(x.wa, waTok[k.Op], y.wa), goconst.BinaryOp(x.gv, goTok[k.Op], y.gv), want, wantInt)
	case "unary":
		desc := fmt.Sprintf("UnaryOp(%s, %s, %d)", k.Op, x.wa.ExactString(), k.N)
		if k.Op == "!" {
			if got := waconst.BoolVal(waconst.UnaryOp(watoken.NOT, x.wa, 0)); got != !x.b {
				return "api/UnaryOp/!/wrong-value", fmt.Sprintf("%s = %v", desc, got)
			}
			return "", ""
		}
		want := new(big.Rat)
		switch k.Op {
		case "+":
			want.Set(x.exact)
		case "-":
			want.Neg(x.exact)
		case "^":
			z := new(big.Int).Not(x.exact.Num())
			if k.N > 0 {
				z.And(z, new(big.Int).Sub(new(big.Int).Lsh(big.NewInt(1), k.N), big.NewInt(1))) // two's complement truncation to N bits
			}
			want.SetInt(z)
		}
		return sameNumeric("UnaryOp/"+k.Op, desc, waconst.UnaryOp(waTok[k.Op], x.wa, k.N), goconst.UnaryOp(goTok[k.Op], x.gv, k.N), want, x.isInt)
	case "shift":
		desc := fmt.Sprintf("Shift(%s, %s, %d)", x.wa.ExactString(), k.Op, k.N)
		want := new(big.Rat).SetInt(floorShift(x.exact.Num(), k.Op, k.N))
		return sameNumeric("Shift/"+k.Op, desc, waconst.Shift(x.wa, waTok[k.Op], k.N), goconst.Shift(x.gv, goTok[k.Op], k.N), want, true)
	case "compare":
		c := x.exact.Cmp(y.exact)
		want := map[string]bool{"==": c == 0, "!=": c != 0, "<": c < 0, "<=": c <= 0, ">": c > 0, ">=": c >= 0}[k.Op]
		if got := waconst.Compare(x.wa, waTok[k.Op], y.wa); got != want {
			return "api/Compare/" + k.Op + "/wrong-value", fmt.Sprintf("Compare(%s, %s, %s) = %v; exact comparison gives %v", x.wa.ExactString(), k.Op, y.wa.ExactString(), got, want)
		}
		if g := goconst.Compare(x.gv, goTok[k.Op], y.gv); g != want {
			return "harness/api-oracle", "go/constant.Compare disagrees with math/big"
		}
		if got := waconst.CompareSpaceShip(x.wa, y.wa); got != int64(c) {
			return "api/CompareSpaceShip/wrong-value", fmt.Sprintf("CompareSpaceShip(%s, %s) = %d; exact %d", x.wa.ExactString(), y.wa.ExactString(), got, c)
		}
		return "", ""
	case "toint":
		got := waconst.ToInt(x.wa)
		if x.exact.IsInt() {
			return sameNumeric("ToInt", fmt.Sprintf("ToInt(%s)", x.wa.ExactString()), got, goconst.ToInt(x.gv), x.exact, true)
		}
		if got.Kind() != waconst.Unknown {
			return "api/ToInt/accepts-fraction", fmt.Sprintf("ToInt(%s) = %s; the value is not an integer", x.wa.ExactString(), got.ExactString())
		}
		return "", ""
	case "tofloat":
		got := waconst.ToFloat(x.wa)
		if got.Kind() != waconst.Float {
			return "api/ToFloat/wrong-kind", fmt.Sprintf("ToFloat(%s) has kind %s", x.wa.ExactString(), kindName(int(got.Kind())))
		}
		return sameNumeric("ToFloat", fmt.Sprintf("ToFloat(%s)", x.wa.ExactString()), got, goconst.ToFloat(x.gv), x.exact, false)
	case "int64val":
		v, exact := waconst.Int64Val(x.wa)
		fits := x.exact.Num().IsInt64()
		if exact != fits || (fits && v != x.exact.Num().Int64()) {
			return "api/Int64Val/exactness", fmt.Sprintf("Int64Val(%s [%s]) = (%d, %v); the value fits int64: %v", x.wa.ExactString(), k.X.Ctor, v, exact, fits)
		}
		return "", ""
	case "uint64val":
		v, exact := waconst.Uint64Val(x.wa)
		fits := x.exact.Num().IsUint64()
		if exact != fits || (fits && v != x.exact.Num().Uint64()) {
			return "api/Uint64Val/exactness", fmt.Sprintf("Uint64Val(%s [%s]) = (%d, %v); the value fits uint64: %v", x.wa.ExactString(), k.X.Ctor, v, exact, fits)
		}
		return "", ""
	case "float64val":
		f, exact := waconst.Float64Val(x.wa)
		wf, wexact := x.exact.Float64()
		if math.Float64bits(f+0) != math.Float64bits(wf+0) { // the sign of a zero result is "the sign of x": not compared
			return "api/Float64Val/wrong-value", fmt.Sprintf("Float64Val(%s [%s]) = %v; nearest float64 is %v", x.wa.ExactString(), k.X.Ctor, f, wf)
		}
		if exact != wexact {
			return "api/Float64Val/exactness", fmt.Sprintf("Float64Val(%s [%s]) = (%v, %v); exactly representable: %v", x.wa.ExactString(), k.X.Ctor, f, exact, wexact)
		}
		return "", ""
	case "float32val":
		f, exact := waconst.Float32Val(x.wa)
		wf, wexact := x.exact.Float32()
		if math.Float32bits(f+0) != math.Float32bits(wf+0) {
			return "api/Float32Val/wrong-value", fmt.Sprintf("Float32Val(%s [%s]) = %v; nearest float32 is %v", x.wa.ExactString(), k.X.Ctor, f, wf)
		}
		if exact != wexact {
			return "api/Float32Val/exactness", fmt.Sprintf("Float32Val(%s [%s]) = (%v, %v); exactly representable: %v", x.wa.ExactString(), k.X.Ctor, f, exact, wexact)
		}
		return "", ""
	case "misc":
		if s := waconst.Sign(x.wa); s != x.exact.Sign() {
			return "api/Sign/wrong-value", fmt.Sprintf("Sign(%s) = %d", x.wa.ExactString(), s)
		}
		if x.isInt {
			if n := waconst.BitLen(x.wa); n != x.exact.Num().BitLen() {
				return "api/BitLen/wrong-value", fmt.Sprintf("BitLen(%s) = %d; want %d", x.wa.ExactString(), n, x.exact.Num().BitLen())
			}
			abs := new(big.Int).Abs(x.exact.Num())
			back := waconst.MakeFromBytes(waconst.Bytes(x.wa))
			if r, ok := ratOf(waconst.Val(back)); !ok || r.Num().Cmp(abs) != 0 || (x.gv.Kind() == goconst.Int && !bytes.Equal(waconst.Bytes(x.wa), goconst.Bytes(x.gv))) {
				return "api/Bytes/round-trip", fmt.Sprintf("MakeFromBytes(Bytes(%s)) = %s", x.wa.ExactString(), back.ExactString())
			}
			if x.wa.ExactString() != x.exact.Num().String() {
				return "api/ExactString/int", fmt.Sprintf("ExactString = %s; value %s", x.wa.ExactString(), x.exact.Num())
			}
		} else {
			n, d := waconst.Num(x.wa), waconst.Denom(x.wa)
			rn, ok1 := ratOf(waconst.Val(n))
			rd, ok2 := ratOf(waconst.Val(d))
			if !ok1 || !ok2 || rn.Num().Cmp(x.exact.Num()) != 0 || rd.Num().Cmp(x.exact.Denom()) != 0 {
				return "api/NumDenom/wrong-value", fmt.Sprintf("Num/Denom(%s) = %s / %s", x.exact.RatString(), n.ExactString(), d.ExactString())
			}
		}
		return "", ""
	}
	return "harness/bad-case", "unknown fn " + k.Fn
}

// ---------------------------------------------------------------- test

var intOps = []string{"+", "-", "*", "/", "/=", "%", "&", "|", "^", "&^"}
var ratOps = []string{"+", "-", "*", "/"}
var cmpOps = []string{"==", "!=", "<", "<=", ">", ">="}

func bigClass(r *big.Rat) string {
	if !r.IsInt() {
		return "fraction"
	}
	n := r.Num()
	switch {
	case n.Sign() == 0:
		return "zero"
	case n.BitLen() > 64:
		return "big"
	case !n.IsInt64():
		return "uint64-only"
	}
	for _, k := range []uint{31, 32, 63} {
		lim := new(big.Int).Lsh(big.NewInt(1), k)
		if d := new(big.Int).Sub(new(big.Int).Abs(n), lim); d.CmpAbs(big.NewInt(2)) <= 0 {
			return "word-limit"
		}
	}
	return "int64"
}

func TestConstantAPI(t *testing.T) {
	s := core.NewStats(prop, "ConstantAPI")
	s.Rule("rapid: one internal/constant call per case — BinaryOp (+ − * / /= % & | ^ &^), UnaryOp (+ − ^ with prec 0/8/16/32/64, !), Shift (count ≤ 700), Compare/CompareSpaceShip, ToInt, ToFloat, Int64Val/Uint64Val/Float64Val/Float32Val (value and exactness flag), MakeFromLiteral (all bases, separators, hex floats), Sign/BitLen/Bytes/Num/Denom — on operands ±2^k±d (k ≤ 600), multi-limb integers, rationals and float64s, built through every constructor; oracle = math/big (go/constant from std as cross-check of the oracle); non-trivial = an operand or the exact result is beyond int64, within 2 of ±2^31/2^32/2^63/2^64, or a non-integer rational")
	s.Assume("math/big is correct; operands stay below the 4096-bit limit where internal/constant switches from exact rationals to 512-bit floats")
	s.Check(t, func(t *rapid.T, c *core.Case) {
		k := apiCase{Kind: "api"}
		k.Fn = rapid.SampledFrom([]string{"binary", "binary", "binary", "unary", "shift", "compare", "toint", "tofloat", "int64val", "uint64val", "float64val", "float32val", "literal", "misc"}).Draw(t, "fn")
		switch k.Fn {
		case "binary":
			if rapid.IntRange(0, 2).Draw(t, "ints") != 0 {
				k.Op = rapid.SampledFrom(intOps).Draw(t, "op")
				k.X, k.Y = genIntOperand().Draw(t, "x"), genIntOperand().Draw(t, "y")
			} else {
				k.Op = rapid.SampledFrom(ratOps).Draw(t, "op")
				k.X, k.Y = genNumOperand().Draw(t, "x"), genNumOperand().Draw(t, "y")
			}
			if k.Op == "/" || k.Op == "/=" || k.Op == "%" {
				if y, err := k.Y.build(); err == nil && y.exact.Sign() == 0 {
					k.Y = operand{"int64", "3"} // division by zero panics by contract: divisor replaced by construction
				}
			}
		case "unary":
			k.Op = rapid.SampledFrom([]string{"-", "+", "^", "!"}).Draw(t, "op")
			switch k.Op {
			case "!":
				k.X = operand{"bool", strconv.FormatBool(rapid.Bool().Draw(t, "b"))}
			case "^":
				k.X = genIntOperand().Draw(t, "x")
				k.N = rapid.SampledFrom([]uint{0, 8, 16, 32, 64}).Draw(t, "prec")
			default:
				k.X = genNumOperand().Draw(t, "x")
			}
		case "shift":
			k.Op = rapid.SampledFrom([]string{"<<", ">>"}).Draw(t, "op")
			k.X = genIntOperand().Draw(t, "x")
			k.N = rapid.SampledFrom([]uint{0, 1, 7, 8, 31, 32, 33, 62, 63, 64, 65, 127, 128, 300, 700}).Draw(t, "count")
			if rapid.Bool().Draw(t, "anycount") {
				k.N = uint(rapid.IntRange(0, 700).Draw(t, "n"))
			}
		case "compare":
			k.Op = rapid.SampledFrom(cmpOps).Draw(t, "op")
			k.X = genNumOperand().Draw(t, "x")
			if rapid.IntRange(0, 2).Draw(t, "equal") == 0 {
				// the same value through another constructor
				x, _ := k.X.build()
				if x.isInt {
					k.Y = operand{"make-int", x.exact.Num().String()}
				} else {
					k.Y = operand{"make-rat", x.exact.String()}
				}
			} else {
				k.Y = genNumOperand().Draw(t, "y")
			}
		case "toint", "tofloat", "float64val", "float32val", "misc":
			k.X = genNumOperand().Draw(t, "x")
			if x, err := k.X.build(); err == nil && (strings.HasSuffix(k.Fn, "val") || k.Fn == "tofloat") && x.exact.IsInt() && x.exact.Num().BitLen() > 500 {
				// integers are converted through the package's 512-bit floats (its
				// documented precision): wider operands are cut down by construction
				n := x.exact.Num()
				k.X = operand{"make-int", new(big.Int).Rsh(n, uint(n.BitLen()-500)).String()}
			}
		case "int64val", "uint64val":
			k.X = genIntOperand().Draw(t, "x")
		case "literal":
			k.X = genLiteral().Draw(t, "lit")
		}
		c.Set(k)
		c.Class("api/" + k.Fn + "/" + k.Op)
		c.Class("ctor/" + k.X.Ctor)
		if key, what := checkAPI(k); key != "" {
			c.Fail(key, "%s", what)
		}
		x, _ := k.X.build()
		nt := false
		if x.exact != nil {
			cl := bigClass(x.exact)
			c.Class("xclass/" + cl)
			nt = cl != "int64" && cl != "zero"
		}
		if k.Y.Ctor != "" && k.Y.Ctor != "bool" {
			if y, err := k.Y.build(); err == nil {
				cl := bigClass(y.exact)
				nt = nt || (cl != "int64" && cl != "zero")
			}
		}
		if nt {
			c.Nontrivial(k.Fn, k.Op, k.X.Ctor, k.X.Text, k.Y.Ctor, k.Y.Text, k.N)
		}
	})
}
