package c15

import (
	"fmt"
	"os"
	"testing"

	"wa-lang.org/wa/zverif/harness/wk"
)

// TestHand is a debugging aid: VERIF_HAND=<file.wa> [VERIF_HAND_OP=run|load]
// sends one hand-written program through the worker and prints the outcome.
func TestHand(t *testing.T) {
	path := os.Getenv("VERIF_HAND")
	if path == "" {
		t.Skip("VERIF_HAND not set")
	}
	src, err := os.ReadFile(path)
	if err != nil {
		t.Fatal(err)
	}
	op := os.Getenv("VERIF_HAND_OP")
	if op == "" {
		op = "run"
	}
	w := wk.New(wk.Options{})
	defer w.Close()
	o := w.Do(op, wk.Src{Name: "p.wa", Src: string(src)})
	for i := 0; i < len(os.Getenv("VERIF_HAND_N")); i++ {
		fmt.Printf("kind=%s cpu=%dms\n", o.Kind, o.CPUms)
		o = w.Do(op, wk.Src{Name: "p.wa", Src: string(src)})
	}
	fmt.Printf("kind=%s err=%q cpu=%dms\n", o.Kind, o.Err, o.CPUms)
	if o.Kind == wk.Exited || o.Kind == wk.Panic {
		fmt.Println(o.String())
	}
	if op == "build" {
		var b struct {
			Wat string `json:"wat"`
		}
		o.Decode(&b)
		os.WriteFile(path+".wat", []byte(b.Wat), 0o644)
		return
	}
	var r wk.RunResult
	if o.Decode(&r) == nil {
		fmt.Printf("stage=%s exit=%d\n%s", r.Stage, r.ExitCode, r.Stdout)
	}
}
