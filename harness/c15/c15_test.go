package c15

import (
	"encoding/json"
	"fmt"
	"math/big"
	"regexp"
	"strings"
	"sync"
	"testing"

	"pgregory.net/rapid"
	"wa-lang.org/wa/internal/ast"
	waconst "wa-lang.org/wa/internal/constant"
	"wa-lang.org/wa/internal/parser"
	"wa-lang.org/wa/internal/token"
	"wa-lang.org/wa/internal/types"
	"wa-lang.org/wa/zverif/harness/core"
	xm "wa-lang.org/wa/zverif/harness/exprmatrix"
	"wa-lang.org/wa/zverif/harness/wk"
)

const prop = "C15"

func TestMain(m *testing.M) { core.Main(m) }

var (
	wkOnce sync.Once
	wkc    *wk.Client
)

// worker returns the single worker client of this test process.
func worker() *wk.Client {
	wkOnce.Do(func() { wkc = wk.New(wk.Options{}) })
	return wkc
}

// ---------------------------------------------------------------- known findings → generator exclusions

// Each confirmed root cause that is not fixed is a key in known_findings.jsonl
// and a predicate on candidate nodes; the generator regenerates matching nodes
// (counted as excluded_by_known) so the search continues behind the finding.
type knownClass struct {
	key   string
	match func(e *xm.Expr) bool
}

func shiftCountAtLeastWidth(op xm.Op) func(e *xm.Expr) bool {
	return func(e *xm.Expr) bool {
		if e.K != xm.KBinary || e.Op != op || e.T.IsUntyped() {
			return false
		}
		if e.Y.T.IsUntyped() {
			k, rej := xm.ConstEval(e.Y)
			return rej == nil && k.AsRat().Cmp(new(big.Rat).SetInt64(int64(e.T.Bits()))) >= 0
		}
		y, err := xm.Eval(e.Y)
		return err == nil && y.U >= uint64(e.T.Bits())
	}
}

func floatToUnsignedHigh(e *xm.Expr) bool {
	if e.K != xm.KConv || !e.T.IsUnsigned() || !e.X.T.IsFloat() || e.X.T.IsUntyped() {
		return false
	}
	x, err := xm.Eval(e.X)
	if err != nil {
		return false
	}
	lim := 0x1p31
	if e.T == xm.U64 {
		lim = 0x1p63
	}
	return e.T.Bits() >= 32 && x.Float64() >= lim
}

var knownClasses = []knownClass{
	{"fold-vs-run/shr/count>=width", shiftCountAtLeastWidth(xm.OpShr)},
	{"fold-vs-run/shl/count>=width", shiftCountAtLeastWidth(xm.OpShl)},
	{"fold-vs-run/conv/float-to-unsigned>=2^(w-1)", floatToUnsignedHigh},
}

// excluder builds the Config.Exclude hook from the keys listed as "known".
func excluder(s *core.Stats) func(e *xm.Expr) bool {
	var active []knownClass
	for _, k := range knownClasses {
		if core.IsKnown(prop, k.key) {
			active = append(active, k)
		}
	}
	if len(active) == 0 {
		return nil
	}
	return func(e *xm.Expr) bool {
		for _, k := range active {
			if k.match(e) {
				s.Counter("excluded_by_known/"+k.key, 1)
				return true
			}
		}
		return false
	}
}

// keyFor names the root cause of a run-time / folding disagreement on a
// (minimised) tree: the known classes first, otherwise operator / type / class
// of the root.
func keyFor(prefix string, e *xm.Expr) string {
	var hit string
	e.Walk(func(x *xm.Expr) {
		for _, k := range knownClasses {
			if hit == "" && k.match(x) {
				hit = k.key
			}
		}
	})
	if hit != "" && prefix == "fold-vs-run" {
		return hit
	}
	cl := "other"
	for _, l := range e.Leaves() {
		if c := xm.Class(*l.Val); xm.IsBoundary(c) {
			cl = c
			break
		}
	}
	opnd := e.T
	if e.K != xm.KLeaf && e.X != nil && !e.X.T.IsUntyped() {
		opnd = e.X.T
	}
	return fmt.Sprintf("%s/%s/%s/%s", prefix, e.Op, opnd, cl)
}

// ---------------------------------------------------------------- (2)+(1a) in-process: type checker verdict and folded value

type typesCase struct {
	Kind string       `json:"kind"` // "types"
	D    xm.ConstDecl `json:"d"`
}

var rejectRe = regexp.MustCompile(`overflows|truncated|cannot convert|cannot use .* as .* value in`)

// waCheck type-checks a constants-only Wa file in-process and returns the first
// error and the declared constants.
func waCheck(src string) (*types.Package, error) {
	fset := token.NewFileSet()
	f, err := parser.ParseFile(nil, fset, "p.wa", src, 0)
	if err != nil {
		return nil, fmt.Errorf("parse: %v", err)
	}
	if f.Name.Name == "" {
		f.Name.Name = "main"
	}
	conf := types.Config{Sizes: types.SizesFor("wasm")}
	return conf.Check("main", fset, []*ast.File{f}, &types.Info{})
}

func declSource(d xm.ConstDecl) string {
	xm.Number(0, d.E)
	var b strings.Builder
	for _, c := range xm.WaDecls([]*xm.Expr{d.E}, false, true).Consts {
		b.WriteString(c + "\n")
	}
	b.WriteString(d.Wa(0) + "\n")
	return b.String()
}

// sameConst compares a Wa constant value with the exact one.
func sameConst(v waconst.Value, c xm.Const) bool {
	switch {
	case c.T.IsBool():
		return v.Kind() == waconst.Bool && waconst.BoolVal(v) == c.Bool
	case c.T.IsInteger():
		return v.Kind() == waconst.Int && v.ExactString() == c.Int.String()
	}
	if v.Kind() != waconst.Float && v.Kind() != waconst.Int {
		return false
	}
	r, ok := ratOf(waconst.Val(v))
	return ok && r.Cmp(c.Rat) == 0
}

// oracleAgrees cross-checks the exact evaluator with go/types; a disagreement
// is a harness defect (inconclusive), never a violation.
func oracleAgrees(d xm.ConstDecl, c xm.Const, rej *xm.Reject) error {
	gv, err := xm.GoTypes([]xm.ConstDecl{d})
	if err != nil {
		return err
	}
	g := gv[0]
	if g.OK != (rej == nil) {
		return fmt.Errorf("exact evaluator (%v) and go/types (ok=%v %s) disagree on %s", rej, g.OK, g.Err, d.Go(0))
	}
	if rej != nil {
		return nil
	}
	ok := true
	switch {
	case c.T.IsBool():
		ok = g.Kind == "bool" && g.Bool == c.Bool
	case c.T.IsInteger():
		ok = g.Kind == "int" && g.Int.Cmp(c.Int) == 0
	default:
		ok = g.Kind == "float" && (g.Rat == nil || g.Rat.Cmp(c.Rat) == 0)
	}
	if !ok {
		return fmt.Errorf("exact evaluator (%v) and go/constant (%s) disagree on the value of %s", c, g.Exact, d.Go(0))
	}
	return nil
}

func declOps(d xm.ConstDecl) int {
	if d.Typed {
		return 1
	}
	return 0
}

// checkTypes: the in-process type checker accepts the declaration iff the exact
// value is representable, and records exactly that value.
func checkTypes(d xm.ConstDecl) (key, what string) {
	if err := d.E.Check(); err != nil {
		return "harness/ill-typed", err.Error()
	}
	c, rej := d.Exact()
	if rej != nil && !rej.Representability() {
		return "harness/outside-domain", rej.Error()
	}
	src := declSource(d)
	pkg, err := waCheck(src)
	tn := d.ResultType().String()
	switch {
	case rej != nil && err == nil:
		val := "?"
		if k, ok := pkg.Scope().Lookup("c0").(*types.Const); ok {
			val = k.Val().ExactString()
		}
		return "accept/accepts-unrepresentable/" + rej.Kind + "/" + tn, fmt.Sprintf("%s is accepted (value recorded: %s), but %s", d.Wa(0), val, rej.Detail)
	case rej != nil:
		if !rejectRe.MatchString(err.Error()) {
			return "reject/unexpected-diagnostic/" + tn, fmt.Sprintf("%s must be rejected because %s; it is rejected with: %v", d.Wa(0), rej.Detail, err)
		}
		return "", ""
	case err != nil:
		return "accept/rejects-representable/" + tn, fmt.Sprintf("%s is rejected (%v), but its exact value %s is representable", d.Wa(0), err, c)
	}
	k, ok := pkg.Scope().Lookup("c0").(*types.Const)
	if !ok {
		return "harness/no-const", "c0 not declared by " + src
	}
	if got := k.Type().String(); got != tn {
		return "fold/wrong-type/" + tn, fmt.Sprintf("%s has type %s, expected %s", d.Wa(0), got, tn)
	}
	if !sameConst(k.Val(), c) {
		return "fold/wrong-value/" + tn + "/" + xm.ConstClass(c), fmt.Sprintf("%s folds to %s; exact value %s", d.Wa(0), k.Val().ExactString(), c)
	}
	return "", ""
}

func declConfig() xm.Config { return xm.Config{Untyped: true, LeafModes: true, MaxDepth: 3} }

func classesOfDecl(c *core.Case, d xm.ConstDecl, rej *xm.Reject, k xm.Const) {
	if rej != nil {
		c.Class("dir/reject/" + rej.Kind + "/" + d.ResultType().String())
	} else {
		c.Class("dir/accept/" + d.ResultType().String() + "/" + xm.ConstClass(k))
	}
	classesOfTree(c, d.E)
}

func classesOfTree(c interface{ Class(string) }, e *xm.Expr) {
	e.Walk(func(x *xm.Expr) {
		if x.K == xm.KLeaf {
			if x.Val != nil {
				c.Class("operand/" + x.T.String() + "/" + xm.Class(*x.Val))
			}
			return
		}
		t := x.T
		if x.X != nil && !x.X.T.IsUntyped() && (x.Op.IsComparison() || x.Op == xm.OpConv) {
			t = x.X.T
		}
		if x.Op == xm.OpConv {
			c.Class("op/conv/" + t.String() + "->" + x.T.String())
		} else {
			c.Class("op/" + x.Op.String() + "/" + t.String())
		}
	})
}

func TestTypesFold(t *testing.T) {
	s := core.NewStats(prop, "TypesFold")
	s.Rule("rapid: one constant declaration `const c: T = e` / `const c = T(e)` / `const c = e` per case — e a typed tree (literal conversions, named typed constants, bare literals; may overflow inside), an untyped int/float/bool tree, or a limit probe at distance ≤2 of Min/Max of T (floats: around the round-to-infinity threshold) — type-checked in-process by internal/types with the wasm sizes; oracle = exact evaluator on math/big (accept ⇔ representable after every typed operation; recorded constant value == exact value; type as declared), cross-checked against go/types+go/constant on the Go rendering; non-trivial = ≥2 operators (the target conversion counts) and an operand or the result in a boundary class")
	s.Assume("the harness exact evaluator (exprmatrix.ConstEval) — every case is cross-checked against go/types on the equivalent Go text; a disagreement aborts as inconclusive")
	cfg := declConfig()
	s.Check(t, func(t *rapid.T, c *core.Case) {
		d := cfg.ConstDecl().Draw(t, "decl")
		c.Set(typesCase{"types", d})
		k, rej := d.Exact()
		classesOfDecl(c, d, rej, k)
		if err := oracleAgrees(d, k, rej); err != nil {
			t.Fatalf("HARNESS: %v", err)
		}
		if key, what := checkTypes(d); key != "" {
			if strings.HasPrefix(key, "harness/") {
				t.Fatalf("HARNESS: %s: %s", key, what)
			}
			c.Fail(key, "%s", what)
		}
		if xm.NonTrivial(d.E, declOps(d)) || (rej != nil && d.E.Ops()+declOps(d) >= 2) {
			c.Nontrivial(d.Wa(0))
		}
	})
}

// ---------------------------------------------------------------- (1) worker: folded vs run-time vs native

// item is one expression of a batch program.
type item struct {
	// Tree: a typed, constant-valid tree printed twice (constant form and
	// operand form).  Decl: a constant declaration printed once (fold only).
	E    *xm.Expr      `json:"e,omitempty"`
	Form int           `json:"form,omitempty"` // constant form of a tree: 0 inline, 1 `const c = e`, 2 `const c: T = e`
	D    *xm.ConstDecl `json:"d,omitempty"`
}

type runCase struct {
	Kind  string `json:"kind"` // "run"
	Items []item `json:"items"`
}

func (it item) expr() *xm.Expr {
	if it.D != nil {
		return it.D.E
	}
	return it.E
}

// program renders a batch and the expected output lines (tag → text).
func program(items []item) (src string, want map[int]string) {
	var treeExprs, declExprs []*xm.Expr
	for _, it := range items {
		if it.D != nil {
			declExprs = append(declExprs, it.D.E)
		} else {
			treeExprs = append(treeExprs, it.E)
		}
	}
	next := xm.Number(0, treeExprs...)
	xm.Number(next, declExprs...)
	td := xm.WaDecls(treeExprs, true, true)
	dd := xm.WaDecls(declExprs, false, true)
	var b strings.Builder
	if td.NeedMath {
		b.WriteString("import \"math\"\n\n")
	}
	for _, l := range td.Globals {
		b.WriteString(l + "\n")
	}
	for _, l := range append(td.Consts, dd.Consts...) {
		b.WriteString(l + "\n")
	}
	want = map[int]string{}
	var body []string
	for i, it := range items {
		if it.D != nil {
			b.WriteString(it.D.Wa(i) + "\n")
			k, _ := it.D.Exact()
			want[2*i] = constPrint(k)
			body = append(body, fmt.Sprintf("\tprintln(%d, c%d)", 2*i, i))
			continue
		}
		k, _ := xm.ConstEval(it.E)
		want[2*i] = constPrint(k)
		cs := it.E.Wa(xm.AsConstants)
		switch {
		case it.Form == 1 || (it.Form == 2 && it.E.T.IsUntyped()):
			fmt.Fprintf(&b, "const c%d = %s\n", i, cs)
			cs = fmt.Sprintf("c%d", i)
		case it.Form == 2:
			fmt.Fprintf(&b, "const c%d: %s = %s\n", i, it.E.T, cs)
			cs = fmt.Sprintf("c%d", i)
		}
		body = append(body, fmt.Sprintf("\tprintln(%d, %s)", 2*i, cs))
		v, _ := xm.Eval(it.E)
		want[2*i+1] = v.WaPrint()
		body = append(body, fmt.Sprintf("\tprintln(%d, %s)", 2*i+1, it.E.Wa(xm.AsOperands)))
	}
	// bodies are split over several functions to keep each function small
	const per = 40
	nf := (len(body) + per - 1) / per
	for f := 0; f < nf; f++ {
		fmt.Fprintf(&b, "\nfunc part%d {\n", f)
		hi := (f + 1) * per
		if hi > len(body) {
			hi = len(body)
		}
		b.WriteString(strings.Join(body[f*per:hi], "\n") + "\n}\n")
	}
	b.WriteString("\nfunc main {\n")
	for _, l := range td.Init {
		b.WriteString("\t" + l + "\n")
	}
	for f := 0; f < nf; f++ {
		fmt.Fprintf(&b, "\tpart%d()\n", f)
	}
	b.WriteString("}\n")
	return b.String(), want
}

// constPrint is what println prints for a typed (or untyped bool) constant.
func constPrint(k xm.Const) string {
	switch k.T {
	case xm.UntypedBool:
		return fmt.Sprint(k.Bool)
	case xm.UntypedInt, xm.UntypedFloat:
		return "untyped:" + k.String()
	}
	return k.Value().WaPrint()
}

// verdict of one batch run.
type batchResult struct {
	inconclusive string         // worker killed / timed out
	buildErr     string         // the program did not build (constant forms are valid by construction)
	runErr       string         // trap / exit while running
	got          map[int]string // tag → printed text
}

func runBatch(items []item) (batchResult, string) {
	src, _ := program(items)
	o := worker().Do("run", wk.Src{Name: "p.wa", Src: src})
	var res batchResult
	var r wk.RunResult
	o.Decode(&r)
	res.got = map[int]string{}
	for _, line := range strings.Split(r.Stdout, "\n") {
		var tag int
		if i := strings.IndexByte(line, ' '); i > 0 {
			if _, err := fmt.Sscanf(line[:i], "%d", &tag); err == nil {
				if _, dup := res.got[tag]; !dup {
					res.got[tag] = line[i+1:]
				}
			}
		}
	}
	switch o.Kind {
	case wk.OK:
	case wk.Killed, wk.Timeout:
		res.inconclusive = o.String()
	case wk.Error:
		if r.Stage == "run" {
			res.runErr = o.Err
		} else {
			res.buildErr = r.Stage + ": " + o.Err
		}
	default: // panic / exited inside the compiler
		res.buildErr = o.String()
	}
	return res, src
}

// failure describes the first disagreement of a batch.
type failure struct {
	idx       int    // item index
	side      string // fold | run | both | build | trap
	got, want string
}

func firstFailure(items []item, res batchResult) *failure {
	_, want := program(items)
	if res.buildErr != "" {
		return &failure{idx: -1, side: "build", got: res.buildErr}
	}
	for i := range items {
		wf, wr := want[2*i], want[2*i+1]
		gf, okf := res.got[2*i]
		gr, okr := res.got[2*i+1]
		hasRun := items[i].D == nil
		if !okf || (hasRun && !okr) {
			return &failure{idx: i, side: "trap", got: res.runErr, want: wf}
		}
		badF, badR := gf != wf, hasRun && gr != wr
		switch {
		case badF && badR:
			return &failure{idx: i, side: "both", got: gf + " / " + gr, want: wf + " / " + wr}
		case badF:
			return &failure{idx: i, side: "fold", got: gf, want: wf}
		case badR:
			return &failure{idx: i, side: "run", got: gr, want: wr}
		}
	}
	if res.runErr != "" {
		return &failure{idx: -1, side: "trap", got: res.runErr}
	}
	return nil
}

// isolate bisects a failing batch down to one item (nil if the failure does not
// reproduce on any single item: then it depends on the combination).
func isolate(items []item, budget *int) *item {
	if len(items) == 1 {
		return &items[0]
	}
	for _, half := range [][]item{items[:len(items)/2], items[len(items)/2:]} {
		if *budget <= 0 {
			return nil
		}
		*budget--
		res, _ := runBatch(half)
		if res.inconclusive != "" {
			return nil
		}
		if firstFailure(half, res) != nil {
			return isolate(half, budget)
		}
	}
	return nil
}

// shrinkTree reduces a failing tree item: failing sub-trees first, then operands
// replaced by leaves holding their value.
func shrinkTree(it item, budget *int) item {
	fails := func(e *xm.Expr) bool {
		if *budget <= 0 || e.T == xm.UntypedInt || e.T == xm.UntypedFloat || e.K == xm.KLeaf {
			return false
		}
		if _, err := xm.Eval(e); err != nil {
			return false
		}
		if _, rej := xm.ConstEval(e); rej != nil {
			return false
		}
		*budget--
		cand := []item{{E: e, Form: it.Form}}
		res, _ := runBatch(cand)
		return res.inconclusive == "" && firstFailure(cand, res) != nil
	}
	cur := it.E
	for changed := true; changed; {
		changed = false
		for _, sub := range []*xm.Expr{cur.X, cur.Y} {
			if sub != nil && fails(sub) {
				cur, changed = sub, true
				break
			}
		}
		if changed {
			continue
		}
		for _, side := range []int{0, 1} {
			sub := cur.X
			if side == 1 {
				sub = cur.Y
			}
			if sub == nil || sub.K == xm.KLeaf || sub.T.IsUntyped() {
				continue
			}
			v, err := xm.Eval(sub)
			if err != nil || !v.Constable() {
				continue
			}
			c := *cur
			if side == 0 {
				c.X = xm.Leaf(v)
			} else {
				c.Y = xm.Leaf(v)
			}
			if fails(&c) {
				cur, changed = &c, true
				break
			}
		}
	}
	return item{E: cur, Form: it.Form}
}

// checkRun runs a batch and, on a disagreement, reduces it to a single
// (minimised) expression.  It returns the violation key ("" = holds), a
// description, the reduced payload and an inconclusive reason.
func checkRun(items []item, reduce bool) (key, what string, reduced []item, inconclusive string) {
	res, src := runBatch(items)
	if res.inconclusive != "" {
		return "", "", nil, res.inconclusive
	}
	f := firstFailure(items, res)
	if f == nil {
		return "", "", nil, ""
	}
	reduced = items
	if reduce && len(items) > 1 {
		budget := 40
		var one *item
		if f.idx >= 0 && f.side != "trap" {
			// try the reported item alone first
			budget--
			r1, _ := runBatch(items[f.idx : f.idx+1])
			if r1.inconclusive == "" && firstFailure(items[f.idx:f.idx+1], r1) != nil {
				one = &items[f.idx]
			}
		}
		if one == nil {
			one = isolate(items, &budget)
		}
		if one != nil {
			it := *one
			if it.D == nil {
				b := 25
				it = shrinkTree(it, &b)
			}
			reduced = []item{it}
			res, src = runBatch(reduced)
			if res.inconclusive != "" {
				return "", "", nil, res.inconclusive
			}
			if f = firstFailure(reduced, res); f == nil {
				return "harness/flaky-reduction", "the reduced program no longer fails:\n" + src, reduced, ""
			}
		}
	}
	var e *xm.Expr
	desc := "batch of " + fmt.Sprint(len(reduced)) + " expressions"
	if f.idx >= 0 {
		e = reduced[f.idx].expr()
		if reduced[f.idx].D != nil {
			desc = reduced[f.idx].D.Wa(f.idx)
		} else {
			desc = e.Wa(xm.AsConstants)
		}
	}
	if len(reduced) > 1 {
		src = "(program of " + fmt.Sprint(len(reduced)) + " expressions omitted)"
	}
	switch f.side {
	case "build":
		k := "accept/valid-program-does-not-build"
		if len(reduced) == 1 {
			k = keyFor("build", reduced[0].expr())
		}
		return k, fmt.Sprintf("a program of valid constant expressions does not build: %s\n%s", f.got, src), reduced, ""
	case "trap":
		k := "fold-vs-run/trap"
		if e != nil {
			k = keyFor("fold-vs-run", e)
		}
		return k, fmt.Sprintf("%s: the run-time evaluation stops with %q (expected value %s); the constant form folds fine\n%s", desc, f.got, f.want, src), reduced, ""
	case "fold":
		return keyFor("fold", e), fmt.Sprintf("%s: the folded constant prints %s; exact value (== native evaluation == run-time value) is %s\n%s", desc, f.got, f.want, src), reduced, ""
	case "run":
		return keyFor("fold-vs-run", e), fmt.Sprintf("%s: folded constant %s (== exact), but the same expression over globals %s evaluates to %s at run time (Go semantics: %s)\n%s",
			desc, res.got[2*f.idx], e.Wa(xm.AsOperands), f.got, f.want, src), reduced, ""
	}
	return keyFor("both-vs-exact", e), fmt.Sprintf("%s: folded / run-time print %s; exact / native values are %s\n%s", desc, f.got, f.want, src), reduced, ""
}

func treeConfig(s *core.Stats) xm.Config {
	return xm.Config{ConstValid: true, Untyped: true, LeafModes: true, Pins: true, MaxDepth: 3, Exclude: excluder(s)}
}

func genItem(cfg, dcfg xm.Config) *rapid.Generator[item] {
	return rapid.Custom(func(t *rapid.T) item {
		if rapid.IntRange(0, 4).Draw(t, "itemkind") == 0 {
			for attempt := 0; attempt < 6; attempt++ {
				d := dcfg.ConstDecl().Draw(t, "decl")
				if _, rej := d.Exact(); rej != nil {
					continue
				}
				if rt := d.ResultType(); rt == xm.UntypedInt || rt == xm.UntypedFloat {
					continue
				}
				return item{D: &d}
			}
		}
		e := cfg.AnyTree().Draw(t, "tree")
		return item{E: e, Form: rapid.IntRange(0, 2).Draw(t, "form")}
	})
}

func TestFoldVsRun(t *testing.T) {
	s := core.NewStats(prop, "FoldVsRun")
	s.Rule("rapid: one Wa program per case with N≈100 expressions (quick; 160 thorough) — typed constant-valid trees over the eleven scalar types printed twice, as a constant expression (literal conversions / named typed constants / bare literals; inline, `const c = e` or `const c: T = e`) and over package-level globals holding the same values (partial folding through pinned leaves and untyped sub-trees), plus constant declarations with untyped arithmetic printed once; compiled and run through the worker (api.BuildFile + wat2wasm + wazero); oracle = printed folded value == exact value (math/big), printed run-time value == native Go evaluation (±0 compare equal between the two sides because constants have no −0); a failing batch is bisected to one expression and the tree is shrunk before reporting; non-trivial = expression with ≥2 operators and an operand or result in a boundary class; evaluations count expressions")
	s.Assume("wazero executes the module faithfully; Wa's println host functions print with fmt.Fprint")
	cfg, dcfg := treeConfig(s), declConfig()
	n := core.Scale(100, 160)
	s.Check(t, func(t *rapid.T, c *core.Case) {
		items := rapid.SliceOfN(genItem(cfg, dcfg), n, n).Draw(t, "items")
		c.Set(runCase{"run", items})
		key, what, reduced, inc := checkRun(items, true)
		if inc != "" {
			s.Counter("inconclusive/worker", 1)
			t.Skip("worker inconclusive: " + inc)
		}
		if key != "" {
			c.Set(runCase{"run", reduced})
			if strings.HasPrefix(key, "harness/") {
				t.Fatalf("HARNESS: %s: %s", key, what)
			}
			c.Fail(key, "%s", what)
		}
		s.Eval(int64(len(items)) - 1)
		for _, it := range items {
			if it.D != nil {
				k, _ := it.D.Exact()
				c.Class("fold-only/" + it.D.ResultType().String() + "/" + xm.ConstClass(k))
				classesOfTree(c, it.D.E)
				if xm.NonTrivial(it.D.E, declOps(*it.D)) {
					s.Nontrivial(core.Hash64("decl", it.D.Wa(0)))
				}
				continue
			}
			c.Class(fmt.Sprintf("form/%d", it.Form))
			classesOfTree(c, it.E)
			if xm.NonTrivial(it.E, 0) {
				s.Nontrivial(core.Hash64("tree", it.E.Wa(xm.AsConstants)))
				if it.E.Ops() >= 3 {
					s.Sample(runCase{"run", []item{it}})
				}
			}
		}
	})
}

// ---------------------------------------------------------------- (2) worker: the loader accepts / rejects

type loadCase struct {
	Kind  string         `json:"kind"` // "load"
	Decls []xm.ConstDecl `json:"decls"`
}

func loadSource(ds []xm.ConstDecl) string {
	exprs := make([]*xm.Expr, len(ds))
	for i, d := range ds {
		exprs[i] = d.E
	}
	xm.Number(0, exprs...)
	var b strings.Builder
	for _, c := range xm.WaDecls(exprs, false, true).Consts {
		b.WriteString(c + "\n")
	}
	for i, d := range ds {
		b.WriteString(d.Wa(i) + "\n")
	}
	b.WriteString("\nfunc main {\n}\n")
	return b.String()
}

// load returns "" when the program loads, the diagnostic otherwise;
// inconclusive is set when the worker was killed.
func load(src string) (diag string, inconclusive string) {
	o := worker().Do("load", wk.Src{Name: "p.wa", Src: src})
	switch o.Kind {
	case wk.OK:
		return "", ""
	case wk.Error:
		return o.Err, ""
	case wk.Killed, wk.Timeout:
		return "", o.String()
	}
	return "loader crashed: " + o.String(), ""
}

// checkLoad: a program of representable constants must load; a program with one
// unrepresentable constant must be rejected with a representability diagnostic.
func checkLoad(ds []xm.ConstDecl) (key, what string, reduced []xm.ConstDecl, inconclusive string) {
	var valid []xm.ConstDecl
	for _, d := range ds {
		_, rej := d.Exact()
		if rej == nil {
			valid = append(valid, d)
			continue
		}
		src := loadSource([]xm.ConstDecl{d})
		diag, inc := load(src)
		tn := d.ResultType().String()
		switch {
		case inc != "":
			return "", "", nil, inc
		case diag == "":
			return "load/accepts-unrepresentable/" + rej.Kind + "/" + tn, fmt.Sprintf("the loader accepts %s although %s\n%s", d.Wa(0), rej.Detail, src), []xm.ConstDecl{d}, ""
		case !rejectRe.MatchString(diag):
			return "load/unexpected-diagnostic/" + tn, fmt.Sprintf("%s must be rejected because %s; the loader says: %s\n%s", d.Wa(0), rej.Detail, diag, src), []xm.ConstDecl{d}, ""
		}
	}
	for len(valid) > 0 {
		src := loadSource(valid)
		diag, inc := load(src)
		if inc != "" {
			return "", "", nil, inc
		}
		if diag == "" {
			return "", "", nil, ""
		}
		if len(valid) == 1 {
			k, _ := valid[0].Exact()
			return "load/rejects-representable/" + valid[0].ResultType().String(), fmt.Sprintf("the loader rejects %s (%s); its exact value %s is representable\n%s", valid[0].Wa(0), diag, k, src), valid, ""
		}
		// bisect: keep the half that still fails
		a, b := valid[:len(valid)/2], valid[len(valid)/2:]
		da, inc := load(loadSource(a))
		if inc != "" {
			return "", "", nil, inc
		}
		if da != "" {
			valid = a
		} else {
			valid = b
		}
	}
	return "", "", nil, ""
}

func TestAcceptRejectLoad(t *testing.T) {
	s := core.NewStats(prop, "AcceptRejectLoad")
	s.Rule("rapid: M=24 constant declarations per case (same generator as TypesFold); every declaration whose exact value is representable goes into one program that loader.LoadProgramFile must accept (bisected to one declaration on failure); every unrepresentable one gets a program of its own that must be rejected with an overflow / truncation / cannot-convert diagnostic; oracle = exact evaluator (math/big) cross-checked with go/types; non-trivial as in TypesFold; evaluations count declarations")
	cfg := declConfig()
	m := core.Scale(24, 40)
	s.Check(t, func(t *rapid.T, c *core.Case) {
		ds := rapid.SliceOfN(cfg.ConstDecl(), m, m).Draw(t, "decls")
		c.Set(loadCase{"load", ds})
		for _, d := range ds {
			k, rej := d.Exact()
			if err := oracleAgrees(d, k, rej); err != nil {
				t.Fatalf("HARNESS: %v", err)
			}
		}
		key, what, reduced, inc := checkLoad(ds)
		if inc != "" {
			s.Counter("inconclusive/worker", 1)
			t.Skip("worker inconclusive: " + inc)
		}
		if key != "" {
			c.Set(loadCase{"load", reduced})
			c.Fail(key, "%s", what)
		}
		s.Eval(int64(len(ds)) - 1)
		for _, d := range ds {
			k, rej := d.Exact()
			classesOfDecl(c, d, rej, k)
			if xm.NonTrivial(d.E, declOps(d)) || (rej != nil && d.E.Ops()+declOps(d) >= 2) {
				s.Nontrivial(core.Hash64("load", d.Wa(0)))
			}
		}
	})
}

// ---------------------------------------------------------------- replay

func replay(test string, raw json.RawMessage) (string, string) {
	var head struct {
		Kind string `json:"kind"`
	}
	if err := json.Unmarshal(raw, &head); err != nil {
		return "harness/bad-replay", err.Error()
	}
	switch head.Kind {
	case "api":
		var k apiCase
		if err := json.Unmarshal(raw, &k); err != nil {
			return "harness/bad-replay", err.Error()
		}
		return checkAPI(k)
	case "types":
		var k typesCase
		if err := json.Unmarshal(raw, &k); err != nil {
			return "harness/bad-replay", err.Error()
		}
		return checkTypes(k.D)
	case "run":
		var k runCase
		if err := json.Unmarshal(raw, &k); err != nil {
			return "harness/bad-replay", err.Error()
		}
		key, what, _, inc := checkRun(k.Items, false)
		if inc != "" {
			return "", ""
		}
		return key, what
	case "load":
		var k loadCase
		if err := json.Unmarshal(raw, &k); err != nil {
			return "harness/bad-replay", err.Error()
		}
		key, what, _, inc := checkLoad(k.Decls)
		if inc != "" {
			return "", ""
		}
		return key, what
	}
	return "harness/bad-replay", "unknown case kind " + head.Kind
}

func TestReplay(t *testing.T) { core.RunReplays(t, prop, replay) }
