// Package c21 checks property C21 (language-server document sync).
//
// model.go is the *client* side: a text editor's view of a document, written
// from the LSP specification and independently of the server's mapper.  A
// document is an array of UTF-16 code units; a line ends after each '\n';
// a position is (line, UTF-16 offset inside the line).
package c21

import (
	"unicode/utf16"
)

func toUnits(s string) []uint16 { return utf16.Encode([]rune(s)) }
func toText(u []uint16) string   { return string(utf16.Decode(u)) }

func isHigh(c uint16) bool { return c >= 0xD800 && c <= 0xDBFF }
func isLow(c uint16) bool  { return c >= 0xDC00 && c <= 0xDFFF }

// lineStarts returns the unit index at which each line starts.
func lineStarts(u []uint16) []int {
	ls := []int{0}
	for i, c := range u {
		if c == '\n' {
			ls = append(ls, i+1)
		}
	}
	return ls
}

// lineBounds: lo = first unit, contentEnd = end of the visible text (before a
// CR LF or LF terminator), lineEnd = index of the '\n' (or len(u) on the last line).
func lineBounds(u []uint16, ls []int, line int) (lo, contentEnd, lineEnd int, crlf bool) {
	lo = ls[line]
	lineEnd = len(u)
	hasNL := line+1 < len(ls)
	if hasNL {
		lineEnd = ls[line+1] - 1
	}
	contentEnd = lineEnd
	if hasNL && lineEnd > lo && u[lineEnd-1] == '\r' {
		crlf = true
		contentEnd--
	}
	return
}

// A change as the client sends it. Range == nil means "text is the whole document".
type chg struct {
	Range       *[4]uint32 `json:"range,omitempty"` // startLine, startChar, endLine, endChar
	RangeLength uint32     `json:"rangeLength,omitempty"`
	Text        string     `json:"text"`
}

// posKind classifies a position against a document.
type posKind int

const (
	posExact           posKind = iota // a caret position of the document: one meaning
	posLineBeyond                     // line > number of lines: invalid, must be rejected
	posLineEqCount                    // line == number of lines: the mapper documents "EOF"; rejecting is fine too
	posPastEOL                        // column beyond the end of the line: LSP 3.17 clamps, the mapper documents an error
	posBetweenCRLF                    // between CR and LF: not a caret position of an LSP client; literal, clamped or rejected
	posInsideSurrogate                // between the two halves of a surrogate pair: snapped either way or rejected
)

var posKindName = map[posKind]string{posExact: "exact", posLineBeyond: "line-beyond", posLineEqCount: "line-eq-count",
	posPastEOL: "col-past-eol", posBetweenCRLF: "between-cr-lf", posInsideSurrogate: "inside-surrogate"}

// posVariants returns the unit indexes a server may take the position to
// mean.  For posExact there is exactly one.  For posLineBeyond there is none.
func posVariants(u []uint16, ls []int, line, char uint32) ([]int, posKind) {
	L := len(ls)
	if uint64(line) > uint64(L) {
		return nil, posLineBeyond
	}
	if int(line) == L {
		return []int{len(u)}, posLineEqCount
	}
	lo, contentEnd, lineEnd, crlf := lineBounds(u, ls, int(line))
	i64 := int64(lo) + int64(char)
	if i64 <= int64(contentEnd) {
		i := int(i64)
		if i > lo && i < len(u) && isLow(u[i]) && isHigh(u[i-1]) {
			return []int{i - 1, i + 1}, posInsideSurrogate
		}
		return []int{i}, posExact
	}
	if crlf && i64 == int64(lineEnd) {
		return []int{lineEnd, contentEnd}, posBetweenCRLF
	}
	if contentEnd == lineEnd {
		return []int{contentEnd}, posPastEOL
	}
	return []int{contentEnd, lineEnd}, posPastEOL
}

// expectation is what the property allows after one didChange notification.
type expectation struct {
	cands    [][]uint16 // documents the server may hold if it accepts the notification
	mayErr   bool       // rejecting the notification (keeping the old text) is acceptable
	why      string     // when cands is empty: the rule that makes the notification invalid
	lenient  string     // the first lenient class met ("" if every position was exact)
	exactAll bool       // every change had an exact, ordered range (or was a lone full replacement)
}

const maxCands = 64

// expect computes the acceptable outcomes of a notification on document pre.
func expect(pre []uint16, changes []chg) expectation {
	if len(changes) == 0 {
		// LSP allows an empty array (no change); the server documents an error. Either way the text stays.
		return expectation{cands: [][]uint16{pre}, mayErr: true, lenient: "empty-changes"}
	}
	if len(changes) == 1 && changes[0].Range == nil {
		return expectation{cands: [][]uint16{toUnits(changes[0].Text)}, exactAll: true}
	}
	ex := expectation{exactAll: true}
	cur := [][]uint16{pre}
	for _, ch := range changes {
		var next [][]uint16
		for _, c := range cur {
			if ch.Range == nil {
				// a whole-document change inside a multi-change notification: the
				// specification allows it, the server documents an error
				ex.mayErr, ex.exactAll = true, false
				if ex.lenient == "" {
					ex.lenient = "full-inside-multi"
				}
				next = append(next, toUnits(ch.Text))
				continue
			}
			ls := lineStarts(c)
			sv, sk := posVariants(c, ls, ch.Range[0], ch.Range[1])
			ev, ek := posVariants(c, ls, ch.Range[2], ch.Range[3])
			if sk == posLineBeyond || ek == posLineBeyond {
				ex.exactAll = false
				if ex.why == "" {
					ex.why = "line-beyond"
				}
				continue
			}
			for _, k := range []posKind{sk, ek} {
				if k != posExact {
					ex.mayErr, ex.exactAll = true, false
					if ex.lenient == "" {
						ex.lenient = posKindName[k]
					}
				}
			}
			ins := toUnits(ch.Text)
			for _, s := range sv {
				for _, e := range ev {
					if e < s {
						if sk == posExact && ek == posExact {
							ex.exactAll = false
							if ex.why == "" {
								ex.why = "end-before-start"
							}
						}
						continue
					}
					d := make([]uint16, 0, len(c)-(e-s)+len(ins))
					d = append(d, c[:s]...)
					d = append(d, ins...)
					d = append(d, c[e:]...)
					next = append(next, d)
				}
			}
		}
		cur = dedupe(next)
		if len(cur) > maxCands {
			cur = cur[:maxCands]
		}
		if len(cur) == 0 {
			break
		}
	}
	ex.cands = cur
	if len(cur) > 0 {
		ex.why = ""
	} else if ex.why == "" {
		ex.why = "no-consistent-reading"
	}
	return ex
}

func dedupe(in [][]uint16) [][]uint16 {
	var out [][]uint16
	for _, d := range in {
		dup := false
		for _, o := range out {
			if equalUnits(o, d) {
				dup = true
				break
			}
		}
		if !dup {
			out = append(out, d)
		}
	}
	return out
}

func equalUnits(a, b []uint16) bool {
	if len(a) != len(b) {
		return false
	}
	for i := range a {
		if a[i] != b[i] {
			return false
		}
	}
	return true
}

// hasLoneCR: a CR not followed by LF.  The property speaks of CRLF/LF mixes;
// documents that acquire a lone CR (only possible through the between-CR-LF
// class) are resynchronised before the history goes on.
func hasLoneCR(u []uint16) bool {
	for i, c := range u {
		if c == '\r' && (i+1 >= len(u) || u[i+1] != '\n') {
			return true
		}
	}
	return false
}

// feature describes what makes a valid position interesting.
type posFeat struct {
	astralBefore, nonASCIIBefore, atEOL, atEOF, crlfLine bool
}

func featuresAt(u []uint16, ls []int, line, char uint32) posFeat {
	var f posFeat
	if int(line) >= len(ls) {
		return f
	}
	lo, contentEnd, _, crlf := lineBounds(u, ls, int(line))
	i := lo + int(char)
	if i > len(u) {
		i = len(u)
	}
	for _, c := range u[lo:i] {
		if isHigh(c) {
			f.astralBefore = true
		}
		if c >= 0x80 {
			f.nonASCIIBefore = true
		}
	}
	f.atEOL = i == contentEnd
	f.atEOF = i == len(u)
	f.crlfLine = crlf
	return f
}
