package c21

import (
	"context"
	"encoding/json"
	"fmt"
	"os"
	"path/filepath"
	"reflect"
	"strings"
	"sync"
	"testing"

	"pgregory.net/rapid"
	"wa-lang.org/wa/internal/lsp"
	"wa-lang.org/wa/internal/lsp/protocol"
	"wa-lang.org/wa/zverif/harness/core"
)

const prop = "C21"

func TestMain(m *testing.M) { core.Main(m) }

// ---------------------------------------------------------------- replayable history

// note is one notification as the client sends it.
type note struct {
	Kind    string `json:"kind"` // "open" | "change"
	Doc     int    `json:"doc"`
	Version int32  `json:"version"`
	Text    string `json:"text,omitempty"` // open
	Changes []chg  `json:"changes,omitempty"`
}

type history struct {
	Notes []note `json:"notes"`
}

// ---------------------------------------------------------------- server under test

// runner owns one LSP server and its snapshot directory.  The server's copy of
// a document is observed twice, without any source hook: through the snapshot
// file Option.SyncFileDir makes it write for every accepted version, and by
// reading (read-only reflection) the fileMap the next edit will build on.
type runner struct {
	srv     *lsp.LSPServer
	root    string
	fileMap reflect.Value
	used    int
}

var (
	scratchOnce sync.Once
	scratchDir  string
)

func scratch() string {
	scratchOnce.Do(func() {
		base := ""
		if st, err := os.Stat("/dev/shm"); err == nil && st.IsDir() {
			base = "/dev/shm"
		}
		d, err := os.MkdirTemp(base, "c21-")
		if err != nil {
			d, err = os.MkdirTemp("", "c21-")
			if err != nil {
				panic("harness: no scratch directory: " + err.Error())
			}
		}
		scratchDir = d
	})
	return scratchDir
}

func newRunner() *runner {
	os.MkdirAll(scratch(), 0o755)
	root, err := os.MkdirTemp(scratch(), "srv-")
	if err != nil {
		panic("harness: " + err.Error())
	}
	r := &runner{srv: lsp.NewLSPServer(&lsp.Option{SyncFileDir: root}), root: root}
	if f := reflect.ValueOf(r.srv).Elem().FieldByName("fileMap"); f.IsValid() && f.Kind() == reflect.Map &&
		f.Type().Key().Kind() == reflect.String && f.Type().Elem().Kind() == reflect.String {
		r.fileMap = f
	}
	return r
}

func (r *runner) close() { os.RemoveAll(r.root) }

// stored reads the server's in-memory copy (ok=false if it cannot be observed).
func (r *runner) stored(path string) (text string, present, ok bool) {
	if !r.fileMap.IsValid() {
		return "", false, false
	}
	v := r.fileMap.MapIndex(reflect.ValueOf(path))
	if !v.IsValid() {
		return "", false, true
	}
	return v.String(), true, true
}

// snapshot reads and removes the snapshot file of (path, version).
func (r *runner) snapshot(path string, version int32) (string, bool) {
	p := filepath.Join(r.root, fmt.Sprintf("%s.%d", path, version))
	b, err := os.ReadFile(p)
	if err != nil {
		return "", false
	}
	os.Remove(p)
	return string(b), true
}

// ---------------------------------------------------------------- session = one history against one server

type facts struct {
	incremental  int // accepted exact incremental changes
	multi        int // accepted notifications with ≥ 2 changes
	astralBefore int // exact changes with an astral character before the edit column on that line
	crlf         int // exact changes on a CRLF line
	invalid      int // must-reject notifications (rejected as required)
	lenient      int // clamp-or-reject notifications
	full         int
}

type session struct {
	r    *runner
	base string // unique URI directory of this history
	docs map[int][]uint16
	f    facts
	cls  []string // generator/oracle classes seen
}

func newSession(r *runner) *session {
	r.used++
	return &session{r: r, base: fmt.Sprintf("/c21/h%d", r.used), docs: map[int][]uint16{}}
}

func (s *session) end() { os.RemoveAll(filepath.Join(s.r.root, s.base)) }

func (s *session) uri(doc int) protocol.DocumentURI {
	return protocol.DocumentURI(fmt.Sprintf("file://%s/d%d.wa", s.base, doc))
}

func (s *session) class(c string) { s.cls = append(s.cls, c) }

func short(x string) string {
	if len(x) > 300 {
		return fmt.Sprintf("%q…(%d bytes)", x[:300], len(x))
	}
	return fmt.Sprintf("%q", x)
}

// do sends one notification and judges the outcome; "" = the property holds so far.
func (s *session) do(n note) (key, what string) {
	ctx := context.Background()
	uri := s.uri(n.Doc)
	path := uri.Path()
	switch n.Kind {
	case "open":
		var op protocol.DidOpenTextDocumentParams
		if err := viaWire(map[string]interface{}{"textDocument": map[string]interface{}{
			"uri": string(uri), "languageId": "wa", "version": n.Version, "text": n.Text}}, &op); err != nil {
			return "decode/didOpen", fmt.Sprintf("the protocol decoder rejects a didOpen notification: %v", err)
		}
		err := s.r.srv.DidOpen(ctx, &op)
		if err != nil {
			return "open/error", fmt.Sprintf("DidOpen(%s) = %v", short(n.Text), err)
		}
		s.docs[n.Doc] = toUnits(n.Text)
		s.class("note/open")
		return s.observe(path, n.Version, n.Text, true, "open", "DidOpen")
	case "change":
	default:
		return "harness/bad-note", "unknown notification kind " + n.Kind
	}

	pre := s.docs[n.Doc]
	preText := toText(pre)
	ex := expect(pre, n.Changes)
	// the notification travels as JSON, as a client would send it
	wire := []interface{}{}
	for _, c := range n.Changes {
		w := map[string]interface{}{"text": c.Text}
		if c.Range != nil {
			w["range"] = map[string]interface{}{
				"start": map[string]interface{}{"line": c.Range[0], "character": c.Range[1]},
				"end":   map[string]interface{}{"line": c.Range[2], "character": c.Range[3]}}
		}
		if c.RangeLength != 0 {
			w["rangeLength"] = c.RangeLength
		}
		wire = append(wire, w)
	}
	params := &protocol.DidChangeTextDocumentParams{}
	if err := viaWire(map[string]interface{}{
		"textDocument":   map[string]interface{}{"uri": string(uri), "version": n.Version},
		"contentChanges": wire}, params); err != nil {
		return "decode/didChange", fmt.Sprintf("the protocol decoder rejects a didChange notification: %v", err)
	}
	kind := noteKind(n.Changes)
	feat := s.noteFeatures(pre, n.Changes, ex)
	desc := func() string {
		b, _ := json.Marshal(n.Changes)
		return fmt.Sprintf("document %s, didChange v%d %s", short(preText), n.Version, b)
	}
	err := s.r.srv.DidChange(ctx, params)

	if err != nil {
		if !ex.mayErr && len(ex.cands) > 0 {
			return "valid-change-rejected/" + kind + "/" + feat, fmt.Sprintf("%s: rejected with %v, but every range is a valid client position", desc(), err)
		}
		if k, w := s.observe(path, n.Version, preText, false, "rejected/"+kind, desc()+fmt.Sprintf(" (rejected: %v)", err)); k != "" {
			return k, w
		}
		if len(ex.cands) == 0 {
			s.f.invalid++
			s.class("outcome/invalid-rejected/" + ex.why)
		} else {
			s.f.lenient++
			s.class("outcome/lenient-rejected/" + ex.lenient)
		}
		return "", ""
	}

	// accepted
	st, present, ok := s.r.stored(path)
	snap, hasSnap := s.r.snapshot(path, n.Version)
	if !ok {
		st, present = snap, hasSnap
	}
	if len(ex.cands) == 0 {
		return "invalid-range-accepted/" + ex.why, fmt.Sprintf("%s: accepted (stored text now %s); the range is invalid (%s) and must be rejected", desc(), short(st), ex.why)
	}
	if !present {
		return "no-stored-text/" + kind, desc() + ": accepted, but the server holds no text for the document"
	}
	var match []uint16
	for _, c := range ex.cands {
		if toText(c) == st {
			match = c
			break
		}
	}
	if match == nil {
		k := "text-diverged/" + kind + "/" + feat
		if !ex.exactAll {
			k = "text-corrupted/" + kind + "/" + ex.lenient
		}
		var want []string
		for i, c := range ex.cands {
			if i < 4 {
				want = append(want, short(toText(c)))
			}
		}
		return k, fmt.Sprintf("%s: server text is %s, the client holds %s", desc(), short(st), strings.Join(want, " or "))
	}
	if !hasSnap {
		return "no-snapshot/" + kind, desc() + ": accepted, but no snapshot file was written for this version"
	}
	if snap != st {
		return "snapshot-differs/" + kind, fmt.Sprintf("%s: snapshot file holds %s, fileMap holds %s", desc(), short(snap), short(st))
	}
	s.docs[n.Doc] = match
	switch {
	case !ex.exactAll:
		s.f.lenient++
		s.class("outcome/lenient-accepted/" + ex.lenient)
	case kind == "full":
		s.f.full++
		s.class("outcome/full")
	default:
		s.f.incremental += len(n.Changes)
		if len(n.Changes) > 1 {
			s.f.multi++
		}
		s.class("outcome/" + kind + "-applied")
	}
	return "", ""
}

// observe checks the stored text (and the snapshot when one is due).
func (s *session) observe(path string, version int32, want string, snapDue bool, kind, desc string) (string, string) {
	st, present, ok := s.r.stored(path)
	snap, hasSnap := s.r.snapshot(path, version)
	if ok {
		if !present && want != "" {
			return "no-stored-text/" + kind, desc + ": the server holds no text for the document"
		}
		if st != want {
			k := "text-diverged/" + kind
			if !snapDue {
				k = "rejected-but-text-changed/" + strings.TrimPrefix(kind, "rejected/")
			}
			return k, fmt.Sprintf("%s: server text is %s, the client holds %s", desc, short(st), short(want))
		}
	}
	if snapDue {
		if !hasSnap {
			return "no-snapshot/" + kind, desc + ": no snapshot file was written for this version"
		}
		if snap != want {
			return "text-diverged/" + kind + "/snapshot", fmt.Sprintf("%s: snapshot holds %s, the client holds %s", desc, short(snap), short(want))
		}
	} else if hasSnap && snap != want {
		return "rejected-but-text-changed/" + strings.TrimPrefix(kind, "rejected/") + "/snapshot", fmt.Sprintf("%s: a snapshot was written with %s although the notification was rejected; the client holds %s", desc, short(snap), short(want))
	}
	return "", ""
}

// viaWire encodes a client-side JSON value and decodes it into the server's parameter type.
func viaWire(v interface{}, into interface{}) error {
	b, err := json.Marshal(v)
	if err != nil {
		return err
	}
	return json.Unmarshal(b, into)
}

func noteKind(ch []chg) string {
	switch {
	case len(ch) == 0:
		return "empty"
	case len(ch) == 1 && ch[0].Range == nil:
		return "full"
	case len(ch) == 1:
		return "single"
	}
	return "multi"
}

// noteFeatures summarises the exact positions of a notification (for keys and classes).
func (s *session) noteFeatures(pre []uint16, changes []chg, ex expectation) string {
	if !ex.exactAll || len(changes) == 0 || changes[0].Range == nil {
		return "plain"
	}
	cur := pre
	astral, nonASCII, crlf := false, false, false
	for _, c := range changes {
		if c.Range == nil {
			break
		}
		ls := lineStarts(cur)
		f1 := featuresAt(cur, ls, c.Range[0], c.Range[1])
		f2 := featuresAt(cur, ls, c.Range[2], c.Range[3])
		astral = astral || f1.astralBefore || f2.astralBefore
		nonASCII = nonASCII || f1.nonASCIIBefore || f2.nonASCIIBefore
		crlf = crlf || f1.crlfLine || f2.crlfLine
		sv, _ := posVariants(cur, ls, c.Range[0], c.Range[1])
		ev, _ := posVariants(cur, ls, c.Range[2], c.Range[3])
		if len(sv) != 1 || len(ev) != 1 || ev[0] < sv[0] {
			break
		}
		d := append([]uint16{}, cur[:sv[0]]...)
		d = append(d, toUnits(c.Text)...)
		cur = append(d, cur[ev[0]:]...)
	}
	if astral {
		s.f.astralBefore++
		s.class("edit/astral-before-column")
	}
	if crlf {
		s.f.crlf++
		s.class("edit/on-crlf-line")
	}
	switch {
	case astral:
		return "astral-before-column"
	case nonASCII:
		return "non-ascii-before-column"
	case crlf:
		return "crlf-line"
	}
	return "plain"
}

// invariant: every open document equals the client's text.
func (s *session) invariant() (string, string) {
	for d := 0; d < 8; d++ { // fixed order (never map order)
		u, open := s.docs[d]
		if !open {
			continue
		}
		st, present, ok := s.r.stored(s.uri(d).Path())
		if !ok {
			return "", ""
		}
		if want := toText(u); st != want || (!present && want != "") {
			return "text-diverged/later", fmt.Sprintf("document d%d: server text is %s, the client holds %s", d, short(st), short(want))
		}
	}
	return "", ""
}

// ---------------------------------------------------------------- generators (client behaviour)

var textAtoms = []string{
	"a", "b", "x", "f", "(", ")", " ", "\t", "=", "1",
	"\u00e9", "\u00df", "\u0436", // 2-byte UTF-8
	"\u4e2d", "\u6587", "\u20ac", "\u2028", "\u0085", "\ufffd", "\ufeff", "\uffff", // 3-byte UTF-8 (incl. characters that are *not* LSP line ends)
	"\u0301", "\u200d", // combining mark, ZWJ
	"\U0001F600", "\U0001D11E", "\U0010FFFF", "\U00020000", "\U00010000", "\U0001F469\u200d\U0001F4BB", // astral plane: surrogate pairs in UTF-16
	"\n", "\n", "\r\n",
}

var lineAtoms = textAtoms[:len(textAtoms)-3]

func genLineText(maxAtoms int) *rapid.Generator[string] {
	return rapid.Custom(func(t *rapid.T) string {
		return strings.Join(rapid.SliceOfN(rapid.SampledFrom(lineAtoms), 0, maxAtoms).Draw(t, "atoms"), "")
	})
}

func genDocText() *rapid.Generator[string] {
	return rapid.Custom(func(t *rapid.T) string {
		n := rapid.IntRange(0, 7).Draw(t, "nlines")
		var b strings.Builder
		for i := 0; i < n; i++ {
			b.WriteString(genLineText(10).Draw(t, "line"))
			if i < n-1 || rapid.Bool().Draw(t, "finalnl") {
				b.WriteString(rapid.SampledFrom([]string{"\n", "\n", "\r\n"}).Draw(t, "eol"))
			}
		}
		return b.String()
	})
}

func genInsertText() *rapid.Generator[string] {
	return rapid.Custom(func(t *rapid.T) string {
		if rapid.IntRange(0, 4).Draw(t, "empty") == 0 {
			return "" // pure deletion
		}
		return strings.Join(rapid.SliceOfN(rapid.SampledFrom(textAtoms), 1, 6).Draw(t, "atoms"), "")
	})
}

// caretIndexes: every place of a line where an editor can put the caret.
func caretIndexes(u []uint16, ls []int, line int) []int {
	lo, contentEnd, _, _ := lineBounds(u, ls, line)
	var out []int
	for i := lo; i <= contentEnd; i++ {
		if i > lo && i < len(u) && isLow(u[i]) && isHigh(u[i-1]) {
			continue
		}
		out = append(out, i)
	}
	return out
}

type caret struct {
	line, char uint32
	idx        int
}

func genCaret(t *rapid.T, u []uint16, label string) caret {
	ls := lineStarts(u)
	line := rapid.IntRange(0, len(ls)-1).Draw(t, label+"-line")
	cs := caretIndexes(u, ls, line)
	var k int
	switch rapid.IntRange(0, 5).Draw(t, label+"-where") {
	case 0:
		k = 0
	case 1:
		k = len(cs) - 1
	case 2: // just after an astral character, if the line has one
		k = rapid.IntRange(0, len(cs)-1).Draw(t, label+"-k")
		for j := range cs {
			jj := (k + j) % len(cs)
			if cs[jj] >= 2 && cs[jj]-2 >= ls[line] && isHigh(u[cs[jj]-2]) {
				k = jj
				break
			}
		}
	default:
		k = rapid.IntRange(0, len(cs)-1).Draw(t, label+"-k")
	}
	return caret{uint32(line), uint32(cs[k] - ls[line]), cs[k]}
}

// genValidChange: an incremental change at caret positions of u.
func genValidChange(t *rapid.T, u []uint16) chg {
	a := genCaret(t, u, "a")
	b := a
	switch rapid.IntRange(0, 3).Draw(t, "span") {
	case 0: // insertion
	case 1: // a few units on the same line or a neighbouring one
		ls := lineStarts(u)
		line := int(a.line)
		if rapid.IntRange(0, 3).Draw(t, "nextline") == 0 && line+1 < len(ls) {
			line++
		}
		cs := caretIndexes(u, ls, line)
		k := rapid.IntRange(0, len(cs)-1).Draw(t, "b-k")
		b = caret{uint32(line), uint32(cs[k] - ls[line]), cs[k]}
	default:
		b = genCaret(t, u, "b")
	}
	if b.idx < a.idx {
		a, b = b, a
	}
	c := chg{Range: &[4]uint32{a.line, a.char, b.line, b.char}, Text: genInsertText().Draw(t, "text")}
	if rapid.IntRange(0, 3).Draw(t, "rangeLength") == 0 {
		c.RangeLength = uint32(b.idx - a.idx)
	}
	return c
}

func applyExact(u []uint16, c chg) []uint16 {
	ls := lineStarts(u)
	sv, _ := posVariants(u, ls, c.Range[0], c.Range[1])
	ev, _ := posVariants(u, ls, c.Range[2], c.Range[3])
	d := append([]uint16{}, u[:sv[0]]...)
	d = append(d, toUnits(c.Text)...)
	return append(d, u[ev[0]:]...)
}

// genInvalidChange: a range the server must reject.
func genInvalidChange(t *rapid.T, u []uint16) (chg, string) {
	ls := lineStarts(u)
	L := uint32(len(ls))
	a, b := genCaret(t, u, "a"), genCaret(t, u, "b")
	if b.idx < a.idx {
		a, b = b, a
	}
	text := genInsertText().Draw(t, "text")
	which := rapid.SampledFrom([]string{"end-before-start", "start-line-beyond", "end-line-beyond", "both-lines-beyond"}).Draw(t, "invalid")
	if which == "end-before-start" && a.idx == b.idx {
		which = "end-line-beyond"
	}
	far := L + 1 + uint32(rapid.SampledFrom([]int{0, 0, 1, 5, 1 << 20, 1<<32 - 3}).Draw(t, "far"))
	if far < L+1 { // wrapped
		far = L + 1
	}
	col := uint32(rapid.IntRange(0, 3).Draw(t, "col"))
	switch which {
	case "end-before-start":
		return chg{Range: &[4]uint32{b.line, b.char, a.line, a.char}, Text: text}, which
	case "start-line-beyond":
		return chg{Range: &[4]uint32{far, col, far, col}, Text: text}, which
	case "end-line-beyond":
		return chg{Range: &[4]uint32{a.line, a.char, far, col}, Text: text}, which
	}
	return chg{Range: &[4]uint32{far, 0, far + 1, col}, Text: text}, which
}

// genLenientChange: a range outside what a client can point at, for which the
// protocol versions disagree (clamp or reject); only corruption is a failure.
func genLenientChange(t *rapid.T, u []uint16) (chg, string) {
	ls := lineStarts(u)
	L := len(ls)
	a := genCaret(t, u, "a")
	text := genInsertText().Draw(t, "text")
	which := rapid.SampledFrom([]string{"col-past-eol", "col-past-eol", "line-eq-count", "between-cr-lf", "inside-surrogate", "inside-surrogate"}).Draw(t, "lenient")
	find := func(pred func(i int) bool) (int, bool) { // first unit index ≥ a random start satisfying pred
		if len(u) == 0 {
			return 0, false
		}
		from := rapid.IntRange(0, len(u)-1).Draw(t, "from")
		for j := 0; j < len(u); j++ {
			if i := (from + j) % len(u); pred(i) {
				return i, true
			}
		}
		return 0, false
	}
	lineOf := func(i int) int {
		l := 0
		for k, s := range ls {
			if s <= i {
				l = k
			}
		}
		return l
	}
	switch which {
	case "between-cr-lf":
		if i, ok := find(func(i int) bool { return u[i] == '\n' && i > 0 && u[i-1] == '\r' }); ok {
			l := lineOf(i)
			p := [2]uint32{uint32(l), uint32(i - ls[l])}
			if rapid.Bool().Draw(t, "as-end") && a.idx <= i {
				return chg{Range: &[4]uint32{a.line, a.char, p[0], p[1]}, Text: text}, which
			}
			return chg{Range: &[4]uint32{p[0], p[1], p[0], p[1]}, Text: text}, which
		}
	case "inside-surrogate":
		if i, ok := find(func(i int) bool { return isLow(u[i]) && i > 0 && isHigh(u[i-1]) }); ok {
			l := lineOf(i)
			p := [2]uint32{uint32(l), uint32(i - ls[l])}
			switch rapid.IntRange(0, 2).Draw(t, "role") {
			case 0:
				if a.idx <= i {
					return chg{Range: &[4]uint32{a.line, a.char, p[0], p[1]}, Text: text}, which
				}
			case 1:
				if a.idx >= i {
					return chg{Range: &[4]uint32{p[0], p[1], a.line, a.char}, Text: text}, which
				}
			}
			return chg{Range: &[4]uint32{p[0], p[1], p[0], p[1]}, Text: text}, which
		}
	case "line-eq-count":
		col := uint32(rapid.SampledFrom([]int{0, 0, 1, 7}).Draw(t, "col"))
		if rapid.Bool().Draw(t, "from-caret") {
			return chg{Range: &[4]uint32{a.line, a.char, uint32(L), col}, Text: text}, which
		}
		return chg{Range: &[4]uint32{uint32(L), col, uint32(L), col}, Text: text}, which
	}
	// column past the end of a line
	line := rapid.IntRange(0, L-1).Draw(t, "line")
	lo, _, lineEnd, _ := lineBounds(u, ls, line)
	over := uint32(lineEnd-lo) + 1 + uint32(rapid.SampledFrom([]int{0, 0, 1, 3, 1000, 1<<31 - 1}).Draw(t, "over"))
	if rapid.Bool().Draw(t, "as-end") && a.idx <= lo {
		return chg{Range: &[4]uint32{a.line, a.char, uint32(line), over}, Text: text}, "col-past-eol"
	}
	return chg{Range: &[4]uint32{uint32(line), over, uint32(line), over}, Text: text}, "col-past-eol"
}

// ---------------------------------------------------------------- the state machine

const ruleText = "rapid state machine (t.Repeat): didOpen, then a history of didChange notifications (1 valid incremental change; 2..4 sequential changes; full replacement; must-reject ranges: line beyond the document, end before start, alone or inside a multi-change; clamp-or-reject ranges: column past end of line, line == line count, between CR and LF, inside a surrogate pair, whole-document change inside a multi-change, empty change list; re-open; second document) over texts of ASCII, 2/3-byte UTF-8, astral-plane characters, combining marks, U+2028/U+0085, LF and CRLF. " +
	"Ranges come from an independent client model (array of UTF-16 code units, harness/c21/model.go). Oracle after every notification: valid ⇒ accepted and server text (fileMap read by reflection, and the SyncFileDir snapshot of that version) == client text; must-reject ⇒ error returned, stored text unchanged, no snapshot with other text; clamp-or-reject ⇒ stored text is the unchanged document or the document with a clamped/snapped range applied; all documents are re-compared after every step. " +
	"Non-trivial = history with ≥ 3 accepted incremental changes, ≥ 1 of them on a line with an astral character before the edit column, and ≥ 1 multi-change notification"

var (
	runMu      sync.Mutex
	currentRun *runner
)

// getRunner reuses one server for many histories (each history has its own
// URIs), replacing it now and then so that its fileMap stays small.
func getRunner() *runner {
	runMu.Lock()
	defer runMu.Unlock()
	if currentRun == nil || currentRun.used >= 500 {
		if currentRun != nil {
			currentRun.close()
		}
		currentRun = newRunner()
	}
	return currentRun
}

func TestSyncHistories(t *testing.T) {
	s := core.NewStats(prop, "SyncHistories")
	s.Rule(ruleText)
	s.Assume("the reflection read of LSPServer.fileMap and the snapshot files are faithful observations of the server's copy (they are cross-checked against each other)")
	defer func() {
		if currentRun != nil {
			currentRun.close()
			currentRun = nil
		}
		os.Remove(scratch()) // succeeds only when empty
	}()
	if !getRunner().fileMap.IsValid() {
		s.Note("LSPServer.fileMap not reachable by reflection: observing through snapshots only")
	}
	s.Check(t, func(t *rapid.T, c *core.Case) {
		ss := newSession(getRunner())
		defer ss.end()
		h := &history{}
		c.Set(h)
		version := int32(0)
		send := func(n note) {
			version++
			n.Version = version
			h.Notes = append(h.Notes, n)
			if key, what := ss.do(n); key != "" {
				c.Fail(key, "%s", what)
			}
		}
		pickDoc := func() int {
			if len(ss.docs) > 1 {
				return rapid.IntRange(0, len(ss.docs)-1).Draw(t, "doc")
			}
			return 0
		}
		// a document that picked up a lone CR (possible only through the
		// between-CR-LF class) leaves the property's domain: resynchronise it
		resync := func(d int) bool {
			if hasLoneCR(ss.docs[d]) {
				ss.class("resync/lone-cr")
				send(note{Kind: "change", Doc: d, Changes: []chg{{Text: genDocText().Draw(t, "resync")}}})
				return true
			}
			return false
		}
		send(note{Kind: "open", Doc: 0, Text: genDocText().Draw(t, "doc0")})

		edit := func(t *rapid.T) {
			d := pickDoc()
			if resync(d) {
				return
			}
			send(note{Kind: "change", Doc: d, Changes: []chg{genValidChange(t, ss.docs[d])}})
		}
		multi := func(t *rapid.T) {
			d := pickDoc()
			if resync(d) {
				return
			}
			n := rapid.IntRange(2, 4).Draw(t, "nchanges")
			cur := ss.docs[d]
			var cs []chg
			for i := 0; i < n; i++ {
				ch := genValidChange(t, cur)
				cs = append(cs, ch)
				cur = applyExact(cur, ch)
			}
			send(note{Kind: "change", Doc: d, Changes: cs})
		}
		actions := map[string]func(*rapid.T){
			"edit-1": edit, "edit-2": edit, "edit-3": edit, "edit-4": edit,
			"multi-1": multi, "multi-2": multi,
			"full": func(t *rapid.T) {
				send(note{Kind: "change", Doc: pickDoc(), Changes: []chg{{Text: genDocText().Draw(t, "text")}}})
			},
			"invalid": func(t *rapid.T) {
				d := pickDoc()
				if resync(d) {
					return
				}
				n := rapid.SampledFrom([]int{1, 1, 2, 3}).Draw(t, "nchanges")
				at := rapid.IntRange(0, n-1).Draw(t, "at")
				cur := ss.docs[d]
				var cs []chg
				for i := 0; i < n; i++ {
					if i == at {
						bad, which := genInvalidChange(t, cur)
						cs = append(cs, bad)
						ss.class(fmt.Sprintf("gen/invalid/%s/at-%d-of-%d", which, i, n))
						continue
					}
					ch := genValidChange(t, cur)
					cs = append(cs, ch)
					cur = applyExact(cur, ch)
				}
				send(note{Kind: "change", Doc: d, Changes: cs})
			},
			"lenient": func(t *rapid.T) {
				d := pickDoc()
				if resync(d) {
					return
				}
				cur := ss.docs[d]
				var cs []chg
				switch rapid.IntRange(0, 9).Draw(t, "special") {
				case 0:
					ss.class("gen/lenient/empty-changes")
					send(note{Kind: "change", Doc: d})
					return
				case 1: // whole-document change inside a multi-change notification
					ss.class("gen/lenient/full-inside-multi")
					ch := genValidChange(t, cur)
					full := chg{Text: genDocText().Draw(t, "text")}
					if rapid.Bool().Draw(t, "full-first") {
						cs = []chg{full, genValidChange(t, toUnits(full.Text))}
					} else {
						cs = []chg{ch, full}
					}
					send(note{Kind: "change", Doc: d, Changes: cs})
					return
				}
				for i := rapid.IntRange(0, 2).Draw(t, "nvalid"); i > 0; i-- {
					ch := genValidChange(t, cur)
					cs = append(cs, ch)
					cur = applyExact(cur, ch)
				}
				ch, which := genLenientChange(t, cur)
				ss.class("gen/lenient/" + which)
				send(note{Kind: "change", Doc: d, Changes: append(cs, ch)})
			},
			"open": func(t *rapid.T) {
				d := rapid.IntRange(0, 1).Draw(t, "which")
				if _, open := ss.docs[d]; open {
					ss.class("gen/reopen")
				} else {
					ss.class("gen/open-second-document")
				}
				send(note{Kind: "open", Doc: d, Text: genDocText().Draw(t, "text")})
			},
			"": func(t *rapid.T) {
				if key, what := ss.invariant(); key != "" {
					c.Fail(key, "%s", what)
				}
			},
		}
		t.Repeat(actions)

		for _, cl := range ss.cls {
			c.Class(cl)
		}
		c.Class(fmt.Sprintf("history/notes/%s", bucket(len(h.Notes))))
		if len(ss.docs) > 1 {
			c.Class("history/two-documents")
		}
		if ss.f.incremental >= 3 && ss.f.astralBefore >= 1 && ss.f.multi >= 1 {
			c.Nontrivial()
		}
	})
}

func bucket(n int) string {
	switch {
	case n <= 5:
		return "1-5"
	case n <= 20:
		return "6-20"
	case n <= 60:
		return "21-60"
	}
	return "61+"
}

// ---------------------------------------------------------------- replay

func replay(test string, raw json.RawMessage) (string, string) {
	var h history
	if err := json.Unmarshal(raw, &h); err != nil {
		return "harness/bad-replay", err.Error()
	}
	r := newRunner()
	defer func() {
		r.close()
		os.Remove(scratch()) // succeeds only when empty
	}()
	ss := newSession(r)
	for _, n := range h.Notes {
		if key, what := ss.do(n); key != "" {
			return key, what
		}
		if key, what := ss.invariant(); key != "" {
			return key, what
		}
	}
	return "", ""
}

func TestReplay(t *testing.T) { core.RunReplays(t, prop, replay) }
