package c17

import (
	"encoding/binary"
	"fmt"
	"strings"

	"wa-lang.org/wa/internal/native/abi"
	"wa-lang.org/wa/internal/native/loong64"
	"wa-lang.org/wa/zverif/harness/xarch/loong64asm"
)

// ---------------------------------------------------------------- formats
//
// laFormats describes, for every operand format of the Wa LoongArch encoder,
// the operands in assembler order (LoongArch Reference Manual vol.1, and the
// order Wa's own parser / AsmSyntax use).  Slot syntax: <kind><field> with
// field ∈ d,1,2,3 (AsArgument.Rd/Rs1/Rs2/Rs3) or i (Imm):
//
//	R F C S   general / floating-point / condition-flag / fcsr register
//	N5 N6     plain number of 5 / 6 bits carried in a register field
//	u<n> s<n> unsigned / signed immediate of n bits
//	t14       signed 14-bit immediate that addresses words (value << 2)
//	a2        ALSL/BYTEPICK shift amount, a3 BYTEPICK.D
//	o16 o21 o26  branch byte offset whose field holds offset>>2 in n bits
var laFormats = map[loong64.OpFormatType]string{
	loong64.OpFormatType_NULL:         "",
	loong64.OpFormatType_2R:           "Rd,R1",
	loong64.OpFormatType_2F:           "Fd,F1",
	loong64.OpFormatType_1F_1R:        "Fd,R1",
	loong64.OpFormatType_1R_1F:        "Rd,F1",
	loong64.OpFormatType_3R:           "Rd,R1,R2",
	loong64.OpFormatType_3F:           "Fd,F1,F2",
	loong64.OpFormatType_1F_2R:        "Fd,R1,R2",
	loong64.OpFormatType_4F:           "Fd,F1,F2,F3",
	loong64.OpFormatType_2R_ui5:       "Rd,R1,u5",
	loong64.OpFormatType_2R_ui6:       "Rd,R1,u6",
	loong64.OpFormatType_2R_si12:      "Rd,R1,s12",
	loong64.OpFormatType_1F_1R_si12:   "Fd,R1,s12",
	loong64.OpFormatType_2R_ui12:      "Rd,R1,u12",
	loong64.OpFormatType_2R_si14:      "Rd,R1,t14",
	loong64.OpFormatType_1R_si20:      "Rd,s20",
	loong64.OpFormatType_0_2R:         "R1,R2",
	loong64.OpFormatType_3R_sa2:       "Rd,R1,R2,a2",
	loong64.OpFormatType_3R_sa3:       "Rd,R1,R2,a3",
	loong64.OpFormatType_code:         "u15",
	loong64.OpFormatType_code_1R_si12: "N5d,R1,s12",
	loong64.OpFormatType_2R_msbw_lsbw: "Rd,R1,N52,N53",
	loong64.OpFormatType_2R_msbd_lsbd: "Rd,R1,N62,N63",
	loong64.OpFormatType_fcsr_1R:      "Sd,R1",
	loong64.OpFormatType_1R_fcsr:      "Rd,S1",
	loong64.OpFormatType_cd_1R:        "Cd,R1",
	loong64.OpFormatType_cd_1F:        "Cd,F1",
	loong64.OpFormatType_cd_2F:        "Cd,F1,F2",
	loong64.OpFormatType_1R_cj:        "Rd,C1",
	loong64.OpFormatType_1F_cj:        "Fd,C1",
	loong64.OpFormatType_1R_csr:       "Rd,u14",
	loong64.OpFormatType_2R_csr:       "Rd,R1,u14",
	loong64.OpFormatType_2R_level:     "Rd,R1,u8",
	loong64.OpFormatType_level:        "u15",
	loong64.OpFormatType_0_1R_seq:     "R1,u8",
	loong64.OpFormatType_op_2R:        "N5d,R1,R2",
	loong64.OpFormatType_3F_ca:        "Fd,F1,F2,c3",
	loong64.OpFormatType_hint_1R_si12: "N5d,R1,s12",
	loong64.OpFormatType_hint_2R:      "N5d,R1,R2",
	loong64.OpFormatType_hint:         "u15",
	loong64.OpFormatType_cj_offset:    "C1,o21",
	loong64.OpFormatType_rj_offset:    "R1,o21",
	loong64.OpFormatType_rj_rd_offset: "R1,Rd,o16",
	loong64.OpFormatType_rd_rj_offset: "Rd,R1,o16",
	loong64.OpFormatType_offset:       "o26",
}

func laField(a abi.AsArgument, f byte) abi.RegType {
	switch f {
	case 'd':
		return a.Rd
	case '1':
		return a.Rs1
	case '2':
		return a.Rs2
	}
	return a.Rs3
}

func laReg(r abi.RegType) string {
	switch {
	case r >= loong64.REG_R0 && r <= loong64.REG_R31:
		return fmt.Sprintf("r%d", r-loong64.REG_R0)
	case r >= loong64.REG_F0 && r <= loong64.REG_F31:
		return fmt.Sprintf("f%d", r-loong64.REG_F0)
	case r >= loong64.REG_FCSR0 && r <= loong64.REG_FCSR3:
		return fmt.Sprintf("fcsr%d", r-loong64.REG_FCSR0)
	case r >= loong64.REG_FCC0 && r <= loong64.REG_FCC7:
		return fmt.Sprintf("fcc%d", r-loong64.REG_FCC0)
	}
	return fmt.Sprintf("badreg%d", r)
}

func atoiSlot(s string) uint {
	n := uint(0)
	for _, c := range s {
		if c >= '0' && c <= '9' {
			n = n*10 + uint(c-'0')
		}
	}
	return n
}

func near(v int64, lims ...int64) bool {
	for _, l := range lims {
		if v >= l-1 && v <= l+1 {
			return true
		}
	}
	return false
}

// laExpected renders the canonical form for (mnemonic, format, argument).
func laExpected(name string, slots string, a abi.AsArgument) (d dis, immRange, boundary bool) {
	d = dis{ok: true, op: name}
	if slots == "" {
		return
	}
	noImm := true
	for _, s := range strings.Split(slots, ",") {
		switch s[0] {
		case 'R', 'F', 'C', 'S':
			r := laField(a, s[1])
			d.args = append(d.args, laReg(r))
		case 'N':
			bits := uint(s[1] - '0')
			v := int64(laField(a, s[2]))
			if v < 0 || v >= 1<<bits {
				immRange = true
			}
			boundary = boundary || near(v, 0, 1<<bits-1)
			noImm = false
			d.args = append(d.args, imm(v))
		case 'c':
			v := int64(a.Imm)
			if v < 0 || v > 7 {
				immRange = true
				d.args = append(d.args, imm(v))
			} else {
				d.args = append(d.args, fmt.Sprintf("fcc%d", v))
			}
			boundary = boundary || near(v, 0, 7)
			noImm = false
		case 'u':
			bits := atoiSlot(s)
			v := int64(a.Imm)
			if v < 0 || v >= 1<<bits {
				immRange = true
			}
			boundary = boundary || near(v, 0, 1<<bits-1)
			noImm = false
			d.args = append(d.args, imm(v))
		case 's', 't':
			// Wa deliberately accepts the unsigned spelling of a negative field
			// value (0xfff for -1): both readings are representable.
			bits := atoiSlot(s)
			v := int64(a.Imm)
			if v < -(1<<(bits-1)) || v >= 1<<bits {
				immRange = true
			} else {
				v = sext(v, bits)
			}
			boundary = boundary || near(int64(a.Imm), -(1<<(bits-1)), 1<<(bits-1)-1, 1<<bits-1, 0)
			noImm = false
			if s[0] == 't' {
				v <<= 2
			}
			d.args = append(d.args, imm(v))
		case 'a':
			v := int64(a.Imm)
			lo, hi := int64(0), int64(1)<<uint(s[1]-'0')-1
			if v < lo || v > hi {
				immRange = true
			}
			boundary = boundary || near(v, lo, hi)
			noImm = false
			if strings.HasPrefix(name, "alsl.") && !immRange {
				// Wa follows the manual's notation (operand = field sa2, shift =
				// sa2+1); binutils/LLVM/x-arch print the shift count sa2+1.
				v++
			}
			d.args = append(d.args, imm(v))
		case 'o':
			bits := atoiSlot(s)
			v := int64(a.Imm)
			if v%4 != 0 || v < -(1<<(bits+1)) || v > 1<<(bits+1)-4 {
				immRange = true
			}
			boundary = boundary || near(v, -(1<<(bits+1)), 1<<(bits+1)-4, 0)
			noImm = false
			d.args = append(d.args, imm(v))
		}
	}
	if noImm {
		for _, at := range d.args {
			if strings.HasSuffix(at, "0") && len(regClass(at))+1 == len(at) || strings.HasSuffix(at, "31") {
				boundary = true
			}
		}
	}
	return
}

// ---------------------------------------------------------------- x/arch

var laXarchOps = func() map[string]bool {
	m := map[string]bool{}
	for op := 0; op < 4096; op++ {
		s := loong64asm.Op(op).String()
		if !strings.HasPrefix(s, "Op(") {
			m[strings.ToLower(s)] = true
		}
	}
	return m
}()

func laXarch(word uint32) dis {
	var b [4]byte
	binary.LittleEndian.PutUint32(b[:], word)
	inst, err := loong64asm.Decode(b[:])
	if err != nil {
		return dis{raw: err.Error()}
	}
	d := dis{ok: true, op: strings.ToLower(inst.Op.String()), n: 4}
	var raws []string
	for _, arg := range inst.Args {
		if arg == nil {
			break
		}
		raws = append(raws, arg.String())
		switch v := arg.(type) {
		case loong64asm.Reg:
			switch {
			case v <= loong64asm.R31:
				d.args = append(d.args, fmt.Sprintf("r%d", v-loong64asm.R0))
			case v >= loong64asm.F0 && v <= loong64asm.F31:
				d.args = append(d.args, fmt.Sprintf("f%d", v-loong64asm.F0))
			default:
				d.args = append(d.args, "reg?"+v.String())
			}
		case loong64asm.Fcsr:
			d.args = append(d.args, fmt.Sprintf("fcsr%d", uint8(v)))
		case loong64asm.Fcc:
			d.args = append(d.args, fmt.Sprintf("fcc%d", uint8(v)))
		case loong64asm.Uimm:
			d.args = append(d.args, imm(int64(v.Imm)))
		case loong64asm.Simm16:
			d.args = append(d.args, imm(int64(v.Imm)))
		case loong64asm.Simm32:
			d.args = append(d.args, imm(int64(v.Imm)))
		case loong64asm.OffsetSimm:
			d.args = append(d.args, imm(int64(v.Imm)))
		case loong64asm.SaSimm:
			d.args = append(d.args, imm(int64(v)))
		case loong64asm.CodeSimm:
			d.args = append(d.args, imm(int64(v)))
		default:
			d.args = append(d.args, "arg?"+arg.String())
		}
	}
	d.raw = inst.Op.String() + " " + strings.Join(raws, ", ")
	return d
}

// ---------------------------------------------------------------- oracle

func laLookupAs(name string) (abi.As, bool) {
	for as := abi.As(1); as < loong64.ALAST; as++ {
		if loong64.AsString(as, "") == name {
			return as, true
		}
	}
	return 0, false
}

func laMnemonics() []string {
	var out []string
	for as := abi.As(1); as < loong64.ALAST; as++ {
		out = append(out, loong64.AsString(as, ""))
	}
	return out
}

func laArgString(a abi.AsArgument) string {
	f := func(r abi.RegType) string {
		if r == 0 {
			return "-"
		}
		s := laReg(r)
		if strings.HasPrefix(s, "badreg") {
			return fmt.Sprint(int(r))
		}
		return s
	}
	return fmt.Sprintf("{Rd:%s Rs1:%s Rs2:%s Rs3:%s Imm:%d}", f(a.Rd), f(a.Rs1), f(a.Rs2), f(a.Rs3), a.Imm)
}

func laCheck(k kase) (v verdict) {
	as, ok := laLookupAs(k.As)
	if !ok {
		v.out = rejectedErr
		v.add("harness/unknown-mnemonic", "no LoongArch instruction named %q", k.As)
		return
	}
	arg := rvArg(k)
	var word uint32
	var err error
	if p, _ := guard(func() { word, err = loong64.EncodeLA64(as, arg) }); p {
		v.out = rejectedPanic
		return
	}
	if err != nil {
		v.out = rejectedErr
		return
	}
	v.out = accepted
	v.code = make([]byte, 4)
	binary.LittleEndian.PutUint32(v.code, word)

	format := loong64.AsFormatType(as)
	slots, known := laFormats[format]
	pfx := "la64/" + k.As + "/"
	if !known {
		v.add("harness/no-spec/"+format.String(), "the harness has no description of operand format %v (%s)", format, k.As)
		return
	}
	want, immRange, boundary := laExpected(k.As, slots, *arg)
	v.want, v.boundary, v.shape = want, boundary, format.String()
	desc := fmt.Sprintf("EncodeLA64(%s %s) = %08x", k.As, laArgString(*arg), word)

	xa := laXarch(word)
	var indep []string
	switch {
	case !xa.ok && !laXarchOps[k.As]:
		// the only reference does not know this instruction at all
		v.note("dropped_unknown_to_reference")
	default:
		indep = aspects(want, xa, immRange)
		for _, a := range indep {
			key := pfx + a
			if a == "reg" && laIsAM(k.As) && len(xa.args) == 3 && len(want.args) == 3 &&
				xa.args[0] == want.args[0] && xa.args[1] == want.args[2] && xa.args[2] == want.args[1] {
				// one root cause for the whole family: the AM*/SC.Q assembler order is
				// rd, rk, rj but the table gives them the generic 3R format (rd, rj, rk)
				key = "la64/AM/operand-order"
			}
			v.add(key, "%s; expected %q, x/arch loong64asm: %s", desc, want.String(), xa.String())
		}
	}

	// own decoder round trip
	var das abi.As
	var darg *abi.AsArgument
	var derr error
	if p, m := guard(func() { das, darg, derr = loong64.Decode(word) }); p {
		v.add(pfx+"own-decode/panic", "%s; loong64.Decode panics: %s", desc, m)
		return
	}
	if derr != nil {
		if !contains(indep, "op") && !contains(indep, "undecodable") {
			v.add(pfx+"own-decode/error", "%s; loong64.Decode: %v", desc, derr)
		}
		return
	}
	if das != as {
		if !contains(indep, "op") && !contains(indep, "undecodable") {
			v.add(pfx+"own-decode/op", "%s; loong64.Decode returns %s", desc, loong64.AsString(das, ""))
		}
		return
	}
	if darg == nil {
		v.add(pfx+"own-decode/args", "%s; loong64.Decode returns a nil argument", desc)
		return
	}
	back, _, _ := laExpected(k.As, slots, *darg)
	for _, a := range aspects(want, back, immRange) {
		if contains(indep, a) {
			continue // consequence of the encoder defect already reported
		}
		v.add(pfx+"own-decode/"+a, "%s; loong64.Decode returns %s %s = %q, want %q", desc, loong64.AsString(das, ""), laArgString(*darg), back.String(), want.String())
	}
	return
}

// laIsAM: atomic memory access instructions, whose assembler operand order is
// rd, rk, rj (LoongArch manual vol.1 §2.2.7).
func laIsAM(name string) bool { return strings.HasPrefix(name, "am") || name == "sc.q" }

func contains(list []string, s string) bool {
	for _, x := range list {
		if x == s {
			return true
		}
	}
	return false
}
