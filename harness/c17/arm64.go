package c17

import (
	"encoding/binary"
	"fmt"
	"strconv"
	"strings"

	"wa-lang.org/wa/internal/native/abi"
	"wa-lang.org/wa/internal/native/arm64"
	"wa-lang.org/wa/zverif/harness/xarch/arm64asm"
)

// AArch64.  At the pinned commit arm64.EncodeARM64 and arm64.DecodeEx are
// panic("TODO"): every tuple is rejected, the accepted set is empty and the
// property holds vacuously (evidence counter arm64_accepted = 0).  The code
// below is what runs as soon as the encoder accepts something: the word is
// disassembled by x/arch arm64asm and llvm-mc -triple=aarch64, and compared with
// the operands handed in.  Wa's table uses the LEGv8 teaching mnemonics
// (Patterson & Hennessy, ARM edition): ADDI, SUBIS, LDUR, B_EQ ...; a64Op maps
// them to the A64 base mnemonic both disassemblers print.

func a64Op(name string) string {
	n := strings.ToLower(name)
	switch n {
	case "addi":
		return "add"
	case "addis":
		return "adds"
	case "andi":
		return "and"
	case "andis":
		return "ands"
	case "eori":
		return "eor"
	case "orri":
		return "orr"
	case "subi":
		return "sub"
	case "subis":
		return "subs"
	case "fadds", "faddd":
		return "fadd"
	case "fsubs", "fsubd":
		return "fsub"
	case "fmuls", "fmuld":
		return "fmul"
	case "fdivs", "fdivd":
		return "fdiv"
	case "fcmps", "fcmpd":
		return "fcmp"
	case "ldurs", "ldurd":
		return "ldur"
	case "sturs", "sturd", "sturw":
		return "stur"
	}
	if strings.HasPrefix(n, "b_") || strings.HasPrefix(n, "b.") {
		return "b." + n[2:]
	}
	return n
}

// a64Parse canonicalises one line of A64 assembly (GNU syntax as printed by
// arm64asm.GNUSyntax or llvm-mc).
func a64Parse(line string) dis {
	line = strings.ToLower(strings.TrimSpace(strings.ReplaceAll(line, "\t", " ")))
	if i := strings.Index(line, "//"); i >= 0 {
		line = strings.TrimSpace(line[:i])
	}
	if line == "" || strings.HasPrefix(line, ".") || strings.HasPrefix(line, "?") {
		return dis{raw: line}
	}
	d := dis{ok: true, raw: line, n: 4}
	i := strings.Index(line, " ")
	if i < 0 {
		d.op = line
		return d
	}
	d.op = line[:i]
	rest := strings.NewReplacer("[", "", "]", "", "!", "").Replace(line[i+1:])
	for _, o := range strings.Split(rest, ",") {
		o = strings.TrimSpace(o)
		if o == "" {
			continue
		}
		if strings.HasPrefix(o, "#") {
			if v, err := strconv.ParseInt(o[1:], 0, 64); err == nil {
				d.args = append(d.args, imm(v))
				continue
			}
		}
		if v, err := strconv.ParseInt(o, 0, 64); err == nil {
			d.args = append(d.args, imm(v))
			continue
		}
		d.args = append(d.args, strings.ReplaceAll(o, " ", ""))
	}
	return d
}

func a64Xarch(word uint32) dis {
	var b [4]byte
	binary.LittleEndian.PutUint32(b[:], word)
	inst, err := arm64asm.Decode(b[:])
	if err != nil {
		return dis{raw: err.Error()}
	}
	return a64Parse(arm64asm.GNUSyntax(inst))
}

func a64LLVM(lines []string) dis {
	if len(lines) != 1 {
		return dis{raw: strings.Join(lines, " ; ")}
	}
	return a64Parse(lines[0])
}

func a64LookupAs(name string) (abi.As, bool) {
	for as := abi.As(1); as < arm64.ALAST; as++ {
		if arm64.AsString(as, "") == name {
			return as, true
		}
	}
	return 0, false
}

func a64Mnemonics() []string {
	var out []string
	for as := abi.As(1); as < arm64.ALAST; as++ {
		out = append(out, arm64.AsString(as, ""))
	}
	return out
}

func a64Reg(r abi.RegType) string {
	var s string
	if p, _ := guard(func() { s = arm64.RegString(r) }); p || s == "" {
		return fmt.Sprintf("badreg%d", r)
	}
	return strings.ToLower(s)
}

func a64Check(k kase, mode llvmMode) (v verdict) {
	as, ok := a64LookupAs(k.As)
	if !ok {
		v.out = rejectedErr
		v.add("harness/unknown-mnemonic", "no AArch64 instruction named %q", k.As)
		return
	}
	arg := rvArg(k)
	var word uint32
	var err error
	if p, _ := guard(func() { word, err = arm64.EncodeARM64(as, arg) }); p {
		v.out = rejectedPanic
		return
	}
	if err != nil {
		v.out = rejectedErr
		return
	}
	v.out = accepted
	v.code = make([]byte, 4)
	binary.LittleEndian.PutUint32(v.code, word)
	pfx := "arm64/" + k.As + "/"
	desc := fmt.Sprintf("EncodeARM64(%s {Rd:%d Rs1:%d Rs2:%d Rs3:%d Imm:%d}) = %08x", k.As, k.Rd, k.Rs1, k.Rs2, k.Rs3, k.Imm, word)

	// expected: operation + the registers that were supplied, in field order,
	// + the immediate if it is non-zero or no register was supplied.
	want := dis{ok: true, op: a64Op(k.As)}
	for _, r := range []int{k.Rd, k.Rs1, k.Rs2, k.Rs3} {
		if r != 0 {
			want.args = append(want.args, a64Reg(abi.RegType(r)))
		}
	}
	if k.Imm != 0 || len(want.args) == 0 {
		want.args = append(want.args, imm(int64(k.Imm)))
	}
	v.want, v.boundary, v.shape = want, true, "a64"

	xa := a64Xarch(word)
	strip := func(d dis) dis { // drop a trailing zero immediate / zero offset the disassembler adds
		if d.ok && len(d.args) > len(want.args) && d.args[len(d.args)-1] == "#0" {
			d.args = d.args[:len(d.args)-1]
		}
		return d
	}
	xa = strip(xa)
	aspXa := aspects(want, xa, false)
	if len(aspXa) != 0 || mode == llvmAlways {
		if mode == llvmNever && llvmPath() != "" {
			v.needLLVM = true
			for _, a := range aspXa {
				v.cand = append(v.cand, finding{pfx + a, desc})
			}
		} else {
			ll, haveLL := dis{}, false
			if llvmPath() != "" {
				if lines, err := llvmA64.one(v.code); err == nil {
					ll, haveLL = strip(a64LLVM(lines)), true
					v.usedLLVM = true
				}
			}
			fail := func(as []string) {
				for _, a := range as {
					v.add(pfx+a, "%s; expected %q, x/arch arm64asm: %s, llvm-mc: %s", desc, want.String(), xa.String(), ll.String())
				}
			}
			switch {
			case !haveLL:
				fail(aspXa)
			case xa.ok && ll.ok:
				if !xa.equal(ll) {
					v.note("ref_conflict")
				} else {
					fail(aspXa)
				}
			case xa.ok || ll.ok:
				ref := xa
				if ll.ok {
					ref = ll
				}
				v.note("single_reference")
				fail(aspects(want, ref, false))
			default:
				fail([]string{"undecodable"})
			}
		}
	}
	// own decoder
	var das abi.As
	var darg *abi.AsArgument
	var derr error
	if p, m := guard(func() { das, darg, derr = arm64.Decode(word) }); p {
		v.add(pfx+"own-decode/panic", "%s; arm64.Decode panics: %s", desc, m)
		return
	}
	if derr != nil || darg == nil {
		v.add(pfx+"own-decode/error", "%s; arm64.Decode: %v", desc, derr)
		return
	}
	if das != as || int(darg.Rd) != k.Rd || int(darg.Rs1) != k.Rs1 || int(darg.Rs2) != k.Rs2 || int(darg.Rs3) != k.Rs3 || darg.Imm != k.Imm {
		v.add(pfx+"own-decode/args", "%s; arm64.Decode returns %s {Rd:%d Rs1:%d Rs2:%d Rs3:%d Imm:%d}", desc, arm64.AsString(das, ""), darg.Rd, darg.Rs1, darg.Rs2, darg.Rs3, darg.Imm)
	}
	return
}
