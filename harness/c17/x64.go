package c17

import (
	"fmt"
	"strconv"
	"strings"

	"wa-lang.org/wa/internal/native/abi"
	"wa-lang.org/wa/internal/native/x64"
	wax86 "wa-lang.org/wa/internal/native/x64/x86asm"
	"wa-lang.org/wa/zverif/harness/xarch/x86asm"
)

// ---------------------------------------------------------------- canonical form
//
// x86-64 operands: registers by their Intel name ("rax", "r9d", "xmm4"),
// memory "m<bytes>[base+index*scale+disp]" (bytes omitted for LEA, whose
// operand has no size), immediates "#v" reduced to the operand size (two's
// complement at that width), branch displacements "rel:v".

// x64Synonyms maps every spelling either decoder may print to one canonical
// mnemonic (Intel SDM vol.2: Jcc/SETcc/CMOVcc condition synonyms; MOVABS is
// the AT&T/LLVM spelling of MOV with a 64-bit immediate).
var x64Synonyms = map[string]string{
	"movabs": "mov",
	"jnb":    "jae", "jnc": "jae", "jnbe": "ja", "jnae": "jb", "jc": "jb", "jna": "jbe",
	"jz": "je", "jnz": "jne", "jnl": "jge", "jnle": "jg", "jnge": "jl", "jng": "jle", "jpe": "jp", "jpo": "jnp",
	"setnb": "setae", "setnc": "setae", "setnbe": "seta", "setnae": "setb", "setc": "setb", "setna": "setbe",
	"setz": "sete", "setnz": "setne", "setnl": "setge", "setnle": "setg", "setnge": "setl", "setng": "setle", "setpe": "setp", "setpo": "setnp",
	"cmovnb": "cmovae", "cmovnc": "cmovae", "cmovnbe": "cmova", "cmovnae": "cmovb", "cmovc": "cmovb", "cmovna": "cmovbe",
	"cmovz": "cmove", "cmovnz": "cmovne", "cmovnl": "cmovge", "cmovnle": "cmovg", "cmovnge": "cmovl", "cmovng": "cmovle", "cmovpe": "cmovp", "cmovpo": "cmovnp",
	"sal": "shl", "retq": "ret", "ret": "ret", "cdqe": "cdqe", "cltq": "cdqe", "cqto": "cqo", "cltd": "cdq",
}

func x64CanonOp(op string) string {
	op = strings.ToLower(strings.TrimSpace(op))
	if c, ok := x64Synonyms[op]; ok {
		return c
	}
	return op
}

var x64PtrBytes = map[string]int{"byte": 1, "word": 2, "dword": 4, "qword": 8, "xmmword": 16, "tbyte": 10, "ymmword": 32}

// x64Mem formats a memory atom.
func x64Mem(bytes int, base, index string, scale int, disp int64) string {
	var sb strings.Builder
	sb.WriteString("m")
	if bytes > 0 {
		fmt.Fprint(&sb, bytes)
	}
	sb.WriteString("[")
	sb.WriteString(base)
	if index != "" {
		fmt.Fprintf(&sb, "+%s*%d", index, scale)
	}
	if disp != 0 || (base == "" && index == "") {
		fmt.Fprintf(&sb, "%+d", disp)
	}
	sb.WriteString("]")
	return sb.String()
}

func parseNum(s string) (int64, bool) {
	s = strings.TrimSpace(s)
	neg := false
	if strings.HasPrefix(s, "-") {
		neg, s = true, s[1:]
	} else if strings.HasPrefix(s, "+") {
		s = s[1:]
	}
	u, err := strconv.ParseUint(s, 0, 64)
	if err != nil {
		return 0, false
	}
	v := int64(u)
	if neg {
		v = -v
	}
	return v, true
}

// x64ParseIntel parses one line of Intel syntax as printed by x/arch x86asm
// (IntelSyntax) or llvm-mc (--output-asm-variant=1).
func x64ParseIntel(line string) dis {
	line = strings.ToLower(strings.TrimSpace(line))
	d := dis{ok: true, raw: line}
	// prefixes printed as separate words
	for {
		trimmed := false
		for _, p := range []string{"rep ", "repne ", "repe ", "lock ", "data16 ", "addr32 ", "rex64 ", "rex.w "} {
			if strings.HasPrefix(line, p) {
				d.args = append(d.args, "prefix:"+strings.TrimSpace(p))
				line = line[len(p):]
				trimmed = true
			}
		}
		if !trimmed {
			break
		}
	}
	prefixes := d.args
	d.args = nil
	i := strings.IndexAny(line, " \t")
	if i < 0 {
		d.op = x64CanonOp(line)
		d.args = prefixes
		return d
	}
	d.op = x64CanonOp(line[:i])
	rest := strings.TrimSpace(line[i:])
	isBranch := d.op == "call" || d.op == "jmp" || (strings.HasPrefix(d.op, "j") && len(d.op) <= 4)
	for _, o := range strings.Split(rest, ",") {
		o = strings.TrimSpace(o)
		if o == "" {
			continue
		}
		bytes := 0
		if p := strings.Index(o, "ptr"); p >= 0 && strings.Contains(o, "[") {
			bytes = x64PtrBytes[strings.TrimSpace(o[:p])]
			o = strings.TrimSpace(o[p+3:])
		}
		if lb := strings.Index(o, "["); lb >= 0 {
			seg := strings.TrimSuffix(strings.TrimSpace(o[:lb]), ":")
			inner := strings.ReplaceAll(o[lb+1:strings.LastIndex(o, "]")], " ", "")
			var base, index string
			scale, disp := 1, int64(0)
			// split into signed terms
			var terms []string
			cur := ""
			for _, c := range inner {
				if (c == '+' || c == '-') && cur != "" {
					terms = append(terms, cur)
					cur = ""
				}
				cur += string(c)
			}
			if cur != "" {
				terms = append(terms, cur)
			}
			for _, t := range terms {
				body := strings.TrimLeft(t, "+")
				if v, ok := parseNum(body); ok {
					disp += v
					continue
				}
				body = strings.TrimLeft(body, "-")
				if star := strings.Index(body, "*"); star >= 0 {
					a, b := body[:star], body[star+1:]
					if n, ok := parseNum(a); ok {
						index, scale = b, int(n)
					} else if n, ok := parseNum(b); ok {
						index, scale = a, int(n)
					}
					continue
				}
				if base == "" {
					base = body
				} else {
					index = body
				}
			}
			disp = sext(disp, 32)
			atom := x64Mem(bytes, base, index, scale, disp)
			if seg != "" {
				atom = seg + ":" + atom
			}
			d.args = append(d.args, atom)
			continue
		}
		if strings.HasPrefix(o, ".") { // x86asm relative target ".+0x10"
			if v, ok := parseNum(o[1:]); ok {
				d.args = append(d.args, fmt.Sprintf("rel:%d", v))
				continue
			}
		}
		if v, ok := parseNum(o); ok {
			if isBranch {
				d.args = append(d.args, fmt.Sprintf("rel:%d", v))
			} else {
				d.args = append(d.args, imm(v))
			}
			continue
		}
		d.args = append(d.args, o)
	}
	d.args = append(prefixes, d.args...)
	return d
}

// x64Normalize reduces immediates to the operand size and removes
// presentation differences that carry no operand information.
func x64Normalize(d dis, opBytes int) dis {
	if !d.ok {
		return d
	}
	out := dis{ok: true, op: d.op, n: d.n, raw: d.raw}
	for _, a := range d.args {
		if strings.HasPrefix(a, "#") {
			v, _ := strconv.ParseInt(a[1:], 10, 64)
			switch d.op {
			case "shl", "shr", "sar", "rol", "ror", "roundsd", "roundss":
				v &= 0xff
			default:
				if opBytes > 0 && opBytes < 8 {
					v = sext(v, uint(8*opBytes))
				}
			}
			a = imm(v)
		}
		if d.op == "lea" && strings.HasPrefix(a, "m") {
			if lb := strings.Index(a, "["); lb > 0 {
				a = "m" + a[lb:]
			}
		}
		out.args = append(out.args, a)
	}
	// the D0/D1 "shift by one" forms are printed without their count by llvm-mc
	switch out.op {
	case "shl", "shr", "sar", "rol", "ror":
		if len(out.args) == 1 {
			out.args = append(out.args, "#1")
		}
	}
	// "imul r, imm" is the assemblers' shorthand for "imul r, r, imm"
	if out.op == "imul" && len(out.args) == 3 && out.args[0] == out.args[1] && strings.HasPrefix(out.args[2], "#") {
		out.args = []string{out.args[0], out.args[2]}
	}
	// TEST r/m, r is symmetric and has a single encoding: order operands
	if out.op == "test" && len(out.args) == 2 && strings.Contains(out.args[1], "[") {
		out.args[0], out.args[1] = out.args[1], out.args[0]
	}
	return out
}

// ---------------------------------------------------------------- expected form

func x64RegByName(name string) (abi.RegType, bool) {
	for r := abi.RegType(1); r < x64.REG_END; r++ {
		if x64.RegString(r) == name {
			return r, true
		}
	}
	return 0, false
}

func x64RegBytes(name string) int {
	r, ok := x64RegByName(name)
	if !ok {
		return 0
	}
	switch {
	case r >= x64.REG_XMM0:
		return 16
	case r >= x64.REG_RAX:
		return 8
	case r >= x64.REG_EAX:
		return 4
	case r >= x64.REG_AX:
		return 2
	case r == x64.REG_RIP:
		return 8
	}
	return 1
}

func x64Operand(o xop) *abi.X64Operand {
	op := &abi.X64Operand{}
	switch o.Kind {
	case "reg":
		op.Kind = abi.X64Operand_Reg
		op.Reg, _ = x64RegByName(o.Reg)
	case "mem":
		op.Kind = abi.X64Operand_Mem
		op.Reg, _ = x64RegByName(o.Reg)
		op.Offset = o.Off
		switch o.Ptr {
		case 1:
			op.PtrTyp = abi.X64BytePtr
		case 2:
			op.PtrTyp = abi.X64WordPtr
		case 4:
			op.PtrTyp = abi.X64DWordPtr
		case 8:
			op.PtrTyp = abi.X64QWordPtr
		}
	case "imm":
		op.Kind = abi.X64Operand_Imm
		op.Imm = o.Imm
	default:
		return nil
	}
	return op
}

func x64Arg(k kase) *abi.X64Argument {
	a := &abi.X64Argument{}
	if len(k.Ops) > 0 {
		a.Dst = x64Operand(k.Ops[0])
	}
	if len(k.Ops) > 1 {
		a.Src = x64Operand(k.Ops[1])
	}
	for _, o := range k.Ops[min(2, len(k.Ops)):] {
		a.Rest = append(a.Rest, x64Operand(o))
	}
	return a
}

func x64ArgString(k kase) string {
	var parts []string
	for _, o := range k.Ops {
		switch o.Kind {
		case "reg":
			parts = append(parts, o.Reg)
		case "imm":
			parts = append(parts, fmt.Sprint(o.Imm))
		case "mem":
			sz := map[int]string{1: "byte", 2: "word", 4: "dword", 8: "qword"}[o.Ptr]
			parts = append(parts, fmt.Sprintf("%s ptr [%s%+d]", sz, o.Reg, o.Off))
		}
	}
	return k.As + " " + strings.Join(parts, ", ")
}

var x64IsBranch = map[string]bool{"call": true, "jmp": true, "ja": true, "jae": true, "jb": true, "jbe": true, "je": true, "jne": true,
	"jg": true, "jge": true, "jl": true, "jle": true, "js": true, "jns": true, "jp": true, "jnp": true, "jo": true, "jno": true}

// x64Expected renders what the disassemblers must print for (mnemonic,
// operands): operation, operands in Intel order, operand size.
func x64Expected(k kase) (d dis, opBytes int, immRange, boundary bool) {
	d = dis{ok: true, op: x64CanonOp(k.As)}
	// operand size = widest register / memory operand (immediates have no size)
	for _, o := range k.Ops {
		switch o.Kind {
		case "reg":
			if b := x64RegBytes(o.Reg); b > opBytes && b <= 8 {
				opBytes = b
			}
		case "mem":
			if o.Ptr > opBytes {
				opBytes = o.Ptr
			}
		}
	}
	for _, o := range k.Ops {
		switch o.Kind {
		case "reg":
			d.args = append(d.args, o.Reg)
			if r, ok := x64RegByName(o.Reg); ok {
				n := int(r)
				boundary = boundary || n == int(x64.REG_RSP) || n == int(x64.REG_RBP) || n == int(x64.REG_R12) || n == int(x64.REG_R13) || n == int(x64.REG_R15) || n == int(x64.REG_R8)
			}
		case "mem":
			if o.Off < -(1<<31) || o.Off > 1<<31-1 {
				immRange = true
			}
			boundary = boundary || near(o.Off, 0, 127, -128, 1<<31-1, -(1<<31)) || o.Reg == "rsp" || o.Reg == "rbp" || o.Reg == "r12" || o.Reg == "r13" || o.Reg == "rip"
			d.args = append(d.args, x64Mem(o.Ptr, o.Reg, "", 1, o.Off))
		case "imm":
			if x64IsBranch[d.op] {
				if o.Imm < -(1<<31) || o.Imm > 1<<31-1 {
					immRange = true
				}
				boundary = boundary || near(o.Imm, 0, 127, -128, 1<<31-1, -(1<<31))
				d.args = append(d.args, fmt.Sprintf("rel:%d", o.Imm))
				continue
			}
			v := o.Imm
			if opBytes > 0 && opBytes < 8 {
				bits := uint(8 * opBytes)
				if v < -(1<<(bits-1)) || v > 1<<bits-1 {
					immRange = true
				}
				boundary = boundary || near(v, 0, 127, -128, 255, 1<<(bits-1)-1, -(1<<(bits-1)), 1<<bits-1)
			} else {
				boundary = boundary || near(v, 0, 127, -128, 1<<31-1, -(1<<31), 1<<32-1, 1<<63-1, -(1<<63))
			}
			d.args = append(d.args, imm(v))
		}
	}
	d = x64Normalize(d, opBytes)
	return
}

// ---------------------------------------------------------------- decoders

func x64Xarch(code []byte, opBytes int) dis {
	inst, err := x86asm.Decode(code, 64)
	if err != nil {
		return dis{raw: err.Error()}
	}
	text := x86asm.IntelSyntax(inst, 0, nil)
	d := x64ParseIntel(text)
	d.n = inst.Len
	if inst.Op == 0 || strings.HasPrefix(d.op, "rex") || strings.HasPrefix(d.op, "error") {
		return dis{raw: text}
	}
	return x64Normalize(d, opBytes)
}

// x64LLVMn parses llvm-mc's lines for one case (expected: exactly one line).
func x64LLVMn(lines []string, opBytes int) dis {
	if len(lines) != 1 {
		return dis{raw: strings.Join(lines, " ; ")}
	}
	d := x64ParseIntel(strings.ReplaceAll(lines[0], "\t", " "))
	return x64Normalize(d, opBytes)
}

// x64Family returns the architectural register number and width of a
// general-purpose register name (ok=false for xmm, rip, unknown).
func x64Family(name string) (num, bytes int, ok bool) {
	for w, set := range map[int][]string{1: x64GPR8, 2: x64GPR16, 4: x64GPR32, 8: x64GPR64} {
		for i, n := range set {
			if n == name {
				return i, w, true
			}
		}
	}
	return 0, 0, false
}

var (
	x64GPR8  = []string{"al", "cl", "dl", "bl", "spl", "bpl", "sil", "dil", "r8b", "r9b", "r10b", "r11b", "r12b", "r13b", "r14b", "r15b"}
	x64GPR16 = []string{"ax", "cx", "dx", "bx", "sp", "bp", "si", "di", "r8w", "r9w", "r10w", "r11w", "r12w", "r13w", "r14w", "r15w"}
	x64GPR32 = []string{"eax", "ecx", "edx", "ebx", "esp", "ebp", "esi", "edi", "r8d", "r9d", "r10d", "r11d", "r12d", "r13d", "r14d", "r15d"}
	x64GPR64 = []string{"rax", "rcx", "rdx", "rbx", "rsp", "rbp", "rsi", "rdi", "r8", "r9", "r10", "r11", "r12", "r13", "r14", "r15"}
)

// x64Aspects refines aspects for x86-64.  Beyond the generic ones:
//
//	reg-width   same register, other width: the operand's size was ignored
//	high8-rex   ah/ch/dh/bh in an instruction that needs a REX prefix (decodes as spl..dil)
//	mem-size    same address, other operand size
//	mem-base32  the 32-bit base register was encoded as its 64-bit parent (no 67h prefix)
//	imm32-sext  a 64-bit operation got an imm32 ≥ 2^31, which the CPU sign-extends
func x64Aspects(want, got dis, immRange bool) []string {
	base := aspects(want, got, immRange)
	if len(base) == 0 || base[0] == "undecodable" || base[0] == "op" || base[0] == "arity" {
		return base
	}
	seen := map[string]bool{}
	for i := range want.args {
		w, g := want.args[i], got.args[i]
		if w == g {
			continue
		}
		wm, gm := strings.Contains(w, "["), strings.Contains(g, "[")
		switch {
		case wm && gm:
			wa, ga := w[strings.Index(w, "["):], g[strings.Index(g, "["):]
			switch {
			case wa == ga:
				seen["mem-size"] = true
			case x64WidenBase(wa) == ga:
				seen["mem-base32"] = true
				if w[:strings.Index(w, "[")] != g[:strings.Index(g, "[")] {
					seen["mem-size"] = true
				}
			case immRange:
				seen["imm-range"] = true
			default:
				seen["mem"] = true
			}
		case wm != gm:
			seen["mem"] = true
		case strings.HasPrefix(w, "#") || strings.HasPrefix(w, "rel:"):
			wv, _ := strconv.ParseInt(strings.TrimPrefix(strings.TrimPrefix(w, "#"), "rel:"), 10, 64)
			gv, _ := strconv.ParseInt(strings.TrimPrefix(strings.TrimPrefix(g, "#"), "rel:"), 10, 64)
			switch {
			case immRange:
				seen["imm-range"] = true
			case wv >= 1<<31 && wv < 1<<32 && gv == wv-1<<32:
				seen["imm32-sext"] = true
			default:
				seen["imm"] = true
			}
		default:
			wn, _, wok := x64Family(w)
			gn, _, gok := x64Family(g)
			hi := map[string]string{"ah": "spl", "ch": "bpl", "dh": "sil", "bh": "dil"}
			switch {
			case wok && gok && wn == gn:
				seen["reg-width"] = true
			case hi[w] == g:
				seen["high8-rex"] = true
			default:
				seen["reg"] = true
			}
		}
	}
	var out []string
	for _, a := range []string{"reg", "reg-width", "high8-rex", "mem", "mem-base32", "mem-size", "imm-range", "imm32-sext", "imm"} {
		if seen[a] {
			out = append(out, a)
		}
	}
	return out
}

// x64ZeroExtMov: "mov r64, imm" with 0 ≤ imm < 2^32 may legitimately be
// encoded as "mov r32, imm32" (writing r32 zero-extends into r64; the Plan 9
// assembler and GNU as -O do this).  Such a decoding is rewritten to the
// expected spelling so that it compares equal.
func x64ZeroExtMov(want, got dis) dis {
	if !got.ok || want.op != "mov" || got.op != "mov" || len(want.args) != 2 || len(got.args) != 2 {
		return got
	}
	wn, ww, wok := x64Family(want.args[0])
	gn, gw, gok := x64Family(got.args[0])
	if !wok || !gok || wn != gn || ww != 8 || gw != 4 || !strings.HasPrefix(want.args[1], "#") || !strings.HasPrefix(got.args[1], "#") {
		return got
	}
	wv, _ := strconv.ParseInt(want.args[1][1:], 10, 64)
	gv, _ := strconv.ParseInt(got.args[1][1:], 10, 64)
	if wv >= 0 && wv < 1<<32 && uint32(gv) == uint32(wv) {
		out := got
		out.args = []string{want.args[0], want.args[1]}
		return out
	}
	return got
}

// x64SameRefs: the two references decode the same instruction.  Immediates
// are compared at every operand size: the references print an imm32 of a
// 32-bit operation with different signs, and the expected operand size need
// not be the size of what was actually encoded.
func x64SameRefs(a, b dis) bool {
	for _, size := range []int{0, 8, 4, 2, 1} {
		x, y := a, b
		if size != 0 {
			x, y = x64Normalize(a, size), x64Normalize(b, size)
		}
		if x.equal(y) {
			return true
		}
	}
	return false
}

// x64WidenBase rewrites "[ecx-1]" to "[rcx-1]".
func x64WidenBase(addr string) string {
	inner := strings.Trim(addr, "[]")
	end := strings.IndexAny(inner, "+-")
	if end < 0 {
		end = len(inner)
	}
	if n, w, ok := x64Family(inner[:end]); ok && w == 4 {
		return "[" + x64GPR64[n] + inner[end:] + "]"
	}
	return addr
}

// x64Key names a finding: operand-size handling is shared by all
// instructions (BuildProg takes the size of the widest operand and
// operand2P9Addr drops the rest), so those aspects get one key each.
func x64Key(k kase, aspect string) string {
	switch aspect {
	case "high8-rex", "mem-base32", "imm32-sext":
		return "x64/any/" + aspect
	case "reg-width", "mem-size":
		// the shared defect is "sizes of ill-sized operand lists are ignored".
		// A well-sized operand list that comes back at another width (e.g. a
		// dropped REX.W) is a different defect and keeps its own key.
		if x64IllSized(k) {
			return "x64/any/" + aspect
		}
	}
	return "x64/" + k.As + "/" + aspect
}

// x64IllSized: the operand list mixes operand sizes, or gives an operand of an
// instruction with an architecturally fixed operand size another size
// (SETcc: byte; CALL/JMP/PUSH/POP/MOVABS: 64 bit; shift/rotate count: cl).
func x64IllSized(k kase) bool {
	sizes := map[int]bool{}
	for i, o := range k.Ops {
		sz := 0
		switch o.Kind {
		case "reg":
			if _, w, ok := x64Family(o.Reg); ok {
				sz = w
			}
		case "mem":
			sz = o.Ptr
		}
		if sz == 0 {
			continue
		}
		op := x64CanonOp(k.As)
		switch {
		case strings.HasPrefix(op, "set"):
			if sz != 1 {
				return true
			}
		case op == "call" || op == "jmp" || op == "push" || op == "pop" || k.As == "movabs":
			if sz != 8 {
				return true
			}
		case (op == "shl" || op == "shr" || op == "sar" || op == "rol" || op == "ror") && i == 1:
			if sz != 1 {
				return true
			}
			continue
		}
		sizes[sz] = true
	}
	return len(sizes) > 1
}

// ---------------------------------------------------------------- oracle

func x64LookupAs(name string) (abi.As, bool) {
	for as := abi.As(1); as < x64.ALAST; as++ {
		if x64.AsString(as, "") == name {
			return as, true
		}
	}
	return 0, false
}

func x64Mnemonics() []string {
	var out []string
	for as := abi.As(1); as < x64.ALAST; as++ {
		out = append(out, x64.AsString(as, ""))
	}
	return out
}

func x64Check(k kase, mode llvmMode) (v verdict) {
	as, ok := x64LookupAs(k.As)
	if !ok {
		v.out = rejectedErr
		v.add("harness/unknown-mnemonic", "no x86-64 instruction named %q", k.As)
		return
	}
	arg := x64Arg(k)
	var code []byte
	var err error
	if p, _ := guard(func() { code, err = x64.Encode(as, arg) }); p {
		v.out = rejectedPanic // BuildProg assertion / asm6 "invalid instruction": not accepted
		return
	}
	if err != nil {
		v.out = rejectedErr
		return
	}
	v.out = accepted
	v.code = code
	pfx := "x64/" + k.As + "/"
	desc := fmt.Sprintf("x64.Encode(%s) = % x", x64ArgString(k), code)
	if len(code) == 0 {
		v.add(pfx+"empty", "%s: accepted but no bytes were produced", desc)
		return
	}
	want, opBytes, immRange, boundary := x64Expected(k)
	v.want, v.boundary, v.shape, v.opBytes = want, boundary, "", opBytes

	xa := x64ZeroExtMov(want, x64Xarch(code, opBytes))
	aspXa := x64Aspects(want, xa, immRange)
	if xa.ok && xa.n != len(code) && len(aspXa) == 0 {
		aspXa = []string{"length"}
	}
	var indep []string
	if len(aspXa) != 0 || mode == llvmAlways {
		if mode == llvmNever && llvmPath() != "" {
			v.needLLVM = true
			for _, a := range aspXa {
				v.cand = append(v.cand, finding{x64Key(k, a), desc})
			}
			indep = aspXa
			goto own
		}
		ll, haveLL := dis{}, false
		if llvmPath() != "" {
			if lines, err := llvmX64.one(code); err != nil {
				v.note("llvm_error")
			} else {
				ll, haveLL = x64ZeroExtMov(want, x64LLVMn(lines, opBytes)), true
				v.usedLLVM = true
			}
		}
		fail := func(as []string) {
			indep = append(indep, as...)
			texts := "x/arch x86asm: " + xa.String()
			if haveLL {
				texts += " | llvm-mc: " + ll.String()
			}
			for _, a := range as {
				v.add(x64Key(k, a), "%s; expected %q, independent decoders: %s", desc, want.String(), texts)
			}
		}
		switch {
		case !haveLL:
			fail(aspXa)
		case xa.ok && ll.ok:
			if !x64SameRefs(xa, ll) {
				v.note("ref_conflict")
			} else {
				fail(aspXa)
				v.note("llvm_compared")
			}
		case xa.ok || ll.ok:
			ref := xa
			if ll.ok {
				ref = ll
			}
			v.note("single_reference")
			fail(x64Aspects(want, ref, immRange))
		default:
			fail([]string{"undecodable"})
		}
	}
own:
	// own decoder (the repository's copy of x86asm): must consume exactly the
	// bytes produced and name the same operation.
	var inst *x64.Inst
	var derr error
	if p, m := guard(func() { inst, derr = x64.Decode(code, 64) }); p {
		v.add(pfx+"own-decode/panic", "%s; x64.Decode panics: %s", desc, m)
		return
	}
	if derr != nil || inst == nil {
		if !contains(indep, "undecodable") {
			v.add(pfx+"own-decode/error", "%s; x64.Decode: %v", desc, derr)
		}
		return
	}
	wi := (*wax86.Inst)(inst)
	if wi.Len != len(code) && !contains(indep, "length") && !contains(indep, "undecodable") && !contains(indep, "op") {
		v.add(pfx+"own-decode/length", "%s; x64.Decode consumes %d of %d bytes (%s)", desc, wi.Len, len(code), inst.String())
	}
	if op := x64CanonOp(wi.Op.String()); op != want.op && !(op == "movsd_xmm" && want.op == "movsd") && !contains(indep, "op") && !contains(indep, "undecodable") {
		v.add(pfx+"own-decode/op", "%s; x64.Decode names the operation %s (%s)", desc, op, inst.String())
	}
	return
}
