// Package c17 checks property C17: the native instruction encoders (RISC-V,
// LoongArch64, AArch64, x86-64) agree with independent disassemblers, and Wa's
// own decoders invert its encoders.
//
// Independent decoders:
//   - golang.org/x/arch {riscv64asm, loong64asm, arm64asm, x86asm}: source copy
//     under harness/xarch (see tools/xarch.sh), used in-process and compared
//     structurally (operation, register class+number, sign-extended immediates);
//   - llvm-mc-14 --disassemble for riscv32/riscv64, x86-64 (Intel syntax) and
//     aarch64: text, parsed into the same canonical form.  LLVM 14 has no
//     LoongArch target.
//
// Every instruction is reduced to a canonical form `dis{op, args}`: a lower
// case operation name plus a list of operand atoms ("x5", "f7", "#-8",
// "m32[rbp-16]" ...).  The expected form is rendered by the harness from the
// (mnemonic, argument) pair that was handed to the encoder, using harness-owned
// tables written from the ISA manuals; the decoders' forms are derived from
// their structured output / text.
package c17

import (
	"fmt"
	"strings"
)

const prop = "C17"

// kase is the replayable form of one case: a single instruction.
type kase struct {
	Arch string `json:"arch"` // rv32 | rv64 | la64 | x64 | arm64
	As   string `json:"as"`   // mnemonic as printed by the package's AsString

	// riscv / loong64 / arm64 (abi.AsArgument)
	Rd  int   `json:"rd,omitempty"`
	Rs1 int   `json:"rs1,omitempty"`
	Rs2 int   `json:"rs2,omitempty"`
	Rs3 int   `json:"rs3,omitempty"`
	Imm int32 `json:"imm,omitempty"`

	// x86-64 (abi.X64Argument): Dst, Src, Rest...
	Ops []xop `json:"ops,omitempty"`

	// Expect selects, for corpus reproducers of cases with several findings,
	// the finding the file stands for (replay only).
	Expect string `json:"expect,omitempty"`
}

// xop is one x86-64 operand.
type xop struct {
	Kind string `json:"k"`             // reg | mem | imm
	Reg  string `json:"reg,omitempty"` // register name (reg) or base register (mem)
	Ptr  int    `json:"ptr,omitempty"` // mem: operand size in bytes 1/2/4/8
	Off  int64  `json:"off,omitempty"` // mem: displacement
	Imm  int64  `json:"imm,omitempty"` // imm
}

// dis is the canonical form of one decoded (or expected) instruction.
type dis struct {
	ok   bool
	op   string
	args []string
	n    int    // bytes consumed, when known
	raw  string // decoder's own text, for messages
}

func (d dis) String() string {
	if !d.ok {
		if d.raw != "" {
			return "<undecodable: " + d.raw + ">"
		}
		return "<undecodable>"
	}
	return d.op + " " + strings.Join(d.args, ", ")
}

func (d dis) equal(o dis) bool {
	if d.ok != o.ok || d.op != o.op || len(d.args) != len(o.args) {
		return false
	}
	for i := range d.args {
		if d.args[i] != o.args[i] {
			return false
		}
	}
	return true
}

// finding is one discrepancy: a structural key plus a human description.
type finding struct {
	key  string
	what string
}

// aspects lists every way `got` differs from the expected form `want`
// (nil if equal): "undecodable", "op", "arity" (exclusive, operands are then not
// compared), or any of "reg-class", "reg", "mem", "imm-range", "imm".
// immRange says that some expected immediate was not representable in its
// field (the encoder accepted a value it had to truncate); immediate
// differences are then reported as "imm-range".
func aspects(want, got dis, immRange bool) []string {
	if !got.ok {
		return []string{"undecodable"}
	}
	if want.op != got.op {
		return []string{"op"}
	}
	if len(want.args) != len(got.args) {
		return []string{"arity"}
	}
	seen := map[string]bool{}
	for i := range want.args {
		w, g := want.args[i], got.args[i]
		if w == g {
			continue
		}
		switch {
		case immRange && w[0] == '#':
			seen["imm-range"] = true
		case isRegAtom(w) && isRegAtom(g):
			if regClass(w) != regClass(g) {
				seen["reg-class"] = true
				if w[len(regClass(w)):] != g[len(regClass(g)):] {
					seen["reg"] = true
				}
			} else {
				seen["reg"] = true
			}
		case isRegAtom(w) != isRegAtom(g):
			seen["reg-class"] = true
		case strings.Contains(w, "["):
			seen["mem"] = true
		case immRange:
			seen["imm-range"] = true
		default:
			seen["imm"] = true
		}
	}
	var out []string
	for _, a := range []string{"reg-class", "reg", "mem", "imm-range", "imm"} {
		if seen[a] {
			out = append(out, a)
		}
	}
	return out
}

func isRegAtom(a string) bool {
	return a != "" && a[0] != '#' && !strings.Contains(a, "[") && !strings.HasPrefix(a, "rel:")
}

// regClass returns the alphabetic prefix of a register atom ("x", "f", "fcc",
// ...); for x86 names the whole name is its own class.
func regClass(a string) string {
	i := len(a)
	for i > 0 && a[i-1] >= '0' && a[i-1] <= '9' {
		i--
	}
	return a[:i]
}

func imm(v int64) string { return fmt.Sprintf("#%d", v) }

func sext(v int64, bits uint) int64 { return v << (64 - bits) >> (64 - bits) }

// guard runs f and converts a panic into (true, message).
func guard(f func()) (panicked bool, msg string) {
	defer func() {
		if r := recover(); r != nil {
			panicked = true
			msg = fmt.Sprint(r)
			if len(msg) > 200 {
				msg = msg[:200]
			}
		}
	}()
	f()
	return
}

// outcome of handing one tuple to an encoder.
type outcome int

const (
	accepted outcome = iota
	rejectedErr
	rejectedPanic
)

// llvmMode says how a check may use llvm-mc (≈0.16 s per process start).
type llvmMode int

const (
	llvmNever  llvmMode = iota // never start llvm-mc; set verdict.needLLVM when arbitration is needed
	llvmSync                   // start (or hit the cache) when the in-process decoder disagrees
	llvmAlways                 // also cross-check agreeing cases (replay)
)

// verdict is the result of evaluating one case.
type verdict struct {
	out      outcome
	findings []finding // empty = property holds on this case
	want     dis       // expected canonical form (accepted cases)
	code     []byte    // encoder output
	notes    []string  // counters to bump ("ref_conflict", "llvm_unknown", ...)
	usedLLVM bool      // llvm-mc already took part in this verdict
	needLLVM bool      // mode llvmNever: the verdict needs llvm-mc arbitration
	cand     []finding // ... and these are the findings by the in-process decoder alone
	boundary bool      // some immediate sits on a field boundary
	shape    string    // operand-class vector, for distinctness accounting
	opBytes  int       // x86-64: operand size the immediates are reduced to
}

func (v *verdict) add(key, format string, a ...interface{}) {
	v.findings = append(v.findings, finding{key, fmt.Sprintf(format, a...)})
}

func (v *verdict) note(n string) { v.notes = append(v.notes, n) }
