package c17

import (
	"bytes"
	"encoding/hex"
	"fmt"
	"os/exec"
	"strings"
	"sync"
	"sync/atomic"
)

// llvmTarget describes one llvm-mc disassembler configuration.  Every case is
// fed as an atomic block "[0x.. 0x..]" followed by a sentinel block; the output
// lines between two sentinel lines are the decoding of that case (none =
// invalid encoding, more than one = the first instruction did not consume all
// bytes).  The sentinel is an instruction none of the Wa encoders can produce.
type llvmTarget struct {
	name     string
	args     []string
	sentinel []byte

	once     sync.Once
	sentText string
	err      error
}

var (
	llvmRV64 = &llvmTarget{name: "riscv64", sentinel: []byte{0x2f, 0x20, 0x00, 0x10}, // lr.w x0, (x0)
		args: []string{"-triple=riscv64", "-mattr=+m,+a,+f,+d", "-M", "no-aliases", "-M", "numeric"}}
	llvmRV32 = &llvmTarget{name: "riscv32", sentinel: []byte{0x2f, 0x20, 0x00, 0x10},
		args: []string{"-triple=riscv32", "-mattr=+m,+a,+f,+d", "-M", "no-aliases", "-M", "numeric"}}
	llvmX64 = &llvmTarget{name: "x86_64", sentinel: []byte{0x0f, 0x0b}, // ud2
		args: []string{"-triple=x86_64", "--output-asm-variant=1"}}
	llvmA64 = &llvmTarget{name: "aarch64", sentinel: []byte{0x20, 0x3e, 0x3e, 0xd4}, // brk #0xf1f1
		args: []string{"-triple=aarch64", "-mattr=+v8.2a"}}
)

var (
	llvmBinOnce sync.Once
	llvmBin     string
)

// llvmFailures counts llvm-mc runs that failed outright; after a few the tool
// is treated as unavailable for the rest of the process (x/arch remains).
var llvmFailures atomic.Int32

func llvmOnlyWarnings(stderr string) bool {
	for _, l := range strings.Split(stderr, "\n") {
		if strings.HasPrefix(l, "<stdin>:") && !strings.Contains(l, "warning:") {
			return false
		}
		if strings.Contains(l, "error:") {
			return false
		}
	}
	return true
}

func llvmPath() string {
	if llvmFailures.Load() > 20 {
		return ""
	}
	llvmBinOnce.Do(func() {
		for _, n := range []string{"llvm-mc-14", "llvm-mc"} {
			if p, err := exec.LookPath(n); err == nil {
				llvmBin = p
				return
			}
		}
	})
	return llvmBin
}

func blockLine(code []byte) string {
	var sb strings.Builder
	sb.WriteByte('[')
	for i, b := range code {
		if i > 0 {
			sb.WriteByte(' ')
		}
		fmt.Fprintf(&sb, "0x%02x", b)
	}
	sb.WriteString("]\n")
	return sb.String()
}

func (t *llvmTarget) run(input string) ([]string, error) {
	bin := llvmPath()
	if bin == "" {
		return nil, fmt.Errorf("llvm-mc not installed")
	}
	cmd := exec.Command(bin, append([]string{"--disassemble"}, t.args...)...)
	cmd.Stdin = strings.NewReader(input)
	var out, errb bytes.Buffer
	cmd.Stdout, cmd.Stderr = &out, &errb
	if err := cmd.Run(); err != nil {
		// llvm-mc exits 1 when some block was an invalid encoding (reported as
		// warnings); that is an answer, not a failure.
		if _, isExit := err.(*exec.ExitError); !isExit || !llvmOnlyWarnings(errb.String()) {
			llvmFailures.Add(1)
			return nil, fmt.Errorf("llvm-mc %s: %v: %.300s", t.name, err, errb.String())
		}
	}
	var lines []string
	for _, l := range strings.Split(out.String(), "\n") {
		l = strings.TrimSpace(l)
		if l == "" || l == ".text" || strings.HasPrefix(l, ".") && !strings.ContainsAny(l, " \t") {
			continue
		}
		lines = append(lines, l)
	}
	return lines, nil
}

func (t *llvmTarget) init() error {
	t.once.Do(func() {
		lines, err := t.run(blockLine(t.sentinel))
		if err != nil {
			t.err = err
			return
		}
		if len(lines) != 1 {
			t.err = fmt.Errorf("llvm-mc %s: sentinel decodes to %q", t.name, lines)
			return
		}
		t.sentText = lines[0]
	})
	return t.err
}

// disasm returns, for every code, the disassembly lines llvm-mc produced for it.
func (t *llvmTarget) disasm(codes [][]byte) ([][]string, error) {
	if err := t.init(); err != nil {
		return nil, err
	}
	if len(codes) == 0 {
		return nil, nil
	}
	var sb strings.Builder
	sent := blockLine(t.sentinel)
	for _, c := range codes {
		sb.WriteString(blockLine(c))
		sb.WriteString(sent)
	}
	lines, err := t.run(sb.String())
	if err != nil {
		return nil, err
	}
	res := make([][]string, 0, len(codes))
	var cur []string
	for _, l := range lines {
		if l == t.sentText {
			res = append(res, cur)
			cur = nil
			continue
		}
		cur = append(cur, l)
	}
	if len(res) != len(codes) || len(cur) != 0 {
		if len(codes) == 1 {
			return nil, fmt.Errorf("llvm-mc %s: cannot delimit output for %x: %q", t.name, codes[0], lines)
		}
		// a case produced the sentinel text itself (or swallowed it): one by one
		res = res[:0]
		for _, c := range codes {
			r, err := t.disasm([][]byte{c})
			if err != nil {
				return nil, err
			}
			res = append(res, r[0])
		}
	}
	return res, nil
}

var (
	llvmCacheMu sync.Mutex
	llvmCache   = map[string][]string{}
)

// one disassembles a single code (cached); used to arbitrate when the
// in-process decoder disagrees with the expected form, and by replay.
func (t *llvmTarget) one(code []byte) ([]string, error) {
	k := t.name + ":" + hex.EncodeToString(code)
	llvmCacheMu.Lock()
	r, ok := llvmCache[k]
	llvmCacheMu.Unlock()
	if ok {
		return r, nil
	}
	rs, err := t.disasm([][]byte{code})
	if err != nil {
		return nil, err
	}
	llvmCacheMu.Lock()
	llvmCache[k] = rs[0]
	llvmCacheMu.Unlock()
	return rs[0], nil
}

// prefetch disassembles many codes with few llvm-mc processes and stores the
// results in the cache used by one.
func (t *llvmTarget) prefetch(codes [][]byte) error {
	seen := map[string]bool{}
	var todo [][]byte
	llvmCacheMu.Lock()
	for _, c := range codes {
		k := t.name + ":" + hex.EncodeToString(c)
		if _, ok := llvmCache[k]; !ok && !seen[k] {
			seen[k] = true
			todo = append(todo, c)
		}
	}
	llvmCacheMu.Unlock()
	const chunk = 4000
	for i := 0; i < len(todo); i += chunk {
		j := i + chunk
		if j > len(todo) {
			j = len(todo)
		}
		res, err := t.disasm(todo[i:j])
		if err != nil {
			return err
		}
		llvmCacheMu.Lock()
		for n, c := range todo[i:j] {
			llvmCache[t.name+":"+hex.EncodeToString(c)] = res[n]
		}
		llvmCacheMu.Unlock()
	}
	return nil
}
