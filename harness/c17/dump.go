package c17

import (
	"encoding/json"
	"fmt"
	"os"
	"path/filepath"
	"regexp"
	"sort"
	"testing"

	"wa-lang.org/wa/zverif/harness/core"
)

// dumper is a maintenance aid, active only when VERIF_C17_DUMP=<dir> is set:
// instead of failing on a finding whose key is not listed in
// known_findings.jsonl, the simplest case seen for every key is written to
// <dir>/<key>.json (replay format) together with a candidate known_findings
// line in <dir>/known.jsonl.  It never touches /verif/known_findings.jsonl.
type dumper struct {
	dir  string
	best map[string]dumped
}

type dumped struct {
	k    kase
	what string
	size int
}

func newDumper() *dumper {
	return &dumper{dir: os.Getenv("VERIF_C17_DUMP"), best: map[string]dumped{}}
}

func caseSize(k kase) int {
	n := 0
	abs := func(v int64) int {
		if v < 0 {
			v = -v
		}
		if v > 1<<40 {
			v = 1 << 40
		}
		// prefer short decimal spellings
		n := 0
		for ; v > 0; v /= 2 {
			n++
		}
		return n
	}
	for _, r := range []int{k.Rd, k.Rs1, k.Rs2, k.Rs3} {
		if r != 0 {
			n += 1000 + r
		}
	}
	n += abs(int64(k.Imm))
	for _, o := range k.Ops {
		n += 1000 + abs(o.Off) + abs(o.Imm) + len(o.Reg)
	}
	return n
}

// take records the finding and reports whether the failure must be suppressed.
func (d *dumper) take(k kase, f finding) bool {
	if d.dir == "" || core.IsKnown(prop, f.key) {
		return false
	}
	k.Expect = f.key
	sz := caseSize(k)
	if b, ok := d.best[f.key]; !ok || sz < b.size {
		d.best[f.key] = dumped{k, f.what, sz}
	}
	return true
}

var dumpSanitize = regexp.MustCompile(`[^A-Za-z0-9_.-]+`)

func (d *dumper) flush(t *testing.T) {
	if d.dir == "" || len(d.best) == 0 {
		return
	}
	os.MkdirAll(d.dir, 0o755)
	keys := make([]string, 0, len(d.best))
	for k := range d.best {
		keys = append(keys, k)
	}
	sort.Strings(keys)
	for _, key := range keys {
		b := d.best[key]
		b.k = minimize(b.k, key)
		b.size = caseSize(b.k)
		for _, f := range check(b.k, llvmSync).findings {
			if f.key == key {
				b.what = f.what
			}
		}
		name := dumpSanitize.ReplaceAllString(key, "_") + ".json"
		path := filepath.Join(d.dir, name)
		// keep the simplest reproducer across shards
		if old, err := core.LoadReplay(path); err == nil {
			var ok kase
			if json.Unmarshal(old.Case, &ok) == nil && caseSize(ok) <= b.size {
				continue
			}
		}
		raw, _ := json.Marshal(b.k)
		rf := core.ReplayFile{Property: prop, Test: t.Name(), Key: key, What: b.what, Seed: core.Seed(), Case: raw}
		data, _ := json.MarshalIndent(rf, "", " ")
		os.WriteFile(path, data, 0o644)
	}
	fmt.Fprintf(os.Stderr, "c17 dump: %d keys written to %s\n", len(keys), d.dir)
}

// hasFinding reports whether case k still shows the finding key.
func hasFinding(k kase, key string) bool {
	for _, f := range check(k, llvmSync).findings {
		if f.key == key {
			return true
		}
	}
	return false
}

// minimize greedily simplifies a failing case while it keeps showing key:
// numbers move towards 0, registers towards the first of their class, operands
// that do not matter are dropped.  Deterministic, no randomness.
func minimize(k kase, key string) kase {
	if !hasFinding(k, key) {
		return k
	}
	try := func(c kase) bool {
		c.Expect = key
		if caseSize(c) < caseSize(k) && hasFinding(c, key) {
			k = c
			return true
		}
		return false
	}
	nums := func(v int64) []int64 {
		return []int64{0, 1, -1, 2, 4, v / 2, v / 16, v - 1, v + 1, int64(int32(v)), 1 << 31, 1<<32 - 1}
	}
	for round := 0; round < 6; round++ {
		changed := false
		for _, v := range nums(int64(k.Imm)) {
			c := k
			c.Imm = int32(v)
			changed = try(c) || changed
		}
		for i, p := range []*int{&k.Rd, &k.Rs1, &k.Rs2, &k.Rs3} {
			for _, v := range []int{0, 1, 2, 33, 34, *p - 1} {
				c := k
				*[]*int{&c.Rd, &c.Rs1, &c.Rs2, &c.Rs3}[i] = v
				changed = try(c) || changed
			}
		}
		for i := range k.Ops {
			o := k.Ops[i]
			var alts []xop
			for _, v := range nums(o.Imm) {
				a := o
				a.Imm = v
				alts = append(alts, a)
			}
			for _, v := range nums(o.Off) {
				a := o
				a.Off = v
				alts = append(alts, a)
			}
			for _, r := range []string{"rax", "eax", "al", "rcx", "ecx", "rbp", "r8", "r8d"} {
				a := o
				if a.Kind != "imm" {
					a.Reg = r
					alts = append(alts, a)
				}
			}
			for _, a := range alts {
				c := k
				c.Ops = append([]xop{}, k.Ops...)
				c.Ops[i] = a
				changed = try(c) || changed
			}
		}
		if !changed {
			break
		}
	}
	return k
}
