package c17

import (
	"encoding/json"
	"fmt"
	"os"
	"path/filepath"
	"regexp"
	"sort"
	"testing"

	"wa-lang.org/wa/zverif/harness/core"
)

// dumper is a maintenance aid, active only when VERIF_C17_DUMP=<dir> is set:
// instead of failing on a finding whose key is not listed in
// known_findings.jsonl, the simplest case seen for every key is written to
// <dir>/<key>.json (replay format) together with a candidate known_findings
// line in <dir>/known.jsonl.  It never touches /verif/known_findings.jsonl.
type dumper struct {
	dir  string
	best map[string]dumped
}

type dumped struct {
	k    kase
	what string
	size int
}

func newDumper() *dumper {
	return &dumper{dir: os.Getenv("VERIF_C17_DUMP"), best: map[string]dumped{}}
}

func caseSize(k kase) int {
	n := 0
	abs := func(v int64) int {
		if v < 0 {
			v = -v
		}
		if v > 1<<20 {
			v = 1 << 20
		}
		return int(v)
	}
	for _, r := range []int{k.Rd, k.Rs1, k.Rs2, k.Rs3} {
		if r != 0 {
			n += 100000 + r
		}
	}
	n += abs(int64(k.Imm))
	for _, o := range k.Ops {
		n += 100000 + abs(o.Off) + abs(o.Imm) + len(o.Reg)
	}
	return n
}

// take records the finding and reports whether the failure must be suppressed.
func (d *dumper) take(k kase, f finding) bool {
	if d.dir == "" || core.IsKnown(prop, f.key) {
		return false
	}
	k.Expect = f.key
	sz := caseSize(k)
	if b, ok := d.best[f.key]; !ok || sz < b.size {
		d.best[f.key] = dumped{k, f.what, sz}
	}
	return true
}

var dumpSanitize = regexp.MustCompile(`[^A-Za-z0-9_.-]+`)

func (d *dumper) flush(t *testing.T) {
	if d.dir == "" || len(d.best) == 0 {
		return
	}
	os.MkdirAll(d.dir, 0o755)
	keys := make([]string, 0, len(d.best))
	for k := range d.best {
		keys = append(keys, k)
	}
	sort.Strings(keys)
	for _, key := range keys {
		b := d.best[key]
		name := dumpSanitize.ReplaceAllString(key, "_") + ".json"
		path := filepath.Join(d.dir, name)
		// keep the simplest reproducer across shards
		if old, err := core.LoadReplay(path); err == nil {
			var ok kase
			if json.Unmarshal(old.Case, &ok) == nil && caseSize(ok) <= b.size {
				continue
			}
		}
		raw, _ := json.Marshal(b.k)
		rf := core.ReplayFile{Property: prop, Test: t.Name(), Key: key, What: b.what, Seed: core.Seed(), Case: raw}
		data, _ := json.MarshalIndent(rf, "", " ")
		os.WriteFile(path, data, 0o644)
	}
	fmt.Fprintf(os.Stderr, "c17 dump: %d keys written to %s\n", len(keys), d.dir)
}
