package c17

import (
	"encoding/json"
	"fmt"
	"os"
	"path/filepath"
	"sort"
	"strings"
	"testing"

	"pgregory.net/rapid"
	"wa-lang.org/wa/internal/native/arm64"
	"wa-lang.org/wa/internal/native/loong64"
	"wa-lang.org/wa/zverif/harness/core"
)

func TestMain(m *testing.M) { core.Main(m) }

// ---------------------------------------------------------------- case evaluation

// check dispatches one case to its architecture's oracle.
func check(k kase, mode llvmMode) verdict {
	switch k.Arch {
	case "rv32", "rv64":
		return rvCheck(k, mode)
	case "la64":
		return laCheck(k)
	case "x64":
		return x64Check(k, mode)
	case "arm64":
		return a64Check(k, mode)
	}
	var v verdict
	v.out = rejectedErr
	v.add("harness/bad-arch", "unknown architecture %q", k.Arch)
	return v
}

// pending is an accepted case whose llvm-mc cross-check is done in bulk after
// the generation loop (one llvm-mc process per few thousand instructions).
type pending struct {
	k       kase
	code    []byte
	want    dis
	opBytes int
}

// runner carries the per-test accounting shared by the rapid properties and
// the enumerations.
type runner struct {
	s        *core.Stats
	pend     map[string][]pending // by arch
	dump     *dumper
	attempt  map[string]bool
	deferAll bool   // enumerations / dump mode: arbitrate in bulk after the loop
	deferred []kase // cases waiting for llvm-mc arbitration
}

func newRunner(s *core.Stats, deferAll bool) *runner {
	d := newDumper()
	s.Note("per-mnemonic histogram: classes '<test>/<arch>/<mnemonic>/acc' (accepted by the encoder; every accepted case is compared with x/arch, and with llvm-mc where a target exists, unless counted under ref_conflict/dropped_unknown_to_reference) and '.../rej' (encoder returned an error or panicked: rejected_by_domain)")
	return &runner{s: s, pend: map[string][]pending{}, dump: d, attempt: map[string]bool{}, deferAll: deferAll || d.dir != ""}
}

func llvmFor(arch string) *llvmTarget {
	return map[string]*llvmTarget{"rv32": llvmRV32, "rv64": llvmRV64, "x64": llvmX64, "arm64": llvmA64}[arch]
}

// eval evaluates one case, does the bookkeeping and reports violations on c.
// A case whose verdict needs llvm-mc arbitration is arbitrated at once
// (rapid properties: the verdict must belong to the case being shrunk) unless
// every candidate finding is already listed as known, or - in enumerations -
// queued for one bulk llvm-mc run after the loop.
func (r *runner) eval(c *core.Case, k kase) {
	c.Set(k)
	v := check(k, llvmNever)
	r.attempt[k.Arch+"/"+k.As] = true
	if v.needLLVM {
		if r.deferAll {
			r.deferred = append(r.deferred, k)
			return
		}
		allKnown := true
		for _, f := range v.cand {
			allKnown = allKnown && core.IsKnown(prop, f.key)
		}
		if allKnown && len(v.cand) > 0 {
			v.findings = append(v.cand, v.findings...)
			r.s.Counter("known_without_arbitration/"+k.Arch, 1)
		} else {
			v = check(k, llvmSync)
		}
	}
	r.account(c, k, v)
}

func (r *runner) account(c *core.Case, k kase, v verdict) {
	mn := k.Arch + "/" + k.As
	switch v.out {
	case rejectedErr:
		c.Class(mn + "/rej")
		r.s.Counter("rejected_by_domain", 1)
	case rejectedPanic:
		c.Class(mn + "/rej")
		r.s.Counter("rejected_by_domain", 1)
		r.s.Counter("rejected_by_domain/panic", 1)
	case accepted:
		c.Class(mn + "/acc")
		r.s.Counter("accepted/"+k.Arch, 1)
	}
	for _, n := range v.notes {
		r.s.Counter(n+"/"+k.Arch, 1)
	}
	for _, f := range v.findings {
		if r.dump.take(k, f) {
			continue
		}
		c.Fail(f.key, "%s", f.what)
	}
	if v.out == accepted {
		if len(v.findings) == 0 && llvmFor(k.Arch) != nil && !v.usedLLVM {
			r.pend[k.Arch] = append(r.pend[k.Arch], pending{k, v.code, v.want, v.opBytes})
			if len(r.pend[k.Arch]) >= 60000 {
				// bounded memory in the thorough tier; the bulk cross-check only
				// feeds counters (x/arch already agreed), so it may run mid-loop
				r.flushLLVM(nil)
			}
		}
		if v.boundary {
			c.Nontrivial(k.Arch, k.As, v.shape, classVector(k), boundaryBucket(k))
		}
	}
}

// resolveDeferred arbitrates the queued cases: one llvm-mc run per
// architecture fills the cache, then every case is evaluated again.
func (r *runner) resolveDeferred(t *testing.T) {
	if len(r.deferred) == 0 {
		return
	}
	byArch := map[string][][]byte{}
	for _, k := range r.deferred {
		v := check(k, llvmNever)
		if v.code != nil {
			byArch[k.Arch] = append(byArch[k.Arch], v.code)
		}
	}
	for arch, codes := range byArch {
		if tg := llvmFor(arch); tg != nil {
			if err := tg.prefetch(codes); err != nil {
				r.s.Note("llvm-mc prefetch failed: " + err.Error())
			}
		}
	}
	for _, k := range r.deferred {
		c := r.s.NewCase(t)
		c.Set(k)
		r.account(c, k, check(k, llvmSync))
		c.Done()
	}
	r.deferred = nil
}

// classVector summarises which kind of value sits in each argument field.
func classVector(k kase) string {
	if k.Arch == "x64" {
		var sb strings.Builder
		for _, o := range k.Ops {
			sb.WriteString(o.Kind[:1])
			sb.WriteString(fmt.Sprint(o.Ptr))
			sb.WriteString(o.Reg)
			sb.WriteByte(',')
		}
		return sb.String()
	}
	f := func(r int) byte {
		switch {
		case r == 0:
			return '-'
		case r <= 32:
			return 'x'
		case r <= 64:
			return 'f'
		}
		return 'o'
	}
	return string([]byte{f(k.Rd), f(k.Rs1), f(k.Rs2), f(k.Rs3)})
}

func boundaryBucket(k kase) string {
	if k.Arch == "x64" {
		var parts []string
		for _, o := range k.Ops {
			parts = append(parts, fmt.Sprint(o.Off, "/", o.Imm))
		}
		return strings.Join(parts, ",")
	}
	return fmt.Sprint(k.Imm)
}

// flushLLVM cross-checks every agreeing accepted case against llvm-mc in bulk.
// x/arch already agreed with the expected form for these cases, so an llvm-mc
// disagreement is a conflict between the two references (counted, dropped).
func (r *runner) flushLLVM(t *testing.T) {
	if t != nil && t.Failed() {
		return
	}
	if llvmPath() == "" {
		r.s.Note("llvm-mc not installed: the llvm cross-check was skipped, x/arch was the only independent decoder")
		return
	}
	archs := make([]string, 0, len(r.pend))
	for a := range r.pend {
		archs = append(archs, a)
	}
	sort.Strings(archs)
	for _, arch := range archs {
		list := r.pend[arch]
		target := llvmFor(arch)
		if target == nil {
			continue
		}
		const chunk = 4000
		for i := 0; i < len(list); i += chunk {
			j := i + chunk
			if j > len(list) {
				j = len(list)
			}
			codes := make([][]byte, 0, j-i)
			for _, p := range list[i:j] {
				codes = append(codes, p.code)
			}
			res, err := target.disasm(codes)
			if err != nil {
				r.s.Note("llvm-mc batch failed (inconclusive for the llvm cross-check only): " + err.Error())
				r.s.Counter("llvm_batch_error/"+arch, 1)
				continue
			}
			for n, p := range list[i:j] {
				var ll dis
				skip := false
				switch arch {
				case "rv32", "rv64":
					ll, skip = rvLLVM(res[n], p.want.op)
				case "x64":
					ll = x64ZeroExtMov(p.want, x64LLVMn(res[n], p.opBytes))
				case "arm64":
					ll = a64LLVM(res[n])
				}
				r.s.Eval(1)
				switch {
				case skip:
					r.s.Counter("llvm_csr_name_unknown/"+arch, 1)
				case ll.equal(p.want):
					r.s.Counter("llvm_agrees/"+arch, 1)
				default:
					r.s.Counter("ref_conflict/"+arch, 1)
					if t != nil && os.Getenv("VERIF_C17_VERBOSE") != "" {
						t.Logf("ref conflict %s %x: want %q llvm %q (%s)", arch, p.code, p.want.String(), ll.String(), ll.raw)
					}
				}
			}
		}
	}
	r.pend = map[string][]pending{}
}

// evalEnum is eval for enumerations (outside rapid).
func (r *runner) evalEnum(t *testing.T, k kase) {
	c := r.s.NewCase(t)
	n := len(r.deferred)
	r.eval(c, k)
	if len(r.deferred) == n {
		c.Done()
	}
}

// finish runs the bulk llvm-mc work and flushes; deferred from the tests.
func (r *runner) finish(t *testing.T) {
	if !t.Failed() {
		r.resolveDeferred(t)
		r.flushLLVM(t)
	}
	r.dump.flush(t)
	r.s.Flush()
}

// coverage fails the test when some mnemonic of a table was never attempted.
func (r *runner) coverage(t *testing.T, arch string, all []string) {
	missing := 0
	for _, m := range all {
		if !r.attempt[arch+"/"+m] {
			missing++
		}
	}
	if core.FirstShard() {
		r.s.Counter("mnemonics_in_table/"+arch, int64(len(all)))
	}
	r.s.Counter("mnemonics_not_attempted/"+arch, int64(missing))
	if missing != 0 {
		t.Errorf("harness: %d mnemonics of the %s table were never attempted", missing, arch)
	}
}

// ---------------------------------------------------------------- generators

// genReg draws an architectural register number 0..n-1, biased to the ends.
func genRegNum(n int) *rapid.Generator[int] {
	return rapid.Custom(func(t *rapid.T) int {
		switch rapid.IntRange(0, 4).Draw(t, "rsel") {
		case 0:
			return rapid.SampledFrom([]int{0, 1, n - 1, n - 2, n / 2, n/2 - 1}).Draw(t, "redge") % n
		default:
			return rapid.IntRange(0, n-1).Draw(t, "rnum")
		}
	})
}

// genImmBits draws a boundary-biased immediate for a field of `bits` bits.
// signed: the field is two's complement; align: required alignment (1 = none).
func genImmBits(bits uint, align int64) *rapid.Generator[int32] {
	return rapid.Custom(func(t *rapid.T) int32 {
		smin, smax := -(int64(1) << (bits - 1)), int64(1)<<(bits-1)-1
		umax := int64(1)<<bits - 1
		var v int64
		switch rapid.IntRange(0, 6).Draw(t, "iclass") {
		case 0, 1:
			base := rapid.SampledFrom([]int64{smin, smax, umax, 0, smin * 2, umax * 2}).Draw(t, "ibase")
			v = base + rapid.Int64Range(-2, 2).Draw(t, "idelta")
		case 2:
			pat := rapid.SampledFrom([]int64{0x55555555, 0x2aaaaaaa, 0x33333333, 0x0f0f0f0f}).Draw(t, "ipat") & umax
			if rapid.Bool().Draw(t, "ineg") {
				pat = sext(pat|int64(1)<<(bits-1), bits)
			}
			v = pat
		case 3:
			v = rapid.Int64Range(smin, smax).Draw(t, "isigned")
		case 4:
			v = rapid.Int64Range(0, umax).Draw(t, "iunsigned")
		case 5:
			k := rapid.UintRange(0, 31).Draw(t, "ipow")
			v = int64(1)<<k + rapid.Int64Range(-1, 1).Draw(t, "idelta")
			if rapid.Bool().Draw(t, "ineg") {
				v = -v
			}
		default:
			v = int64(rapid.Int32().Draw(t, "iany"))
		}
		if align > 1 && rapid.IntRange(0, 3).Draw(t, "ialign") != 0 {
			v &^= align - 1
		}
		if v > 1<<31-1 || v < -(1<<31) {
			v = int64(int32(v))
		}
		return int32(v)
	})
}

// ---------------------------------------------------------------- RISC-V

func rvMnemonics() []string {
	var out []string
	for as := 1; ; as++ {
		n, ok := rvAsName(as)
		if !ok {
			break
		}
		out = append(out, n)
	}
	return out
}

// rvSlotInfo: which fields the instruction (as written) uses and with what class.
func rvSlotInfo(name string) (cls [4]byte, immKind byte, immBits uint, align int64) {
	isa := strings.ReplaceAll(name, "_", ".")
	slots := ""
	if p, ok := rvPseudos[isa]; ok {
		slots = p.slots
	} else {
		slots = rvBase[isa].slots
	}
	immBits, align = 12, 1
	for _, s := range strings.Split(slots, ",") {
		if s == "" {
			continue
		}
		idx := map[byte]int{'d': 0, '1': 1, '2': 2, '3': 3}
		switch s[0] {
		case 'X', 'F':
			cls[idx[s[1]]] = s[0]
		case 'Z':
			cls[1] = 'X'
		default:
			immKind = s[0]
			switch s[0] {
			case 'B':
				immBits, align = 13, 2
			case 'J':
				immBits, align = 21, 2
			case 'U':
				immBits = 20
			case 'H':
				immBits = 6
			case 'W':
				immBits = 5
			case 'P':
				immBits = 8
			}
		}
	}
	return
}

func genRV(arch string, names []string) *rapid.Generator[kase] {
	return rapid.Custom(func(t *rapid.T) kase {
		name := rapid.SampledFrom(names).Draw(t, "as")
		cls, immKind, immBits, align := rvSlotInfo(name)
		k := kase{Arch: arch, As: name}
		// register-class mode: as the manual says / all integer / all fp / free
		mode := rapid.SampledFrom([]string{"spec", "spec", "spec", "spec", "allX", "allF", "free"}).Draw(t, "mode")
		fillUnused := rapid.IntRange(0, 2).Draw(t, "unused") == 0
		regs := [4]*int{&k.Rd, &k.Rs1, &k.Rs2, &k.Rs3}
		for i, p := range regs {
			c := cls[i]
			if c == 0 {
				if !fillUnused || !rapid.Bool().Draw(t, "fill") {
					continue
				}
				c = 'X'
			}
			switch mode {
			case "allX":
				c = 'X'
			case "allF":
				c = 'F'
			case "free":
				c = rapid.SampledFrom([]byte{'X', 'F', '0', 'O'}).Draw(t, "cls")
			}
			n := genRegNum(32).Draw(t, "reg")
			switch c {
			case 'X':
				*p = 1 + n
			case 'F':
				*p = 33 + n
			case 'O':
				*p = rapid.SampledFrom([]int{65, 66, 100, -1}).Draw(t, "outreg")
			}
		}
		if immKind != 0 || rapid.IntRange(0, 5).Draw(t, "immprobe") == 0 {
			k.Imm = genImmBits(immBits, align).Draw(t, "imm")
		}
		return k
	})
}

func testRVRandom(t *testing.T, arch string) {
	s := core.NewStats(prop, strings.ToUpper(arch)+"Random")
	s.Rule("rapid: one instruction per case = mnemonic uniform over the whole riscv opcode table (raw + pseudo) × registers (class as the ISA manual says / all-integer / all-fp / free, numbers biased to 0,1,30,31; unused fields mostly empty) × immediate boundary-biased for the instruction's field width (min,max,±1,±2 around signed/unsigned limits, alternating bit patterns, 2^k±1, misaligned branch/jump offsets, any int32); oracle = expected operands (harness ISA tables) vs x/arch riscv64asm structurally, llvm-mc-14 arbitration when they differ and llvm-mc bulk cross-check of all agreeing words, riscv.Decode round trip; non-trivial = accepted by the encoder, compared with an independent decoder, and the immediate lies within 1 of a field limit or the case has no immediate and uses register 0 or 31; distinct by (arch, mnemonic, operand classes, immediate)")
	s.Assume("x/arch riscv64asm and llvm-mc-14 decode RV32/RV64 IMAFD+Zicsr correctly; where the two disagree the case is dropped (ref_conflict)")
	s.Assume("harness ISA tables (harness/c17/rv.go) state the operand order and classes of the ISA manual; rounding-mode fields are not operands of Wa instructions and are ignored")
	r := newRunner(s, false)
	names := rvMnemonics()
	defer r.finish(t)
	s.Check(t, func(t *rapid.T, c *core.Case) {
		k := genRV(arch, names).Draw(t, "case")
		r.eval(c, k)
	})
}

func TestRV64Random(t *testing.T) { testRVRandom(t, "rv64") }
func TestRV32Random(t *testing.T) { testRVRandom(t, "rv32") }

// rvSweepImms: deterministic boundary set for a field of the given width.
func sweepImms(bits uint, align int64) []int32 {
	smin, smax := -(int64(1) << (bits - 1)), int64(1)<<(bits-1)-1
	umax := int64(1)<<bits - 1
	set := map[int64]bool{}
	for _, b := range []int64{0, smin, smax, umax, 2 * smin, 2 * umax} {
		for d := int64(-2); d <= 2; d++ {
			set[b+d] = true
		}
	}
	for _, p := range []int64{0x55555555 & umax, 0x2aaaaaaa & umax, sext(0x55555555&umax|1<<(bits-1), bits), sext(0x2aaaaaaa&umax|1<<(bits-1), bits),
		31, 32, 63, 64, 1 << 31 >> 1, -(1 << 31)} {
		set[p] = true
		if align > 1 {
			set[p&^(align-1)] = true
		}
	}
	var out []int32
	for v := range set {
		if v >= -(1<<31) && v < 1<<31 {
			out = append(out, int32(v))
		}
	}
	sort.Slice(out, func(i, j int) bool { return out[i] < out[j] })
	return out
}

var sweepRegPatterns = [][4]int{{0, 0, 0, 0}, {31, 31, 31, 31}, {1, 2, 3, 4}, {10, 21, 10, 21}, {5, 0, 31, 16}, {30, 29, 1, 15}}

func testRVSweep(t *testing.T, arch string) {
	s := core.NewStats(prop, strings.ToUpper(arch)+"Sweep")
	defer s.Flush()
	thorough := core.Thorough()
	if thorough {
		s.Rule("enumeration: every mnemonic of the riscv opcode table × register-class mode {manual, all-integer, all-fp} × 6 register-number patterns × every subset of unused fields filled × every immediate of the field's full range ±64 for fields ≤ 13 bits (exhaustive immediates), boundary set otherwise; same oracle as the random test; non-trivial as there")
	} else {
		s.Rule("enumeration: every mnemonic of the riscv opcode table × register-class mode {manual, all-integer, all-fp} × 6 register-number patterns × every subset of unused fields filled × boundary immediates (field min/max/unsigned max/2×limits ±2, alternating patterns, 31/32/63/64, int32 limits, aligned variants); same oracle as the random test; non-trivial as there")
	}
	r := newRunner(s, true)
	defer r.finish(t)
	names := rvMnemonics()
	sh, n := core.Shard()
	for i, name := range names {
		if i%n != sh {
			r.attempt[arch+"/"+name] = true // another shard's share
			continue
		}
		cls, immKind, immBits, align := rvSlotInfo(name)
		imms := []int32{0, 1, -1, 2047, -2048, 4096}
		if immKind != 0 {
			imms = sweepImms(immBits, align)
			if thorough && immBits <= 13 {
				imms = imms[:0]
				for v := -(int64(1) << (immBits - 1)) - 64; v <= int64(1)<<immBits+64; v++ {
					imms = append(imms, int32(v))
				}
			}
		}
		for _, mode := range []byte{'S', 'X', 'F'} {
			for pi, pat := range sweepRegPatterns {
				for fill := 0; fill < 16; fill++ {
					// fill = set of unused fields that get a register anyway
					skip := false
					for fi := 0; fi < 4; fi++ {
						if fill&(1<<fi) != 0 && cls[fi] != 0 {
							skip = true
						}
					}
					if skip {
						continue
					}
					if thorough && immKind != 0 && immBits <= 13 && (pi > 1 || fill != 0 || mode != 'S') && len(imms) > 200 {
						// the exhaustive immediate range is combined with two register patterns
						continue
					}
					if fill != 0 && pi > 1 && len(imms) > 8 {
						continue
					}
					for _, im := range imms {
						k := kase{Arch: arch, As: name, Imm: im}
						for fi, p := range [4]*int{&k.Rd, &k.Rs1, &k.Rs2, &k.Rs3} {
							c := cls[fi]
							if c == 0 {
								if fill&(1<<fi) == 0 {
									continue
								}
								c = 'X'
							}
							if mode != 'S' {
								c = mode
							}
							if c == 'X' {
								*p = 1 + pat[fi]
							} else {
								*p = 33 + pat[fi]
							}
						}
						r.evalEnum(t, k)
					}
				}
			}
		}
	}
	r.coverage(t, arch, names)
}

func TestRV64Sweep(t *testing.T) { testRVSweep(t, "rv64") }
func TestRV32Sweep(t *testing.T) { testRVSweep(t, "rv32") }

// ---------------------------------------------------------------- LoongArch

// laSlotInfo: register class per field (R F C S N=number) and the immediate slot.
func laSlotInfo(name string) (cls [4]byte, nbits [4]uint, immSlot string) {
	as, _ := laLookupAs(name)
	slots := laFormats[loong64.AsFormatType(as)]
	idx := map[byte]int{'d': 0, '1': 1, '2': 2, '3': 3}
	for _, s := range strings.Split(slots, ",") {
		if s == "" {
			continue
		}
		switch s[0] {
		case 'R', 'F', 'C', 'S':
			cls[idx[s[1]]] = s[0]
		case 'N':
			cls[idx[s[2]]] = 'N'
			nbits[idx[s[2]]] = uint(s[1] - '0')
		default:
			immSlot = s
		}
	}
	return
}

// laImmShape returns (field bits as the generator should see them, alignment).
func laImmShape(slot string) (uint, int64) {
	if slot == "" {
		return 12, 1
	}
	bits := atoiSlot(slot)
	switch slot[0] {
	case 'o':
		return bits + 2, 4
	case 'a':
		return bits + 1, 1
	case 'c':
		return 3, 1
	}
	return bits, 1
}

func laRegOf(class byte, n int) int {
	switch class {
	case 'R':
		return int(loong64.REG_R0) + n%32
	case 'F':
		return int(loong64.REG_F0) + n%32
	case 'C':
		return int(loong64.REG_FCC0) + n%8
	case 'S':
		return int(loong64.REG_FCSR0) + n%4
	}
	return n
}

func genLA(names []string) *rapid.Generator[kase] {
	return rapid.Custom(func(t *rapid.T) kase {
		name := rapid.SampledFrom(names).Draw(t, "as")
		cls, nbits, immSlot := laSlotInfo(name)
		k := kase{Arch: "la64", As: name}
		mode := rapid.SampledFrom([]string{"spec", "spec", "spec", "spec", "spec", "free", "allR"}).Draw(t, "mode")
		fillUnused := rapid.IntRange(0, 3).Draw(t, "unused") == 0
		for i, p := range [4]*int{&k.Rd, &k.Rs1, &k.Rs2, &k.Rs3} {
			c := cls[i]
			if c == 0 {
				if !fillUnused || !rapid.Bool().Draw(t, "fill") {
					continue
				}
				c = 'R'
			}
			if c == 'N' {
				// plain number in a register field: boundary-biased, may exceed the field
				*p = int(genImmBits(nbits[i]+1, 1).Draw(t, "num")) & 0x7fff
				continue
			}
			switch mode {
			case "free":
				c = rapid.SampledFrom([]byte{'R', 'F', 'C', 'S', '0', 'O'}).Draw(t, "cls")
			case "allR":
				c = 'R'
			}
			n := genRegNum(32).Draw(t, "reg")
			switch c {
			case '0':
			case 'O':
				*p = rapid.SampledFrom([]int{77, 200, -1, 300}).Draw(t, "outreg")
			default:
				*p = laRegOf(c, n)
			}
		}
		if immSlot != "" || rapid.IntRange(0, 5).Draw(t, "immprobe") == 0 {
			bits, align := laImmShape(immSlot)
			k.Imm = genImmBits(bits, align).Draw(t, "imm")
		}
		return k
	})
}

func TestLA64Random(t *testing.T) {
	s := core.NewStats(prop, "LA64Random")
	s.Rule("rapid: one instruction per case = mnemonic uniform over the whole loong64 opcode table × operands following the instruction's operand format (register classes R/F/FCC/FCSR as the format says, or free / all-general to probe rejection; numbers biased to the ends; plain-number fields such as msb/lsb/hint/code may exceed their width) × immediate boundary-biased for the field width (signed/unsigned limits ±2, alternating bits, 2^k±1, misaligned branch offsets, any int32); oracle = expected operands (harness format table, assembler order) vs x/arch loong64asm structurally (the only independent LoongArch decoder offline), loong64.Decode round trip; non-trivial = accepted, compared, and immediate within 1 of a field limit (or no immediate and a register numbered 0/31); distinct by (mnemonic, operand classes, immediate)")
	s.Assume("x/arch loong64asm decodes LoongArch64 base + FP correctly; instructions it does not know at all are dropped and counted (dropped_unknown_to_reference)")
	s.Assume("harness/c17/la.go states operand order and field widths of the LoongArch reference manual; for si12/si14/si20 Wa deliberately accepts the unsigned spelling of negative field values, both spellings count as representable")
	r := newRunner(s, false)
	names := laMnemonics()
	defer r.finish(t)
	s.Check(t, func(t *rapid.T, c *core.Case) {
		r.eval(c, genLA(names).Draw(t, "case"))
	})
}

func TestLA64Sweep(t *testing.T) {
	s := core.NewStats(prop, "LA64Sweep")
	defer s.Flush()
	thorough := core.Thorough()
	s.Rule("enumeration: every mnemonic of the loong64 opcode table × register-class mode {format, all-general} × 6 register-number patterns × every subset of unused fields filled (first patterns) × boundary immediates of the field (thorough: every value of the field's range ±64 for fields ≤ 14 bits); same oracle as the random test")
	r := newRunner(s, true)
	defer r.finish(t)
	names := laMnemonics()
	sh, n := core.Shard()
	for i, name := range names {
		if i%n != sh {
			r.attempt["la64/"+name] = true
			continue
		}
		cls, nbits, immSlot := laSlotInfo(name)
		imms := []int32{0, 1, -1, 2047, -2048, 4096}
		bits, align := laImmShape(immSlot)
		if immSlot != "" {
			imms = sweepImms(bits, align)
			if thorough && bits <= 14 {
				imms = imms[:0]
				for v := -(int64(1) << (bits - 1)) - 64; v <= int64(1)<<bits+64; v++ {
					imms = append(imms, int32(v))
				}
			}
		}
		nums := []int{0, 1, 31, 32, 63, 64}
		for _, mode := range []byte{'S', 'R'} {
			for pi, pat := range sweepRegPatterns {
				for fill := 0; fill < 16; fill++ {
					skip := false
					for fi := 0; fi < 4; fi++ {
						if fill&(1<<fi) != 0 && cls[fi] != 0 {
							skip = true
						}
					}
					if skip || (fill != 0 && pi > 1) || (len(imms) > 200 && (pi > 1 || fill != 0 || mode != 'S')) {
						continue
					}
					for _, im := range imms {
						k := kase{Arch: "la64", As: name, Imm: im}
						for fi, p := range [4]*int{&k.Rd, &k.Rs1, &k.Rs2, &k.Rs3} {
							c := cls[fi]
							if c == 0 {
								if fill&(1<<fi) == 0 {
									continue
								}
								c = 'R'
							}
							if c == 'N' {
								*p = nums[(pi+fi)%len(nums)]
								if nbits[fi] == 5 && *p > 32 {
									*p -= 32
								}
								continue
							}
							if mode == 'R' {
								c = 'R'
							}
							*p = laRegOf(c, pat[fi])
						}
						r.evalEnum(t, k)
					}
				}
			}
		}
	}
	r.coverage(t, "la64", names)
}

// ---------------------------------------------------------------- x86-64

var (
	x64Reg8   = []string{"al", "cl", "dl", "bl", "spl", "bpl", "sil", "dil", "r8b", "r9b", "r10b", "r11b", "r12b", "r13b", "r14b", "r15b"}
	x64Reg8h  = []string{"ah", "ch", "dh", "bh"}
	x64Reg16  = []string{"ax", "cx", "dx", "bx", "sp", "bp", "si", "di", "r8w", "r9w", "r10w", "r11w", "r12w", "r13w", "r14w", "r15w"}
	x64Reg32  = []string{"eax", "ecx", "edx", "ebx", "esp", "ebp", "esi", "edi", "r8d", "r9d", "r10d", "r11d", "r12d", "r13d", "r14d", "r15d"}
	x64Reg64  = []string{"rax", "rcx", "rdx", "rbx", "rsp", "rbp", "rsi", "rdi", "r8", "r9", "r10", "r11", "r12", "r13", "r14", "r15"}
	x64RegXmm = []string{"xmm0", "xmm1", "xmm2", "xmm3", "xmm4", "xmm5", "xmm6", "xmm7"}
	x64Disps  = []int64{0, 1, -1, 8, -8, 16, -16, 127, 128, -128, -129, 255, 256, 0x7fff, -0x8000, 1<<31 - 1, -(1 << 31), 1 << 31, -(1 << 31) - 1, 0x55555555, -0x2aaaaaab}
	x64Imms   = []int64{0, 1, -1, 2, 16, 61, 80, 127, 128, -128, -129, 255, 256, 0x7fff, 0x8000, -0x8000, 0xffff, 0x10000, 1<<31 - 1, 1 << 31, -(1 << 31), -(1 << 31) - 1,
		1<<32 - 1, 1 << 32, 0x3FF0000000000000, 1<<63 - 1, -(1 << 63), 0x5555555555555555, -0x5555555555555556}
)

func genX64Reg(width int) *rapid.Generator[string] {
	return rapid.Custom(func(t *rapid.T) string {
		var set []string
		switch width {
		case 1:
			if rapid.IntRange(0, 5).Draw(t, "high8") == 0 {
				set = x64Reg8h
			} else {
				set = x64Reg8
			}
		case 2:
			set = x64Reg16
		case 4:
			set = x64Reg32
		case 8:
			set = x64Reg64
		default:
			set = x64RegXmm
		}
		if rapid.IntRange(0, 2).Draw(t, "special") == 0 && len(set) == 16 {
			// rsp/rbp/r12/r13 need SIB / disp8 special cases, r8+ need REX, spl..dil need a bare REX
			return set[rapid.SampledFrom([]int{4, 5, 6, 7, 8, 12, 13, 15}).Draw(t, "sreg")]
		}
		return rapid.SampledFrom(set).Draw(t, "reg")
	})
}

func genX64Disp() *rapid.Generator[int64] {
	return rapid.Custom(func(t *rapid.T) int64 {
		switch rapid.IntRange(0, 3).Draw(t, "dclass") {
		case 0, 1:
			return rapid.SampledFrom(x64Disps).Draw(t, "dedge") + rapid.Int64Range(-1, 1).Draw(t, "ddelta")
		case 2:
			return rapid.Int64Range(-4096, 4096).Draw(t, "dsmall")
		}
		return int64(rapid.Int32().Draw(t, "dany"))
	})
}

func genX64Imm() *rapid.Generator[int64] {
	return rapid.Custom(func(t *rapid.T) int64 {
		switch rapid.IntRange(0, 3).Draw(t, "iclass") {
		case 0, 1:
			v := rapid.SampledFrom(x64Imms).Draw(t, "iedge")
			d := rapid.Int64Range(-1, 1).Draw(t, "idelta")
			if (d > 0 && v == 1<<63-1) || (d < 0 && v == -(1<<63)) {
				d = 0
			}
			return v + d
		case 2:
			return rapid.Int64Range(-300, 300).Draw(t, "ismall")
		}
		return rapid.Int64().Draw(t, "iany")
	})
}

func genX64Operand(kind string, width int) *rapid.Generator[xop] {
	return rapid.Custom(func(t *rapid.T) xop {
		switch kind {
		case "reg":
			return xop{Kind: "reg", Reg: genX64Reg(width).Draw(t, "r")}
		case "mem":
			base := genX64Reg(8).Draw(t, "base")
			switch rapid.IntRange(0, 9).Draw(t, "basekind") {
			case 0:
				base = "rip"
			case 1:
				if rapid.Bool().Draw(t, "odd") {
					base = genX64Reg(4).Draw(t, "base32") // 32-bit base: probe rejection
				}
			}
			w := width
			if w > 8 {
				w = rapid.SampledFrom([]int{4, 8}).Draw(t, "fw")
			}
			return xop{Kind: "mem", Reg: base, Ptr: w, Off: genX64Disp().Draw(t, "disp")}
		}
		return xop{Kind: "imm", Imm: genX64Imm().Draw(t, "imm")}
	})
}

var x64Shapes = [][]string{{}, {"reg"}, {"mem"}, {"imm"}, {"reg", "reg"}, {"reg", "imm"}, {"reg", "mem"}, {"mem", "reg"}, {"mem", "imm"},
	{"reg", "reg", "imm"}, {"reg", "mem", "imm"}, {"imm", "reg"}, {"mem", "mem"}, {"reg", "reg", "reg"}}

func genX64(names []string) *rapid.Generator[kase] {
	return rapid.Custom(func(t *rapid.T) kase {
		name := rapid.SampledFrom(names).Draw(t, "as")
		k := kase{Arch: "x64", As: name}
		// the first nine shapes are the ones wat2x64 emits; the rest probe rejection
		var shape []string
		if rapid.IntRange(0, 9).Draw(t, "oddshape") == 0 {
			shape = rapid.SampledFrom(x64Shapes).Draw(t, "shape")
		} else {
			shape = rapid.SampledFrom(x64Shapes[:10]).Draw(t, "shape")
		}
		width := rapid.SampledFrom([]int{1, 2, 4, 4, 8, 8, 8, 16}).Draw(t, "width")
		for i, kind := range shape {
			w := width
			if i > 0 && rapid.IntRange(0, 3).Draw(t, "mixwidth") == 0 {
				w = rapid.SampledFrom([]int{1, 2, 4, 8, 16}).Draw(t, "w2")
			}
			k.Ops = append(k.Ops, genX64Operand(kind, w).Draw(t, "op"))
		}
		return k
	})
}

func TestX64Random(t *testing.T) {
	s := core.NewStats(prop, "X64Random")
	s.Rule("rapid: one instruction per case = mnemonic uniform over the whole x64 instruction table × operand shape (none, r, m, i, r-r, r-i, r-m, m-r, m-i, r-r-i = every shape wat2x64 emits; plus ill-formed shapes to probe rejection) × registers of width 8/16/32/64/xmm incl. r8–r15, spl/bpl/sil/dil, ah–bh (rsp/rbp/r12/r13 over-weighted: SIB/disp8 special cases) × memory [base+disp] with base ∈ all GPRs, rip, occasionally a 32-bit base; disp ∈ {0,±1,±127,±128,±2^31 edges,…}±1 × immediates at imm8/imm16/imm32/imm64 borders; oracle = expected Intel-syntax operands rendered from the argument vs x/arch x86asm (IntelSyntax, parsed) with llvm-mc-14 (Intel syntax) arbitration and bulk cross-check; immediates compared at the operand size; x64.Decode must consume exactly the produced bytes and name the same operation; non-trivial = accepted, compared, and an operand sits on a special case (rsp/rbp/r12/r13/r8/r15/rip base or register, disp or imm within 1 of an imm8/imm32 limit); distinct by (mnemonic, operand kinds+registers, displacement/immediate)")
	s.Assume("x/arch x86asm and llvm-mc-14 decode x86-64 correctly; where both decode and disagree the case is dropped (ref_conflict); a BuildProg assertion panic or an asm6 'invalid instruction' panic counts as 'not accepted'")
	r := newRunner(s, false)
	names := x64Mnemonics()
	defer r.finish(t)
	s.Check(t, func(t *rapid.T, c *core.Case) {
		r.eval(c, genX64(names).Draw(t, "case"))
	})
}

// TestX64Sweep enumerates, for every mnemonic, the operand forms wat2x64 emits
// over all base registers and the displacement / immediate boundary sets.
func TestX64Sweep(t *testing.T) {
	s := core.NewStats(prop, "X64Sweep")
	defer s.Flush()
	s.Rule("enumeration: every mnemonic of the x64 table × the operand shapes wat2x64 emits (none, r, m, i, r-r, r-i, r-m, m-r, m-i, r-r-i) × operand width 8/16/32/64/xmm × all 16 registers of the width as destination / all 16 GPRs + rip as memory base × displacement boundary set × immediate boundary set (cross product thinned deterministically: each axis is swept while the others take 3 fixed values); same oracle as the random test")
	r := newRunner(s, true)
	defer r.finish(t)
	names := x64Mnemonics()
	sh, n := core.Shard()
	thorough := core.Thorough()
	regsOf := func(w int) []string {
		switch w {
		case 1:
			return append(append([]string{}, x64Reg8...), x64Reg8h...)
		case 2:
			return x64Reg16
		case 4:
			return x64Reg32
		case 8:
			return x64Reg64
		}
		return x64RegXmm
	}
	bases := append(append([]string{}, x64Reg64...), "rip")
	mk := func(kind string, w int, reg string, disp, im int64) xop {
		switch kind {
		case "reg":
			return xop{Kind: "reg", Reg: reg}
		case "mem":
			pw := w
			if pw > 8 {
				pw = 8
			}
			return xop{Kind: "mem", Reg: reg, Ptr: pw, Off: disp}
		}
		return xop{Kind: "imm", Imm: im}
	}
	for i, name := range names {
		if i%n != sh {
			r.attempt["x64/"+name] = true
			continue
		}
		for _, shape := range x64Shapes[:10] {
			for _, w := range []int{1, 2, 4, 8, 16} {
				regs := regsOf(w)
				// axis sets; index 0 of each is the fixed value used while another axis is swept
				axes := make([][]xop, len(shape))
				for oi, kind := range shape {
					switch kind {
					case "reg":
						for _, rg := range regs {
							axes[oi] = append(axes[oi], mk("reg", w, rg, 0, 0))
						}
					case "mem":
						for _, b := range bases {
							axes[oi] = append(axes[oi], mk("mem", w, b, -16, 0))
						}
						for _, d := range x64Disps {
							for _, b := range []string{"rax", "rbp", "rsp", "r12", "r13", "rip"} {
								axes[oi] = append(axes[oi], mk("mem", w, b, d, 0))
							}
						}
					case "imm":
						for _, v := range x64Imms {
							axes[oi] = append(axes[oi], mk("imm", w, "", 0, v))
						}
					}
				}
				if len(shape) == 0 {
					if w == 8 {
						r.evalEnum(t, kase{Arch: "x64", As: name})
					}
					continue
				}
				fixed := func(oi, variant int) xop {
					a := axes[oi]
					// three deterministic representatives: first, a middle one, the last
					return a[[]int{0, len(a) / 2, len(a) - 1}[variant%3]]
				}
				for sweep := range shape {
					for _, cand := range axes[sweep] {
						for variant := 0; variant < 3; variant++ {
							if variant > 0 && w != 4 && w != 8 && !thorough {
								break // 8/16-bit and xmm operands: one representative in the quick tier
							}
							k := kase{Arch: "x64", As: name}
							for oi := range shape {
								if oi == sweep {
									k.Ops = append(k.Ops, cand)
								} else {
									k.Ops = append(k.Ops, fixed(oi, variant))
								}
							}
							r.evalEnum(t, k)
							if len(shape) == 1 {
								break
							}
						}
					}
				}
				// mixed widths for two-register forms (movzx/movsx/cvt*/shift by cl)
				if len(shape) >= 2 && shape[0] == "reg" && shape[1] == "reg" {
					for _, w2 := range []int{1, 2, 4, 8, 16} {
						if w2 == w {
							continue
						}
						for _, a := range []int{0, 1, 4, 5, 9, 12} {
							for _, b := range []int{0, 1, 6, 7, 13} {
								ra, rb := regsOf(w), regsOf(w2)
								k := kase{Arch: "x64", As: name, Ops: []xop{mk("reg", w, ra[a%len(ra)], 0, 0), mk("reg", w2, rb[b%len(rb)], 0, 0)}}
								if len(shape) == 3 {
									k.Ops = append(k.Ops, mk("imm", w, "", 0, int64(a%4)))
								}
								r.evalEnum(t, k)
							}
						}
					}
				}
			}
		}
	}
	r.coverage(t, "x64", names)
}

// ---------------------------------------------------------------- AArch64

// TestARM64Probe hands every mnemonic of the arm64 table to the encoder with
// a spread of operand tuples.  At the pinned commit every call panics
// ("TODO"), so arm64_accepted stays 0; accepted tuples are compared with
// x/arch arm64asm and llvm-mc -triple=aarch64 automatically.
func TestARM64Probe(t *testing.T) {
	s := core.NewStats(prop, "ARM64Probe")
	defer s.Flush()
	s.Rule("enumeration: every mnemonic of the arm64 table × 6 register-number patterns over the X/W/S/D register files × subsets of fields × 8 immediates; accepted tuples (none while EncodeARM64 is panic(\"TODO\")) are compared with x/arch arm64asm and llvm-mc aarch64 and round-tripped through arm64.Decode")
	r := newRunner(s, true)
	defer r.finish(t)
	names := a64Mnemonics()
	if !core.FirstShard() {
		return
	}
	nAccepted := int64(0)
	for _, name := range names {
		for _, base := range []int{int(arm64.REG_W0), int(arm64.REG_X0), int(arm64.REG_S0), int(arm64.REG_D0)} {
			for pi, pat := range sweepRegPatterns {
				if pi > 1 && !core.Thorough() {
					break
				}
				for fields := 0; fields < 16; fields++ {
					for _, im := range []int32{0, 1, -1, 255, 256, 4095, 4096, -256} {
						k := kase{Arch: "arm64", As: name, Imm: im}
						for fi, p := range [4]*int{&k.Rd, &k.Rs1, &k.Rs2, &k.Rs3} {
							if fields&(1<<fi) != 0 {
								*p = base + pat[fi]%31
							}
						}
						if v := check(k, llvmNever); v.out == accepted {
							nAccepted++
						}
						r.evalEnum(t, k)
					}
				}
			}
		}
	}
	s.Counter("arm64_accepted", nAccepted)
	if nAccepted == 0 {
		s.Note("arm64_accepted = 0: arm64.EncodeARM64 rejects (panics on) every tuple at this commit, so the AArch64 part of the property holds vacuously; the sweep against x/arch arm64asm and llvm-mc aarch64 runs automatically once the encoder accepts inputs")
	}
	var derr error
	if p, m := guard(func() { _, _, derr = arm64.Decode(0x8b020020) }); p { // add x0, x1, x2
		s.Note("arm64.Decode(0x8b020020) panics: " + m)
	} else {
		s.Note(fmt.Sprint("arm64.Decode(0x8b020020) returned err=", derr))
	}
	r.coverage(t, "arm64", names)
}

// ---------------------------------------------------------------- replay

func replay(test string, raw json.RawMessage) (string, string) {
	var k kase
	if err := json.Unmarshal(raw, &k); err != nil {
		return "harness/bad-replay", err.Error()
	}
	v := check(k, llvmAlways)
	for _, f := range v.findings {
		if f.key == k.Expect {
			return f.key, f.what
		}
	}
	for _, f := range v.findings {
		if !core.IsKnown(prop, f.key) {
			return f.key, f.what
		}
	}
	if len(v.findings) > 0 {
		return v.findings[0].key, v.findings[0].what
	}
	return "", ""
}

func TestReplay(t *testing.T) {
	// one llvm-mc run per architecture for the whole corpus instead of one per file
	if os.Getenv("VERIF_REPLAY") == "" && core.FirstShard() {
		files, _ := filepath.Glob(filepath.Join(core.VerifDir(), "corpus", prop, "*.json"))
		byArch := map[string][][]byte{}
		for _, f := range files {
			rf, err := core.LoadReplay(f)
			if err != nil {
				continue
			}
			var k kase
			if json.Unmarshal(rf.Case, &k) != nil {
				continue
			}
			if v := check(k, llvmNever); v.code != nil {
				byArch[k.Arch] = append(byArch[k.Arch], v.code)
			}
		}
		for arch, codes := range byArch {
			if tg := llvmFor(arch); tg != nil {
				tg.prefetch(codes)
			}
		}
	}
	core.RunReplays(t, prop, replay)
}
