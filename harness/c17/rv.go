package c17

import (
	"encoding/binary"
	"fmt"
	"strconv"
	"strings"

	"wa-lang.org/wa/internal/native/abi"
	"wa-lang.org/wa/internal/native/riscv"
	"wa-lang.org/wa/zverif/harness/xarch/riscv64asm"
)

// ---------------------------------------------------------------- ISA tables
//
// rvSpec is the harness's own description of the RV32/RV64 IMFD + Zicsr
// instructions (written from "The RISC-V Instruction Set Manual, Volume I",
// chapter "RV32/64G Instruction Set Listings" and the assembler handbook
// chapter for the pseudo-instructions).  Operand slots, in manual order:
//
//	Xd X1 X2     integer register taken from AsArgument.Rd / Rs1 / Rs2
//	Fd F1 F2 F3  floating-point register from Rd / Rs1 / Rs2 / Rs3
//	I            12-bit signed immediate (I- and S-type)
//	B            13-bit signed branch byte offset (multiple of 2)
//	U            20-bit upper immediate (the field, not the shifted value)
//	J            21-bit signed jump byte offset (multiple of 2)
//	H            shift amount: 5 bits on RV32, 6 bits on RV64
//	W            shift amount of the *W instructions: 5 bits
//	C            CSR number (12 bits) carried in Imm
//	Z            5-bit zero-extended immediate carried as register X<n> in Rs1
//	P            FENCE pred/succ sets carried in Imm[7:0]
type rvSpec struct {
	slots string // comma separated
	rv64  bool   // RV64-only
}

var rvBase = map[string]rvSpec{}

func init() {
	add := func(slots string, rv64 bool, names ...string) {
		for _, n := range names {
			rvBase[n] = rvSpec{slots, rv64}
		}
	}
	add("Xd,U", false, "LUI", "AUIPC")
	add("Xd,J", false, "JAL")
	add("Xd,I,X1", false, "JALR", "LB", "LH", "LW", "LBU", "LHU")
	add("Xd,I,X1", true, "LWU", "LD")
	add("X1,X2,B", false, "BEQ", "BNE", "BLT", "BGE", "BLTU", "BGEU")
	add("X2,I,X1", false, "SB", "SH", "SW")
	add("X2,I,X1", true, "SD")
	add("Xd,X1,I", false, "ADDI", "SLTI", "SLTIU", "XORI", "ORI", "ANDI")
	add("Xd,X1,I", true, "ADDIW")
	add("Xd,X1,H", false, "SLLI", "SRLI", "SRAI")
	add("Xd,X1,W", true, "SLLIW", "SRLIW", "SRAIW")
	add("Xd,X1,X2", false, "ADD", "SUB", "SLL", "SLT", "SLTU", "XOR", "SRL", "SRA", "OR", "AND",
		"MUL", "MULH", "MULHSU", "MULHU", "DIV", "DIVU", "REM", "REMU")
	add("Xd,X1,X2", true, "ADDW", "SUBW", "SLLW", "SRLW", "SRAW", "MULW", "DIVW", "DIVUW", "REMW", "REMUW")
	add("P", false, "FENCE")
	add("", false, "ECALL", "EBREAK")
	add("Xd,C,X1", false, "CSRRW", "CSRRS", "CSRRC")
	add("Xd,C,Z", false, "CSRRWI", "CSRRSI", "CSRRCI")
	for _, p := range []string{"S", "D"} {
		add("Fd,F1,F2,F3", false, "FMADD."+p, "FMSUB."+p, "FNMSUB."+p, "FNMADD."+p)
		add("Fd,F1,F2", false, "FADD."+p, "FSUB."+p, "FMUL."+p, "FDIV."+p, "FSGNJ."+p, "FSGNJN."+p, "FSGNJX."+p, "FMIN."+p, "FMAX."+p)
		add("Fd,F1", false, "FSQRT."+p)
		add("Xd,F1,F2", false, "FEQ."+p, "FLT."+p, "FLE."+p)
		add("Xd,F1", false, "FCLASS."+p, "FCVT.W."+p, "FCVT.WU."+p)
		add("Xd,F1", true, "FCVT.L."+p, "FCVT.LU."+p)
		add("Fd,X1", false, "FCVT."+p+".W", "FCVT."+p+".WU")
		add("Fd,X1", true, "FCVT."+p+".L", "FCVT."+p+".LU")
	}
	add("Fd,I,X1", false, "FLW", "FLD")
	add("F2,I,X1", false, "FSW", "FSD")
	add("Xd,F1", false, "FMV.X.W")
	add("Fd,X1", false, "FMV.W.X")
	add("Xd,F1", true, "FMV.X.D")
	add("Fd,X1", true, "FMV.D.X")
	add("Fd,F1", false, "FCVT.S.D", "FCVT.D.S")
}

// rvPseudo describes a pseudo-instruction: its own operand slots (which
// AsArgument fields it reads) and its expansion to a base instruction.
type rvPseudo struct {
	slots  string
	base   string
	expand func(a abi.AsArgument) abi.AsArgument
}

const (
	rvX0 = riscv.REG_X0
	rvX1 = riscv.REG_X1
)

var rvPseudos = map[string]rvPseudo{
	"NOP":    {"", "ADDI", func(a abi.AsArgument) abi.AsArgument { return abi.AsArgument{Rd: rvX0, Rs1: rvX0} }},
	"MV":     {"Xd,X1", "ADDI", func(a abi.AsArgument) abi.AsArgument { return abi.AsArgument{Rd: a.Rd, Rs1: a.Rs1} }},
	"NOT":    {"Xd,X1", "XORI", func(a abi.AsArgument) abi.AsArgument { return abi.AsArgument{Rd: a.Rd, Rs1: a.Rs1, Imm: -1} }},
	"NEG":    {"Xd,X1", "SUB", func(a abi.AsArgument) abi.AsArgument { return abi.AsArgument{Rd: a.Rd, Rs1: rvX0, Rs2: a.Rs1} }},
	"NEGW":   {"Xd,X1", "SUBW", func(a abi.AsArgument) abi.AsArgument { return abi.AsArgument{Rd: a.Rd, Rs1: rvX0, Rs2: a.Rs1} }},
	"SEXT.W": {"Xd,X1", "ADDIW", func(a abi.AsArgument) abi.AsArgument { return abi.AsArgument{Rd: a.Rd, Rs1: a.Rs1} }},
	"SEQZ":   {"Xd,X1", "SLTIU", func(a abi.AsArgument) abi.AsArgument { return abi.AsArgument{Rd: a.Rd, Rs1: a.Rs1, Imm: 1} }},
	"SNEZ":   {"Xd,X1", "SLTU", func(a abi.AsArgument) abi.AsArgument { return abi.AsArgument{Rd: a.Rd, Rs1: rvX0, Rs2: a.Rs1} }},
	"SLTZ":   {"Xd,X1", "SLT", func(a abi.AsArgument) abi.AsArgument { return abi.AsArgument{Rd: a.Rd, Rs1: a.Rs1, Rs2: rvX0} }},
	"SGTZ":   {"Xd,X1", "SLT", func(a abi.AsArgument) abi.AsArgument { return abi.AsArgument{Rd: a.Rd, Rs1: rvX0, Rs2: a.Rs1} }},
	"FMV.S":  {"Fd,F1", "FSGNJ.S", func(a abi.AsArgument) abi.AsArgument { return abi.AsArgument{Rd: a.Rd, Rs1: a.Rs1, Rs2: a.Rs1} }},
	"FABS.S": {"Fd,F1", "FSGNJX.S", func(a abi.AsArgument) abi.AsArgument { return abi.AsArgument{Rd: a.Rd, Rs1: a.Rs1, Rs2: a.Rs1} }},
	"FNEG.S": {"Fd,F1", "FSGNJN.S", func(a abi.AsArgument) abi.AsArgument { return abi.AsArgument{Rd: a.Rd, Rs1: a.Rs1, Rs2: a.Rs1} }},
	"FMV.D":  {"Fd,F1", "FSGNJ.D", func(a abi.AsArgument) abi.AsArgument { return abi.AsArgument{Rd: a.Rd, Rs1: a.Rs1, Rs2: a.Rs1} }},
	"FABS.D": {"Fd,F1", "FSGNJX.D", func(a abi.AsArgument) abi.AsArgument { return abi.AsArgument{Rd: a.Rd, Rs1: a.Rs1, Rs2: a.Rs1} }},
	"FNEG.D": {"Fd,F1", "FSGNJN.D", func(a abi.AsArgument) abi.AsArgument { return abi.AsArgument{Rd: a.Rd, Rs1: a.Rs1, Rs2: a.Rs1} }},
	"BEQZ":   {"X1,B", "BEQ", func(a abi.AsArgument) abi.AsArgument { return abi.AsArgument{Rs1: a.Rs1, Rs2: rvX0, Imm: a.Imm} }},
	"BNEZ":   {"X1,B", "BNE", func(a abi.AsArgument) abi.AsArgument { return abi.AsArgument{Rs1: a.Rs1, Rs2: rvX0, Imm: a.Imm} }},
	"BLEZ":   {"X1,B", "BGE", func(a abi.AsArgument) abi.AsArgument { return abi.AsArgument{Rs1: rvX0, Rs2: a.Rs1, Imm: a.Imm} }},
	"BGEZ":   {"X1,B", "BGE", func(a abi.AsArgument) abi.AsArgument { return abi.AsArgument{Rs1: a.Rs1, Rs2: rvX0, Imm: a.Imm} }},
	"BLTZ":   {"X1,B", "BLT", func(a abi.AsArgument) abi.AsArgument { return abi.AsArgument{Rs1: a.Rs1, Rs2: rvX0, Imm: a.Imm} }},
	"BGTZ":   {"X1,B", "BLT", func(a abi.AsArgument) abi.AsArgument { return abi.AsArgument{Rs1: rvX0, Rs2: a.Rs1, Imm: a.Imm} }},
	"BGT":    {"X1,X2,B", "BLT", func(a abi.AsArgument) abi.AsArgument { return abi.AsArgument{Rs1: a.Rs2, Rs2: a.Rs1, Imm: a.Imm} }},
	"BLE":    {"X1,X2,B", "BGE", func(a abi.AsArgument) abi.AsArgument { return abi.AsArgument{Rs1: a.Rs2, Rs2: a.Rs1, Imm: a.Imm} }},
	"BGTU":   {"X1,X2,B", "BLTU", func(a abi.AsArgument) abi.AsArgument { return abi.AsArgument{Rs1: a.Rs2, Rs2: a.Rs1, Imm: a.Imm} }},
	"BLEU":   {"X1,X2,B", "BGEU", func(a abi.AsArgument) abi.AsArgument { return abi.AsArgument{Rs1: a.Rs2, Rs2: a.Rs1, Imm: a.Imm} }},
	"J":      {"J", "JAL", func(a abi.AsArgument) abi.AsArgument { return abi.AsArgument{Rd: rvX0, Imm: a.Imm} }},
	"JR":     {"X1", "JALR", func(a abi.AsArgument) abi.AsArgument { return abi.AsArgument{Rd: rvX0, Rs1: a.Rs1} }},
	"RET":    {"", "JALR", func(a abi.AsArgument) abi.AsArgument { return abi.AsArgument{Rd: rvX0, Rs1: rvX1} }},
	"RDINSTRET": {"Xd", "CSRRS", func(a abi.AsArgument) abi.AsArgument {
		return abi.AsArgument{Rd: a.Rd, Rs1: rvX0, Imm: 0xC02}
	}},
	"RDCYCLE": {"Xd", "CSRRS", func(a abi.AsArgument) abi.AsArgument { return abi.AsArgument{Rd: a.Rd, Rs1: rvX0, Imm: 0xC00} }},
	"RDTIME":  {"Xd", "CSRRS", func(a abi.AsArgument) abi.AsArgument { return abi.AsArgument{Rd: a.Rd, Rs1: rvX0, Imm: 0xC01} }},
	"CSRR":    {"Xd,C", "CSRRS", func(a abi.AsArgument) abi.AsArgument { return abi.AsArgument{Rd: a.Rd, Rs1: rvX0, Imm: a.Imm} }},
	"CSRW":    {"C,X1", "CSRRW", func(a abi.AsArgument) abi.AsArgument { return abi.AsArgument{Rd: rvX0, Rs1: a.Rs1, Imm: a.Imm} }},
	"CSRS":    {"C,X1", "CSRRS", func(a abi.AsArgument) abi.AsArgument { return abi.AsArgument{Rd: rvX0, Rs1: a.Rs1, Imm: a.Imm} }},
	"CSRC":    {"C,X1", "CSRRC", func(a abi.AsArgument) abi.AsArgument { return abi.AsArgument{Rd: rvX0, Rs1: a.Rs1, Imm: a.Imm} }},
	"CSRWI":   {"C,Z", "CSRRWI", func(a abi.AsArgument) abi.AsArgument { return abi.AsArgument{Rd: rvX0, Rs1: a.Rs1, Imm: a.Imm} }},
	"CSRSI":   {"C,Z", "CSRRSI", func(a abi.AsArgument) abi.AsArgument { return abi.AsArgument{Rd: rvX0, Rs1: a.Rs1, Imm: a.Imm} }},
	"CSRCI":   {"C,Z", "CSRRCI", func(a abi.AsArgument) abi.AsArgument { return abi.AsArgument{Rd: rvX0, Rs1: a.Rs1, Imm: a.Imm} }},
	"FRCSR":   {"Xd", "CSRRS", func(a abi.AsArgument) abi.AsArgument { return abi.AsArgument{Rd: a.Rd, Rs1: rvX0, Imm: 3} }},
	"FSCSR":   {"Xd?,X1", "CSRRW", func(a abi.AsArgument) abi.AsArgument { return abi.AsArgument{Rd: rvOpt(a.Rd), Rs1: a.Rs1, Imm: 3} }},
	"FRRM":    {"Xd", "CSRRS", func(a abi.AsArgument) abi.AsArgument { return abi.AsArgument{Rd: a.Rd, Rs1: rvX0, Imm: 2} }},
	"FSRM":    {"Xd?,X1", "CSRRW", func(a abi.AsArgument) abi.AsArgument { return abi.AsArgument{Rd: rvOpt(a.Rd), Rs1: a.Rs1, Imm: 2} }},
	"FRFLAGS": {"Xd", "CSRRS", func(a abi.AsArgument) abi.AsArgument { return abi.AsArgument{Rd: a.Rd, Rs1: rvX0, Imm: 1} }},
	"FSFLAGS": {"Xd?,X1", "CSRRW", func(a abi.AsArgument) abi.AsArgument { return abi.AsArgument{Rd: rvOpt(a.Rd), Rs1: a.Rs1, Imm: 1} }},
}

// rvOpt: an omitted (zero) optional rd means x0.
func rvOpt(r abi.RegType) abi.RegType {
	if r == 0 {
		return rvX0
	}
	return r
}

// rvName converts Wa's mnemonic spelling (FADD_S) to the manual's (FADD.S).
func rvName(as abi.As) string { return strings.ReplaceAll(riscv.AsString(as, ""), "_", ".") }

// rvLookup resolves a mnemonic to (base instruction name, base argument, slot
// list of the instruction as written, spec of the base instruction).
func rvLookup(name string, a abi.AsArgument) (base string, barg abi.AsArgument, slots string, spec rvSpec, isPseudo, ok bool) {
	if p, found := rvPseudos[name]; found {
		spec, ok = rvBase[p.base]
		return p.base, p.expand(a), p.slots, spec, true, ok
	}
	spec, ok = rvBase[name]
	if name == "JAL" {
		a.Rd = rvOpt(a.Rd) // Wa: "jal offset" leaves rd empty and means x0
	}
	return name, a, spec.slots, spec, false, ok
}

// rvField picks the AsArgument field a slot reads.
func rvField(a abi.AsArgument, f byte) abi.RegType {
	switch f {
	case 'd':
		return a.Rd
	case '1':
		return a.Rs1
	case '2':
		return a.Rs2
	}
	return a.Rs3
}

// rvReg renders a Wa register as a canonical atom; class mismatches stay
// visible ("x5" where an "f" was required).
func rvReg(r abi.RegType) string {
	switch {
	case r >= riscv.REG_X0 && r <= riscv.REG_X31:
		return fmt.Sprintf("x%d", r-riscv.REG_X0)
	case r >= riscv.REG_F0 && r <= riscv.REG_F31:
		return fmt.Sprintf("f%d", r-riscv.REG_F0)
	}
	return fmt.Sprintf("badreg%d", r)
}

// rvImm canonicalises an immediate operand of the given kind.  representable
// is false when the value does not fit the field (in either the signed or the
// unsigned reading where both are customary).
func rvImm(kind byte, v int64, xlen int) (canon int64, representable, boundary bool) {
	rng := func(lo, hi int64) (bool, bool) {
		return v >= lo && v <= hi, v == lo || v == hi || v == lo+1 || v == hi-1 || v == 0 || v == -1
	}
	switch kind {
	case 'I':
		ok, b := rng(-2048, 2047)
		return v, ok, b
	case 'B':
		ok, b := rng(-4096, 4094)
		return v, ok && v%2 == 0, b || v == 4094 || v == 4092
	case 'J':
		ok, b := rng(-(1 << 20), 1<<20-2)
		return v, ok && v%2 == 0, b
	case 'U':
		ok, b := rng(-(1 << 19), 1<<20-1)
		if ok {
			return v & 0xfffff, true, b || v == 1<<19 || v == 1<<19-1
		}
		return v, false, b
	case 'C':
		ok, b := rng(-2048, 4095)
		if ok {
			return v & 0xfff, true, b || v == 2047 || v == 2048
		}
		return v, false, b
	case 'H':
		max := int64(31)
		if xlen == 64 {
			max = 63
		}
		ok, b := rng(0, max)
		return v, ok, b || v == 31 || v == 32
	case 'W':
		ok, b := rng(0, 31)
		return v, ok, b
	case 'P':
		ok, b := rng(0, 255)
		return v, ok, b
	}
	return v, true, false
}

// rvExpected renders the canonical form the disassemblers must show for
// (base instruction, base argument).  shape is the operand-class vector.
func rvExpected(base string, spec rvSpec, a abi.AsArgument, xlen int) (d dis, immRange, boundary bool) {
	d = dis{ok: true, op: strings.ToLower(base)}
	if spec.slots == "" {
		return
	}
	for _, s := range strings.Split(spec.slots, ",") {
		switch s[0] {
		case 'X', 'F':
			r := rvField(a, s[1])
			atom := rvReg(r)
			// a register of the wrong file keeps its own name: the comparison
			// then reports reg-class.
			d.args = append(d.args, atom)
		case 'Z':
			// zimm travels as an integer register number
			r := a.Rs1
			if r >= riscv.REG_X0 && r <= riscv.REG_X31 {
				d.args = append(d.args, imm(int64(r-riscv.REG_X0)))
			} else {
				d.args = append(d.args, rvReg(r))
			}
		case 'P':
			v, ok, b := rvImm('P', int64(a.Imm), xlen)
			immRange = immRange || !ok
			boundary = boundary || b
			d.args = append(d.args, imm(v>>4&15), imm(v&15))
		default:
			v, ok, b := rvImm(s[0], int64(a.Imm), xlen)
			immRange = immRange || !ok
			boundary = boundary || b
			d.args = append(d.args, imm(v))
		}
	}
	return
}

// ---------------------------------------------------------------- decoders → canonical form

func rvXarch(word uint32) dis {
	var b [4]byte
	binary.LittleEndian.PutUint32(b[:], word)
	inst, err := riscv64asm.Decode(b[:])
	if err != nil {
		return dis{raw: err.Error()}
	}
	d := dis{ok: true, op: strings.ToLower(inst.Op.String()), raw: inst.String(), n: inst.Len}
	for _, arg := range inst.Args {
		if arg == nil {
			break
		}
		switch v := arg.(type) {
		case riscv64asm.Reg:
			switch {
			case v >= riscv64asm.X0 && v <= riscv64asm.X31:
				d.args = append(d.args, fmt.Sprintf("x%d", v-riscv64asm.X0))
			case v >= riscv64asm.F0 && v <= riscv64asm.F31:
				d.args = append(d.args, fmt.Sprintf("f%d", v-riscv64asm.F0))
			default:
				d.args = append(d.args, "reg?"+v.String())
			}
		case riscv64asm.Simm:
			d.args = append(d.args, imm(int64(v.Imm)))
		case riscv64asm.Uimm:
			d.args = append(d.args, imm(int64(v.Imm)))
		case riscv64asm.RegOffset:
			d.args = append(d.args, imm(int64(v.Ofs.Imm)), fmt.Sprintf("x%d", v.OfsReg-riscv64asm.X0))
		case riscv64asm.CSR:
			d.args = append(d.args, imm(int64(v)))
		case riscv64asm.MemOrder:
			d.args = append(d.args, imm(int64(v)))
		default:
			d.args = append(d.args, "arg?"+arg.String())
		}
	}
	return d
}

var rvRoundingModes = map[string]bool{"rne": true, "rtz": true, "rdn": true, "rup": true, "rmm": true, "dyn": true}

var rvCSRByName = func() map[string]int64 {
	m := map[string]int64{}
	for n := 0; n < 4096; n++ {
		s := riscv64asm.CSR(n).String()
		if s != "" && !strings.HasPrefix(s, "CSR(") && !strings.HasPrefix(s, "0x") {
			m[strings.ToLower(s)] = int64(n)
		}
	}
	return m
}()

// rvLLVM parses llvm-mc's text ("-M no-aliases -M numeric") for one case.
// unknownCSR is set when a CSR is printed by a name the harness cannot map to
// a number (the case is then compared without llvm).
func rvLLVM(lines []string, base string) (d dis, unknownCSR bool) {
	if len(lines) != 1 {
		return dis{raw: strings.Join(lines, " ; ")}, false
	}
	line := lines[0]
	d = dis{ok: true, raw: line, n: 4}
	f := strings.SplitN(line, "\t", 2)
	if len(f) == 1 {
		f = strings.SplitN(line, " ", 2)
	}
	d.op = strings.TrimSpace(f[0])
	if len(f) == 1 {
		return
	}
	isCSR := strings.HasPrefix(d.op, "csrr")
	isFence := d.op == "fence"
	for i, tok := range strings.Split(f[1], ",") {
		tok = strings.TrimSpace(tok)
		switch {
		case tok == "":
		case isFence:
			var v int64
			if tok != "0" && tok != "unknown" {
				for _, c := range tok {
					switch c {
					case 'i':
						v |= 8
					case 'o':
						v |= 4
					case 'r':
						v |= 2
					case 'w':
						v |= 1
					default:
						d.args = append(d.args, "arg?"+tok)
					}
				}
			}
			d.args = append(d.args, imm(v))
		case rvRoundingModes[tok] && i >= 2:
			// rounding mode is not an operand of the Wa instruction
		case strings.HasSuffix(tok, ")") && strings.Contains(tok, "("):
			p := strings.Index(tok, "(")
			n, err := strconv.ParseInt(tok[:p], 0, 64)
			if err != nil {
				d.args = append(d.args, "arg?"+tok)
				continue
			}
			d.args = append(d.args, imm(n), tok[p+1:len(tok)-1])
		case (tok[0] == 'x' || tok[0] == 'f') && len(tok) <= 3 && tok[1] >= '0' && tok[1] <= '9':
			d.args = append(d.args, tok)
		default:
			n, err := strconv.ParseInt(tok, 0, 64)
			if err != nil {
				if isCSR && i == 1 {
					if num, ok := rvCSRByName[tok]; ok {
						d.args = append(d.args, imm(num))
						continue
					}
					unknownCSR = true
				}
				d.args = append(d.args, "arg?"+tok)
				continue
			}
			d.args = append(d.args, imm(n))
		}
	}
	return
}

// rvKey names a finding.  Two families share one root cause each and get one
// key: (1) every F/D instruction takes its registers through regI, so only
// integer registers are accepted where the ISA has f-registers; (2) the F/D
// instructions with two operands (FSQRT, FCVT.*, FMV.*, FCLASS) carry a fixed
// sub-opcode in the rs2 field which the encoder takes from the argument (and
// the decoder ignores) instead of the table.
func rvKey(name, slots, aspect string) string {
	fp := strings.HasPrefix(name, "F") && name != "FENCE"
	if fp && strings.HasSuffix(aspect, "reg-class") {
		return "rv/FP/" + aspect
	}
	if fp && strings.Count(slots, ",") == 1 && !strings.ContainsAny(slots, "I") &&
		(strings.HasSuffix(aspect, "op") || aspect == "undecodable") {
		return "rv/FP-2op/" + aspect
	}
	return "rv/" + name + "/" + aspect
}

// ---------------------------------------------------------------- oracle

func rvLookupAs(name string) (abi.As, bool) {
	for as := abi.As(1); as < riscv.ALAST; as++ {
		if riscv.AsString(as, "") == name {
			return as, true
		}
	}
	return 0, false
}

// rvAsName returns Wa's spelling of instruction number as (false past the table).
func rvAsName(as int) (string, bool) {
	if as <= 0 || abi.As(as) >= riscv.ALAST {
		return "", false
	}
	return riscv.AsString(abi.As(as), ""), true
}

func rvArg(k kase) *abi.AsArgument {
	return &abi.AsArgument{Rd: abi.RegType(k.Rd), Rs1: abi.RegType(k.Rs1), Rs2: abi.RegType(k.Rs2), Rs3: abi.RegType(k.Rs3), Imm: k.Imm}
}

func rvEncode(xlen int, as abi.As, arg *abi.AsArgument) (word uint32, out outcome, msg string) {
	var err error
	if p, m := guard(func() {
		if xlen == 32 {
			word, err = riscv.EncodeRV32(as, arg)
		} else {
			word, err = riscv.EncodeRV64(as, arg)
		}
	}); p {
		return 0, rejectedPanic, m
	}
	if err != nil {
		return 0, rejectedErr, err.Error()
	}
	return word, accepted, ""
}

// rvCheck evaluates one RISC-V case (x/arch, llvm-mc arbitration according to
// mode, own decoder).
func rvCheck(k kase, mode llvmMode) (v verdict) {
	xlen := 64
	target := llvmRV64
	if k.Arch == "rv32" {
		xlen, target = 32, llvmRV32
	}
	as, ok := rvLookupAs(k.As)
	if !ok {
		v.out = rejectedErr
		v.add("harness/unknown-mnemonic", "no RISC-V instruction named %q", k.As)
		return
	}
	arg := rvArg(k)
	word, out, _ := rvEncode(xlen, as, arg)
	v.out = out
	if out != accepted {
		return
	}
	v.code = make([]byte, 4)
	binary.LittleEndian.PutUint32(v.code, word)

	name := rvName(as)
	// findings are the same for both XLENs unless the key says otherwise
	pfx := "rv/" + name + "/"
	base, barg, slots, spec, _, known := rvLookup(name, *arg)
	if !known {
		v.add("harness/no-spec/"+name, "the harness has no ISA description for %s (encoder produced %08x)", name, word)
		return
	}
	want, immRange, boundary := rvExpected(base, spec, barg, xlen)
	if !strings.ContainsAny(spec.slots, "IBUJHWCZP") {
		for _, at := range want.args {
			boundary = boundary || at == "x0" || at == "f0" || at == "x31" || at == "f31"
		}
	}
	v.want, v.boundary = want, boundary
	v.shape = slots
	desc := fmt.Sprintf("Encode%s(%s %s) = %08x", strings.ToUpper(k.Arch), k.As, rvArgString(slots, *arg), word)

	rv64on32 := xlen == 32 && spec.rv64
	var indep []string // aspects in which the independent decoders contradict the encoder
	xa := rvXarch(word)
	aspXa := aspects(want, xa, immRange)
	if len(aspXa) != 0 || rv64on32 || mode == llvmAlways {
		if mode == llvmNever && llvmPath() != "" {
			// verdict needs llvm-mc: report the x/arch view as candidates
			v.needLLVM = true
			if rv64on32 {
				v.cand = append(v.cand, finding{"rv32/RV64-only/accepted", desc})
			}
			for _, a := range aspXa {
				v.cand = append(v.cand, finding{rvKey(name, slots, a), desc})
			}
			indep = aspXa
			goto own
		}
		ll, haveLL := dis{}, false
		if llvmPath() != "" {
			if lines, err := target.one(v.code); err != nil {
				v.note("llvm_error")
			} else if rv64on32 {
				// RV64-only instruction accepted by the RV32 encoder: llvm (riscv32)
				// rejecting the word confirms it is not an RV32 instruction.
				if len(lines) == 0 {
					v.add("rv32/RV64-only/accepted", "%s: %s exists only in RV64 (llvm-mc -triple=riscv32: invalid encoding); EncodeRV32 does not check XLEN", desc, name)
				} else {
					v.note("rv64_only_on_rv32_unconfirmed")
				}
			} else if l, unkCSR := rvLLVM(lines, base); unkCSR {
				v.note("llvm_csr_name_unknown")
			} else {
				ll, haveLL = l, true
				v.usedLLVM = true
			}
		}
		fail := func(as []string) {
			indep = append(indep, as...)
			texts := "x/arch: " + xa.String()
			if haveLL {
				texts += " | llvm-mc: " + ll.String()
			}
			for _, a := range as {
				v.add(rvKey(name, slots, a), "%s; expected %q, independent decoders: %s", desc, want.String(), texts)
			}
		}
		switch {
		case !haveLL:
			fail(aspXa)
		case xa.ok && ll.ok:
			if !xa.equal(ll) {
				v.note("ref_conflict") // the references disagree with each other: not charged to Wa
			} else {
				fail(aspXa)
				v.note("llvm_compared")
			}
		case xa.ok || ll.ok:
			ref := xa
			if ll.ok {
				ref = ll
			}
			v.note("single_reference")
			fail(aspects(want, ref, immRange))
		default:
			fail([]string{"undecodable"})
		}
	}

own:
	// own decoder round trip: the base instruction and every operand the
	// instruction has must come back.
	var das abi.As
	var darg *abi.AsArgument
	var derr error
	if p, m := guard(func() { das, darg, derr = riscv.Decode(word) }); p {
		v.add(pfx+"own-decode/panic", "%s; riscv.Decode panics: %s", desc, m)
		return
	}
	if derr != nil {
		if !contains(indep, "op") && !contains(indep, "undecodable") {
			v.add(pfx+"own-decode/error", "%s; riscv.Decode: %v", desc, derr)
		}
		return
	}
	if dn := rvName(das); dn != base {
		// (a wrong operation already reported by the independent decoders is the
		// encoder's defect, not the decoder's)
		if !contains(indep, "op") && !contains(indep, "undecodable") {
			v.add(rvKey(name, slots, "own-decode/op"), "%s; riscv.Decode returns %s, want %s", desc, dn, base)
		}
		return
	}
	if darg == nil {
		v.add(pfx+"own-decode/args", "%s; riscv.Decode returns a nil argument", desc)
		return
	}
	back, _, _ := rvExpected(base, spec, *darg, xlen)
	for _, a := range aspects(want, back, immRange) {
		if contains(indep, a) {
			continue
		}
		v.add(rvKey(name, slots, "own-decode/"+a), "%s; riscv.Decode returns %s %s = %q, want %q", desc, dn2(das), rvArgString(spec.slots, *darg), back.String(), want.String())
	}
	return
}

func dn2(as abi.As) string { return riscv.AsString(as, "") }

func rvArgString(slots string, a abi.AsArgument) string {
	return fmt.Sprintf("{Rd:%s Rs1:%s Rs2:%s Rs3:%s Imm:%d}", rvRegOrZero(a.Rd), rvRegOrZero(a.Rs1), rvRegOrZero(a.Rs2), rvRegOrZero(a.Rs3), a.Imm)
}

func rvRegOrZero(r abi.RegType) string {
	if r == 0 {
		return "-"
	}
	return strings.ToUpper(rvReg(r))
}
