package c17

import (
	"fmt"
	"os"
	"strings"
	"testing"
)

// go test -run TestDbg with C17_DBG="x64 push reg:rax;x64 cmp reg:rax reg:r13;..."
func TestDbg(t *testing.T) {
	for _, spec := range strings.Split(os.Getenv("C17_DBG"), ";") {
		f := strings.Fields(spec)
		if len(f) < 2 {
			continue
		}
		k := kase{Arch: f[0], As: f[1]}
		for _, o := range f[2:] {
			kv := strings.SplitN(o, ":", 2)
			switch kv[0] {
			case "reg":
				k.Ops = append(k.Ops, xop{Kind: "reg", Reg: kv[1]})
			case "imm":
				var v int64
				fmt.Sscan(kv[1], &v)
				k.Ops = append(k.Ops, xop{Kind: "imm", Imm: v})
			case "mem":
				p := strings.Split(kv[1], ",")
				var sz int
				var off int64
				fmt.Sscan(p[0], &sz)
				fmt.Sscan(p[2], &off)
				k.Ops = append(k.Ops, xop{Kind: "mem", Ptr: sz, Reg: p[1], Off: off})
			case "rd":
				fmt.Sscan(kv[1], &k.Rd)
			case "rs1":
				fmt.Sscan(kv[1], &k.Rs1)
			case "rs2":
				fmt.Sscan(kv[1], &k.Rs2)
			case "rs3":
				fmt.Sscan(kv[1], &k.Rs3)
			case "i":
				fmt.Sscan(kv[1], &k.Imm)
			}
		}
		v := check(k, llvmAlways)
		fmt.Printf("%-40s out=%d code=%x want=%q notes=%v\n", spec, v.out, v.code, v.want.String(), v.notes)
		for _, fd := range v.findings {
			fmt.Printf("      %s: %s\n", fd.key, fd.what)
		}
	}
}
