package c29

import (
	"bytes"
	"context"
	"encoding/json"
	"fmt"
	"os"
	"os/exec"
	"path/filepath"
	"regexp"
	"strings"
	"testing"
	"time"

	"pgregory.net/rapid"
	"wa-lang.org/wa/zverif/harness/c23/mini"
	"wa-lang.org/wa/zverif/harness/core"
	"wa-lang.org/wa/zverif/harness/wk"
)

const prop = "C29"

func TestMain(m *testing.M) { core.Main(m) }

// ---------------------------------------------------------------- endings

// ending describes one way a generated program terminates.
type ending struct {
	Kind    string // normal | exit | panic | trap-* | compile-*
	Class   string // normal | exit | panic | trap | compile  (the property's five classes)
	Wa, Wz  string // site statement
	Decls   [2][]string
	Imports []string
	Marker  string // the tool message expected after the prefix (informational)
}

// expectation encoded in the replay payload: Want >= 0 exact status, -1 any non-zero.
type kase struct {
	Name   string   `json:"name"`
	Src    string   `json:"src"`
	Abs    bool     `json:"abs_path,omitempty"`
	Ending string   `json:"ending"`
	Class  string   `json:"class"`
	Want   int      `json:"want_status"` // -1 = any non-zero status
	Prefix []string `json:"stdout_prefix"`
	Marker string   `json:"marker,omitempty"`
	Depth  int      `json:"depth"`
	// Placement: where the ending happens: "" / "main" = in the main function, "init" = in an
	// init function, "global-init" = in the initialiser of a package-level variable (before main).
	Placement string `json:"placement,omitempty"`
}

func genEnding(t *rapid.T) (ending, int) {
	// two-stage draw (rapid favours small indices): first the property's class, then the concrete kind
	classes := map[string][]string{
		"trap":    {"trap-divzero", "trap-oob", "trap-remzero", "trap-divzero-i64", "stack-overflow"},
		"exit":    {"exit"},
		"panic":   {"panic", "nil-deref", "nil-func"},
		"compile": {"compile-type", "compile-syntax", "compile-undefined", "compile-wat"},
		"normal":  {"normal"},
	}
	cl := rapid.SampledFrom([]string{"trap", "exit", "panic", "compile", "normal"}).Draw(t, "class")
	k := rapid.SampledFrom(classes[cl]).Draw(t, "ending")
	switch k {
	case "normal":
		return ending{Kind: k, Class: "normal", Wa: `println("site")`, Wz: `输出("site")`}, 0
	case "exit":
		n := rapid.SampledFrom([]int{0, 1, 2, 3, 42, 255, -1}).Draw(t, "status")
		if n < 0 {
			n = rapid.IntRange(0, 255).Draw(t, "anystatus")
		}
		return ending{Kind: k, Class: "exit", Wa: fmt.Sprintf("js.ProcExit(%d)", n), Wz: fmt.Sprintf("js·ProcExit(%d)", n),
			Imports: []string{"syscall/js"}}, n
	case "panic":
		msg := rapid.SampledFrom([]string{"boom", "bad state", "出错了", "xy"}).Draw(t, "msg")
		return ending{Kind: k, Class: "panic", Wa: fmt.Sprintf("panic(%q)", msg), Wz: fmt.Sprintf("崩溃(%q)", msg), Marker: "panic: " + msg + " ("}, -1
	case "trap-divzero":
		return ending{Kind: k, Class: "trap", Wa: "println(100 / zeroE)", Wz: "输出(100 / zeroE)", Marker: "wasm error: integer divide by zero",
			Decls: [2][]string{{"global zeroE: i32 = 0"}, {"全局·zeroE: 普整型 = 0"}}}, -1
	case "trap-remzero":
		return ending{Kind: k, Class: "trap", Wa: "println(7 % zeroE)", Wz: "输出(7 % zeroE)", Marker: "wasm error: integer divide by zero",
			Decls: [2][]string{{"global zeroE: i64 = 0"}, {"全局·zeroE: 长整型 = 0"}}}, -1
	case "trap-oob":
		return ending{Kind: k, Class: "trap", Wa: "println(arrE[bigE])", Wz: "输出(arrE[bigE])", Marker: "wasm error: out of bounds memory access",
			Decls: [2][]string{{"global arrE: []i32 = []i32{1, 2, 3}", "global bigE: int = 1000000000"},
				{"全局·arrE: []普整型 = []普整型{1, 2, 3}", "全局·bigE: 整型 = 1000000000"}}}, -1
	case "trap-divzero-i64":
		return ending{Kind: k, Class: "trap", Wa: "println(i64(100) / zeroE)", Wz: "输出(长整型(100) / zeroE)", Marker: "wasm error: integer divide by zero",
			Decls: [2][]string{{"global zeroE: i64 = 0"}, {"全局·zeroE: 长整型 = 0"}}}, -1
	case "nil-deref":
		return ending{Kind: k, Class: "panic", Wa: "println(*nilE)", Wz: "输出(*nilE)", Marker: "panic: ",
			Decls: [2][]string{{"global nilE: *i32"}, {"全局·nilE: *普整型"}}}, -1
	case "nil-func":
		return ending{Kind: k, Class: "panic", Wa: "println(fnE(1))", Wz: "输出(fnE(1))", Marker: "panic: ",
			Decls: [2][]string{{"global fnE: func(a: i32) => i32"}, {"全局·fnE: 函数(a: 普整型) => 普整型"}}}, -1
	case "stack-overflow":
		return ending{Kind: k, Class: "trap", Wa: "println(recE(1))", Wz: "输出(recE(1))", Marker: "wasm error: stack overflow",
			Decls: [2][]string{{"func recE(n: i32) => i32 {", "\treturn recE(n+1) + 1", "}"},
				{"函数·recE(n: 普整型) => 普整型:", "\t返回 recE(n+1) + 1", "完毕"}}}, -1
	case "compile-type":
		return ending{Kind: k, Class: "compile", Wa: `badE: i32 = "text"; println(badE)`, Wz: `设定 badE: 普整型 = "text"; 输出(badE)`}, -1
	case "compile-syntax":
		return ending{Kind: k, Class: "compile", Wa: `println("unterminated"`, Wz: `输出("unterminated"`}, -1
	case "compile-wat":
		// `wa run` also accepts WebAssembly text; a .wat file that does not assemble fails to compile
		return ending{Kind: k, Class: "compile"}, -1
	default: // compile-undefined
		return ending{Kind: "compile-undefined", Class: "compile", Wa: `println(undefinedE)`, Wz: `输出(undefinedE)`}, -1
	}
}

// genProgram draws one single-file program with a known ending.
func genProgram(t *rapid.T) (kase, *mini.Unit) {
	wz := rapid.Bool().Draw(t, "wz")
	e, want := genEnding(t)
	if e.Kind == "compile-wat" {
		src := rapid.SampledFrom([]string{
			"(module (func", "(module (func $main (export \"_start\") i32.add))", "(module (memory 1) (func $f (result i32) i32.const))",
			"(modul)", "(module (func $f (param i32) local.get 9))", "(module (func $f call $missing))", ")(",
		}).Draw(t, "badwat")
		name := rapid.SampledFrom([]string{"p", "main", "prog_1", "hello"}).Draw(t, "fname") + ".wat"
		return kase{Name: name, Src: src, Abs: rapid.Bool().Draw(t, "abs"), Ending: e.Kind, Class: e.Class, Want: want}, nil
	}
	o := mini.Opts{Wz: wz, Entry: "main", MaxDepth: 4,
		Site: mini.Site{Wa: e.Wa, Wz: e.Wz, Terminal: e.Class != "normal"}}
	switch e.Class {
	case "normal":
		o.Site.Prints = []string{"site"}
	case "compile":
	default:
		// Bracket the ending with two markers: "@site" on stdout proves that the
		// ending statement was reached, the absence of "@after" that the program
		// really stopped there.  Whatever else follows "@site" is the tool's own text.
		o.Site.Wa = `println("@site"); ` + e.Wa + `; println("@after")`
		o.Site.Wz = `输出("@site"); ` + e.Wz + `; 输出("@after")`
		o.Site.Prints = []string{"@site"}
	}
	if wz {
		o.Entry = "主控"
	}
	// the program may also end before main starts: in an init function or a global initialiser
	placement := "main"
	if e.Class != "compile" {
		placement = rapid.SampledFrom([]string{"main", "main", "init", "global-init"}).Draw(t, "placement")
	}
	var trailer string
	switch placement {
	case "init":
		o.Entry = "init"
		trailer = "\nfunc main {\n\tprintln(\"@main\")\n}\n"
		if wz {
			o.Entry = "准备"
			trailer = "\n函数·主控:\n\t输出(\"@main\")\n完毕\n"
		}
	case "global-init":
		o.Entry = "entryE"
		trailer = "\nglobal gInitE: i32 = runInitE()\n\nfunc runInitE() => i32 {\n\tentryE()\n\treturn 7\n}\n\nfunc main {\n\tprintln(\"@main\")\n}\n"
		if wz {
			trailer = "\n全局·gInitE: 普整型 = runInitE()\n\n函数·runInitE() => 普整型:\n\tentryE()\n\t返回 7\n完毕\n\n函数·主控:\n\t输出(\"@main\")\n完毕\n"
		}
	}
	u := mini.Gen(t, o)
	var head []string
	switch rapid.IntRange(0, 2).Draw(t, "header") {
	case 1:
		head = append(head, "// generated program", "")
	case 2:
		if wz {
			head = append(head, "注: 版权 @2025 测试", "")
		} else {
			head = append(head, "// 版权 @2025 测试", "// second line", "")
		}
	}
	for _, im := range e.Imports {
		if wz {
			head = append(head, fmt.Sprintf("引入 %q", im), "")
		} else {
			head = append(head, fmt.Sprintf("import %q", im), "")
		}
	}
	decls := e.Decls[0]
	if wz {
		decls = e.Decls[1]
	}
	if len(decls) > 0 {
		head = append(head, decls...)
		head = append(head, "")
	}
	body, _ := u.Text(len(head))
	src := strings.Join(head, "\n")
	if len(head) > 0 {
		src += "\n"
	}
	src += body + trailer
	name := rapid.SampledFrom([]string{"p", "main", "prog_1", "hello"}).Draw(t, "fname")
	if wz {
		name += ".wz"
	} else {
		name += ".wa"
	}
	k := kase{Name: name, Src: src, Abs: rapid.Bool().Draw(t, "abs"), Ending: e.Kind, Class: e.Class, Want: want,
		Prefix: u.Out, Marker: e.Marker, Depth: u.Depth}
	if placement != "main" {
		k.Placement = placement
		if e.Class == "normal" {
			k.Prefix = append(append([]string{}, u.Out...), "@main") // initialisation completes, then main runs
		}
	}
	if e.Class == "compile" {
		k.Prefix = nil
	}
	return k, u
}

// ---------------------------------------------------------------- running the real CLI

type capped struct {
	buf bytes.Buffer
	max int
}

func (c *capped) Write(p []byte) (int, error) {
	if room := c.max - c.buf.Len(); room > 0 {
		if len(p) > room {
			c.buf.Write(p[:room])
		} else {
			c.buf.Write(p)
		}
	}
	return len(p), nil
}

type runResult struct {
	Status   int
	Stdout   string
	Stderr   string
	Unusable string // non-empty: the run says nothing about the property (time-out, signal, cannot start)
}

func runWa(k kase) runResult {
	dir, err := os.MkdirTemp("", "c29-")
	if err != nil {
		return runResult{Unusable: "mkdtemp: " + err.Error()}
	}
	defer os.RemoveAll(dir)
	path := filepath.Join(dir, k.Name)
	if err := os.WriteFile(path, []byte(k.Src), 0o644); err != nil {
		return runResult{Unusable: "write: " + err.Error()}
	}
	arg := k.Name
	if k.Abs {
		arg = path
	}
	// The time limit is a backstop against a hung child only; hitting it is inconclusive.
	ctx, cancel := context.WithTimeout(context.Background(), 10*time.Minute)
	defer cancel()
	cmd := exec.CommandContext(ctx, wk.BinPath("wa"), "run", arg)
	cmd.Dir = dir
	so, se := &capped{max: 1 << 20}, &capped{max: 1 << 16}
	cmd.Stdout, cmd.Stderr = so, se
	cmd.Stdin = nil
	err = cmd.Run()
	r := runResult{Stdout: so.buf.String(), Stderr: se.buf.String()}
	if ctx.Err() != nil {
		r.Unusable = "time limit"
		return r
	}
	if err != nil {
		ee, ok := err.(*exec.ExitError)
		if !ok {
			r.Unusable = "exec: " + err.Error()
			return r
		}
		r.Status = ee.ExitCode()
		if r.Status < 0 {
			r.Unusable = "killed by signal: " + ee.String()
		}
	}
	return r
}

var diagRe = regexp.MustCompile(`(?m)^\S*\.(wa|wz|wat):\d+:\d+: `)

func looksLikeCompileFailure(s string) bool {
	return diagRe.MatchString(s) || strings.Contains(s, "appbuild.BuildApp:") || strings.Contains(s, "compile_func.go") ||
		strings.Contains(s, "Todo:")
}

// verdict classifies one run: key != "" → the property is violated;
// skip != "" → the case says nothing (generator defect or unusable run).
func verdict(k kase, r runResult) (key, what, skip string) {
	if r.Unusable != "" {
		return "", "", "unusable: " + r.Unusable
	}
	prefix := strings.Join(k.Prefix, "\n")
	if len(k.Prefix) > 0 {
		prefix += "\n"
	}
	show := func() string {
		return fmt.Sprintf("`wa run %s` (ending %s) exited with status %d; stdout:\n%s", k.Name, k.Ending, r.Status, tail(r.Stdout, 800))
	}
	// Did the program really end the way the generator intended?  If not the
	// generator (or its model) is wrong and the case is discarded.
	if k.Class == "compile" {
		if r.Status != 0 && k.Ending != "compile-wat" && !looksLikeCompileFailure(r.Stdout+r.Stderr) {
			return "", "", "generator: expected a compile diagnostic, got: " + tail(r.Stdout, 300)
		}
	} else if k.Placement != "" && k.Placement != "main" && k.Class != "normal" {
		// Output printed before a termination during initialisation is not delivered by
		// `wa run` (observed on the unchanged tree; the property speaks of the status only),
		// so the modelled prefix cannot be used to confirm the path taken.
		if looksLikeCompileFailure(r.Stdout + r.Stderr) {
			return "", "", "generator: program does not compile: " + tail(r.Stdout+r.Stderr, 400)
		}
		// (that the site is reached is the generator's guarantee, confirmed by the prefix
		// check on every main-placed case, which uses the same nest generator)
	} else {
		if looksLikeCompileFailure(strings.TrimPrefix(r.Stdout, prefix)) {
			return "", "", "generator: program does not compile: " + tail(r.Stdout, 400)
		}
		if !strings.HasPrefix(r.Stdout, prefix) {
			return "", "", "model: stdout does not start with the modelled prefix: " + show()
		}
		rest := r.Stdout[len(prefix):]
		if k.Class == "normal" {
			if rest != "" {
				return "", "", "model: unexpected output after the modelled lines: " + show()
			}
		} else if strings.Contains(rest, "@after") {
			return "", "", "model: the program continued past its ending statement: " + show()
		}
	}
	switch {
	case k.Want == 0 && r.Status != 0:
		return "exit-status/" + k.Class + "/nonzero", "program ends normally (status 0 expected): " + show(), ""
	case k.Want > 0 && r.Status != k.Want:
		return "exit-status/exit/mismatch", fmt.Sprintf("program calls the exit function with %d: %s", k.Want, show()), ""
	case k.Want < 0 && r.Status == 0:
		return "exit-status/" + k.Class + "/zero", "program ends by " + k.Ending + " (non-zero status expected): " + show(), ""
	}
	return "", "", ""
}

func tail(s string, n int) string {
	if len(s) > n {
		return s[:n] + "…"
	}
	return s
}

// ---------------------------------------------------------------- tests

func depthClass(d int) string {
	if d >= 3 {
		return "depth>=3"
	}
	return fmt.Sprintf("depth=%d", d)
}

func TestRunExitStatus(t *testing.T) {
	s := core.NewStats(prop, "RunExitStatus")
	s.Rule("rapid: single-file program (.wa or .wz, drawn) whose entry function reaches, through a drawn nest (depth 0..4) of blocks/ifs/loops/switches/closures/helper calls/method calls/deferred closures with printing statements before it, one site of a drawn ending kind (normal return; exit function with status 0..255; panic; runtime-detected nil dereference / nil function call; wasm trap by integer division or remainder by zero (i32 and i64), out-of-bounds memory access, stack exhaustion; compile error by type error, syntax error, undefined name, or a .wat file that does not assemble); the real `wa` binary is run as `wa run <file>` (relative or absolute path); the ending is reached from main, from an init function or from the initialiser of a package-level variable (drawn); the oracle compares the process exit status with: 0 for normal return, n for exit(n), non-zero otherwise; non-trivial = ending is not normal and at least one line was printed before it")
	s.Assume("the generator's tiny interpreter predicts the lines printed before the ending; a run whose stdout does not start with them (or that fails to compile when it should not) is counted as generator/model rejection, never as a violation")
	var rejected, unusable int64
	s.Check(t, func(t *rapid.T, c *core.Case) {
		k, u := genProgram(t)
		c.Set(k)
		r := runWa(k)
		key, what, skip := verdict(k, r)
		if skip != "" {
			if strings.HasPrefix(skip, "unusable") {
				unusable++
				s.Counter("inconclusive_run", 1)
			} else {
				rejected++
				s.Counter("rejected_generator_or_model", 1)
				fmt.Fprintf(os.Stderr, "REJECTED: %s\n--- source\n%s\n---\n", skip, k.Src)
				s.Note("rejected case: " + tail(skip, 300))
			}
			c.Class("skipped")
			return
		}
		c.Class("ending/" + k.Ending)
		c.Class("class/" + k.Class)
		if strings.HasSuffix(k.Name, ".wz") {
			c.Class("syntax/wz")
		} else if strings.HasSuffix(k.Name, ".wat") {
			c.Class("syntax/wat")
		} else {
			c.Class("syntax/wa")
		}
		c.Class(depthClass(k.Depth))
		if k.Placement != "" {
			c.Class("placement/" + k.Placement)
		} else {
			c.Class("placement/main")
		}
		if u != nil {
			for _, w := range u.Wrappers {
				c.Class("wrapper/" + w)
			}
		}
		if k.Abs {
			c.Class("path/absolute")
		} else {
			c.Class("path/relative")
		}
		if key != "" {
			c.Fail(key, "%s", what)
		}
		if k.Class != "normal" && len(k.Prefix) > 0 {
			c.Nontrivial(k.Src)
		}
	})
	if rejected > 0 {
		t.Errorf("HARNESS: %d generated programs were rejected (generator or model defect) - inconclusive", rejected)
	}
	if unusable > 2 {
		t.Errorf("HARNESS: %d runs were unusable (time limit / signal) - inconclusive", unusable)
	}
}

// ---------------------------------------------------------------- replay

func replay(test string, raw json.RawMessage) (string, string) {
	var k kase
	if err := json.Unmarshal(raw, &k); err != nil {
		return "harness/bad-replay", err.Error()
	}
	key, what, skip := verdict(k, runWa(k))
	if skip != "" {
		return "", ""
	}
	return key, what
}

func TestReplay(t *testing.T) { core.RunReplays(t, prop, replay) }
