package c27

import (
	"encoding/json"
	"fmt"
	"os"
	"path/filepath"
	"strings"
	"testing"
	"time"

	"pgregory.net/rapid"
	"wa-lang.org/wa/zverif/harness/core"
	"wa-lang.org/wa/zverif/harness/wagen"
	"wa-lang.org/wa/zverif/harness/wk"
)

const prop = "C27"

func TestMain(m *testing.M) { core.Main(m) }

type kase struct {
	Name string `json:"name"`
	Src  string `json:"src"`
}

type hashes struct {
	Wat, Wasm, Strip, C string
	WatText             string `json:"wat_text"`
}

type bhArgs struct {
	Name   string `json:"name"`
	Src    string `json:"src"`
	Times  int    `json:"times"`
	Text   bool   `json:"text"`
	Native bool   `json:"native"`
}

const (
	inProcess = 4 // builds in one process
	processes = 3 // builds in fresh processes (Go re-seeds map iteration per process and per range)
)

var wat2cDiffers int64 // observation only, see judge

func newWorker() *wk.Client { return wk.New(wk.Options{CPULimit: 150 * time.Second}) }

// judge: key "" = all artefacts identical; domain != "" = program does not build / inconclusive.
func judge(k kase) (key, what, domain string, builds int) {
	var all []hashes
	var where []string
	run := func(w *wk.Client, times int, tag string) string {
		o := w.Do("build_hashes", bhArgs{Name: k.Name, Src: k.Src, Times: times, Native: true, Text: true})
		switch o.Kind {
		case wk.OK:
			var hs []hashes
			o.Decode(&hs)
			for i, x := range hs {
				all = append(all, x)
				where = append(where, fmt.Sprintf("%s build %d", tag, i+1))
			}
			return ""
		case wk.Error:
			return "does-not-build: " + firstLine(o.Err)
		case wk.Panic, wk.Exited:
			return "compiler-crash (C16 domain): " + firstLine(o.String())
		}
		return "inconclusive: " + o.String()
	}
	w := newWorker()
	d := run(w, inProcess, "process 1")
	w.Close()
	if d != "" {
		return "", "", d, 0
	}
	for p := 0; p < processes; p++ {
		w := newWorker()
		d := run(w, 1, fmt.Sprintf("process %d", p+2))
		w.Close()
		if d != "" {
			return "", "", d, 0
		}
	}
	ref := all[0]
	for i, x := range all[1:] {
		switch {
		case x.Wat != ref.Wat:
			scope := "across-processes"
			if i+1 < inProcess {
				scope = "same-process"
			}
			return "nondeterministic-wat/" + scope, fmt.Sprintf("%s and %s produced different WAT text: %s", where[0], where[i+1], textDiff(ref.WatText, x.WatText)), "", len(all)
		case x.Wasm != ref.Wasm:
			return "nondeterministic-wasm", fmt.Sprintf("%s and %s: same WAT, different binary", where[0], where[i+1]), "", len(all)
		case x.Strip != ref.Strip:
			return "nondeterministic-watstrip", fmt.Sprintf("%s and %s: WatStrip output differs", where[0], where[i+1]), "", len(all)
		case x.C != ref.C:
			// The property speaks of WebAssembly text and binary; the C rendering made by
			// wat2c from identical WAT is outside it. Observed and counted, not judged.
			wat2cDiffers++
		}
	}
	return "", "", "", len(all)
}

func textDiff(a, b string) string {
	al, bl := strings.Split(a, "\n"), strings.Split(b, "\n")
	n := 0
	first := ""
	for i := 0; i < len(al) || i < len(bl); i++ {
		var x, y string
		if i < len(al) {
			x = al[i]
		}
		if i < len(bl) {
			y = bl[i]
		}
		if x != y {
			if n == 0 {
				first = fmt.Sprintf("first at line %d: %.120q vs %.120q", i+1, x, y)
			}
			n++
		}
	}
	return fmt.Sprintf("%d differing lines; %s", n, first)
}

func firstLine(s string) string {
	ls := strings.Split(strings.TrimSpace(s), "\n")
	if len(ls) > 2 {
		ls = ls[:2]
	}
	return strings.Join(ls, " | ")
}

// withStd adds imports of standard packages (more packages = more compiler-internal maps).
func withStd(t *rapid.T, src string) string {
	pkgs := []struct{ imp, use string }{
		{"strconv", `println(strconv.Itoa(42))`},
		{"strings", `println(strings.ToUpper("ab"))`},
		{"math", `println(math.Sqrt(2.0))`},
		{"unicode/utf8", `println(utf8.RuneLen('x'))`},
		{"sort", `println(sort.SearchInts([]int{1, 2, 3}, 2))`},
	}
	var imps, uses []string
	for _, p := range pkgs {
		if rapid.Bool().Draw(t, "imp_"+p.imp) {
			imps = append(imps, `import "`+p.imp+`"`)
			uses = append(uses, "\t"+p.use)
		}
	}
	if len(imps) == 0 {
		return src
	}
	return strings.Join(imps, "\n") + "\n\n" + src + "\nfunc useStd {\n" + strings.Join(uses, "\n") + "\n}\n"
}

func TestGenerated(t *testing.T) {
	s := core.NewStats(prop, "Generated")
	s.Rule(fmt.Sprintf("rapid-drawn programs (harness/wagen with up to 6 named struct types, up to 3 interfaces, optional std imports); each is compiled %d× in one process and once in each of %d fresh processes (Go re-seeds map iteration per process and per range); oracle = WAT text, assembled binary and WatStrip (--optimize) output byte-identical across all %d builds (differences in the wat2c C rendering are counted as an observation, the property names WebAssembly text and binary only); non-trivial = ≥ 4 named types with methods or ≥ 2 interfaces or ≥ 2 std imports; distinct by source hash", inProcess, processes, inProcess+processes))
	s.Assume("the harness does not control Go's map-iteration seed: detection of an unordered-map dependency is probabilistic in the number of (program × build) pairs, which the evidence reports")
	var judged, out int64
	s.Check(t, func(t *rapid.T, c *core.Case) {
		p := wagen.Gen(t, wagen.Options{MaxStmts: 30, MaxFuncs: 5, MaxStructs: 6, MaxIfaces: 3})
		src := withStd(t, p.Src[wagen.Wa])
		k := kase{Name: "p.wa", Src: src}
		c.Set(k)
		key, what, domain, builds := judge(k)
		if domain != "" {
			s.Counter("rejected_by_domain/"+strings.SplitN(domain, ":", 2)[0], 1)
			if dir := os.Getenv("VERIF_DEBUG_DIR"); dir != "" {
				os.MkdirAll(dir, 0o755)
				os.WriteFile(filepath.Join(dir, fmt.Sprintf("domain-%x.wa", core.Hash64(src))), []byte(src+"\n// "+domain), 0o644)
			}
			out++
			t.Skip(domain)
		}
		judged++
		s.Counter("program_x_build_pairs", int64(builds))
		if key != "" {
			c.Fail(key, "%s", what)
		}
		nTypes := strings.Count(src, ":struct")
		nIfaces := strings.Count(src, ":interface")
		nImp := strings.Count(src, "import \"")
		c.Class(fmt.Sprintf("imports=%d", nImp))
		if nTypes >= 4 || nIfaces >= 2 || nImp >= 2 {
			c.Nontrivial(src)
		}
	})
	s.Counter("observation/wat2c_output_differs_for_identical_wat", wat2cDiffers)
	if judged > 0 && out*3 > judged {
		t.Errorf("generator health: %d of %d programs did not build", out, judged+out)
	}
}

// TestExamples: the repository's single-file example programs.
func TestExamples(t *testing.T) {
	s := core.NewStats(prop, "Examples")
	defer s.Flush()
	s.Rule("enumeration of single-file programs under waroot/examples (sharded); same oracle; non-trivial = every file that builds")
	files, _ := filepath.Glob(filepath.Join(core.RepoDir(), "waroot", "examples", "*.wa"))
	more, _ := filepath.Glob(filepath.Join(core.RepoDir(), "waroot", "examples", "misc", "*.wa"))
	wz, _ := filepath.Glob(filepath.Join(core.RepoDir(), "waroot", "examples", "wz", "hello", "*.wz"))
	files = append(append(files, more...), wz...)
	sh, n := core.Shard()
	for i, f := range files {
		if i%n != sh {
			continue
		}
		data, err := os.ReadFile(f)
		if err != nil {
			continue
		}
		k := kase{Name: filepath.Base(f), Src: string(data)}
		key, what, domain, builds := judge(k)
		if domain != "" {
			s.Counter("rejected_by_domain/"+strings.SplitN(domain, ":", 2)[0], 1)
			continue
		}
		s.Eval(1)
		s.Counter("program_x_build_pairs", int64(builds))
		s.Nontrivial(core.Hash64(k.Src))
		s.Sample(map[string]string{"file": strings.TrimPrefix(f, core.RepoDir())})
		if key != "" {
			c := s.NewCase(t)
			c.Set(k)
			c.Fail(key, "%s: %s", f, what)
		}
	}
}

func replay(test string, raw json.RawMessage) (string, string) {
	var k kase
	if err := json.Unmarshal(raw, &k); err != nil {
		return "harness/bad-replay", err.Error()
	}
	// a difference once seen is probabilistic: rebuild up to 8 rounds
	for i := 0; i < 8; i++ {
		if key, what, _, _ := judge(k); key != "" {
			return key, what
		}
	}
	return "", ""
}

func TestReplay(t *testing.T) { core.RunReplays(t, prop, replay) }
