package c31

import (
	"encoding/base64"
	"fmt"
	"strings"
	"sync"
	"testing"

	"pgregory.net/rapid"
	"wa-lang.org/wa/zverif/harness/core"
	om "wa-lang.org/wa/zverif/harness/opmatrix"
	"wa-lang.org/wa/zverif/harness/wk"
)

type jsProgram struct {
	Wasm    string      `json:"wasm"`
	Main    string      `json:"main"`
	MaxLog  int         `json:"maxLog"`
	Imports []om.Import `json:"imports"`
}

const maxLog = 20000

var (
	workerOnce sync.Once
	worker     *wk.Client
)

func theWorker() *wk.Client {
	workerOnce.Do(func() { worker = wk.New(wk.Options{}) })
	return worker
}

type built struct {
	Main string `json:"main"`
	Wat  string `json:"wat"`
}

// buildProgram compiles Wa source exactly like api.BuildFile (default js target).
func buildProgram(name, src string) (b built, rejected string) {
	o := theWorker().Do("build", wk.Src{Name: name, Src: src})
	if o.Kind != wk.OK {
		return b, o.String()
	}
	if err := o.Decode(&b); err != nil {
		return b, err.Error()
	}
	return b, ""
}

func parseProgramOutput(out string, n int) ([][]string, error) {
	parts := strings.Split(out, "MODULE ")
	if len(parts)-1 != n {
		return nil, fmt.Errorf("node printed %d program sections, want %d", len(parts)-1, n)
	}
	res := make([][]string, n)
	for k := 0; k < n; k++ {
		body := parts[k+1]
		nl := strings.IndexByte(body, '\n')
		lines := strings.Split(strings.TrimRight(body[nl+1:], "\n"), "\n")
		res[k] = lines
	}
	return res, nil
}

// diffLogs compares the recorded behaviours; "" = equal.
func diffLogs(wz om.Recorded, v8 []string) (key, what string) {
	if len(v8) == 0 {
		return "harness/empty-node-output", "node printed nothing for the program"
	}
	end := v8[len(v8)-1]
	log := v8[:len(v8)-1]
	if strings.HasPrefix(end, "ERR ") {
		if wz.Err != "" {
			return "", "" // both refuse to load
		}
		return "program/load", fmt.Sprintf("V8 cannot load/run what wazero runs: %s", end)
	}
	if wz.Err != "" {
		return "program/load", fmt.Sprintf("wazero cannot load what V8 runs: %s", wz.Err)
	}
	n := len(log)
	if len(wz.Log) < n {
		n = len(wz.Log)
	}
	for i := 0; i < n; i++ {
		if wz.Log[i] != log[i] {
			name := wz.Log[i]
			if j := strings.IndexByte(name, '('); j > 0 {
				name = name[:j]
			}
			return "program/host-call/" + name, fmt.Sprintf("host call #%d differs: wazero %q, V8 %q", i, clip(wz.Log[i]), clip(log[i]))
		}
	}
	if len(wz.Log) != len(log) {
		if wz.End == "TRAP" || end == "TRAP" {
			// one engine trapped earlier: resource exhaustion depth is engine-defined
			return "inconclusive/trap-depth", fmt.Sprintf("logs are prefixes (%d vs %d calls), ends %s / %s", len(wz.Log), len(log), wz.End, end)
		}
		return "program/host-call-count", fmt.Sprintf("wazero made %d host calls, V8 %d (ends %s / %s)", len(wz.Log), len(log), wz.End, end)
	}
	if wz.End != end {
		return "program/end", fmt.Sprintf("wazero ended with %s, V8 with %s after %d identical host calls", wz.End, end, len(log))
	}
	return "", ""
}

func clip(s string) string {
	if len(s) > 200 {
		return s[:200] + "…"
	}
	return s
}

// CompareProgramSource is the plug-in hook for generated programs: it takes Wa
// source text, compiles it with the repository's compiler and compares the
// embedded runtime with V8 under the recording syscall_js host.
// key "" = behaviours equal; keys starting "rejected/" or "inconclusive/" are
// not violations.
func CompareProgramSource(name, src string, interp bool) (key, what string, hostCalls int) {
	b, rej := buildProgram(name, src)
	if rej != "" {
		return "rejected/build", rej, 0
	}
	if !core.Thorough() {
		// quick tier: the dead-code stripper of `wa build --optimize` keeps engine compilation small
		o := theWorker().Do("watstrip", wk.Src{Name: name, Src: b.Wat})
		var r struct {
			Out string `json:"out"`
		}
		if o.Kind != wk.OK || o.Decode(&r) != nil {
			return "rejected/watstrip", o.String(), 0
		}
		b.Wat = r.Out
	}
	wasm, err := om.Assemble(b.Wat)
	if err != nil {
		return "rejected/assemble", err.Error(), 0
	}
	wz := om.RunRecorded(wasm, b.Main, interp, maxLog)
	out, inc, why := runNode(strings.Replace(driverPath(), "driver.js", "driver_prog.js", 1),
		[]jsProgram{{Wasm: base64.StdEncoding.EncodeToString(wasm), Main: b.Main, MaxLog: maxLog, Imports: wz.Imports}})
	if inc {
		return "inconclusive/node", why, 0
	}
	res, err := parseProgramOutput(out, 1)
	if err != nil {
		return "inconclusive/node-output", err.Error(), 0
	}
	key, what = diffLogs(wz, res[0])
	return key, what, len(wz.Log)
}

func compareProgram(name, src string) (string, string) {
	for _, interp := range []bool{false, true} {
		key, what, _ := CompareProgramSource(name, src, interp)
		if key != "" && !strings.HasPrefix(key, "rejected/") && !strings.HasPrefix(key, "inconclusive/") {
			eng := "compiler"
			if interp {
				eng = "interp"
			}
			return key + "@" + eng, what
		}
	}
	return "", ""
}

func checkProgram(s *core.Stats, c *core.Case, p om.Program, interp bool) {
	c.Set(payload{Kind: "program", Name: p.Name, Src: p.Src})
	key, what, calls := CompareProgramSource(p.Name, p.Src, interp)
	eng := "compiler"
	if interp {
		eng = "interp"
	}
	switch {
	case key == "":
		s.Count("program/equal@"+eng, 1)
		if calls >= 5 {
			s.Nontrivial(core.Hash64(p.Src, eng))
			s.Sample(map[string]interface{}{"program": p.Name, "host_calls": calls, "engine": eng})
		}
	case strings.HasPrefix(key, "rejected/"), strings.HasPrefix(key, "inconclusive/"):
		s.Counter(key, 1)
		s.Note(fmt.Sprintf("%s: %s: %s", p.Name, key, clip(what)))
	default:
		c.Fail(key+"@"+eng, "%s (%s): %s", p.Name, eng, what)
	}
}

// Programs of waroot/examples (fixed corpus, sharded).
func TestExamplePrograms(t *testing.T) {
	s := core.NewStats(prop, "ExamplePrograms")
	defer s.Flush()
	defer theWorker().Close()
	s.Rule("enumeration of the single-file programs under waroot/examples, compiled by the repository's compiler (worker op build = api.BuildFile), run on vendored wazero and on V8 under a recording syscall_js host (every import call logged as name + raw argument bits + bytes of the printed string; how the run ended); non-trivial = programs with >= 5 host calls whose logs were compared")
	sh, n := core.Shard()
	progs := om.ExamplePrograms()
	k := 0
	for _, p := range progs {
		if !core.Thorough() && !om.QuickProgram(p.Name) {
			continue
		}
		k++
		if k%n != sh {
			continue
		}
		c := s.NewCase(t)
		checkProgram(s, c, p, false)
		if core.Thorough() {
			checkProgram(s, s.NewCase(t), p, true)
		}
		s.Eval(1)
	}
	s.Counter("example_programs_total", int64(len(progs)))
}

// Hand-templated programs with drawn constants (stand-in for the typed program generator).
func TestTemplatePrograms(t *testing.T) {
	s := core.NewStats(prop, "TemplatePrograms")
	defer theWorker().Close()
	s.Rule("rapid: small hand-templated Wa programs (integer/float arithmetic and conversions, slices+append, strings, structs+methods, closures, loops/switch, recursion, maps, arrays, multiple results) with drawn constants; same oracle as ExamplePrograms; non-trivial = >= 5 host calls compared")
	s.Check(t, func(t *rapid.T, c *core.Case) {
		p := om.TemplateProgram(t)
		interp := rapid.Bool().Draw(t, "interp")
		checkProgram(s, c, p, interp)
	})
}
