// Fixed V8 driver for C31(b): runs compiler-produced programs under a
// recording host.  usage: node driver_prog.js <batch.json>
//   batch = [{wasm: base64, main: "pkg.main", maxLog: n, imports: [{module, name, params, results}]}]
// Every import call is logged as  module.name(hex raw bits,...)[ hex bytes of the string]
// exactly like opmatrix.LogLine does on the wazero side; imports return 0.
'use strict';
const fs = require('fs');
const batch = JSON.parse(fs.readFileSync(process.argv[2], 'utf8'));
const out = [];
class ProcExit { constructor(code) { this.code = code; } }
const cv = new DataView(new ArrayBuffer(8));
function bits(t, v) {
  switch (t) {
    case 'i': return (v >>> 0).toString(16);
    case 'I': return BigInt.asUintN(64, v).toString(16);
    case 'f':
      if (Number.isNaN(v)) return 'nan';
      cv.setFloat32(0, v); return cv.getUint32(0).toString(16);
    default:
      if (Number.isNaN(v)) return 'nan';
      cv.setFloat64(0, v); return cv.getBigUint64(0).toString(16);
  }
}
function hexBytes(mem, ptr, len) {
  ptr >>>= 0; len >>>= 0;
  const b = new Uint8Array(mem.buffer);
  if (ptr + len > b.length) return '';
  return Buffer.from(b.subarray(ptr, ptr + len)).toString('hex');
}
for (let k = 0; k < batch.length; k++) {
  const m = batch[k];
  out.push('MODULE ' + k);
  const log = [];
  let overflow = false;
  let inst = null;
  const imports = {};
  for (const im of m.imports) {
    if (!imports[im.module]) imports[im.module] = {};
    imports[im.module][im.name] = (...args) => {
      let line = im.module + '.' + im.name + '(' + args.map((a, i) => bits(im.params[i], a)).join(',') + ')';
      if ((im.name === 'print_str' || im.name === 'debug_write_file') && args.length >= 2) {
        const off = im.name === 'debug_write_file' ? 2 : 0;
        line += ' ' + hexBytes(inst.exports.memory, args[off], args[off + 1]);
      }
      if (log.length < m.maxLog) log.push(line); else overflow = true;
      if (im.name === 'proc_exit') throw new ProcExit(args[0] >>> 0);
      if (im.results.length === 0) return undefined;
      return im.results[0] === 'I' ? 0n : 0;
    };
  }
  let end = 'END';
  try {
    const mod = new WebAssembly.Module(Buffer.from(m.wasm, 'base64'));
    inst = new WebAssembly.Instance(mod, imports);
    if (typeof inst.exports._start === 'function') inst.exports._start();
    if (m.main && typeof inst.exports[m.main] === 'function') inst.exports[m.main]();
  } catch (e) {
    if (e instanceof ProcExit) end = 'EXIT ' + e.code;
    else if (e instanceof WebAssembly.RuntimeError) end = 'TRAP';
    else if (e instanceof RangeError) end = 'TRAP'; // stack exhaustion
    else end = 'ERR ' + String(e).replace(/\n/g, ' ');
  }
  for (const l of log) out.push(l);
  if (overflow) out.push('…log truncated');
  out.push(end);
}
process.stdout.write(out.join('\n') + '\n');
