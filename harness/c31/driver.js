// Fixed V8 driver for C31(a): runs call scripts on wasm modules and prints the
// opmatrix line protocol.  usage: node driver.js <batch.json>
//   batch = [{wasm: base64, funcs: [{name, params, results, stateful}], calls: [{f, args:[hex]}]}]
// params/results are the types seen through the export actually called: only
// 'i' (i32) and 'I' (i64, BigInt); float-typed functions are called through
// their bit-pattern wrappers (the generator adds them), so no value ever
// passes through a JavaScript number as f32/f64.
'use strict';
const fs = require('fs');
const batch = JSON.parse(fs.readFileSync(process.argv[2], 'utf8'));
const out = [];
function memHash(mem) {
  const b = new Uint8Array(mem.buffer);
  let h1 = 2166136261, h2 = 0x9747b28c;
  for (let i = 0; i < b.length; i++) {
    const c = b[i];
    h1 = Math.imul(h1 ^ c, 16777619);
    h2 = Math.imul((h2 + c + 1) | 0, 0x85ebca6b);
  }
  return (h1 >>> 0).toString(16) + (h2 >>> 0).toString(16).padStart(8, '0') + ' ' + (b.length / 65536);
}
function toArg(t, hex) {
  if (t === 'I') return BigInt.asIntN(64, BigInt('0x' + hex));
  return parseInt(hex, 16) | 0;
}
function toHex(t, v) {
  if (t === 'I') return BigInt.asUintN(64, v).toString(16);
  return (v >>> 0).toString(16);
}
for (let k = 0; k < batch.length; k++) {
  const m = batch[k];
  out.push('MODULE ' + k);
  let inst;
  try {
    const mod = new WebAssembly.Module(Buffer.from(m.wasm, 'base64'));
    inst = new WebAssembly.Instance(mod, {});
  } catch (e) {
    out.push('ERR ' + String(e).replace(/\n/g, ' '));
    continue;
  }
  const mem = inst.exports.memory;
  for (const c of m.calls) {
    const f = m.funcs[c.f];
    const fn = inst.exports[f.name];
    const args = (c.args || []).map((a, i) => toArg(f.params[i], a));
    let line;
    try {
      let r = fn(...args);
      if (f.results.length === 0) r = [];
      else if (f.results.length === 1) r = [r];
      line = 'R';
      for (let i = 0; i < f.results.length; i++) line += ' ' + toHex(f.results[i], r[i]);
    } catch (e) {
      if (!(e instanceof WebAssembly.RuntimeError)) { line = 'X ' + String(e).replace(/\n/g, ' '); }
      else line = 'T';
    }
    if (f.stateful) line += ' M ' + memHash(mem);
    out.push(line);
  }
}
process.stdout.write(out.join('\n') + '\n');
