// Package c31 checks property C31: the embedded (vendored) wazero runtime
// executes modules like an independent engine (V8 via node).
package c31

import (
	"bytes"
	"encoding/base64"
	"encoding/json"
	"fmt"
	"os"
	"os/exec"
	"path/filepath"
	"strings"
	"sync"
	"syscall"
	"testing"

	"pgregory.net/rapid"
	"wa-lang.org/wa/zverif/harness/core"
	om "wa-lang.org/wa/zverif/harness/opmatrix"
)

const prop = "C31"

func TestMain(m *testing.M) { core.Main(m) }

// ---------------------------------------------------------------- node side

type jsFunc struct {
	Name     string `json:"name"`
	Params   string `json:"params"`
	Results  string `json:"results"`
	Stateful bool   `json:"stateful"`
}
type jsCall struct {
	F    int      `json:"f"`
	Args []string `json:"args"`
}
type jsModule struct {
	Wasm  string   `json:"wasm"`
	Funcs []jsFunc `json:"funcs"`
	Calls []jsCall `json:"calls"`
}

var bitsOf = strings.NewReplacer("f", "i", "F", "I")

func toJS(wasm []byte, c *om.Case) jsModule {
	m := jsModule{Wasm: base64.StdEncoding.EncodeToString(wasm)}
	for i := range c.Funcs {
		f := &c.Funcs[i]
		name := f.Name
		if om.NeedsWrapper(f) {
			name = "w" + name
		}
		m.Funcs = append(m.Funcs, jsFunc{Name: name, Params: bitsOf.Replace(f.Params), Results: bitsOf.Replace(f.Results), Stateful: f.Stateful})
	}
	for _, call := range c.Calls {
		m.Calls = append(m.Calls, jsCall{F: call.F, Args: call.Args})
	}
	return m
}

func driverPath() string {
	wd, _ := os.Getwd()
	if _, err := os.Stat(filepath.Join(wd, "driver.js")); err == nil {
		return filepath.Join(wd, "driver.js")
	}
	return filepath.Join(core.VerifDir(), "harness", "c31", "driver.js")
}

// runNode runs the fixed driver over a batch; inconclusive=true means node
// itself could not be run to completion (CPU limit, missing binary).
func runNode(script string, input interface{}) (stdout string, inconclusive bool, why string) {
	dir, err := os.MkdirTemp("", "c31-")
	if err != nil {
		return "", true, err.Error()
	}
	defer os.RemoveAll(dir)
	data, _ := json.Marshal(input)
	in := filepath.Join(dir, "batch.json")
	if err := os.WriteFile(in, data, 0o644); err != nil {
		return "", true, err.Error()
	}
	// CPU-time limit (not wall clock) as the backstop
	cmd := exec.Command("/bin/sh", "-c", "ulimit -t 120; exec node \"$0\" \"$1\"", script, in)
	var so, se bytes.Buffer
	cmd.Stdout, cmd.Stderr = &so, &se
	err = cmd.Run()
	if err != nil {
		if ee, ok := err.(*exec.ExitError); ok {
			if ws, ok := ee.Sys().(syscall.WaitStatus); ok && ws.Signaled() {
				return so.String(), true, "node killed by " + ws.Signal().String()
			}
		}
		return so.String(), true, fmt.Sprintf("node failed: %v: %s", err, head(se.String(), 600))
	}
	return so.String(), false, ""
}

func tail(s string, n int) string {
	if len(s) > n {
		return "…" + s[len(s)-n:]
	}
	return s
}

func splitModules(out string, n int) ([][]om.CallResult, []string, error) {
	res := make([][]om.CallResult, n)
	errs := make([]string, n)
	parts := strings.Split(out, "MODULE ")
	if len(parts)-1 != n {
		return nil, nil, fmt.Errorf("node printed %d module sections, want %d", len(parts)-1, n)
	}
	for k := 0; k < n; k++ {
		body := parts[k+1]
		nl := strings.IndexByte(body, '\n')
		if nl < 0 {
			return nil, nil, fmt.Errorf("truncated node output")
		}
		body = body[nl+1:]
		if strings.HasPrefix(body, "ERR ") {
			errs[k] = strings.TrimSpace(body)
			continue
		}
		if i := strings.Index(body, "\nX "); i >= 0 || strings.HasPrefix(body, "X ") {
			return nil, nil, fmt.Errorf("driver error: %s", tail(body, 300))
		}
		r, err := om.ParseLines(body)
		if err != nil {
			return nil, nil, err
		}
		res[k] = r
	}
	return res, errs, nil
}

// ---------------------------------------------------------------- oracle

// payload is the replayable case: one module + script and the engine variant
// of wazero that disagreed with V8.
type payload struct {
	Kind   string   `json:"kind"` // "opmatrix" | "program"
	Engine string   `json:"engine,omitempty"`
	Case   *om.Case `json:"case,omitempty"`
	Name   string   `json:"name,omitempty"`
	Src    string   `json:"src,omitempty"`
}

type mismatch struct {
	call   int
	engine string
	key    string
	what   string
}

var engines = []string{"compiler", "interp"}

// compareModule compares both wazero engines against V8's observations.
// Comparison of an engine stops after its first difference in a stateful
// function (later differences would only be consequences).
func compareModule(c *om.Case, wz map[string]om.Outcome, v8 []om.CallResult, v8err string) []mismatch {
	var out []mismatch
	for _, eng := range engines {
		o := wz[eng]
		if (o.Err != "") != (v8err != "") {
			out = append(out, mismatch{-1, eng, "module/load@" + eng, fmt.Sprintf("wazero(%s) load: %q, V8 load: %q", eng, o.Err, v8err)})
			continue
		}
		if o.Err != "" {
			continue
		}
		if len(o.Calls) != len(c.Calls) || len(v8) != len(c.Calls) {
			out = append(out, mismatch{-1, eng, "harness/script-length", fmt.Sprintf("calls: script %d wazero %d v8 %d", len(c.Calls), len(o.Calls), len(v8))})
			continue
		}
		for k := range c.Calls {
			f := &c.Funcs[c.Calls[k].F]
			kind, what := om.CompareCall(f, o.Calls[k], v8[k])
			if kind == "" {
				continue
			}
			key := fmt.Sprintf("op=%s/%s@%s", f.Op, c.Calls[k].Class, eng)
			out = append(out, mismatch{k, eng, key, fmt.Sprintf("%s: wazero(%s) vs V8: %s: %s", om.Describe(c, k), eng, kind, what)})
			if f.Stateful || kind == "memory" {
				break
			}
		}
	}
	return out
}

func runWazeroBoth(wasm []byte, c *om.Case) map[string]om.Outcome {
	return map[string]om.Outcome{
		"compiler": om.RunWazero(wasm, c, false, true),
		"interp":   om.RunWazero(wasm, c, true, true),
	}
}

// evalCase runs one module on all engines (its own node process); used by the
// minimiser and by replay.
func evalCase(c *om.Case) (ms []mismatch, inconclusive string) {
	wasm, err := om.Assemble(c.Wat)
	if err != nil {
		return nil, "assembler rejected the module: " + err.Error()
	}
	out, inc, why := runNode(driverPath(), []jsModule{toJS(wasm, c)})
	if inc {
		return nil, why
	}
	res, errs, err := splitModules(out, 1)
	if err != nil {
		return nil, err.Error()
	}
	return compareModule(c, runWazeroBoth(wasm, c), res[0], errs[0]), ""
}

var genCfg = func(ex *om.Exclusion) *om.Config {
	return &om.Config{Excluded: ex.Excluded, OnExcluded: ex.OnExcluded, NFuncs: core.Scale(40, 60), CallsPer: 4, Wrappers: true, ExportGlob: true}
}

func TestOpMatrixV8(t *testing.T) {
	s := core.NewStats(prop, "OpMatrixV8")
	s.Rule("rapid: batches of opmatrix modules (many exported one-instruction / short-chain functions over the whole accepted instruction set, control shapes, memory at every width/offset/alignment incl. last byte and out of bounds, bulk memory, grow, globals, call_indirect incl. null/signature/index traps) with boundary-biased call scripts; floats cross the embedder boundary as bit patterns through generated reinterpret wrappers; oracle = per call result bits (NaN≡NaN only for instructions whose NaN payload the spec leaves open), trap/no-trap and a hash of linear memory after every stateful call, vendored wazero (compiler engine = what `wa run` embeds on amd64, and the interpreter engine) versus V8 (node); non-trivial = distinct (opcode, operand class) pairs that reached a verdict")
	s.Assume("V8 (node v20) is the reference engine; the repository's own assembler (watutil.Wat2Wasm) produced the binary both engines run")
	ex := om.NewExclusion(prop)
	defer ex.Flush(s)
	cfg := genCfg(ex)
	s.Check(t, func(t *rapid.T, c *core.Case) {
		nmod := rapid.IntRange(core.Scale(3, 5), core.Scale(6, 10)).Draw(t, "nmodules")
		var cases []*om.Case
		var wasms [][]byte
		var batch []jsModule
		for i := 0; i < nmod; i++ {
			oc := om.Generate(t, cfg)
			wasm, err := om.Assemble(oc.Wat)
			if err != nil {
				// the generator only emits text the assembler documents; a rejection is a harness defect
				c.Set(payload{Kind: "opmatrix", Case: oc.Strip()})
				c.Fail("harness/assemble", "assembler rejected a generated module: %v", err)
				return
			}
			cases, wasms, batch = append(cases, oc), append(wasms, wasm), append(batch, toJS(wasm, oc))
		}
		out, inc, why := runNode(driverPath(), batch)
		if inc {
			s.Counter("inconclusive/node", 1)
			t.Logf("SKIP %s", why)
			t.Skip(why)
		}
		res, errs, err := splitModules(out, nmod)
		if err != nil {
			s.Counter("inconclusive/node-output", 1)
			t.Logf("SKIP %s", err.Error())
			t.Skip(err.Error())
		}
		ncalls := 0
		for i, oc := range cases {
			wz := runWazeroBoth(wasms[i], oc)
			for _, m := range compareModule(oc, wz, res[i], errs[i]) {
				if core.IsKnown(prop, m.key) {
					c.Set(payload{Kind: "opmatrix", Engine: m.engine, Case: oc.Strip()})
					c.Fail(m.key, "%s", m.what)
					continue
				}
				// minimise: only the failing call plus earlier stateful calls
				pl := payload{Kind: "opmatrix", Engine: m.engine, Case: oc.Strip()}
				if m.call >= 0 {
					mc := om.Minimal(oc, cfg, m.call)
					if mm, _ := evalCase(mc); len(mm) > 0 {
						for _, x := range mm {
							if x.key == m.key {
								pl.Case = mc.Strip()
								m.what = x.what
							}
						}
					}
				}
				c.Set(pl)
				c.Fail(m.key, "%s", m.what)
			}
			if errs[i] != "" {
				s.Counter("modules_rejected_by_both_engines", 1)
				continue
			}
			for k, call := range oc.Calls {
				f := &oc.Funcs[call.F]
				s.Count("op="+f.Op+"/"+call.Class, 1)
				s.Nontrivial(core.Hash64(f.Op, call.Class))
				if res[i][k].Trap {
					s.Count("outcome/trap", 1)
				} else {
					s.Count("outcome/return", 1)
				}
				if k == len(oc.Calls)/2 && i == 0 {
					s.Sample(map[string]interface{}{"func": f.Text, "call": om.Describe(oc, k), "v8": fmt.Sprintf("%+v", res[i][k])})
				}
			}
			for _, f := range oc.Funcs {
				s.Count("shape/"+f.Shape, 1)
			}
			ncalls += len(oc.Calls)
		}
		s.Count("modules", int64(nmod))
		s.Eval(int64(ncalls) - 1)
	})
}

// ---------------------------------------------------------------- replay

// replay answers from a table filled by evaluating all corpus files
// concurrently (core.RunReplays calls it sequentially on the first shard).
func replay(test string, raw json.RawMessage) (string, string) {
	if os.Getenv("VERIF_MODE") == "corpus" {
		prewarmOnce.Do(prewarm)
		if r, ok := prewarmed[string(raw)]; ok {
			return r[0], r[1]
		}
	}
	return replayOne(test, raw)
}

var (
	prewarmOnce sync.Once
	prewarmed   = map[string][2]string{}
)

func prewarm() {
	files, _ := filepath.Glob(filepath.Join(core.VerifDir(), "corpus", prop, "*.json"))
	var mu sync.Mutex
	var wg sync.WaitGroup
	sem := make(chan struct{}, 8)
	for _, f := range files {
		rf, err := core.LoadReplay(f)
		if err != nil {
			continue
		}
		wg.Add(1)
		go func(rf *core.ReplayFile) {
			defer wg.Done()
			sem <- struct{}{}
			defer func() { <-sem }()
			defer func() { recover() }() // a panicking case is evaluated again (and reported) by the sequential path
			k, w := replayOne(rf.Test, rf.Case)
			mu.Lock()
			prewarmed[string(rf.Case)] = [2]string{k, w}
			mu.Unlock()
		}(rf)
	}
	wg.Wait()
}

func replayOne(test string, raw json.RawMessage) (string, string) {
	var p payload
	if err := json.Unmarshal(raw, &p); err != nil {
		return "harness/bad-replay", err.Error()
	}
	switch p.Kind {
	case "program":
		return compareProgram(p.Name, p.Src)
	}
	if p.Case == nil {
		return "harness/bad-replay", "no case"
	}
	ms, inc := evalCase(p.Case)
	if inc != "" {
		return "harness/inconclusive", inc
	}
	for _, m := range ms {
		if p.Engine == "" || m.engine == p.Engine {
			return m.key, m.what
		}
	}
	if len(ms) > 0 {
		return ms[0].key, ms[0].what
	}
	return "", ""
}

func TestReplay(t *testing.T) { core.RunReplays(t, prop, replay) }

func head(s string, n int) string {
	if len(s) > n {
		return s[:n] + "…"
	}
	return s
}
