package c31

import (
	"fmt"
	"testing"

	"wa-lang.org/wa/zverif/harness/core"
	om "wa-lang.org/wa/zverif/harness/opmatrix"
)

const matrixRule = "deterministic enumeration (sharded by instruction index): one exported function per plain numeric instruction of the accepted set (unary/binary arithmetic, comparisons, bit counts, shifts/rotates, div/rem, conversions, truncations, extensions, reinterpretations; the set has no sign-extension / saturating-truncation instructions) × the complete boundary matrix: integer unary = special list ∪ shift-count list, integer binary = special × special (shifts/rotates: special × count list), float unary = whole special list, float binary = fixed 26-value subset squared; cells of known findings are dropped and counted; non-trivial = cells with at least one boundary (non-generic) operand, counted per cell"

// TestBoundaryMatrix: every cell of the boundary matrix on wazero (compiler and
// interpreter) versus V8, with the comparison code and finding keys of the
// random group.
func TestBoundaryMatrix(t *testing.T) {
	s := core.NewStats(prop, "BoundaryMatrix")
	defer s.Flush()
	s.Rule(matrixRule + "; oracle as OpMatrixV8 (result bits, trap/no-trap; vendored wazero compiler + interpreter versus V8)")
	s.Exhaustive(true)
	ex := om.NewExclusion(prop)
	defer ex.Flush(s)
	cfg := genCfg(ex)
	sh, n := core.Shard()
	oc, st := om.Matrix(cfg, sh, n)
	wasm, err := om.Assemble(oc.Wat)
	if err != nil {
		t.Fatalf("harness: assembler rejected the matrix module: %v", err)
	}
	out, inc, why := runNode(driverPath(), []jsModule{toJS(wasm, oc)})
	if inc {
		s.Counter("inconclusive/node", 1)
		t.Skip(why)
	}
	res, errs, err := splitModules(out, 1)
	if err != nil {
		s.Counter("inconclusive/node-output", 1)
		t.Skip(err.Error())
	}
	for _, m := range compareModule(oc, runWazeroBoth(wasm, oc), res[0], errs[0]) {
		c := s.NewCase(t)
		pl := payload{Kind: "opmatrix", Engine: m.engine, Case: oc.Strip()}
		if m.call >= 0 {
			pl.Case = om.Minimal(oc, cfg, m.call).Strip()
		}
		c.Set(pl)
		c.Fail(m.key, "%s", m.what)
	}
	traps := 0
	for k, call := range oc.Calls {
		f := &oc.Funcs[call.F]
		s.Count("op="+f.Op+"/"+call.Class, 1)
		if om.BoundaryCell(f, call) {
			s.Nontrivial(core.Hash64(f.Op, call.Args))
		}
		if res[0][k].Trap {
			traps++
		}
	}
	s.Eval(int64(st.Cells))
	s.Counter("matrix/instructions", int64(st.Ops))
	s.Counter("matrix/cells", int64(st.Cells))
	s.Counter("matrix/cells_with_boundary_operand", int64(st.Boundary))
	s.Counter("matrix/cells_excluded_by_known", int64(st.Excluded))
	s.Counter("matrix/trapping_cells", int64(traps))
	if len(oc.Calls) > 0 {
		k := len(oc.Calls) / 2
		s.Sample(map[string]interface{}{"cell": om.Describe(oc, k), "v8": fmt.Sprintf("%+v", res[0][k])})
	}
}
