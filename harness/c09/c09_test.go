package c09

import (
	"time"
	"encoding/json"
	"fmt"
	"os"
	"path/filepath"
	"strings"
	"testing"

	"pgregory.net/rapid"
	"wa-lang.org/wa/zverif/harness/core"
	"wa-lang.org/wa/zverif/harness/wagen"
	"wa-lang.org/wa/zverif/harness/wk"
)

const prop = "C09"

func TestMain(m *testing.M) { core.Main(m) }

type kase struct {
	Wa       string   `json:"wa"`
	Wz       string   `json:"wz"`
	Features []string `json:"features,omitempty"`
}

var worker *wk.Client

func getWorker() *wk.Client {
	if worker == nil {
		worker = wk.New(wk.Options{CPULimit: 150 * time.Second}) // generous: the budget only separates "slow on a loaded machine" from "does not terminate"
	}
	return worker
}

type side struct {
	class string // ok | compile-error | run-error | crash | inconclusive
	out   string
	err   string
}

func runSide(w *wk.Client, name, src string) side {
	o := w.Do("run", wk.Src{Name: name, Src: src})
	if o.Kind == wk.Exited && !strings.Contains(o.Output, ".go:") {
		// resource exhaustion of a long-lived worker, not a crash at a source location: retry in a fresh process
		o = w.Do("run", wk.Src{Name: name, Src: src})
	}
	var rr wk.RunResult
	o.Decode(&rr)
	switch o.Kind {
	case wk.OK:
		return side{class: "ok", out: rr.Out()}
	case wk.Error:
		if rr.Stage == "run" {
			return side{class: "run-error", out: rr.Out(), err: o.Err}
		}
		return side{class: "compile-error", err: o.Err}
	case wk.Panic, wk.Exited:
		return side{class: "crash", err: o.String()}
	case wk.Killed:
		return side{class: "killed", err: o.String()}
	}
	return side{class: "inconclusive", err: o.String()}
}

// normalise maps the Chinese boolean spellings that the .wz println prints
// (waPrintBoolWz is deliberate) back to the English ones, token-wise.
func normalise(s string) string {
	lines := strings.Split(s, "\n")
	for i, l := range lines {
		fs := strings.Split(l, " ")
		for j, f := range fs {
			switch f {
			case "真":
				fs[j] = "true"
			case "假":
				fs[j] = "false"
			}
		}
		lines[i] = strings.Join(fs, " ")
	}
	return strings.Join(lines, "\n")
}

func judge(w *wk.Client, k kase) (key, what, domain string) {
	a := runSide(w, "p.wa", k.Wa)
	b := runSide(w, "p.wz", k.Wz)
	if a.class == "inconclusive" || b.class == "inconclusive" {
		return "", "", "inconclusive: " + a.err + b.err
	}
	if a.class == "crash" && b.class == "crash" {
		return "", "", "both-crash (C16 domain): " + firstLine(a.err)
	}
	if a.class == "compile-error" && b.class == "compile-error" {
		return "", "", "both-compile-error: " + firstLine(a.err)
	}
	if a.class != b.class {
		return "class-mismatch/" + a.class + "-vs-" + b.class, fmt.Sprintf(".wa: %s %s\n.wz: %s %s", a.class, firstLine(a.err), b.class, firstLine(b.err)), ""
	}
	if normalise(a.out) != normalise(b.out) {
		return "output-mismatch", diffText(normalise(a.out), normalise(b.out)), ""
	}
	return "", "", ""
}

func firstLine(s string) string {
	ls := strings.Split(strings.TrimSpace(s), "\n")
	if len(ls) > 3 {
		ls = ls[:3]
	}
	return strings.Join(ls, " | ")
}

func diffText(want, got string) string {
	wl, gl := strings.Split(want, "\n"), strings.Split(got, "\n")
	for i := 0; i < len(wl) || i < len(gl); i++ {
		var a, b string
		if i < len(wl) {
			a = wl[i]
		}
		if i < len(gl) {
			b = gl[i]
		}
		if a != b {
			return fmt.Sprintf("first difference at output line %d:\n  .wa: %q\n  .wz: %q\n(%d vs %d lines)", i+1, a, b, len(wl), len(gl))
		}
	}
	return "outputs differ"
}

func saveDebug(kind string, k kase, note string) {
	dir := os.Getenv("VERIF_DEBUG_DIR")
	if dir == "" {
		return
	}
	os.MkdirAll(dir, 0o755)
	h := core.Hash64(k.Wa)
	os.WriteFile(filepath.Join(dir, fmt.Sprintf("%s-%x.wa", kind, h)), []byte(k.Wa), 0o644)
	os.WriteFile(filepath.Join(dir, fmt.Sprintf("%s-%x.wz", kind, h)), []byte(k.Wz), 0o644)
	os.WriteFile(filepath.Join(dir, fmt.Sprintf("%s-%x.txt", kind, h)), []byte(note), 0o644)
}

// chinese keywords / predeclared names whose occurrence is measured
var zhWords = []string{"函数", "结构", "接口", "全局", "设定", "如果", "或者", "否则", "找辙", "有辙", "没辙", "循环", "迭代", "继续", "跳出", "押后", "返回", "区块", "完毕",
	"真", "假", "字节", "字串", "布尔", "整型", "正整", "单精", "双精", "普整型", "长整型", "微正整", "短正整", "普正整", "长正整", "主控", "我的", "追加", "容量", "拷贝", "删除", "长度", "构建", "输出", "字典", "·"}

func TestTwinPrograms(t *testing.T) {
	s := core.NewStats(prop, "TwinPrograms")
	s.Rule("rapid-drawn typed programs (harness/wagen) rendered from ONE structure as .wa and as .wz (same identifiers; only keywords, predeclared names and the selector differ); oracle = both renderings fall in the same outcome class (ok / compile error / run-time error) and print the same output after mapping 真/假 to true/false; non-trivial = the .wz text uses ≥ 8 distinct Chinese keywords/predeclared names and ≥ 1 of {method with 我的, 找辙, 迭代, 押后, 接口}; distinct by source hash")
	s.Assume("labelled statements are not generated (w2parser cannot parse labels); the boolean spelling of println differs by design")
	w := getWorker()
	var judged, out int64
	s.Check(t, func(t *rapid.T, c *core.Case) {
		p := wagen.Gen(t, wagen.Options{NoLabels: true})
		k := kase{Wa: p.Src[wagen.Wa], Wz: p.Src[wagen.Wz], Features: p.FeatureList()}
		c.Set(k)
		key, what, domain := judge(w, k)
		if domain != "" {
			s.Counter("rejected_by_domain/"+strings.SplitN(domain, ":", 2)[0], 1)
			saveDebug("domain", k, domain)
			out++
			t.Skip(domain)
		}
		judged++
		used := 0
		for _, zw := range zhWords {
			if strings.Contains(k.Wz, zw) {
				used++
				c.Class("zh/" + zw)
			}
		}
		if key != "" {
			saveDebug("violation", k, what)
			c.Fail(key, "%s", what)
		}
		special := false
		for _, zw := range []string{"我的", "找辙", "迭代", "押后", "接口"} {
			if strings.Contains(k.Wz, zw) {
				special = true
			}
		}
		if used >= 8 && special {
			c.Nontrivial(k.Wz)
		}
	})
	if judged > 0 && out*3 > judged {
		t.Errorf("generator health: %d of %d twin programs fell outside the domain", out, judged+out)
	}
}

func replay(test string, raw json.RawMessage) (string, string) {
	var k kase
	if err := json.Unmarshal(raw, &k); err != nil {
		return "harness/bad-replay", err.Error()
	}
	key, what, _ := judge(getWorker(), k)
	return key, what
}

func TestReplay(t *testing.T) { core.RunReplays(t, prop, replay) }
