package c09

import (
	"strings"
	"testing"

	"pgregory.net/rapid"
	"wa-lang.org/wa/zverif/harness/core"
	"wa-lang.org/wa/zverif/harness/wagen"
)

// "Type-check identically" also means rejecting the same programs: one type
// error of a known kind is injected into both renderings of a generated
// program; both front ends must reject it (and, as a control, the same
// snippet with the error removed must be accepted by both).

type injection struct {
	kind       string
	wa, wz     string // ill-typed top-level snippet
	okWa, okWz string // the corrected twin (control)
}

var injections = []injection{
	{"string-returned-as-i32",
		"func inj1() => i32 {\n\treturn \"s\"\n}\n", "函数·inj1() => 普整型:\n\t返回 \"s\"\n完毕\n",
		"func inj1() => i32 {\n\treturn 1\n}\n", "函数·inj1() => 普整型:\n\t返回 1\n完毕\n"},
	{"undeclared-name",
		"func inj2() => i32 {\n\treturn nowhere + 1\n}\n", "函数·inj2() => 普整型:\n\t返回 nowhere + 1\n完毕\n",
		"func inj2() => i32 {\n\treturn g_i32 + 1\n}\n", "函数·inj2() => 普整型:\n\t返回 g_i32 + 1\n完毕\n"},
	{"mixed-int-types",
		"func inj3(a: i32, b: i64) => i64 {\n\treturn a + b\n}\n", "函数·inj3(a: 普整型, b: 长整型) => 长整型:\n\t返回 a + b\n完毕\n",
		"func inj3(a: i32, b: i64) => i64 {\n\treturn i64(a) + b\n}\n", "函数·inj3(a: 普整型, b: 长整型) => 长整型:\n\t返回 长整型(a) + b\n完毕\n"},
	{"wrong-argument-count",
		"func inj4(a: i32) => i32 {\n\treturn a\n}\n\nfunc inj4b() => i32 {\n\treturn inj4(1, 2)\n}\n", "函数·inj4(a: 普整型) => 普整型:\n\t返回 a\n完毕\n\n函数·inj4b() => 普整型:\n\t返回 inj4(1, 2)\n完毕\n",
		"func inj4(a: i32) => i32 {\n\treturn a\n}\n\nfunc inj4b() => i32 {\n\treturn inj4(1)\n}\n", "函数·inj4(a: 普整型) => 普整型:\n\t返回 a\n完毕\n\n函数·inj4b() => 普整型:\n\t返回 inj4(1)\n完毕\n"},
	{"unused-variable",
		"func inj5() {\n\tunused := 1\n}\n", "函数·inj5():\n\tunused := 1\n完毕\n",
		"func inj5() {\n\tunused := 1\n\t_ = unused\n}\n", "函数·inj5():\n\tunused := 1\n\t_ = unused\n完毕\n"},
	{"constant-overflow",
		"func inj6() => u8 {\n\treturn 256\n}\n", "函数·inj6() => 微正整:\n\t返回 256\n完毕\n",
		"func inj6() => u8 {\n\treturn 255\n}\n", "函数·inj6() => 微正整:\n\t返回 255\n完毕\n"},
	{"bool-condition-required",
		"func inj7(a: i32) {\n\tif a {\n\t\tprintln(1)\n\t}\n}\n", "函数·inj7(a: 普整型):\n\t如果 a:\n\t\t输出(1)\n\t完毕\n完毕\n",
		"func inj7(a: i32) {\n\tif a > 0 {\n\t\tprintln(1)\n\t}\n}\n", "函数·inj7(a: 普整型):\n\t如果 a > 0:\n\t\t输出(1)\n\t完毕\n完毕\n"},
	{"duplicate-declaration",
		"func inj8() {\n}\n\nfunc inj8() {\n}\n", "函数·inj8():\n完毕\n\n函数·inj8():\n完毕\n",
		"func inj8() {\n}\n\nfunc inj8b() {\n}\n", "函数·inj8():\n完毕\n\n函数·inj8b():\n完毕\n"},
	{"missing-return",
		"func inj9(a: i32) => i32 {\n\tif a > 0 {\n\t\treturn 1\n\t}\n}\n", "函数·inj9(a: 普整型) => 普整型:\n\t如果 a > 0:\n\t\t返回 1\n\t完毕\n完毕\n",
		"func inj9(a: i32) => i32 {\n\tif a > 0 {\n\t\treturn 1\n\t}\n\treturn 0\n}\n", "函数·inj9(a: 普整型) => 普整型:\n\t如果 a > 0:\n\t\t返回 1\n\t完毕\n\t返回 0\n完毕\n"},
	{"string-plus-int",
		"func inj10(s: string) => string {\n\treturn s + 1\n}\n", "函数·inj10(s: 字串) => 字串:\n\t返回 s + 1\n完毕\n",
		"func inj10(s: string) => string {\n\treturn s + \"1\"\n}\n", "函数·inj10(s: 字串) => 字串:\n\t返回 s + \"1\"\n完毕\n"},
}

func TestIllTypedTwins(t *testing.T) {
	s := core.NewStats(prop, "IllTypedTwins")
	s.Rule("rapid-drawn program (harness/wagen) + one injected type error of a drawn kind (10 kinds: wrong result type, undeclared name, mixed integer types, argument count, unused variable, constant overflow, non-bool condition, duplicate declaration, missing return, string + int) in both renderings; oracle = both front ends reject; control = the corrected snippet is accepted by both (same outcome class and output); non-trivial = every case; distinct by source hash")
	w := getWorker()
	s.Check(t, func(t *rapid.T, c *core.Case) {
		p := wagen.Gen(t, wagen.Options{NoLabels: true, MaxStmts: 10, MaxFuncs: 2})
		inj := injections[rapid.IntRange(0, len(injections)-1).Draw(t, "injection")]
		control := rapid.IntRange(0, 3).Draw(t, "control") == 0
		k := kase{Wa: p.Src[wagen.Wa] + "\n" + inj.wa, Wz: p.Src[wagen.Wz] + "\n" + inj.wz}
		if control {
			k = kase{Wa: p.Src[wagen.Wa] + "\n" + inj.okWa, Wz: p.Src[wagen.Wz] + "\n" + inj.okWz}
		}
		c.Set(k)
		a := runSide(w, "p.wa", k.Wa)
		b := runSide(w, "p.wz", k.Wz)
		if a.class == "inconclusive" || b.class == "inconclusive" || a.class == "crash" || b.class == "crash" || a.class == "killed" || b.class == "killed" {
			s.Counter("rejected_by_domain/"+a.class+"-"+b.class, 1)
			t.Skip("inconclusive")
		}
		if control {
			c.Class("control/" + inj.kind)
			if a.class != b.class {
				c.Fail("class-mismatch/"+a.class+"-vs-"+b.class, "control (well-typed) twin of %s: .wa %s %s | .wz %s %s", inj.kind, a.class, firstLine(a.err), b.class, firstLine(b.err))
			}
			if a.class == "compile-error" {
				// the corrected snippet must be well typed in both: otherwise the table is wrong
				s.Counter("control_rejected_by_both/"+inj.kind, 1)
				t.Skip("control rejected by both: " + firstLine(a.err))
			}
			if normalise(a.out) != normalise(b.out) {
				c.Fail("output-mismatch", "%s", diffText(normalise(a.out), normalise(b.out)))
			}
		} else {
			c.Class("ill-typed/" + inj.kind)
			switch {
			case a.class == "compile-error" && b.class == "compile-error":
			case a.class == "compile-error":
				c.Fail("wz-accepts-ill-typed/"+inj.kind, "the .wa front end rejects (%s) but the .wz front end accepts the same ill-typed program (%s)", firstLine(a.err), b.class)
			case b.class == "compile-error":
				c.Fail("wa-accepts-ill-typed/"+inj.kind, "the .wz front end rejects (%s) but the .wa front end accepts the same ill-typed program (%s)", firstLine(b.err), a.class)
			default:
				// accepted by both: then the injected snippet is not ill typed in this language (harness table error)
				s.Counter("ill_typed_accepted_by_both/"+inj.kind, 1)
				t.Skip("accepted by both")
			}
		}
		c.Nontrivial(strings.TrimSpace(k.Wz))
	})
}
