// Package wk is the client side of harness/worker: it starts the child,
// sends requests, classifies every way a request can end, and restarts the
// child when it died.
package wk

import (
	"bufio"
	"bytes"
	"encoding/json"
	"fmt"
	"io"
	"os"
	"os/exec"
	"path/filepath"
	"strconv"
	"strings"
	"sync"
	"syscall"
	"time"
)

// Outcome kinds.
const (
	OK      = "ok"      // op returned err == nil
	Error   = "error"   // op returned an error value (a diagnostic) – Err holds the text
	Panic   = "panic"   // op panicked (recovered in the worker) – Panic/Stack hold details
	Exited  = "exited"  // the worker process terminated (os.Exit, fatal runtime error, signal)
	Killed  = "killed"  // the request used more CPU time than allowed and was killed
	Timeout = "timeout" // wall-clock backstop hit without the CPU budget being used: inconclusive
)

// Outcome is everything the oracle may look at.
type Outcome struct {
	Kind     string
	Result   json.RawMessage
	Err      string
	Panic    string
	Stack    string
	ExitCode int
	Signal   string
	Output   string // tail of the child's stdout+stderr (logger.Fatal prints there)
	CPUms    int64
}

func (o Outcome) String() string {
	switch o.Kind {
	case OK:
		return "ok"
	case Error:
		return "error: " + o.Err
	case Panic:
		return "panic: " + o.Panic
	case Exited:
		return fmt.Sprintf("process exited (code %d %s): %s", o.ExitCode, o.Signal, tail(o.Output, 600))
	case Killed:
		return fmt.Sprintf("killed after %d ms CPU", o.CPUms)
	}
	return o.Kind
}

// Decode unmarshals the result of an ok/error outcome.
func (o Outcome) Decode(v interface{}) error {
	if len(o.Result) == 0 {
		return fmt.Errorf("no result (%s)", o.Kind)
	}
	return json.Unmarshal(o.Result, v)
}

// Options configure a client.
type Options struct {
	Bin      string        // worker binary; default $VERIF_BIN/worker
	CPULimit time.Duration // per request CPU budget (default 20 s)
	ASMB     int           // RLIMIT_AS in MiB for the child (0 = 8192; <0 = none)
	Env      []string      // extra environment
	// RecycleEvery restarts the child after that many requests (default 40; <0 = never).
	RecycleEvery int
}

// Client owns one worker process (restarted on demand).  Safe for use by one goroutine.
type Client struct {
	opt  Options
	mu   sync.Mutex
	cmd  *exec.Cmd
	reqW *os.File
	repR *bufio.Reader
	repF *os.File
	out  *ring
	done chan struct{}
	seq  int64
	served int
	// Restarts counts how often the child had to be started.
	Restarts int
}

// BinPath locates a harness binary built by the driver.
func BinPath(name string) string {
	d := os.Getenv("VERIF_BIN")
	if d == "" {
		d = "/verif/bin"
	}
	return filepath.Join(d, name)
}

// New creates a client; the process starts lazily.
func New(opt Options) *Client {
	if opt.Bin == "" {
		opt.Bin = BinPath("worker")
	}
	if opt.CPULimit == 0 {
		opt.CPULimit = 20 * time.Second
	}
	if opt.ASMB == 0 {
		opt.ASMB = 8192
	}
	if opt.RecycleEvery == 0 {
		opt.RecycleEvery = 40
	}
	return &Client{opt: opt}
}

type ring struct {
	mu  sync.Mutex
	buf []byte
}

func (r *ring) Write(p []byte) (int, error) {
	r.mu.Lock()
	r.buf = append(r.buf, p...)
	if len(r.buf) > 64<<10 {
		r.buf = append([]byte{}, r.buf[len(r.buf)-32<<10:]...)
	}
	r.mu.Unlock()
	return len(p), nil
}
func (r *ring) String() string { r.mu.Lock(); defer r.mu.Unlock(); return string(r.buf) }
func (r *ring) Reset()         { r.mu.Lock(); r.buf = r.buf[:0]; r.mu.Unlock() }

func (c *Client) start() error {
	reqR, reqW, err := os.Pipe()
	if err != nil {
		return err
	}
	repR, repW, err := os.Pipe()
	if err != nil {
		return err
	}
	cmd := exec.Command(c.opt.Bin)
	cmd.ExtraFiles = []*os.File{reqR, repW}
	c.out = &ring{}
	cmd.Stdout, cmd.Stderr = c.out, c.out
	cmd.Env = append(os.Environ(), c.opt.Env...)
	if c.opt.ASMB > 0 {
		cmd.Env = append(cmd.Env, "VERIF_WORKER_AS_MB="+strconv.Itoa(c.opt.ASMB))
	}
	cmd.Env = append(cmd.Env, "GOTRACEBACK=single")
	cmd.SysProcAttr = &syscall.SysProcAttr{Setpgid: true, Pdeathsig: syscall.SIGKILL}
	if err := cmd.Start(); err != nil {
		return err
	}
	reqR.Close()
	repW.Close()
	c.cmd, c.reqW, c.repF, c.repR = cmd, reqW, repR, bufio.NewReaderSize(repR, 1<<20)
	c.done = make(chan struct{})
	go func(cmd *exec.Cmd, done chan struct{}) { cmd.Wait(); close(done) }(cmd, c.done)
	c.Restarts++
	return nil
}

// Close terminates the child.
func (c *Client) Close() {
	c.mu.Lock()
	defer c.mu.Unlock()
	c.kill()
}

func (c *Client) kill() {
	if c.cmd == nil {
		return
	}
	syscall.Kill(-c.cmd.Process.Pid, syscall.SIGKILL)
	c.cmd.Process.Kill()
	<-c.done
	c.reqW.Close()
	c.repF.Close()
	c.cmd = nil
}

func cpuMillis(pid int) int64 {
	data, err := os.ReadFile(fmt.Sprintf("/proc/%d/stat", pid))
	if err != nil {
		return -1
	}
	s := string(data)
	i := strings.LastIndexByte(s, ')')
	if i < 0 {
		return -1
	}
	f := strings.Fields(s[i+1:])
	if len(f) < 13 {
		return -1
	}
	ut, _ := strconv.ParseInt(f[11], 10, 64)
	st, _ := strconv.ParseInt(f[12], 10, 64)
	return (ut + st) * 10 // USER_HZ = 100
}

type wireReply struct {
	ID      int64           `json:"id"`
	Outcome string          `json:"outcome"`
	Result  json.RawMessage `json:"result"`
	Err     string          `json:"err"`
	Panic   string          `json:"panic"`
	Stack   string          `json:"stack"`
}

// Do sends one request and waits for its outcome.
func (c *Client) Do(op string, args interface{}) Outcome {
	c.mu.Lock()
	defer c.mu.Unlock()
	// the address space of a worker grows with every wazero run; recycle it between requests
	if c.cmd != nil && c.opt.RecycleEvery > 0 && c.served >= c.opt.RecycleEvery {
		c.kill()
	}
	if c.cmd == nil {
		c.served = 0
		if err := c.start(); err != nil {
			return Outcome{Kind: Timeout, Err: "cannot start worker: " + err.Error()}
		}
	}
	c.seq++
	raw, err := json.Marshal(args)
	if err != nil {
		return Outcome{Kind: Timeout, Err: "marshal: " + err.Error()}
	}
	line, _ := json.Marshal(struct {
		ID   int64           `json:"id"`
		Op   string          `json:"op"`
		Args json.RawMessage `json:"args"`
	}{c.seq, op, raw})
	line = append(line, '\n')
	pid := c.cmd.Process.Pid
	cpu0 := cpuMillis(pid)
	c.out.Reset()

	type rd struct {
		line []byte
		err  error
	}
	ch := make(chan rd, 1)
	go func() {
		if _, err := c.reqW.Write(line); err != nil {
			ch <- rd{nil, err}
			return
		}
		l, err := c.repR.ReadBytes('\n')
		ch <- rd{l, err}
	}()
	tick := time.NewTicker(50 * time.Millisecond)
	defer tick.Stop()
	wall := time.Now()
	for {
		select {
		case r := <-ch:
			used := cpuMillis(pid) - cpu0
			if r.err != nil && len(r.line) == 0 {
				// child died
				select {
				case <-c.done:
				case <-time.After(5 * time.Second):
				}
				o := Outcome{Kind: Exited, Output: c.out.String(), CPUms: used}
				if c.cmd.ProcessState != nil {
					o.ExitCode = c.cmd.ProcessState.ExitCode()
					if ws, ok := c.cmd.ProcessState.Sys().(syscall.WaitStatus); ok && ws.Signaled() {
						o.Signal = ws.Signal().String()
					}
				}
				c.kill()
				return o
			}
			var wr wireReply
			if err := json.Unmarshal(r.line, &wr); err != nil || wr.ID != c.seq {
				c.kill()
				return Outcome{Kind: Timeout, Err: fmt.Sprintf("protocol error: %v", err)}
			}
			o := Outcome{Kind: wr.Outcome, Result: wr.Result, Err: wr.Err, Panic: wr.Panic, Stack: wr.Stack,
				Output: c.out.String(), CPUms: used}
			c.served++
			if wr.Outcome == Panic {
				c.kill() // global compiler state may be corrupt after a panic
			}
			return o
		case <-tick.C:
			used := cpuMillis(pid) - cpu0
			if used > c.opt.CPULimit.Milliseconds() {
				c.kill()
				<-ch
				return Outcome{Kind: Killed, CPUms: used, Output: c.out.String()}
			}
			if time.Since(wall) > 15*c.opt.CPULimit {
				c.kill()
				<-ch
				return Outcome{Kind: Timeout, CPUms: used, Err: "wall-clock backstop"}
			}
		}
	}
}

func tail(s string, n int) string {
	if len(s) > n {
		return "…" + s[len(s)-n:]
	}
	return s
}

// Src is the argument shape most ops take.
type Src struct {
	Name string   `json:"name"`
	Src  string   `json:"src"`
	Cfg  Cfg      `json:"cfg"`
	Args []string `json:"args,omitempty"`
	CPU  string   `json:"cpu,omitempty"`
}

// Cfg mirrors the worker's Cfg.
type Cfg struct {
	OS       string   `json:"os,omitempty"`
	Arch     string   `json:"arch,omitempty"`
	Tags     []string `json:"tags,omitempty"`
	Optimize bool     `json:"optimize,omitempty"`
	Debug    bool     `json:"debug,omitempty"`
	UnitTest bool     `json:"unit_test,omitempty"`
}

// RunResult mirrors the worker's reply to "run".
type RunResult struct {
	Stdout   string `json:"stdout"` // lossy when the output is not valid UTF-8; use Out()
	Raw      []byte `json:"raw"`
	ExitCode int    `json:"exit_code"`
	IsExit   bool   `json:"is_exit"`
	Stage    string `json:"stage"`
}

// Out is the exact program output (stdout followed by stderr).
func (r RunResult) Out() string { return string(r.Raw) }

var _ = bytes.MinRead
var _ io.Reader
