package wk

import (
	"testing"
	"time"
)

func TestSmoke(t *testing.T) {
	c := New(Options{})
	defer c.Close()
	t0 := time.Now()
	o := c.Do("run", Src{Name: "p.wa", Src: "func main {\n println(1+2, \"hi\")\n}\n"})
	t.Logf("%v %s %v", o, o.Result, time.Since(t0))
	if o.Kind != OK {
		t.Fatal(o)
	}
	t0 = time.Now()
	o = c.Do("run", Src{Name: "p.wa", Src: "func main {\n println(1/zero())\n}\nfunc zero() => int { return 0 }\n"})
	t.Logf("%v %s %v", o, o.Result, time.Since(t0))
	o = c.Do("run", Src{Name: "p.wa", Src: "func main {\n panic(\"boom\")\n}\n"})
	t.Logf("%v %s", o, o.Result)
	o = c.Do("format", Src{Name: "x.txt", Src: "@@@@"})
	t.Logf("%v %s", o, o.Result)
	o = c.Do("run", Src{Name: "p.wa", Src: "func main {\n for {}\n}\n"})
	t.Logf("%v", o)
}
