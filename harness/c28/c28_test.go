package c28

import (
	"encoding/json"
	"fmt"
	"regexp"
	"strings"
	"testing"
	"time"

	"pgregory.net/rapid"
	"wa-lang.org/wa/zverif/harness/core"
	"wa-lang.org/wa/zverif/harness/wagen"
	"wa-lang.org/wa/zverif/harness/wk"
)

const prop = "C28"

func TestMain(m *testing.M) { core.Main(m) }

type call struct {
	Op   string `json:"op"`
	Name string `json:"name"`
	Src  string `json:"src"`
}

type callResult struct {
	Out   string `json:"out"`
	Err   string `json:"err"`
	Panic string `json:"panic"`
	Start int64  `json:"start"`
	End   int64  `json:"end"`
}

type kase struct {
	Calls      []call `json:"calls"`
	Goroutines int    `json:"goroutines"`
	Offsets    []int  `json:"offsets"`
	Race       bool   `json:"race"`
}

type concArgs struct {
	Calls      []call `json:"calls"`
	Goroutines int    `json:"goroutines"`
	Offsets    []int  `json:"offsets"`
	Sequential bool   `json:"sequential"`
}

func newWorker(race bool) *wk.Client {
	opt := wk.Options{CPULimit: 600 * time.Second}
	if race {
		opt.Bin = wk.BinPath("worker_race")
		opt.ASMB = -1 // the race detector needs a huge address space
		opt.Env = []string{"GORACE=halt_on_error=0 history_size=2"}
	}
	return wk.New(opt)
}

var raceFrameRe = regexp.MustCompile(`(?m)^\s+(wa-lang\.org/wa/[^\s(]+(?:\([^)]*\))?[^\s(]*)\(`)

// raceKey names a race by the first repository frame of the report.
func raceKey(output string) (string, string) {
	i := strings.Index(output, "WARNING: DATA RACE")
	if i < 0 {
		return "", ""
	}
	rep := output[i:]
	if j := strings.Index(rep, "=================="); j > 0 {
		rep = rep[:j]
	}
	for _, m := range raceFrameRe.FindAllStringSubmatch(rep, -1) {
		if strings.Contains(m[1], "/zverif/") {
			continue
		}
		return "race:" + m[1], rep
	}
	return "race:unknown-frame", rep
}

// judge: sequential baseline, then the same calls concurrently in the same process.
func judge(k kase) (key, what, domain string, overlaps int) {
	w := newWorker(k.Race)
	defer w.Close()
	o := w.Do("concurrent", concArgs{Calls: k.Calls, Sequential: true})
	if o.Kind != wk.OK {
		return "", "", "baseline-failed: " + firstLines(o.String(), 3), 0
	}
	var base []callResult
	o.Decode(&base)
	for _, b := range base {
		if b.Panic != "" {
			return "", "", "baseline-panic (C08/C16 domain): " + firstLines(b.Panic, 2), 0
		}
	}
	o = w.Do("concurrent", concArgs{Calls: k.Calls, Goroutines: k.Goroutines, Offsets: k.Offsets})
	switch o.Kind {
	case wk.OK:
	case wk.Exited, wk.Panic:
		if rk, rep := raceKey(o.Output); rk != "" {
			return rk, "data race, then the process died:\n" + firstLines(rep, 30), "", 0
		}
		return "crash:" + crashWhere(o), fmt.Sprintf("process died during concurrent API calls (%d goroutines): %s", k.Goroutines, firstLines(o.String()+"\n"+o.Stack, 25)), "", 0
	case wk.Killed:
		return "hang", "concurrent calls did not finish within the CPU budget: " + o.String(), "", 0
	default:
		return "", "", "inconclusive: " + o.String(), 0
	}
	var got []callResult
	o.Decode(&got)
	for i := range got {
		for j := i + 1; j < len(got); j++ {
			if got[i].Start < got[j].End && got[j].Start < got[i].End && k.Calls[i].Src != k.Calls[j].Src &&
				k.Calls[i].Op != "syntax" && k.Calls[j].Op != "syntax" {
				overlaps++
			}
		}
	}
	for i, g := range got {
		if g.Panic != "" {
			return "panic-under-concurrency:" + core.PanicFrame(g.Panic), fmt.Sprintf("call %d (%s %s) panicked only when run concurrently:\n%s", i, k.Calls[i].Op, k.Calls[i].Name, firstLines(g.Panic, 20)), "", overlaps
		}
		if g.Out != base[i].Out || g.Err != base[i].Err {
			return "result-differs/" + k.Calls[i].Op, fmt.Sprintf("call %d (%s %s) returned something else than when run alone:\n alone:      out=%.200q err=%.200q\n concurrent: out=%.200q err=%.200q", i, k.Calls[i].Op, k.Calls[i].Name, base[i].Out, base[i].Err, g.Out, g.Err), "", overlaps
		}
	}
	if k.Race {
		if rk, rep := raceKey(o.Output); rk != "" {
			return rk, "the race detector reports a data race inside wa-lang.org/wa during concurrent public-API calls (under the Go memory model the results are then undefined):\n" + firstLines(rep, 40), "", overlaps
		}
	}
	return "", "", "", overlaps
}

func crashWhere(o wk.Outcome) string {
	s := o.Output + "\n" + o.Stack
	for _, pat := range []string{"concurrent map writes", "concurrent map read and map write", "concurrent map iteration and map write", "nil pointer dereference", "index out of range", "slice bounds out of range"} {
		if strings.Contains(s, pat) {
			return strings.ReplaceAll(pat, " ", "-")
		}
	}
	return "other"
}

func firstLines(s string, n int) string {
	ls := strings.Split(strings.TrimSpace(s), "\n")
	if len(ls) > n {
		ls = ls[:n]
	}
	return strings.Join(ls, "\n")
}

func genCase(t *rapid.T, race bool) kase {
	nprog := rapid.IntRange(2, 4).Draw(t, "nprog")
	type prog struct{ name, src string }
	var progs []prog
	for i := 0; i < nprog; i++ {
		p := wagen.Gen(t, wagen.Options{MaxStmts: 14, MaxFuncs: 2, NoLabels: true})
		switch rapid.IntRange(0, 3).Draw(t, "variant") {
		case 0:
			progs = append(progs, prog{"p.wz", p.Src[wagen.Wz]})
		case 1: // ill-typed on purpose: the diagnostic must be the same under concurrency
			progs = append(progs, prog{"p.wa", p.Src[wagen.Wa] + "\nfunc illTyped() => i32 {\n\treturn \"s\"\n}\n"})
		default:
			progs = append(progs, prog{"p.wa", p.Src[wagen.Wa]})
		}
	}
	ops := []string{"run", "build", "buildvfs", "run", "format", "build", "buildvfs", "syntax"}
	n := rapid.IntRange(4, 16).Draw(t, "ncalls")
	k := kase{Race: race, Goroutines: rapid.SampledFrom([]int{2, 4, 8, 16}).Draw(t, "goroutines")}
	for i := 0; i < n; i++ {
		p := progs[rapid.IntRange(0, len(progs)-1).Draw(t, "which")]
		k.Calls = append(k.Calls, call{Op: ops[rapid.IntRange(0, len(ops)-1).Draw(t, "op")], Name: p.name, Src: p.src})
		k.Offsets = append(k.Offsets, rapid.IntRange(0, 200).Draw(t, "offset"))
	}
	return k
}

func run(t *testing.T, name string, race bool) {
	s := core.NewStats(prop, name)
	mode := "plain build, GOMAXPROCS = all cores"
	if race {
		mode = "worker built with -race; a race report whose frames lie in wa-lang.org/wa is a violation"
	}
	s.Rule("rapid-drawn sets of 4–16 public-API calls (RunCode, BuildFile, BuildVFS on an in-memory module, FormatCode, GetCodeSyntax) over 2–4 generated programs (.wa, .wz, one ill-typed variant), executed first sequentially and then by 2–16 goroutines released together with drawn start offsets, in one process (" + mode + "); oracle = every call returns exactly (output, error text) of its sequential run and the process survives; non-trivial = ≥ 2 compile/format calls on different programs measurably overlapped in time; distinct by case hash")
	s.Assume("the harness does not own the goroutine scheduler: interleaving coverage is whatever the Go scheduler produces; absence of a report is weak evidence")
	var out int64
	s.Check(t, func(t *rapid.T, c *core.Case) {
		k := genCase(t, race)
		c.Set(k)
		key, what, domain, overlaps := judge(k)
		if domain != "" {
			s.Counter("rejected_by_domain/"+strings.SplitN(domain, ":", 2)[0], 1)
			out++
			t.Skip(domain)
		}
		c.Class(fmt.Sprintf("goroutines=%d", k.Goroutines))
		s.Counter("overlapping_pairs", int64(overlaps))
		if key != "" {
			c.Fail(key, "%s", what)
		}
		if overlaps >= 1 {
			c.Nontrivial()
		}
	})
}

func TestConcurrentPlain(t *testing.T) { run(t, "ConcurrentPlain", false) }
func TestConcurrentRace(t *testing.T)  { run(t, "ConcurrentRace", true) }

func replay(test string, raw json.RawMessage) (string, string) {
	var k kase
	if err := json.Unmarshal(raw, &k); err != nil {
		return "harness/bad-replay", err.Error()
	}
	// schedule-dependent: try several rounds
	for i := 0; i < 10; i++ {
		if key, what, _, _ := judge(k); key != "" {
			return key, what
		}
	}
	return "", ""
}

func TestReplay(t *testing.T) { core.RunReplays(t, prop, replay) }
