package c28

import (
	"testing"

	"wa-lang.org/wa/zverif/harness/core"
	"wa-lang.org/wa/zverif/harness/wk"
)

// TestOpsWork: every op of the call mix must succeed on a trivial program
// (harness self-check: an op that always errors would compare error with error).
func TestOpsWork(t *testing.T) {
	if !core.FirstShard() {
		return
	}
	w := newWorker(false)
	defer w.Close()
	src := "func main {\n\tprintln(\"hi\", 1+2)\n}\n"
	var calls []call
	for _, op := range []string{"run", "build", "buildvfs", "format", "syntax"} {
		calls = append(calls, call{Op: op, Name: "p.wa", Src: src})
	}
	o := w.Do("concurrent", concArgs{Calls: calls, Sequential: true})
	if o.Kind != wk.OK {
		t.Fatalf("worker: %v", o)
	}
	var res []callResult
	o.Decode(&res)
	for i, r := range res {
		if r.Err != "" || r.Panic != "" || r.Out == "" {
			t.Errorf("op %s on a trivial program: out=%q err=%q panic=%q", calls[i].Op, r.Out, r.Err, r.Panic)
		}
	}
}
