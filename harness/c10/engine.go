// Package c10 checks property C10 (heap allocator never hands out overlapping
// or out-of-heap memory) with a model-based state machine over three
// incarnations of the allocator:
//
//	wat  internal/waroot/malloc/malloc.wat, templated like malloc.go does and
//	     instantiated here on the vendored wazero (memory + globals readable)
//	ws   waroot/src/runtime/heap_malloc.wat.ws, the copy linked into every
//	     compiled program, wrapped with the memory/globals base.wat.ws and the
//	     compiler provide
//	go   the exported wrapper malloc.Heap (embedded copy of malloc.wat)
//
// The .wat/.ws sources are read from core.RepoDir() at run time, the wrapper
// is compiled from the same tree through the module replace directive.
package c10

import (
	"bytes"
	"context"
	"encoding/binary"
	"fmt"
	"os"
	"path/filepath"
	"strings"
	"sync"
	"text/template"

	"wa-lang.org/wa/internal/3rdparty/wazero"
	"wa-lang.org/wa/internal/3rdparty/wazero/api"
	"wa-lang.org/wa/internal/waroot/malloc"
	"wa-lang.org/wa/internal/wat/watutil"
	"wa-lang.org/wa/zverif/harness/core"
)

const pageBytes = 65536

// config is one heap configuration (part of the replay payload).
type config struct {
	Pages    int32 `json:"pages"`     // initial memory pages
	MaxPages int32 `json:"max_pages"` // declared maximum; 0 = none declared (ws only), then Limit applies
	Limit    int32 `json:"limit"`     // engine memory limit in pages when no maximum is declared
	Stack    int32 `json:"stack"`     // __stack_ptr
	Base     int32 `json:"base"`      // __heap_base (8-aligned)
	Cap      int32 `json:"cap"`       // __heap_lfixed_cap (0 = fixed lists disabled)
}

// maxBytes is the configured upper bound of linear memory in bytes.
func (c config) maxBytes() int64 {
	if c.MaxPages > 0 {
		return int64(c.MaxPages) * pageBytes
	}
	return int64(c.Limit) * pageBytes
}

func (c config) key() string {
	return fmt.Sprintf("%d/%d/%d/%d/%d/%d", c.Pages, c.MaxPages, c.Limit, c.Stack, c.Base, c.Cap)
}

// heapAPI is what the model needs from an allocator instance.
type heapAPI interface {
	Malloc(size int32) (ptr int32, trap error)
	Free(ptr int32) (trap error)
	Globals() (heapPtr, heapTop, freep int32)
	MemSize() int64                   // bytes of linear memory (real, or the allocator's claim for "go")
	Read(off, n int64) ([]byte, bool) // copy-free view where possible; false = out of range
	Write(off int64, b []byte) bool   // false = out of range or unsupported
	CanWrite() bool                   // false for the Go wrapper (no write access)
	TrackLimit() int64                // blocks larger than this are content-tracked by head/tail windows only
	Close()
}

// ---------------------------------------------------------------- sources

var (
	srcOnce sync.Once
	srcWat  string
	srcWs   string
	srcErr  error
)

func sources() (wat, ws string, err error) {
	srcOnce.Do(func() {
		b, err := os.ReadFile(filepath.Join(core.RepoDir(), "internal/waroot/malloc/malloc.wat"))
		if err != nil {
			srcErr = err
			return
		}
		srcWat = string(b)
		b, err = os.ReadFile(filepath.Join(core.RepoDir(), "waroot/src/runtime/heap_malloc.wat.ws"))
		if err != nil {
			srcErr = err
			return
		}
		srcWs = string(b)
	})
	return srcWat, srcWs, srcErr
}

// watText instantiates the malloc.wat template the way malloc.go does.
func watText(cfg config) (string, error) {
	src, _, err := sources()
	if err != nil {
		return "", err
	}
	tp, err := template.New("wat").Parse(src)
	if err != nil {
		return "", err
	}
	var buf bytes.Buffer
	buf.WriteString("(module $malloc\n")
	err = tp.Execute(&buf, malloc.Config{MemoryPages: cfg.Pages, MemoryPagesMax: cfg.MaxPages,
		StackPtr: cfg.Stack, HeapBase: cfg.Base, HeapLFixedCap: cfg.Cap})
	buf.WriteString("\n)")
	return buf.String(), err
}

// wsText wraps heap_malloc.wat.ws with what base.wat.ws (memory, $__stack_ptr,
// $__heap_lfixed_cap) and the compiler ($__heap_base, appended after the base
// code by wir.Module.ToWatModule) provide, and exports the entry points.
func wsText(cfg config) (string, error) {
	_, src, err := sources()
	if err != nil {
		return "", err
	}
	var sb strings.Builder
	sb.WriteString("(module $heap_ws\n")
	if cfg.MaxPages > 0 {
		fmt.Fprintf(&sb, "(memory $memory %d %d)\n", cfg.Pages, cfg.MaxPages)
	} else {
		fmt.Fprintf(&sb, "(memory $memory %d)\n", cfg.Pages) // as in base.wat.ws
	}
	sb.WriteString("(export \"memory\" (memory $memory))\n")
	fmt.Fprintf(&sb, "(global $__stack_ptr (mut i32) (i32.const %d))\n", cfg.Stack)
	fmt.Fprintf(&sb, "(global $__heap_lfixed_cap i32 (i32.const %d))\n", cfg.Cap)
	sb.WriteString(src)
	sb.WriteString("\n")
	fmt.Fprintf(&sb, "(global $__heap_base i32 (i32.const %d))\n", cfg.Base)
	sb.WriteString("(func $c10.malloc (export \"wa_malloc\") (param $n i32) (result i32) local.get $n call $runtime.malloc)\n")
	sb.WriteString("(func $c10.free (export \"wa_free\") (param $p i32) local.get $p call $runtime.free)\n")
	sb.WriteString("(export \"__heap_ptr\" (global $__heap_ptr))\n")
	sb.WriteString("(export \"__heap_top\" (global $__heap_top))\n")
	sb.WriteString("(export \"__heap_l128_freep\" (global $__heap_l128_freep))\n")
	sb.WriteString(")\n")
	return sb.String(), nil
}

// ---------------------------------------------------------------- wazero engine

// engine owns one wazero runtime (per memory limit).
type engine struct {
	ctx context.Context
	rt  wazero.Runtime
	seq int
}

var (
	enginesMu sync.Mutex
	engines   = map[int32]*engine{}
)

// engineFor returns the shared engine for a memory limit (0 = wazero default).
func engineFor(limit int32) (*engine, error) {
	enginesMu.Lock()
	defer enginesMu.Unlock()
	if e := engines[limit]; e != nil {
		if e.seq < 400 {
			return e, nil
		}
		// the vendored wazero retains some per-module data after Close; instances
		// are strictly sequential here, so recycle the whole runtime now and then
		e.rt.Close(e.ctx)
		delete(engines, limit)
	}
	ctx := context.Background()
	// The interpreter keeps per-configuration compilation cheap (every case has
	// its own memory/global constants); malloc.Heap ("go") runs the same code on
	// wazero's default (compiling) engine.
	rc := wazero.NewRuntimeConfigInterpreter()
	if limit > 0 {
		rc = rc.WithMemoryLimitPages(uint32(limit))
	} else {
		rc = rc.WithMemoryCapacityFromMax(true) // memory.grow without re-allocation
	}
	rt := wazero.NewRuntimeWithConfig(ctx, rc)
	mb := rt.NewHostModuleBuilder("env")
	mb = mb.NewFunctionBuilder().WithFunc(func(ctx context.Context, m api.Module, v int32) {}).Export("print_i32")
	mb = mb.NewFunctionBuilder().WithFunc(func(ctx context.Context, m api.Module, a, b int32) {}).Export("print_i32_i32")
	if _, err := mb.Instantiate(ctx, rt); err != nil {
		return nil, err
	}
	e := &engine{ctx: ctx, rt: rt}
	engines[limit] = e
	return e, nil
}

// compile builds the module for one configuration.  Configurations are drawn
// from a large space, so nothing is cached: the compiled module lives exactly
// as long as the instance (wzHeap.Close releases both).
func (e *engine) compile(impl string, cfg config) (wazero.CompiledModule, error) {
	var text string
	var err error
	if impl == "ws" {
		text, err = wsText(cfg)
	} else {
		text, err = watText(cfg)
	}
	if err != nil {
		return nil, err
	}
	wasm, err := watutil.Wat2Wasm(impl+".wat", []byte(text))
	if err != nil {
		return nil, fmt.Errorf("wat2wasm(%s): %v", impl, err)
	}
	cm, err := e.rt.CompileModule(e.ctx, wasm)
	if err != nil {
		return nil, fmt.Errorf("compile(%s): %v", impl, err)
	}
	return cm, nil
}

// wzHeap is an allocator instance running on the harness's own runtime.
type wzHeap struct {
	e        *engine
	impl     string
	cm       wazero.CompiledModule
	mod      api.Module
	mem      api.Memory
	fnMalloc api.Function
	fnFree   api.Function
	gPtr     func() int32
	gTop     func() int32
	gFreep   func() int32
}

func newWzHeap(impl string, cfg config) (*wzHeap, error) {
	limit := int32(0)
	if cfg.MaxPages == 0 {
		limit = cfg.Limit
	}
	e, err := engineFor(limit)
	if err != nil {
		return nil, err
	}
	cm, err := e.compile(impl, cfg)
	if err != nil {
		return nil, err
	}
	e.seq++
	// malloc.wat exports _start (= wa_malloc_init_once); wazero runs it on instantiation, as in malloc.go
	mod, err := e.rt.InstantiateModule(e.ctx, cm, wazero.NewModuleConfig().WithName(fmt.Sprintf("%s-%d", impl, e.seq)))
	if err != nil {
		cm.Close(e.ctx)
		return nil, fmt.Errorf("instantiate(%s, %+v): %v", impl, cfg, err)
	}
	h := &wzHeap{e: e, impl: impl, cm: cm, mod: mod, mem: mod.Memory(),
		fnMalloc: mod.ExportedFunction("wa_malloc"), fnFree: mod.ExportedFunction("wa_free")}
	if h.fnMalloc == nil || h.fnFree == nil || h.mem == nil {
		h.Close()
		return nil, fmt.Errorf("%s: wa_malloc/wa_free/memory not exported", impl)
	}
	{
		get := func(name string) func() int32 {
			g := mod.ExportedGlobal(name)
			return func() int32 { return int32(uint32(g.Get(e.ctx))) }
		}
		h.gPtr, h.gTop, h.gFreep = get("__heap_ptr"), get("__heap_top"), get("__heap_l128_freep")
	}
	return h, nil
}

func (h *wzHeap) Malloc(size int32) (int32, error) {
	r, err := h.fnMalloc.Call(h.e.ctx, api.EncodeI32(size))
	if err != nil {
		return 0, err
	}
	return api.DecodeI32(r[0]), nil
}

func (h *wzHeap) Free(ptr int32) error {
	_, err := h.fnFree.Call(h.e.ctx, api.EncodeI32(ptr))
	return err
}

func (h *wzHeap) Globals() (int32, int32, int32) { return h.gPtr(), h.gTop(), h.gFreep() }
func (h *wzHeap) MemSize() int64                 { return int64(h.mem.Size(h.e.ctx)) }
func (h *wzHeap) CanWrite() bool                 { return true }
func (h *wzHeap) TrackLimit() int64              { return 64 << 10 }
func (h *wzHeap) Close()                         { h.mod.Close(h.e.ctx); h.cm.Close(h.e.ctx) }

func (h *wzHeap) Read(off, n int64) ([]byte, bool) {
	if off < 0 || n < 0 || off+n > h.MemSize() {
		return nil, false
	}
	return h.mem.Read(h.e.ctx, uint32(off), uint32(n))
}

func (h *wzHeap) Write(off int64, b []byte) bool {
	if off < 0 || off+int64(len(b)) > h.MemSize() {
		return false
	}
	return h.mem.Write(h.e.ctx, uint32(off), b)
}

// ---------------------------------------------------------------- malloc.Heap wrapper

// goHeap drives the exported wrapper through its public API only.  It has no
// write access and no memory-size accessor: reads are limited to what the
// allocator itself reports as __heap_top (clamped to the configured maximum),
// and block contents are snapshots taken right after allocation.
type goHeap struct {
	h   *malloc.Heap
	cfg config
}

func newGoHeap(cfg config) (h *goHeap, err error) {
	defer func() {
		if r := recover(); r != nil {
			err = fmt.Errorf("malloc.NewHeap(%+v) panicked: %v", cfg, r)
		}
	}()
	return &goHeap{h: malloc.NewHeap(&malloc.Config{MemoryPages: cfg.Pages, MemoryPagesMax: cfg.MaxPages,
		StackPtr: cfg.Stack, HeapBase: cfg.Base, HeapLFixedCap: cfg.Cap}), cfg: cfg}, nil
}

func (g *goHeap) Malloc(size int32) (ptr int32, err error) {
	defer func() {
		if r := recover(); r != nil {
			err = fmt.Errorf("%v", r)
		}
	}()
	return g.h.Malloc(size), nil
}

func (g *goHeap) Free(ptr int32) (err error) {
	defer func() {
		if r := recover(); r != nil {
			err = fmt.Errorf("%v", r)
		}
	}()
	g.h.Free(ptr)
	return nil
}

func (g *goHeap) Globals() (int32, int32, int32) {
	return g.h.Global__heap_ptr(), g.h.Global__heap_top(), g.h.Global__heap_l128_freep()
}

func (g *goHeap) MemSize() int64 {
	top := int64(g.h.Global__heap_top())
	if lo := int64(g.cfg.Pages) * pageBytes; top < lo {
		top = lo
	}
	if top > g.cfg.maxBytes() {
		top = g.cfg.maxBytes()
	}
	return top
}

func (g *goHeap) CanWrite() bool    { return false }
func (g *goHeap) TrackLimit() int64 { return 512 }
func (g *goHeap) Close()            {}

func (g *goHeap) Write(off int64, b []byte) bool { return false }

// Read assembles bytes from ReadMemoryI32 (which log.Fatals when out of range,
// hence the range guard).
func (g *goHeap) Read(off, n int64) ([]byte, bool) {
	if off < 0 || n < 0 || off+n > g.MemSize() {
		return nil, false
	}
	out := make([]byte, 0, n+8)
	start := off &^ 3
	for a := start; a < off+n; a += 4 {
		if a+4 > g.MemSize() {
			return nil, false
		}
		var w [4]byte
		binary.LittleEndian.PutUint32(w[:], uint32(g.h.ReadMemoryI32(int32(a))))
		out = append(out, w[:]...)
	}
	return out[off-start : off-start+n], true
}

func newHeap(impl string, cfg config) (heapAPI, error) {
	switch impl {
	case "wat", "ws":
		return newWzHeap(impl, cfg)
	case "go":
		return newGoHeap(cfg)
	}
	return nil, fmt.Errorf("unknown implementation %q", impl)
}
