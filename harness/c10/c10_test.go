package c10

import (
	"encoding/json"
	"fmt"
	"os"
	"path/filepath"
	"regexp"
	"sort"
	"strconv"
	"testing"

	"pgregory.net/rapid"
	"wa-lang.org/wa/zverif/harness/core"
)

const prop = "C10"

func TestMain(m *testing.M) { core.Main(m) }

// ---------------------------------------------------------------- configuration generators

var caps = []int32{0, 1, 2, 3, 64, 100}

// genConfig: initial pages 1..4, max pages initial..16 (half of the time
// max = initial so that the heap is exhaustible within a short history), heap
// base 8-aligned in [64, 60000], 0 < stack pointer < base, fixed-list cap ∈
// {0,1,2,3,64,100}.
func genConfig(t *rapid.T) config {
	var c config
	c.Pages = int32(rapid.IntRange(1, 4).Draw(t, "pages"))
	switch rapid.IntRange(0, 3).Draw(t, "maxkind") {
	case 0, 1:
		c.MaxPages = c.Pages
	case 2:
		c.MaxPages = int32(rapid.IntRange(int(c.Pages), int(c.Pages)+2).Draw(t, "max"))
	default:
		c.MaxPages = int32(rapid.IntRange(int(c.Pages), 16).Draw(t, "max"))
	}
	if rapid.IntRange(0, 3).Draw(t, "basekind") == 0 {
		c.Base = rapid.SampledFrom([]int32{64, 1000, 40960, 59992, 60000}).Draw(t, "base")
	} else {
		c.Base = 8 * int32(rapid.IntRange(8, 7500).Draw(t, "base8"))
	}
	c.Stack = int32(rapid.IntRange(1, int(c.Base)-1).Draw(t, "stack"))
	c.Cap = rapid.SampledFrom(caps).Draw(t, "cap")
	return c
}

var capRe = regexp.MustCompile(`\$__heap_lfixed_cap\s+i32\s+\(i32\.const\s+(\d+)\)`)
var memRe = regexp.MustCompile(`\(memory\s+\$memory\s+(\d+)\s*\)`)
var stackRe = regexp.MustCompile(`\$__stack_ptr\s+\(mut i32\)\s+\(i32\.const\s+(\d+)\)`)

// genCompiledLayout mirrors what every compiled program gets from
// waroot/src/base.wat.ws (memory pages without a declared maximum, stack
// pointer, fixed-list cap — read from the file of the tree under test) and
// from the compiler (16-aligned heap base after the data segment).  The
// engine's memory limit plays the role of the configured maximum.
func genCompiledLayout(t *rapid.T) config {
	c := config{Pages: 1024, Stack: 1024, Cap: 64}
	if data, err := os.ReadFile(filepath.Join(core.RepoDir(), "waroot/src/base.wat.ws")); err == nil {
		if m := capRe.FindSubmatch(data); m != nil {
			v, _ := strconv.Atoi(string(m[1]))
			c.Cap = int32(v)
		}
		if m := memRe.FindSubmatch(data); m != nil {
			v, _ := strconv.Atoi(string(m[1]))
			c.Pages = int32(v)
		}
		if m := stackRe.FindSubmatch(data); m != nil {
			v, _ := strconv.Atoi(string(m[1]))
			c.Stack = int32(v)
		}
	}
	c.Limit = c.Pages + int32(rapid.SampledFrom([]int{0, 1, 2, 16}).Draw(t, "limit_extra"))
	c.Base = 16 * int32(rapid.IntRange(int(c.Stack)/16+1, 20000).Draw(t, "base16"))
	return c
}

// ---------------------------------------------------------------- state machine

type machine struct {
	c     *core.Case
	r     *runner
	hist  *history
	dead  bool  // a listed known finding was hit: the state is not trustworthy any more
	big   int32 // upper bound for "huge" requests
	skip0 bool  // malloc(0) with fixed lists disabled is excluded (known finding)
}

// do executes one primitive op; false = stop issuing ops in this action.
func (m *machine) do(o op) bool {
	if m.dead {
		return false
	}
	idx := len(m.hist.Ops)
	m.hist.Ops = append(m.hist.Ops, o)
	key, what, _ := m.r.step(idx, o)
	if key != "" {
		if !m.c.Fail(key, "%s", what) {
			m.dead = true
		}
		return false
	}
	return true
}

// malloc issues a malloc op and reports whether a block was obtained.
func (m *machine) malloc(t *rapid.T, size int32) (ok, cont bool) {
	if size == 0 && m.skip0 {
		size = 1
	}
	n := len(m.r.ids)
	cont = m.do(op{K: "malloc", Size: size, Seed: rapid.Byte().Draw(t, "seed")})
	return len(m.r.ids) > n, cont
}

func clampSize(v int64) int32 {
	if v < 0 {
		return 0
	}
	if v > 1<<30 {
		return 1 << 30
	}
	return int32(v)
}

var borders = []int{0, 1, 7, 8, 9, 23, 24, 25, 31, 32, 33, 47, 48, 49, 79, 80, 81, 120, 127, 128, 129, 136}

func (m *machine) genSize(t *rapid.T, kind string) int32 {
	switch kind {
	case "small":
		return int32(rapid.IntRange(0, 24).Draw(t, "small"))
	case "border":
		return int32(rapid.SampledFrom(borders).Draw(t, "border"))
	case "mult8":
		return clampSize(int64(8*rapid.IntRange(0, 64).Draw(t, "m8") + rapid.IntRange(-1, 1).Draw(t, "d")))
	case "medium":
		return int32(rapid.IntRange(81, 4096).Draw(t, "medium"))
	case "large":
		return int32(rapid.IntRange(4097, 40000).Draw(t, "large"))
	case "page":
		return clampSize(int64(pageBytes*rapid.IntRange(1, 3).Draw(t, "pg") + rapid.IntRange(-64, 64).Draw(t, "d")))
	case "edge": // exactly around what is left below the current top / the configured maximum / the next page boundary
		hp, top := int64(m.r.cfg.Base)+listHeads, int64(m.r.cfg.Pages)*pageBytes
		if m.r.pre != nil {
			hp, top = int64(m.r.pre.heapPtr), m.r.pre.memSize
		}
		var lim int64
		switch rapid.IntRange(0, 2).Draw(t, "edge") {
		case 0:
			lim = top
		case 1:
			lim = m.r.cfg.maxBytes()
		default:
			lim = top + pageBytes*int64(rapid.IntRange(1, 2).Draw(t, "pg"))
		}
		d := int64(rapid.SampledFrom([]int{-24, -16, -9, -8, -7, -1, 0, 1, 7, 8, 9, 16}).Draw(t, "d"))
		return clampSize(lim - hp - blockHead + d)
	default: // "huge"
		e := rapid.IntRange(17, 30).Draw(t, "exp")
		v := clampSize(int64(1)<<uint(e) + int64(rapid.IntRange(-8, 8).Draw(t, "d")))
		if v > m.big {
			v = m.big
		}
		return v
	}
}

func (m *machine) pickLive(t *rapid.T) *liveBlock {
	if len(m.r.ids) == 0 {
		t.Skip("no live block")
	}
	return m.r.live[m.r.ids[rapid.IntRange(0, len(m.r.ids)-1).Draw(t, "live")]]
}

// freeSet frees the given block ids in a drawn order (ascending address,
// descending address, or a drawn permutation).
func (m *machine) freeSet(t *rapid.T, ids []int) bool {
	ids = append([]int(nil), ids...)
	addr := func(id int) int32 { return m.r.live[id].ptr }
	switch rapid.SampledFrom([]string{"asc", "desc", "perm", "evens-first"}).Draw(t, "order") {
	case "asc":
		sort.Slice(ids, func(i, j int) bool { return addr(ids[i]) < addr(ids[j]) })
	case "desc":
		sort.Slice(ids, func(i, j int) bool { return addr(ids[i]) > addr(ids[j]) })
	case "perm":
		ids = rapid.Permutation(ids).Draw(t, "perm")
	default: // every other block first (no coalescing), then the rest (joins on both sides)
		sort.Slice(ids, func(i, j int) bool { return addr(ids[i]) < addr(ids[j]) })
		var a, b []int
		for i, id := range ids {
			if i%2 == 0 {
				a = append(a, id)
			} else {
				b = append(b, id)
			}
		}
		ids = append(a, b...)
	}
	for _, id := range ids {
		if !m.do(op{K: "free", Ref: id}) {
			return false
		}
	}
	return true
}

func (m *machine) actions() map[string]func(*rapid.T) {
	mallocKind := func(kinds ...string) func(*rapid.T) {
		return func(t *rapid.T) {
			kind := rapid.SampledFrom(kinds).Draw(t, "kind")
			m.malloc(t, m.genSize(t, kind))
		}
	}
	free := func(t *rapid.T) {
		b := m.pickLive(t)
		m.do(op{K: "free", Ref: b.id})
	}
	return map[string]func(*rapid.T){
		"malloc_small":  mallocKind("small", "border", "mult8"),
		"malloc_medium": mallocKind("medium", "medium", "large", "mult8"),
		"malloc_edge":   mallocKind("edge", "page", "huge"),
		"free_a":        free,
		"free_b":        free,
		"write": func(t *rapid.T) {
			if !m.r.h.CanWrite() {
				t.Skip("no write access")
			}
			b := m.pickLive(t)
			m.do(op{K: "write", Ref: b.id, Seed: rapid.Byte().Draw(t, "seed")})
		},
		// explicit phase: free everything (drawn order), then re-allocate
		"phase_free_all_realloc": func(t *rapid.T) {
			if len(m.r.ids) < 2 {
				t.Skip("too few live blocks")
			}
			if !m.freeSet(t, m.r.ids) {
				return
			}
			n := rapid.IntRange(1, 6).Draw(t, "n")
			for i := 0; i < n; i++ {
				kind := rapid.SampledFrom([]string{"border", "medium", "large", "mult8", "edge"}).Draw(t, "kind")
				if _, cont := m.malloc(t, m.genSize(t, kind)); !cont {
					return
				}
			}
		},
		// explicit phase: fill one size class beyond the fixed-list cap, so that
		// the cap+1st free flushes the list into the l128 ring
		"phase_fill_class": func(t *rapid.T) {
			if m.r.cfg.Cap >= 64 && rapid.IntRange(0, 2).Draw(t, "long") != 0 {
				t.Skip("long fill phases (cap 64/100: 130-200 steps) only a third of the time")
			}
			k := rapid.IntRange(0, 3).Draw(t, "class")
			lo := int32(1)
			if k > 0 {
				lo = classSizes[k-1] + 1
			}
			n := int(m.r.cfg.Cap) + rapid.IntRange(1, 3).Draw(t, "extra")
			if m.r.cfg.Cap == 0 {
				n = rapid.IntRange(2, 8).Draw(t, "n")
			}
			var ids []int
			for i := 0; i < n; i++ {
				size := int32(rapid.IntRange(int(lo), int(classSizes[k])).Draw(t, "size"))
				ok, cont := m.malloc(t, size)
				if !cont {
					return
				}
				if !ok {
					break
				}
				ids = append(ids, m.r.ids[len(m.r.ids)-1])
			}
			m.freeSet(t, ids)
		},
		// explicit phase: allocate until the heap refuses (reaches grow and failed malloc)
		"phase_exhaust": func(t *rapid.T) {
			kind := rapid.SampledFrom([]string{"medium", "large", "page"}).Draw(t, "kind")
			size := m.genSize(t, kind)
			if int64(size) > int64(m.big) {
				size = m.big
			}
			for i := 0; i < 48; i++ {
				ok, cont := m.malloc(t, size)
				if !cont || !ok {
					return
				}
			}
		},
		// explicit phase: three neighbouring general-list blocks freed in a drawn order
		"phase_neighbours": func(t *rapid.T) {
			size := int32(rapid.IntRange(81, 2000).Draw(t, "size"))
			var ids []int
			for i := 0; i < 3; i++ {
				ok, cont := m.malloc(t, size)
				if !cont {
					return
				}
				if ok {
					ids = append(ids, m.r.ids[len(m.r.ids)-1])
				}
			}
			if len(ids) > 0 {
				m.freeSet(t, ids)
			}
		},
	}
}

// ---------------------------------------------------------------- reach accounting

var essential = []string{"malloc/bump", "malloc/bump-grow", "malloc/fail", "malloc/fixed-reuse", "malloc/ring-split",
	"malloc/ring-whole", "free/fixed-push", "free/fixed-flush", "free/l128-no-join", "free/l128-join-upper",
	"free/l128-join-lower", "free/l128-join-both"}

type reachTotals struct {
	ops   map[string]int64
	cases int64
}

func newTotals() *reachTotals { return &reachTotals{ops: map[string]int64{}} }

// report publishes totals and the vacuity verdict after the rapid loop.
func (rt *reachTotals) report(t *testing.T, s *core.Stats, want []string) {
	keys := make([]string, 0, len(rt.ops))
	for k := range rt.ops {
		keys = append(keys, k)
	}
	sort.Strings(keys)
	for _, k := range keys {
		s.Count("ops/"+k, rt.ops[k])
	}
	var missing []string
	for _, k := range want {
		s.Count("ops/"+k, 0) // make unreached paths visible as 0 in the histogram
		if rt.ops[k] == 0 {
			missing = append(missing, k)
		}
	}
	if len(missing) > 0 {
		sh, _ := core.Shard()
		s.Note(fmt.Sprintf("%s: allocator paths never reached in shard %d (%d histories): %v", s.Test, sh, rt.cases, missing))
		if rt.cases >= 100 && !t.Failed() {
			t.Errorf("INCONCLUSIVE (vacuous): %d histories never reached allocator paths %v", rt.cases, missing)
		}
	}
}

// ---------------------------------------------------------------- the property

func runMachine(t *testing.T, test, impl string, gen func(*rapid.T) config, big int32, want []string) {
	s := core.NewStats(prop, test)
	s.Rule("rapid state machine (t.Repeat) over malloc(size) / free(live block) / write(pattern into live block) plus explicit phases (free everything in a drawn order then re-allocate; fill a size class beyond the fixed-list cap; allocate until refusal; three neighbours freed in a drawn order) on a drawn heap configuration; after every primitive step the model (live blocks → ptr, requested size, fill pattern) is compared with linear memory: 8-alignment, inside [heap_base+48, __heap_ptr) and inside memory, header size ≥ request, disjoint from every other live block and from the list heads, contents of all live blocks unchanged, heap walk from heap start lands exactly on __heap_ptr and meets every block exactly once as live / fixed-list / l128-ring member, and a 0 result is accepted only if the class list is empty, no ring block (nor run of adjacent ring blocks) is large enough and heap_ptr+8+size exceeds max_pages×64Ki; non-trivial = the history re-used freed memory and reached at least one of split / coalesce / flush / grow / failed malloc")
	s.Assume("the harness model and heap walker (harness/c10/model.go); block sizes follow the allocator's documented size classes (8-aligned; with fixed lists enabled ≤80 → 24/32/48/80, 81..128 → 128) when judging whether a refusal was justified; a fixed list's membership is its head's {count,next} chain")
	if impl == "go" {
		s.Assume("malloc.Heap exposes neither memory writes nor the memory size: contents are snapshots taken after allocation (head/tail 256 B for blocks > 512 B) and __heap_top stands in for the memory size")
	}
	totals := newTotals()
	known0 := core.IsKnown(prop, keyMalloc0)
	s.Check(t, func(t *rapid.T, c *core.Case) {
		if impl != "wat" {
			// the tests of one process share the rapid seed and the generators: shift
			// the stream so that each implementation sees histories of its own
			rapid.SliceOfN(rapid.Byte(), len(impl), len(impl)).Draw(t, "decorrelate")
		}
		cfg := gen(t)
		hist := &history{Impl: impl, Cfg: cfg}
		c.Set(hist)
		r, err := newRunner(impl, cfg)
		if err != nil {
			t.Fatalf("harness: %v", err)
		}
		defer r.close()
		m := &machine{c: c, r: r, hist: hist, big: big, skip0: known0 && cfg.Cap == 0}
		if m.skip0 {
			s.Counter("excluded_by_known/"+keyMalloc0, 1)
		}
		if key, what := r.refresh("instantiation"); key != "" {
			c.Fail(key, "%s", what)
			return
		}
		t.Repeat(m.actions())
		if m.dead {
			return
		}
		c.Class(fmt.Sprintf("cap=%d", cfg.Cap))
		if cfg.MaxPages == cfg.Pages {
			c.Class("max=initial")
		} else {
			c.Class("max>initial")
		}
		c.Class(fmt.Sprintf("history-len<=%d", bucket(len(hist.Ops))))
		interesting := false
		for k, n := range r.reach {
			c.Class("histories-reaching/" + k)
			totals.ops[k] += int64(n)
			switch k {
			case "malloc/ring-split", "malloc/bump-grow", "malloc/fail", "free/fixed-flush",
				"free/l128-join-upper", "free/l128-join-lower", "free/l128-join-both":
				interesting = true
			}
		}
		totals.cases++
		if r.reusedAfterFree && interesting {
			c.Nontrivial()
		}
	})
	totals.report(t, s, want)
}

func bucket(n int) int {
	for _, b := range []int{10, 30, 100, 300, 1000} {
		if n <= b {
			return b
		}
	}
	return 1 << 20
}

// keyMalloc0: see known_findings.jsonl.
const keyMalloc0 = "overlap/list-headers"

func TestMallocWat(t *testing.T) { runMachine(t, "MallocWat", "wat", genConfig, 1<<30, essential) }
func TestRuntimeWs(t *testing.T) { runMachine(t, "RuntimeWs", "ws", genConfig, 1<<30, essential) }
func TestGoWrapper(t *testing.T) { runMachine(t, "GoWrapper", "go", genConfig, 1<<30, essential) }

// TestCompiledLayout drives the .ws copy with the memory layout compiled
// programs really get (64 MiB initial memory, no declared maximum, cap 64).
func TestCompiledLayout(t *testing.T) {
	runMachine(t, "CompiledLayout", "ws", genCompiledLayout, 1<<26,
		[]string{"malloc/bump", "malloc/fixed-reuse", "malloc/ring-split", "free/fixed-push", "free/l128-join-upper", "free/l128-join-lower"})
}

// ---------------------------------------------------------------- replay

func replay(test string, raw json.RawMessage) (string, string) {
	var h history
	if err := json.Unmarshal(raw, &h); err != nil {
		return "harness/bad-replay", err.Error()
	}
	return runHistory(h)
}

func TestReplay(t *testing.T) { core.RunReplays(t, prop, replay) }
