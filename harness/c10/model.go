package c10

import (
	"bytes"
	"encoding/binary"
	"fmt"
	"sort"
)

// ---------------------------------------------------------------- history (replay payload)

// op is one primitive step.  Composite generator phases ("free everything then
// re-allocate", "fill a class beyond its cap", ...) are recorded as the
// primitive steps they expand to, so a history replays without rapid.
type op struct {
	K    string `json:"k"`              // "malloc" | "free" | "write"
	Size int32  `json:"size,omitempty"` // malloc: requested bytes
	Ref  int    `json:"ref,omitempty"`  // free/write: index in Ops of the malloc that created the block
	Seed uint8  `json:"seed,omitempty"` // malloc/write: fill pattern
}

type history struct {
	Impl string `json:"impl"` // "wat" | "ws" | "go"
	Cfg  config `json:"cfg"`
	Ops  []op   `json:"ops"`
}

// ---------------------------------------------------------------- allocator constants (from the source comments)

const (
	blockHead   = 8  // sizeof(heap_block_t): size:i32, next:i32
	listHeads   = 48 // 6 heads at __heap_base: l24 l32 l48 l80 l128 nil
	l128HeadOff = 32
)

var classSizes = [4]int32{24, 32, 48, 80}

// need is the block size the allocator's documented size classes assign to a
// request: 8-aligned (at least 8); with fixed lists enabled ≤80 → 24/32/48/80 and 81..128 → 128.
func need(size, cap int32) int32 {
	a := (size + 7) &^ 7
	if cap == 0 {
		if a < 8 {
			a = 8 // a zero-byte request may be served with a minimal 8-byte block
		}
		return a
	}
	for _, c := range classSizes {
		if a <= c {
			return c
		}
	}
	if a <= 128 {
		return 128
	}
	return a
}

// classOf returns the fixed-list index for a block size, or -1 (general list).
func classOf(blockSize, cap int32) int {
	if cap == 0 || blockSize > 80 {
		return -1
	}
	for i, c := range classSizes {
		if blockSize <= c {
			return i
		}
	}
	return -1
}

// ---------------------------------------------------------------- view of the heap structure

type blk struct{ addr, size int32 }

const (
	ownNone = iota
	ownLive
	ownFixed
	ownRing
)

// view is the allocator's data structure as read from linear memory after a step.
type view struct {
	heapPtr, heapTop, freep int32
	memSize                 int64
	blocks                  []blk // address order; tiles [base+48, heapPtr)
	owner                   []uint8
	fixed                   [4][]int32 // block addresses per fixed list, list order
	ring                    []int32    // l128 ring nodes (head excluded) in ring order
}

func (v *view) find(addr int32) int {
	i := sort.Search(len(v.blocks), func(i int) bool { return v.blocks[i].addr >= addr })
	if i < len(v.blocks) && v.blocks[i].addr == addr {
		return i
	}
	return -1
}

func (v *view) ringHas(addr int32) bool {
	i := v.find(addr)
	return i >= 0 && v.owner[i] == ownRing
}

// ---------------------------------------------------------------- runner

type liveBlock struct {
	id   int // index of the malloc op
	ptr  int32
	req  int32
	hdr  int32 // header size right after allocation
	seed uint8
	exp  []byte // expected bytes of the tracked windows, concatenated
}

type runner struct {
	impl   string
	cfg    config
	h      heapAPI
	live   map[int]*liveBlock
	byPtr  map[int32]*liveBlock
	ids    []int // live ids, ascending
	pre    *view // structure after the previous step (nil: ws heap not initialised yet)
	inited bool
	nops   int
	reach  map[string]int
	// freed is the set of block addresses that were freed at least once
	reusedAfterFree bool
}

func newRunner(impl string, cfg config) (*runner, error) {
	h, err := newHeap(impl, cfg)
	if err != nil {
		return nil, err
	}
	r := &runner{impl: impl, cfg: cfg, h: h, live: map[int]*liveBlock{}, byPtr: map[int32]*liveBlock{},
		reach: map[string]int{}, inited: impl != "ws"}
	return r, nil
}

func (r *runner) close() { r.h.Close() }

func (r *runner) u32(off int64) (int32, bool) {
	b, ok := r.h.Read(off, 4)
	if !ok {
		return 0, false
	}
	return int32(binary.LittleEndian.Uint32(b)), true
}

// windows returns the tracked byte ranges [lo,hi) of a block's requested bytes.
func (r *runner) windows(req int32) [][2]int64 {
	n := int64(req)
	lim := r.h.TrackLimit()
	if n <= lim {
		if n == 0 {
			return nil
		}
		return [][2]int64{{0, n}}
	}
	w := lim / 16
	if w < 256 {
		w = 256
	}
	return [][2]int64{{0, w}, {n - w, n}}
}

func pattern(seed uint8, i int64) byte {
	return byte(uint32(seed)*131 + uint32(i)*29 + uint32(i>>8)*7 + 0xA5)
}

// fill writes the block's pattern into its tracked windows (or snapshots them
// when the implementation gives no write access) and records the expectation.
func (r *runner) fill(b *liveBlock) (key, what string) {
	b.exp = b.exp[:0]
	for _, w := range r.windows(b.req) {
		if r.h.CanWrite() {
			buf := make([]byte, w[1]-w[0])
			for i := range buf {
				buf[i] = pattern(b.seed, w[0]+int64(i))
			}
			if !r.h.Write(int64(b.ptr)+w[0], buf) {
				return "bounds/outside-memory", fmt.Sprintf("block #%d ptr=%d req=%d: bytes [%d,%d) are not inside linear memory (%d bytes)", b.id, b.ptr, b.req, int64(b.ptr)+w[0], int64(b.ptr)+w[1], r.h.MemSize())
			}
			b.exp = append(b.exp, buf...)
		} else {
			got, ok := r.h.Read(int64(b.ptr)+w[0], w[1]-w[0])
			if !ok {
				return "bounds/outside-memory", fmt.Sprintf("block #%d ptr=%d req=%d: bytes [%d,%d) are not inside linear memory (%d bytes)", b.id, b.ptr, b.req, int64(b.ptr)+w[0], int64(b.ptr)+w[1], r.h.MemSize())
			}
			b.exp = append(b.exp, got...)
		}
	}
	return "", ""
}

func (r *runner) checkContents(after string) (key, what string) {
	for _, id := range r.ids {
		b := r.live[id]
		off := 0
		for _, w := range r.windows(b.req) {
			n := int(w[1] - w[0])
			got, ok := r.h.Read(int64(b.ptr)+w[0], int64(n))
			if !ok {
				return "bounds/outside-memory", fmt.Sprintf("after %s: live block #%d ptr=%d req=%d is no longer inside linear memory", after, b.id, b.ptr, b.req)
			}
			if !bytes.Equal(got, b.exp[off:off+n]) {
				i := 0
				for got[i] == b.exp[off+i] {
					i++
				}
				return "content/live-block-modified", fmt.Sprintf("after %s: live block #%d (ptr=%d req=%d) byte %d changed from %#02x to %#02x", after, b.id, b.ptr, b.req, w[0]+int64(i), b.exp[off+i], got[i])
			}
			off += n
		}
	}
	return "", ""
}

// computeView reads the allocator structure and checks the structural part of
// the property: the heap walk from heap start lands exactly on the bump
// pointer, and every block met is exactly one of live / on a fixed list / on
// the l128 ring.
func (r *runner) computeView(after string) (v *view, key, what string) {
	if !r.inited {
		return nil, "", ""
	}
	base := int64(r.cfg.Base)
	v = &view{}
	v.heapPtr, v.heapTop, v.freep = r.h.Globals()
	v.memSize = r.h.MemSize()
	start := base + listHeads
	hp := int64(v.heapPtr)
	if hp < start {
		return nil, "walk/heap-ptr-below-heap-start", fmt.Sprintf("after %s: __heap_ptr=%d < heap start %d", after, hp, start)
	}
	if hp > v.memSize {
		return nil, "bounds/heap-ptr-beyond-memory", fmt.Sprintf("after %s: __heap_ptr=%d > linear memory size %d", after, hp, v.memSize)
	}
	for a := start; a < hp; {
		if a+blockHead > hp {
			return nil, "walk/does-not-land-on-heap-ptr", fmt.Sprintf("after %s: heap walk reaches %d, %d bytes before __heap_ptr=%d (no room for a block header)", after, a, hp-a, hp)
		}
		sz, _ := r.u32(a)
		if sz < 0 || a+blockHead+int64(sz) > hp {
			return nil, "walk/does-not-land-on-heap-ptr", fmt.Sprintf("after %s: block at %d has size %d and ends at %d, beyond __heap_ptr=%d", after, a, sz, a+blockHead+int64(sz), hp)
		}
		v.blocks = append(v.blocks, blk{int32(a), sz})
		a += blockHead + int64(sz)
	}
	v.owner = make([]uint8, len(v.blocks))

	claim := func(addr int32, own uint8, who string) (string, string) {
		i := v.find(addr)
		if i < 0 {
			return who + "/node-not-a-block", fmt.Sprintf("after %s: %s node %d is not the start of a block met by the heap walk", after, who, addr)
		}
		if v.owner[i] != ownNone {
			return "walk/block-in-two-sets", fmt.Sprintf("after %s: block at %d (size %d) is reachable twice (%s and %s)", after, addr, v.blocks[i].size, ownName(v.owner[i]), ownName(own))
		}
		v.owner[i] = own
		return "", ""
	}

	// fixed lists: head = {count, next}, nil-terminated
	for k := 0; k < 4; k++ {
		head := base + int64(8*k)
		count, _ := r.u32(head)
		n, _ := r.u32(head + 4)
		for n != 0 {
			if len(v.fixed[k]) > len(v.blocks) {
				return nil, "fixed/cycle", fmt.Sprintf("after %s: fixed list l%d does not terminate", after, classSizes[k])
			}
			if key, what := claim(n, ownFixed, "fixed"); key != "" {
				return nil, key, what + fmt.Sprintf(" (list l%d)", classSizes[k])
			}
			v.fixed[k] = append(v.fixed[k], n)
			n, _ = r.u32(int64(n) + 4)
		}
		if int(count) != len(v.fixed[k]) {
			return nil, "fixed/count-mismatch", fmt.Sprintf("after %s: fixed list l%d head says %d nodes, the chain has %d", after, classSizes[k], count, len(v.fixed[k]))
		}
	}

	// l128 ring through its head
	H := int32(base + l128HeadOff)
	n, _ := r.u32(int64(H) + 4)
	for n != H {
		if len(v.ring) > len(v.blocks) {
			return nil, "ring/does-not-return-to-head", fmt.Sprintf("after %s: l128 ring does not return to its head %d", after, H)
		}
		if n == 0 {
			return nil, "ring/broken-nil", fmt.Sprintf("after %s: l128 ring reaches nil after %d nodes (head %d)", after, len(v.ring), H)
		}
		if key, what := claim(n, ownRing, "ring"); key != "" {
			return nil, key, what
		}
		v.ring = append(v.ring, n)
		n, _ = r.u32(int64(n) + 4)
	}
	if v.freep != H && !v.ringHas(v.freep) {
		return nil, "ring/freep-off-ring", fmt.Sprintf("after %s: __heap_l128_freep=%d is neither the l128 head %d nor a ring node", after, v.freep, H)
	}

	// live blocks of the model
	for _, id := range r.ids {
		b := r.live[id]
		i := v.find(b.ptr - blockHead)
		if i < 0 {
			return nil, "live/not-a-heap-block", fmt.Sprintf("after %s: live block #%d (ptr=%d req=%d) is not met by the heap walk: its header lies inside another block", after, b.id, b.ptr, b.req)
		}
		if v.owner[i] != ownNone {
			return nil, "overlap/live-block-is-free", fmt.Sprintf("after %s: live block #%d (ptr=%d req=%d) is also %s", after, b.id, b.ptr, b.req, ownName(v.owner[i]))
		}
		v.owner[i] = ownLive
		if v.blocks[i].size < b.req {
			return nil, "size/header-smaller-than-request", fmt.Sprintf("after %s: live block #%d (ptr=%d) has header size %d < requested %d", after, b.id, b.ptr, v.blocks[i].size, b.req)
		}
	}
	for i, o := range v.owner {
		if o == ownNone {
			return nil, "walk/orphan-block", fmt.Sprintf("after %s: block at %d (size %d) below __heap_ptr=%d is neither live nor on a fixed list nor on the l128 ring", after, v.blocks[i].addr, v.blocks[i].size, v.heapPtr)
		}
	}
	return v, "", ""
}

func ownName(o uint8) string {
	return [...]string{"unowned", "live", "on a fixed list", "on the l128 ring"}[o]
}

// refresh re-reads the structure, checks all invariants and stores the view.
func (r *runner) refresh(after string) (key, what string) {
	v, key, what := r.computeView(after)
	if key != "" {
		return key, what
	}
	if key, what := r.checkContents(after); key != "" {
		return key, what
	}
	r.pre = v
	return "", ""
}

// ---------------------------------------------------------------- failure rule

// failureRule is evaluated on the state before a malloc that returned 0.
func (r *runner) failureRule(size int32, desc string) (key, what string) {
	nd := need(size, r.cfg.Cap)
	var hp, top int64
	pre := r.pre
	if pre == nil { // ws: first call initialises an empty heap
		hp, top = int64(r.cfg.Base)+listHeads, int64(r.cfg.Pages)*pageBytes
		pre = &view{}
	} else {
		hp, top = int64(pre.heapPtr), pre.memSize
	}
	if k := classOf(nd, r.cfg.Cap); k >= 0 && len(pre.fixed[k]) > 0 {
		return "fail-rule/class-list-nonempty", fmt.Sprintf("%s returned 0 although fixed list l%d holds %d free blocks", desc, classSizes[k], len(pre.fixed[k]))
	}
	for _, a := range pre.ring {
		if s := pre.blocks[pre.find(a)].size; s >= nd {
			return "fail-rule/ring-block-fits", fmt.Sprintf("%s (block size %d) returned 0 although the l128 ring holds a free block of size %d at %d", desc, nd, s, a)
		}
	}
	// address-contiguous runs of ring blocks (free memory of the general list that a coalescing free keeps merged)
	nodes := append([]int32(nil), pre.ring...)
	sort.Slice(nodes, func(i, j int) bool { return nodes[i] < nodes[j] })
	for i := 0; i < len(nodes); {
		j, usable := i, int64(pre.blocks[pre.find(nodes[i])].size)
		for j+1 < len(nodes) && int64(nodes[i])+blockHead+usable == int64(nodes[j+1]) {
			j++
			usable += blockHead + int64(pre.blocks[pre.find(nodes[j])].size)
		}
		if j > i && usable >= int64(nd) {
			return "fail-rule/uncoalesced-ring-space", fmt.Sprintf("%s (block size %d) returned 0 although %d adjacent free l128 blocks starting at %d form %d contiguous free bytes", desc, nd, j-i+1, nodes[i], usable)
		}
		i = j + 1
	}
	end := hp + blockHead + int64(nd)
	switch {
	case end < top:
		return "fail-rule/fits-below-top", fmt.Sprintf("%s (block size %d) returned 0 although heap_ptr=%d + 8 + %d = %d < memory size %d: no growth needed", desc, nd, hp, nd, end, top)
	case end == top:
		return "fail-rule/exact-fit-refused", fmt.Sprintf("%s (block size %d) returned 0 although heap_ptr=%d + 8 + %d = %d equals the current memory size: the block fits without growing (max %d bytes)", desc, nd, hp, nd, end, r.cfg.maxBytes())
	case end <= r.cfg.maxBytes():
		return "fail-rule/grow-would-fit", fmt.Sprintf("%s (block size %d) returned 0 although heap_ptr=%d + 8 + %d = %d ≤ configured maximum %d bytes (memory now %d): growing %d page(s) satisfies it", desc, nd, hp, nd, end, r.cfg.maxBytes(), top, (end-top+pageBytes-1)/pageBytes)
	}
	return "", ""
}

// ---------------------------------------------------------------- steps

func (r *runner) addLive(b *liveBlock) {
	r.live[b.id] = b
	r.byPtr[b.ptr] = b
	r.ids = append(r.ids, b.id) // ids are op indexes, hence ascending
}

func (r *runner) delLive(b *liveBlock) {
	delete(r.live, b.id)
	delete(r.byPtr, b.ptr)
	i := sort.SearchInts(r.ids, b.id)
	r.ids = append(r.ids[:i], r.ids[i+1:]...)
}

// step executes one primitive op (index = position in the history) and
// checks the invariant of the property after it.  skipped = the op refers to
// a block that is not live in this run (possible only when replaying a history
// on a tree that behaves differently).
func (r *runner) step(index int, o op) (key, what string, skipped bool) {
	r.nops++
	switch o.K {
	case "malloc":
		key, what = r.doMalloc(index, o)
	case "free":
		b := r.live[o.Ref]
		if b == nil {
			return "", "", true
		}
		key, what = r.doFree(index, b)
	case "write":
		b := r.live[o.Ref]
		if b == nil || !r.h.CanWrite() {
			return "", "", true
		}
		b.seed = o.Seed
		if key, what = r.fill(b); key == "" {
			key, what = r.refresh(fmt.Sprintf("op %d write(#%d)", index, b.id))
		}
		r.reach["write"]++
	default:
		return "harness/bad-op", "unknown op " + o.K, false
	}
	return key, what, false
}

func (r *runner) doMalloc(index int, o op) (key, what string) {
	desc := fmt.Sprintf("op %d malloc(%d)", index, o.Size)
	pre := r.pre
	ptr, err := r.h.Malloc(o.Size)
	r.inited = true
	if err != nil {
		return "trap/malloc", fmt.Sprintf("%s trapped: %v", desc, err)
	}
	if ptr == 0 {
		r.reach["malloc/fail"]++
		if key, what := r.failureRule(o.Size, desc); key != "" {
			return key, what
		}
		return r.refresh(desc + " = 0")
	}
	desc += fmt.Sprintf(" = %d", ptr)
	base := int64(r.cfg.Base)
	if ptr%8 != 0 {
		return "align/ptr-not-8-aligned", desc + ": pointer is not 8-byte aligned"
	}
	hdrAddr := int64(ptr) - blockHead
	if hdrAddr < base+listHeads {
		if int64(ptr)+int64(o.Size) > base || int64(ptr) > base {
			return "overlap/list-headers", fmt.Sprintf("%s: block header [%d,%d) overlaps the allocator's list heads [%d,%d)", desc, hdrAddr, ptr, base, base+listHeads)
		}
		return "bounds/below-heap-start", fmt.Sprintf("%s: block lies below the heap start %d", desc, base+listHeads)
	}
	hp, _, _ := r.h.Globals()
	ms := r.h.MemSize()
	if int64(ptr)+int64(o.Size) > int64(hp) {
		return "bounds/beyond-heap-ptr", fmt.Sprintf("%s: block end %d > __heap_ptr=%d", desc, int64(ptr)+int64(o.Size), hp)
	}
	if int64(hp) > ms {
		return "bounds/heap-ptr-beyond-memory", fmt.Sprintf("%s: __heap_ptr=%d > linear memory size %d", desc, hp, ms)
	}
	hdr, ok := r.u32(hdrAddr)
	if !ok {
		return "bounds/outside-memory", desc + ": block header is not inside linear memory"
	}
	if hdr < o.Size {
		return "size/header-smaller-than-request", fmt.Sprintf("%s: header size %d < requested %d", desc, hdr, o.Size)
	}
	if d := r.byPtr[ptr]; d != nil {
		return "overlap/duplicate-pointer", fmt.Sprintf("%s: same pointer as live block #%d (req=%d)", desc, d.id, d.req)
	}
	for _, id := range r.ids {
		d := r.live[id]
		if hdrAddr < int64(d.ptr)+int64(d.hdr) && int64(d.ptr)-blockHead < int64(ptr)+int64(hdr) {
			return "overlap/live-blocks", fmt.Sprintf("%s: block [%d,%d) overlaps live block #%d [%d,%d)", desc, hdrAddr, int64(ptr)+int64(hdr), d.id, int64(d.ptr)-blockHead, int64(d.ptr)+int64(d.hdr))
		}
	}
	b := &liveBlock{id: index, ptr: ptr, req: o.Size, hdr: hdr, seed: o.Seed}
	r.addLive(b)
	if key, what := r.fill(b); key != "" {
		return key, what
	}
	if key, what := r.refresh(desc); key != "" {
		return key, what
	}
	// reach classification against the structure before the call
	a := ptr - blockHead
	switch {
	case pre == nil:
		r.reach["malloc/bump"]++
	case a == pre.heapPtr:
		r.reach["malloc/bump"]++
		if r.pre.memSize > pre.memSize {
			r.reach["malloc/bump-grow"]++
		}
	default:
		i := pre.find(a)
		switch {
		case i >= 0 && pre.owner[i] == ownFixed:
			r.reach["malloc/fixed-reuse"]++
			r.reusedAfterFree = true
		case i >= 0 && pre.owner[i] == ownRing && pre.blocks[i].size > hdr:
			r.reach["malloc/ring-split"]++
			r.reusedAfterFree = true
		case i >= 0 && pre.owner[i] == ownRing:
			r.reach["malloc/ring-whole"]++
			r.reusedAfterFree = true
		default:
			r.reach["malloc/other"]++
		}
	}
	if o.Size == 0 {
		r.reach["malloc/size0"]++
	}
	return "", ""
}

func (r *runner) doFree(index int, b *liveBlock) (key, what string) {
	desc := fmt.Sprintf("op %d free(#%d ptr=%d)", index, b.id, b.ptr)
	pre := r.pre
	err := r.h.Free(b.ptr)
	if err != nil {
		return "trap/free", fmt.Sprintf("%s trapped: %v", desc, err)
	}
	r.delLive(b)
	if key, what := r.refresh(desc); key != "" {
		return key, what
	}
	if pre == nil {
		return "", ""
	}
	a := b.ptr - blockHead
	i := pre.find(a)
	if i < 0 {
		return "", ""
	}
	size := pre.blocks[i].size
	if k := classOf(size, r.cfg.Cap); k >= 0 {
		r.reach["free/fixed-push"]++
		if int32(len(pre.fixed[k])) == r.cfg.Cap {
			r.reach["free/fixed-flush"]++
			if len(r.pre.ring) < len(pre.ring)+len(pre.fixed[k]) {
				r.reach["free/fixed-flush-coalesced"]++
			}
		}
		return "", ""
	}
	upper := pre.ringHas(a + blockHead + size)
	lower := i > 0 && pre.owner[i-1] == ownRing
	switch {
	case upper && lower:
		r.reach["free/l128-join-both"]++
	case upper:
		r.reach["free/l128-join-upper"]++
	case lower:
		r.reach["free/l128-join-lower"]++
	default:
		r.reach["free/l128-no-join"]++
	}
	return "", ""
}

// runHistory replays a saved history without rapid.
func runHistory(h history) (key, what string) {
	r, err := newRunner(h.Impl, h.Cfg)
	if err != nil {
		return "harness/instantiate", err.Error()
	}
	defer r.close()
	if key, what := r.refresh("instantiation"); key != "" {
		return key, what
	}
	for i, o := range h.Ops {
		if key, what, _ := r.step(i, o); key != "" {
			return key, what
		}
	}
	return "", ""
}
