package c05

import (
	"os"
	"sort"
	"strings"
	"testing"

	"pgregory.net/rapid"
	"wa-lang.org/wa/zverif/harness/watgen"
)

func TestDiscover(t *testing.T) {
	keys := map[string]int{}
	ex := map[string]string{}
	dis := map[string]bool{}
	for _, d := range strings.Split(os.Getenv("DISABLE"), ",") {
		dis[d] = true
	}
	rapid.Check(t, func(rt *rapid.T) {
		g := watgen.Gen(rt, watgen.Options{Disable: dis, MaxFuncs: 3, MaxBody: 10, InlineFuncExportsOnly: dis["separate_func_export"]})
		key, what, domain, _ := oracle(g.Text, nil)
		if !domain {
			keys["(domain)"]++
			return
		}
		keys[key]++
		if key != "" && (ex[key] == "" || len(g.Text) < len(ex[key])) {
			ex[key] = what + "\n--- source ---\n" + g.Text
		}
	})
	var ks []string
	for k := range keys {
		ks = append(ks, k)
	}
	sort.Strings(ks)
	for _, k := range ks {
		t.Logf("%6d %s", keys[k], k)
	}
	if w := os.Getenv("SHOW"); w != "" {
		for k, v := range ex {
			if strings.Contains(k, w) {
				t.Logf("=== %s\n%s", k, v)
			}
		}
	}
}
