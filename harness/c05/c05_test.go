// Package c05 checks property C05: printing a parsed WAT module
// (watfmt.Format = parser + printer, what `wa fmt` and watstrip use) and
// parsing the printed text again yields exactly the same binary, printing is
// idempotent, and the printed text is accepted with the same meaning by the
// reference reader (the harness's strict standard-WAT reader stands in for
// WABT, which is not installed).
package c05

import (
	"bytes"
	"encoding/json"
	"fmt"
	"os"
	"path/filepath"
	"runtime/debug"
	"sort"
	"strings"
	"testing"

	"pgregory.net/rapid"
	"wa-lang.org/wa/internal/wat/watutil"
	"wa-lang.org/wa/internal/wat/watutil/watfmt"
	"wa-lang.org/wa/zverif/harness/core"
	"wa-lang.org/wa/zverif/harness/watgen"
	"wa-lang.org/wa/zverif/harness/wk"
)

const prop = "C05"

func TestMain(m *testing.M) { core.Main(m) }

type kase struct {
	Source string `json:"source"`
	Text   string `json:"text"`
}

var node = watgen.NewNode()

// known construct classes: known_findings key → generator switch(es)
var knownClasses = []struct {
	key  string
	feat []string
}{
	{"ident/all-digits", []string{watgen.FeatNumericIdent}},
	{"limits/max-zero", []string{watgen.FeatLimitsMaxZero}},
	{"export/multiple-inline", []string{watgen.FeatMultiInlineExport}},
	{"export/empty-name", []string{watgen.FeatEmptyExportName}},
	{"print/export-name-escapes", []string{watgen.FeatHardExportName}},
}

type result struct {
	out      []byte
	err      string
	panicked bool
	frame    string
}

func guard(f func() ([]byte, error)) (r result) {
	defer func() {
		if x := recover(); x != nil {
			st := string(debug.Stack())
			r = result{err: fmt.Sprint(x), panicked: true, frame: core.PanicFrame(st)}
		}
	}()
	b, err := f()
	if err != nil {
		return result{err: err.Error()}
	}
	return result{out: b}
}

func assemble(text []byte) result {
	return guard(func() ([]byte, error) { return watutil.Wat2Wasm("case.wat", text) })
}
func format(text []byte) result {
	return guard(func() ([]byte, error) { return watfmt.Format("case.wat", text) })
}

func errClass(msg string) string {
	if i := strings.Index(msg, ": "); i > 0 && strings.Contains(msg[:i], ".wat:") {
		msg = msg[i+2:]
	}
	var sb strings.Builder
	inq := false
	for _, r := range msg {
		switch {
		case r == '"':
			inq = !inq
			sb.WriteRune('"')
		case inq, r >= '0' && r <= '9':
		case r == ' ':
			sb.WriteRune('_')
		default:
			sb.WriteRune(r)
		}
	}
	s := sb.String()
	if len(s) > 60 {
		s = s[:60]
	}
	return s
}

// classesOf adds the C05-specific class "separate_func_export".
func classesOf(m *watgen.Module) map[string]bool {
	cl := watgen.Classes(m)
	for _, e := range m.Exports {
		if e.Kind == watgen.ExternFunc && !e.Inline {
			cl["separate_func_export"] = true
		}
	}
	return cl
}

// oracle: domain=false when Wa itself does not accept the source text (the
// property quantifies over modules in the supported subset).
func oracle(text string, model *watgen.Module) (key, what string, domain bool, harness string) {
	src := []byte(text)
	base := assemble(src)
	if base.panicked || base.out == nil {
		return "", "", false, ""
	}
	if model == nil {
		model, _ = watgen.ReadWAT(src) // may stay nil for non-standard text
	}
	class := ""
	if model != nil {
		cl := classesOf(model)
	outer:
		for _, k := range knownClasses {
			for _, f := range k.feat {
				if cl[f] {
					class = k.key
					break outer
				}
			}
		}
	}
	k := func(s string) string {
		if class != "" {
			return class
		}
		return s
	}
	f1 := format(src)
	if f1.panicked {
		return k("panic:" + f1.frame), "watfmt.Format panicked: " + f1.err, true, ""
	}
	if f1.out == nil {
		return k("format/error/" + errClass(f1.err)), "watfmt.Format fails on text Wat2Wasm accepts: " + f1.err, true, ""
	}
	re := assemble(f1.out)
	if re.panicked {
		return k("reparse/panic/" + errClass(re.err)), "Wat2Wasm panics on the printed text: " + re.err + "\n--- printed ---\n" + clipText(f1.out), true, ""
	}
	if re.out == nil {
		return k("reparse/error/" + errClass(re.err)), "printed text does not assemble: " + re.err + "\n--- printed ---\n" + clipText(f1.out), true, ""
	}
	if !bytes.Equal(re.out, base.out) {
		sec := "bytes"
		detail := fmt.Sprintf("%d vs %d bytes", len(base.out), len(re.out))
		wb, e1 := watgen.Decode(base.out)
		gb, e2 := watgen.Decode(re.out)
		if e1 == nil && e2 == nil {
			if d := watgen.Diff(wb, gb, watgen.DiffOptions{Names: true, ExportOrder: true}); len(d) > 0 {
				sec, detail = d[0].Section, joinDiffs(d)
			}
		}
		return k("roundtrip/" + sec), "Wat2Wasm(Format(src)) != Wat2Wasm(src): " + detail + "\n--- printed ---\n" + clipText(f1.out), true, ""
	}
	f2 := format(f1.out)
	if f2.panicked || f2.out == nil {
		return k("idempotence/error"), "Format fails on its own output: " + f2.err, true, ""
	}
	if !bytes.Equal(f2.out, f1.out) {
		return k("idempotence"), "Format(Format(src)) != Format(src)\n--- first ---\n" + clipText(f1.out) + "\n--- second ---\n" + clipText(f2.out), true, ""
	}
	ok, msg, err := node.Validate(re.out)
	if err != nil {
		return "", "", true, "node unavailable: " + err.Error()
	}
	if !ok {
		// invalid before and after alike is C04's business
		if ok0, _, _ := node.Validate(base.out); ok0 {
			return k("printed-invalid/v8"), "assembled printed text is rejected by V8: " + msg, true, ""
		}
	}
	// stand-in for "accepted by the reference assembler with the same meaning"
	if model != nil {
		pm, err := watgen.ReadWAT(f1.out)
		if err != nil {
			return k("reference/rejects-printed-text"), "the strict standard-WAT reader rejects the printed text: " + err.Error() + "\n--- printed ---\n" + clipText(f1.out), true, ""
		}
		if d := watgen.Diff(model.Lower(), pm.Lower(), watgen.DiffOptions{}); len(d) > 0 {
			return k("reference/" + d[0].Section), "read by the reference reader the printed text means something else: " + joinDiffs(d) + "\n--- printed ---\n" + clipText(f1.out), true, ""
		}
	}
	return "", "", true, ""
}

func clipText(b []byte) string {
	if len(b) > 2500 {
		return string(b[:2500]) + "…"
	}
	return string(b)
}

func joinDiffs(d []watgen.Difference) string {
	var s []string
	for i, x := range d {
		if i == 4 {
			s = append(s, fmt.Sprintf("… (%d more)", len(d)-4))
			break
		}
		s = append(s, x.String())
	}
	r := strings.Join(s, " | ")
	if len(r) > 1500 {
		r = r[:1500] + "…"
	}
	return r
}

func disabled(s *core.Stats) (map[string]bool, []string) {
	dis := map[string]bool{}
	var keys []string
	for _, k := range knownClasses {
		if core.IsKnown(prop, k.key) {
			for _, f := range k.feat {
				dis[f] = true
			}
			keys = append(keys, k.key)
		}
	}
	return dis, keys
}

func nontrivial(c *watgen.Case) bool {
	f := c.Features
	return f[watgen.FeatMultiValueBlock] > 0 || f[watgen.FeatNamedLocals] > 0 || f[watgen.FeatDataEscapes] > 0 ||
		f[watgen.FeatFloatHex] > 0 || f[watgen.FeatFloatExp] > 0 || f[watgen.FeatSeparateExport] > 0 ||
		f[watgen.FeatSeparateType] > 0 || f[watgen.FeatElem] > 0
}

func TestGenerated(t *testing.T) {
	s := core.NewStats(prop, "Generated")
	s.Rule("rapid: watgen module → src; oracle: Format(src) succeeds, Wat2Wasm(Format(src)) == Wat2Wasm(src) byte for byte (name section included), Format(Format(src)) == Format(src), assembled printed text validates in V8, and the strict standard-WAT reader accepts the printed text with the same section model; non-trivial = module has a construct outside the 12 files of TestWat2Wasm: multi-value block types, named locals, data with escapes, hex/exponent float literals, separate exports or types, table+elem")
	s.Assume("'accepted by the reference assembler with the same meaning' is approximated: WABT is not installed, the harness's strict standard-WAT reader (watgen.ReadWAT, calibrated against the stored WABT binaries in C04) must accept the printed text and derive the same non-custom sections")
	s.Assume("domain = text Wat2Wasm accepts; watgen output is valid by construction (V8 + wazero, checked in C04)")
	dis, keys := disabled(s)
	s.Check(t, func(rt *rapid.T, c *core.Case) {
		opt := watgen.Options{Disable: dis, Trap: "any"}
		if rapid.IntRange(0, 3).Draw(rt, "mode") == 0 {
			opt.Exec, opt.Trampolines = true, true
		}
		if dis["separate_func_export"] {
			opt.InlineFuncExportsOnly = true
		}
		g := watgen.Gen(rt, opt)
		c.Set(kase{Source: "watgen", Text: g.Text})
		for _, k := range keys {
			s.Counter("excluded_by_known/"+k, 1)
		}
		var fs []string
		for f, n := range g.Features {
			if n > 0 {
				fs = append(fs, f)
			}
		}
		sort.Strings(fs)
		for _, f := range fs {
			c.Class("construct/" + f)
		}
		key, what, domain, harness := oracle(g.Text, g.M)
		if harness != "" {
			rt.Fatalf("HARNESS: %s", harness)
		}
		if !domain {
			s.Counter("rejected_by_domain", 1)
			return
		}
		if key != "" {
			c.Fail(key, "%s\n--- source ---\n%s", what, g.Text)
		}
		if nontrivial(g) {
			c.Nontrivial(g.Text)
		}
	})
}

func TestTestdata(t *testing.T) {
	s := core.NewStats(prop, "Testdata")
	defer s.Flush()
	s.Rule("enumeration of the 30 internal/wat/watutil/testdata/*.wat files through the same oracle (exhaustive over that corpus); non-trivial = file has ≥1 function")
	s.Exhaustive(true)
	if !core.FirstShard() {
		return
	}
	files, _ := filepath.Glob(filepath.Join(core.RepoDir(), "internal/wat/watutil/testdata/*.wat"))
	sort.Strings(files)
	for _, f := range files {
		src, _ := os.ReadFile(f)
		base := filepath.Base(f)
		c := s.NewCase(t)
		c.Set(kase{Source: "testdata:" + base, Text: string(src)})
		key, what, domain, harness := oracle(string(src), nil)
		if harness != "" {
			t.Fatalf("HARNESS: %s", harness)
		}
		if !domain {
			s.Counter("rejected_by_domain", 1)
			continue
		}
		if key != "" {
			c.Fail(key, "%s: %s", base, what)
		}
		c.Class("testdata")
		if strings.Contains(string(src), "(func") {
			c.Nontrivial(base)
		}
		c.Done()
	}
}

var compilerPrograms = []string{
	"waroot/examples/eq.wa", "waroot/examples/struct.wa", "waroot/examples/copy.wa",
	"waroot/examples/strbytes.wa", "waroot/examples/short-var.wa", "waroot/examples/brainfuck.wa", "waroot/examples/fib/fib.wa",
	"waroot/examples/interface_named.wa",
}

func TestCompilerWAT(t *testing.T) {
	s := core.NewStats(prop, "CompilerWAT")
	defer s.Flush()
	s.Rule("enumeration: compiler-emitted WAT (worker op build) of waroot/examples programs through the same oracle, one program per shard; non-trivial = every such module")
	sh, n := core.Shard()
	progs := compilerPrograms
	if !core.Thorough() && len(progs) > 3 {
		progs = progs[:3]
	}
	w := wk.New(wk.Options{})
	defer w.Close()
	for i, p := range progs {
		if i%n != sh {
			continue
		}
		src, err := os.ReadFile(filepath.Join(core.RepoDir(), p))
		if err != nil {
			s.Counter("missing_program", 1)
			continue
		}
		o := w.Do("build", wk.Src{Name: filepath.Base(p), Src: string(src)})
		var r struct {
			Wat string `json:"wat"`
		}
		if o.Kind != wk.OK || o.Decode(&r) != nil || r.Wat == "" {
			s.Counter("rejected_by_domain/build_failed", 1)
			continue
		}
		c := s.NewCase(t)
		c.Set(kase{Source: "compiler:" + p, Text: r.Wat})
		key, what, domain, harness := oracle(r.Wat, nil)
		if harness != "" {
			t.Fatalf("HARNESS: %s", harness)
		}
		if !domain {
			s.Counter("rejected_by_domain", 1)
			continue
		}
		if key != "" {
			c.Fail("compiler/"+key, "%s: %s", p, what)
		}
		c.Class("compiler_wat")
		c.Nontrivial(p)
		c.Done()
	}
}

func replay(test string, raw json.RawMessage) (string, string) {
	var k kase
	if err := json.Unmarshal(raw, &k); err != nil {
		return "harness/bad-replay", err.Error()
	}
	key, what, domain, harness := oracle(k.Text, nil)
	if harness != "" {
		return "harness/replay", harness
	}
	if !domain {
		return "", ""
	}
	if key != "" && strings.HasPrefix(k.Source, "compiler:") {
		key = "compiler/" + key
	}
	return key, what
}

func TestReplay(t *testing.T) { core.RunReplays(t, prop, replay) }
