package c05

import (
	"fmt"
	"strings"
	"testing"

	"wa-lang.org/wa/zverif/harness/core"
)

// Exhaustive memarg matrix: every load / store instruction × every legal
// alignment (1 … natural, and none written) × offsets {none, 1, 65, 4096}.
// Added after an independently seeded change (seeded/C05-store32-default-align:
// i64.store32 printed without its explicit align=2) was missed by the random
// modules: one instruction × one alignment is a 1-in-hundreds draw there, and a
// per-opcode default-alignment slip needs exactly that cell.

var memOps = []struct {
	name  string
	typ   string // value type for stores ("" = load)
	width int    // access width in bytes (= natural alignment)
	res   string
}{
	{"i32.load", "", 4, "i32"}, {"i64.load", "", 8, "i64"}, {"f32.load", "", 4, "f32"}, {"f64.load", "", 8, "f64"},
	{"i32.load8_s", "", 1, "i32"}, {"i32.load8_u", "", 1, "i32"}, {"i32.load16_s", "", 2, "i32"}, {"i32.load16_u", "", 2, "i32"},
	{"i64.load8_s", "", 1, "i64"}, {"i64.load8_u", "", 1, "i64"}, {"i64.load16_s", "", 2, "i64"}, {"i64.load16_u", "", 2, "i64"},
	{"i64.load32_s", "", 4, "i64"}, {"i64.load32_u", "", 4, "i64"},
	{"i32.store", "i32", 4, ""}, {"i64.store", "i64", 8, ""}, {"f32.store", "f32", 4, ""}, {"f64.store", "f64", 8, ""},
	{"i32.store8", "i32", 1, ""}, {"i32.store16", "i32", 2, ""},
	{"i64.store8", "i64", 1, ""}, {"i64.store16", "i64", 2, ""}, {"i64.store32", "i64", 4, ""},
}

func memargModule(op string, typ string, align, offset int) string {
	arg := ""
	if offset >= 0 {
		arg += fmt.Sprintf(" offset=%d", offset)
	}
	if align > 0 {
		arg += fmt.Sprintf(" align=%d", align)
	}
	var b strings.Builder
	b.WriteString("(module\n  (memory 1)\n  (func $f (export \"f\")\n    i32.const 16\n")
	if typ != "" {
		zero := "0"
		if typ[0] == 'f' {
			zero = "0.0"
		}
		fmt.Fprintf(&b, "    %s.const %s\n    %s%s\n", typ, zero, op, arg)
	} else {
		fmt.Fprintf(&b, "    %s%s\n    drop\n", op, arg)
	}
	b.WriteString("  )\n)\n")
	return b.String()
}

func TestMemargMatrix(t *testing.T) {
	s := core.NewStats(prop, "MemargMatrix")
	defer s.Flush()
	s.Rule("enumeration of every load/store instruction × every legal alignment (none, 1 … natural) × offset ∈ {none, 1, 65, 4096}, one tiny module each (exhaustive); same round-trip oracle; non-trivial = explicit alignment below or equal to natural, or a non-zero offset")
	s.Exhaustive(true)
	if !core.FirstShard() {
		return
	}
	for _, op := range memOps {
		aligns := []int{0}
		for a := 1; a <= op.width; a *= 2 {
			aligns = append(aligns, a)
		}
		for _, a := range aligns {
			for _, off := range []int{-1, 1, 65, 4096} {
				src := memargModule(op.name, op.typ, a, off)
				c := s.NewCase(t)
				c.Set(kase{Source: fmt.Sprintf("memarg:%s/align=%d/offset=%d", op.name, a, off), Text: src})
				key, what, domain, harness := oracle(src, nil)
				if harness != "" {
					t.Fatalf("HARNESS: %s", harness)
				}
				if !domain {
					s.Counter("rejected_by_domain", 1)
					continue
				}
				if key != "" {
					c.Fail(key+"/"+op.name, "%s align=%d offset=%d: %s", op.name, a, off, what)
				}
				c.Class("op/" + op.name)
				if a > 0 || off > 0 {
					c.Nontrivial(op.name, a, off)
				}
				c.Done()
			}
		}
	}
}
