// Package c04 checks property C04: watutil.Wat2Wasm emits the module the text
// describes — valid (V8 + vendored wazero) and section-wise equal to what the
// reference assembler produces, with an exact name section.
//
// WABT is not installed.  The reference is the harness's own assembler
// (watgen.ReadWAT → Lower → Encode) and decoder (watgen.Decode); both, and
// WABT's type-section ordering rule, are re-calibrated on every run against the
// 30 WABT-1.0.29 binaries stored in internal/wat/watutil/testdata.
package c04

import (
	"bytes"
	"encoding/json"
	"fmt"
	"os"
	"path/filepath"
	"sort"
	"strings"
	"testing"

	"pgregory.net/rapid"
	"wa-lang.org/wa/internal/wat/watutil"
	"wa-lang.org/wa/zverif/harness/core"
	"wa-lang.org/wa/zverif/harness/watgen"
	"wa-lang.org/wa/zverif/harness/wk"
)

const prop = "C04"

func TestMain(m *testing.M) { core.Main(m) }

// kase is the replayable form: the text is everything the oracle needs.
type kase struct {
	Source string `json:"source"` // "watgen" | "testdata:<file>" | "compiler:<file>"
	Text   string `json:"text"`
}

var node = watgen.NewNode()

// known construct classes (known_findings.jsonl key → generator switch)
var knownClasses = []struct{ key, feat string }{
	{"ident/all-digits", watgen.FeatNumericIdent},
	{"limits/max-zero", watgen.FeatLimitsMaxZero},
	{"export/multiple-inline", watgen.FeatMultiInlineExport},
	{"export/empty-name", watgen.FeatEmptyExportName},
	{"rejects-valid/memory.init-needs-datacount", watgen.FeatMemoryInit},
}

// assemble runs Wa's assembler in-process (internal/wat has no os.Exit /
// logger.Fatal on this path; panics are data).
func assemble(text string) (wasm []byte, errText string, panicked bool) {
	defer func() {
		if r := recover(); r != nil {
			wasm, errText, panicked = nil, fmt.Sprint(r), true
		}
	}()
	b, err := watutil.Wat2Wasm("case.wat", []byte(text))
	if err != nil {
		return nil, err.Error(), false
	}
	return b, "", false
}

func errClass(msg string) string {
	// drop positions and quoted names: keep the shape of the message
	if i := strings.Index(msg, ": "); i > 0 && strings.Contains(msg[:i], ".wat:") {
		msg = msg[i+2:]
	}
	var sb strings.Builder
	inq := false
	for _, r := range msg {
		switch {
		case r == '"':
			inq = !inq
			sb.WriteRune('"')
		case inq, r >= '0' && r <= '9':
		case r == ' ':
			sb.WriteRune('_')
		default:
			sb.WriteRune(r)
		}
	}
	s := sb.String()
	if len(s) > 60 {
		s = s[:60]
	}
	return s
}

// oracle evaluates the property on one text.  want is the canonical section
// model of the text (nil: derive it with the strict reader).  It returns the
// violation key ("" = holds), or harness != "" when the harness itself is at
// fault (inconclusive, never a violation).
func oracle(text string, want *watgen.Bin, model *watgen.Module) (key, what, harness string) {
	if want == nil {
		m, err := watgen.ReadWAT([]byte(text))
		if err != nil {
			return "", "", "strict reader cannot read the text: " + err.Error()
		}
		model, want = m, m.Lower()
	}
	class := ""
	if model != nil {
		cl := watgen.Classes(model)
		for _, k := range knownClasses {
			if cl[k.feat] {
				class = k.key
				break
			}
		}
	}
	k := func(s string) string {
		if class != "" {
			return class
		}
		return s
	}
	// reference bytes must be valid (generator / reader self-check)
	ref := want.Encode(watgen.EncodeOptions{Names: true})
	okRef, msgRef, err := node.Validate(ref)
	if err != nil {
		return "", "", "node unavailable: " + err.Error()
	}
	werrRef := watgen.WazeroCompile(ref)
	if !okRef && werrRef != nil {
		return "", "", fmt.Sprintf("reference encoding rejected by both engines (harness bug): v8: %s; wazero: %v", msgRef, werrRef)
	}
	wasm, emsg, panicked := assemble(text)
	if panicked {
		return k("panic/" + errClass(emsg)), "Wat2Wasm panicked: " + emsg, ""
	}
	if wasm == nil {
		return k("rejects-valid/" + errClass(emsg)), "Wat2Wasm rejects a module both engines accept from the reference assembler: " + emsg, ""
	}
	ok, msg, err := node.Validate(wasm)
	if err != nil {
		return "", "", "node unavailable: " + err.Error()
	}
	if !ok {
		if !okRef {
			return "", "", "V8 rejects reference and Wa output alike (engine limitation): " + msg
		}
		return k("invalid/v8"), "V8 rejects Wat2Wasm output: " + msg, ""
	}
	if werr := watgen.WazeroCompile(wasm); werr != nil {
		if werrRef != nil {
			return "", "", "wazero rejects reference and Wa output alike (engine limitation): " + werr.Error()
		}
		return k("invalid/wazero"), "wazero rejects Wat2Wasm output: " + werr.Error(), ""
	}
	got, derr := watgen.Decode(wasm)
	if derr != nil {
		return k("undecodable"), "harness decoder rejects output that V8 accepts: " + derr.Error(), ""
	}
	if d := watgen.Diff(want, got, watgen.DiffOptions{}); len(d) > 0 {
		return k("diff/" + d[0].Section), "differs from the reference assembler: " + joinDiffs(d), ""
	}
	if d := watgen.DiffNames(want.Names, got.Names); len(d) > 0 {
		return k(d[0].Section), "name section: " + joinDiffs(d), ""
	}
	if d := watgen.CheckNameOrder(got.Names); len(d) > 0 {
		return k("names/order"), "name section: " + joinDiffs(d), ""
	}
	return "", "", ""
}

func joinDiffs(d []watgen.Difference) string {
	var s []string
	for i, x := range d {
		if i == 4 {
			s = append(s, fmt.Sprintf("… (%d more)", len(d)-4))
			break
		}
		s = append(s, x.String())
	}
	r := strings.Join(s, " | ")
	if len(r) > 1500 {
		r = r[:1500] + "…"
	}
	return r
}

func disabled(s *core.Stats) map[string]bool {
	dis := map[string]bool{}
	for _, k := range knownClasses {
		if core.IsKnown(prop, k.key) {
			dis[k.feat] = true
			s.Counter("excluded_by_known/"+k.key, 0)
		}
	}
	return dis
}

// ---------------------------------------------------------------- generated modules

func nontrivial(c *watgen.Case) bool {
	f := c.Features
	if len(c.M.Funcs) < 2 {
		return false
	}
	return f[watgen.FeatSeparateType] > 0 && f[watgen.FeatCallIndirect] > 0 ||
		f[watgen.FeatNamedLocals] > 0 && f[watgen.FeatNamedParams] > 0 ||
		f[watgen.FeatStartNonFirst] > 0 ||
		f[watgen.FeatImportFunc] > 0 && f[watgen.FeatStart] > 0 ||
		f[watgen.FeatElem] > 0 || f[watgen.FeatData] > 0 ||
		f[watgen.FeatNestedLabels] > 0 && f[watgen.FeatBrByName] > 0
}

func TestGenerated(t *testing.T) {
	s := core.NewStats(prop, "Generated")
	s.Rule("rapid: watgen module (types, imports, funcs, table+elem, memory+data, globals, exports, start; every spelling choice drawn) → Wat2Wasm must succeed, validate in V8 and wazero, and decode to the section model the text describes (reference = harness assembler calibrated against the stored WABT binaries), name section exact and ordered; non-trivial = ≥2 functions and one of: separate (type) used by call_indirect, named locals and params, start on a non-first function, imports+start, elem/data segments, nested labelled blocks with br by name")
	s.Assume("reference assembler = harness strict reader/encoder/decoder (watgen), byte-identical to WABT 1.0.29 on all 30 stored testdata binaries (re-checked by TestCalibrate in the same run); WABT itself is not installed")
	s.Assume("validator = V8 (node " + "WebAssembly.Module) and vendored wazero CompileModule instead of wasm-validate")
	s.Assume("exports are compared as a set (name → kind,index): export order in the section is not determinable as part of 'the same exports'; an empty else branch is equivalent to none; name subsections other than module/function/local are not compared")
	dis := disabled(s)
	s.Check(t, func(rt *rapid.T, c *core.Case) {
		opt := watgen.Options{Disable: dis, Trap: "any", MemoryInit: !dis[watgen.FeatMemoryInit]}
		switch rapid.IntRange(0, 3).Draw(rt, "mode") {
		case 0:
			opt.Exec, opt.Trampolines = true, true
		case 1:
			opt.Exec, opt.ExportAll = true, true
		}
		g := watgen.Gen(rt, opt)
		c.Set(kase{Source: "watgen", Text: g.Text})
		for _, k := range knownClasses {
			if dis[k.feat] {
				s.Counter("excluded_by_known/"+k.key, 1)
			}
		}
		var fs []string
		for f, n := range g.Features {
			if n > 0 {
				fs = append(fs, f)
			}
		}
		sort.Strings(fs)
		for _, f := range fs {
			c.Class("construct/" + f)
		}
		key, what, harness := oracle(g.Text, g.M.Lower(), g.M)
		if harness != "" {
			rt.Fatalf("HARNESS: %s\n%s", harness, g.Text)
		}
		if key != "" {
			c.Fail(key, "%s\n--- text ---\n%s", what, g.Text)
		}
		if nontrivial(g) {
			c.Nontrivial(g.Text)
		}
	})
}

// ---------------------------------------------------------------- calibration on the stored WABT binaries

func TestCalibrate(t *testing.T) {
	s := core.NewStats(prop, "Calibrate")
	defer s.Flush()
	s.Rule("enumeration of the 30 testdata/*.wat files with their stored WABT 1.0.29 outputs: (a) harness self-calibration — reference assembler reproduces x.wat.noname.wasm byte for byte and its model equals decode(x.wat.wasm) incl. function/local names; (b) differential against real WABT — decode(Wat2Wasm(x.wat)) equals decode(x.wat.wasm) section-wise incl. export order and names; non-trivial = file has ≥1 function")
	s.Exhaustive(true)
	if !core.FirstShard() {
		return
	}
	dir := filepath.Join(core.RepoDir(), "internal/wat/watutil/testdata")
	files, _ := filepath.Glob(filepath.Join(dir, "*.wat"))
	sort.Strings(files)
	if len(files) < 30 {
		t.Fatalf("HARNESS: only %d testdata files found in %s", len(files), dir)
	}
	for _, f := range files {
		base := filepath.Base(f)
		src, _ := os.ReadFile(f)
		stored, e1 := os.ReadFile(f + ".wasm")
		noname, e2 := os.ReadFile(f + ".noname.wasm")
		if e1 != nil || e2 != nil {
			t.Fatalf("HARNESS: stored binaries of %s missing", base)
		}
		sb, err := watgen.Decode(stored)
		if err != nil {
			t.Fatalf("HARNESS: decoder rejects WABT binary %s: %v", base, err)
		}
		nb, err := watgen.Decode(noname)
		if err != nil {
			t.Fatalf("HARNESS: decoder rejects WABT binary %s: %v", base, err)
		}
		m, err := watgen.ReadWAT(src)
		if err != nil {
			t.Fatalf("HARNESS: strict reader rejects %s: %v", base, err)
		}
		want := m.Lower()
		if enc := want.Encode(watgen.EncodeOptions{}); !bytes.Equal(enc, noname) {
			t.Fatalf("HARNESS: reference assembler does not reproduce %s.noname.wasm\n got %x\nwant %x", base, enc, noname)
		}
		if d := watgen.Diff(sb, want, watgen.DiffOptions{Names: true, ExportOrder: true}); len(d) > 0 {
			t.Fatalf("HARNESS: reference model of %s differs from the stored WABT binary: %v", base, d)
		}
		if d := watgen.Diff(nb, sb, watgen.DiffOptions{ExportOrder: true}); len(d) > 0 {
			t.Fatalf("HARNESS: %s: noname and named WABT binaries disagree: %v", base, d)
		}
		if d := watgen.CheckNameOrder(sb.Names); len(d) > 0 {
			t.Fatalf("HARNESS: ordering rule does not hold on WABT's own output %s: %v", base, d)
		}
		if rb, err := watgen.Decode(want.Encode(watgen.EncodeOptions{Names: true})); err != nil || len(watgen.Diff(want, rb, watgen.DiffOptions{Names: true, ExportOrder: true})) > 0 {
			t.Fatalf("HARNESS: encode/decode round trip of %s: %v", base, err)
		}
		// (b) Wa against the real WABT output
		c := s.NewCase(t)
		c.Set(kase{Source: "testdata:" + base, Text: string(src)})
		key, what := calibrateWa(string(src), sb)
		if key != "" {
			c.Fail("testdata/"+key, "%s: %s", base, what)
		}
		c.Class("testdata")
		if len(m.Funcs) > 0 {
			c.Nontrivial(base)
		}
		c.Done()
	}
}

// calibrateWa compares Wa's output with the decoded stored WABT binary.
func calibrateWa(text string, stored *watgen.Bin) (key, what string) {
	wasm, emsg, panicked := assemble(text)
	if panicked {
		return "panic/" + errClass(emsg), "Wat2Wasm panicked: " + emsg
	}
	if wasm == nil {
		return "rejects-valid/" + errClass(emsg), "Wat2Wasm rejects a file WABT assembles: " + emsg
	}
	got, err := watgen.Decode(wasm)
	if err != nil {
		return "undecodable", err.Error()
	}
	if d := watgen.Diff(stored, got, watgen.DiffOptions{ExportOrder: true}); len(d) > 0 {
		return "diff/" + d[0].Section, "differs from the stored WABT binary: " + joinDiffs(d)
	}
	if d := watgen.DiffNames(stored.Names, got.Names); len(d) > 0 {
		return d[0].Section, "name section differs from the stored WABT binary: " + joinDiffs(d)
	}
	if d := watgen.CheckNameOrder(got.Names); len(d) > 0 {
		return "names/order", joinDiffs(d)
	}
	if ok, msg, err := node.Validate(wasm); err == nil && !ok {
		return "invalid/v8", msg
	}
	if err := watgen.WazeroCompile(wasm); err != nil {
		return "invalid/wazero", err.Error()
	}
	return "", ""
}

// ---------------------------------------------------------------- compiler-emitted WAT

var compilerPrograms = []string{
	"waroot/examples/eq.wa", "waroot/examples/struct.wa", "waroot/examples/hello/src/main.wa", "waroot/examples/copy.wa",
	"waroot/examples/strbytes.wa", "waroot/examples/short-var.wa", "waroot/examples/brainfuck.wa", "waroot/examples/fib/fib.wa",
	"waroot/examples/interface_named.wa",
}

func TestCompilerWAT(t *testing.T) {
	s := core.NewStats(prop, "CompilerWAT")
	defer s.Flush()
	s.Rule("enumeration: waroot/examples programs built by the compiler (worker op build) → emitted WAT (≈2 MB, ≈190 functions incl. runtime) through the same oracle with the strict reader as reference; one program per shard; non-trivial = every such module (imports, table+elem, data, named locals, start)")
	sh, n := core.Shard()
	progs := compilerPrograms
	if !core.Thorough() && len(progs) > 3 {
		progs = progs[:3]
	}
	w := wk.New(wk.Options{})
	defer w.Close()
	for i, p := range progs {
		if i%n != sh {
			continue
		}
		src, err := os.ReadFile(filepath.Join(core.RepoDir(), p))
		if err != nil {
			s.Counter("missing_program", 1)
			continue
		}
		o := w.Do("build", wk.Src{Name: filepath.Base(p), Src: string(src)})
		if o.Kind != wk.OK {
			s.Counter("rejected_by_domain/build_failed", 1)
			s.Note("compiler did not build " + p + ": " + o.Kind)
			continue
		}
		var r struct {
			Wat string `json:"wat"`
		}
		if o.Decode(&r) != nil || r.Wat == "" {
			s.Counter("rejected_by_domain/build_failed", 1)
			continue
		}
		c := s.NewCase(t)
		c.Set(kase{Source: "compiler:" + p, Text: r.Wat})
		key, what, harness := oracle(r.Wat, nil, nil)
		if harness != "" {
			s.Counter("unmodelled_by_reference", 1)
			s.Note(p + ": " + harness)
			continue
		}
		if key != "" {
			c.Fail("compiler/"+key, "%s: %s", p, what)
		}
		c.Class("compiler_wat")
		c.Nontrivial(p)
		c.Done()
	}
}

// ---------------------------------------------------------------- replay

func replay(test string, raw json.RawMessage) (string, string) {
	var k kase
	if err := json.Unmarshal(raw, &k); err != nil {
		return "harness/bad-replay", err.Error()
	}
	if strings.HasPrefix(k.Source, "testdata:") {
		f := filepath.Join(core.RepoDir(), "internal/wat/watutil/testdata", strings.TrimPrefix(k.Source, "testdata:"))
		if stored, err := os.ReadFile(f + ".wasm"); err == nil {
			if sb, err := watgen.Decode(stored); err == nil {
				key, what := calibrateWa(k.Text, sb)
				if key != "" {
					key = "testdata/" + key
				}
				return key, what
			}
		}
	}
	key, what, harness := oracle(k.Text, nil, nil)
	if harness != "" {
		return "harness/replay", harness
	}
	if key != "" && strings.HasPrefix(k.Source, "compiler:") {
		key = "compiler/" + key
	}
	return key, what
}

func TestReplay(t *testing.T) { core.RunReplays(t, prop, replay) }
