// Package c19 checks property C19 (LEB128) against a reference codec written
// from the WebAssembly binary-format chapter (values section, "Integers").
package c19

// refEncodeU is the minimal unsigned LEB128 encoding.
func refEncodeU(v uint64) []byte {
	var out []byte
	for {
		b := byte(v & 0x7f)
		v >>= 7
		if v == 0 {
			return append(out, b)
		}
		out = append(out, b|0x80)
	}
}

// refEncodeS is the minimal signed LEB128 encoding.
func refEncodeS(v int64) []byte {
	var out []byte
	for {
		b := byte(v & 0x7f)
		v >>= 7 // arithmetic
		if (v == 0 && b&0x40 == 0) || (v == -1 && b&0x40 != 0) {
			return append(out, b)
		}
		out = append(out, b|0x80)
	}
}

// refDecodeU implements uN: at most ceil(N/7) bytes, and in the last permitted
// byte the bits beyond N must be zero.
func refDecodeU(n uint, p []byte) (val uint64, used int, ok bool) {
	maxLen := int((n + 6) / 7)
	for i := 0; ; i++ {
		if i >= maxLen || i >= len(p) {
			return 0, 0, false
		}
		b := p[i]
		rem := n - uint(7*i) // value bits still available
		if b&0x80 == 0 {
			if rem < 7 && uint(b) >= 1<<rem {
				return 0, 0, false
			}
			return val | uint64(b)<<(7*uint(i)), i + 1, true
		}
		if rem <= 7 { // continuation not allowed in the last permitted byte
			return 0, 0, false
		}
		val |= uint64(b&0x7f) << (7 * uint(i))
	}
}

// refDecodeS implements sN: at most ceil(N/7) bytes, and in the last permitted
// byte the bits beyond N must all equal the sign bit.
func refDecodeS(n uint, p []byte) (val int64, used int, ok bool) {
	maxLen := int((n + 6) / 7)
	var acc uint64
	for i := 0; ; i++ {
		if i >= maxLen || i >= len(p) {
			return 0, 0, false
		}
		b := p[i]
		rem := n - uint(7*i)
		if b&0x80 == 0 {
			if rem < 7 {
				lim := uint(1) << (rem - 1)
				if !(uint(b) < lim || uint(b) >= 128-lim) {
					return 0, 0, false
				}
			}
			acc |= uint64(b) << (7 * uint(i))
			shift := 7 * uint(i+1)
			if b&0x40 != 0 && shift < 64 {
				acc |= ^uint64(0) << shift
			}
			return int64(acc), i + 1, true
		}
		if rem <= 7 {
			return 0, 0, false
		}
		acc |= uint64(b&0x7f) << (7 * uint(i))
	}
}
