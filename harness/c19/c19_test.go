package c19

import (
	"bytes"
	"encoding/hex"
	"encoding/json"
	"fmt"
	"testing"

	"pgregory.net/rapid"
	"wa-lang.org/wa/internal/wasm/leb128"
	"wa-lang.org/wa/zverif/harness/core"
)

const prop = "C19"

func TestMain(m *testing.M) { core.Main(m) }

// ---------------------------------------------------------------- oracle

// kase is the replayable form of one case.
type kase struct {
	Op    string `json:"op"`              // "enc" | "dec"
	Kind  string `json:"kind"`            // u32 i32 i33 u64 i64
	Value string `json:"value,omitempty"` // decimal, for enc
	Bytes string `json:"bytes,omitempty"` // hex, for dec
}

func width(kind string) uint {
	switch kind {
	case "u32", "i32":
		return 32
	case "i33":
		return 33
	}
	return 64
}

// checkEncode returns "" if the property holds for encoding v as kind.
func checkEncode(kind string, u uint64) (key, what string) {
	var got, want []byte
	switch kind {
	case "u32":
		got, want = leb128.EncodeUint32(uint32(u)), refEncodeU(uint64(uint32(u)))
	case "u64":
		got, want = leb128.EncodeUint64(u), refEncodeU(u)
	case "i32":
		got, want = leb128.EncodeInt32(int32(u)), refEncodeS(int64(int32(u)))
	case "i64":
		got, want = leb128.EncodeInt64(int64(u)), refEncodeS(int64(u))
	case "i33": // no encoder in the repo; the reference encoding feeds the decoder
		v := int64(u<<31) >> 31
		got, want = refEncodeS(v), refEncodeS(v)
		u = uint64(v)
	}
	if !bytes.Equal(got, want) {
		return "enc/" + kind + "/not-minimal", fmt.Sprintf("Encode(%s %d) = %x, minimal LEB128 is %x", kind, u, got, want)
	}
	// decode back: same value, same byte count, with and without trailing bytes
	for _, tail := range [][]byte{nil, {0x80, 0x01}} {
		in := append(append([]byte{}, got...), tail...)
		if k, w := checkDecode(kind, in); k != "" {
			return k, w
		}
		val, n, ok := refDecode(kind, in)
		if !ok || n != len(got) || !sameValue(kind, val, u) {
			return "harness/ref", fmt.Sprintf("reference codec does not round-trip %s %d", kind, u)
		}
	}
	return "", ""
}

func sameValue(kind string, dec uint64, orig uint64) bool {
	switch kind {
	case "u32":
		return uint32(dec) == uint32(orig)
	case "i32":
		return int32(dec) == int32(orig)
	}
	return dec == orig
}

func refDecode(kind string, p []byte) (uint64, int, bool) {
	switch kind {
	case "u32", "u64":
		return refDecodeU(width(kind), p)
	}
	v, n, ok := refDecodeS(width(kind), p)
	return uint64(v), n, ok
}

type waDec struct {
	name string
	val  uint64
	n    uint64
	err  error
}

func waDecode(kind string, p []byte) []waDec {
	var out []waDec
	switch kind {
	case "u32":
		v, n, err := leb128.LoadUint32(p)
		out = append(out, waDec{"LoadUint32", uint64(v), n, err})
		v, n, err = leb128.DecodeUint32(bytes.NewReader(p))
		out = append(out, waDec{"DecodeUint32", uint64(v), n, err})
	case "i32":
		v, n, err := leb128.LoadInt32(p)
		out = append(out, waDec{"LoadInt32", uint64(int64(v)), n, err})
		v, n, err = leb128.DecodeInt32(bytes.NewReader(p))
		out = append(out, waDec{"DecodeInt32", uint64(int64(v)), n, err})
	case "i33":
		v, n, err := leb128.DecodeInt33AsInt64(bytes.NewReader(p))
		out = append(out, waDec{"DecodeInt33AsInt64", uint64(v), n, err})
	case "i64":
		v, n, err := leb128.LoadInt64(p)
		out = append(out, waDec{"LoadInt64", uint64(v), n, err})
		v, n, err = leb128.DecodeInt64(bytes.NewReader(p))
		out = append(out, waDec{"DecodeInt64", uint64(v), n, err})
	}
	return out
}

// checkDecode: Wa accepts iff the spec accepts, with the same value and length.
// u64 has no decoder in the repo and is skipped.
func checkDecode(kind string, p []byte) (key, what string) {
	rv, rn, rok := refDecode(kind, p)
	for _, d := range waDecode(kind, p) {
		switch {
		case rok && d.err != nil:
			return "dec/" + kind + "/rejects-valid", fmt.Sprintf("%s(%x) = error %v; spec value %d in %d bytes", d.name, p, d.err, int64(rv), rn)
		case !rok && d.err == nil:
			return "dec/" + kind + "/accepts-invalid/" + whyKey(kind, p), fmt.Sprintf("%s(%x) = %d (%d bytes); the spec rejects this sequence (%s)", d.name, p, int64(d.val), d.n, whyInvalid(kind, p))
		case rok && (d.val != signFix(kind, rv) || int(d.n) != rn):
			return "dec/" + kind + "/wrong-value", fmt.Sprintf("%s(%x) = %d (%d bytes); spec: %d (%d bytes)", d.name, p, int64(d.val), d.n, int64(rv), rn)
		}
	}
	return "", ""
}

func signFix(kind string, v uint64) uint64 {
	if kind == "u32" {
		return uint64(uint32(v))
	}
	return v
}

func whyKey(kind string, p []byte) string {
	switch whyInvalid(kind, p) {
	case "truncated":
		return "truncated"
	case "too long":
		return "too-long"
	}
	return "unused-bits"
}

func whyInvalid(kind string, p []byte) string {
	maxLen := int((width(kind) + 6) / 7)
	for i, b := range p {
		if i >= maxLen {
			break
		}
		if b&0x80 == 0 {
			return "unused high bits of the last byte are inconsistent"
		}
	}
	if len(p) < maxLen {
		return "truncated"
	}
	return "too long"
}

// ---------------------------------------------------------------- generators

var kinds = []string{"u32", "i32", "i33", "u64", "i64"}
var decKinds = []string{"u32", "i32", "i33", "i64"}

// boundary-biased 64-bit values: ±2^(7k)±1, type limits, random.
func genValue() *rapid.Generator[uint64] {
	return rapid.Custom(func(t *rapid.T) uint64 {
		switch rapid.IntRange(0, 4).Draw(t, "vclass") {
		case 0:
			k := rapid.UintRange(0, 64).Draw(t, "k")
			d := rapid.Int64Range(-2, 2).Draw(t, "d")
			var base uint64
			if k < 64 {
				base = 1 << k
			}
			v := base + uint64(d)
			if rapid.Bool().Draw(t, "neg") {
				v = -v
			}
			return v
		case 1:
			lims := []uint64{0, 1<<31 - 1, 1 << 31, 1<<32 - 1, 1 << 32, 1<<63 - 1, 1 << 63, ^uint64(0),
				uint64(1<<32 - 1), uint64(0xffffffff80000000), uint64(0xffffffff00000000)}
			return rapid.SampledFrom(lims).Draw(t, "lim") + uint64(rapid.Int64Range(-1, 1).Draw(t, "d"))
		case 2:
			return uint64(rapid.Int64Range(-200, 200).Draw(t, "small"))
		default:
			return rapid.Uint64().Draw(t, "any")
		}
	})
}

func needsMaxBytes(kind string, enc []byte) bool {
	return len(enc) == int((width(kind)+6)/7)
}

func nearGroupBoundary(u uint64) bool {
	for _, v := range []uint64{u, -u} {
		for k := uint(7); k < 64; k += 7 {
			if d := v - (1 << k); d+1 <= 2 {
				return true
			}
		}
	}
	return false
}

// structured byte strings: k continuation bytes, a final byte over all values,
// then trailing garbage; also plainly truncated inputs.
func genBytes() *rapid.Generator[[]byte] {
	return rapid.Custom(func(t *rapid.T) []byte {
		k := rapid.IntRange(0, 11).Draw(t, "ncont")
		var p []byte
		for i := 0; i < k; i++ {
			pay := byte(rapid.SampledFrom([]int{0, 0x7f, 0x40, 0x3f, 1, -1}).Draw(t, "pay"))
			if pay == 0xff {
				pay = rapid.Byte().Draw(t, "payany")
			}
			p = append(p, pay|0x80)
		}
		if rapid.IntRange(0, 9).Draw(t, "trunc") != 0 {
			p = append(p, rapid.Byte().Draw(t, "final")&0x7f)
			p = append(p, rapid.SliceOfN(rapid.Byte(), 0, 2).Draw(t, "tail")...)
		}
		return p
	})
}

// ---------------------------------------------------------------- tests

func TestEncodeRoundTrip(t *testing.T) {
	s := core.NewStats(prop, "EncodeRoundTrip")
	s.Rule("rapid: kind ∈ {u32,i32,i33,u64,i64} × boundary-biased value; oracle = spec reference codec (minimal encoding byte-equal, decode(encode(v)) = (v,len), slice and reader decoders agree); non-trivial = value needs the maximum byte count or lies within 1 of a 7-bit group boundary")
	s.Check(t, func(t *rapid.T, c *core.Case) {
		kind := rapid.SampledFrom(kinds).Draw(t, "kind")
		u := genValue().Draw(t, "v")
		c.Set(kase{Op: "enc", Kind: kind, Value: fmt.Sprint(u)})
		c.Class(kind)
		if key, what := checkEncode(kind, u); key != "" {
			c.Fail(key, "%s", what)
		}
		var enc []byte
		switch kind {
		case "u32":
			enc = refEncodeU(uint64(uint32(u)))
		case "u64":
			enc = refEncodeU(u)
		case "i32":
			enc = refEncodeS(int64(int32(u)))
		case "i33":
			enc = refEncodeS(int64(u<<31) >> 31)
		default:
			enc = refEncodeS(int64(u))
		}
		if needsMaxBytes(kind, enc) || nearGroupBoundary(u) {
			c.Nontrivial(kind, hex.EncodeToString(enc))
		}
	})
}

func TestDecodeStructured(t *testing.T) {
	s := core.NewStats(prop, "DecodeStructured")
	s.Rule("rapid: byte strings = k∈[0,11] continuation bytes + final byte + 0..2 trailing bytes (or truncated) × decoder ∈ {u32,i32,i33,i64}; oracle = Wa accepts ⇔ spec reference accepts, values and lengths equal, Load*/Decode* agree; non-trivial = sequence is over-long, non-canonical, has inconsistent unused bits, or uses the maximum byte count")
	s.Check(t, func(t *rapid.T, c *core.Case) {
		kind := rapid.SampledFrom(decKinds).Draw(t, "kind")
		p := genBytes().Draw(t, "bytes")
		c.Set(kase{Op: "dec", Kind: kind, Bytes: hex.EncodeToString(p)})
		_, n, ok := refDecode(kind, p)
		if ok {
			c.Class(kind + "/valid")
		} else {
			c.Class(kind + "/invalid:" + whyInvalid(kind, p))
		}
		if key, what := checkDecode(kind, p); key != "" {
			c.Fail(key, "%s", what)
		}
		if !ok || n == int((width(kind)+6)/7) || (ok && !bytes.Equal(p[:n], minimalOf(kind, p))) {
			c.Nontrivial(kind, hex.EncodeToString(p))
		}
	})
}

func minimalOf(kind string, p []byte) []byte {
	v, _, ok := refDecode(kind, p)
	if !ok {
		return nil
	}
	if kind == "u32" || kind == "u64" {
		return refEncodeU(v)
	}
	return refEncodeS(int64(v))
}

// All byte sequences of length ≤ 3 (exhaustive), for every decoder; sharded by
// first byte.
func TestDecodeExhaustiveShort(t *testing.T) {
	s := core.NewStats(prop, "DecodeExhaustiveShort")
	defer s.Flush()
	s.Rule("enumeration of every byte sequence of length 0..3 × 4 decoders (exhaustive); non-trivial = non-canonical (padded) but valid, or truncated")
	s.Exhaustive(true)
	sh, n := core.Shard()
	var buf [3]byte
	evals, nontriv := int64(0), 0
	try := func(p []byte) {
		for _, kind := range decKinds {
			evals++
			if key, what := checkDecode(kind, p); key != "" {
				c := s.NewCase(t)
				c.Set(kase{Op: "dec", Kind: kind, Bytes: hex.EncodeToString(p)})
				c.Fail(key, "%s", what)
			}
		}
		if _, un, ok := refDecodeU(32, p); !ok || !bytes.Equal(refEncodeU(func() uint64 { v, _, _ := refDecodeU(32, p); return v }()), p[:un]) {
			nontriv++
			if nontriv%4096 == 1 {
				s.Nontrivial(core.Hash64(p))
				s.Sample(kase{Op: "dec", Kind: "all", Bytes: hex.EncodeToString(p)})
			}
		}
	}
	if sh == 0 {
		try(nil)
	}
	for a := sh; a < 256; a += n {
		buf[0] = byte(a)
		try(buf[:1])
		for b := 0; b < 256; b++ {
			buf[1] = byte(b)
			try(buf[:2])
			for c := 0; c < 256; c++ {
				buf[2] = byte(c)
				try(buf[:3])
			}
		}
	}
	s.Eval(evals)
	s.Counter("nontrivial_sequences_enumerated", int64(nontriv))
}

// Exhaustive 2^32 sweep of the 32-bit codecs (thorough), boundary windows in quick.
func TestEncode32Sweep(t *testing.T) {
	s := core.NewStats(prop, "Encode32Sweep")
	defer s.Flush()
	sh, n := core.Shard()
	check := func(u uint32) {
		for _, kind := range []string{"u32", "i32"} {
			if key, what := checkEncode(kind, uint64(u)); key != "" {
				c := s.NewCase(t)
				c.Set(kase{Op: "enc", Kind: kind, Value: fmt.Sprint(u)})
				c.Fail(key, "%s", what)
			}
		}
	}
	var evals int64
	if core.Thorough() {
		s.Rule("enumeration of all 2^32 values through EncodeUint32/EncodeInt32 and back (exhaustive); non-trivial = value within 2 of a 7-bit group boundary (counted exactly)")
		s.Exhaustive(true)
		lo := uint64(sh) << 32 / uint64(n)
		hi := uint64(sh+1) << 32 / uint64(n)
		for u := lo; u < hi; u++ {
			check(uint32(u))
			evals += 2
		}
	} else {
		s.Rule("enumeration of all 32-bit values within ±4096 of every 2^k and of 0/2^32 wrap (quick tier window of the thorough tier's exhaustive 2^32 sweep); non-trivial = value within 2 of a 7-bit group boundary")
		for k := uint(0); k <= 32; k++ {
			if int(k)%n != sh {
				continue
			}
			base := uint32(uint64(1) << k)
			for d := -4096; d <= 4096; d++ {
				check(base + uint32(d))
				evals += 2
			}
		}
	}
	s.Eval(evals)
	for k := uint(7); k < 32; k += 7 {
		if int(k)%n != sh && !core.Thorough() {
			continue
		}
		for d := -2; d <= 2; d++ {
			v := uint32(1<<k) + uint32(d)
			if core.Thorough() && (uint64(v) < uint64(sh)<<32/uint64(n) || uint64(v) >= uint64(sh+1)<<32/uint64(n)) {
				continue
			}
			s.Nontrivial(core.Hash64("u32", v))
			s.Nontrivial(core.Hash64("i32", v))
			s.Sample(kase{Op: "enc", Kind: "i32", Value: fmt.Sprint(int32(v))})
		}
	}
}

// ---------------------------------------------------------------- replay

func replay(test string, raw json.RawMessage) (string, string) {
	var k kase
	if err := json.Unmarshal(raw, &k); err != nil {
		return "harness/bad-replay", err.Error()
	}
	if k.Op == "enc" {
		var u uint64
		var i int64
		if _, err := fmt.Sscan(k.Value, &u); err != nil {
			fmt.Sscan(k.Value, &i)
			u = uint64(i)
		}
		return checkEncode(k.Kind, u)
	}
	p, _ := hex.DecodeString(k.Bytes)
	return checkDecode(k.Kind, p)
}

func TestReplay(t *testing.T) { core.RunReplays(t, prop, replay) }
