package wagen

import (
	"bytes"
	"fmt"
	"os"
	"os/exec"
	"path/filepath"
	"time"
)

// GoResult is the outcome of building and running the Go rendering.
type GoResult struct {
	BuildErr string // non-empty: the Go toolchain rejected the program (a generator bug)
	RunErr   string // non-empty: the program panicked / exited non-zero / timed out (outside the domain)
	Stdout   string
}

// RunGo builds the Go rendering with the real toolchain and runs it.
func RunGo(src string) GoResult {
	dir, err := os.MkdirTemp("", "wagen-go-")
	if err != nil {
		return GoResult{BuildErr: "mkdtemp: " + err.Error()}
	}
	defer os.RemoveAll(dir)
	file := filepath.Join(dir, "p.go")
	if err := os.WriteFile(file, []byte(src), 0o644); err != nil {
		return GoResult{BuildErr: err.Error()}
	}
	bin := filepath.Join(dir, "p")
	cmd := exec.Command("go", "build", "-o", bin, file)
	cmd.Dir = dir
	cmd.Env = append(os.Environ(), "GOFLAGS=", "GO111MODULE=off", "GOPROXY=off", "GOTOOLCHAIN=local", "CGO_ENABLED=0")
	if out, err := cmd.CombinedOutput(); err != nil {
		return GoResult{BuildErr: fmt.Sprintf("%v\n%s", err, out)}
	}
	run := exec.Command(bin)
	var stdout, stderr bytes.Buffer
	run.Stdout, run.Stderr = &stdout, &stderr
	if err := run.Start(); err != nil {
		return GoResult{RunErr: err.Error()}
	}
	done := make(chan error, 1)
	go func() { done <- run.Wait() }()
	select {
	case err := <-done:
		if err != nil {
			return GoResult{RunErr: fmt.Sprintf("%v\n%s", err, tailStr(stderr.String(), 2000)), Stdout: stdout.String()}
		}
	case <-time.After(120 * time.Second):
		run.Process.Kill()
		<-done
		return GoResult{RunErr: "timeout", Stdout: stdout.String()}
	}
	return GoResult{Stdout: stdout.String()}
}

func tailStr(s string, n int) string {
	if len(s) > n {
		return s[len(s)-n:]
	}
	return s
}
