package wagen

import (
	"fmt"
)

// ---------------------------------------------------------------- printing / uses

func printCall(args ...Tri) Tri {
	j := join(args, ", ")
	return Tri{"println(" + j[Wa] + ")", "输出(" + j[Wz] + ")", "println(" + j[Go] + ")"}
}

// printable converts a scalar expression to something println shows identically everywhere.
func printable(e Tri, t *Type) Tri { return e }

// use prints the observable content of a variable (also silences "declared and not used").
func (g *G) use(v *Var) Tri {
	return g.useExpr(same(v.Name), v.T, 2, v)
}

func (g *G) useExpr(e Tri, t *Type, d int, root *Var) Tri {
	tag := same(quote(e[Wa]))
	switch t.K {
	case KStruct:
		var ls []Tri
		for _, f := range t.Fields {
			ls = append(ls, g.useExpr(sel(e, f.Name), f.T, d-1, root))
		}
		return lines(ls...)
	case KPtr:
		var ls []Tri
		for _, f := range t.Elem.Fields {
			if f.T.IsScalar() {
				ls = append(ls, printCall(tag, sel(e, f.Name)))
			}
		}
		if len(ls) == 0 {
			return tf("_ = %s", e)
		}
		return lines(ls...)
	case KArray:
		if !t.Elem.IsScalar() {
			var ls []Tri
			for k := 0; k < t.N; k++ {
				ls = append(ls, g.useExpr(tf("%s[%d]", e, k), t.Elem, d-1, root))
			}
			return lines(ls...)
		}
		var es []Tri
		es = append(es, tag)
		for k := 0; k < t.N; k++ {
			es = append(es, tf("%s[%d]", e, k))
		}
		return printCall(es...)
	case KSlice:
		iv := g.fresh("el")
		body := printCall(tag, same(iv))
		if !t.Elem.IsScalar() {
			body = g.useExpr(same(iv), t.Elem, d-1, nil)
		}
		return lines(printCall(tag, lenOf(e)),
			block(Tri{"for _, " + iv + " := range " + e[Wa], "循环 _, " + iv + " := 迭代 " + e[Wz], "for _, " + iv + " := range " + e[Go]}, body))
	case KMap:
		return lines(printCall(tag, lenOf(e)), g.mapDigest(e, t))
	case KIface:
		m := t.Methods[0]
		var as []Tri
		for _, p := range m.Params {
			as = append(as, g.typedConst(p))
		}
		return printCall(tag, tf("%s(%s)", sel(e, m.Name), join(as, ", ")))
	case KFunc:
		return tf("_ = %s", e)
	}
	return printCall(tag, e)
}

// typedConst is a fixed literal of scalar type t (no draws: used by use()).
func (g *G) typedConst(t *Type) Tri {
	switch {
	case t.K == KBool:
		return tl("true", "真", "true")
	case t.K == KString:
		return same(`"k"`)
	}
	return same("3")
}

// mapDigest ranges over a map accumulating an order-independent digest.
func (g *G) mapDigest(m Tri, t *Type) Tri {
	g.feat("map-range")
	acc, k, v := g.fresh("acc"), g.fresh("k"), g.fresh("e")
	cnt := g.fresh("cnt")
	var contrib Tri
	kh := g.hashOf(same(k), t.Key)
	vh := g.hashOf(same(v), t.Elem)
	contrib = tf("%s += (%s + 1) * (%s + 7)", acc, kh, vh)
	i64 := TI64.Tri()
	head := Tri{"for " + k + ", " + v + " := range " + m[Wa], "循环 " + k + ", " + v + " := 迭代 " + m[Wz], "for " + k + ", " + v + " := range " + m[Go]}
	return lines(
		Tri{acc + ": " + i64[Wa] + " = 0", "设定 " + acc + ": " + i64[Wz] + " = 0", "var " + acc + " " + i64[Go] + " = 0"},
		Tri{cnt + ": " + i64[Wa] + " = 0", "设定 " + cnt + ": " + i64[Wz] + " = 0", "var " + cnt + " " + i64[Go] + " = 0"},
		block(head, lines(tf("_, _ = %s, %s", k, v), contrib, tf("%s++", cnt))),
		printCall(same(quote("digest "+m[Wa])), same(acc), same(cnt)))
}

// hashOf folds a scalar / struct value into an i64 expression.
func (g *G) hashOf(e Tri, t *Type) Tri {
	i64 := TI64.Tri()
	switch {
	case t.K == KBool:
		g.helper("b2i", tl(
			"func b2i(b: bool) => i64 {\n\tif b {\n\t\treturn 1\n\t}\n\treturn 0\n}",
			"函数·b2i(b: 布尔) => 长整型:\n\t如果 b:\n\t\t返回 1\n\t完毕\n\t返回 0\n完毕",
			"func b2i(b bool) int64 {\n\tif b {\n\t\treturn 1\n\t}\n\treturn 0\n}"))
		return tf("b2i(%s)", e)
	case t.K == KString:
		g.helper("shash", tl(
			"func shash(s: string) => i64 {\n\th: i64 = 17\n\tfor i := 0; i < len(s); i++ {\n\t\th = h*31 + i64(s[i])\n\t}\n\treturn h\n}",
			"函数·shash(s: 字串) => 长整型:\n\t设定 h: 长整型 = 17\n\t循环 i := 0; i < 长度(s); i++:\n\t\th = h*31 + 长整型(s[i])\n\t完毕\n\t返回 h\n完毕",
			"func shash(s string) int64 {\n\tvar h int64 = 17\n\tfor i := 0; i < len(s); i++ {\n\t\th = h*31 + int64(s[i])\n\t}\n\treturn h\n}"))
		return tf("shash(%s)", e)
	case t.IsFloat():
		g.needFclamp()
		return tf("%s(fclamp(%s(%s), -1e15, 1e15))", i64, TF64.Tri(), e)
	case t.IsInt():
		return tf("%s(%s)", i64, e)
	case t.K == KStruct:
		out := same("0")
		for _, f := range t.Fields {
			if f.T.IsScalar() || f.T.K == KStruct {
				out = tf("(%s*3 + %s)", out, g.hashOf(sel(e, f.Name), f.T))
			}
		}
		return out
	case t.K == KArray && t.Elem.IsScalar():
		out := same("0")
		for k := 0; k < t.N; k++ {
			out = tf("(%s*5 + %s)", out, g.hashOf(tf("%s[%d]", e, k), t.Elem))
		}
		return out
	}
	return same("1")
}

// ---------------------------------------------------------------- declarations

func declLocal(name string, t *Type, init Tri) Tri {
	tt := t.Tri()
	return Tri{name + ": " + tt[Wa] + " = " + init[Wa], "设定 " + name + ": " + tt[Wz] + " = " + init[Wz], "var " + name + " " + tt[Go] + " = " + init[Go]}
}

func declLocalZero(name string, t *Type) Tri {
	tt := t.Tri()
	return Tri{name + ": " + tt[Wa], "设定 " + name + ": " + tt[Wz], "var " + name + " " + tt[Go]}
}

func (g *G) pickType(label string) *Type {
	switch g.n(0, 9, label) {
	case 0, 1, 2, 3, 4:
		return scalarTypes[g.n(0, len(scalarTypes)-1, "scalarT")]
	case 5:
		return &Type{K: KArray, N: g.n(1, 4, "arrN"), Elem: scalarTypes[g.n(0, len(scalarTypes)-1, "arrE")]}
	case 6:
		return &Type{K: KSlice, Elem: scalarTypes[g.n(0, len(scalarTypes)-1, "slE")]}
	case 7:
		if len(g.structs) > 0 && g.allow("struct") {
			return g.structs[g.n(0, len(g.structs)-1, "structT")]
		}
	case 8:
		if g.allow("map") {
			keys := []*Type{TI32, TString, TU8, TI64, TBool, TInt, TU32}
			var elem *Type = scalarTypes[g.n(0, len(scalarTypes)-1, "mapE")]
			if len(g.structs) > 0 && g.chance(1, 4, "mapStructVal") {
				if st := g.structs[g.n(0, len(g.structs)-1, "mapS")]; !g.hasPtrField(st) {
					elem = st
				}
			}
			return &Type{K: KMap, Key: keys[g.n(0, len(keys)-1, "mapK")], Elem: elem}
		}
	case 9:
		if len(g.structs) > 0 && g.allow("struct") {
			return &Type{K: KPtr, Elem: g.structs[g.n(0, len(g.structs)-1, "ptrT")]}
		}
	}
	return scalarTypes[g.n(0, len(scalarTypes)-1, "scalarT2")]
}

func staticLen(t *Type, lit Tri) int { return 0 }

// stDecl declares a new local.
func (g *G) stDecl() Tri {
	t := g.pickType("declT")
	name := g.freshVar()
	// deliberate shadowing of an outer name
	if g.sc.parent != nil && g.chance(1, 8, "shadow") {
		// loop variables are textually in the loop body's block in the Go rendering: never shadow them
		outer := g.varsOf(func(v *Var) bool { return !v.Global && !v.RO && !g.declaredHere(v.Name) && v.Level == g.level })
		if len(outer) > 0 {
			name = outer[g.n(0, len(outer)-1, "shadowOf")].Name
			g.feat("shadowing")
		}
	}
	v := &Var{Name: name, T: t}
	var out Tri
	switch {
	case t.IsScalar():
		e := g.gen(t, g.opt.Depth)
		if t.K == KString && !e.Const {
			g.needScap()
			e.E = tf("scap(%s)", e.E)
		}
		if !e.Const && g.coin("short") {
			out = tf("%s := %s", name, e.E)
			if t.K != KBool && t.K != KString { // make the type explicit: x := T(e)
				out = tf("%s := %s(%s)", name, t.Tri(), e.E)
			}
		} else {
			out = declLocal(name, t, e.E)
		}
	case t.K == KSlice:
		switch g.n(0, 2, "sliceInit") {
		case 0:
			n := g.n(0, 4, "slen")
			var es []Tri
			for i := 0; i < n; i++ {
				es = append(es, g.literal(t.Elem).E)
			}
			out = tf("%s := %s{%s}", name, t.Tri(), join(es, ", "))
			v.MinLen = n
		case 1:
			n, c := g.n(0, 3, "mklen"), g.n(0, 3, "mkextra")
			out = tf("%s := %s(%s, %d, %d)", name, tl("make", "构建", "make"), t.Tri(), n, n+c)
			v.MinLen = n
			g.feat("make")
		default:
			out = declLocalZero(name, t) // nil slice
		}
	case t.K == KMap:
		if g.coin("mapMake") {
			out = tf("%s := %s(%s)", name, tl("make", "构建", "make"), t.Tri())
		} else {
			out = tf("%s := %s", name, g.zeroValue(t))
		}
		g.feat("map-ops")
	case t.K == KPtr:
		out = tf("%s := %s", name, g.value(t, 1))
		g.feat("ptr-mutation")
	case t.K == KStruct:
		if g.coin("structZero") {
			out = declLocalZero(name, t)
			if g.hasPtrField(t) {
				out = tf("%s := %s", name, g.zeroValue(t))
			}
		} else {
			out = tf("%s := %s", name, g.value(t, 1))
			g.feat("struct-copy")
		}
	case t.K == KArray:
		if g.coin("arrZero") {
			out = declLocalZero(name, t)
		} else {
			out = tf("%s := %s", name, g.value(t, 1))
			g.feat("array-value-copy")
		}
	default:
		out = tf("%s := %s", name, g.value(t, 1))
	}
	g.declare(v)
	return out
}

func (g *G) hasPtrField(t *Type) bool {
	for _, f := range t.Fields {
		if f.T.K == KPtr || (f.T.K == KStruct && g.hasPtrField(f.T)) {
			return true
		}
	}
	return false
}

func (g *G) declaredHere(name string) bool {
	for _, v := range g.sc.vars {
		if v.Name == name {
			return true
		}
	}
	return false
}

// stAssign assigns to an existing scalar place.
func (g *G) stAssign() Tri {
	t := scalarTypes[g.n(0, len(scalarTypes)-1, "asT")]
	ps := g.places(t, true)
	if len(ps) == 0 {
		return g.stPrint()
	}
	p := ps[g.n(0, len(ps)-1, "asP")]
	if p.Root != nil && p.Root.Global {
		g.feat("global-write")
	}
	switch {
	case t.IsInt():
		switch g.n(0, 5, "asForm") {
		case 0:
			return tf("%s = %s", p.E, g.gen(t, g.opt.Depth).E)
		case 1:
			op := []string{"+=", "-=", "*=", "|=", "&=", "^=", "&^="}[g.n(0, 6, "opas")]
			return tf("%s %s %s", p.E, op, g.gen(t, g.opt.Depth-1).E)
		case 2:
			return tf("%s%s", p.E, []string{"++", "--"}[g.n(0, 1, "incdec")])
		case 3:
			g.feat("divrem")
			b := g.nonConst(t)
			div := tf("(%s | 1)", b.E)
			if t.Signed() && g.excl(ExclMinDivNeg1) {
				div = tf("((%s & %d) | 1)", b.E, maxOf(t)>>1)
			}
			return tf("%s %s %s", p.E, []string{"/=", "%="}[g.n(0, 1, "divas")], div)
		case 4:
			g.feat("shift")
			hi := int(t.Bits()) + 3
			if g.excl(ExclShiftGEWidth) {
				hi = int(t.Bits()) - 1
			}
			return tf("%s %s %d", p.E, []string{"<<=", ">>="}[g.n(0, 1, "shas")], g.n(0, hi, "shcnt"))
		}
		return tf("%s = %s", p.E, g.gen(t, g.opt.Depth).E)
	case t.IsFloat():
		if g.coin("fopas") {
			return tf("%s %s %s", p.E, []string{"+=", "-=", "*=", "/="}[g.n(0, 3, "fopasop")], g.gen(t, g.opt.Depth-1).E)
		}
	case t.K == KString:
		// every assignment to a string variable goes through scap(): statements may run
		// many times (loops, repeated calls), and s = s + s would double the output volume each time
		g.needScap()
		if g.coin("sopas") {
			g.feat("string-op")
			return lines(tf("%s += %s", p.E, g.gen(t, 1).E), tf("%s = scap(%s)", p.E, p.E))
		}
		return tf("%s = scap(%s)", p.E, g.gen(t, g.opt.Depth).E)
	}
	return tf("%s = %s", p.E, g.gen(t, g.opt.Depth).E)
}

// ifaceArg is an expression passed where an untyped constant would take its
// default type (println arguments): constants are converted explicitly.
func (g *G) ifaceArg(t *Type, d int) Tri {
	e := g.gen(t, d)
	if e.Const && t.IsNum() {
		return tf("%s(%s)", t.Tri(), e.E)
	}
	return e.E
}

func (g *G) stPrint() Tri {
	n := g.n(1, 3, "nprint")
	var as []Tri
	for i := 0; i < n; i++ {
		t := scalarTypes[g.n(0, len(scalarTypes)-1, "prT")]
		as = append(as, g.ifaceArg(t, g.opt.Depth))
	}
	return printCall(as...)
}

// body generates n statements in a fresh scope and appends uses of the
// variables declared in it.
func (g *G) body(n int, extra func() Tri) Tri {
	g.push()
	var ls []Tri
	for i := 0; i < n; i++ {
		ls = append(ls, g.stmt())
	}
	if extra != nil {
		ls = append(ls, extra())
	}
	ls = append(ls, g.usesOfScope())
	g.pop()
	out := lines(ls...)
	if out[Wa] == "" {
		out = printCall(same(`"."`))
	}
	return out
}

func (g *G) usesOfScope() Tri {
	var ls []Tri
	seen := map[string]bool{}
	for i := len(g.sc.vars) - 1; i >= 0; i-- {
		v := g.sc.vars[i]
		if seen[v.Name] || v.NoUse {
			continue
		}
		seen[v.Name] = true
		ls = append(ls, g.use(v))
	}
	return lines(ls...)
}

func (g *G) small() int {
	if g.budget <= 0 {
		return 0
	}
	n := g.n(1, 3, "blockLen")
	if n > g.budget {
		n = g.budget
	}
	return n
}

func (g *G) stIf() Tri {
	g.feat("if")
	cond := g.gen(TBool, g.opt.Depth).E
	head := Tri{"if " + cond[Wa], "如果 " + cond[Wz], "if " + cond[Go]}
	then := indent(g.body(g.small(), nil))
	out := Tri{head[Wa] + " {\n" + then[Wa] + "\n}", head[Wz] + ":\n" + then[Wz], head[Go] + " {\n" + then[Go] + "\n}"}
	for i, n := 0, g.n(0, 2, "elseifs"); i < n && g.budget > 0; i++ {
		c := g.gen(TBool, g.opt.Depth-1).E
		b := indent(g.body(g.small(), nil))
		out = Tri{out[Wa] + " else if " + c[Wa] + " {\n" + b[Wa] + "\n}", out[Wz] + "\n或者 " + c[Wz] + ":\n" + b[Wz], out[Go] + " else if " + c[Go] + " {\n" + b[Go] + "\n}"}
	}
	if g.coin("else") {
		b := indent(g.body(g.small(), nil))
		out = Tri{out[Wa] + " else {\n" + b[Wa] + "\n}", out[Wz] + "\n否则:\n" + b[Wz], out[Go] + " else {\n" + b[Go] + "\n}"}
	}
	out[Wz] += "\n完毕"
	return out
}

// loopBody wraps body generation with loop bookkeeping.
func (g *G) loopBody(trip int, label string, pre func() Tri) Tri {
	g.loops++
	old := g.trip
	g.trip *= trip
	if g.trip < 1 {
		g.trip = 1
	}
	g.push()
	var ls []Tri
	if pre != nil {
		ls = append(ls, pre())
	}
	n := g.small()
	for i := 0; i < n; i++ {
		ls = append(ls, g.stmt())
	}
	// guarded break / continue
	if g.chance(1, 3, "brk") {
		c := g.gen(TBool, 2).E
		kw := tl("break", "跳出", "break")
		if g.coin("cont") {
			kw = tl("continue", "继续", "continue")
		}
		if len(g.labels) > 0 && g.coin("useLabel") {
			kw = tf("%s %s", kw, g.labels[g.n(0, len(g.labels)-1, "whichLabel")])
			g.feat("labelled-branch")
		}
		g.feat("break-continue")
		ls = append(ls, block(Tri{"if " + c[Wa], "如果 " + c[Wz], "if " + c[Go]}, kw))
		if g.budget > 0 {
			ls = append(ls, g.stmt())
		}
	}
	ls = append(ls, g.usesOfScope())
	g.pop()
	g.trip = old
	g.loops--
	return lines(ls...)
}

func (g *G) stFor() Tri {
	if g.trip > 12 {
		return g.stAssign()
	}
	g.feat("for")
	iv := g.freshVar()
	trip := g.n(0, 4, "trip")
	it := []*Type{TInt, TI32, TU8, TI64}[g.n(0, 3, "ivT")]
	g.push()
	g.declare(&Var{Name: iv, T: it, RO: true, NoUse: true})
	label := ""
	if !g.opt.NoLabels && g.chance(1, 5, "label") {
		g.labelN++
		label = fmt.Sprintf("L%d", g.labelN)
	}
	if label != "" {
		g.labels = append(g.labels, label)
	}
	body := g.loopBody(trip, label, nil)
	if label != "" {
		g.labels = g.labels[:len(g.labels)-1]
	}
	g.pop()
	tt := it.Tri()
	var head Tri
	switch g.n(0, 2, "forForm") {
	case 0: // counting up
		head = Tri{
			fmt.Sprintf("for %s := %s(0); %s < %d; %s++", iv, tt[Wa], iv, trip, iv),
			fmt.Sprintf("循环 %s := %s(0); %s < %d; %s++", iv, tt[Wz], iv, trip, iv),
			fmt.Sprintf("for %s := %s(0); %s < %d; %s++", iv, tt[Go], iv, trip, iv)}
	case 1: // counting down with step
		head = Tri{
			fmt.Sprintf("for %s := %s(%d); %s > 0; %s -= 2", iv, tt[Wa], 2*trip, iv, iv),
			fmt.Sprintf("循环 %s := %s(%d); %s > 0; %s -= 2", iv, tt[Wz], 2*trip, iv, iv),
			fmt.Sprintf("for %s := %s(%d); %s > 0; %s -= 2", iv, tt[Go], 2*trip, iv, iv)}
	default: // range over an integer
		if it.K != KInt {
			head = Tri{
				fmt.Sprintf("for %s := range %s(%d)", iv, tt[Wa], trip),
				fmt.Sprintf("循环 %s := 迭代 %s(%d)", iv, tt[Wz], trip),
				fmt.Sprintf("for %s := range %s(%d)", iv, tt[Go], trip)}
		} else {
			head = Tri{
				fmt.Sprintf("for %s := range %d", iv, trip),
				fmt.Sprintf("循环 %s := 迭代 %d", iv, trip),
				fmt.Sprintf("for %s := range wint(%d)", iv, trip)}
		}
		g.feat("range-int")
	}
	body = lines(tf("_ = %s", iv), body)
	out := block(head, body)
	if label != "" && containsLabelUse(body, label) {
		out = Tri{label + ":\n" + out[Wa], out[Wz], label + ":\n" + out[Go]}
	}
	return out
}

func containsLabelUse(b Tri, label string) bool {
	return len(b[Wa]) > 0 && (indexOf(b[Wa], "break "+label) >= 0 || indexOf(b[Wa], "continue "+label) >= 0)
}

func indexOf(s, sub string) int {
	for i := 0; i+len(sub) <= len(s); i++ {
		if s[i:i+len(sub)] == sub {
			// must not be a prefix of a longer label (L1 vs L12)
			j := i + len(sub)
			if j == len(s) || s[j] < '0' || s[j] > '9' {
				return i
			}
		}
	}
	return -1
}

// stWhile: loop driven by a fuel variable.
func (g *G) stWhile() Tri {
	if g.trip > 12 {
		return g.stAssign()
	}
	g.feat("while")
	fuel := g.fresh("fuel")
	trip := g.n(1, 4, "wtrip")
	g.push()
	g.declare(&Var{Name: fuel, T: TInt, RO: true, NoUse: true})
	cond := g.gen(TBool, 2).E
	body := g.loopBody(trip, "", nil)
	g.pop()
	dec := tf("%s--", fuel)
	// the decrement comes first so that `continue` cannot skip it
	var head Tri
	if g.coin("infinite") {
		brk := block(Tri{"if " + fuel + " <= 0", "如果 " + fuel + " <= 0", "if " + fuel + " <= 0"}, tl("break", "跳出", "break"))
		head = tl("for", "循环", "for")
		body = lines(brk, dec, body)
	} else {
		head = Tri{"for " + fuel + " > 0 && (" + cond[Wa] + " || " + fuel + " > 1)", "循环 " + fuel + " > 0 && (" + cond[Wz] + " || " + fuel + " > 1)", "for " + fuel + " > 0 && (" + cond[Go] + " || " + fuel + " > 1)"}
		body = lines(dec, body)
	}
	return lines(declLocal(fuel, TInt, same(fmt.Sprint(trip))), block(head, body))
}

// stRange: range over a slice / array / string / map.
func (g *G) stRange() Tri {
	if g.trip > 12 {
		return g.stAssign()
	}
	vs := g.varsOf(func(v *Var) bool {
		return (v.T.K == KSlice && v.T.Elem.IsScalar()) || (v.T.K == KArray && v.T.Elem.IsScalar()) || v.T.K == KString || v.T.K == KMap
	})
	if len(vs) == 0 {
		return g.stDecl()
	}
	v := vs[g.n(0, len(vs)-1, "rangeOf")]
	if v.T.K == KMap {
		return g.mapDigest(same(v.Name), v.T)
	}
	iv, ev := g.freshVar(), g.freshVar()
	g.push()
	g.declare(&Var{Name: iv, T: TInt, RO: true, NoUse: true})
	var pre Tri
	switch v.T.K {
	case KString:
		g.feat("string-range")
		// the rune is only used through a conversion (Wa prints runes as characters)
		rv := g.fresh("r")
		pre = lines(tf("%s := %s(%s)", ev, TI64.Tri(), rv), tf("_ = %s", ev))
		g.declare(&Var{Name: ev, T: TI64, RO: true})
		body := g.loopBody(4, "", func() Tri { return pre })
		g.pop()
		head := Tri{
			"for " + iv + ", " + rv + " := range " + v.Name,
			"循环 " + iv + ", " + rv + " := 迭代 " + v.Name,
			"for _" + iv + ", " + rv + " := range " + v.Name}
		body = lines(Tri{"_ = " + iv, "_ = " + iv, iv + " := wint(_" + iv + "); _ = " + iv}, body)
		return block(head, body)
	default:
		g.feat("range-slice")
		g.declare(&Var{Name: ev, T: v.T.Elem, RO: true, NoUse: true})
		trip := 3
		if v.T.K == KArray {
			trip = v.T.N
		}
		// a ranged slice must not be appended to / resliced inside its own loop; a ranged
		// ARRAY may be written: range iterates over a copy of the array value, so the
		// element variable keeps seeing the original elements (language rule worth testing)
		oldRO := v.RO
		if v.T.K == KSlice {
			v.RO = true
		} else if !v.RO {
			g.feat("range-array-copy")
		}
		body := g.loopBody(trip, "", nil)
		v.RO = oldRO
		g.pop()
		head := Tri{
			"for " + iv + ", " + ev + " := range " + v.Name,
			"循环 " + iv + ", " + ev + " := 迭代 " + v.Name,
			"for _" + iv + ", " + ev + " := range " + v.Name}
		body = lines(Tri{"_, _ = " + iv + ", " + ev, "_, _ = " + iv + ", " + ev, iv + " := wint(_" + iv + "); _, _ = " + iv + ", " + ev}, body)
		return block(head, body)
	}
}

func (g *G) stSwitch() Tri {
	g.feat("switch")
	if g.coin("tagless") {
		out := tl("switch {", "找辙:", "switch {")
		for i, n := 0, g.n(1, 3, "ncase"); i < n; i++ {
			c := g.gen(TBool, 2).E
			b := indent(g.body(g.small(), nil))
			out = Tri{out[Wa] + "\ncase " + c[Wa] + ":\n" + b[Wa], out[Wz] + "\n有辙 " + c[Wz] + ":\n" + b[Wz], out[Go] + "\ncase " + c[Go] + ":\n" + b[Go]}
		}
		if g.coin("default") {
			b := indent(g.body(g.small(), nil))
			out = Tri{out[Wa] + "\ndefault:\n" + b[Wa], out[Wz] + "\n没辙:\n" + b[Wz], out[Go] + "\ndefault:\n" + b[Go]}
		}
		return Tri{out[Wa] + "\n}", out[Wz] + "\n完毕", out[Go] + "\n}"}
	}
	t := []*Type{TI32, TString, TU8, TInt, TI64}[g.n(0, 4, "swT")]
	tag := g.gen(t, 2)
	if tag.Const {
		tag = g.nonConst(t)
	}
	out := Tri{"switch " + tag.E[Wa] + " {", "找辙 " + tag.E[Wz] + ":", "switch " + tag.E[Go] + " {"}
	seen := map[string]bool{}
	for i, n := 0, g.n(1, 3, "ncase"); i < n; i++ {
		var vals []Tri
		for j, m := 0, g.n(1, 2, "nval"); j < m; j++ {
			var lit string
			if t.K == KString {
				lit = quote(stringPool[g.n(0, len(stringPool)-1, "cstr")])
			} else {
				lit = fmt.Sprint(g.n(0, 6, "cint"))
			}
			if seen[lit] {
				continue
			}
			seen[lit] = true
			vals = append(vals, same(lit))
		}
		if len(vals) == 0 {
			continue
		}
		b := indent(g.body(g.small(), nil))
		v := join(vals, ", ")
		out = Tri{out[Wa] + "\ncase " + v[Wa] + ":\n" + b[Wa], out[Wz] + "\n有辙 " + v[Wz] + ":\n" + b[Wz], out[Go] + "\ncase " + v[Go] + ":\n" + b[Go]}
	}
	if g.coin("default") {
		b := indent(g.body(g.small(), nil))
		out = Tri{out[Wa] + "\ndefault:\n" + b[Wa], out[Wz] + "\n没辙:\n" + b[Wz], out[Go] + "\ndefault:\n" + b[Go]}
	}
	return Tri{out[Wa] + "\n}", out[Wz] + "\n完毕", out[Go] + "\n}"}
}

// stSliceOp: self-append, element write, copy, reslice.
func (g *G) stSliceOp() Tri {
	vs := g.varsOf(func(v *Var) bool { return v.T.K == KSlice && v.T.Elem.IsScalar() && !v.RO })
	if g.cur != nil && g.cur.Pure {
		vs = g.varsOf(func(v *Var) bool { return v.T.K == KSlice && v.T.Elem.IsScalar() && !v.RO && !v.Global })
	}
	if len(vs) == 0 {
		return g.stDecl()
	}
	v := vs[g.n(0, len(vs)-1, "sliceV")]
	if v.Global {
		g.feat("global-write")
	}
	switch g.n(0, 4, "sliceOp") {
	case 0, 1:
		if v.NoApp {
			break
		}
		g.feat("append-grow")
		n := g.n(1, 3, "napp")
		var es []Tri
		for i := 0; i < n; i++ {
			es = append(es, g.gen(v.T.Elem, 2).E)
		}
		out := tf("%s = %s(%s, %s)", v.Name, tl("append", "追加", "append"), v.Name, join(es, ", "))
		// the bound may only grow when this statement runs whenever the declaration did
		if v.Level == g.level && !v.Global && g.declaredHere(v.Name) {
			v.MinLen += n
		}
		return out
	case 2:
		g.needIdx()
		g.feat("slice-index")
		cond := tf("%s > 0", lenOf(same(v.Name)))
		as := tf("%s[idx(%s, %s)] = %s", v.Name, g.gen(TInt, 2).E, lenOf(same(v.Name)), g.gen(v.T.Elem, 2).E)
		return block(Tri{"if " + cond[Wa], "如果 " + cond[Wz], "if " + cond[Go]}, as)
	case 3:
		// copy from a literal
		g.feat("copy")
		return tf("%s(%s, %s)", tl("copy", "拷贝", "copy"), v.Name, g.zeroValue(v.T))
	case 4:
		// reslice into a new variable with exact capacity (3-index) or append-forbidden
		ml := g.minLen(v)
		if ml == 0 {
			break
		}
		lo := g.n(0, ml, "lo")
		hi := g.n(lo, ml, "hi")
		name := g.freshVar()
		nv := &Var{Name: name, T: v.T, MinLen: hi - lo}
		g.feat("slice-alias")
		var out Tri
		if g.coin("threeIdx") {
			out = tf("%s := %s[%d:%d:%d]", name, v.Name, lo, hi, hi)
		} else {
			out = tf("%s := %s[%d:%d]", name, v.Name, lo, hi)
			nv.NoApp = true
		}
		g.declare(nv)
		return out
	}
	return tf("%s = %s(%s, %s)", v.Name, tl("append", "追加", "append"), v.Name, g.literal(v.T.Elem).E).orIf(v.NoApp, printCall(lenOf(same(v.Name))))
}

func (t Tri) orIf(c bool, alt Tri) Tri {
	if c {
		return alt
	}
	return t
}

// stAliasProbe: straight-line append aliasing with statically known capacities.
func (g *G) stAliasProbe() Tri {
	g.feat("slice-alias")
	et := []*Type{TI32, TU8, TI64, TString, TF64}[g.n(0, 4, "apT")]
	st := &Type{K: KSlice, Elem: et}
	base := g.fresh("ap")
	ln, extra := g.n(0, 3, "apLen"), g.n(0, 3, "apExtra")
	type sl struct {
		name     string
		len, cap int // cap < 0: unknown
		arr      int // backing array id
	}
	var ls []Tri
	ls = append(ls, tf("%s := %s(%s, %d, %d)", base, tl("make", "构建", "make"), st.Tri(), ln, ln+extra))
	all := []*sl{{base, ln, ln + extra, 0}}
	arrN := 1
	for i, n := 0, g.n(1, 4, "apSteps"); i < n; i++ {
		src := all[g.n(0, len(all)-1, "apSrc")]
		switch g.n(0, 2, "apOp") {
		case 0, 1: // derived := append(src, k values)
			if src.cap < 0 {
				continue
			}
			k := g.n(1, 2, "apK")
			var es []Tri
			for j := 0; j < k; j++ {
				es = append(es, g.literal(et).E)
			}
			name := g.fresh("ap")
			ls = append(ls, tf("%s := %s(%s, %s)", name, tl("append", "追加", "append"), src.name, join(es, ", ")))
			if src.len+k <= src.cap {
				all = append(all, &sl{name, src.len + k, src.cap, src.arr})
			} else {
				all = append(all, &sl{name, src.len + k, -1, arrN}) // reallocated: capacity policy unknown
				arrN++
				g.feat("append-grow")
			}
		case 2: // write through an alias
			if src.len == 0 {
				continue
			}
			ls = append(ls, tf("%s[%d] = %s", src.name, g.n(0, src.len-1, "apIdx"), g.literal(et).E))
		}
	}
	for _, s := range all {
		es := []Tri{same(quote(s.name)), lenOf(same(s.name))}
		if s.cap >= 0 {
			es = append(es, capOf(same(s.name)))
		}
		for k := 0; k < s.len; k++ {
			es = append(es, tf("%s[%d]", s.name, k))
		}
		ls = append(ls, printCall(es...))
	}
	return lines(ls...)
}

// boundedValue is value() with string results capped (see needScap).
func (g *G) boundedValue(t *Type, d int) Tri {
	if t.K == KString {
		g.needScap()
		return tf("scap(%s)", g.value(t, d))
	}
	return g.value(t, d)
}

func (g *G) stMapOp() Tri {
	vs := g.varsOf(func(v *Var) bool { return v.T.K == KMap && !(v.Global && g.cur != nil && g.cur.Pure) })
	if len(vs) == 0 {
		return g.stDecl()
	}
	v := vs[g.n(0, len(vs)-1, "mapV")]
	g.feat("map-ops")
	key := g.gen(v.T.Key, 2).E
	switch g.n(0, 4, "mapOp") {
	case 0, 1:
		return tf("%s[%s] = %s", v.Name, key, g.boundedValue(v.T.Elem, 2))
	case 2:
		return tf("%s(%s, %s)", tl("delete", "删除", "delete"), v.Name, key)
	case 3:
		e, ok := g.freshVar(), g.freshVar()
		g.declare(&Var{Name: e, T: v.T.Elem})
		g.declare(&Var{Name: ok, T: TBool})
		g.feat("comma-ok")
		return tf("%s, %s := %s[%s]", e, ok, v.Name, key)
	default:
		if v.T.Elem.IsInt() {
			return tf("%s[%s] += %s", v.Name, key, g.gen(v.T.Elem, 1).E)
		}
		return tf("%s[%s] = %s", v.Name, key, g.boundedValue(v.T.Elem, 2))
	}
}

// stStructOp: whole-value copies and pointer mutation.
func (g *G) stStructOp() Tri {
	vs := g.varsOf(func(v *Var) bool { return (v.T.K == KStruct || v.T.K == KArray) && !v.RO && !(v.Global && g.cur != nil && g.cur.Pure) })
	if len(vs) == 0 {
		return g.stDecl()
	}
	v := vs[g.n(0, len(vs)-1, "structV")]
	if v.Global {
		g.feat("global-write")
	}
	if v.T.K == KStruct && g.chance(1, 3, "takeAddr") && !v.Global {
		name := g.freshVar()
		g.declare(&Var{Name: name, T: &Type{K: KPtr, Elem: v.T}})
		g.feat("ptr-mutation")
		return tf("%s := &%s", name, v.Name)
	}
	if v.T.K == KStruct {
		g.feat("struct-copy")
	} else {
		g.feat("array-value-copy")
	}
	return tf("%s = %s", v.Name, g.value(v.T, 1))
}

// stBlock: bare nested block.
func (g *G) stBlock() Tri {
	b := indent(g.body(g.small(), nil))
	return Tri{"{\n" + b[Wa] + "\n}", "区块:\n" + b[Wz] + "\n完毕", "{\n" + b[Go] + "\n}"}
}
