package wagen

import (
	"fmt"
	"sort"
	"strings"

	"pgregory.net/rapid"
)

// Options steer generation.
type Options struct {
	MaxStmts int             // statement budget of main (default 36)
	MaxFuncs int             // helper functions (default 4)
	Depth    int             // expression depth (default 3)
	MaxStructs int           // plain structs besides interface implementations (default 2)
	MaxIfaces  int           // interfaces (default: one with probability 1/2)
	NoCompositeGlobals bool  // no slice/map/array/struct globals: nothing a run of main allocates stays reachable (C12)
	NoLabels bool            // labelled break/continue cannot be rendered in .wz (w2parser never parses labels)
	Exclude  map[string]bool // switches tied to known findings: see Excl* constants
	Only     map[string]bool // when non-nil, only these statement features are generated (besides the basics)
}

// Exclusion switches (each corresponds to one known-finding key).
const (
	ExclShiftGEWidth   = "shift-count>=width"
	ExclMinDivNeg1     = "signed-min-div-neg1"
	ExclFloatToUintBig = "float-to-unsigned>=2^(w-1)"
	ExclArrayEq        = "array-eq"
	ExclStructEq       = "struct-eq"
	ExclIntI32Iface    = "iface/int-i32-one-dynamic-type"
)

// Program is a generated program.
type Program struct {
	Src      Tri            // complete source texts
	Features map[string]int // feature class → number of emitted constructs
	Stmts    int
}

// FeatureList returns the sorted feature classes used.
func (p *Program) FeatureList() []string {
	var fs []string
	for f := range p.Features {
		fs = append(fs, f)
	}
	sort.Strings(fs)
	return fs
}

// Var is a variable visible to the generator.
type Var struct {
	Name   string
	T      *Type
	RO     bool // loop counters, range variables: never assigned
	MinLen int  // slices/strings: statically known lower bound of len()
	NoApp  bool // slice whose capacity is not statically known relative to an alias: never appended to
	Global bool
	Level  int // closure nesting level at which it was declared
	NoUse  bool
}

// Fn is a generated function or method.
type Fn struct {
	Name    string
	Params  []*Var
	Results []*Type
	Pure    bool  // writes no globals and nothing reachable from its arguments; may print
	Recv    *Type // struct type for methods (receiver is a pointer)
}

type scope struct {
	vars   []*Var
	parent *scope
}

// G is the generator state.
type G struct {
	t       *rapid.T
	opt     Options
	nameN   int
	structs []*Type
	ifaces  []*Type
	globals []*Var
	funcs   []*Fn
	decls   []Tri
	feats   map[string]int
	budget  int
	stmts   int
	loops   int // loop nesting depth (dynamic: inside any loop body)
	level   int // closure nesting level
	cur     *Fn
	sc      *scope
	helpers map[string]Tri
	horder  []string
	labelN  int
	named   []*Var // named results of the current function
	retT    []*Type
	trip    int // product of enclosing loop trip counts (bounds output volume)
	labels  []string
}

func (g *G) feat(f string) { g.feats[f]++ }

func (g *G) excl(k string) bool { return g.opt.Exclude[k] }

func (g *G) allow(f string) bool { return g.opt.Only == nil || g.opt.Only[f] }

func (g *G) n(lo, hi int, label string) int { return rapid.IntRange(lo, hi).Draw(g.t, label) }

func (g *G) coin(label string) bool { return rapid.Bool().Draw(g.t, label) }

// chance is true with probability ≈ num/den (shrinks towards false).
func (g *G) chance(num, den int, label string) bool { return g.n(0, den-1, label) >= den-num }

func (g *G) fresh(prefix string) string {
	g.nameN++
	return fmt.Sprintf("%s%d", prefix, g.nameN)
}

var cjkPrefixes = []string{"v", "w", "甲", "x", "乙", "y", "丙"}

func (g *G) freshVar() string { return g.fresh(cjkPrefixes[g.n(0, len(cjkPrefixes)-1, "nameStyle")]) }

func (g *G) push() { g.sc = &scope{parent: g.sc} }
func (g *G) pop()  { g.sc = g.sc.parent }

func (g *G) declare(v *Var) *Var {
	v.Level = g.level
	g.sc.vars = append(g.sc.vars, v)
	return v
}

// visible returns every variable in scope, innermost first, shadowed names removed.
func (g *G) visible() []*Var {
	seen := map[string]bool{}
	var out []*Var
	for s := g.sc; s != nil; s = s.parent {
		for i := len(s.vars) - 1; i >= 0; i-- {
			v := s.vars[i]
			if !seen[v.Name] {
				seen[v.Name] = true
				out = append(out, v)
			}
		}
	}
	if g.cur == nil || !g.cur.Pure || true {
		for _, v := range g.globals {
			if !seen[v.Name] {
				seen[v.Name] = true
				out = append(out, v)
			}
		}
	}
	return out
}

// minLen is the usable static length bound of v in the current context.
func (g *G) minLen(v *Var) int {
	if v.Global || v.Level < g.level { // globals may be changed by calls; captured variables by the time the closure runs
		return 0
	}
	return v.MinLen
}

// ---------------------------------------------------------------- places

type place struct {
	E     Tri
	T     *Type
	Write bool
	Root  *Var
}

// places enumerates readable (and, if write, assignable) locations of type t.
func (g *G) places(t *Type, write bool) []place {
	var out []place
	ptrW := true
	var walk func(e Tri, ty *Type, w bool, root *Var, d int)
	walk = func(e Tri, ty *Type, w bool, root *Var, d int) {
		if sameType(ty, t) && (!write || w) {
			out = append(out, place{e, ty, w, root})
		}
		if d <= 0 {
			return
		}
		switch ty.K {
		case KStruct:
			for _, f := range ty.Fields {
				walk(sel(e, f.Name), f.T, w, root, d-1)
				if f.Embedded && f.T.K == KStruct {
					// promoted fields of the embedded struct (field names are unique program-wide)
					for _, pf := range f.T.Fields {
						if !pf.Embedded {
							walk(sel(e, pf.Name), pf.T, w, root, d-1)
						}
					}
				}
			}
		case KPtr:
			for _, f := range ty.Elem.Fields {
				walk(sel(e, f.Name), f.T, ptrW, root, d-1)
			}
		case KArray:
			for k := 0; k < ty.N && k < 3; k++ {
				walk(tf("%s[%d]", e, k), ty.Elem, w, root, d-1)
			}
		case KSlice:
			ml := 0
			if root != nil && sameType(root.T, ty) && e[Wa] == root.Name {
				ml = g.minLen(root)
			}
			for k := 0; k < ml && k < 3; k++ {
				walk(tf("%s[%d]", e, k), ty.Elem, true, root, d-1)
			}
		}
	}
	writesGlobals := g.cur == nil || !g.cur.Pure
	ptrW = writesGlobals
	for _, v := range g.visible() {
		w := !v.RO
		if v.Global && !writesGlobals {
			w = false
		}
		if g.cur != nil && g.cur.Pure && v.T.K == KPtr {
			w = false
		}
		walk(same(v.Name), v.T, w, v, 2)
	}
	return out
}

func (g *G) varsOf(pred func(*Var) bool) []*Var {
	var out []*Var
	for _, v := range g.visible() {
		if pred(v) {
			out = append(out, v)
		}
	}
	return out
}

// ---------------------------------------------------------------- literals

var stringPool = []string{"", "a", "héllo", "世界", "wa-lang", "x\ty", "Zz", "0123456789", "凹", "ab"}

func quote(s string) string {
	var b strings.Builder
	b.WriteByte('"')
	for _, c := range []byte(s) {
		switch {
		case c == '"' || c == '\\':
			b.WriteByte('\\')
			b.WriteByte(c)
		case c == '\t':
			b.WriteString(`\t`)
		case c == '\n':
			b.WriteString(`\n`)
		case c < 0x20 || c == 0x7f:
			fmt.Fprintf(&b, `\x%02x`, c)
		default:
			b.WriteByte(c)
		}
	}
	b.WriteByte('"')
	return b.String()
}

func maxOf(t *Type) uint64 {
	switch t.K {
	case KU8:
		return 255
	case KU16:
		return 65535
	case KI32, KInt:
		return 1<<31 - 1
	case KU32, KUint:
		return 1<<32 - 1
	case KI64:
		return 1<<63 - 1
	}
	return 1<<64 - 1
}

// intLit draws a boundary-biased literal representable in t.
func (g *G) intLit(t *Type) string {
	max := maxOf(t)
	switch g.n(0, 5, "litClass") {
	case 0:
		return fmt.Sprint(g.n(0, 9, "small"))
	case 1:
		if t.Signed() {
			return fmt.Sprintf("(-%d)", g.n(1, 9, "negsmall"))
		}
		return fmt.Sprint(g.n(0, 200, "mid"))
	case 2:
		return fmt.Sprint(max - uint64(g.n(0, 2, "nearMax")))
	case 3:
		if t.Signed() {
			return fmt.Sprintf("(-%d)", max+1-uint64(g.n(0, 2, "nearMin")))
		}
		return fmt.Sprint(max/2 + uint64(g.n(0, 2, "half")))
	case 4:
		k := uint(g.n(0, int(t.Bits())-2, "pow"))
		v := uint64(1)<<k + uint64(g.n(0, 2, "d")) - 1
		if v > max {
			v = max
		}
		return fmt.Sprint(v)
	}
	v := rapid.Uint64().Draw(g.t, "anyint") % (max/4 + 1)
	return fmt.Sprint(v)
}

var floatPool = []string{"0.0", "1.0", "0.5", "1.25", "3.75", "0.1", "100.0", "1e10", "2.5e-3", "16777216.0", "0.3333", "255.5", "65536.0", "1e18"}

func (g *G) floatLit() string {
	s := floatPool[g.n(0, len(floatPool)-1, "flit")]
	if g.chance(1, 4, "fneg") {
		return "(-" + s + ")"
	}
	return s
}

// expr is an expression with a constness flag (two constants are never
// combined, so no compile-time overflow can arise).
type expr struct {
	E     Tri
	Const bool
}

func (g *G) literal(t *Type) expr {
	switch {
	case t.K == KBool:
		if g.coin("b") {
			return expr{tl("true", "真", "true"), true}
		}
		return expr{tl("false", "假", "false"), true}
	case t.IsInt():
		return expr{same(g.intLit(t)), true}
	case t.IsFloat():
		return expr{same(g.floatLit()), true}
	case t.K == KString:
		return expr{same(quote(stringPool[g.n(0, len(stringPool)-1, "slit")])), true}
	}
	return expr{g.zeroValue(t), false}
}

// typedLit renders a literal converted to t: usable where an untyped constant
// would otherwise pick the default type.
func (g *G) typedLit(t *Type) Tri {
	l := g.literal(t)
	if t.K == KBool || t.K == KString {
		return l.E
	}
	return tf("%s(%s)", t.Tri(), l.E)
}

// zeroValue / composite literal for a type.
func (g *G) zeroValue(t *Type) Tri {
	switch t.K {
	case KArray:
		var es []Tri
		for i := 0; i < t.N; i++ {
			es = append(es, g.valueLit(t.Elem))
		}
		return tf("%s{%s}", t.Tri(), join(es, ", "))
	case KSlice:
		var es []Tri
		for i, n := 0, g.n(0, 4, "slen"); i < n; i++ {
			es = append(es, g.valueLit(t.Elem))
		}
		return tf("%s{%s}", t.Tri(), join(es, ", "))
	case KStruct:
		var es []Tri
		for _, f := range t.Fields {
			if f.T.K == KPtr {
				es = append(es, tf("%s: &%s", f.Name, g.zeroValue(f.T.Elem)))
				continue
			}
			if g.chance(1, 5, "omitField") && !(f.T.K == KStruct && g.hasPtrField(f.T)) {
				continue
			}
			es = append(es, tf("%s: %s", f.Name, g.valueLit(f.T)))
		}
		return tf("%s{%s}", t.Tri(), join(es, ", "))
	case KPtr:
		return tf("&%s", g.zeroValue(t.Elem))
	case KMap:
		var es []Tri
		seen := map[string]bool{}
		for i, n := 0, g.n(0, 3, "mlen"); i < n; i++ {
			k := g.literal(t.Key).E
			if seen[k[Go]] {
				continue
			}
			seen[k[Go]] = true
			es = append(es, tf("%s: %s", k, g.valueLit(t.Elem)))
		}
		return tf("%s{%s}", t.Tri(), join(es, ", "))
	}
	return g.literal(t).E
}

func (g *G) valueLit(t *Type) Tri {
	if t.IsScalar() {
		return g.literal(t).E
	}
	return g.zeroValue(t)
}

// ---------------------------------------------------------------- helpers (prelude functions in the generated language)

func (g *G) helper(name string, body Tri) {
	if _, ok := g.helpers[name]; ok {
		return
	}
	g.helpers[name] = body
	g.horder = append(g.horder, name)
}

// idx(i, n) maps any int to [0, n) (n > 0).
func (g *G) needIdx() {
	g.helper("idx", tl(
		"func idx(i: int, n: int) => int {\n\tr := i % n\n\tif r < 0 {\n\t\tr += n\n\t}\n\treturn r\n}",
		"函数·idx(i: 整型, n: 整型) => 整型:\n\tr := i % n\n\t如果 r < 0:\n\t\tr += n\n\t完毕\n\t返回 r\n完毕",
		"func idx(i wint, n wint) wint {\n\tr := i % n\n\tif r < 0 {\n\t\tr += n\n\t}\n\treturn r\n}"))
}

// at_T(s, i) reads a slice element at a wrapped index; 0 value for an empty slice.
func (g *G) needAt(elem *Type) string {
	g.needIdx()
	name := "at_" + elem.Tri()[Wa]
	et := elem.Tri()
	zero := g.plainZero(elem)
	g.helper(name, Tri{
		fmt.Sprintf("func %s(s: []%s, i: int) => %s {\n\tif len(s) == 0 {\n\t\treturn %s\n\t}\n\treturn s[idx(i, len(s))]\n}", name, et[Wa], et[Wa], zero[Wa]),
		fmt.Sprintf("函数·%s(s: []%s, i: 整型) => %s:\n\t如果 长度(s) == 0:\n\t\t返回 %s\n\t完毕\n\t返回 s[idx(i, 长度(s))]\n完毕", name, et[Wz], et[Wz], zero[Wz]),
		fmt.Sprintf("func %s(s []%s, i wint) %s {\n\tif len(s) == 0 {\n\t\treturn %s\n\t}\n\treturn s[idx(i, wint(len(s)))]\n}", name, et[Go], et[Go], zero[Go]),
	})
	return name
}

// sat(s, i): byte of a string at a wrapped index, 0 for "".
func (g *G) needSat() {
	g.needIdx()
	g.helper("sat", tl(
		"func sat(s: string, i: int) => u8 {\n\tif len(s) == 0 {\n\t\treturn 0\n\t}\n\treturn s[idx(i, len(s))]\n}",
		"函数·sat(s: 字串, i: 整型) => 微正整:\n\t如果 长度(s) == 0:\n\t\t返回 0\n\t完毕\n\t返回 s[idx(i, 长度(s))]\n完毕",
		"func sat(s string, i wint) uint8 {\n\tif len(s) == 0 {\n\t\treturn 0\n\t}\n\treturn s[idx(i, wint(len(s)))]\n}"))
}

// ssub(s, i, j): substring with wrapped bounds.
func (g *G) needSsub() {
	g.needIdx()
	g.helper("ssub", tl(
		"func ssub(s: string, i: int, j: int) => string {\n\tlo := idx(i, len(s)+1)\n\thi := lo + idx(j, len(s)-lo+1)\n\treturn s[lo:hi]\n}",
		"函数·ssub(s: 字串, i: 整型, j: 整型) => 字串:\n\tlo := idx(i, 长度(s)+1)\n\thi := lo + idx(j, 长度(s)-lo+1)\n\t返回 s[lo:hi]\n完毕",
		"func ssub(s string, i wint, j wint) string {\n\tlo := idx(i, wint(len(s))+1)\n\thi := lo + idx(j, wint(len(s))-lo+1)\n\treturn s[lo:hi]\n}"))
}

// fclamp(x, lo, hi): NaN → lo; keeps float→int conversions inside the domain both languages define.
func (g *G) needFclamp() {
	g.helper("fclamp", tl(
		"func fclamp(x: f64, lo: f64, hi: f64) => f64 {\n\tif x != x {\n\t\treturn lo\n\t}\n\tif x < lo {\n\t\treturn lo\n\t}\n\tif x > hi {\n\t\treturn hi\n\t}\n\treturn x\n}",
		"函数·fclamp(x: 双精, lo: 双精, hi: 双精) => 双精:\n\t如果 x != x:\n\t\t返回 lo\n\t完毕\n\t如果 x < lo:\n\t\t返回 lo\n\t完毕\n\t如果 x > hi:\n\t\t返回 hi\n\t完毕\n\t返回 x\n完毕",
		"func fclamp(x float64, lo float64, hi float64) float64 {\n\tif x != x {\n\t\treturn lo\n\t}\n\tif x < lo {\n\t\treturn lo\n\t}\n\tif x > hi {\n\t\treturn hi\n\t}\n\treturn x\n}"))
}

func (g *G) plainZero(t *Type) Tri {
	switch {
	case t.K == KBool:
		return tl("false", "假", "false")
	case t.K == KString:
		return same(`""`)
	case t.IsNum():
		return same("0")
	}
	return g.zeroValue(t)
}

// ---------------------------------------------------------------- expressions

func (g *G) leaf(t *Type) expr {
	ps := g.places(t, false)
	if len(ps) > 0 && g.chance(4, 5, "useVar") {
		return expr{ps[g.n(0, len(ps)-1, "place")].E, false}
	}
	return g.literal(t)
}

// nonConst returns a leaf that is not a compile-time constant.
func (g *G) nonConst(t *Type) expr {
	ps := g.places(t, false)
	if len(ps) > 0 {
		return expr{ps[g.n(0, len(ps)-1, "placeNC")].E, false}
	}
	// every scalar type has a global, so this is unreachable for scalars
	return expr{g.zeroValue(t), false}
}

func (g *G) pureFuncs(t *Type) []*Fn {
	var out []*Fn
	for _, f := range g.funcs {
		if f.Pure && f.Recv == nil && len(f.Results) == 1 && sameType(f.Results[0], t) && f != g.cur {
			out = append(out, f)
		}
	}
	return out
}

func (g *G) callArgs(f *Fn, d int) Tri {
	var as []Tri
	for _, p := range f.Params {
		as = append(as, g.value(p.T, d))
	}
	return join(as, ", ")
}

// value generates an expression of any type (composite: variable or literal).
func (g *G) value(t *Type, d int) Tri {
	if t.IsScalar() {
		return g.gen(t, d).E
	}
	ps := g.places(t, false)
	if t.K == KPtr || t.K == KIface || t.K == KFunc {
		if len(ps) > 0 {
			return ps[g.n(0, len(ps)-1, "cplace")].E
		}
		return g.fallback(t)
	}
	if len(ps) > 0 && g.chance(2, 3, "cvar") {
		return ps[g.n(0, len(ps)-1, "cplace")].E
	}
	return g.zeroValue(t)
}

// fallback builds a fresh non-nil value of a pointer / interface / func type.
func (g *G) fallback(t *Type) Tri {
	switch t.K {
	case KPtr:
		return tf("&%s", g.zeroValue(t.Elem))
	case KIface:
		impl := t.Impls[g.n(0, len(t.Impls)-1, "impl")]
		return tf("&%s", g.zeroValue(impl))
	case KFunc:
		return g.funcLit(t, true)
	}
	return g.zeroValue(t)
}

func (g *G) gen(t *Type, d int) expr {
	if d <= 0 {
		return g.leaf(t)
	}
	switch {
	case t.IsInt():
		return g.genInt(t, d)
	case t.IsFloat():
		return g.genFloat(t, d)
	case t.K == KBool:
		return g.genBool(d)
	case t.K == KString:
		return g.genString(d)
	}
	return expr{g.value(t, d), false}
}

func (g *G) pair(t *Type, d int) (expr, expr) {
	a, b := g.gen(t, d-1), g.gen(t, d-1)
	if a.Const && b.Const {
		b = g.nonConst(t)
	}
	return a, b
}

var intBinOps = []string{"+", "-", "*", "&", "|", "^", "&^"}

func (g *G) genInt(t *Type, d int) expr {
	switch g.n(0, 12, "intForm") {
	case 0, 1:
		return g.leaf(t)
	case 12:
		// an unparenthesised operator chain: grouping is decided by precedence and
		// left-associativity alone (the same rules in .wa, .wz and Go)
		n := g.n(3, 5, "chainLen")
		ops := []string{"+", "-", "*", "&", "|", "^", "&^", "-", "*"}
		out := g.nonConst(t).E
		for i := 1; i < n; i++ {
			out = tf("%s %s %s", out, ops[g.n(0, len(ops)-1, "chainOp")], g.nonConst(t).E)
		}
		g.feat("operator-chain")
		return expr{tf("(%s)", out), false}
	case 2, 3:
		a, b := g.pair(t, d)
		g.feat("arith-int")
		return expr{tf("(%s %s %s)", a.E, intBinOps[g.n(0, len(intBinOps)-1, "iop")], b.E), false}
	case 4:
		a := g.gen(t, d-1)
		b := g.nonConst(t)
		g.feat("divrem")
		op := "/"
		if g.coin("rem") {
			op = "%"
		}
		div := tf("(%s | 1)", b.E)
		if t.Signed() && g.excl(ExclMinDivNeg1) {
			div = tf("((%s & %d) | 1)", b.E, maxOf(t)>>1)
		}
		return expr{tf("(%s %s %s)", a.E, op, div), false}
	case 5:
		a := g.gen(t, d-1)
		if a.Const {
			a = g.nonConst(t)
		}
		g.feat("shift")
		op := "<<"
		if g.coin("shr") {
			op = ">>"
		}
		var c Tri
		if g.coin("constCount") {
			hi := int(t.Bits()) + 6
			if g.excl(ExclShiftGEWidth) {
				hi = int(t.Bits()) - 1
			}
			c = same(fmt.Sprint(g.n(0, hi, "cnt")))
		} else {
			ct := []*Type{TU32, TU8, TUint, TU64, TU16}[g.n(0, 4, "cntT")]
			c = g.gen(ct, d-1).E
			if g.excl(ExclShiftGEWidth) {
				c = tf("(%s %% %d)", c, t.Bits())
			}
		}
		return expr{tf("(%s %s %s)", a.E, op, c), false}
	case 6:
		a := g.gen(t, d-1)
		if a.Const && g.chance(1, 3, "constCompl") {
			// complement of a typed constant: folded by the type checker at the type's width
			// (always representable, unlike negation of an unsigned constant)
			g.feat("const-complement")
			return expr{tf("(^%s)", g.typedLit(t)), true}
		}
		if a.Const {
			a = g.nonConst(t)
		}
		g.feat("arith-int")
		return expr{tf("(%s%s)", []string{"-", "^"}[g.n(0, 1, "uop")], a.E), false}
	case 7:
		// conversion from another numeric type
		if g.chance(1, 4, "fromFloat") {
			ft := floatTypes[g.n(0, 1, "ft")]
			x := g.gen(ft, d-1)
			if x.Const {
				x = g.nonConst(ft)
			}
			g.needFclamp()
			g.feat("conv-float")
			lo, hi := "0", fmt.Sprint(maxOf(t))
			if t.Signed() {
				lo = fmt.Sprintf("-%d", maxOf(t))
			}
			switch {
			case t.Bits() == 64:
				hi = "9e18"
				if t.Signed() {
					lo = "-9e18"
				}
				if !t.Signed() && g.excl(ExclFloatToUintBig) {
					hi = "9e18"
				} else if !t.Signed() {
					hi = "1.8e19"
				}
			case !t.Signed() && t.Bits() == 32 && g.excl(ExclFloatToUintBig):
				hi = "2147483647"
			}
			if ft == TF32 && g.coin("directF32") {
				// convert straight from f32 (its own instruction in the backends): the value is
				// clamped to bounds that are exact in f32 and inside the target's range, and
				// rounding a value of [lo, hi] to f32 stays inside [lo, hi]
				g.feat("conv-f32-direct")
				var lo32, hi32 string
				switch {
				case t.Bits() == 64 && t.Signed():
					lo32, hi32 = "-4611686018427387904", "4611686018427387904" // ±2^62
				case t.Bits() == 64:
					lo32, hi32 = "0", "4611686018427387904"
					if !g.excl(ExclFloatToUintBig) {
						hi32 = "9223372036854775808" // 2^63
					}
				case t.Bits() == 32 && t.Signed():
					lo32, hi32 = "-1073741824", "1073741824" // ±2^30
				case t.Bits() == 32:
					lo32, hi32 = "0", "1073741824"
					if !g.excl(ExclFloatToUintBig) {
						hi32 = "2147483648" // 2^31
					}
				default: // u8, u16: the maximum is exact in f32
					lo32, hi32 = "0", fmt.Sprint(maxOf(t))
				}
				return expr{tf("%s(%s(fclamp(%s(%s), %s, %s)))", t.Tri(), TF32.Tri(), TF64.Tri(), x.E, lo32, hi32), false}
			}
			return expr{tf("%s(fclamp(%s(%s), %s, %s))", t.Tri(), TF64.Tri(), x.E, lo, hi), false}
		}
		st := intTypes[g.n(0, len(intTypes)-1, "fromT")]
		x := g.gen(st, d-1)
		if x.Const {
			x = g.nonConst(st)
		}
		g.feat("conv-int")
		return expr{tf("%s(%s)", t.Tri(), x.E), false}
	case 8:
		// f(args).field on a struct-returning pure function
		var sfs []*Fn
		for _, f := range g.funcs {
			if f.Pure && f.Recv == nil && f != g.cur && len(f.Results) == 1 && f.Results[0].K == KStruct {
				for _, fd := range f.Results[0].Fields {
					if sameType(fd.T, t) {
						sfs = append(sfs, f)
						break
					}
				}
			}
		}
		if len(sfs) > 0 && g.coin("callField") {
			f := sfs[g.n(0, len(sfs)-1, "sf")]
			var fds []Field
			for _, fd := range f.Results[0].Fields {
				if sameType(fd.T, t) {
					fds = append(fds, fd)
				}
			}
			g.feat("call-result-field")
			return expr{sel(tf("%s(%s)", f.Name, g.callArgs(f, d-1)), fds[g.n(0, len(fds)-1, "sfField")].Name), false}
		}
		if fs := g.pureFuncs(t); len(fs) > 0 {
			f := fs[g.n(0, len(fs)-1, "pf")]
			g.feat("call")
			return expr{tf("%s(%s)", f.Name, g.callArgs(f, d-1)), false}
		}
	case 9:
		if t.K == KInt {
			if e, ok := g.lenExpr(); ok {
				return expr{e, false}
			}
		}
		if t.K == KU8 {
			if e, ok := g.strIndex(d); ok {
				return expr{e, false}
			}
		}
	case 10:
		if e, ok := g.elemRead(t, d); ok {
			return expr{e, false}
		}
	}
	return g.leaf(t)
}

// lenExpr: len() of some slice/string/map/array in scope (type int).
func (g *G) lenExpr() (Tri, bool) {
	vs := g.varsOf(func(v *Var) bool {
		return v.T.K == KSlice || v.T.K == KString || v.T.K == KMap || v.T.K == KArray
	})
	if len(vs) == 0 {
		return Tri{}, false
	}
	v := vs[g.n(0, len(vs)-1, "lenOf")]
	g.feat("len")
	return lenOf(same(v.Name)), true
}

func lenOf(x Tri) Tri {
	return Tri{"len(" + x[Wa] + ")", "长度(" + x[Wz] + ")", "wint(len(" + x[Go] + "))"}
}

func capOf(x Tri) Tri {
	return Tri{"cap(" + x[Wa] + ")", "容量(" + x[Wz] + ")", "wint(cap(" + x[Go] + "))"}
}

func (g *G) strIndex(d int) (Tri, bool) {
	vs := g.varsOf(func(v *Var) bool { return v.T.K == KString })
	if len(vs) == 0 {
		return Tri{}, false
	}
	v := vs[g.n(0, len(vs)-1, "strOf")]
	g.feat("string-op")
	if ml := g.minLen(v); ml > 0 && g.coin("direct") {
		return tf("%s[%d]", v.Name, g.n(0, ml-1, "k")), true
	}
	g.needSat()
	return tf("sat(%s, %s)", v.Name, g.gen(TInt, d-1).E), true
}

// elemRead: element of an array / slice / map with element type t.
func (g *G) elemRead(t *Type, d int) (Tri, bool) {
	// field of a non-addressable struct value: m[k].f on a map of structs
	ms := g.varsOf(func(v *Var) bool {
		if v.T.K != KMap || v.T.Elem.K != KStruct {
			return false
		}
		for _, f := range v.T.Elem.Fields {
			if sameType(f.T, t) {
				return true
			}
		}
		return false
	})
	if len(ms) > 0 && g.coin("mapStructField") {
		v := ms[g.n(0, len(ms)-1, "msOf")]
		var fs []Field
		for _, f := range v.T.Elem.Fields {
			if sameType(f.T, t) {
				fs = append(fs, f)
			}
		}
		f := fs[g.n(0, len(fs)-1, "msField")]
		g.feat("map-struct-field")
		return sel(tf("%s[%s]", v.Name, g.gen(v.T.Key, d-1).E), f.Name), true
	}
	vs := g.varsOf(func(v *Var) bool {
		return (v.T.K == KArray || v.T.K == KSlice || v.T.K == KMap) && sameType(v.T.Elem, t)
	})
	if len(vs) == 0 {
		return Tri{}, false
	}
	v := vs[g.n(0, len(vs)-1, "elemOf")]
	switch v.T.K {
	case KArray:
		g.needIdx()
		g.feat("array-index")
		return tf("%s[idx(%s, %d)]", v.Name, g.gen(TInt, d-1).E, v.T.N), true
	case KSlice:
		g.feat("slice-index")
		return tf("%s(%s, %s)", g.needAt(t), v.Name, g.gen(TInt, d-1).E), true
	}
	g.feat("map-ops")
	return tf("%s[%s]", v.Name, g.gen(v.T.Key, d-1).E), true
}

var floatBinOps = []string{"+", "-", "*", "/"}

func (g *G) genFloat(t *Type, d int) expr {
	switch g.n(0, 6, "fltForm") {
	case 0, 1:
		return g.leaf(t)
	case 2, 3:
		a, b := g.pair(t, d)
		g.feat("arith-float")
		return expr{tf("(%s %s %s)", a.E, floatBinOps[g.n(0, 3, "fop")], b.E), false}
	case 4:
		st := append(append([]*Type{}, intTypes...), floatTypes...)[g.n(0, len(intTypes)+1, "ffromT")]
		if st == t {
			st = TI32
		}
		x := g.gen(st, d-1)
		if x.Const {
			x = g.nonConst(st)
		}
		g.feat("conv-float")
		return expr{tf("%s(%s)", t.Tri(), x.E), false}
	case 5:
		a := g.gen(t, d-1)
		if a.Const {
			a = g.nonConst(t)
		}
		return expr{tf("(-%s)", a.E), false}
	case 6:
		if fs := g.pureFuncs(t); len(fs) > 0 {
			f := fs[g.n(0, len(fs)-1, "pf")]
			g.feat("call")
			return expr{tf("%s(%s)", f.Name, g.callArgs(f, d-1)), false}
		}
	}
	return g.leaf(t)
}

var cmpOps = []string{"==", "!=", "<", "<=", ">", ">="}

func (g *G) genBool(d int) expr {
	switch g.n(0, 7, "boolForm") {
	case 0:
		return g.leaf(TBool)
	case 7:
		// == / != on whole arrays and structs
		vs := g.varsOf(func(v *Var) bool {
			return (v.T.K == KArray && v.T.Elem.IsScalar() && !g.excl(ExclArrayEq)) || (v.T.K == KStruct && !g.excl(ExclStructEq))
		})
		if len(vs) > 0 {
			v := vs[g.n(0, len(vs)-1, "eqV")]
			g.feat("composite-eq")
			return expr{tf("(%s %s %s)", v.Name, cmpOps[g.n(0, 1, "eqop")], g.value(v.T, 1)), false}
		}
	case 1, 2:
		t := scalarTypes[g.n(0, len(scalarTypes)-1, "cmpT")]
		a, b := g.pair(t, d)
		op := cmpOps[g.n(0, 5, "cmp")]
		if t.K == KBool {
			op = cmpOps[g.n(0, 1, "cmpb")]
		}
		if t.K == KString {
			g.feat("string-op")
		}
		g.feat("compare")
		return expr{tf("(%s %s %s)", a.E, op, b.E), false}
	case 3:
		a, b := g.gen(TBool, d-1), g.gen(TBool, d-1)
		if a.Const {
			a = g.nonConst(TBool)
		}
		g.feat("logic")
		return expr{tf("(%s %s %s)", a.E, []string{"&&", "||"}[g.n(0, 1, "lop")], b.E), false}
	case 4:
		a := g.gen(TBool, d-1)
		if a.Const {
			a = g.nonConst(TBool)
		}
		return expr{tf("(!%s)", a.E), false}
	case 5:
		if fs := g.pureFuncs(TBool); len(fs) > 0 {
			f := fs[g.n(0, len(fs)-1, "pf")]
			g.feat("call")
			return expr{tf("%s(%s)", f.Name, g.callArgs(f, d-1)), false}
		}
	case 6:
		// comma-less map membership is not an expression; compare lengths instead
		if e, ok := g.lenExpr(); ok {
			return expr{tf("(%s %s %d)", e, cmpOps[g.n(0, 5, "cmp")], g.n(0, 4, "lenk")), false}
		}
	}
	return g.leaf(TBool)
}

func (g *G) genString(d int) expr {
	switch g.n(0, 5, "strForm") {
	case 0, 1:
		return g.leaf(TString)
	case 2:
		a, b := g.pair(TString, d)
		g.feat("string-op")
		return expr{tf("(%s + %s)", a.E, b.E), false}
	case 3:
		a := g.gen(TString, d-1)
		if a.Const {
			a = g.nonConst(TString)
		}
		g.needSsub()
		g.feat("string-op")
		return expr{tf("ssub(%s, %s, %s)", a.E, g.gen(TInt, d-1).E, g.gen(TInt, d-1).E), false}
	case 4:
		if fs := g.pureFuncs(TString); len(fs) > 0 {
			f := fs[g.n(0, len(fs)-1, "pf")]
			g.feat("call")
			return expr{tf("%s(%s)", f.Name, g.callArgs(f, d-1)), false}
		}
	case 5:
		// string(bytes) of a []u8 variable
		vs := g.varsOf(func(v *Var) bool { return v.T.K == KSlice && v.T.Elem.K == KU8 })
		if len(vs) > 0 {
			v := vs[g.n(0, len(vs)-1, "bs")]
			g.feat("string-conv")
			return expr{Tri{"string(" + v.Name + ")", "字串(" + v.Name + ")", "string(" + v.Name + ")"}, false}
		}
	}
	return g.leaf(TString)
}
