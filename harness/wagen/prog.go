package wagen

import (
	"fmt"
	"strings"

	"pgregory.net/rapid"
)

// ---------------------------------------------------------------- statement dispatcher

func (g *G) stmt() Tri {
	g.budget--
	g.stmts++
	if g.budget < -50 {
		return printCall(same(`"~"`))
	}
	for tries := 0; tries < 3; tries++ {
		switch g.n(0, 26, "stmt") {
		case 0, 1:
			return g.stDecl()
		case 2, 3:
			return g.stAssign()
		case 4:
			return g.stPrint()
		case 5:
			if g.budget > 0 {
				return g.stIf()
			}
		case 6:
			if g.budget > 0 {
				return g.stFor()
			}
		case 7:
			if g.budget > 0 {
				return g.stWhile()
			}
		case 8:
			if g.budget > 0 {
				return g.stRange()
			}
		case 9:
			if g.budget > 0 && g.allow("switch") {
				return g.stSwitch()
			}
		case 10, 11:
			return g.stSliceOp()
		case 12:
			if g.allow("map") {
				return g.stMapOp()
			}
		case 13:
			if g.allow("struct") {
				return g.stStructOp()
			}
		case 14:
			if g.allow("alias") {
				return g.stAliasProbe()
			}
		case 15:
			if g.budget > 0 {
				return g.stBlock()
			}
		case 16:
			if g.allow("call") {
				return g.stCall()
			}
		case 17:
			if g.allow("closure") && g.budget > 0 && g.level < 2 {
				return g.stClosure()
			}
		case 18:
			if g.allow("defer") && g.cur != nil && g.loops == 0 {
				return g.stDefer()
			}
		case 19:
			if g.allow("iface") && len(g.ifaces) > 0 {
				return g.stIface()
			}
		case 20:
			if g.allow("method") {
				return g.stMethodCall()
			}
		case 21:
			if g.allow("strconv") {
				return g.stBytes()
			}
		case 22:
			if g.allow("iface") {
				return g.stTypeSwitch()
			}
		case 23:
			return g.stSliceSpread()
		case 24:
			return g.stTupleAssign()
		case 25:
			if g.allow("struct") {
				return g.stAnonStruct()
			}
		case 26:
			if g.allow("map") && g.loops == 0 {
				return g.stMapChurn()
			}
		}
	}
	return g.stAssign()
}

// ---------------------------------------------------------------- calls

// stCall: call of a function as a statement or as the whole right-hand side.
func (g *G) stCall() Tri {
	var cands []*Fn
	for _, f := range g.funcs {
		if f.Recv == nil && f != g.cur && (f.Pure || g.cur == nil || !g.cur.Pure) {
			cands = append(cands, f)
		}
	}
	if len(cands) == 0 {
		return g.stPrint()
	}
	f := cands[g.n(0, len(cands)-1, "callee")]
	g.feat("call")
	call := tf("%s(%s)", f.Name, g.callArgs(f, 2))
	return g.bindResults(call, f.Results)
}

// bindResults renders `call`, `x := call` or `a, b := call`.
func (g *G) bindResults(call Tri, results []*Type) Tri {
	if len(results) == 0 || g.chance(1, 6, "dropResult") {
		return call
	}
	if len(results) > 1 {
		g.feat("multi-return")
	}
	// assign to existing places when possible, else declare
	if g.coin("assignExisting") {
		var lhs []Tri
		ok := true
		used := map[string]bool{}
		for _, r := range results {
			ps := g.places(r, true)
			if len(ps) == 0 {
				ok = false
				break
			}
			p := ps[g.n(0, len(ps)-1, "resP")]
			if used[p.E[Wa]] || (p.Root != nil && used[p.Root.Name]) {
				ok = false
				break
			}
			used[p.E[Wa]] = true
			if p.Root != nil {
				used[p.Root.Name] = true
			}
			lhs = append(lhs, p.E)
		}
		if ok {
			return tf("%s = %s", join(lhs, ", "), call)
		}
	}
	var names []Tri
	for _, r := range results {
		n := g.freshVar()
		g.declare(&Var{Name: n, T: r})
		names = append(names, same(n))
	}
	return tf("%s := %s", join(names, ", "), call)
}

// ---------------------------------------------------------------- function bodies

// funcBody generates the statements of a function / closure / method and makes
// sure it ends in a return.
func (g *G) funcBody(params []*Var, results []*Type, named []*Var, nstmts int) Tri {
	saveSc, saveLoops, saveTrip, saveNamed, saveRet, saveLabels := g.sc, g.loops, g.trip, g.named, g.retT, g.labels
	g.loops, g.trip, g.named, g.retT, g.labels = 0, 1, named, results, nil
	g.push()
	for _, p := range params {
		g.declare(p)
	}
	for _, n := range named {
		g.declare(n)
	}
	var ls []Tri
	for i := 0; i < nstmts; i++ {
		ls = append(ls, g.stmt())
		// early return, guarded
		if len(results) >= 0 && g.chance(1, 7, "earlyRet") {
			c := g.gen(TBool, 2).E
			ls = append(ls, block(Tri{"if " + c[Wa], "如果 " + c[Wz], "if " + c[Go]}, g.returnStmt()))
		}
	}
	// uses of locals (not params: Go does not complain about unused params)
	var us []Tri
	seen := map[string]bool{}
	for i := len(g.sc.vars) - 1; i >= 0; i-- {
		v := g.sc.vars[i]
		isParam := false
		for _, p := range params {
			if p == v {
				isParam = true
			}
		}
		for _, p := range named {
			if p == v {
				isParam = true
			}
		}
		if isParam || seen[v.Name] || v.NoUse {
			continue
		}
		seen[v.Name] = true
		us = append(us, g.use(v))
	}
	ls = append(ls, lines(us...))
	if len(results) > 0 {
		ls = append(ls, g.returnStmt())
	}
	g.pop()
	g.sc, g.loops, g.trip, g.named, g.retT, g.labels = saveSc, saveLoops, saveTrip, saveNamed, saveRet, saveLabels
	out := lines(ls...)
	if out[Wa] == "" {
		out = printCall(same(`"."`))
	}
	return out
}

func (g *G) returnStmt() Tri {
	kw := tl("return", "返回", "return")
	if len(g.retT) == 0 {
		return kw
	}
	if len(g.named) > 0 && g.coin("bareReturn") {
		g.feat("named-result")
		return kw
	}
	var es []Tri
	for _, r := range g.retT {
		if r.K == KString {
			g.needScap()
			es = append(es, tf("scap(%s)", g.value(r, 2)))
			continue
		}
		es = append(es, g.value(r, 2))
	}
	return tf("%s %s", kw, join(es, ", "))
}

// needScap bounds string growth: statements may run many times (loops,
// repeated calls) and s = s + s would double the output volume each time.
func (g *G) needScap() {
	g.helper("scap", tl(
		"func scap(s: string) => string {\n\tif len(s) > 40 {\n\t\treturn s[0:40]\n\t}\n\treturn s\n}",
		"函数·scap(s: 字串) => 字串:\n\t如果 长度(s) > 40:\n\t\t返回 s[0:40]\n\t完毕\n\t返回 s\n完毕",
		"func scap(s string) string {\n\tif len(s) > 40 {\n\t\treturn s[0:40]\n\t}\n\treturn s\n}"))
}

func paramList(ps []*Var) Tri {
	var out []Tri
	for _, p := range ps {
		pt := p.T.Tri()
		out = append(out, Tri{p.Name + ": " + pt[Wa], p.Name + ": " + pt[Wz], p.Name + " " + pt[Go]})
	}
	return join(out, ", ")
}

func resultList(results []*Type, named []*Var) Tri {
	if len(results) == 0 {
		return Tri{}
	}
	if len(named) > 0 {
		var rs []Tri
		for _, n := range named {
			nt := n.T.Tri()
			rs = append(rs, Tri{n.Name + ": " + nt[Wa], n.Name + ": " + nt[Wz], n.Name + " " + nt[Go]})
		}
		j := join(rs, ", ")
		return Tri{" => (" + j[Wa] + ")", " => (" + j[Wz] + ")", " (" + j[Go] + ")"}
	}
	if len(results) == 1 {
		rt := results[0].Tri()
		return Tri{" => " + rt[Wa], " => " + rt[Wz], " " + rt[Go]}
	}
	var rs []Tri
	for _, r := range results {
		rs = append(rs, r.Tri())
	}
	j := join(rs, ", ")
	return Tri{" => (" + j[Wa] + ")", " => (" + j[Wz] + ")", " (" + j[Go] + ")"}
}

func (g *G) paramType() *Type {
	if g.chance(1, 5, "compositeParam") {
		switch g.n(0, 2, "cparam") {
		case 0:
			if len(g.structs) > 0 {
				return g.structs[g.n(0, len(g.structs)-1, "pS")]
			}
		case 1:
			return &Type{K: KArray, N: g.n(1, 3, "pArrN"), Elem: scalarTypes[g.n(0, len(scalarTypes)-1, "pArrE")]}
		case 2:
			return &Type{K: KSlice, Elem: scalarTypes[g.n(0, len(scalarTypes)-1, "pSlE")]}
		}
	}
	return scalarTypes[g.n(0, len(scalarTypes)-1, "paramT")]
}

// genFunc creates one top-level helper function.
func (g *G) genFunc() {
	name := g.fresh("fn")
	f := &Fn{Name: name, Pure: g.chance(2, 3, "pure")}
	for i, n := 0, g.n(0, 3, "nparams"); i < n; i++ {
		pt := g.paramType()
		f.Params = append(f.Params, &Var{Name: g.fresh("p"), T: pt, RO: pt.K == KSlice})
	}
	for i, n := 0, g.n(0, 2, "nresults"); i < n; i++ {
		f.Results = append(f.Results, scalarTypes[g.n(0, len(scalarTypes)-1, "resT")])
	}
	if f.Pure && len(f.Results) == 0 {
		f.Results = []*Type{scalarTypes[g.n(0, len(scalarTypes)-1, "resT1")]}
	}
	// sometimes a single struct result (read as f(args).field: a field of a non-addressable value)
	if len(g.structs) > 0 && g.chance(1, 5, "structResult") {
		if st := g.structs[g.n(0, len(g.structs)-1, "resS")]; !g.hasPtrField(st) {
			f.Results = []*Type{st}
		}
	}
	var named []*Var
	if len(f.Results) > 0 && g.chance(1, 3, "namedResults") {
		for _, r := range f.Results {
			named = append(named, &Var{Name: g.fresh("r"), T: r, NoUse: true})
		}
	}
	saveCur, saveBudget := g.cur, g.budget
	g.cur = f
	g.budget = g.n(1, 6, "fnStmts")
	body := g.funcBody(f.Params, f.Results, named, g.budget)
	g.cur, g.budget = saveCur, saveBudget
	head := tf("%s%s(%s)%s", tl("func ", "函数·", "func "), name, paramList(f.Params), resultList(f.Results, named))
	g.decls = append(g.decls, block(head, body))
	g.funcs = append(g.funcs, f)
}

// genRecursive adds a depth-bounded recursive function (pure).
func (g *G) genRecursive() {
	name := g.fresh("rec")
	t := []*Type{TI64, TI32, TU32, TF64}[g.n(0, 3, "recT")]
	f := &Fn{Name: name, Pure: true, Params: []*Var{{Name: "d", T: TInt}, {Name: "acc", T: t}}, Results: []*Type{t}}
	g.feat("recursion")
	tt := t.Tri()
	op := []string{"+", "*", "-", "^"}[g.n(0, 2, "recOp")]
	k := g.n(1, 9, "recK")
	fan := g.coin("recFan")
	var body Tri
	step := Tri{
		fmt.Sprintf("acc %s %s(d) %s %d", op, tt[Wa], op, k), fmt.Sprintf("acc %s %s(d) %s %d", op, tt[Wz], op, k), fmt.Sprintf("acc %s %s(d) %s %d", op, tt[Go], op, k)}
	if fan {
		body = lines(
			block(tl("if d <= 0", "如果 d <= 0", "if d <= 0"), tf("%s acc", tl("return", "返回", "return"))),
			tf("%s %s(d-1, %s) + %s(d-2, acc)", tl("return", "返回", "return"), name, step, name))
	} else {
		body = lines(
			block(tl("if d <= 0", "如果 d <= 0", "if d <= 0"), tf("%s acc", tl("return", "返回", "return"))),
			tf("%s %s(d-1, %s)", tl("return", "返回", "return"), name, step))
	}
	head := tf("%s%s(%s)%s", tl("func ", "函数·", "func "), name, paramList(f.Params), resultList(f.Results, nil))
	g.decls = append(g.decls, block(head, body))
	// callers pass a small constant depth: wrap as a 1-parameter pure function
	w := &Fn{Name: g.fresh("fn"), Pure: true, Params: []*Var{{Name: "a", T: t}}, Results: []*Type{t}}
	depth := g.n(0, 9, "recDepth")
	whead := tf("%s%s(%s)%s", tl("func ", "函数·", "func "), w.Name, paramList(w.Params), resultList(w.Results, nil))
	g.decls = append(g.decls, block(whead, tf("%s %s(%d, a)", tl("return", "返回", "return"), name, depth)))
	g.funcs = append(g.funcs, w)
}

// ---------------------------------------------------------------- closures

func (g *G) funcLit(ft *Type, pure bool) Tri {
	var params []*Var
	for _, p := range ft.Params {
		params = append(params, &Var{Name: g.fresh("c"), T: p})
	}
	saveBudget, saveCur := g.budget, g.cur
	if pure && (g.cur == nil || !g.cur.Pure) {
		g.cur = &Fn{Name: "<lit>", Pure: true}
	}
	g.level++
	n := g.n(1, 3, "litStmts")
	g.budget = n
	body := g.funcBody(params, ft.Results, nil, n)
	g.level--
	g.budget, g.cur = saveBudget-1, saveCur
	head := tf("%s(%s)%s", tl("func", "函数", "func"), paramList(params), resultList(ft.Results, nil))
	return block(head, body)
}

func (g *G) funcType() *Type {
	ft := &Type{K: KFunc}
	for i, n := 0, g.n(0, 2, "litParams"); i < n; i++ {
		ft.Params = append(ft.Params, scalarTypes[g.n(0, len(scalarTypes)-1, "litPT")])
	}
	for i, n := 0, g.n(0, 2, "litResults"); i < n; i++ {
		ft.Results = append(ft.Results, scalarTypes[g.n(0, len(scalarTypes)-1, "litRT")])
	}
	return ft
}

// stClosure: define a closure capturing the surrounding variables, or call one.
func (g *G) stClosure() Tri {
	fvs := g.varsOf(func(v *Var) bool { return v.T.K == KFunc })
	if len(fvs) > 0 && g.coin("callClosure") {
		v := fvs[g.n(0, len(fvs)-1, "closureV")]
		var as []Tri
		for _, p := range v.T.Params {
			as = append(as, g.gen(p, 2).E)
		}
		g.feat("closure-call")
		return g.bindResults(tf("%s(%s)", v.Name, join(as, ", ")), v.T.Results)
	}
	ft := g.funcType()
	name := g.freshVar()
	g.feat("closure-capture")
	if g.chance(1, 5, "iife") { // immediately invoked
		lit := g.funcLit(ft, false)
		var as []Tri
		for _, p := range ft.Params {
			as = append(as, g.gen(p, 2).E)
		}
		return g.bindResults(tf("%s(%s)", lit, join(as, ", ")), ft.Results)
	}
	lit := g.funcLit(ft, false)
	g.declare(&Var{Name: name, T: ft, RO: true})
	return tf("%s := %s", name, lit)
}

// stDefer: deferred print / closure (evaluated arguments, LIFO order, named results).
func (g *G) stDefer() Tri {
	g.feat("defer")
	kw := tl("defer", "押后", "defer")
	switch g.n(0, 5, "deferForm") {
	case 0: // deferred call of a top-level function (arguments are evaluated now)
		var cands []*Fn
		for _, f := range g.funcs {
			if f.Recv == nil && f != g.cur && (f.Pure || g.cur == nil || !g.cur.Pure) {
				cands = append(cands, f)
			}
		}
		if len(cands) > 0 {
			f := cands[g.n(0, len(cands)-1, "deferFn")]
			g.feat("defer-call")
			return tf("%s %s(%s)", kw, f.Name, g.callArgs(f, 2))
		}
	case 1: // deferred interface-method call
		ivs := g.varsOf(func(v *Var) bool { return v.T.K == KIface && v.Level == g.level && !v.Global })
		if len(ivs) > 0 && (g.cur == nil || !g.cur.Pure) {
			v := ivs[g.n(0, len(ivs)-1, "deferIface")]
			m := v.T.Methods[g.n(0, len(v.T.Methods)-1, "deferMeth")]
			var as []Tri
			for _, p := range m.Params {
				as = append(as, g.gen(p, 2).E)
			}
			g.feat("defer-iface-call")
			return tf("%s %s(%s)", kw, sel(same(v.Name), m.Name), join(as, ", "))
		}
	case 2: // deferred method call on a struct variable / pointer
		vs := g.varsOf(func(v *Var) bool {
			if v.Global || v.Level != g.level || (g.cur != nil && g.cur.Pure) {
				return false
			}
			return (v.T.K == KStruct && len(v.T.Methods) > 0 && !v.RO) || (v.T.K == KPtr && len(v.T.Elem.Methods) > 0)
		})
		if len(vs) > 0 {
			v := vs[g.n(0, len(vs)-1, "deferRecv")]
			st := v.T
			if st.K == KPtr {
				st = st.Elem
			}
			m := st.Methods[g.n(0, len(st.Methods)-1, "deferMethS")]
			var as []Tri
			for _, p := range m.Params {
				as = append(as, g.gen(p, 2).E)
			}
			g.feat("defer-method-call")
			return tf("%s %s(%s)", kw, sel(same(v.Name), m.Name), join(as, ", "))
		}
	}
	if g.coin("deferPrint") {
		t := scalarTypes[g.n(0, len(scalarTypes)-1, "dT")]
		return tf("%s %s", kw, printCall(same(`"deferred"`), g.ifaceArg(t, 2)))
	}
	ft := &Type{K: KFunc}
	if g.coin("deferArg") {
		ft.Params = []*Type{scalarTypes[g.n(0, len(scalarTypes)-1, "dPT")]}
	}
	lit := g.funcLit(ft, false)
	var as []Tri
	for _, p := range ft.Params {
		as = append(as, g.gen(p, 2).E)
	}
	return tf("%s %s(%s)", kw, lit, join(as, ", "))
}

// ---------------------------------------------------------------- structs, methods, interfaces

func (g *G) genStruct() *Type {
	st := &Type{K: KStruct, Name: g.fresh("S")}
	nf := g.n(1, 4, "nfields")
	embedded := false
	for i := 0; i < nf; i++ {
		var ft *Type
		name := g.fresh("m")
		emb := false
		switch g.n(0, 7, "fieldKind") {
		case 0:
			if len(g.structs) > 0 {
				ft = g.structs[g.n(0, len(g.structs)-1, "fS")]
				if !embedded && g.coin("embed") {
					emb, embedded, name = true, true, ft.Name
					g.feat("embedded-struct")
				}
			}
		case 1:
			ft = &Type{K: KArray, N: g.n(1, 3, "fArrN"), Elem: scalarTypes[g.n(0, len(scalarTypes)-1, "fArrE")]}
		case 2:
			if len(g.structs) > 0 {
				ft = &Type{K: KPtr, Elem: g.structs[g.n(0, len(g.structs)-1, "fP")]}
			}
		}
		if ft == nil {
			ft = scalarTypes[g.n(0, len(scalarTypes)-1, "fT")]
		}
		st.Fields = append(st.Fields, Field{Name: name, T: ft, Embedded: emb})
	}
	var fs []Tri
	for _, f := range st.Fields {
		ft := f.T.Tri()
		if f.Embedded {
			fs = append(fs, ft)
		} else {
			fs = append(fs, Tri{f.Name + ": " + ft[Wa], f.Name + ": " + ft[Wz], f.Name + " " + ft[Go]})
		}
	}
	body := indent(join(fs, "\n"))
	g.decls = append(g.decls, Tri{
		"type " + st.Name + " :struct {\n" + body[Wa] + "\n}",
		"结构·" + st.Name + ":\n" + body[Wz] + "\n完毕",
		"type " + st.Name + " struct {\n" + body[Go] + "\n}"})
	g.structs = append(g.structs, st)
	return st
}

// genMethod adds a method with the given signature to a struct (pointer receiver `this`).
func (g *G) genMethod(st *Type, m Method) {
	f := &Fn{Name: m.Name, Recv: st, Results: m.Results, Pure: false}
	for _, p := range m.Params {
		f.Params = append(f.Params, &Var{Name: g.fresh("p"), T: p})
	}
	saveCur, saveBudget := g.cur, g.budget
	g.cur = f
	this := &Var{Name: "this", T: &Type{K: KPtr, Elem: st}, RO: true, NoUse: true}
	n := g.n(1, 4, "methStmts")
	g.budget = n
	body := g.funcBody(append([]*Var{this}, f.Params...), f.Results, nil, n)
	g.cur, g.budget = saveCur, saveBudget
	// receiver spelling: `this` in wa, `我的` in wz, `this` in Go
	body[Wz] = replaceIdent(body[Wz], "this", "我的")
	pl := paramList(f.Params)
	rl := resultList(f.Results, nil)
	g.decls = append(g.decls, block(Tri{
		"func " + st.Name + "." + m.Name + "(" + pl[Wa] + ")" + rl[Wa],
		"函数·" + st.Name + "·" + m.Name + "(" + pl[Wz] + ")" + rl[Wz],
		"func (this *" + st.Name + ") " + m.Name + "(" + pl[Go] + ")" + rl[Go]}, body))
	st.Methods = append(st.Methods, m)
	g.funcs = append(g.funcs, f)
	g.feat("method")
}

// replaceIdent replaces whole-word occurrences of an ASCII identifier.
func replaceIdent(s, old, new string) string {
	var b strings.Builder
	isId := func(c byte) bool {
		return c == '_' || c >= '0' && c <= '9' || c >= 'a' && c <= 'z' || c >= 'A' && c <= 'Z' || c >= 0x80
	}
	for i := 0; i < len(s); {
		if strings.HasPrefix(s[i:], old) && (i == 0 || !isId(s[i-1])) && (i+len(old) == len(s) || !isId(s[i+len(old)]) || strings.HasPrefix(s[i+len(old):], "·")) {
			b.WriteString(new)
			i += len(old)
			continue
		}
		b.WriteByte(s[i])
		i++
	}
	return b.String()
}

func (g *G) genIface() {
	it := &Type{K: KIface, Name: g.fresh("I")}
	for i, n := 0, g.n(1, 2, "nmeth"); i < n; i++ {
		m := Method{Name: g.fresh("M")}
		for j, k := 0, g.n(0, 2, "mparams"); j < k; j++ {
			m.Params = append(m.Params, scalarTypes[g.n(0, len(scalarTypes)-1, "mPT")])
		}
		m.Results = []*Type{scalarTypes[g.n(0, len(scalarTypes)-1, "mRT")]}
		it.Methods = append(it.Methods, m)
	}
	var ms []Tri
	for _, m := range it.Methods {
		ms = append(ms, funcSig(same(m.Name), nil, m.Params, m.Results))
	}
	body := indent(join(ms, "\n"))
	g.decls = append(g.decls, Tri{
		"type " + it.Name + " :interface {\n" + body[Wa] + "\n}",
		"接口·" + it.Name + ":\n" + body[Wz] + "\n完毕",
		"type " + it.Name + " interface {\n" + body[Go] + "\n}"})
	// implementing structs
	for i, n := 0, g.n(1, 2, "nimpl"); i < n; i++ {
		var st *Type
		if len(g.structs) > 0 && g.coin("reuseStruct") {
			st = g.structs[g.n(0, len(g.structs)-1, "implS")]
			dup := false
			for _, im := range it.Impls {
				if im == st {
					dup = true
				}
			}
			if dup {
				st = g.genStruct()
			}
		} else {
			st = g.genStruct()
		}
		for _, m := range it.Methods {
			g.genMethod(st, m)
		}
		it.Impls = append(it.Impls, st)
	}
	g.ifaces = append(g.ifaces, it)
	g.feat("iface-decl")
}

// stIface: declare / reassign an interface variable, call through it, assert.
func (g *G) stIface() Tri {
	ivs := g.varsOf(func(v *Var) bool { return v.T.K == KIface && !(v.Global && g.cur != nil && g.cur.Pure) })
	if len(ivs) == 0 || g.chance(1, 4, "newIface") {
		it := g.ifaces[g.n(0, len(g.ifaces)-1, "ifaceT")]
		name := g.freshVar()
		init := g.fallback(it)
		// prefer the address of an existing struct variable of an implementing type
		svs := g.varsOf(func(v *Var) bool {
			if v.T.K != KStruct || v.Global || v.Level != g.level {
				return false
			}
			for _, im := range it.Impls {
				if im == v.T {
					return true
				}
			}
			return false
		})
		if len(svs) > 0 && g.coin("addrOfVar") {
			init = tf("&%s", svs[g.n(0, len(svs)-1, "implV")].Name)
		}
		g.declare(&Var{Name: name, T: it})
		g.feat("iface-call")
		return declLocal(name, it, init)
	}
	v := ivs[g.n(0, len(ivs)-1, "ifaceV")]
	switch g.n(0, 3, "ifaceOp") {
	case 0, 1:
		m := v.T.Methods[g.n(0, len(v.T.Methods)-1, "meth")]
		var as []Tri
		for _, p := range m.Params {
			as = append(as, g.gen(p, 2).E)
		}
		g.feat("iface-call")
		return g.bindResults(tf("%s(%s)", sel(same(v.Name), m.Name), join(as, ", ")), m.Results)
	case 2:
		impl := v.T.Impls[g.n(0, len(v.T.Impls)-1, "assertT")]
		pv, ok := g.freshVar(), g.freshVar()
		g.feat("type-assert")
		// comma-ok assertion; the pointer is only dereferenced under ok
		var uses []Tri
		for _, f := range impl.Fields {
			if f.T.IsScalar() {
				uses = append(uses, printCall(same(quote(pv+"."+f.Name)), sel(same(pv), f.Name)))
			}
		}
		uses = append(uses, printCall(same(quote("assert ok "+impl.Name))))
		as := Tri{
			pv + ", " + ok + " := " + v.Name + ".(*" + impl.Name + ")",
			pv + ", " + ok + " := " + v.Name + "·(*" + impl.Name + ")",
			pv + ", " + ok + " := " + v.Name + ".(*" + impl.Name + ")"}
		guard := block(Tri{"if " + ok, "如果 " + ok, "if " + ok}, lines(uses...))
		elseB := printCall(same(quote("assert failed " + impl.Name)))
		guard = Tri{guard[Wa] + " else {\n\t" + elseB[Wa] + "\n}", strings.TrimSuffix(guard[Wz], "完毕") + "否则:\n\t" + elseB[Wz] + "\n完毕", guard[Go] + " else {\n\t" + elseB[Go] + "\n}"}
		return lines(as, tf("_ = %s", pv), guard)
	default:
		if v.RO {
			break
		}
		g.feat("iface-call")
		return tf("%s = %s", v.Name, g.fallback(v.T))
	}
	return g.stPrint()
}

// stMethodCall: direct method call on a struct variable / pointer, or a bound method value.
func (g *G) stMethodCall() Tri {
	vs := g.varsOf(func(v *Var) bool {
		if v.Global && g.cur != nil && g.cur.Pure {
			return false
		}
		if g.cur != nil && g.cur.Pure {
			return false
		}
		return (v.T.K == KStruct && len(v.T.Methods) > 0 && !v.RO) || (v.T.K == KPtr && len(v.T.Elem.Methods) > 0)
	})
	if len(vs) == 0 {
		return g.stAssign()
	}
	v := vs[g.n(0, len(vs)-1, "recvV")]
	st := v.T
	if st.K == KPtr {
		st = st.Elem
	}
	m := st.Methods[g.n(0, len(st.Methods)-1, "methS")]
	var as []Tri
	for _, p := range m.Params {
		as = append(as, g.gen(p, 2).E)
	}
	if g.chance(1, 4, "methodValue") {
		g.feat("method-value")
		mv := g.freshVar()
		bind := tf("%s := %s", mv, sel(same(v.Name), m.Name))
		return lines(bind, g.bindResults(tf("%s(%s)", mv, join(as, ", ")), m.Results))
	}
	g.feat("method-call")
	return g.bindResults(tf("%s(%s)", sel(same(v.Name), m.Name), join(as, ", ")), m.Results)
}

// stBytes: []byte(s) / string(bs) conversions.
func (g *G) stBytes() Tri {
	g.feat("string-conv")
	name := g.freshVar()
	s := g.gen(TString, 2).E
	g.declare(&Var{Name: name, T: &Type{K: KSlice, Elem: TU8}})
	return Tri{name + " := []byte(" + s[Wa] + ")", name + " := []字节(" + s[Wz] + ")", name + " := []byte(" + s[Go] + ")"}
}

// ---------------------------------------------------------------- program

const goPrelude = `package main

import (
	"bufio"
	"fmt"
	"os"
)

type wint int32
type wuint uint32

var _out = bufio.NewWriterSize(os.Stdout, 1<<16)

func println(args ...interface{}) {
	for i, a := range args {
		if i > 0 {
			_out.WriteByte(' ')
		}
		fmt.Fprint(_out, a)
	}
	_out.WriteByte('\n')
}

func main() {
	defer _out.Flush()
	wmain()
}
`

// Gen draws one program.
func Gen(t *rapid.T, opt Options) *Program {
	if opt.MaxStmts == 0 {
		opt.MaxStmts = 36
	}
	if opt.MaxFuncs == 0 {
		opt.MaxFuncs = 4
	}
	if opt.Depth == 0 {
		opt.Depth = 3
	}
	g := &G{t: t, opt: opt, feats: map[string]int{}, helpers: map[string]Tri{}, trip: 1}
	g.sc = &scope{}

	// globals: one of every scalar type, so a non-constant leaf always exists
	for _, st := range scalarTypes {
		name := "g_" + st.Tri()[Wa]
		init := g.literal(st).E
		tt := st.Tri()
		g.decls = append(g.decls, Tri{
			"global " + name + ": " + tt[Wa] + " = " + init[Wa],
			"全局·" + name + ": " + tt[Wz] + " = " + init[Wz],
			"var " + name + " " + tt[Go] + " = " + init[Go]})
		g.globals = append(g.globals, &Var{Name: name, T: st, Global: true})
	}
	if g.allow("struct") {
		maxS := 2
		if opt.MaxStructs > 0 {
			maxS = opt.MaxStructs
		}
		for i, n := 0, g.n(0, maxS, "nstructs"); i < n; i++ {
			g.genStruct()
		}
	}
	if g.allow("iface") {
		if opt.MaxIfaces > 1 {
			for i, n := 0, g.n(1, opt.MaxIfaces, "nifaces"); i < n; i++ {
				g.genIface()
			}
		} else if g.chance(1, 2, "ifaces") {
			g.genIface()
		}
	}
	// methods on plain structs
	if g.allow("method") {
		for _, st := range g.structs {
			if len(st.Methods) == 0 && g.chance(1, 2, "plainMethod") {
				m := Method{Name: g.fresh("M")}
				for j, k := 0, g.n(0, 2, "mparams"); j < k; j++ {
					m.Params = append(m.Params, scalarTypes[g.n(0, len(scalarTypes)-1, "mPT")])
				}
				if g.coin("mres") {
					m.Results = []*Type{scalarTypes[g.n(0, len(scalarTypes)-1, "mRT")]}
				}
				g.genMethod(st, m)
			}
		}
	}
	// composite globals
	maxCG := 2
	if opt.NoCompositeGlobals {
		maxCG = 0
	}
	for i, n := 0, g.n(0, maxCG, "ncglobals"); i < n; i++ {
		ct := g.pickType("gT")
		if ct.IsScalar() || ct.K == KPtr {
			continue
		}
		name := g.fresh("gc")
		tt := ct.Tri()
		if ct.K == KMap {
			// nil map globals are made in main
			g.decls = append(g.decls, Tri{"global " + name + ": " + tt[Wa], "全局·" + name + ": " + tt[Wz], "var " + name + " " + tt[Go]})
			g.globals = append(g.globals, &Var{Name: name, T: ct, Global: true, NoUse: false})
		} else if ct.K == KStruct && g.hasPtrField(ct) {
			continue
		} else {
			g.decls = append(g.decls, Tri{"global " + name + ": " + tt[Wa], "全局·" + name + ": " + tt[Wz], "var " + name + " " + tt[Go]})
			g.globals = append(g.globals, &Var{Name: name, T: ct, Global: true})
		}
		g.feat("global-init")
	}
	if g.allow("call") {
		for i, n := 0, g.n(0, opt.MaxFuncs, "nfuncs"); i < n; i++ {
			g.genFunc()
		}
		if g.chance(1, 3, "recursive") {
			g.genRecursive()
		}
	}

	// main
	g.cur = nil
	g.budget = g.n(3, opt.MaxStmts, "mainStmts")
	mainFn := &Fn{Name: "main"}
	g.cur = mainFn
	g.push()
	var ls []Tri
	for _, v := range g.globals {
		if v.T.K == KMap {
			ls = append(ls, tf("%s = %s(%s)", v.Name, tl("make", "构建", "make"), v.T.Tri()))
		}
	}
	n := g.budget
	for i := 0; i < n && g.budget > -40; i++ {
		ls = append(ls, g.stmt())
	}
	ls = append(ls, g.usesOfScope())
	for _, v := range g.globals {
		ls = append(ls, g.use(v))
	}
	g.pop()
	body := lines(ls...)
	mainDecl := block(tl("func main", "函数·主控", "func wmain()"), body)

	var hs []Tri
	for _, h := range g.horder {
		hs = append(hs, g.helpers[h])
	}
	all := join(append(append(append([]Tri{}, g.decls...), hs...), mainDecl), "\n\n")
	all[Go] = goPrelude + "\n" + all[Go] + "\n"
	all[Wa] += "\n"
	all[Wz] += "\n"
	return &Program{Src: all, Features: g.feats, Stmts: g.stmts}
}
