package wagen

import (
	"fmt"
	"strings"
)

// stTypeSwitch: an empty-interface value holding a scalar or a struct pointer,
// dispatched by a type switch (binding form) and by comma-ok assertions.
func (g *G) stTypeSwitch() Tri {
	g.feat("type-switch")
	iv := g.freshVar()
	// candidate dynamic types: scalars, and pointers to generated structs
	cands := []*Type{TI32, TString, TBool, TF64, TU8, TI64, TInt}
	if g.excl(ExclIntI32Iface) {
		// known finding: int and i32 (uint and u32) are one dynamic type at run time
		cands[6] = TU16
	}
	for _, st := range g.structs {
		cands = append(cands, &Type{K: KPtr, Elem: st})
	}
	dyn := cands[g.n(0, len(cands)-1, "dynT")]
	var init Tri
	if dyn.K == KPtr {
		init = g.fallback(dyn)
	} else {
		e := g.gen(dyn, 2)
		init = e.E
		if dyn.IsNum() {
			init = tf("%s(%s)", dyn.Tri(), e.E) // the dynamic type must be explicit
		}
	}
	decl := Tri{
		iv + ": interface{} = " + init[Wa],
		"设定 " + iv + ": 皮囊 = " + init[Wz],
		"var " + iv + " interface{} = " + init[Go]}
	bv := g.freshVar()
	// case list: a random subset of the candidates in random order, each type once
	var cases []Tri
	seen := map[string]bool{}
	ncase := g.n(1, 4, "ncaseTS")
	for i := 0; i < ncase; i++ {
		ct := cands[g.n(0, len(cands)-1, "caseT")]
		if seen[ct.TKey()] {
			continue
		}
		seen[ct.TKey()] = true
		var body Tri
		if ct.K == KPtr {
			var ls []Tri
			for _, f := range ct.Elem.Fields {
				if f.T.IsScalar() {
					ls = append(ls, printCall(same(quote("ts "+ct.Elem.Name+"."+f.Name)), sel(same(bv), f.Name)))
				}
			}
			ls = append(ls, printCall(same(quote("ts ptr "+ct.Elem.Name))))
			body = lines(ls...)
		} else {
			body = printCall(same(quote("ts "+ct.Tri()[Wa])), same(bv))
		}
		b := indent(body)
		ctt := ct.Tri()
		cases = append(cases, Tri{"case " + ctt[Wa] + ":\n" + b[Wa], "有辙 " + ctt[Wz] + ":\n" + b[Wz], "case " + ctt[Go] + ":\n" + b[Go]})
	}
	def := indent(lines(tf("_ = %s", bv), printCall(same(`"ts default"`))))
	cases = append(cases, Tri{"default:\n" + def[Wa], "没辙:\n" + def[Wz], "default:\n" + def[Go]})
	body := join(cases, "\n")
	sw := Tri{
		"switch " + bv + " := " + iv + ".(type) {\n" + body[Wa] + "\n}",
		"找辙 " + bv + " := " + iv + "·(类型):\n" + body[Wz] + "\n完毕",
		"switch " + bv + " := " + iv + ".(type) {\n" + body[Go] + "\n}"}
	// comma-ok assertion to a scalar type
	at := cands[g.n(0, 6, "assertScalar")]
	av, ok := g.freshVar(), g.freshVar()
	att := at.Tri()
	as := Tri{
		av + ", " + ok + " := " + iv + ".(" + att[Wa] + ")",
		av + ", " + ok + " := " + iv + "·(" + att[Wz] + ")",
		av + ", " + ok + " := " + iv + ".(" + att[Go] + ")"}
	return lines(decl, sw, as, printCall(same(quote("assert "+att[Wa])), same(av), same(ok)))
}

// stTupleAssign: `a, b = b, a` / `a, b = e1, e2` — all right-hand sides (and index
// operands on the left) are evaluated before any assignment happens.
func (g *G) stTupleAssign() Tri {
	t := scalarTypes[g.n(0, len(scalarTypes)-1, "tupT")]
	ps := g.places(t, true)
	if len(ps) < 2 {
		return g.stAssign()
	}
	i := g.n(0, len(ps)-1, "tupA")
	j := g.n(0, len(ps)-2, "tupB")
	if j >= i {
		j++
	}
	a, b := ps[i], ps[j]
	g.feat("tuple-assign")
	if (a.Root != nil && a.Root.Global) || (b.Root != nil && b.Root.Global) {
		g.feat("global-write")
	}
	if g.coin("swap") {
		return tf("%s, %s = %s, %s", a.E, b.E, b.E, a.E)
	}
	// right-hand sides that read both targets
	e1 := tf("%s", b.E)
	e2 := tf("%s", a.E)
	switch {
	case t.IsInt():
		e1 = tf("(%s + %s)", a.E, b.E)
		e2 = tf("(%s ^ %s)", a.E, g.gen(t, 1).E)
	case t.IsFloat():
		e1 = tf("(%s - %s)", b.E, a.E)
	case t.K == KString:
		g.needScap()
		e1 = tf("scap(%s + %s)", b.E, a.E)
	case t.K == KBool:
		e1 = tf("(!%s)", b.E)
	}
	return tf("%s, %s = %s, %s", a.E, b.E, e1, e2)
}

// stSliceSpread: append(s, t...) and copy(dst, src) between slice variables.
func (g *G) stSliceSpread() Tri {
	vs := g.varsOf(func(v *Var) bool {
		return v.T.K == KSlice && v.T.Elem.IsScalar() && !v.RO && !v.NoApp && !(v.Global && g.cur != nil && g.cur.Pure)
	})
	if len(vs) == 0 {
		return g.stDecl()
	}
	dst := vs[g.n(0, len(vs)-1, "spreadDst")]
	if dst.Global {
		g.feat("global-write")
	}
	// source: another slice variable of the same type (possibly dst itself) or a literal
	// (only sources that never grow: appending a growing slice to another one grows exponentially
	// when the statement runs repeatedly, and every element is printed at scope end)
	srcs := g.varsOf(func(v *Var) bool { return v.T.K == KSlice && sameType(v.T, dst.T) && (v.RO || v.NoApp) && v != dst })
	var src Tri
	if len(srcs) > 0 && g.chance(2, 3, "spreadVar") {
		src = same(srcs[g.n(0, len(srcs)-1, "spreadSrc")].Name)
	} else {
		src = g.zeroValue(dst.T)
	}
	if g.coin("copyNotAppend") {
		g.feat("copy")
		n := g.freshVar()
		g.declare(&Var{Name: n, T: TInt})
		return Tri{
			fmt.Sprintf("%s := copy(%s, %s)", n, dst.Name, src[Wa]),
			fmt.Sprintf("%s := 拷贝(%s, %s)", n, dst.Name, src[Wz]),
			fmt.Sprintf("%s := wint(copy(%s, %s))", n, dst.Name, src[Go])}
	}
	// growth by an unknown amount: bounded because every slice is bounded (trip counts are)
	if g.trip > 4 {
		return printCall(lenOf(same(dst.Name)))
	}
	g.feat("append-spread")
	return Tri{
		fmt.Sprintf("%s = append(%s, %s...)", dst.Name, dst.Name, src[Wa]),
		fmt.Sprintf("%s = 追加(%s, %s...)", dst.Name, dst.Name, src[Wz]),
		fmt.Sprintf("%s = append(%s, %s...)", dst.Name, dst.Name, src[Go])}
}

// stAnonStruct: a value of an anonymous struct type (as a value, behind a pointer
// on the heap, or boxed in an interface and asserted back). 凹中文 has no
// anonymous struct types: the .wz rendering declares a named struct with the
// same fields, which prints the same.
func (g *G) stAnonStruct() Tri {
	g.feat("anon-struct")
	tn := "An" + g.freshVar()
	nf := g.n(1, 3, "anonFields")
	var fts []*Type
	var vals []Tri
	var decl [3][]string
	for i := 0; i < nf; i++ {
		ft := scalarTypes[g.n(0, len(scalarTypes)-1, "anonFT")]
		fts = append(fts, ft)
		name := "f" + string(rune('0'+i))
		tt := ft.Tri()
		decl[Wa] = append(decl[Wa], name+": "+tt[Wa])
		decl[Wz] = append(decl[Wz], "\t"+name+": "+tt[Wz])
		decl[Go] = append(decl[Go], name+" "+tt[Go])
		e := g.gen(ft, 2).E
		if ft.IsNum() {
			e = tf("%s(%s)", ft.Tri(), e)
		}
		vals = append(vals, tf("%s: %s", name, e))
	}
	g.helper("type:"+tn, Tri{"", "结构·" + tn + ":\n" + strings.Join(decl[Wz], "\n") + "\n完毕\n", ""})
	ty := Tri{"struct{ " + strings.Join(decl[Wa], "; ") + " }", tn, "struct{ " + strings.Join(decl[Go], "; ") + " }"}
	lit := tf("%s{%s}", ty, join(vals, ", "))
	v := g.freshVar()
	var prints []Tri
	form := g.n(0, 2, "anonForm")
	var head Tri
	switch form {
	case 0:
		head = tf("%s := %s", v, lit)
	case 1:
		g.feat("anon-struct-heap")
		head = tf("%s := &%s", v, lit)
	default:
		g.feat("anon-struct-boxed")
		iv, ok := g.freshVar(), g.freshVar()
		head = lines(
			Tri{iv + ": interface{} = " + lit[Wa], "设定 " + iv + ": 皮囊 = " + lit[Wz], "var " + iv + " interface{} = " + lit[Go]},
			Tri{v + ", " + ok + " := " + iv + ".(" + ty[Wa] + ")", v + ", " + ok + " := " + iv + "·(" + ty[Wz] + ")", v + ", " + ok + " := " + iv + ".(" + ty[Go] + ")"},
			printCall(same(quote("anon ok")), same(ok)))
	}
	for i := range fts {
		prints = append(prints, printCall(same(quote("anon f"+string(rune('0'+i)))), sel(same(v), "f"+string(rune('0'+i)))))
	}
	return lines(append([]Tri{head}, prints...)...)
}

// stMapChurn: a short operation history on a fresh local map: inserts in a
// drawn order, deletes of older keys, re-inserts, then a lookup (comma-ok) of
// every candidate key and len. Lookups and len are deterministic, so no range.
func (g *G) stMapChurn() Tri {
	g.feat("map-churn")
	kt := []*Type{TInt, TI32, TString, TU8, TI64}[g.n(0, 4, "churnKT")]
	mt := &Type{K: KMap, Key: kt, Elem: TI32}
	m := g.freshVar()
	nkeys := g.n(4, 9, "churnKeys")
	keyLit := func(i int) Tri {
		switch kt.K {
		case KString:
			return same(quote(fmt.Sprintf("k%d", i)))
		case KU8:
			return same(fmt.Sprint(i * 23 % 251))
		}
		return same(fmt.Sprint(i*7 - 20))
	}
	out := []Tri{tf("%s := %s{}", m, mt.Tri())}
	nops := g.n(6, 22, "churnOps")
	for i := 0; i < nops; i++ {
		k := keyLit(g.n(0, nkeys-1, "churnK"))
		if g.chance(1, 3, "churnDel") {
			out = append(out, tf("%s(%s, %s)", tl("delete", "删除", "delete"), m, k))
		} else {
			out = append(out, tf("%s[%s] = %d", m, k, i+1))
		}
	}
	e, ok := g.freshVar(), g.freshVar()
	for i := 0; i < nkeys; i++ {
		asg := ":="
		if i > 0 {
			asg = "="
		}
		out = append(out, tf("%s, %s %s %s[%s]", e, ok, asg, m, keyLit(i)))
		out = append(out, printCall(same(quote("churn")), same(e), same(ok)))
	}
	out = append(out, printCall(same(quote("churn len")), lenOf(same(m))))
	return lines(out...)
}
