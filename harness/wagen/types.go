// Package wagen generates typed Wa programs from rapid draws and renders each
// one three ways from the same structure: Wa English syntax (.wa), Wa Chinese
// syntax (.wz) and Go.  Programs are well defined by construction (see
// DESIGN.md §2.1): no division by zero, no out-of-range index, no nil
// dereference, no dependence on map iteration order, capacity growth policy or
// unspecified evaluation order; every loop is bounded.
package wagen

import (
	"fmt"
	"strings"
)

// Lang selects a rendering.
type Lang int

const (
	Wa Lang = iota
	Wz
	Go
)

// Tri is the same program fragment in the three renderings.
type Tri [3]string

func same(s string) Tri { return Tri{s, s, s} }

// tf formats a fragment; arguments of type Tri are substituted per language,
// everything else is formatted identically in all three.
func tf(format string, args ...interface{}) Tri {
	var out Tri
	for l := 0; l < 3; l++ {
		as := make([]interface{}, len(args))
		for i, a := range args {
			if t, ok := a.(Tri); ok {
				as[i] = t[l]
			} else {
				as[i] = a
			}
		}
		out[l] = fmt.Sprintf(format, as...)
	}
	return out
}

// tl builds a fragment whose text differs per language.
func tl(wa, wz, g string) Tri { return Tri{wa, wz, g} }

func join(parts []Tri, sep string) Tri {
	var out Tri
	for l := 0; l < 3; l++ {
		ss := make([]string, len(parts))
		for i, p := range parts {
			ss[i] = p[l]
		}
		out[l] = strings.Join(ss, sep)
	}
	return out
}

func lines(parts ...Tri) Tri {
	var keep []Tri
	for _, p := range parts {
		if p[0] == "" && p[1] == "" && p[2] == "" {
			continue
		}
		keep = append(keep, p)
	}
	return join(keep, "\n")
}

func indent(t Tri) Tri {
	var out Tri
	for l := 0; l < 3; l++ {
		if t[l] == "" {
			continue
		}
		ls := strings.Split(t[l], "\n")
		for i := range ls {
			if ls[i] != "" {
				ls[i] = "\t" + ls[i]
			}
		}
		out[l] = strings.Join(ls, "\n")
	}
	return out
}

// block renders head + body with the language's block syntax.
func block(head Tri, body Tri) Tri {
	b := indent(body)
	return Tri{
		head[Wa] + " {\n" + b[Wa] + "\n}",
		head[Wz] + ":\n" + b[Wz] + "\n完毕",
		head[Go] + " {\n" + b[Go] + "\n}",
	}
}

// sel renders a selector x.f (full-width dot in wz).
func sel(x Tri, f string) Tri { return Tri{x[Wa] + "." + f, x[Wz] + "·" + f, x[Go] + "." + f} }

// ---------------------------------------------------------------- types

type Kind int

const (
	KBool Kind = iota
	KU8
	KU16
	KI32
	KInt
	KU32
	KUint
	KI64
	KU64
	KF32
	KF64
	KString
	KArray
	KSlice
	KStruct
	KPtr
	KMap
	KIface
	KFunc
)

// Field of a struct.
type Field struct {
	Name     string
	T        *Type
	Embedded bool
}

// Method signature.
type Method struct {
	Name    string
	Params  []*Type
	Results []*Type
}

// Type is a generated type.
type Type struct {
	K       Kind
	N       int      // array length
	Elem    *Type    // array/slice/ptr/map value
	Key     *Type    // map key
	Name    string   // struct / iface name
	Fields  []Field  // struct
	Methods []Method // iface methods; struct: methods it implements
	Params  []*Type  // func
	Results []*Type  // func
	Impls   []*Type  // iface: implementing struct types
}

var (
	TBool   = &Type{K: KBool}
	TU8     = &Type{K: KU8}
	TU16    = &Type{K: KU16}
	TI32    = &Type{K: KI32}
	TInt    = &Type{K: KInt}
	TU32    = &Type{K: KU32}
	TUint   = &Type{K: KUint}
	TI64    = &Type{K: KI64}
	TU64    = &Type{K: KU64}
	TF32    = &Type{K: KF32}
	TF64    = &Type{K: KF64}
	TString = &Type{K: KString}
)

var intTypes = []*Type{TI32, TInt, TU8, TU16, TU32, TUint, TI64, TU64}
var floatTypes = []*Type{TF64, TF32}
var scalarTypes = []*Type{TI32, TInt, TBool, TU8, TString, TI64, TU32, TF64, TU16, TUint, TU64, TF32}

var scalarNames = map[Kind]Tri{
	KBool: {"bool", "布尔", "bool"}, KU8: {"u8", "微正整", "uint8"}, KU16: {"u16", "短正整", "uint16"},
	KI32: {"i32", "普整型", "int32"}, KInt: {"int", "整型", "wint"}, KU32: {"u32", "普正整", "uint32"},
	KUint: {"uint", "正整", "wuint"}, KI64: {"i64", "长整型", "int64"}, KU64: {"u64", "长正整", "uint64"},
	KF32: {"f32", "单精", "float32"}, KF64: {"f64", "双精", "float64"}, KString: {"string", "字串", "string"},
}

func (t *Type) IsInt() bool    { return t.K >= KU8 && t.K <= KU64 }
func (t *Type) IsFloat() bool  { return t.K == KF32 || t.K == KF64 }
func (t *Type) IsNum() bool    { return t.IsInt() || t.IsFloat() }
func (t *Type) IsScalar() bool { return t.K <= KString }
func (t *Type) Signed() bool   { return t.K == KI32 || t.K == KInt || t.K == KI64 }
func (t *Type) Bits() uint {
	switch t.K {
	case KU8:
		return 8
	case KU16:
		return 16
	case KI64, KU64, KF64:
		return 64
	}
	return 32
}

// Comparable reports whether == is generated for the type.
func (t *Type) Comparable() bool { return t.IsScalar() }

// Key identifies a type structurally.
func (t *Type) TKey() string { return t.Tri()[Go] }

// Tri is the type's spelling.
func (t *Type) Tri() Tri {
	switch t.K {
	case KArray:
		return tf("[%d]%s", t.N, t.Elem.Tri())
	case KSlice:
		return tf("[]%s", t.Elem.Tri())
	case KStruct, KIface:
		return same(t.Name)
	case KPtr:
		return tf("*%s", t.Elem.Tri())
	case KMap:
		e, k := t.Elem.Tri(), t.Key.Tri()
		return Tri{"map[" + k[Wa] + "]" + e[Wa], "字典[" + k[Wz] + "]" + e[Wz], "map[" + k[Go] + "]" + e[Go]}
	case KFunc:
		return funcSig(Tri{"func", "函数", "func"}, nil, t.Params, t.Results)
	}
	return scalarNames[t.K]
}

// funcSig renders "func(p0: T, …) => (R…)" / Go equivalent. names may be nil
// (then parameters are named a0, a1 … in Wa, which requires names).
func funcSig(kw Tri, names []string, params, results []*Type) Tri {
	var ps []Tri
	for i, p := range params {
		n := fmt.Sprintf("a%d", i)
		if names != nil {
			n = names[i]
		}
		pt := p.Tri()
		ps = append(ps, Tri{n + ": " + pt[Wa], n + ": " + pt[Wz], n + " " + pt[Go]})
	}
	out := tf("%s(%s)", kw, join(ps, ", "))
	if len(results) == 1 {
		rt := results[0].Tri()
		out = Tri{out[Wa] + " => " + rt[Wa], out[Wz] + " => " + rt[Wz], out[Go] + " " + rt[Go]}
	} else if len(results) > 1 {
		var rs []Tri
		for _, r := range results {
			rs = append(rs, r.Tri())
		}
		j := join(rs, ", ")
		out = Tri{out[Wa] + " => (" + j[Wa] + ")", out[Wz] + " => (" + j[Wz] + ")", out[Go] + " (" + j[Go] + ")"}
	}
	return out
}

func sameType(a, b *Type) bool { return a == b || a.TKey() == b.TKey() }
