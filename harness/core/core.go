// Package core is the plumbing shared by every property check: run
// configuration (tier, seed, shard), evidence accounting, replay files and the
// known-findings matcher.  It deliberately has no dependency on /repo.
package core

import (
	"crypto/sha256"
	"encoding/binary"
	"encoding/json"
	"fmt"
	"hash/fnv"
	"os"
	"path/filepath"
	"regexp"
	"runtime/debug"
	"sort"
	"strconv"
	"strings"
	"sync"
	"testing"

	"pgregory.net/rapid"
)

// ---------------------------------------------------------------- environment

// VerifDir is the root of the verification tree (default /verif).
func VerifDir() string {
	if d := os.Getenv("VERIF_DIR"); d != "" {
		return d
	}
	return "/verif"
}

// RepoDir is the tree under test (default /repo).
func RepoDir() string {
	if d := os.Getenv("VERIF_REPO"); d != "" {
		return d
	}
	return "/repo"
}

// Tier returns "quick" or "thorough".
func Tier() string {
	if os.Getenv("VERIF_TIER") == "thorough" {
		return "thorough"
	}
	return "quick"
}

// Thorough reports whether the thorough tier is running.
func Thorough() bool { return Tier() == "thorough" }

// Scale picks the per-tier size of a loop.
func Scale(quick, thorough int) int {
	if Thorough() {
		return thorough
	}
	return quick
}

// Seed is VERIF_SEED (0 and unset are remapped to 1).
func Seed() int64 {
	v, _ := strconv.ParseInt(os.Getenv("VERIF_SEED"), 10, 64)
	if v == 0 {
		v = 1
	}
	return v
}

// Shard returns this process's shard index and the shard count.
func Shard() (i, n int) {
	i, _ = strconv.Atoi(os.Getenv("VERIF_SHARD"))
	n, _ = strconv.Atoi(os.Getenv("VERIF_NSHARDS"))
	if n <= 0 {
		n = 1
	}
	return i, n
}

// FirstShard is true in the shard that runs once-only work (corpus replay,
// calibration, exhaustive enumerations that are not sharded).
func FirstShard() bool { i, _ := Shard(); return i == 0 }

// SplitMix derives an independent 64-bit stream value; used to turn one rapid
// draw into a cheap deterministic bulk stream inside a single case.
func SplitMix(x uint64) uint64 {
	x += 0x9e3779b97f4a7c15
	z := x
	z = (z ^ (z >> 30)) * 0xbf58476d1ce4e5b9
	z = (z ^ (z >> 27)) * 0x94d049bb133111eb
	return z ^ (z >> 31)
}

// Hash64 hashes arbitrary values (via fmt) to 64 bits.
func Hash64(parts ...interface{}) uint64 {
	h := fnv.New64a()
	for _, p := range parts {
		switch v := p.(type) {
		case []byte:
			h.Write(v)
		case string:
			h.Write([]byte(v))
		default:
			fmt.Fprintf(h, "%v", v)
		}
		h.Write([]byte{0})
	}
	return h.Sum64()
}

// ---------------------------------------------------------------- known findings

// Finding is one line of /verif/known_findings.jsonl.
type Finding struct {
	Property string `json:"property"`
	Key      string `json:"key"`
	Status   string `json:"status"` // "known" | "fixed"
	Commit   string `json:"commit,omitempty"`
	What     string `json:"what"`
	Repro    string `json:"repro,omitempty"` // replay file relative to /verif
}

var (
	findingsOnce sync.Once
	findings     []Finding
)

// Findings returns the entries for one property.
func Findings(property string) []Finding {
	findingsOnce.Do(func() {
		data, err := os.ReadFile(filepath.Join(VerifDir(), "known_findings.jsonl"))
		if err != nil {
			return
		}
		for _, line := range strings.Split(string(data), "\n") {
			line = strings.TrimSpace(line)
			if line == "" || strings.HasPrefix(line, "#") {
				continue
			}
			var f Finding
			if json.Unmarshal([]byte(line), &f) == nil && f.Property != "" {
				findings = append(findings, f)
			}
		}
	})
	var out []Finding
	for _, f := range findings {
		if f.Property == property {
			out = append(out, f)
		}
	}
	return out
}

// IsKnown reports whether key is listed with status "known" for property.
// Generators use it to exclude a confirmed defect class by construction.
func IsKnown(property, key string) bool {
	for _, f := range Findings(property) {
		if f.Status == "known" && f.Key == key {
			return true
		}
	}
	return false
}

// ---------------------------------------------------------------- stats / evidence

// TB is the subset of testing.TB / *rapid.T the helpers need.
type TB interface {
	Fatalf(format string, args ...interface{})
	Logf(format string, args ...interface{})
	Helper()
}

const maxHashes = 400000

// Stats accumulates what one test of one property covered in this process.
type Stats struct {
	mu          sync.Mutex
	Property    string
	Test        string
	evaluations int64
	hashes      map[uint64]struct{}
	hashOver    int64
	classes     map[string]int64
	counters    map[string]int64
	samples     []interface{}
	sampleSeen  int
	rule        string
	assumptions []string
	violations  []violationRec
	knownHits   map[string]int64
	knownSeen   []string // KNOWN-FINDING lines confirmed by reproducer
	notes       []string
	exhaustive  bool
	flushed     bool
}

type violationRec struct {
	Key    string `json:"key"`
	What   string `json:"what"`
	Replay string `json:"replay"`
}

var (
	allStatsMu sync.Mutex
	allStats   []*Stats
)

// NewStats creates the accounting object for one test.
func NewStats(property, test string) *Stats {
	s := &Stats{Property: property, Test: test,
		hashes: map[uint64]struct{}{}, classes: map[string]int64{},
		counters: map[string]int64{}, knownHits: map[string]int64{}}
	allStatsMu.Lock()
	allStats = append(allStats, s)
	allStatsMu.Unlock()
	return s
}

func (s *Stats) Rule(text string)   { s.mu.Lock(); s.rule = text; s.mu.Unlock() }
func (s *Stats) Exhaustive(b bool)  { s.mu.Lock(); s.exhaustive = b; s.mu.Unlock() }
func (s *Stats) Note(text string)   { s.mu.Lock(); s.notes = append(s.notes, text); s.mu.Unlock() }
func (s *Stats) Assume(text string) { s.mu.Lock(); s.assumptions = append(s.assumptions, text); s.mu.Unlock() }

// Eval counts n evaluated cases.
func (s *Stats) Eval(n int64) { s.mu.Lock(); s.evaluations += n; s.mu.Unlock() }

// Nontrivial records one distinct non-trivial case by hash.
func (s *Stats) Nontrivial(h uint64) {
	s.mu.Lock()
	if len(s.hashes) < maxHashes {
		s.hashes[h] = struct{}{}
	} else if _, ok := s.hashes[h]; !ok {
		s.hashOver++
	}
	s.mu.Unlock()
}

// Class bumps a generator-health histogram bucket.
func (s *Stats) Class(name string) { s.Count(name, 1) }

func (s *Stats) Count(name string, n int64) {
	s.mu.Lock()
	s.classes[name] += n
	s.mu.Unlock()
}

// Counter bumps a named bookkeeping counter (rejected_by_domain, excluded_by_known, …).
func (s *Stats) Counter(name string, n int64) {
	s.mu.Lock()
	s.counters[name] += n
	s.mu.Unlock()
}

// Sample keeps a few actual cases (first ones plus sparse later ones).
func (s *Stats) Sample(v interface{}) {
	s.mu.Lock()
	defer s.mu.Unlock()
	s.sampleSeen++
	if len(s.samples) < 3 {
		s.samples = append(s.samples, truncateSample(v))
		return
	}
	// keep two rotating later samples: powers of two positions
	if s.sampleSeen&(s.sampleSeen-1) == 0 {
		if len(s.samples) < 5 {
			s.samples = append(s.samples, truncateSample(v))
		} else {
			s.samples[3+(s.sampleSeen>>1)%2] = truncateSample(v)
		}
	}
}

func truncateSample(v interface{}) interface{} {
	b, err := json.Marshal(v)
	if err != nil {
		return fmt.Sprintf("%v", v)
	}
	if len(b) <= 3000 {
		return json.RawMessage(b)
	}
	return string(b[:3000]) + "…(truncated)"
}

// ---------------------------------------------------------------- cases

// Case is one generated case under evaluation.
type Case struct {
	s        *Stats
	t        TB
	payload  interface{}
	nontriv  bool
	ntHash   uint64
	ntHashed bool
	classes  []string
}

// NewCase starts a case outside rapid (enumerations, corpus files).
func (s *Stats) NewCase(t TB) *Case { return &Case{s: s, t: t} }

// Set stores the replayable payload (must be JSON-marshalable and sufficient
// for the package's replay function).
func (c *Case) Set(v interface{}) { c.payload = v }

// Nontrivial marks the case non-trivial; distinctness is by the hash of parts
// (or of the payload when no parts are given).
func (c *Case) Nontrivial(parts ...interface{}) {
	c.nontriv = true
	if len(parts) > 0 {
		c.ntHash = Hash64(parts...)
		c.ntHashed = true
	}
}

func (c *Case) Class(name string) { c.classes = append(c.classes, name) }

// Done closes a successfully evaluated case.
func (c *Case) Done() {
	c.s.Eval(1)
	for _, cl := range c.classes {
		c.s.Class(cl)
	}
	if c.nontriv {
		h := c.ntHash
		if !c.ntHashed {
			b, _ := json.Marshal(c.payload)
			h = Hash64(b)
		}
		c.s.Nontrivial(h)
		if c.payload != nil {
			c.s.Sample(c.payload)
		}
	}
}

var sanitizeRe = regexp.MustCompile(`[^A-Za-z0-9_.-]+`)

// ReplayFile is the on-disk, library-free form of a failing case.
type ReplayFile struct {
	Property string          `json:"property"`
	Test     string          `json:"test"`
	Key      string          `json:"key"`
	What     string          `json:"what"`
	Seed     int64           `json:"seed"`
	Case     json.RawMessage `json:"case"`
}

// Fail reports a violation of the property on this case.  If the key is a
// listed known finding the hit is only counted and false is returned so the
// search continues; otherwise the replay file is written and the test fails.
func (c *Case) Fail(key, format string, args ...interface{}) bool {
	c.t.Helper()
	what := fmt.Sprintf(format, args...)
	s := c.s
	if IsKnown(s.Property, key) {
		s.mu.Lock()
		s.knownHits[key]++
		s.mu.Unlock()
		return false
	}
	path := s.recordViolation(key, what, c.payload)
	s.Flush()
	c.t.Fatalf("VIOLATION-CANDIDATE property=%s key=%s replay=%s: %s", s.Property, key, path, what)
	return true
}

func (s *Stats) recordViolation(key, what string, payload interface{}) string {
	path := s.writeReplay(key, what, payload)
	s.mu.Lock()
	found := false
	for i := range s.violations {
		if s.violations[i].Replay == path {
			s.violations[i] = violationRec{key, what, path}
			found = true
		}
	}
	if !found {
		s.violations = append(s.violations, violationRec{key, what, path})
	}
	s.mu.Unlock()
	return path
}

func (s *Stats) writeReplay(key, what string, payload interface{}) string {
	dir := os.Getenv("VERIF_REPLAY_DIR")
	if dir == "" {
		dir = filepath.Join(VerifDir(), "replays", s.Property)
	}
	os.MkdirAll(dir, 0o755)
	sh, _ := Shard()
	name := fmt.Sprintf("%s-s%d.json", sanitizeRe.ReplaceAllString(s.Test, "_"), sh)
	if os.Getenv("VERIF_REPLAY") != "" || os.Getenv("VERIF_MODE") == "corpus" {
		sum := sha256.Sum256([]byte(key + what))
		name = fmt.Sprintf("%s-%x.json", sanitizeRe.ReplaceAllString(s.Test, "_"), sum[:4])
	}
	raw, err := json.Marshal(payload)
	if err != nil {
		raw, _ = json.Marshal(fmt.Sprintf("%v", payload))
	}
	rf := ReplayFile{Property: s.Property, Test: s.Test, Key: key, What: what, Seed: Seed(), Case: raw}
	data, _ := json.MarshalIndent(rf, "", " ")
	path := filepath.Join(dir, name)
	os.WriteFile(path, data, 0o644)
	return path
}

// Check runs a rapid property with case accounting and panic capture.  A
// panic inside prop (i.e. in the code under test, reached in-process) is
// turned into a violation with key "panic:<frame>".
func (s *Stats) Check(t *testing.T, prop func(t *rapid.T, c *Case)) {
	t.Helper()
	defer s.Flush()
	rapid.Check(t, func(rt *rapid.T) {
		c := &Case{s: s, t: rt}
		defer func() {
			if r := recover(); r != nil {
				if isRapidControl(r) {
					panic(r)
				}
				stack := string(debug.Stack())
				c.Fail("panic:"+PanicFrame(stack), "panic: %v\n%s", r, trimStack(stack))
			}
		}()
		prop(rt, c)
		c.Done()
	})
}

// Guard runs f, converting a panic of the code under test into a violation on c.
func (c *Case) Guard(f func()) {
	defer func() {
		if r := recover(); r != nil {
			if isRapidControl(r) {
				panic(r)
			}
			stack := string(debug.Stack())
			c.Fail("panic:"+PanicFrame(stack), "panic: %v\n%s", r, trimStack(stack))
		}
	}()
	f()
}

// rapid signals Fatalf/Skip/invalid-data by panicking with private types.
func isRapidControl(r interface{}) bool {
	tn := fmt.Sprintf("%T", r)
	return strings.HasPrefix(tn, "rapid.") || strings.HasPrefix(tn, "*rapid.")
}

var frameRe = regexp.MustCompile(`(?m)^(wa-lang\.org/wa/[^\s(]+(?:\([^)]*\))?[^\s(]*)\(`)

// PanicFrame returns the innermost stack frame inside wa-lang.org/wa that is
// not part of the harness.
func PanicFrame(stack string) string {
	for _, m := range frameRe.FindAllStringSubmatch(stack, -1) {
		if strings.Contains(m[1], "/zverif/") {
			continue
		}
		return m[1]
	}
	return "unknown"
}

func trimStack(s string) string {
	if len(s) > 4000 {
		return s[:4000] + "…"
	}
	return s
}

// KnownConfirmed records that the reproducer of a listed known finding still
// fails on this tree; the driver prints the KNOWN-FINDING line.
func (s *Stats) KnownConfirmed(f Finding) {
	s.mu.Lock()
	s.knownSeen = append(s.knownSeen, f.Key+" "+f.What)
	s.mu.Unlock()
}

// ---------------------------------------------------------------- flushing

type partFile struct {
	Property     string           `json:"property"`
	Test         string           `json:"test"`
	Shard        int              `json:"shard"`
	Evaluations  int64            `json:"evaluations"`
	Hashes       []uint64         `json:"hashes"`
	HashOverflow int64            `json:"hash_overflow"`
	Classes      map[string]int64 `json:"classes"`
	Counters     map[string]int64 `json:"counters"`
	Samples      []interface{}    `json:"samples"`
	Rule         string           `json:"rule"`
	Assumptions  []string         `json:"assumptions"`
	Violations   []violationRec   `json:"violations"`
	KnownHits    map[string]int64 `json:"known_hits"`
	KnownSeen    []string         `json:"known_seen"`
	Notes        []string         `json:"notes"`
	Exhaustive   bool             `json:"exhaustive"`
}

// Flush writes this test's partial evidence; safe to call repeatedly.
func (s *Stats) Flush() {
	dir := os.Getenv("VERIF_OUT_DIR")
	if dir == "" {
		return
	}
	s.mu.Lock()
	defer s.mu.Unlock()
	sh, _ := Shard()
	p := partFile{Property: s.Property, Test: s.Test, Shard: sh, Evaluations: s.evaluations,
		HashOverflow: s.hashOver, Classes: s.classes, Counters: s.counters, Samples: s.samples,
		Rule: s.rule, Assumptions: s.assumptions, Violations: s.violations, KnownHits: s.knownHits,
		KnownSeen: s.knownSeen, Notes: s.notes, Exhaustive: s.exhaustive}
	for h := range s.hashes {
		p.Hashes = append(p.Hashes, h)
	}
	sort.Slice(p.Hashes, func(i, j int) bool { return p.Hashes[i] < p.Hashes[j] })
	data, _ := json.Marshal(p)
	os.MkdirAll(dir, 0o755)
	name := fmt.Sprintf("%s-s%d.json", sanitizeRe.ReplaceAllString(s.Test, "_"), sh)
	tmp := filepath.Join(dir, name+".tmp")
	os.WriteFile(tmp, data, 0o644)
	os.Rename(tmp, filepath.Join(dir, name))
}

// FlushAll flushes every Stats object; call from TestMain after m.Run().
func FlushAll() {
	allStatsMu.Lock()
	defer allStatsMu.Unlock()
	for _, s := range allStats {
		s.Flush()
	}
}

// Main is the TestMain body every property package uses.
func Main(m *testing.M) {
	// rapid replays testdata/rapid/*.fail first; make each run a pure
	// function of the code and the seed.
	os.RemoveAll("testdata/rapid")
	code := m.Run()
	FlushAll()
	os.Exit(code)
}

// ---------------------------------------------------------------- replay / corpus / known

// ReplayFunc re-evaluates one saved case with the package's oracle, without
// rapid.  It returns the violation key ("" when the property holds on it).
type ReplayFunc func(test string, raw json.RawMessage) (key string, what string)

// RunReplays implements the three library-free tiers shared by all packages:
//
//	VERIF_REPLAY=<file>      re-run exactly that file (./check --replay)
//	corpus/<ID>/*.json       every shrunk failure ever found (first shard only)
//	known_findings.jsonl     reproducers of listed findings (first shard only)
func RunReplays(t *testing.T, property string, fn ReplayFunc) {
	s := NewStats(property, "Replay")
	defer s.Flush()
	if one := os.Getenv("VERIF_REPLAY"); one != "" {
		rf, err := LoadReplay(one)
		if err != nil {
			t.Fatalf("cannot read replay %s: %v", one, err)
		}
		key, what := safeReplay(fn, rf)
		if key != "" {
			c := s.NewCase(t)
			c.Set(json.RawMessage(rf.Case))
			s.Test = rf.Test
			forceFail(c, key, what)
		}
		return
	}
	if !FirstShard() {
		return
	}
	os.Setenv("VERIF_MODE", "corpus")
	defer os.Unsetenv("VERIF_MODE")
	knownRepro := map[string]Finding{}
	for _, f := range Findings(property) {
		if f.Repro != "" && f.Status == "known" {
			knownRepro[filepath.Clean(filepath.Join(VerifDir(), f.Repro))] = f
		}
	}
	files, _ := filepath.Glob(filepath.Join(VerifDir(), "corpus", property, "*.json"))
	sort.Strings(files)
	for _, path := range files {
		rf, err := LoadReplay(path)
		if err != nil {
			t.Errorf("corpus file %s unreadable: %v", path, err)
			continue
		}
		key, what := safeReplay(fn, rf)
		s.Eval(1)
		s.Class("corpus_replayed")
		kf, isKnown := knownRepro[filepath.Clean(path)]
		switch {
		case key == "" && isKnown:
			s.Note("known finding no longer reproduces: " + kf.Key)
		case key == "":
		case isKnown && key == kf.Key:
			s.KnownConfirmed(kf)
		case IsKnown(property, key):
			s.mu.Lock()
			s.knownHits[key]++
			s.mu.Unlock()
		default:
			old := s.Test
			s.Test = rf.Test
			s.recordViolation(key, what+" (corpus "+filepath.Base(path)+")", json.RawMessage(rf.Case))
			s.Test = old
			t.Errorf("corpus case %s violates %s: %s", path, property, what)
		}
	}
}

// forceFail is Fail without the known-finding shortcut semantics changing
// (Fail already checks IsKnown).
func forceFail(c *Case, key, what string) { c.Fail(key, "%s", what) }

func safeReplay(fn ReplayFunc, rf *ReplayFile) (key, what string) {
	defer func() {
		if r := recover(); r != nil {
			stack := string(debug.Stack())
			key = "panic:" + PanicFrame(stack)
			what = fmt.Sprintf("panic: %v\n%s", r, trimStack(stack))
		}
	}()
	return fn(rf.Test, rf.Case)
}

// LoadReplay reads a replay file.
func LoadReplay(path string) (*ReplayFile, error) {
	data, err := os.ReadFile(path)
	if err != nil {
		return nil, err
	}
	var rf ReplayFile
	if err := json.Unmarshal(data, &rf); err != nil {
		return nil, err
	}
	return &rf, nil
}

// U64 helpers for bulk streams.
func PutU64(b []byte, v uint64) { binary.LittleEndian.PutUint64(b, v) }
