package c14

// Registry plumbing, Wa driver rendering, and the oracle (Go in-process result
// vs the line printed by the Wa driver).

import (
	"encoding/hex"
	"fmt"
	"os"
	"path"
	"regexp"
	"sort"
	"strings"
	"time"

	"pgregory.net/rapid"
	"wa-lang.org/wa/zverif/harness/core"
	"wa-lang.org/wa/zverif/harness/wk"
)

type param struct {
	name string
	kind string
}

// fn is one registered function (or round-trip / script sub-property).
type fn struct {
	pkg     string   // Wa/Go import path
	name    string   // function name; "rt:…" = round trip, "script" = op script
	params  []param  // in Wa parameter order
	res     []string // result kinds (see waResExpr)
	tmpl    string   // Wa statements binding r0..rN; $0..$9 = rendered arguments
	imports []string // additional Wa imports needed by tmpl
	prelude []string // additional prelude chunks (by name)
	order   []int    // generation order of the parameters (default: declaration order)
	goFn    func(a A) []interface{}
	domain  func(a A) bool // optional: false = outside the function's documented domain (redrawn)
	group   string
	errOnly bool // when the trailing error result is non-nil only the error flag is compared
}

func (f *fn) id() string { return path.Base(f.pkg) + "." + f.name }

var (
	registry = map[string]*fn{}
	regOrder []string
	groups   = map[string][]*fn{}
	groupIDs []string
	curGroup string
	preludes = map[string]string{}
)

func setGroup(g string) { curGroup = g }

// reg registers pkg.name. spec is "name:kind name:kind …", res is the space
// separated list of result kinds.
func reg(pkg, name, spec, res string, goFn func(a A) []interface{}) *fn {
	f := &fn{pkg: pkg, name: name, goFn: goFn, group: curGroup}
	for _, p := range strings.Fields(spec) {
		nk := strings.SplitN(p, ":", 2)
		if kinds[nk[1]] == nil {
			panic("c14: unknown kind " + nk[1] + " in " + pkg + "." + name)
		}
		f.params = append(f.params, param{nk[0], nk[1]})
	}
	f.res = strings.Fields(res)
	if registry[f.id()] != nil {
		panic("c14: duplicate registry entry " + f.id())
	}
	registry[f.id()] = f
	regOrder = append(regOrder, f.id())
	if groups[curGroup] == nil {
		groupIDs = append(groupIDs, curGroup)
	}
	groups[curGroup] = append(groups[curGroup], f)
	return f
}

func (f *fn) T(tmpl string) *fn        { f.tmpl = tmpl; return f }
func (f *fn) Imp(pkgs ...string) *fn   { f.imports = append(f.imports, pkgs...); return f }
func (f *fn) Pre(names ...string) *fn  { f.prelude = append(f.prelude, names...); return f }
func (f *fn) Order(o ...int) *fn       { f.order = o; return f }
func (f *fn) Dom(d func(a A) bool) *fn { f.domain = d; return f }
func R(v ...interface{}) []interface{} { return v }

var driversRun int

var collectMode = os.Getenv("VERIF_C14_COLLECT") != ""

var placeholderRe = regexp.MustCompile(`\$[0-9]`)

// Call is one (function, argument tuple) — the unit of the replay payload.
type Call struct {
	F string   `json:"f"`
	A []string `json:"a"`
}

// classesOf returns the boundary classes hit by the call's argument tuple,
// enum-like parameters first.
func classesOf(f *fn, a A) []string {
	var first, rest []string
	for i, p := range f.params {
		k := kinds[p.kind]
		cl := k.classes(a[i], a, f)
		enumLike := false
		switch p.kind {
		case "base", "base0", "bitsize", "fbits", "ffmt", "prec", "enc64", "enc32", "crcpoly":
			enumLike = true
		}
		if !enumLike && len(f.params) > 1 {
			for j := range cl {
				cl[j] = p.name + ":" + cl[j]
			}
		}
		if enumLike {
			first = append(first, cl...)
		} else {
			rest = append(rest, cl...)
		}
	}
	return append(first, rest...)
}

// keyFor is the structural identity of a disagreement on this call:
// <pkg>.<Func>/<arg class>, preferring a class that is a listed known finding.
func keyFor(f *fn, a A) string {
	cl := classesOf(f, a)
	for _, c := range cl {
		if isKnown(f.id() + "/" + c) {
			return f.id() + "/" + c
		}
	}
	if len(cl) == 0 {
		return f.id() + "/plain"
	}
	return f.id() + "/" + cl[0]
}

// goExpected evaluates the Go side. ok=false means Go panicked (the tuple is
// outside the function's domain).
func goExpected(f *fn, a A) (line string, ok bool, panicMsg string) {
	defer func() {
		if r := recover(); r != nil {
			ok, panicMsg = false, fmt.Sprint(r)
		}
	}()
	res := f.goFn(a)
	if len(res) != len(f.res) {
		panic(fmt.Sprintf("c14: %s: registry declares %d results, Go side returned %d", f.id(), len(f.res), len(res)))
	}
	parts := make([]string, len(res))
	for i, r := range res {
		parts[i] = encRes(r)
	}
	if f.errOnly && parts[len(parts)-1] == "e1" {
		return "e1", true, ""
	}
	return strings.Join(parts, " "), true, ""
}

// renderCall renders the body of the Wa function evaluating call i.
func renderCall(f *fn, a A, i int) string {
	args := make([]string, len(a))
	for j, p := range f.params {
		if k := kinds[p.kind]; k.lit != nil {
			args[j] = k.lit(a[j])
		} else {
			args[j] = litFor(k.wa, a[j])
		}
	}
	tmpl := f.tmpl
	if tmpl == "" {
		lhs := make([]string, len(f.res))
		for j := range lhs {
			lhs[j] = fmt.Sprintf("r%d", j)
		}
		ph := make([]string, len(args))
		for j := range ph {
			ph[j] = fmt.Sprintf("$%d", j)
		}
		tmpl = strings.Join(lhs, ", ") + " := " + path.Base(f.pkg) + "." + f.name + "(" + strings.Join(ph, ", ") + ")"
	}
	tmpl = placeholderRe.ReplaceAllStringFunc(tmpl, func(m string) string { return args[int(m[1]-'0')] })
	out := make([]string, len(f.res))
	for j, k := range f.res {
		out[j] = waResExpr(k, fmt.Sprintf("r%d", j))
	}
	body := strings.ReplaceAll(tmpl, "\n", "\n\t")
	if f.errOnly {
		return fmt.Sprintf("func c%d {\n\t%s\n\tif r%d != nil {\n\t\tprintln(\"@%d e1\")\n\t\treturn\n\t}\n\tprintln(\"@%d \" + %s)\n}\n", i, body, len(f.res)-1, i, i, strings.Join(out, ` + " " + `))
	}
	return fmt.Sprintf("func c%d {\n\t%s\n\tprintln(\"@%d \" + %s)\n}\n", i, body, i, strings.Join(out, ` + " " + `))
}

// renderDriver renders the complete Wa program for a call list.
func renderDriver(calls []Call) string {
	imports := map[string]bool{}
	pre := map[string]bool{}
	var body strings.Builder
	var main strings.Builder
	main.WriteString("func main {\n")
	for i, c := range calls {
		f := registry[c.F]
		imports[f.pkg] = true
		for _, p := range f.imports {
			imports[p] = true
		}
		for _, p := range f.prelude {
			pre[p] = true
		}
		for _, p := range f.params {
			if w := kinds[p.kind].wa; w == "f64" || w == "[]f64" {
				imports["math"] = true
				pre["float"] = true
			}
		}
		for _, k := range f.res {
			if resNeedsMath(k) {
				imports["math"] = true
				pre["float"] = true
			}
		}
		body.WriteString(renderCall(f, c.A, i))
		fmt.Fprintf(&main, "\tc%d()\n", i)
	}
	main.WriteString("\tprintln(\"@end\")\n}\n")
	var src strings.Builder
	src.WriteString("// generated by /verif/harness/c14\n")
	var imps []string
	for p := range imports {
		if !strings.HasPrefix(p, "-") {
			imps = append(imps, p)
		}
	}
	sort.Strings(imps)
	for _, p := range imps {
		fmt.Fprintf(&src, "import %q\n", p)
	}
	src.WriteString(preludeBase)
	var pres []string
	for p := range pre {
		pres = append(pres, p)
	}
	sort.Strings(pres)
	for _, p := range pres {
		if p == "float" {
			src.WriteString(preludeFloat)
			continue
		}
		if preludes[p] == "" {
			panic("c14: unknown prelude " + p)
		}
		src.WriteString(preludes[p])
	}
	src.WriteString("\n")
	src.WriteString(body.String())
	src.WriteString(main.String())
	return src.String()
}

// verdict of one driver run.
type verdict struct {
	inconclusive string // non-empty: no verdict (worker killed / timed out / harness problem)
	evaluated    int    // calls for which a verdict was reached
	failIdx      int    // index of the first disagreeing call, -1 if none
	key, what    string
	all          []string // every disagreement of the driver (development aid)
}

// runCalls renders, runs and compares. expected[i] is the Go line for call i.
func runCalls(w *wk.Client, calls []Call, expected []string) verdict {
	src := renderDriver(calls)
	t0 := time.Now()
	o := w.Do("run", wk.Src{Name: "c14_driver.wa", Src: src})
	if os.Getenv("VERIF_C14_DEBUG") != "" {
		fmt.Fprintf(os.Stderr, "c14: driver %d calls, %d bytes, group %s: %s cpu=%dms wall=%v\n", len(calls), len(src), registry[calls[0].F].group, o.Kind, o.CPUms, time.Since(t0))
		if os.Getenv("VERIF_C14_DEBUG") == "src" {
			os.WriteFile("/tmp/c14_last_driver.wa", []byte(src), 0o644)
		}
	}
	var r wk.RunResult
	o.Decode(&r)
	v := verdict{failIdx: -1}
	switch o.Kind {
	case wk.Killed, wk.Timeout:
		v.inconclusive = o.Kind + ": " + o.String()
		return v
	case wk.Panic, wk.Exited:
		// the compiler crashed or exited on a generated driver: not a C14 verdict
		v.inconclusive = "compiler " + o.Kind + ": " + tailStr(o.String(), 400)
		return v
	case wk.Error:
		if r.Stage != "run" {
			v.inconclusive = "driver does not compile (stage " + r.Stage + "): " + tailStr(o.Err, 600)
			return v
		}
		if strings.Contains(o.Err, "cannot allocate memory") || strings.Contains(o.Err, "error compiling wasm") || strings.Contains(o.Err, "failed to compile") {
			// the wasm engine could not even instantiate the module (address space of a
			// long-lived worker exhausted): an environment failure, not a verdict
			w.Close()
			v.inconclusive = "wasm engine failed to instantiate the driver: " + tailStr(o.Err, 300)
			return v
		}
	}
	// a fresh worker every 20 drivers keeps the child's address space bounded
	driversRun++
	if driversRun%20 == 0 {
		w.Close()
	}
	got := map[int]string{}
	ended := false
	for _, line := range strings.Split(r.Stdout, "\n") {
		if line == "@end" {
			ended = true
			continue
		}
		if !strings.HasPrefix(line, "@") {
			continue
		}
		var idx int
		sp := strings.IndexByte(line, ' ')
		if sp < 0 {
			continue
		}
		if _, err := fmt.Sscanf(line[1:sp], "%d", &idx); err != nil {
			continue
		}
		got[idx] = line[sp+1:]
	}
	for i, c := range calls {
		g, present := got[i]
		f := registry[c.F]
		if !present {
			if collectMode {
				v.all = append(v.all, keyFor(f, c.A)+"\tSTOPPED "+describeCall(c)+" "+tailStr(o.Err, 200)+" Go="+describeLine(expected[i]))
				return v
			}
			v.failIdx = i
			v.key = keyFor(f, c.A)
			v.what = fmt.Sprintf("%s: Wa program stopped inside this call (%s; stage %s; output tail %q); Go returns %s", describeCall(c), tailStr(o.Err, 300), r.Stage, tailStr(r.Stdout, 200), describeLine(expected[i]))
			return v
		}
		v.evaluated++
		if g != expected[i] {
			what := fmt.Sprintf("%s: Wa = %s, Go = %s", describeCall(c), describeLine(g), describeLine(expected[i]))
			if collectMode {
				v.all = append(v.all, keyFor(f, c.A)+"\t"+what)
				continue
			}
			v.failIdx = i
			v.key = keyFor(f, c.A)
			v.what = what
			return v
		}
	}
	if !ended || o.Kind != wk.OK {
		v.inconclusive = "driver did not finish cleanly after all calls agreed: " + tailStr(o.String(), 300)
	}
	return v
}

func tailStr(s string, n int) string {
	if len(s) > n {
		return "…" + s[len(s)-n:]
	}
	return s
}

// describeCall renders a call readably: strings quoted Go-style.
func describeCall(c Call) string {
	f := registry[c.F]
	if f == nil {
		return c.F + "(?)"
	}
	parts := make([]string, len(c.A))
	for i, p := range f.params {
		switch kinds[p.kind].wa {
		case "string", "[]byte":
			parts[i] = fmt.Sprintf("%q", A(c.A).Str(i))
		case "[]string", "[][]byte":
			parts[i] = fmt.Sprintf("%q", A(c.A).Strs(i))
		case "f64":
			parts[i] = fmt.Sprintf("%v(bits %s)", A(c.A).F64(i), c.A[i])
		default:
			parts[i] = c.A[i]
		}
	}
	return fmt.Sprintf("%s(%s)", f.id(), strings.Join(parts, ", "))
}

// describeLine decodes hex fields of a canonical result line for messages.
func describeLine(l string) string {
	fs := strings.Fields(l)
	for i, f := range fs {
		if strings.HasPrefix(f, "x") {
			if b, err := hexDecode(f[1:]); err == nil {
				fs[i] = fmt.Sprintf("%q", b)
			}
		}
	}
	return strings.Join(fs, " ") + "  [raw: " + tailStr(l, 300) + "]"
}

func hexDecode(s string) ([]byte, error) { return hex.DecodeString(s) }

func isKnown(key string) bool { return core.IsKnown(prop, key) }

func rapidPick[T any](t *rapid.T, label string, vals []T) T {
	return rapid.SampledFrom(vals).Draw(t, label)
}

func replaceAll(s, old, new string) string { return strings.ReplaceAll(s, old, new) }
