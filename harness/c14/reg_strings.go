package c14

import (
	"bytes"
	"strings"
	"unicode/utf8"

	"pgregory.net/rapid"
)

// predicates and mappings passed to the *Func functions and Map; the same
// definitions are rendered into the Wa driver (prelude "preds").
var goPreds = []func(rune) bool{
	func(r rune) bool { return r == 'a' },
	func(r rune) bool { return r >= '0' && r <= '9' },
	func(r rune) bool { return r >= 0x80 },
	func(r rune) bool { return r == 0xFFFD },
	func(r rune) bool { return r == ' ' || r == ',' },
	func(r rune) bool { return true },
	func(r rune) bool { return false },
	func(r rune) bool { return r != 'a' && r != 'b' },
}

var goMaps = []func(rune) rune{
	func(r rune) rune { return r },
	func(r rune) rune {
		if r == 'a' {
			return -1
		}
		return r
	},
	func(r rune) rune {
		if r >= 'a' && r <= 'y' {
			return r + 1
		}
		return r
	},
	func(r rune) rune {
		if r == 'b' {
			return 0x4E2D
		}
		return r
	},
	func(r rune) rune {
		if r >= 0x80 {
			return 'x'
		}
		return r
	},
	func(r rune) rune {
		if r == 0xFFFD {
			return '?'
		}
		return r
	},
	func(r rune) rune {
		if r == 'a' {
			return 0x110000
		}
		if r == 'b' {
			return 0xD800
		}
		return r
	},
}

const preludePreds = `
func P0(r: rune) => bool { return r == 'a' }
func P1(r: rune) => bool { return r >= '0' && r <= '9' }
func P2(r: rune) => bool { return r >= 0x80 }
func P3(r: rune) => bool { return r == 0xFFFD }
func P4(r: rune) => bool { return r == ' ' || r == ',' }
func P5(r: rune) => bool { return true }
func P6(r: rune) => bool { return false }
func P7(r: rune) => bool { return r != 'a' && r != 'b' }

func M0(r: rune) => rune { return r }
func M1(r: rune) => rune {
	if r == 'a' {
		return -1
	}
	return r
}
func M2(r: rune) => rune {
	if r >= 'a' && r <= 'y' {
		return r + 1
	}
	return r
}
func M3(r: rune) => rune {
	if r == 'b' {
		return 0x4E2D
	}
	return r
}
func M4(r: rune) => rune {
	if r >= 0x80 {
		return 'x'
	}
	return r
}
func M5(r: rune) => rune {
	if r == 0xFFFD {
		return '?'
	}
	return r
}
func M6(r: rune) => rune {
	if r == 'a' {
		return 0x110000
	}
	if r == 'b' {
		return 0xD800
	}
	return r
}
`

func toBytesSpec(spec string) string {
	var out []string
	for _, p := range strings.Fields(spec) {
		nk := strings.SplitN(p, ":", 2)
		switch nk[1] {
		case "str":
			nk[1] = "bytes"
		case "astr":
			nk[1] = "abytes"
		case "sep":
			nk[1] = "bsep"
		case "asep":
			nk[1] = "basep"
		case "strs":
			nk[1] = "bytess"
		case "fold":
			nk[1] = "bfold"
		case "repl":
			nk[1] = "brepl"
		}
		out = append(out, nk[0]+":"+nk[1])
	}
	return strings.Join(out, " ")
}

func toBytesRes(res string) string {
	res = strings.ReplaceAll(res, "strs", "bytess")
	var out []string
	for _, r := range strings.Fields(res) {
		if r == "str" {
			r = "bytes"
		}
		out = append(out, r)
	}
	return strings.Join(out, " ")
}

// genFold: a case variant of s (ASCII case flips), sometimes with a mismatch.
func genFold(g *genCtx) string {
	t := g.t
	sv, _ := g.argByName("s")
	s := []byte(A{sv}.Str(0))
	for i := range s {
		c := s[i]
		if (c|0x20) >= 'a' && (c|0x20) <= 'z' && rapid.Bool().Draw(t, "flip") {
			s[i] ^= 0x20
		}
	}
	switch rapid.IntRange(0, 7).Draw(t, "foldmut") {
	case 0:
		if len(s) > 0 {
			s = s[:len(s)-1]
		}
	case 1:
		s = append(s, 'a')
	case 2:
		if len(s) > 0 {
			i := rapid.IntRange(0, len(s)-1).Draw(t, "fi")
			if s[i] < 0x80 {
				s[i] = rapid.SampledFrom([]byte{'a', 'Z', '@', '[', '`', '{', 'k', 'K', 's', 'S'}).Draw(t, "fc")
			}
		}
	}
	return makeSafe(string(s))
}

func foldClasses(v string, a A, f *fn) []string {
	t := A{v}.Str(0)
	var c []string
	for i, p := range f.params {
		if p.name == "s" {
			s := A{a[i]}.Str(0)
			switch {
			case s == t:
				c = append(c, "fold-identical")
			case strings.EqualFold(s, t):
				c = append(c, "fold-equal-differs-in-case")
			case len(s) != len(t):
				c = append(c, "fold-different-length")
			default:
				c = append(c, "fold-mismatch")
			}
		}
	}
	return append(c, strValueClasses(t)...)
}

func init() {
	preludes["preds"] = preludePreds
	kinds["pred"] = &kind{wa: "raw", gen: func(g *genCtx) string {
		return "P" + encI(int64(rapid.IntRange(0, len(goPreds)-1).Draw(g.t, "pred")))
	}, classes: func(v string, _ A, _ *fn) []string { return nil }}
	kinds["mapf"] = &kind{wa: "raw", gen: func(g *genCtx) string {
		return "M" + encI(int64(rapid.IntRange(0, len(goMaps)-1).Draw(g.t, "mapf")))
	}, classes: func(v string, _ A, _ *fn) []string { return []string{"map=" + v} }}
	kinds["fold"] = &kind{wa: "string", gen: func(g *genCtx) string { return encS(genFold(g)) }, classes: foldClasses}
	kinds["bfold"] = &kind{wa: "[]byte", gen: func(g *genCtx) string { return encS(genFold(g)) }, classes: foldClasses}
	kinds["repl"] = &kind{wa: "string", gen: func(g *genCtx) string {
		return encS(rapidPick(g.t, "repl", []string{"", "", "?", "�", "ab", "\xff", "é"}))
	}, classes: func(v string, _ A, _ *fn) []string {
		if v == "" {
			return []string{"replacement-empty"}
		}
		return nil
	}}
	kinds["brepl"] = &kind{wa: "[]byte", gen: kinds["repl"].gen, classes: kinds["repl"].classes}

	pred := func(a A, i int) func(rune) bool { return goPreds[int(a[i][1]-'0')] }
	mapf := func(a A, i int) func(rune) rune { return goMaps[int(a[i][1]-'0')] }

	type G = func(a A) []interface{}
	// both registers a function in strings and in bytes with mapped kinds.
	both := func(group, name, spec, res string, fs, fb G) {
		if fs != nil {
			setGroup("strings-" + group)
			f := reg("strings", name, spec, res, fs)
			if strings.Contains(spec, ":pred") || strings.Contains(spec, ":mapf") {
				f.Pre("preds")
			}
		}
		if fb != nil {
			setGroup("bytes-" + group)
			f := reg("bytes", name, toBytesSpec(spec), toBytesRes(res), fb)
			if strings.Contains(spec, ":pred") || strings.Contains(spec, ":mapf") {
				f.Pre("preds")
			}
		}
	}

	// ------------------------------------------------------------ searching
	both("search", "Index", "s:str sep:sep", "int",
		func(a A) []interface{} { return R(strings.Index(a.Str(0), a.Str(1))) },
		func(a A) []interface{} { return R(bytes.Index(a.Bytes(0), a.Bytes(1))) })
	both("search", "LastIndex", "s:str sep:sep", "int",
		func(a A) []interface{} { return R(strings.LastIndex(a.Str(0), a.Str(1))) },
		func(a A) []interface{} { return R(bytes.LastIndex(a.Bytes(0), a.Bytes(1))) })
	both("search", "IndexByte", "s:str c:byte", "int",
		func(a A) []interface{} { return R(strings.IndexByte(a.Str(0), byte(a.Int(1)))) },
		func(a A) []interface{} { return R(bytes.IndexByte(a.Bytes(0), byte(a.Int(1)))) })
	both("search", "LastIndexByte", "s:str c:byte", "int",
		func(a A) []interface{} { return R(strings.LastIndexByte(a.Str(0), byte(a.Int(1)))) },
		func(a A) []interface{} { return R(bytes.LastIndexByte(a.Bytes(0), byte(a.Int(1)))) })
	both("search", "IndexRune", "s:str r:rune", "int",
		func(a A) []interface{} { return R(strings.IndexRune(a.Str(0), a.Rune(1))) },
		func(a A) []interface{} { return R(bytes.IndexRune(a.Bytes(0), a.Rune(1))) })
	both("search", "IndexAny", "s:str chars:chars", "int",
		func(a A) []interface{} { return R(strings.IndexAny(a.Str(0), a.Str(1))) },
		func(a A) []interface{} { return R(bytes.IndexAny(a.Bytes(0), a.Str(1))) })
	both("search", "LastIndexAny", "s:str chars:chars", "int",
		func(a A) []interface{} { return R(strings.LastIndexAny(a.Str(0), a.Str(1))) },
		func(a A) []interface{} { return R(bytes.LastIndexAny(a.Bytes(0), a.Str(1))) })
	both("search", "IndexFunc", "s:str f:pred", "int",
		func(a A) []interface{} { return R(strings.IndexFunc(a.Str(0), pred(a, 1))) },
		func(a A) []interface{} { return R(bytes.IndexFunc(a.Bytes(0), pred(a, 1))) })
	both("search", "LastIndexFunc", "s:str f:pred", "int",
		func(a A) []interface{} { return R(strings.LastIndexFunc(a.Str(0), pred(a, 1))) },
		func(a A) []interface{} { return R(bytes.LastIndexFunc(a.Bytes(0), pred(a, 1))) })
	both("search", "Contains", "s:str sep:sep", "bool",
		func(a A) []interface{} { return R(strings.Contains(a.Str(0), a.Str(1))) },
		func(a A) []interface{} { return R(bytes.Contains(a.Bytes(0), a.Bytes(1))) })
	both("search", "ContainsAny", "s:str chars:chars", "bool",
		func(a A) []interface{} { return R(strings.ContainsAny(a.Str(0), a.Str(1))) },
		func(a A) []interface{} { return R(bytes.ContainsAny(a.Bytes(0), a.Str(1))) })
	both("search", "ContainsRune", "s:str r:rune", "bool",
		func(a A) []interface{} { return R(strings.ContainsRune(a.Str(0), a.Rune(1))) },
		func(a A) []interface{} { return R(bytes.ContainsRune(a.Bytes(0), a.Rune(1))) })
	both("search", "ContainsFunc", "s:str f:pred", "bool",
		func(a A) []interface{} { return R(strings.ContainsFunc(a.Str(0), pred(a, 1))) },
		func(a A) []interface{} { return R(bytes.ContainsFunc(a.Bytes(0), pred(a, 1))) })
	both("search", "Count", "s:str sep:sep", "int",
		func(a A) []interface{} { return R(strings.Count(a.Str(0), a.Str(1))) },
		func(a A) []interface{} { return R(bytes.Count(a.Bytes(0), a.Bytes(1))) })
	both("search", "HasPrefix", "s:str prefix:sep", "bool",
		func(a A) []interface{} { return R(strings.HasPrefix(a.Str(0), a.Str(1))) },
		func(a A) []interface{} { return R(bytes.HasPrefix(a.Bytes(0), a.Bytes(1))) })
	both("search", "HasSuffix", "s:str suffix:sep", "bool",
		func(a A) []interface{} { return R(strings.HasSuffix(a.Str(0), a.Str(1))) },
		func(a A) []interface{} { return R(bytes.HasSuffix(a.Bytes(0), a.Bytes(1))) })
	both("search", "Compare", "s:str b:sep", "int",
		func(a A) []interface{} { return R(strings.Compare(a.Str(0), a.Str(1))) },
		func(a A) []interface{} { return R(bytes.Compare(a.Bytes(0), a.Bytes(1))) })
	both("search", "EqualFold", "s:astr t:fold", "bool",
		func(a A) []interface{} { return R(strings.EqualFold(a.Str(0), a.Str(1))) },
		func(a A) []interface{} { return R(bytes.EqualFold(a.Bytes(0), a.Bytes(1))) })
	both("search", "Equal", "s:str b:sep", "bool", nil,
		func(a A) []interface{} { return R(bytes.Equal(a.Bytes(0), a.Bytes(1))) })

	// ------------------------------------------------------------ splitting / cutting
	both("split", "Split", "s:str sep:sep", "strs",
		func(a A) []interface{} { return R(strings.Split(a.Str(0), a.Str(1))) },
		func(a A) []interface{} { return R(bytes.Split(a.Bytes(0), a.Bytes(1))) })
	both("split", "SplitN", "s:str sep:sep n:n", "strs",
		func(a A) []interface{} { return R(strings.SplitN(a.Str(0), a.Str(1), a.Int(2))) },
		func(a A) []interface{} { return R(bytes.SplitN(a.Bytes(0), a.Bytes(1), a.Int(2))) })
	both("split", "SplitAfter", "s:str sep:sep", "strs",
		func(a A) []interface{} { return R(strings.SplitAfter(a.Str(0), a.Str(1))) }, nil)
	both("split", "SplitAfterN", "s:str sep:sep n:n", "strs",
		func(a A) []interface{} { return R(strings.SplitAfterN(a.Str(0), a.Str(1), a.Int(2))) },
		func(a A) []interface{} { return R(bytes.SplitAfterN(a.Bytes(0), a.Bytes(1), a.Int(2))) })
	both("split", "Fields", "s:astr", "strs",
		func(a A) []interface{} { return R(strings.Fields(a.Str(0))) },
		func(a A) []interface{} { return R(bytes.Fields(a.Bytes(0))) })
	both("split", "FieldsFunc", "s:str f:pred", "strs",
		func(a A) []interface{} { return R(strings.FieldsFunc(a.Str(0), pred(a, 1))) },
		func(a A) []interface{} { return R(bytes.FieldsFunc(a.Bytes(0), pred(a, 1))) })
	both("split", "Join", "elems:strs sep:str", "str",
		func(a A) []interface{} { return R(strings.Join(a.Strs(0), a.Str(1))) },
		func(a A) []interface{} { return R(bytes.Join(a.Bytess(0), a.Bytes(1))) })
	both("split", "Cut", "s:str sep:sep", "str str bool",
		func(a A) []interface{} { b, c, ok := strings.Cut(a.Str(0), a.Str(1)); return R(b, c, ok) },
		func(a A) []interface{} { b, c, ok := bytes.Cut(a.Bytes(0), a.Bytes(1)); return R(b, c, ok) })
	both("split", "CutPrefix", "s:str prefix:sep", "str bool",
		func(a A) []interface{} { b, ok := strings.CutPrefix(a.Str(0), a.Str(1)); return R(b, ok) },
		func(a A) []interface{} { b, ok := bytes.CutPrefix(a.Bytes(0), a.Bytes(1)); return R(b, ok) })
	both("split", "CutSuffix", "s:str suffix:sep", "str bool",
		func(a A) []interface{} { b, ok := strings.CutSuffix(a.Str(0), a.Str(1)); return R(b, ok) },
		func(a A) []interface{} { b, ok := bytes.CutSuffix(a.Bytes(0), a.Bytes(1)); return R(b, ok) })
	both("split", "TrimPrefix", "s:str prefix:sep", "str",
		func(a A) []interface{} { return R(strings.TrimPrefix(a.Str(0), a.Str(1))) },
		func(a A) []interface{} { return R(bytes.TrimPrefix(a.Bytes(0), a.Bytes(1))) })
	both("split", "TrimSuffix", "s:str suffix:sep", "str",
		func(a A) []interface{} { return R(strings.TrimSuffix(a.Str(0), a.Str(1))) },
		func(a A) []interface{} { return R(bytes.TrimSuffix(a.Bytes(0), a.Bytes(1))) })
	both("split", "Trim", "s:str cutset:chars", "str",
		func(a A) []interface{} { return R(strings.Trim(a.Str(0), a.Str(1))) },
		func(a A) []interface{} { return R(bytes.Trim(a.Bytes(0), a.Str(1))) })
	both("split", "TrimLeft", "s:str cutset:chars", "str",
		func(a A) []interface{} { return R(strings.TrimLeft(a.Str(0), a.Str(1))) },
		func(a A) []interface{} { return R(bytes.TrimLeft(a.Bytes(0), a.Str(1))) })
	both("split", "TrimRight", "s:str cutset:chars", "str",
		func(a A) []interface{} { return R(strings.TrimRight(a.Str(0), a.Str(1))) },
		func(a A) []interface{} { return R(bytes.TrimRight(a.Bytes(0), a.Str(1))) })
	both("split", "TrimSpace", "s:astr", "str",
		func(a A) []interface{} { return R(strings.TrimSpace(a.Str(0))) },
		func(a A) []interface{} { return R(bytes.TrimSpace(a.Bytes(0))) })
	both("split", "TrimFunc", "s:str f:pred", "str",
		func(a A) []interface{} { return R(strings.TrimFunc(a.Str(0), pred(a, 1))) },
		func(a A) []interface{} { return R(bytes.TrimFunc(a.Bytes(0), pred(a, 1))) })
	both("split", "TrimLeftFunc", "s:str f:pred", "str",
		func(a A) []interface{} { return R(strings.TrimLeftFunc(a.Str(0), pred(a, 1))) },
		func(a A) []interface{} { return R(bytes.TrimLeftFunc(a.Bytes(0), pred(a, 1))) })
	both("split", "TrimRightFunc", "s:str f:pred", "str",
		func(a A) []interface{} { return R(strings.TrimRightFunc(a.Str(0), pred(a, 1))) },
		func(a A) []interface{} { return R(bytes.TrimRightFunc(a.Bytes(0), pred(a, 1))) })

	// ------------------------------------------------------------ transforming
	both("xform", "Replace", "s:str old:sep new:repl n:n", "str",
		func(a A) []interface{} { return R(strings.Replace(a.Str(0), a.Str(1), a.Str(2), a.Int(3))) },
		func(a A) []interface{} { return R(bytes.Replace(a.Bytes(0), a.Bytes(1), a.Bytes(2), a.Int(3))) })
	both("xform", "ReplaceAll", "s:str old:sep new:repl", "str",
		func(a A) []interface{} { return R(strings.ReplaceAll(a.Str(0), a.Str(1), a.Str(2))) },
		func(a A) []interface{} { return R(bytes.ReplaceAll(a.Bytes(0), a.Bytes(1), a.Bytes(2))) })
	repeatDom := func(a A) bool { return a.Int(1) >= 0 && len(a.Str(0))*a.Int(1) <= 4096 } // negative count panics in Go
	both("xform", "Repeat", "s:str count:count", "str",
		func(a A) []interface{} { return R(strings.Repeat(a.Str(0), a.Int(1))) },
		func(a A) []interface{} { return R(bytes.Repeat(a.Bytes(0), a.Int(1))) })
	registry["strings.Repeat"].Dom(repeatDom)
	registry["bytes.Repeat"].Dom(repeatDom)
	both("xform", "ToUpper", "s:astr", "str",
		func(a A) []interface{} { return R(strings.ToUpper(a.Str(0))) },
		func(a A) []interface{} { return R(bytes.ToUpper(a.Bytes(0))) })
	both("xform", "ToLower", "s:astr", "str",
		func(a A) []interface{} { return R(strings.ToLower(a.Str(0))) },
		func(a A) []interface{} { return R(bytes.ToLower(a.Bytes(0))) })
	both("xform", "ToTitle", "s:astr", "str",
		func(a A) []interface{} { return R(strings.ToTitle(a.Str(0))) },
		func(a A) []interface{} { return R(bytes.ToTitle(a.Bytes(0))) })
	both("xform", "Title", "s:astr", "str",
		func(a A) []interface{} { return R(strings.Title(a.Str(0))) },
		func(a A) []interface{} { return R(bytes.Title(a.Bytes(0))) })
	both("xform", "ToValidUTF8", "s:str replacement:repl", "str",
		func(a A) []interface{} { return R(strings.ToValidUTF8(a.Str(0), a.Str(1))) },
		func(a A) []interface{} { return R(bytes.ToValidUTF8(a.Bytes(0), a.Bytes(1))) })
	both("xform", "Map", "mapping:mapf s:str", "str",
		func(a A) []interface{} { return R(strings.Map(mapf(a, 0), a.Str(1))) },
		func(a A) []interface{} { return R(bytes.Map(mapf(a, 0), a.Bytes(1))) })
	both("xform", "Clone", "s:str", "str",
		func(a A) []interface{} { return R(strings.Clone(a.Str(0))) },
		func(a A) []interface{} { return R(bytes.Clone(a.Bytes(0))) })
	both("xform", "Runes", "s:str", "runes", nil,
		func(a A) []interface{} { return R(bytes.Runes(a.Bytes(0))) })
	_ = utf8.RuneError
}
