package c14

import (
	"container/heap"
	"container/list"
	"container/ring"
	"fmt"
	"strings"

	"pgregory.net/rapid"
)

// Op scripts: a script is a flat list of (opcode, operand) pairs interpreted by
// twin interpreters — one in Go against Go's container package, one rendered
// into the Wa driver against Wa's — producing a trace string.

func absMod(x, n int) int {
	if n <= 0 {
		return 0
	}
	x %= n
	if x < 0 {
		x += n
	}
	return x
}

func listScript(ops []int) string {
	l := list.New()
	var elems []*list.Element
	var out strings.Builder
	for i := 0; i+1 < len(ops); i += 2 {
		op, x := absMod(ops[i], 11), ops[i+1]
		switch op {
		case 0:
			elems = append(elems, l.PushFront(x))
		case 1:
			elems = append(elems, l.PushBack(x))
		case 2, 3:
			if len(elems) > 0 {
				mark := elems[absMod(x, len(elems))]
				var e *list.Element
				if op == 2 {
					e = l.InsertBefore(x, mark)
				} else {
					e = l.InsertAfter(x, mark)
				}
				if e != nil {
					elems = append(elems, e)
				} else {
					out.WriteString("n")
				}
			}
		case 4:
			if len(elems) > 0 {
				v := l.Remove(elems[absMod(x, len(elems))])
				fmt.Fprintf(&out, "r%d", v.(int))
			}
		case 5:
			if len(elems) > 0 {
				l.MoveToFront(elems[absMod(x, len(elems))])
			}
		case 6:
			if len(elems) > 0 {
				l.MoveToBack(elems[absMod(x, len(elems))])
			}
		case 7:
			l.PushBackList(l)
		case 8:
			o := list.New()
			o.PushBack(x)
			o.PushBack(x + 1)
			if x%2 == 0 {
				l.PushBackList(o)
			} else {
				l.PushFrontList(o)
			}
		case 9:
			fmt.Fprintf(&out, "L%d", l.Len())
		case 10:
			if x%7 == 0 {
				l.Init()
				elems = elems[:0]
			} else if f := l.Front(); f != nil {
				fmt.Fprintf(&out, "f%d", f.Value.(int))
				if b := l.Back(); b != nil {
					fmt.Fprintf(&out, "b%d", b.Value.(int))
				}
			}
		}
	}
	out.WriteString("|")
	for e := l.Front(); e != nil; e = e.Next() {
		fmt.Fprintf(&out, "%d,", e.Value.(int))
	}
	out.WriteString("|")
	for e := l.Back(); e != nil; e = e.Prev() {
		fmt.Fprintf(&out, "%d,", e.Value.(int))
	}
	fmt.Fprintf(&out, "|%d", l.Len())
	return out.String()
}

const preludeList = `
func absMod(x, n: int) => int {
	if n <= 0 {
		return 0
	}
	x %= n
	if x < 0 {
		x += n
	}
	return x
}

func listScript(ops: []int) => string {
	l := list.New()
	elems: []*list.Element
	out := ""
	for i := 0; i+1 < len(ops); i += 2 {
		op, x := absMod(ops[i], 11), ops[i+1]
		switch op {
		case 0:
			elems = append(elems, l.PushFront(x))
		case 1:
			elems = append(elems, l.PushBack(x))
		case 2, 3:
			if len(elems) > 0 {
				mark := elems[absMod(x, len(elems))]
				e: *list.Element
				if op == 2 {
					e = l.InsertBefore(x, mark)
				} else {
					e = l.InsertAfter(x, mark)
				}
				if e != nil {
					elems = append(elems, e)
				} else {
					out += "n"
				}
			}
		case 4:
			if len(elems) > 0 {
				v := l.Remove(elems[absMod(x, len(elems))])
				out += "r" + I(i64(v.(int)))
			}
		case 5:
			if len(elems) > 0 {
				l.MoveToFront(elems[absMod(x, len(elems))])
			}
		case 6:
			if len(elems) > 0 {
				l.MoveToBack(elems[absMod(x, len(elems))])
			}
		case 7:
			l.PushBackList(l)
		case 8:
			o := list.New()
			o.PushBack(x)
			o.PushBack(x + 1)
			if x%2 == 0 {
				l.PushBackList(o)
			} else {
				l.PushFrontList(o)
			}
		case 9:
			out += "L" + I(i64(l.Len()))
		case 10:
			if x%7 == 0 {
				l.Init()
				elems = elems[:0]
			} else if f := l.Front(); f != nil {
				out += "f" + I(i64(f.Value.(int)))
				if b := l.Back(); b != nil {
					out += "b" + I(i64(b.Value.(int)))
				}
			}
		}
	}
	out += "|"
	for e := l.Front(); e != nil; e = e.Next() {
		out += I(i64(e.Value.(int))) + ","
	}
	out += "|"
	for e := l.Back(); e != nil; e = e.Prev() {
		out += I(i64(e.Value.(int))) + ","
	}
	out += "|" + I(i64(l.Len()))
	return out
}
`

func ringScript(ops []int) string {
	n := 1
	if len(ops) > 0 {
		n = absMod(ops[0], 6) + 1
	}
	r := ring.New(n)
	for i := 0; i < n; i++ {
		r.Value = i
		r = r.Next()
	}
	next := 100
	var out strings.Builder
	for i := 1; i+1 < len(ops); i += 2 {
		op, x := absMod(ops[i], 7), ops[i+1]
		switch op {
		case 0:
			r = r.Move(absMod(x, 15) - 7)
		case 1:
			r = r.Next()
		case 2:
			r = r.Prev()
		case 3: // link a fresh ring
			k := absMod(x, 3) + 1
			s := ring.New(k)
			for j := 0; j < k; j++ {
				s.Value = next
				next++
				s = s.Next()
			}
			r.Link(s)
		case 4: // unlink
			// (a nil *Ring is the empty ring; Wa traps on a method call through a nil
			// receiver, a language rule outside this property, so the script never does that)
			if u := r.Unlink(absMod(x, 5)); u != nil {
				fmt.Fprintf(&out, "u%d", u.Len())
			} else {
				out.WriteString("u-")
			}
		case 5:
			fmt.Fprintf(&out, "L%d", r.Len())
		case 6: // link within the same ring: removes the elements in between
			s := r.Move(absMod(x, 4))
			if s != r {
				removed := r.Link(s)
				fmt.Fprintf(&out, "x%d", removed.Len())
			}
		}
	}
	out.WriteString("|")
	r.Do(func(v interface{}) { fmt.Fprintf(&out, "%d,", v.(int)) })
	out.WriteString("|")
	p := r
	for i, m := 0, r.Len(); i < m; i++ {
		fmt.Fprintf(&out, "%d,", p.Value.(int))
		p = p.Prev()
	}
	return out.String()
}

const preludeRing = `
global ringOut: string

func ringCollect(v: interface{}) {
	ringOut += I(i64(v.(int))) + ","
}

func ringScript(ops: []int) => string {
	n := 1
	if len(ops) > 0 {
		n = absMod(ops[0], 6) + 1
	}
	r := ring.New(n)
	for i := 0; i < n; i++ {
		r.Value = i
		r = r.Next()
	}
	next := 100
	out := ""
	for i := 1; i+1 < len(ops); i += 2 {
		op, x := absMod(ops[i], 7), ops[i+1]
		switch op {
		case 0:
			r = r.Move(absMod(x, 15) - 7)
		case 1:
			r = r.Next()
		case 2:
			r = r.Prev()
		case 3:
			k := absMod(x, 3) + 1
			s := ring.New(k)
			for j := 0; j < k; j++ {
				s.Value = next
				next++
				s = s.Next()
			}
			r.Link(s)
		case 4:
			if u := r.Unlink(absMod(x, 5)); u != nil {
				out += "u" + I(i64(u.Len()))
			} else {
				out += "u-"
			}
		case 5:
			out += "L" + I(i64(r.Len()))
		case 6:
			s := r.Move(absMod(x, 4))
			if s != r {
				removed := r.Link(s)
				out += "x" + I(i64(removed.Len()))
			}
		}
	}
	out += "|"
	ringOut = ""
	r.Do(ringCollect)
	out += ringOut
	out += "|"
	p := r
	m := r.Len()
	for i := 0; i < m; i++ {
		out += I(i64(p.Value.(int))) + ","
		p = p.Prev()
	}
	return out
}
`

type iheap struct{ a []int }

func (h *iheap) Len() int           { return len(h.a) }
func (h *iheap) Less(i, j int) bool { return h.a[i] < h.a[j] }
func (h *iheap) Swap(i, j int)      { h.a[i], h.a[j] = h.a[j], h.a[i] }
func (h *iheap) Push(x interface{}) { h.a = append(h.a, x.(int)) }
func (h *iheap) Pop() interface{} {
	n := len(h.a) - 1
	v := h.a[n]
	h.a = h.a[:n]
	return v
}

// heapScript: which element sits at index i of the backing array is an
// implementation detail (tie-breaking between equal children differs between
// heap implementations that are both correct), so the trace is
// layout-independent: Pop must return the minimum of a model multiset, Remove(i)
// must return some element of it, and the final drain must be sorted and
// exhaust the model. No element value is printed: after a Remove the two
// (valid) heaps may legitimately hold different multisets.
func heapScript(ops []int) string {
	h := &iheap{}
	var model []int
	drop := func(v int) bool {
		for k, m := range model {
			if m == v {
				model = append(model[:k], model[k+1:]...)
				return true
			}
		}
		return false
	}
	minOf := func() int {
		m := model[0]
		for _, v := range model {
			if v < m {
				m = v
			}
		}
		return m
	}
	var out strings.Builder
	for i := 0; i+1 < len(ops); i += 2 {
		op, x := absMod(ops[i], 6), ops[i+1]
		switch op {
		case 0, 1:
			heap.Push(h, x)
			model = append(model, x)
		case 2:
			if h.Len() > 0 {
				want := minOf()
				v := heap.Pop(h).(int)
				if v == want && drop(v) {
					out.WriteString("p+")
				} else {
					fmt.Fprintf(&out, "p!%d(min %d)", v, want)
				}
			}
		case 3:
			if h.Len() > 0 {
				v := heap.Remove(h, absMod(x, h.Len())).(int)
				if drop(v) {
					out.WriteString("r+")
				} else {
					fmt.Fprintf(&out, "r!%d", v)
				}
			}
		case 4: // break the invariant, then re-establish it
			h.a = append(h.a, x, x-3, x+3)
			model = append(model, x, x-3, x+3)
			heap.Init(h)
		case 5:
			fmt.Fprintf(&out, "L%d", h.Len())
		}
	}
	out.WriteString("|")
	for h.Len() > 0 {
		want := minOf()
		v := heap.Pop(h).(int)
		if v == want && drop(v) {
			out.WriteString("+")
		} else {
			fmt.Fprintf(&out, "!%d(min %d)", v, want)
		}
	}
	fmt.Fprintf(&out, "|%d", len(model))
	return out.String()
}

const preludeHeap = `
type iheap :struct {
	a: []int
}

func iheap.Len() => int { return len(this.a) }
func iheap.Less(i, j: int) => bool { return this.a[i] < this.a[j] }
func iheap.Swap(i, j: int) { this.a[i], this.a[j] = this.a[j], this.a[i] }
func iheap.Push(x: interface{}) { this.a = append(this.a, x.(int)) }
func iheap.Pop() => interface{} {
	n := len(this.a) - 1
	v := this.a[n]
	this.a = this.a[:n]
	return v
}

global heapModel: []int

func heapDrop(v: int) => bool {
	for k, m := range heapModel {
		if m == v {
			heapModel = append(heapModel[:k], heapModel[k+1:]...)
			return true
		}
	}
	return false
}

func heapMin() => int {
	m := heapModel[0]
	for _, v := range heapModel {
		if v < m {
			m = v
		}
	}
	return m
}

func heapScript(ops: []int) => string {
	h := &iheap{}
	heapModel = nil
	out := ""
	for i := 0; i+1 < len(ops); i += 2 {
		op, x := absMod(ops[i], 6), ops[i+1]
		switch op {
		case 0, 1:
			heap.Push(h, x)
			heapModel = append(heapModel, x)
		case 2:
			if h.Len() > 0 {
				want := heapMin()
				v := heap.Pop(h).(int)
				if v == want && heapDrop(v) {
					out += "p+"
				} else {
					out += "p!" + I(i64(v)) + "(min " + I(i64(want)) + ")"
				}
			}
		case 3:
			if h.Len() > 0 {
				v := heap.Remove(h, absMod(x, h.Len())).(int)
				if heapDrop(v) {
					out += "r+"
				} else {
					out += "r!" + I(i64(v))
				}
			}
		case 4:
			h.a = append(h.a, x, x-3, x+3)
			heapModel = append(heapModel, x, x-3, x+3)
			heap.Init(h)
		case 5:
			out += "L" + I(i64(h.Len()))
		}
	}
	out += "|"
	for h.Len() > 0 {
		want := heapMin()
		v := heap.Pop(h).(int)
		if v == want && heapDrop(v) {
			out += "+"
		} else {
			out += "!" + I(i64(v)) + "(min " + I(i64(want)) + ")"
		}
	}
	out += "|" + I(i64(len(heapModel)))
	return out
}
`

type textRes string

func init() {
	preludes["absmod"] = preludeList[:strings.Index(preludeList, "func listScript")]
	preludes["list"] = preludeList[strings.Index(preludeList, "func listScript"):]
	preludes["ring"] = preludeRing
	preludes["heap"] = preludeHeap
	kinds["ops"] = &kind{wa: "[]int", gen: func(g *genCtx) string {
		t := g.t
		n := rapid.IntRange(0, 40).Draw(t, "nops")
		var l []int64
		for i := 0; i < n; i++ {
			l = append(l, int64(rapid.IntRange(0, 10).Draw(t, "op")), int64(rapid.IntRange(-9, 30).Draw(t, "x")))
		}
		return encInts(l)
	}, classes: func(v string, _ A, _ *fn) []string {
		n := len(splitList(v)) / 2
		switch {
		case n == 0:
			return []string{"script-empty"}
		case n >= 20:
			return []string{"script-len>=20"}
		}
		return []string{"script-short"}
	}}
	setGroup("container")
	reg("container/list", "script", "ops:ops", "text", func(a A) []interface{} { return R(textRes(listScript(a.Ints(0)))) }).
		Pre("absmod", "list").T("r0 := listScript($0)")
	reg("container/ring", "script", "ops:ops", "text", func(a A) []interface{} { return R(textRes(ringScript(a.Ints(0)))) }).
		Pre("absmod", "ring").T("r0 := ringScript($0)")
	reg("container/heap", "script", "ops:ops", "text", func(a A) []interface{} { return R(textRes(heapScript(a.Ints(0)))) }).
		Pre("absmod", "heap").T("r0 := heapScript($0)")
}
