package c14

import (
	"math"
	"sort"
	"strings"

	"pgregory.net/rapid"
)

// genIntList: lists of ints with the shapes that drive quicksort / heapsort /
// insertion sort paths (sizes beyond the insertion-sort threshold included).
func genIntList(t *rapid.T, sorted bool) []int64 {
	n := rapid.IntRange(0, 14).Draw(t, "n")
	if rapid.IntRange(0, 4).Draw(t, "big") == 0 {
		n = rapid.IntRange(15, 220).Draw(t, "nbig")
	}
	shape := rapid.IntRange(0, 8).Draw(t, "shape")
	l := make([]int64, n)
	span := rapid.SampledFrom([]int{2, 5, 50, 100000}).Draw(t, "span")
	for i := range l {
		switch shape {
		case 0, 1, 2: // random with duplicates controlled by span
			l[i] = int64(rapid.IntRange(-span, span).Draw(t, "v"))
		case 3: // ascending
			l[i] = int64(i)
		case 4: // descending
			l[i] = int64(n - i)
		case 5: // all equal
			l[i] = 7
		case 6: // organ pipe
			if i < n/2 {
				l[i] = int64(i)
			} else {
				l[i] = int64(n - i)
			}
		case 7: // sawtooth
			l[i] = int64(i % 5)
		default: // extremes
			l[i] = rapid.SampledFrom([]int64{math.MinInt32, math.MaxInt32, 0, -1, 1, math.MaxInt32 - 1, math.MinInt32 + 1}).Draw(t, "ext")
		}
	}
	if shape == 3 && n > 2 && rapid.Bool().Draw(t, "swap") { // nearly sorted
		l[0], l[n-1] = l[n-1], l[0]
	}
	if sorted {
		sort.Slice(l, func(i, j int) bool { return l[i] < l[j] })
	}
	return l
}

func intListClasses(v string, _ A, _ *fn) []string {
	l := A{v}.I64s(0)
	var c []string
	switch {
	case len(l) == 0:
		c = append(c, "list-empty")
	case len(l) == 1:
		c = append(c, "list-len=1")
	case len(l) > 50:
		c = append(c, "list-len>50")
	case len(l) > 12:
		c = append(c, "list-len>12")
	}
	asc, desc, dup := true, true, false
	seen := map[int64]bool{}
	for i, x := range l {
		if i > 0 && l[i-1] > x {
			asc = false
		}
		if i > 0 && l[i-1] < x {
			desc = false
		}
		if seen[x] {
			dup = true
		}
		seen[x] = true
		if x == math.MinInt32 || x == math.MaxInt32 {
			c = append(c, "list-has-int-limit")
		}
	}
	if len(l) > 1 {
		if asc {
			c = append(c, "list-ascending")
		} else if desc {
			c = append(c, "list-descending")
		}
		if dup {
			c = append(c, "list-has-duplicates")
		}
	}
	return dedup(c)
}

func genF64List(t *rapid.T, sorted bool) []float64 {
	n := rapid.IntRange(0, 14).Draw(t, "n")
	if rapid.IntRange(0, 5).Draw(t, "big") == 0 {
		n = rapid.IntRange(15, 120).Draw(t, "nbig")
	}
	l := make([]float64, n)
	for i := range l {
		switch rapid.IntRange(0, 5).Draw(t, "fc") {
		case 0:
			l[i] = rapid.SampledFrom([]float64{0, 1, -1, math.Inf(1), math.Inf(-1), math.MaxFloat64, -math.MaxFloat64, 5e-324, -5e-324, 0.5}).Draw(t, "fs")
		case 1:
			if !sorted {
				l[i] = math.NaN()
			}
		default:
			l[i] = float64(rapid.IntRange(-40, 40).Draw(t, "fi")) / 4
		}
	}
	if sorted {
		sort.Float64s(l)
	}
	return l
}

const preludeSort = `
type kvs :struct {
	k: []int
	v: []int
}

func kvs.Len() => int { return len(this.k) }
func kvs.Less(i, j: int) => bool { return this.k[i] < this.k[j] }
func kvs.Swap(i, j: int) {
	this.k[i], this.k[j] = this.k[j], this.k[i]
	this.v[i], this.v[j] = this.v[j], this.v[i]
}

func newKVs(k: []int) => *kvs {
	v := make([]int, len(k))
	for i := range v {
		v[i] = i
	}
	return &kvs{k: k, v: v}
}
`

type kvs struct{ k, v []int }

func (s *kvs) Len() int           { return len(s.k) }
func (s *kvs) Less(i, j int) bool { return s.k[i] < s.k[j] }
func (s *kvs) Swap(i, j int) {
	s.k[i], s.k[j] = s.k[j], s.k[i]
	s.v[i], s.v[j] = s.v[j], s.v[i]
}
func newKVs(k []int) *kvs {
	v := make([]int, len(k))
	for i := range v {
		v[i] = i
	}
	return &kvs{k, v}
}

func init() {
	preludes["sort"] = preludeSort
	kinds["ints"] = &kind{wa: "[]int", gen: func(g *genCtx) string { return encInts(genIntList(g.t, false)) }, classes: intListClasses}
	kinds["sints"] = &kind{wa: "[]int", gen: func(g *genCtx) string { return encInts(genIntList(g.t, true)) }, classes: intListClasses}
	f64sClasses := func(v string, _ A, _ *fn) []string {
		l := A{v}.F64s(0)
		var c []string
		if len(l) == 0 {
			c = append(c, "list-empty")
		}
		if len(l) > 12 {
			c = append(c, "list-len>12")
		}
		for _, x := range l {
			if x != x {
				c = append(c, "list-has-nan")
			}
			if math.IsInf(x, 0) {
				c = append(c, "list-has-inf")
			}
		}
		return dedup(c)
	}
	kinds["f64s"] = &kind{wa: "[]f64", gen: func(g *genCtx) string { return encF64s(genF64List(g.t, false)) }, classes: f64sClasses}
	kinds["sf64s"] = &kind{wa: "[]f64", gen: func(g *genCtx) string { return encF64s(genF64List(g.t, true)) }, classes: f64sClasses}
	kinds["sstrs"] = &kind{wa: "[]string", gen: func(g *genCtx) string {
		l := A{genStrsArg(g)}.Strs(0)
		sort.Strings(l)
		return encStrs(l)
	}, classes: listClasses}
	// search keys: often an element of the list, or just beside one
	kinds["keyint"] = &kind{wa: "int", gen: func(g *genCtx) string {
		av, _ := g.argByName("a")
		l := A{av}.I64s(0)
		if len(l) > 0 && rapid.IntRange(0, 3).Draw(g.t, "kin") > 0 {
			x := l[rapid.IntRange(0, len(l)-1).Draw(g.t, "ki")] + int64(rapid.IntRange(-1, 1).Draw(g.t, "kd"))
			if x > math.MaxInt32 || x < math.MinInt32 {
				x = 0
			}
			return encI(x)
		}
		return encI(int64(rapid.IntRange(-60, 60).Draw(g.t, "k")))
	}, classes: func(v string, a A, f *fn) []string {
		x := A{v}.I64(0)
		l := A{a[0]}.I64s(0)
		switch {
		case len(l) == 0:
			return nil
		case x < l[0]:
			return []string{"key-below-all"}
		case x > l[len(l)-1]:
			return []string{"key-above-all"}
		}
		for _, e := range l {
			if e == x {
				return []string{"key-present"}
			}
		}
		return []string{"key-in-gap"}
	}}
	kinds["keyf64"] = &kind{wa: "f64", gen: func(g *genCtx) string {
		av, _ := g.argByName("a")
		l := A{av}.F64s(0)
		if len(l) > 0 && rapid.IntRange(0, 3).Draw(g.t, "kin") > 0 {
			return encF(l[rapid.IntRange(0, len(l)-1).Draw(g.t, "ki")] + float64(rapid.IntRange(-1, 1).Draw(g.t, "kd"))/8)
		}
		return encF(float64(rapid.IntRange(-50, 50).Draw(g.t, "k")) / 4)
	}, classes: func(v string, a A, f *fn) []string {
		x := A{v}.F64(0)
		for _, e := range (A{a[0]}).F64s(0) {
			if e == x {
				return []string{"key-present"}
			}
		}
		return []string{"key-absent"}
	}}
	kinds["keystr"] = &kind{wa: "string", gen: func(g *genCtx) string {
		av, _ := g.argByName("a")
		l := A{av}.Strs(0)
		if len(l) > 0 && rapid.IntRange(0, 3).Draw(g.t, "kin") > 0 {
			return encS(l[rapid.IntRange(0, len(l)-1).Draw(g.t, "ki")] + rapid.SampledFrom([]string{"", "", "a", "\x00"}).Draw(g.t, "ksuf"))
		}
		return encS(genStr(g.t, false))
	}, classes: func(v string, a A, f *fn) []string {
		x := A{v}.Str(0)
		for _, e := range (A{a[0]}).Strs(0) {
			if e == x {
				return []string{"key-present"}
			}
		}
		return []string{"key-absent"}
	}}

	setGroup("sort")
	reg("sort", "Ints", "a:ints", "ints", func(a A) []interface{} { l := a.Ints(0); sort.Ints(l); return R(l) }).T("r0 := $0\nsort.Ints(r0)")
	reg("sort", "Strings", "a:strs", "strs", func(a A) []interface{} { l := a.Strs(0); sort.Strings(l); return R(l) }).T("r0 := $0\nsort.Strings(r0)")
	reg("sort", "Float64s", "a:f64s", "f64s", func(a A) []interface{} { l := a.F64s(0); sort.Float64s(l); return R(l) }).T("r0 := $0\nsort.Float64s(r0)")
	reg("sort", "IntsAreSorted", "a:ints", "bool", func(a A) []interface{} { return R(sort.IntsAreSorted(a.Ints(0))) })
	reg("sort", "StringsAreSorted", "a:strs", "bool", func(a A) []interface{} { return R(sort.StringsAreSorted(a.Strs(0))) })
	reg("sort", "Float64sAreSorted", "a:f64s", "bool", func(a A) []interface{} { return R(sort.Float64sAreSorted(a.F64s(0))) })
	reg("sort", "SearchInts", "a:sints x:keyint", "int", func(a A) []interface{} { return R(sort.SearchInts(a.Ints(0), a.Int(1))) })
	reg("sort", "SearchStrings", "a:sstrs x:keystr", "int", func(a A) []interface{} { return R(sort.SearchStrings(a.Strs(0), a.Str(1))) })
	reg("sort", "SearchFloat64s", "a:sf64s x:keyf64", "int", func(a A) []interface{} { return R(sort.SearchFloat64s(a.F64s(0), a.F64(1))) })
	reg("sort", "Search", "n:len k:len", "int", func(a A) []interface{} {
		k := a.Int(1)
		return R(sort.Search(a.Int(0), func(i int) bool { return i >= k }))
	}).T("k := $1\nr0 := sort.Search($0, func(i: int) => bool { return i >= k })")
	reg("sort", "Find", "a:sints x:keyint", "int bool", func(a A) []interface{} {
		l, x := a.Ints(0), a.Int(1)
		i, found := sort.Find(len(l), func(i int) int {
			switch {
			case x < l[i]:
				return -1
			case x > l[i]:
				return 1
			}
			return 0
		})
		return R(i, found)
	}).T("l := $0\nx := $1\nr0, r1 := sort.Find(len(l), func(i: int) => int {\n\tif x < l[i] {\n\t\treturn -1\n\t}\n\tif x > l[i] {\n\t\treturn 1\n\t}\n\treturn 0\n})")
	// Sort is not stable: only the keys are compared; Stable: keys and the permutation.
	reg("sort", "Sort", "a:ints", "ints", func(a A) []interface{} { d := newKVs(a.Ints(0)); sort.Sort(d); return R(d.k) }).
		Pre("sort").T("d := newKVs($0)\nsort.Sort(d)\nr0 := d.k")
	reg("sort", "Stable", "a:ints", "ints ints", func(a A) []interface{} { d := newKVs(a.Ints(0)); sort.Stable(d); return R(d.k, d.v) }).
		Pre("sort").T("d := newKVs($0)\nsort.Stable(d)\nr0 := d.k\nr1 := d.v")
	reg("sort", "Sort(Reverse)", "a:ints", "ints", func(a A) []interface{} { d := newKVs(a.Ints(0)); sort.Sort(sort.Reverse(d)); return R(d.k) }).
		Pre("sort").T("d := newKVs($0)\nsort.Sort(sort.Reverse(d))\nr0 := d.k")
	reg("sort", "IsSorted", "a:ints", "bool", func(a A) []interface{} { return R(sort.IsSorted(newKVs(a.Ints(0)))) }).
		Pre("sort").T("r0 := sort.IsSorted(newKVs($0))")
	reg("sort", "IntSlice.Search", "a:sints x:keyint", "int", func(a A) []interface{} { return R(sort.IntSlice(a.Ints(0)).Search(a.Int(1))) }).
		T("sl := &sort.IntSlice{$0}\nr0 := sl.Search($1)")
	_ = strings.Join
}
