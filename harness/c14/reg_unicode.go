package c14

import (
	"unicode/utf16"
	"unicode/utf8"
)

func init() {
	setGroup("utf8")
	reg("unicode/utf8", "FullRune", "p:bytes", "bool", func(a A) []interface{} { return R(utf8.FullRune(a.Bytes(0))) })
	reg("unicode/utf8", "FullRuneInString", "s:str", "bool", func(a A) []interface{} { return R(utf8.FullRuneInString(a.Str(0))) })
	reg("unicode/utf8", "DecodeRune", "p:bytes", "rune int", func(a A) []interface{} {
		r, n := utf8.DecodeRune(a.Bytes(0))
		return R(r, n)
	})
	reg("unicode/utf8", "DecodeRuneInString", "s:str", "rune int", func(a A) []interface{} {
		r, n := utf8.DecodeRuneInString(a.Str(0))
		return R(r, n)
	})
	reg("unicode/utf8", "DecodeLastRune", "p:bytes", "rune int", func(a A) []interface{} {
		r, n := utf8.DecodeLastRune(a.Bytes(0))
		return R(r, n)
	})
	reg("unicode/utf8", "DecodeLastRuneInString", "s:str", "rune int", func(a A) []interface{} {
		r, n := utf8.DecodeLastRuneInString(a.Str(0))
		return R(r, n)
	})
	reg("unicode/utf8", "RuneStart", "b:u8", "bool", func(a A) []interface{} { return R(utf8.RuneStart(a.U8(0))) })
	reg("unicode/utf8", "RuneLen", "r:rune", "int", func(a A) []interface{} { return R(utf8.RuneLen(a.Rune(0))) })
	reg("unicode/utf8", "ValidRune", "r:rune", "bool", func(a A) []interface{} { return R(utf8.ValidRune(a.Rune(0))) })
	reg("unicode/utf8", "EncodeRune", "r:rune", "bytes int", func(a A) []interface{} {
		p := make([]byte, 4)
		n := utf8.EncodeRune(p, a.Rune(0))
		return R(p[:n], n)
	}).T("p := make([]byte, 4)\nr1 := utf8.EncodeRune(p, $0)\nr0 := p[:r1]")
	reg("unicode/utf8", "AppendRune", "p:dst r:rune", "bytes", func(a A) []interface{} { return R(utf8.AppendRune(a.Bytes(0), a.Rune(1))) })
	reg("unicode/utf8", "RuneCount", "p:bytes", "int", func(a A) []interface{} { return R(utf8.RuneCount(a.Bytes(0))) })
	reg("unicode/utf8", "RuneCountInString", "s:str", "int", func(a A) []interface{} { return R(utf8.RuneCountInString(a.Str(0))) })
	reg("unicode/utf8", "Valid", "p:bytes", "bool", func(a A) []interface{} { return R(utf8.Valid(a.Bytes(0))) })
	reg("unicode/utf8", "ValidString", "s:str", "bool", func(a A) []interface{} { return R(utf8.ValidString(a.Str(0))) })
	reg("unicode/utf8", "rt:EncodeRune/DecodeRune", "r:rune", "bool", func(a A) []interface{} {
		p := utf8.AppendRune(nil, a.Rune(0))
		r, n := utf8.DecodeRune(p)
		want := a.Rune(0)
		if !utf8.ValidRune(want) {
			want = utf8.RuneError
		}
		return R(r == want && n == len(p))
	}).T("p := utf8.AppendRune(nil, $0)\nr, n := utf8.DecodeRune(p)\nwant := $0\nif !utf8.ValidRune(want) {\n\twant = utf8.RuneError\n}\nr0 := r == want && n == len(p)")

	setGroup("utf16")
	reg("unicode/utf16", "IsSurrogate", "r:rune", "bool", func(a A) []interface{} { return R(utf16.IsSurrogate(a.Rune(0))) })
	reg("unicode/utf16", "DecodeRune", "r1:rune r2:rune", "rune", func(a A) []interface{} { return R(utf16.DecodeRune(a.Rune(0), a.Rune(1))) })
	reg("unicode/utf16", "EncodeRune", "r:rune", "rune rune", func(a A) []interface{} {
		r1, r2 := utf16.EncodeRune(a.Rune(0))
		return R(r1, r2)
	})
	reg("unicode/utf16", "RuneLen", "r:rune", "int", func(a A) []interface{} { return R(utf16.RuneLen(a.Rune(0))) })
	reg("unicode/utf16", "Encode", "s:runes", "u16s", func(a A) []interface{} { return R(utf16.Encode(a.Runes(0))) })
	reg("unicode/utf16", "AppendRune", "a:u16s r:rune", "u16s", func(a A) []interface{} { return R(utf16.AppendRune(a.U16s(0), a.Rune(1))) })
	reg("unicode/utf16", "Decode", "s:u16s", "runes", func(a A) []interface{} { return R(utf16.Decode(a.U16s(0))) })
	reg("unicode/utf16", "rt:Encode/Decode", "s:runes", "bool", func(a A) []interface{} {
		in := a.Runes(0)
		out := utf16.Decode(utf16.Encode(in))
		ok := len(in) == len(out)
		for i := 0; ok && i < len(in); i++ {
			want := in[i]
			if !utf8.ValidRune(want) {
				want = 0xFFFD
			}
			ok = out[i] == want
		}
		return R(ok)
	}).Imp("unicode/utf8").T("in := $0\nout := utf16.Decode(utf16.Encode(in))\nr0 := len(in) == len(out)\nfor i := 0; r0 && i < len(in); i++ {\n\twant := in[i]\n\tif !utf8.ValidRune(want) {\n\t\twant = 0xFFFD\n\t}\n\tr0 = out[i] == want\n}")
}
