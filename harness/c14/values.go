package c14

// Argument values: canonical text form (what goes into replay files), decoding
// for the Go side, rendering as Wa literals, result encoding.

import (
	"encoding/hex"
	"fmt"
	"math"
	"strconv"
	"strings"
)

// ---------------------------------------------------------------- canonical text

func encS(s string) string { return hex.EncodeToString([]byte(s)) }
func encI(v int64) string  { return strconv.FormatInt(v, 10) }
func encU(v uint64) string { return strconv.FormatUint(v, 10) }
func encF(f float64) string {
	return fmt.Sprintf("0x%016x", math.Float64bits(f))
}
func encBool(b bool) string {
	if b {
		return "1"
	}
	return "0"
}

// lists: elements joined by ","; string elements carry an "x" prefix so that
// the empty list ("") and a list holding one empty string ("x") differ.
func encStrs(l []string) string {
	p := make([]string, len(l))
	for i, s := range l {
		p[i] = "x" + encS(s)
	}
	return strings.Join(p, ",")
}
func encInts(l []int64) string {
	p := make([]string, len(l))
	for i, v := range l {
		p[i] = encI(v)
	}
	return strings.Join(p, ",")
}
func encF64s(l []float64) string {
	p := make([]string, len(l))
	for i, v := range l {
		p[i] = encF(v)
	}
	return strings.Join(p, ",")
}

func splitList(s string) []string {
	if s == "" {
		return nil
	}
	return strings.Split(s, ",")
}

// A is the argument tuple of one call in canonical text form.
type A []string

func must(err error) {
	if err != nil {
		panic("c14: bad canonical argument: " + err.Error())
	}
}

func (a A) I64(i int) int64 {
	v, err := strconv.ParseInt(a[i], 10, 64)
	must(err)
	return v
}
func (a A) U64(i int) uint64 {
	v, err := strconv.ParseUint(a[i], 10, 64)
	must(err)
	return v
}
func (a A) Int(i int) int      { return int(a.I64(i)) }
func (a A) U32(i int) uint32   { return uint32(a.U64(i)) }
func (a A) U16(i int) uint16   { return uint16(a.U64(i)) }
func (a A) U8(i int) uint8     { return uint8(a.U64(i)) }
func (a A) Rune(i int) rune    { return rune(a.I64(i)) }
func (a A) Bool(i int) bool    { return a[i] == "1" }
func (a A) Bytes(i int) []byte { return []byte(a.Str(i)) }
func (a A) Str(i int) string {
	b, err := hex.DecodeString(a[i])
	must(err)
	return string(b)
}
func (a A) F64(i int) float64 {
	v, err := strconv.ParseUint(strings.TrimPrefix(a[i], "0x"), 16, 64)
	must(err)
	return math.Float64frombits(v)
}
func (a A) Strs(i int) []string {
	var out []string
	for _, e := range splitList(a[i]) {
		b, err := hex.DecodeString(strings.TrimPrefix(e, "x"))
		must(err)
		out = append(out, string(b))
	}
	return out
}
func (a A) Bytess(i int) [][]byte {
	var out [][]byte
	for _, s := range a.Strs(i) {
		out = append(out, []byte(s))
	}
	return out
}
func (a A) I64s(i int) []int64 {
	var out []int64
	for _, e := range splitList(a[i]) {
		v, err := strconv.ParseInt(e, 10, 64)
		must(err)
		out = append(out, v)
	}
	return out
}
func (a A) Ints(i int) []int {
	var out []int
	for _, v := range a.I64s(i) {
		out = append(out, int(v))
	}
	return out
}
func (a A) U16s(i int) []uint16 {
	var out []uint16
	for _, v := range a.I64s(i) {
		out = append(out, uint16(v))
	}
	return out
}
func (a A) Runes(i int) []rune {
	var out []rune
	for _, v := range a.I64s(i) {
		out = append(out, rune(v))
	}
	return out
}
func (a A) F64s(i int) []float64 {
	var out []float64
	for _, e := range splitList(a[i]) {
		v, err := strconv.ParseUint(strings.TrimPrefix(e, "0x"), 16, 64)
		must(err)
		out = append(out, math.Float64frombits(v))
	}
	return out
}

// ---------------------------------------------------------------- Wa literals

// waStr renders arbitrary bytes as a Wa interpreted string literal: printable
// ASCII except '"' and '\\' verbatim, everything else as \xNN (the scanner
// accepts \x escapes producing raw bytes, verified through the worker).
func waStr(s string) string { return waQuoted(s) }

func waBytes(s string) string { return "[]byte(" + waQuoted(s) + ")" }

func waQuoted(s string) string {
	var b strings.Builder
	b.WriteByte('"')
	for i := 0; i < len(s); i++ {
		c := s[i]
		if c >= 0x20 && c < 0x7f && c != '"' && c != '\\' {
			b.WriteByte(c)
		} else {
			fmt.Fprintf(&b, `\x%02x`, c)
		}
	}
	b.WriteByte('"')
	return b.String()
}

func waF64(bits uint64) string { return fmt.Sprintf("math.Float64frombits(0x%016x)", bits) }

// litFor renders canonical text v of Wa type wt as a Wa expression.
func litFor(wt string, v string) string {
	a := A{v}
	switch wt {
	case "string":
		return waStr(a.Str(0))
	case "[]byte":
		return waBytes(a.Str(0))
	case "bool":
		if v == "1" {
			return "true"
		}
		return "false"
	case "f64":
		return waF64(math.Float64bits(a.F64(0)))
	case "[]string":
		var p []string
		for _, s := range a.Strs(0) {
			p = append(p, waStr(s))
		}
		return "[]string{" + strings.Join(p, ", ") + "}"
	case "[][]byte":
		var p []string
		for _, s := range a.Strs(0) {
			p = append(p, waBytes(s))
		}
		return "[][]byte{" + strings.Join(p, ", ") + "}"
	case "[]int", "[]u16", "[]rune":
		return wt + "{" + strings.Join(splitList(v), ", ") + "}"
	case "[]f64":
		var p []string
		for _, f := range a.F64s(0) {
			p = append(p, waF64(math.Float64bits(f)))
		}
		return "[]f64{" + strings.Join(p, ", ") + "}"
	case "raw":
		return v
	}
	// integer types: typed conversion of a constant
	return wt + "(" + v + ")"
}

// ---------------------------------------------------------------- result encoding (Go side)

type errT struct{ e error }

// E wraps an error so that a nil error survives the trip through interface{}.
func E(e error) errT { return errT{e} }

func encRes(v interface{}) string {
	switch x := v.(type) {
	case textRes:
		return string(x)
	case string:
		return "x" + encS(x)
	case []byte:
		return "x" + encS(string(x))
	case bool:
		if x {
			return "true"
		}
		return "false"
	case errT:
		if x.e != nil {
			return "e1"
		}
		return "e0"
	case int:
		return encI(int64(x))
	case int8:
		return encI(int64(x))
	case int16:
		return encI(int64(x))
	case int32:
		return encI(int64(x))
	case int64:
		return encI(x)
	case uint:
		return encU(uint64(x))
	case uint8:
		return encU(uint64(x))
	case uint16:
		return encU(uint64(x))
	case uint32:
		return encU(uint64(x))
	case uint64:
		return encU(x)
	case float64:
		if x != x {
			return "nan"
		}
		return encU(math.Float64bits(x))
	case []string:
		p := make([]string, len(x))
		for i, s := range x {
			p[i] = encRes(s)
		}
		return "[" + strings.Join(p, ",") + "]"
	case [][]byte:
		p := make([]string, len(x))
		for i, s := range x {
			p[i] = encRes(s)
		}
		return "[" + strings.Join(p, ",") + "]"
	case []int:
		p := make([]string, len(x))
		for i, s := range x {
			p[i] = encRes(s)
		}
		return "[" + strings.Join(p, ",") + "]"
	case []int32:
		p := make([]string, len(x))
		for i, s := range x {
			p[i] = encRes(s)
		}
		return "[" + strings.Join(p, ",") + "]"
	case []uint16:
		p := make([]string, len(x))
		for i, s := range x {
			p[i] = encRes(s)
		}
		return "[" + strings.Join(p, ",") + "]"
	case []float64:
		p := make([]string, len(x))
		for i, s := range x {
			p[i] = encRes(s)
		}
		return "[" + strings.Join(p, ",") + "]"
	}
	panic(fmt.Sprintf("c14: encRes: unsupported result type %T", v))
}

// waResExpr is the Wa expression turning result variable r of result kind k
// into its canonical text (helpers are defined in the driver prelude).
func waResExpr(k, r string) string {
	switch k {
	case "str":
		return "H(" + r + ")"
	case "bytes":
		return "H(string(" + r + "))"
	case "bool":
		return "B(" + r + ")"
	case "err":
		return "E(" + r + ")"
	case "int", "i64", "i32", "rune":
		return "I(i64(" + r + "))"
	case "u64", "u32", "u16", "u8", "uint":
		return "U(u64(" + r + "))"
	case "f64":
		return "F(" + r + ")"
	case "strs":
		return "HS(" + r + ")"
	case "bytess":
		return "HB(" + r + ")"
	case "ints":
		return "IS(" + r + ")"
	case "runes":
		return "RS(" + r + ")"
	case "u16s":
		return "US(" + r + ")"
	case "f64s":
		return "FS(" + r + ")"
	case "text": // already a canonical string built by a script interpreter
		return r
	}
	panic("c14: unknown result kind " + k)
}

func resNeedsMath(k string) bool { return k == "f64" || k == "f64s" }

// The driver prelude: number/hex formatting written in the driver itself so
// that no package under test is used to print results.
const preludeBase = `
func U(u: u64) => string {
	if u == 0 {
		return "0"
	}
	b: [20]byte
	i := 20
	for u > 0 {
		i--
		b[i] = byte('0' + u%10)
		u /= 10
	}
	return string(b[i:])
}

func I(v: i64) => string {
	if v < 0 {
		return "-" + U(0-u64(v))
	}
	return U(u64(v))
}

func H(s: string) => string {
	const d = "0123456789abcdef"
	b := make([]byte, 0, len(s)*2+1)
	b = append(b, 'x')
	for i := 0; i < len(s); i++ {
		b = append(b, d[s[i]>>4], d[s[i]&15])
	}
	return string(b)
}

func B(v: bool) => string {
	if v {
		return "true"
	}
	return "false"
}

func E(e: error) => string {
	if e != nil {
		return "e1"
	}
	return "e0"
}

func HS(l: []string) => string {
	s := "["
	for i, e := range l {
		if i > 0 {
			s += ","
		}
		s += H(e)
	}
	return s + "]"
}

func HB(l: [][]byte) => string {
	s := "["
	for i, e := range l {
		if i > 0 {
			s += ","
		}
		s += H(string(e))
	}
	return s + "]"
}

func IS(l: []int) => string {
	s := "["
	for i, e := range l {
		if i > 0 {
			s += ","
		}
		s += I(i64(e))
	}
	return s + "]"
}

func RS(l: []rune) => string {
	s := "["
	for i, e := range l {
		if i > 0 {
			s += ","
		}
		s += I(i64(e))
	}
	return s + "]"
}

func US(l: []u16) => string {
	s := "["
	for i, e := range l {
		if i > 0 {
			s += ","
		}
		s += U(u64(e))
	}
	return s + "]"
}
`

const preludeFloat = `
func F(f: f64) => string {
	if f != f {
		return "nan"
	}
	return U(math.Float64bits(f))
}

func FS(l: []f64) => string {
	s := "["
	for i, e := range l {
		if i > 0 {
			s += ","
		}
		s += F(e)
	}
	return s + "]"
}
`
