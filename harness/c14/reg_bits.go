package c14

import (
	"math/bits"

	"pgregory.net/rapid"
)

// Wa's uint is 32 bits wide: the unsized functions are rendered with Go's
// 32-bit variants.
func init() {
	setGroup("bits-count")
	reg("math/bits", "LeadingZeros", "x:uint", "int", func(a A) []interface{} { return R(bits.LeadingZeros32(a.U32(0))) })
	reg("math/bits", "LeadingZeros8", "x:u8", "int", func(a A) []interface{} { return R(bits.LeadingZeros8(a.U8(0))) })
	reg("math/bits", "LeadingZeros16", "x:u16", "int", func(a A) []interface{} { return R(bits.LeadingZeros16(a.U16(0))) })
	reg("math/bits", "LeadingZeros32", "x:u32", "int", func(a A) []interface{} { return R(bits.LeadingZeros32(a.U32(0))) })
	reg("math/bits", "LeadingZeros64", "x:u64", "int", func(a A) []interface{} { return R(bits.LeadingZeros64(a.U64(0))) })
	reg("math/bits", "TrailingZeros", "x:uint", "int", func(a A) []interface{} { return R(bits.TrailingZeros32(a.U32(0))) })
	reg("math/bits", "TrailingZeros8", "x:u8", "int", func(a A) []interface{} { return R(bits.TrailingZeros8(a.U8(0))) })
	reg("math/bits", "TrailingZeros16", "x:u16", "int", func(a A) []interface{} { return R(bits.TrailingZeros16(a.U16(0))) })
	reg("math/bits", "TrailingZeros32", "x:u32", "int", func(a A) []interface{} { return R(bits.TrailingZeros32(a.U32(0))) })
	reg("math/bits", "TrailingZeros64", "x:u64", "int", func(a A) []interface{} { return R(bits.TrailingZeros64(a.U64(0))) })
	reg("math/bits", "OnesCount", "x:uint", "int", func(a A) []interface{} { return R(bits.OnesCount32(a.U32(0))) })
	reg("math/bits", "OnesCount8", "x:u8", "int", func(a A) []interface{} { return R(bits.OnesCount8(a.U8(0))) })
	reg("math/bits", "OnesCount16", "x:u16", "int", func(a A) []interface{} { return R(bits.OnesCount16(a.U16(0))) })
	reg("math/bits", "OnesCount32", "x:u32", "int", func(a A) []interface{} { return R(bits.OnesCount32(a.U32(0))) })
	reg("math/bits", "OnesCount64", "x:u64", "int", func(a A) []interface{} { return R(bits.OnesCount64(a.U64(0))) })
	reg("math/bits", "Len", "x:uint", "int", func(a A) []interface{} { return R(bits.Len32(a.U32(0))) })
	reg("math/bits", "Len8", "x:u8", "int", func(a A) []interface{} { return R(bits.Len8(a.U8(0))) })
	reg("math/bits", "Len16", "x:u16", "int", func(a A) []interface{} { return R(bits.Len16(a.U16(0))) })
	reg("math/bits", "Len32", "x:u32", "int", func(a A) []interface{} { return R(bits.Len32(a.U32(0))) })
	reg("math/bits", "Len64", "x:u64", "int", func(a A) []interface{} { return R(bits.Len64(a.U64(0))) })

	setGroup("bits-permute")
	reg("math/bits", "RotateLeft", "x:uint k:rot", "uint", func(a A) []interface{} { return R(bits.RotateLeft32(a.U32(0), a.Int(1))) })
	reg("math/bits", "RotateLeft8", "x:u8 k:rot", "u8", func(a A) []interface{} { return R(bits.RotateLeft8(a.U8(0), a.Int(1))) })
	reg("math/bits", "RotateLeft16", "x:u16 k:rot", "u16", func(a A) []interface{} { return R(bits.RotateLeft16(a.U16(0), a.Int(1))) })
	reg("math/bits", "RotateLeft32", "x:u32 k:rot", "u32", func(a A) []interface{} { return R(bits.RotateLeft32(a.U32(0), a.Int(1))) })
	reg("math/bits", "RotateLeft64", "x:u64 k:rot", "u64", func(a A) []interface{} { return R(bits.RotateLeft64(a.U64(0), a.Int(1))) })
	reg("math/bits", "Reverse", "x:uint", "uint", func(a A) []interface{} { return R(bits.Reverse32(a.U32(0))) })
	reg("math/bits", "Reverse8", "x:u8", "u8", func(a A) []interface{} { return R(bits.Reverse8(a.U8(0))) })
	reg("math/bits", "Reverse16", "x:u16", "u16", func(a A) []interface{} { return R(bits.Reverse16(a.U16(0))) })
	reg("math/bits", "Reverse32", "x:u32", "u32", func(a A) []interface{} { return R(bits.Reverse32(a.U32(0))) })
	reg("math/bits", "Reverse64", "x:u64", "u64", func(a A) []interface{} { return R(bits.Reverse64(a.U64(0))) })
	reg("math/bits", "ReverseBytes", "x:uint", "uint", func(a A) []interface{} { return R(bits.ReverseBytes32(a.U32(0))) })
	reg("math/bits", "ReverseBytes16", "x:u16", "u16", func(a A) []interface{} { return R(bits.ReverseBytes16(a.U16(0))) })
	reg("math/bits", "ReverseBytes32", "x:u32", "u32", func(a A) []interface{} { return R(bits.ReverseBytes32(a.U32(0))) })
	reg("math/bits", "ReverseBytes64", "x:u64", "u64", func(a A) []interface{} { return R(bits.ReverseBytes64(a.U64(0))) })

	setGroup("bits-arith")
	reg("math/bits", "Add", "x:uint y:uint carry:carry", "uint uint", func(a A) []interface{} {
		s, c := bits.Add32(a.U32(0), a.U32(1), a.U32(2))
		return R(s, c)
	})
	reg("math/bits", "Add32", "x:u32 y:u32 carry:carry", "u32 u32", func(a A) []interface{} {
		s, c := bits.Add32(a.U32(0), a.U32(1), a.U32(2))
		return R(s, c)
	})
	reg("math/bits", "Add64", "x:u64 y:u64 carry:carry", "u64 u64", func(a A) []interface{} {
		s, c := bits.Add64(a.U64(0), a.U64(1), a.U64(2))
		return R(s, c)
	})
	reg("math/bits", "Sub", "x:uint y:uint borrow:carry", "uint uint", func(a A) []interface{} {
		s, c := bits.Sub32(a.U32(0), a.U32(1), a.U32(2))
		return R(s, c)
	})
	reg("math/bits", "Sub32", "x:u32 y:u32 borrow:carry", "u32 u32", func(a A) []interface{} {
		s, c := bits.Sub32(a.U32(0), a.U32(1), a.U32(2))
		return R(s, c)
	})
	reg("math/bits", "Sub64", "x:u64 y:u64 borrow:carry", "u64 u64", func(a A) []interface{} {
		s, c := bits.Sub64(a.U64(0), a.U64(1), a.U64(2))
		return R(s, c)
	})
	reg("math/bits", "Mul", "x:uint y:uint", "uint uint", func(a A) []interface{} {
		h, l := bits.Mul32(a.U32(0), a.U32(1))
		return R(h, l)
	})
	reg("math/bits", "Mul32", "x:u32 y:u32", "u32 u32", func(a A) []interface{} {
		h, l := bits.Mul32(a.U32(0), a.U32(1))
		return R(h, l)
	})
	reg("math/bits", "Mul64", "x:u64 y:u64", "u64 u64", func(a A) []interface{} {
		h, l := bits.Mul64(a.U64(0), a.U64(1))
		return R(h, l)
	})
	for _, w := range []struct {
		name, wa string
		bits     uint
	}{{"hiuint", "uint", 32}, {"hi32", "u32", 32}, {"hi64", "u64", 64}} {
		w := w
		kinds[w.name] = &kind{wa: w.wa, gen: func(g *genCtx) string {
			yv, _ := g.argByName("y")
			y := A{yv}.U64(0)
			if y == 0 {
				return "0"
			}
			switch rapid.IntRange(0, 4).Draw(g.t, "hicls") {
			case 0:
				return "0"
			case 1:
				return encU(y - 1)
			case 2:
				return encU(y / 2)
			case 3:
				return encU(y) // quotient overflow: rejected by the domain check (Go panics)
			}
			return encU(genBits(g.t, w.bits, false) % y)
		}, classes: func(v string, a A, f *fn) []string {
			c := intClasses(v, w.bits, false)
			for i, p := range f.params {
				if p.name == "y" && (A{a[i]}).U64(0) == (A{v}).U64(0)+1 {
					c = append(c, "hi=y-1")
				}
			}
			return c
		}}
	}
	// Div panics for y == 0 and for y <= hi (quotient overflow): outside the domain.
	divDom := func(a A) bool { return a.U64(2) != 0 && a.U64(2) > a.U64(0) }
	remDom := func(a A) bool { return a.U64(2) != 0 }
	reg("math/bits", "Div", "hi:hiuint lo:uint y:uint", "uint uint", func(a A) []interface{} {
		q, r := bits.Div32(a.U32(0), a.U32(1), a.U32(2))
		return R(q, r)
	}).Order(2, 0, 1).Dom(divDom)
	reg("math/bits", "Div32", "hi:hi32 lo:u32 y:u32", "u32 u32", func(a A) []interface{} {
		q, r := bits.Div32(a.U32(0), a.U32(1), a.U32(2))
		return R(q, r)
	}).Order(2, 0, 1).Dom(divDom)
	reg("math/bits", "Div64", "hi:hi64 lo:u64 y:u64", "u64 u64", func(a A) []interface{} {
		q, r := bits.Div64(a.U64(0), a.U64(1), a.U64(2))
		return R(q, r)
	}).Order(2, 0, 1).Dom(divDom)
	reg("math/bits", "Rem", "hi:uint lo:uint y:uint", "uint", func(a A) []interface{} { return R(bits.Rem32(a.U32(0), a.U32(1), a.U32(2))) }).Dom(remDom)
	reg("math/bits", "Rem32", "hi:u32 lo:u32 y:u32", "u32", func(a A) []interface{} { return R(bits.Rem32(a.U32(0), a.U32(1), a.U32(2))) }).Dom(remDom)
	reg("math/bits", "Rem64", "hi:u64 lo:u64 y:u64", "u64", func(a A) []interface{} { return R(bits.Rem64(a.U64(0), a.U64(1), a.U64(2))) }).Dom(remDom)
}
