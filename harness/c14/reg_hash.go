package c14

import (
	"crypto/md5"
	"hash"
	"hash/adler32"
	"hash/crc32"
	"hash/fnv"

	"pgregory.net/rapid"
)

var crcPolys = []uint32{crc32.IEEE, crc32.Castagnoli, crc32.Koopman, 1, 0xffffffff, 0x04c11db7, 0x80000000}

func bigData(a A, i int) []byte {
	d := make([]byte, a.Int(i))
	mul, add := int(a.U8(i+1)), int(a.U8(i+2))
	for k := range d {
		d[k] = byte(k*mul + add)
	}
	return d
}

const bigTmpl = "d := make([]byte, $0)\nfor i := 0; i < len(d); i++ {\n\td[i] = byte(i*int($1) + int($2))\n}\n"

// writeSplit feeds p to h in three pieces cut at k1 <= k2.
func writeSplit(h hash.Hash, p []byte, k1, k2 int) {
	if k1 > len(p) {
		k1 = len(p)
	}
	if k2 > len(p) {
		k2 = len(p)
	}
	if k2 < k1 {
		k2 = k1
	}
	h.Write(p[:k1])
	h.Write(p[k1:k2])
	h.Write(p[k2:])
}

const splitTmpl = "p := $P\nk1 := $K1\nk2 := $K2\nif k1 > len(p) {\n\tk1 = len(p)\n}\nif k2 > len(p) {\n\tk2 = len(p)\n}\nif k2 < k1 {\n\tk2 = k1\n}\nh.Write(p[:k1])\nh.Write(p[k1:k2])\nh.Write(p[k2:])\n"

func splitT(p, k1, k2 string) string {
	s := splitTmpl
	for _, r := range [][2]string{{"$P", p}, {"$K1", k1}, {"$K2", k2}} {
		s = replaceAll(s, r[0], r[1])
	}
	return s
}

func init() {
	kinds["crcpoly"] = &kind{wa: "u32",
		gen: func(g *genCtx) string { return encU(uint64(rapid.SampledFrom(crcPolys).Draw(g.t, "poly"))) },
		classes: func(v string, _ A, _ *fn) []string {
			switch uint32(A{v}.U64(0)) {
			case crc32.IEEE:
				return []string{"poly=IEEE"}
			case crc32.Castagnoli:
				return []string{"poly=Castagnoli"}
			case crc32.Koopman:
				return []string{"poly=Koopman"}
			}
			return []string{"poly=other"}
		}}
	kinds["biglen"] = &kind{wa: "int", gen: func(g *genCtx) string {
		return encI(int64(rapid.SampledFrom([]int{0, 1, 15, 16, 17, 31, 32, 55, 56, 57, 63, 64, 65, 119, 120, 121, 127, 128, 129, 255, 256, 1000, 4096, 5551, 5552, 5553, 5554, 11104, 11105, 65520, 65521, 65522, 70000}).Draw(g.t, "biglen")))
	}, classes: func(v string, _ A, _ *fn) []string {
		n := A{v}.Int(0)
		switch {
		case n >= 5552:
			return []string{"len>=adler-nmax"}
		case n >= 55 && n <= 65 || n >= 119 && n <= 129:
			return []string{"len-near-md5-block"}
		case n >= 15 && n <= 17:
			return []string{"len-near-crc-slicing-cutoff"}
		}
		return nil
	}}
	kinds["data"] = &kind{wa: "[]byte", gen: func(g *genCtx) string {
		t := g.t
		if rapid.IntRange(0, 2).Draw(t, "dmode") == 0 {
			return encS(genStr(t, false))
		}
		n := rapid.SampledFrom([]int{0, 1, 2, 3, 4, 7, 8, 9, 15, 16, 17, 24, 31, 32, 33, 55, 56, 57, 63, 64, 65, 100, 119, 120, 128, 200}).Draw(t, "dn")
		return encS(string(rapid.SliceOfN(rapid.Byte(), n, n).Draw(t, "data")))
	}, classes: func(v string, _ A, _ *fn) []string {
		n := len(A{v}.Bytes(0))
		var c []string
		switch {
		case n == 0:
			c = append(c, "str-empty")
		case n >= 55 && n <= 65 || n >= 119:
			c = append(c, "len-near-md5-block")
		case n >= 15 && n <= 17:
			c = append(c, "len-near-crc-slicing-cutoff")
		case n >= 64:
			c = append(c, "str-len>=64")
		}
		return c
	}}
	kinds["cut"] = smallKind("int", 0, 130, 0, 1, 7, 8, 16, 55, 56, 63, 64, 65)
	kinds["fill"] = &kind{wa: "u8", gen: func(g *genCtx) string {
		return encU(uint64(rapid.SampledFrom([]byte{0, 1, 0xff, 7, 0x80, 31, 251}).Draw(g.t, "fill")))
	}, classes: func(v string, _ A, _ *fn) []string {
		if v == "255" {
			return []string{"fill=0xff"}
		}
		return nil
	}}

	// ------------------------------------------------------------ crc32
	setGroup("hash-crc32")
	reg("hash/crc32", "ChecksumIEEE", "data:data", "u32", func(a A) []interface{} { return R(crc32.ChecksumIEEE(a.Bytes(0))) })
	reg("hash/crc32", "Checksum", "data:data poly:crcpoly", "u32", func(a A) []interface{} {
		return R(crc32.Checksum(a.Bytes(0), crc32.MakeTable(a.U32(1))))
	}).T("r0 := crc32.Checksum($0, crc32.MakeTable($1))")
	reg("hash/crc32", "Update", "crc:u32 poly:crcpoly p:data", "u32", func(a A) []interface{} {
		return R(crc32.Update(a.U32(0), crc32.MakeTable(a.U32(1)), a.Bytes(2)))
	}).T("r0 := crc32.Update($0, crc32.MakeTable($1), $2)")
	reg("hash/crc32", "MakeTable", "poly:crcpoly", "u32 u32 u32 u32", func(a A) []interface{} {
		t := crc32.MakeTable(a.U32(0))
		return R(t[0], t[1], t[128], t[255])
	}).T("t := crc32.MakeTable($0)\nr0 := t[0]\nr1 := t[1]\nr2 := t[128]\nr3 := t[255]")
	reg("hash/crc32", "New", "poly:crcpoly p:data k1:cut k2:cut in:dst", "u32 bytes int int", func(a A) []interface{} {
		h := crc32.New(crc32.MakeTable(a.U32(0)))
		writeSplit(h, a.Bytes(1), a.Int(2), a.Int(3))
		return R(h.Sum32(), h.Sum(a.Bytes(4)), h.Size(), h.BlockSize())
	}).T("h := crc32.New(crc32.MakeTable($0))\n" + splitT("$1", "$2", "$3") + "r0 := h.Sum32()\nr1 := h.Sum($4)\nr2 := h.Size()\nr3 := h.BlockSize()")
	reg("hash/crc32", "NewIEEE", "p:data junk:data", "u32 u32", func(a A) []interface{} {
		h := crc32.NewIEEE()
		h.Write(a.Bytes(1))
		x := h.Sum32()
		h.Reset()
		h.Write(a.Bytes(0))
		return R(x, h.Sum32())
	}).T("h := crc32.NewIEEE()\nh.Write($1)\nr0 := h.Sum32()\nh.Reset()\nh.Write($0)\nr1 := h.Sum32()")
	reg("hash/crc32", "Checksum#big", "n:biglen mul:fill add:fill poly:crcpoly", "u32", func(a A) []interface{} {
		return R(crc32.Checksum(bigData(a, 0), crc32.MakeTable(a.U32(3))))
	}).T(bigTmpl + "r0 := crc32.Checksum(d, crc32.MakeTable($3))")

	// ------------------------------------------------------------ adler32
	setGroup("hash-adler32-fnv")
	reg("hash/adler32", "Checksum", "data:data", "u32", func(a A) []interface{} { return R(adler32.Checksum(a.Bytes(0))) })
	reg("hash/adler32", "Checksum#big", "n:biglen mul:fill add:fill", "u32", func(a A) []interface{} { return R(adler32.Checksum(bigData(a, 0))) }).
		T(bigTmpl + "r0 := adler32.Checksum(d)")
	reg("hash/adler32", "New", "p:data k1:cut k2:cut in:dst", "u32 bytes int int", func(a A) []interface{} {
		h := adler32.New()
		writeSplit(h, a.Bytes(0), a.Int(1), a.Int(2))
		return R(h.Sum32(), h.Sum(a.Bytes(3)), h.Size(), h.BlockSize())
	}).T("h := adler32.New()\n" + splitT("$0", "$1", "$2") + "r0 := h.Sum32()\nr1 := h.Sum($3)\nr2 := h.Size()\nr3 := h.BlockSize()")
	reg("hash/adler32", "New#big", "n:biglen mul:fill add:fill k1:cut", "u32 u32", func(a A) []interface{} {
		d := bigData(a, 0)
		h := adler32.New()
		writeSplit(h, d, a.Int(3)*47, len(d))
		x := h.Sum32()
		h.Reset()
		return R(x, h.Sum32())
	}).T(bigTmpl + "h := adler32.New()\n" + splitT("d", "$3*47", "len(d)") + "r0 := h.Sum32()\nh.Reset()\nr1 := h.Sum32()")

	// ------------------------------------------------------------ fnv
	type h32 struct {
		name string
		mk   func() hash.Hash32
	}
	for _, v := range []h32{{"New32", fnv.New32}, {"New32a", fnv.New32a}} {
		v := v
		reg("hash/fnv", v.name, "p:data k1:cut k2:cut in:dst", "u32 bytes int int u32", func(a A) []interface{} {
			h := v.mk()
			writeSplit(h, a.Bytes(0), a.Int(1), a.Int(2))
			s, b, sz, bs := h.Sum32(), h.Sum(a.Bytes(3)), h.Size(), h.BlockSize()
			h.Reset()
			return R(s, b, sz, bs, h.Sum32())
		}).T("h := fnv." + v.name + "()\n" + splitT("$0", "$1", "$2") + "r0 := h.Sum32()\nr1 := h.Sum($3)\nr2 := h.Size()\nr3 := h.BlockSize()\nh.Reset()\nr4 := h.Sum32()")
	}
	type h64 struct {
		name string
		mk   func() hash.Hash64
	}
	for _, v := range []h64{{"New64", fnv.New64}, {"New64a", fnv.New64a}} {
		v := v
		reg("hash/fnv", v.name, "p:data k1:cut k2:cut in:dst", "u64 bytes int int u64", func(a A) []interface{} {
			h := v.mk()
			writeSplit(h, a.Bytes(0), a.Int(1), a.Int(2))
			s, b, sz, bs := h.Sum64(), h.Sum(a.Bytes(3)), h.Size(), h.BlockSize()
			h.Reset()
			return R(s, b, sz, bs, h.Sum64())
		}).T("h := fnv." + v.name + "()\n" + splitT("$0", "$1", "$2") + "r0 := h.Sum64()\nr1 := h.Sum($3)\nr2 := h.Size()\nr3 := h.BlockSize()\nh.Reset()\nr4 := h.Sum64()")
	}

	// ------------------------------------------------------------ md5
	setGroup("md5")
	reg("crypto/md5", "New", "p:data k1:cut k2:cut in:dst", "bytes bytes int int", func(a A) []interface{} {
		h := md5.New()
		writeSplit(h, a.Bytes(0), a.Int(1), a.Int(2))
		s1 := h.Sum(a.Bytes(3))
		h.Write([]byte("x")) // Sum must not disturb the running state
		return R(s1, h.Sum(nil), h.Size(), h.BlockSize())
	}).T("h := md5.New()\n" + splitT("$0", "$1", "$2") + "r0 := h.Sum($3)\nh.Write([]byte(\"x\"))\nr1 := h.Sum(nil)\nr2 := h.Size()\nr3 := h.BlockSize()")
	reg("crypto/md5", "New#big", "n:biglen mul:fill add:fill k1:cut", "bytes bytes", func(a A) []interface{} {
		d := bigData(a, 0)
		h := md5.New()
		writeSplit(h, d, a.Int(3), a.Int(3)+64)
		x := h.Sum(nil)
		h.Reset()
		h.Write(d[:len(d)/2])
		return R(x, h.Sum(nil))
	}).T(bigTmpl + "h := md5.New()\n" + splitT("d", "$3", "$3+64") + "r0 := h.Sum(nil)\nh.Reset()\nh.Write(d[:len(d)/2])\nr1 := h.Sum(nil)")
}
