package c14

// coveredVia: exported Wa API reached through a differently named registry entry.
var coveredVia = map[string]string{
	"strconv.NumError.Error": "strconv.ParseInt", // error presence only; texts are not compared

	"encoding/base64.NewEncoding":          "base64.Encoding.EncodeToString",
	"encoding/base64.Encoding.WithPadding": "base64.Encoding.EncodeToString",
	"encoding/base64.Encoding.Strict":      "base64.Encoding.DecodeString",
	"encoding/base32.NewEncoding":          "base32.Encoding.EncodeToString",

	"encoding/binary.littleEndian.Uint16": "binary.LittleEndian.Uint16", "encoding/binary.littleEndian.Uint32": "binary.LittleEndian.Uint32", "encoding/binary.littleEndian.Uint64": "binary.LittleEndian.Uint64",
	"encoding/binary.littleEndian.PutUint16": "binary.LittleEndian.PutUint16", "encoding/binary.littleEndian.PutUint32": "binary.LittleEndian.PutUint32", "encoding/binary.littleEndian.PutUint64": "binary.LittleEndian.PutUint64",
	"encoding/binary.littleEndian.AppendUint16": "binary.LittleEndian.AppendUint16", "encoding/binary.littleEndian.AppendUint32": "binary.LittleEndian.AppendUint32", "encoding/binary.littleEndian.AppendUint64": "binary.LittleEndian.AppendUint64",
	"encoding/binary.littleEndian.String": "binary.LittleEndian.String",
	"encoding/binary.bigEndian.Uint16":    "binary.BigEndian.Uint16", "encoding/binary.bigEndian.Uint32": "binary.BigEndian.Uint32", "encoding/binary.bigEndian.Uint64": "binary.BigEndian.Uint64",
	"encoding/binary.bigEndian.PutUint16": "binary.BigEndian.PutUint16", "encoding/binary.bigEndian.PutUint32": "binary.BigEndian.PutUint32", "encoding/binary.bigEndian.PutUint64": "binary.BigEndian.PutUint64",
	"encoding/binary.bigEndian.AppendUint16": "binary.BigEndian.AppendUint16", "encoding/binary.bigEndian.AppendUint32": "binary.BigEndian.AppendUint32", "encoding/binary.bigEndian.AppendUint64": "binary.BigEndian.AppendUint64",
	"encoding/binary.bigEndian.String": "binary.BigEndian.String",

	"sort.IntSlice.Len": "sort.Ints", "sort.IntSlice.Less": "sort.Ints", "sort.IntSlice.Swap": "sort.Ints", "sort.IntSlice.Sort": "sort.Ints",
	"sort.Float64Slice.Len": "sort.Float64s", "sort.Float64Slice.Less": "sort.Float64s", "sort.Float64Slice.Swap": "sort.Float64s", "sort.Float64Slice.Sort": "sort.Float64s",
	"sort.StringSlice.Len": "sort.Strings", "sort.StringSlice.Less": "sort.Strings", "sort.StringSlice.Swap": "sort.Strings", "sort.StringSlice.Sort": "sort.Strings",
	"sort.Float64Slice.Search": "sort.SearchFloat64s", "sort.StringSlice.Search": "sort.SearchStrings",
	"sort.Reverse": "sort.Sort(Reverse)", "sort.reverse.Less": "sort.Sort(Reverse)",

	"hash/crc32.digest.Size": "crc32.New", "hash/crc32.digest.BlockSize": "crc32.New", "hash/crc32.digest.Reset": "crc32.NewIEEE",
	"hash/crc32.digest.Write": "crc32.New", "hash/crc32.digest.Sum32": "crc32.New", "hash/crc32.digest.Sum": "crc32.New",
	"hash/adler32.digest.Size": "adler32.New", "hash/adler32.digest.BlockSize": "adler32.New", "hash/adler32.digest.Reset": "adler32.New#big",
	"hash/adler32.digest.Write": "adler32.New", "hash/adler32.digest.Sum32": "adler32.New", "hash/adler32.digest.Sum": "adler32.New",
	"hash/fnv.sum32.*": "fnv.New32", "hash/fnv.sum32a.*": "fnv.New32a", "hash/fnv.sum64.*": "fnv.New64", "hash/fnv.sum64a.*": "fnv.New64a",
	"crypto/md5.Digest.*": "md5.New md5.New#big",

	"container/list.New": "list.script", "container/list.List.*": "list.script", "container/list.Element.*": "list.script",
	"container/ring.New": "ring.script", "container/ring.Ring.*": "ring.script",
	"container/heap.Init": "heap.script", "container/heap.Push": "heap.script", "container/heap.Pop": "heap.script", "container/heap.Remove": "heap.script",
}

// skipped: exported Wa API deliberately not in the registry, with the reason.
var skipped = map[string]string{
	"strings.NewReader": "stateful io type, not a function port with an argument list", "strings.Reader.*": "stateful io type (methods)",
	"strings.NewReplacer": "stateful type; Replace/ReplaceAll are covered as functions", "strings.Replacer.*": "stateful type (methods)",
	"strings.Builder.*":               "stateful type (methods)",
	"hash/crc32.digest.MarshalBinary": "serialised digest state is an internal format, not compared", "hash/crc32.digest.UnmarshalBinary": "serialised digest state is an internal format, not compared",
	"bytes.NewBuffer": "stateful io type", "bytes.NewBufferString": "stateful io type", "bytes.Buffer.*": "stateful io type (methods); used by the base64/base32/hex NewEncoder entries",
	"bytes.NewReader": "stateful io type; used by the binary.ReadUvarint/ReadVarint entries", "bytes.Reader.*": "stateful io type (methods)",
	"unicode/utf8.EncodeRuneString": "Wa-only helper, no Go counterpart",
	"encoding/hex.EncodeU8":         "Wa-only helper, no Go counterpart", "encoding/hex.EncodeU16": "Wa-only helper, no Go counterpart",
	"encoding/hex.EncodeU32": "Wa-only helper, no Go counterpart", "encoding/hex.EncodeU64": "Wa-only helper, no Go counterpart",
	"encoding/hex.InvalidByteError.Error": "error text, not compared", "encoding/base64.CorruptInputError.Error": "error text, not compared",
	"encoding/base32.CorruptInputError.Error": "error text, not compared",
	"encoding/binary.littleEndian.WaString":   "Wa-only (Go: GoString)", "encoding/binary.bigEndian.WaString": "Wa-only (Go: GoString)",
	"encoding/base64.encoder.*": "methods of the stream types, exercised through NewEncoder/NewDecoder", "encoding/base64.decoder.*": "methods of the stream types, exercised through NewEncoder/NewDecoder",
	"encoding/base64.newlineFilteringReader.*": "internal stream type, exercised through NewDecoder",
	"encoding/base32.encoder.*":                "methods of the stream types, exercised through NewEncoder/NewDecoder", "encoding/base32.decoder.*": "methods of the stream types, exercised through NewEncoder/NewDecoder",
	"encoding/hex.encoder.*": "methods of the stream types, exercised through NewEncoder/NewDecoder/Dumper", "encoding/hex.decoder.*": "methods of the stream types, exercised through NewEncoder/NewDecoder/Dumper",
	"encoding/hex.dumper.*": "methods of the stream types, exercised through Dumper",
}
