package c14

import (
	"bytes"
	"encoding/base32"
	"encoding/base64"
	"encoding/binary"
	"encoding/hex"
	"fmt"
	"io"
	"strings"

	"pgregory.net/rapid"
)

const customB64 = "0123456789abcdefghijklmnopqrstuvwxyzABCDEFGHIJKLMNOPQRSTUVWXYZ-_"

var b64Encs = []struct {
	wa string
	e  *base64.Encoding
}{
	{"base64.StdEncoding", base64.StdEncoding},
	{"base64.URLEncoding", base64.URLEncoding},
	{"base64.RawStdEncoding", base64.RawStdEncoding},
	{"base64.RawURLEncoding", base64.RawURLEncoding},
	{"base64.StdEncoding.Strict()", base64.StdEncoding.Strict()},
	{"base64.RawURLEncoding.Strict()", base64.RawURLEncoding.Strict()},
	{`base64.NewEncoding("` + customB64 + `").WithPadding('*')`, base64.NewEncoding(customB64).WithPadding('*')},
	{"base64.URLEncoding.WithPadding(base64.NoPadding)", base64.URLEncoding.WithPadding(base64.NoPadding)},
}

var b32Encs = []struct {
	wa string
	e  *base32.Encoding
}{
	{"base32.StdEncoding", base32.StdEncoding},
	{"base32.HexEncoding", base32.HexEncoding},
}

func genEncoded(g *genCtx, encode func(idx int, src []byte) string, nenc int) string {
	t := g.t
	idx := 0
	if v, ok := g.argByName("enc"); ok {
		idx = A{v}.Int(0)
	}
	src := []byte(genStr(t, false))
	if rapid.Bool().Draw(t, "rawsrc") {
		src = rapid.SliceOfN(rapid.Byte(), 0, 20).Draw(t, "src")
	}
	if rapid.IntRange(0, 5).Draw(t, "otherenc") == 0 {
		idx = rapid.IntRange(0, nenc-1).Draw(t, "encidx")
	}
	s := encode(idx, src)
	switch rapid.IntRange(0, 11).Draw(t, "encmut") {
	case 0: // newline / CR inside (ignored by the decoders)
		pos := rapid.IntRange(0, len(s)).Draw(t, "pos")
		s = s[:pos] + rapid.SampledFrom([]string{"\n", "\r\n", "\r", "\n\n"}).Draw(t, "nl") + s[pos:]
	case 1: // strip padding
		s = strings.TrimRight(s, "=*")
	case 2: // extra padding
		s += rapid.SampledFrom([]string{"=", "==", "===", "*"}).Draw(t, "pad")
	case 3: // damage the last data character (non-zero trailing bits, or a different value)
		if len(s) > 0 {
			i := len(strings.TrimRight(s, "=*")) - 1
			if i >= 0 {
				s = s[:i] + rapid.SampledFrom([]string{"B", "b", "1", "/", "_", "Z", "7", "V"}).Draw(t, "lastc") + s[i+1:]
			}
		}
	case 4: // invalid character
		pos := rapid.IntRange(0, len(s)).Draw(t, "pos")
		s = s[:pos] + rapid.SampledFrom([]string{" ", "!", "\x00", "\xff", "=", "-", "+", "a", "é", "8", "1", "0"}).Draw(t, "badc") + s[pos:]
	case 5: // truncate
		s = s[:rapid.IntRange(0, len(s)).Draw(t, "cut")]
	case 6: // trailing garbage after padding
		s += rapid.SampledFrom([]string{"A", "AA", "\n", "=A", "A="}).Draw(t, "trail")
	case 7: // lower-case (base32 / hex)
		s = strings.ToLower(s)
	}
	return s
}

func encodedClasses(decode func(idx int, s string) error) func(v string, a A, f *fn) []string {
	return func(v string, a A, f *fn) []string {
		s := A{v}.Str(0)
		idx := 0
		for i, p := range f.params {
			if p.name == "enc" {
				idx = A{a[i]}.Int(0)
			}
		}
		var c []string
		if err := decode(idx, s); err != nil {
			c = append(c, "encoded-invalid")
		} else {
			c = append(c, "encoded-valid")
		}
		if s == "" {
			c = append(c, "str-empty")
		}
		if strings.ContainsAny(s, "\r\n") {
			c = append(c, "encoded-has-newline")
		}
		if i := strings.IndexAny(s, "=*"); i >= 0 {
			if strings.Trim(s[i:], "=*\r\n") != "" {
				c = append(c, "encoded-data-after-padding")
			}
			c = append(c, "encoded-padded")
		}
		return c
	}
}

func init() {
	// ------------------------------------------------------------ base64
	setGroup("base64")
	kinds["enc64"] = &kind{wa: "raw",
		gen: func(g *genCtx) string { return encI(int64(rapid.IntRange(0, len(b64Encs)-1).Draw(g.t, "enc64"))) },
		lit: func(v string) string { return b64Encs[A{v}.Int(0)].wa },
		classes: func(v string, _ A, _ *fn) []string {
			return []string{"enc=" + strings.TrimPrefix(strings.SplitN(b64Encs[A{v}.Int(0)].wa, "(", 2)[0], "base64.")}
		}}
	kinds["b64str"] = &kind{wa: "string",
		gen: func(g *genCtx) string {
			return encS(genEncoded(g, func(i int, src []byte) string { return b64Encs[i].e.EncodeToString(src) }, len(b64Encs)))
		},
		classes: encodedClasses(func(i int, s string) error { _, err := b64Encs[i].e.DecodeString(s); return err })}
	kinds["b64bytes"] = &kind{wa: "[]byte", gen: kinds["b64str"].gen, classes: kinds["b64str"].classes}
	kinds["smalln"] = smallKind("int", 0, 70, 0, 1, 2, 3, 4, 5, 6, 7, 8, 1000, 1<<20)
	kinds["split"] = smallKind("int", 0, 12, 0, 1, 2, 3, 4, 5)
	e64 := func(a A) *base64.Encoding { return b64Encs[a.Int(0)].e }
	reg("encoding/base64", "Encoding.EncodeToString", "enc:enc64 src:bytes", "str", func(a A) []interface{} {
		return R(e64(a).EncodeToString(a.Bytes(1)))
	}).T("r0 := $0.EncodeToString($1)")
	reg("encoding/base64", "Encoding.Encode", "enc:enc64 src:bytes", "bytes", func(a A) []interface{} {
		dst := make([]byte, e64(a).EncodedLen(len(a.Bytes(1))))
		e64(a).Encode(dst, a.Bytes(1))
		return R(dst)
	}).T("e := $0\nsrc := $1\nr0 := make([]byte, e.EncodedLen(len(src)))\ne.Encode(r0, src)")
	reg("encoding/base64", "Encoding.EncodedLen", "enc:enc64 n:smalln", "int", func(a A) []interface{} { return R(e64(a).EncodedLen(a.Int(1))) }).
		T("r0 := $0.EncodedLen($1)")
	reg("encoding/base64", "Encoding.DecodedLen", "enc:enc64 n:smalln", "int", func(a A) []interface{} { return R(e64(a).DecodedLen(a.Int(1))) }).
		T("r0 := $0.DecodedLen($1)")
	reg("encoding/base64", "Encoding.DecodeString", "enc:enc64 s:b64str", "bytes err", func(a A) []interface{} {
		b, err := e64(a).DecodeString(a.Str(1))
		return R(b, E(err))
	}).T("r0, r1 := $0.DecodeString($1)")
	reg("encoding/base64", "Encoding.Decode", "enc:enc64 src:b64bytes", "bytes int err", func(a A) []interface{} {
		dst := make([]byte, e64(a).DecodedLen(len(a.Bytes(1))))
		n, err := e64(a).Decode(dst, a.Bytes(1))
		return R(dst[:n], n, E(err))
	}).T("e := $0\nsrc := $1\ndst := make([]byte, e.DecodedLen(len(src)))\nr1, r2 := e.Decode(dst, src)\nr0 := dst[:r1]")
	reg("encoding/base64", "NewEncoder", "enc:enc64 src:bytes k:split", "str", func(a A) []interface{} {
		var buf bytes.Buffer
		src := a.Bytes(1)
		k := a.Int(2)
		if k > len(src) {
			k = len(src)
		}
		w := base64.NewEncoder(e64(a), &buf)
		w.Write(src[:k])
		w.Write(src[k:])
		w.Close()
		return R(buf.String())
	}).Imp("bytes").T("buf: bytes.Buffer\nsrc := $1\nk := $2\nif k > len(src) {\n\tk = len(src)\n}\nw := base64.NewEncoder($0, &buf)\nw.Write(src[:k])\nw.Write(src[k:])\nw.Close()\nr0 := buf.String()")
	reg("encoding/base64", "NewDecoder", "enc:enc64 s:b64str", "bytes err", func(a A) []interface{} {
		b, err := io.ReadAll(base64.NewDecoder(e64(a), strings.NewReader(a.Str(1))))
		return R(b, E(err))
	}).Imp("strings", "io").T("r0, r1 := io.ReadAll(base64.NewDecoder($0, strings.NewReader($1)))")
	reg("encoding/base64", "rt:Encode/Decode", "enc:enc64 src:bytes", "bool", func(a A) []interface{} {
		b, err := e64(a).DecodeString(e64(a).EncodeToString(a.Bytes(1)))
		return R(string(b) == a.Str(1) && err == nil)
	}).T("e := $0\nsrc := $1\nb, err := e.DecodeString(e.EncodeToString(src))\nr0 := string(b) == string(src) && err == nil")

	// ------------------------------------------------------------ base32
	setGroup("base32-hex")
	kinds["enc32"] = &kind{wa: "raw",
		gen: func(g *genCtx) string { return encI(int64(rapid.IntRange(0, len(b32Encs)-1).Draw(g.t, "enc32"))) },
		lit: func(v string) string { return b32Encs[A{v}.Int(0)].wa },
		classes: func(v string, _ A, _ *fn) []string {
			return []string{"enc=" + strings.TrimPrefix(b32Encs[A{v}.Int(0)].wa, "base32.")}
		}}
	kinds["b32str"] = &kind{wa: "string",
		gen: func(g *genCtx) string {
			return encS(genEncoded(g, func(i int, src []byte) string { return b32Encs[i].e.EncodeToString(src) }, len(b32Encs)))
		},
		classes: encodedClasses(func(i int, s string) error { _, err := b32Encs[i].e.DecodeString(s); return err })}
	kinds["b32bytes"] = &kind{wa: "[]byte", gen: kinds["b32str"].gen, classes: kinds["b32str"].classes}
	// input of the stream decoder: additionally classified by what Go's stream decoder says
	kinds["b32stream"] = &kind{wa: "string", gen: kinds["b32str"].gen, classes: func(v string, a A, f *fn) []string {
		c := kinds["b32str"].classes(v, a, f)
		if _, err := io.ReadAll(base32.NewDecoder(b32Encs[A{a[0]}.Int(0)].e, strings.NewReader(A{v}.Str(0)))); err != nil {
			c = append([]string{"stream-rejected-by-go"}, c...)
		}
		return c
	}}
	e32 := func(a A) *base32.Encoding { return b32Encs[a.Int(0)].e }
	reg("encoding/base32", "Encoding.EncodeToString", "enc:enc32 src:bytes", "str", func(a A) []interface{} {
		return R(e32(a).EncodeToString(a.Bytes(1)))
	}).T("r0 := $0.EncodeToString($1)")
	reg("encoding/base32", "Encoding.Encode", "enc:enc32 src:bytes", "bytes", func(a A) []interface{} {
		dst := make([]byte, e32(a).EncodedLen(len(a.Bytes(1))))
		e32(a).Encode(dst, a.Bytes(1))
		return R(dst)
	}).T("e := $0\nsrc := $1\nr0 := make([]byte, e.EncodedLen(len(src)))\ne.Encode(r0, src)")
	reg("encoding/base32", "Encoding.EncodedLen", "enc:enc32 n:smalln", "int", func(a A) []interface{} { return R(e32(a).EncodedLen(a.Int(1))) }).
		T("r0 := $0.EncodedLen($1)")
	reg("encoding/base32", "Encoding.DecodedLen", "enc:enc32 n:smalln", "int", func(a A) []interface{} { return R(e32(a).DecodedLen(a.Int(1))) }).
		T("r0 := $0.DecodedLen($1)")
	reg("encoding/base32", "Encoding.DecodeString", "enc:enc32 s:b32str", "bytes err", func(a A) []interface{} {
		b, err := e32(a).DecodeString(a.Str(1))
		return R(b, E(err))
	}).T("r0, r1 := $0.DecodeString($1)")
	reg("encoding/base32", "Encoding.Decode", "enc:enc32 src:b32bytes", "bytes int err", func(a A) []interface{} {
		dst := make([]byte, e32(a).DecodedLen(len(a.Bytes(1))))
		n, err := e32(a).Decode(dst, a.Bytes(1))
		return R(dst[:n], n, E(err))
	}).T("e := $0\nsrc := $1\ndst := make([]byte, e.DecodedLen(len(src)))\nr1, r2 := e.Decode(dst, src)\nr0 := dst[:r1]")
	reg("encoding/base32", "NewEncoder", "enc:enc32 src:bytes k:split", "str", func(a A) []interface{} {
		var buf bytes.Buffer
		src := a.Bytes(1)
		k := a.Int(2)
		if k > len(src) {
			k = len(src)
		}
		w := base32.NewEncoder(e32(a), &buf)
		w.Write(src[:k])
		w.Write(src[k:])
		w.Close()
		return R(buf.String())
	}).Imp("bytes").T("buf: bytes.Buffer\nsrc := $1\nk := $2\nif k > len(src) {\n\tk = len(src)\n}\nw := base32.NewEncoder($0, &buf)\nw.Write(src[:k])\nw.Write(src[k:])\nw.Close()\nr0 := buf.String()")
	reg("encoding/base32", "NewDecoder", "enc:enc32 s:b32stream", "bytes err", func(a A) []interface{} {
		b, err := io.ReadAll(base32.NewDecoder(e32(a), strings.NewReader(a.Str(1))))
		return R(b, E(err))
	}).Imp("strings", "io").T("r0, r1 := io.ReadAll(base32.NewDecoder($0, strings.NewReader($1)))")
	reg("encoding/base32", "rt:Encode/Decode", "enc:enc32 src:bytes", "bool", func(a A) []interface{} {
		b, err := e32(a).DecodeString(e32(a).EncodeToString(a.Bytes(1)))
		return R(string(b) == a.Str(1) && err == nil)
	}).T("e := $0\nsrc := $1\nb, err := e.DecodeString(e.EncodeToString(src))\nr0 := string(b) == string(src) && err == nil")

	// ------------------------------------------------------------ hex
	kinds["hexstr"] = &kind{wa: "string",
		gen: func(g *genCtx) string {
			return encS(genEncoded(g, func(i int, src []byte) string {
				if i%2 == 1 {
					return strings.ToUpper(hex.EncodeToString(src))
				}
				return hex.EncodeToString(src)
			}, 2))
		},
		classes: func(v string, a A, f *fn) []string {
			s := A{v}.Str(0)
			c := encodedClasses(func(i int, s string) error { _, err := hex.DecodeString(s); return err })(v, a, f)
			if len(s)%2 == 1 {
				c = append(c, "hex-odd-length")
			}
			if s != strings.ToLower(s) {
				c = append(c, "hex-upper-case")
			}
			return c
		}}
	kinds["hexbytes"] = &kind{wa: "[]byte", gen: kinds["hexstr"].gen, classes: kinds["hexstr"].classes}
	reg("encoding/hex", "EncodeToString", "src:bytes", "str", func(a A) []interface{} { return R(hex.EncodeToString(a.Bytes(0))) })
	reg("encoding/hex", "Encode", "src:bytes", "bytes int", func(a A) []interface{} {
		dst := make([]byte, hex.EncodedLen(len(a.Bytes(0))))
		n := hex.Encode(dst, a.Bytes(0))
		return R(dst, n)
	}).T("src := $0\nr0 := make([]byte, hex.EncodedLen(len(src)))\nr1 := hex.Encode(r0, src)")
	reg("encoding/hex", "DecodeString", "s:hexstr", "bytes err", func(a A) []interface{} {
		b, err := hex.DecodeString(a.Str(0))
		return R(b, E(err))
	})
	reg("encoding/hex", "Decode", "src:hexbytes", "bytes int err", func(a A) []interface{} {
		dst := make([]byte, hex.DecodedLen(len(a.Bytes(0))))
		n, err := hex.Decode(dst, a.Bytes(0))
		return R(dst[:n], n, E(err))
	}).T("src := $0\ndst := make([]byte, hex.DecodedLen(len(src)))\nr1, r2 := hex.Decode(dst, src)\nr0 := dst[:r1]")
	reg("encoding/hex", "EncodedLen", "n:smalln", "int", func(a A) []interface{} { return R(hex.EncodedLen(a.Int(0))) })
	reg("encoding/hex", "DecodedLen", "x:smalln", "int", func(a A) []interface{} { return R(hex.DecodedLen(a.Int(0))) })
	reg("encoding/hex", "Dump", "data:bytes", "str", func(a A) []interface{} { return R(hex.Dump(a.Bytes(0))) })
	reg("encoding/hex", "NewEncoder", "src:bytes k:split", "str", func(a A) []interface{} {
		var buf bytes.Buffer
		src := a.Bytes(0)
		k := a.Int(1)
		if k > len(src) {
			k = len(src)
		}
		w := hex.NewEncoder(&buf)
		w.Write(src[:k])
		w.Write(src[k:])
		return R(buf.String())
	}).Imp("bytes").T("buf: bytes.Buffer\nsrc := $0\nk := $1\nif k > len(src) {\n\tk = len(src)\n}\nw := hex.NewEncoder(&buf)\nw.Write(src[:k])\nw.Write(src[k:])\nr0 := buf.String()")
	reg("encoding/hex", "NewDecoder", "s:hexstr", "bytes err", func(a A) []interface{} {
		b, err := io.ReadAll(hex.NewDecoder(strings.NewReader(a.Str(0))))
		return R(b, E(err))
	}).Imp("strings", "io").T("r0, r1 := io.ReadAll(hex.NewDecoder(strings.NewReader($0)))")
	reg("encoding/hex", "Dumper", "src:bytes k:split", "str", func(a A) []interface{} {
		var buf bytes.Buffer
		src := a.Bytes(0)
		k := a.Int(1)
		if k > len(src) {
			k = len(src)
		}
		w := hex.Dumper(&buf)
		w.Write(src[:k])
		w.Write(src[k:])
		w.Close()
		return R(buf.String())
	}).Imp("bytes").T("buf: bytes.Buffer\nsrc := $0\nk := $1\nif k > len(src) {\n\tk = len(src)\n}\nw := hex.Dumper(&buf)\nw.Write(src[:k])\nw.Write(src[k:])\nw.Close()\nr0 := buf.String()")
	reg("encoding/hex", "rt:Encode/Decode", "src:bytes", "bool", func(a A) []interface{} {
		b, err := hex.DecodeString(hex.EncodeToString(a.Bytes(0)))
		return R(string(b) == a.Str(0) && err == nil)
	}).T("src := $0\nb, err := hex.DecodeString(hex.EncodeToString(src))\nr0 := string(b) == string(src) && err == nil")

	// ------------------------------------------------------------ encoding/binary
	setGroup("binary")
	kinds["buf8"] = &kind{wa: "[]byte", gen: func(g *genCtx) string {
		t := g.t
		n := rapid.IntRange(8, 11).Draw(t, "bn")
		b := rapid.SliceOfN(rapid.Byte(), n, n).Draw(t, "buf")
		if rapid.IntRange(0, 3).Draw(t, "bedge") == 0 {
			v := rapid.SampledFrom([]byte{0, 0xff, 0x80, 0x7f, 1}).Draw(t, "bfill")
			for i := range b {
				b[i] = v
			}
		}
		return encS(string(b))
	}, classes: func(v string, _ A, _ *fn) []string {
		b := A{v}.Bytes(0)
		if b[0] >= 0x80 || b[7] >= 0x80 {
			return []string{"buf-top-bit-set"}
		}
		return nil
	}}
	kinds["varbuf"] = &kind{wa: "[]byte", gen: func(g *genCtx) string {
		t := g.t
		var b []byte
		switch rapid.IntRange(0, 6).Draw(t, "vmode") {
		case 0:
			b = binary.AppendUvarint(nil, genBits(t, 64, false))
		case 1:
			b = binary.AppendVarint(nil, int64(genBits(t, 64, true)))
		case 2: // truncated
			b = binary.AppendUvarint(nil, genBits(t, 64, false))
			b = b[:rapid.IntRange(0, len(b)).Draw(t, "vcut")]
		case 3: // too long / overflow
			n := rapid.IntRange(9, 12).Draw(t, "vn")
			for i := 0; i < n; i++ {
				b = append(b, 0x80|rapid.Byte().Draw(t, "vb"))
			}
			b = append(b, rapid.SampledFrom([]byte{0, 1, 2, 0x7f}).Draw(t, "vlast"))
		case 4: // non-minimal
			b = append(binary.AppendUvarint(nil, genBits(t, 32, false)), 0)
			b[len(b)-2] |= 0x80
		case 5:
			b = rapid.SliceOfN(rapid.Byte(), 0, 12).Draw(t, "vraw")
		default:
			b = append(binary.AppendUvarint(nil, genBits(t, 64, false)), rapid.SliceOfN(rapid.Byte(), 0, 3).Draw(t, "vtail")...)
		}
		return encS(string(b))
	}, classes: func(v string, _ A, _ *fn) []string {
		b := A{v}.Bytes(0)
		_, n := binary.Uvarint(b)
		var c []string
		switch {
		case len(b) == 0:
			c = append(c, "str-empty")
		case n == 0:
			c = append(c, "varint-truncated")
		case n < 0:
			c = append(c, "varint-overflow")
		case n == 10:
			c = append(c, "varint-max-length")
		case n < len(b):
			c = append(c, "varint-trailing-bytes")
		}
		if n > 1 && b[n-1] == 0 {
			c = append(c, "varint-non-minimal")
		}
		return c
	}}
	type bo struct {
		wa string
		o  interface {
			binary.ByteOrder
			binary.AppendByteOrder
		}
	}
	for _, o := range []bo{{"LittleEndian", binary.LittleEndian}, {"BigEndian", binary.BigEndian}} {
		o := o
		reg("encoding/binary", o.wa+".Uint16", "b:buf8", "u16", func(a A) []interface{} { return R(o.o.Uint16(a.Bytes(0))) })
		reg("encoding/binary", o.wa+".Uint32", "b:buf8", "u32", func(a A) []interface{} { return R(o.o.Uint32(a.Bytes(0))) })
		reg("encoding/binary", o.wa+".Uint64", "b:buf8", "u64", func(a A) []interface{} { return R(o.o.Uint64(a.Bytes(0))) })
		reg("encoding/binary", o.wa+".PutUint16", "v:u16", "bytes", func(a A) []interface{} {
			b := make([]byte, 3)
			o.o.PutUint16(b, a.U16(0))
			return R(b)
		}).T(fmt.Sprintf("r0 := make([]byte, 3)\nbinary.%s.PutUint16(r0, $0)", o.wa))
		reg("encoding/binary", o.wa+".PutUint32", "v:u32", "bytes", func(a A) []interface{} {
			b := make([]byte, 5)
			o.o.PutUint32(b, a.U32(0))
			return R(b)
		}).T(fmt.Sprintf("r0 := make([]byte, 5)\nbinary.%s.PutUint32(r0, $0)", o.wa))
		reg("encoding/binary", o.wa+".PutUint64", "v:u64", "bytes", func(a A) []interface{} {
			b := make([]byte, 9)
			o.o.PutUint64(b, a.U64(0))
			return R(b)
		}).T(fmt.Sprintf("r0 := make([]byte, 9)\nbinary.%s.PutUint64(r0, $0)", o.wa))
		reg("encoding/binary", o.wa+".AppendUint16", "b:dst v:u16", "bytes", func(a A) []interface{} { return R(o.o.AppendUint16(a.Bytes(0), a.U16(1))) })
		reg("encoding/binary", o.wa+".AppendUint32", "b:dst v:u32", "bytes", func(a A) []interface{} { return R(o.o.AppendUint32(a.Bytes(0), a.U32(1))) })
		reg("encoding/binary", o.wa+".AppendUint64", "b:dst v:u64", "bytes", func(a A) []interface{} { return R(o.o.AppendUint64(a.Bytes(0), a.U64(1))) })
		reg("encoding/binary", o.wa+".String", "", "str", func(a A) []interface{} { return R(o.o.String()) }).
			T(fmt.Sprintf("r0 := binary.%s.String()", o.wa))
	}
	reg("encoding/binary", "PutUvarint", "x:u64", "bytes int", func(a A) []interface{} {
		b := make([]byte, binary.MaxVarintLen64)
		n := binary.PutUvarint(b, a.U64(0))
		return R(b[:n], n)
	}).T("b := make([]byte, binary.MaxVarintLen64)\nr1 := binary.PutUvarint(b, $0)\nr0 := b[:r1]")
	reg("encoding/binary", "PutVarint", "x:i64", "bytes int", func(a A) []interface{} {
		b := make([]byte, binary.MaxVarintLen64)
		n := binary.PutVarint(b, a.I64(0))
		return R(b[:n], n)
	}).T("b := make([]byte, binary.MaxVarintLen64)\nr1 := binary.PutVarint(b, $0)\nr0 := b[:r1]")
	reg("encoding/binary", "AppendUvarint", "buf:dst x:u64", "bytes", func(a A) []interface{} { return R(binary.AppendUvarint(a.Bytes(0), a.U64(1))) })
	reg("encoding/binary", "AppendVarint", "buf:dst x:i64", "bytes", func(a A) []interface{} { return R(binary.AppendVarint(a.Bytes(0), a.I64(1))) })
	reg("encoding/binary", "Uvarint", "buf:varbuf", "u64 int", func(a A) []interface{} {
		v, n := binary.Uvarint(a.Bytes(0))
		return R(v, n)
	})
	reg("encoding/binary", "Varint", "buf:varbuf", "i64 int", func(a A) []interface{} {
		v, n := binary.Varint(a.Bytes(0))
		return R(v, n)
	})
	f := reg("encoding/binary", "ReadUvarint", "buf:varbuf", "u64 err", func(a A) []interface{} {
		v, err := binary.ReadUvarint(bytes.NewReader(a.Bytes(0)))
		return R(v, E(err))
	}).Imp("bytes").T("r0, r1 := binary.ReadUvarint(bytes.NewReader($0))")
	f.errOnly = true // Go documents the value only for the overflow case; compare the flag
	f = reg("encoding/binary", "ReadVarint", "buf:varbuf", "i64 err", func(a A) []interface{} {
		v, err := binary.ReadVarint(bytes.NewReader(a.Bytes(0)))
		return R(v, E(err))
	}).Imp("bytes").T("r0, r1 := binary.ReadVarint(bytes.NewReader($0))")
	f.errOnly = true
	reg("encoding/binary", "rt:PutUvarint/Uvarint", "x:u64", "bool", func(a A) []interface{} {
		b := binary.AppendUvarint(nil, a.U64(0))
		v, n := binary.Uvarint(b)
		return R(v == a.U64(0) && n == len(b))
	}).T("b := binary.AppendUvarint(nil, $0)\nv, n := binary.Uvarint(b)\nr0 := v == $0 && n == len(b)")
	reg("encoding/binary", "rt:PutVarint/Varint", "x:i64", "bool", func(a A) []interface{} {
		b := binary.AppendVarint(nil, a.I64(0))
		v, n := binary.Varint(b)
		return R(v == a.I64(0) && n == len(b))
	}).T("b := binary.AppendVarint(nil, $0)\nv, n := binary.Varint(b)\nr0 := v == $0 && n == len(b)")
}
