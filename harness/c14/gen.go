package c14

// Generators (all randomness through rapid draws) and boundary classes of
// argument values.

import (
	"fmt"
	"math"
	"math/big"
	"strconv"
	"strings"
	"unicode"
	"unicode/utf8"

	"pgregory.net/rapid"
)

// genCtx is what a parameter generator sees: the function and the arguments
// generated so far (generation order may differ from parameter order).
type genCtx struct {
	t    *rapid.T
	f    *fn
	args []string
}

func (g *genCtx) argByName(name string) (string, bool) {
	for i, p := range g.f.params {
		if p.name == name && g.args[i] != "\x00unset" {
			return g.args[i], true
		}
	}
	return "", false
}

// kind describes one parameter kind.
type kind struct {
	wa      string                // Wa type used to render the literal
	lit     func(v string) string // optional: custom rendering of the canonical value as a Wa expression
	gen     func(g *genCtx) string
	classes func(v string, all A, f *fn) []string // boundary classes hit by the value
}

var kinds = map[string]*kind{}

func intKind(wa string, bits uint, signed bool) *kind {
	return &kind{wa: wa,
		gen: func(g *genCtx) string {
			u := genBits(g.t, bits, signed)
			if signed {
				return encI(int64(u))
			}
			return encU(u)
		},
		classes: func(v string, _ A, _ *fn) []string { return intClasses(v, bits, signed) },
	}
}

func smallKind(wa string, lo, hi int, special ...int) *kind {
	return &kind{wa: wa,
		gen: func(g *genCtx) string {
			if len(special) > 0 && rapid.IntRange(0, 3).Draw(g.t, "sp") == 0 {
				return encI(int64(rapid.SampledFrom(special).Draw(g.t, "spv")))
			}
			return encI(int64(rapid.IntRange(lo, hi).Draw(g.t, "small")))
		},
		classes: func(v string, _ A, _ *fn) []string {
			n := A{v}.I64(0)
			var c []string
			switch {
			case n == 0:
				c = append(c, "n=0")
			case n < 0:
				c = append(c, "n<0")
			case n == 1:
				c = append(c, "n=1")
			}
			return c
		}}
}

func enumKind(wa string, label string, vals []int64, boundary func(int64) bool) *kind {
	return &kind{wa: wa,
		gen: func(g *genCtx) string { return encI(rapid.SampledFrom(vals).Draw(g.t, label)) },
		classes: func(v string, _ A, _ *fn) []string {
			n := A{v}.I64(0)
			if boundary == nil || boundary(n) {
				return []string{label + "=" + v}
			}
			return nil
		}}
}

func seq(lo, hi int64) []int64 {
	var o []int64
	for i := lo; i <= hi; i++ {
		o = append(o, i)
	}
	return o
}

func init() {
	kinds["i64"] = intKind("i64", 64, true)
	kinds["u64"] = intKind("u64", 64, false)
	kinds["int"] = intKind("int", 32, true)
	kinds["uint"] = intKind("uint", 32, false)
	kinds["i32"] = intKind("i32", 32, true)
	kinds["u32"] = intKind("u32", 32, false)
	kinds["u16"] = intKind("u16", 16, false)
	kinds["u8"] = intKind("u8", 8, false)
	kinds["byte"] = &kind{wa: "byte", gen: genByteArg, classes: byteClasses}
	kinds["rune"] = &kind{wa: "rune", gen: genRuneArg, classes: runeClasses}
	kinds["bool"] = &kind{wa: "bool", gen: func(g *genCtx) string { return encBool(rapid.Bool().Draw(g.t, "b")) },
		classes: func(string, A, *fn) []string { return nil }}
	kinds["carry"] = &kind{wa: "raw", gen: func(g *genCtx) string { return encI(int64(rapid.IntRange(0, 1).Draw(g.t, "carry"))) },
		classes: func(v string, _ A, _ *fn) []string {
			if v == "1" {
				return []string{"carry=1"}
			}
			return nil
		}}

	kinds["base"] = enumKind("int", "base", seq(2, 36), func(b int64) bool { return b == 2 || b == 10 || b == 16 || b == 36 || b == 8 || b == 32 })
	kinds["base0"] = enumKind("int", "base", append(seq(2, 36), 0, 0, 0, 0, 10, 10, 16, 1, 37, -1), func(b int64) bool { return b <= 2 || b == 10 || b == 16 || b >= 36 })
	kinds["bitsize"] = enumKind("int", "bitSize", []int64{0, 8, 16, 32, 64, 64, 64, 32, 32, 1, 7, 31, 33, 63, 65, -1}, nil)
	kinds["fbits"] = enumKind("int", "bitSize", []int64{32, 64, 64}, nil)
	kinds["ffmt"] = &kind{wa: "byte",
		gen: func(g *genCtx) string {
			return encI(int64(rapid.SampledFrom([]byte("eEfgGeEfgGbxX")).Draw(g.t, "fmt")))
		},
		classes: func(v string, _ A, _ *fn) []string { return []string{"fmt=" + string(rune(A{v}.I64(0)))} }}
	kinds["prec"] = &kind{wa: "int",
		gen: func(g *genCtx) string {
			switch rapid.IntRange(0, 5).Draw(g.t, "pc") {
			case 0:
				return "-1"
			case 1:
				return encI(int64(rapid.SampledFrom([]int{0, 1, 15, 16, 17, 18, 20, 30, 40, 100}).Draw(g.t, "pbig")))
			}
			return encI(int64(rapid.IntRange(0, 20).Draw(g.t, "prec")))
		},
		classes: func(v string, _ A, _ *fn) []string {
			n := A{v}.I64(0)
			switch {
			case n < 0:
				return []string{"prec=-1"}
			case n == 0:
				return []string{"prec=0"}
			case n >= 15:
				return []string{"prec>=15"}
			}
			return nil
		}}
	kinds["count"] = smallKind("int", 0, 12, 0, 1, 2, 33, 100)
	kinds["n"] = smallKind("int", -2, 6, -1, 0, 1, 2)
	kinds["rot"] = smallKind("int", -70, 70, 0, 1, -1, 8, 16, 32, 64, -64, 63, 65, 127, -128, 1000, -1000)
	kinds["len"] = smallKind("int", 0, 64, 0, 1, 2, 3, 4, 5, 1000)

	kinds["dst"] = &kind{wa: "[]byte", gen: func(g *genCtx) string {
		return encS(rapid.SampledFrom([]string{"", "", "x", "ab=", "\xff", "0123456789abcdef0123456789abcdef"}).Draw(g.t, "dst"))
	}, classes: func(v string, _ A, _ *fn) []string { return nil }}

	kinds["f64"] = &kind{wa: "f64", gen: func(g *genCtx) string { return encF(genFloat(g.t)) }, classes: floatClasses}

	kinds["str"] = &kind{wa: "string", gen: func(g *genCtx) string { return encS(genStr(g.t, false)) }, classes: strClasses}
	kinds["astr"] = &kind{wa: "string", gen: func(g *genCtx) string { return encS(genStr(g.t, true)) }, classes: strClasses}
	kinds["bytes"] = &kind{wa: "[]byte", gen: func(g *genCtx) string { return encS(genStr(g.t, false)) }, classes: strClasses}
	kinds["abytes"] = &kind{wa: "[]byte", gen: func(g *genCtx) string { return encS(genStr(g.t, true)) }, classes: strClasses}
	kinds["sep"] = &kind{wa: "string", gen: func(g *genCtx) string { return encS(genSep(g, false)) }, classes: sepClasses}
	kinds["bsep"] = &kind{wa: "[]byte", gen: func(g *genCtx) string { return encS(genSep(g, false)) }, classes: sepClasses}
	kinds["asep"] = &kind{wa: "string", gen: func(g *genCtx) string { return encS(genSep(g, true)) }, classes: sepClasses}
	kinds["basep"] = &kind{wa: "[]byte", gen: func(g *genCtx) string { return encS(genSep(g, true)) }, classes: sepClasses}
	kinds["chars"] = &kind{wa: "string", gen: func(g *genCtx) string { return encS(genChars(g)) }, classes: strClasses}
	kinds["strs"] = &kind{wa: "[]string", gen: genStrsArg, classes: listClasses}
	kinds["bytess"] = &kind{wa: "[][]byte", gen: genStrsArg, classes: listClasses}
	kinds["runes"] = &kind{wa: "[]rune", gen: func(g *genCtx) string {
		n := rapid.IntRange(0, 8).Draw(g.t, "nr")
		var l []int64
		for i := 0; i < n; i++ {
			l = append(l, A{genRuneArg(g)}.I64(0))
		}
		return encInts(l)
	}, classes: func(v string, a A, f *fn) []string {
		var c []string
		if v == "" {
			c = append(c, "list-empty")
		}
		for _, e := range splitList(v) {
			c = append(c, runeClasses(e, a, f)...)
		}
		return dedup(c)
	}}
	kinds["u16s"] = &kind{wa: "[]u16", gen: genU16s, classes: u16sClasses}

	kinds["intstr"] = &kind{wa: "string", gen: func(g *genCtx) string { return encS(genIntStr(g)) }, classes: intStrClasses}
	kinds["fltstr"] = &kind{wa: "string", gen: func(g *genCtx) string { return encS(genFloatStr(g)) }, classes: fltStrClasses}
	kinds["qstr"] = &kind{wa: "string", gen: func(g *genCtx) string { return encS(genQuoted(g)) }, classes: quotedClasses}
	kinds["boolstr"] = &kind{wa: "string", gen: func(g *genCtx) string {
		return encS(rapid.SampledFrom([]string{"1", "t", "T", "TRUE", "true", "True", "0", "f", "F", "FALSE", "false", "False", "", "tRUE", "yes", "2", " true", "truex"}).Draw(g.t, "bs"))
	}, classes: func(v string, _ A, _ *fn) []string {
		if _, err := strconv.ParseBool(A{v}.Str(0)); err != nil {
			return []string{"bool-invalid"}
		}
		return []string{"bool-valid"}
	}}
}

func dedup(c []string) []string {
	seen := map[string]bool{}
	var o []string
	for _, s := range c {
		if !seen[s] {
			seen[s] = true
			o = append(o, s)
		}
	}
	return o
}

// ---------------------------------------------------------------- integers

func mask(bits uint) uint64 {
	if bits >= 64 {
		return ^uint64(0)
	}
	return 1<<bits - 1
}

// genBits returns a boundary-biased value of the given width; for signed kinds
// the result is the sign-extended two's complement value as uint64.
func genBits(t *rapid.T, bits uint, signed bool) uint64 {
	var u uint64
	switch rapid.IntRange(0, 5).Draw(t, "iclass") {
	case 0:
		u = uint64(int64(rapid.IntRange(-3, 12).Draw(t, "small")))
	case 1: // limits of every width up to bits
		w := rapid.SampledFrom([]uint{7, 8, 15, 16, 31, 32, 63, 64}).Draw(t, "w")
		if w > bits {
			w = bits
		}
		var base uint64
		if w < 64 {
			base = 1 << w
		}
		u = base + uint64(int64(rapid.IntRange(-2, 2).Draw(t, "d")))
		if rapid.Bool().Draw(t, "neg") {
			u = -u
		}
	case 2: // 2^k + d
		k := rapid.UintRange(0, bits).Draw(t, "k")
		var base uint64
		if k < 64 {
			base = 1 << k
		}
		u = base + uint64(int64(rapid.IntRange(-1, 1).Draw(t, "d")))
		if signed && rapid.Bool().Draw(t, "neg") {
			u = -u
		}
	case 3: // 10^k + d (digit-count boundaries)
		k := rapid.IntRange(0, 19).Draw(t, "k10")
		p := uint64(1)
		for i := 0; i < k; i++ {
			p *= 10
		}
		u = p + uint64(int64(rapid.IntRange(-1, 1).Draw(t, "d")))
		if signed && rapid.Bool().Draw(t, "neg") {
			u = -u
		}
	case 4: // bit patterns
		u = rapid.SampledFrom([]uint64{0x5555555555555555, 0xaaaaaaaaaaaaaaaa, 0x0f0f0f0f0f0f0f0f, 0xff00ff00ff00ff00,
			0x0123456789abcdef, 0x8000000000000001, 0x00000000ffffffff, 0xffffffff00000000, 0x8080808080808080}).Draw(t, "pat")
		u >>= rapid.UintRange(0, 8).Draw(t, "sh")
	default:
		u = rapid.Uint64().Draw(t, "any")
	}
	u &= mask(bits)
	if signed && bits < 64 && u&(1<<(bits-1)) != 0 {
		u |= ^mask(bits)
	}
	return u
}

func intClasses(v string, bits uint, signed bool) []string {
	var c []string
	var u uint64
	if signed {
		i := A{v}.I64(0)
		u = uint64(i)
		min := -int64(1) << (bits - 1)
		max := int64(1)<<(bits-1) - 1
		switch {
		case i == 0:
			c = append(c, "int=0")
		case i == min:
			c = append(c, "int=min")
		case i == max:
			c = append(c, "int=max")
		case i-min <= 2 || max-i <= 2:
			c = append(c, "int-near-limit")
		}
		if i < 0 {
			c = append(c, "int<0")
			u = uint64(-i)
		}
	} else {
		u = A{v}.U64(0)
		switch {
		case u == 0:
			c = append(c, "int=0")
		case u == mask(bits):
			c = append(c, "int=max")
		case mask(bits)-u <= 2:
			c = append(c, "int-near-limit")
		}
	}
	if u != 0 {
		for _, x := range []uint64{u - 1, u, u + 1} {
			if x != 0 && x&(x-1) == 0 && x > 4 {
				c = append(c, "int-near-pow2")
				break
			}
		}
		p := uint64(10)
		for i := 0; i < 19; i++ {
			if u+1 >= p && u <= p+1 {
				c = append(c, "int-near-pow10")
				break
			}
			p *= 10
		}
		if u > math.MaxUint32 {
			c = append(c, "int>32bit")
		}
	}
	return c
}

func genByteArg(g *genCtx) string {
	t := g.t
	// often a byte of the string argument
	if s, ok := g.argByName("s"); ok && rapid.IntRange(0, 2).Draw(t, "bfrom") > 0 {
		b := A{s}.Str(0)
		if len(b) > 0 {
			return encI(int64(b[rapid.IntRange(0, len(b)-1).Draw(t, "bi")]))
		}
	}
	return encI(int64(rapid.SampledFrom([]byte{0, 'a', 'b', ' ', 0x7f, 0x80, 0xbf, 0xc3, 0xe2, 0xff, 'z', ','}).Draw(t, "byte")))
}

func byteClasses(v string, a A, f *fn) []string {
	b := byte(A{v}.I64(0))
	var c []string
	switch {
	case b == 0:
		c = append(c, "byte=0")
	case b >= 0x80:
		c = append(c, "byte>=0x80")
	}
	for i, p := range f.params {
		if p.name == "s" {
			s := A{a[i]}.Str(0)
			switch k := strings.IndexByte(s, b); {
			case k < 0:
				c = append(c, "byte-absent")
			case k == 0:
				c = append(c, "byte-at-0")
			case strings.LastIndexByte(s, b) == len(s)-1:
				c = append(c, "byte-at-end")
			}
		}
	}
	return c
}

var specialRunes = []rune{0, 'a', 'A', 'z', ' ', '\n', 0x7f, 0x80, 0xff, 0x7ff, 0x800, 0xd7ff, 0xd800, 0xdbff, 0xdc00, 0xdfff, 0xe000,
	0xfffd, 0xfffe, 0xffff, 0x10000, 0x10ffff, 0x110000, -1, math.MaxInt32, math.MinInt32, 0xe9, 0x20ac, 0x4e2d, 0x1f600, 0x212a, 0x130, 0x2028, 0xa0, 0xad}

func genRuneArg(g *genCtx) string {
	t := g.t
	if s, ok := g.argByName("s"); ok && rapid.IntRange(0, 2).Draw(t, "rfrom") == 0 {
		rs := []rune(A{s}.Str(0))
		if len(rs) > 0 {
			return encI(int64(rs[rapid.IntRange(0, len(rs)-1).Draw(t, "ri")]))
		}
	}
	switch rapid.IntRange(0, 3).Draw(t, "rclass") {
	case 0:
		return encI(int64(rapid.Int32Range(0, 0x11ffff).Draw(t, "r")))
	case 1:
		r := int64(rapid.SampledFrom(specialRunes).Draw(t, "rs")) + int64(rapid.IntRange(-1, 1).Draw(t, "rd"))
		if r > math.MaxInt32 || r < math.MinInt32 {
			r = 0x7e
		}
		return encI(r)
	}
	return encI(int64(rapid.SampledFrom(specialRunes).Draw(t, "rs")))
}

func runeClasses(v string, _ A, _ *fn) []string {
	r := A{v}.I64(0)
	switch {
	case r < 0:
		return []string{"rune<0"}
	case r > 0x10ffff:
		return []string{"rune>max"}
	case r >= 0xd800 && r <= 0xdfff:
		return []string{"rune-surrogate"}
	case r == 0xfffd:
		return []string{"rune=RuneError"}
	case r < 0x80:
		if r == 0 || r == 0x7f {
			return []string{"rune-ascii-limit"}
		}
		return nil
	case r <= 0x7ff:
		if r == 0x80 || r == 0x7ff {
			return []string{"rune-2byte-limit"}
		}
		return []string{"rune-2byte"}
	case r <= 0xffff:
		if r == 0x800 || r == 0xffff || r == 0xd7ff || r == 0xe000 {
			return []string{"rune-3byte-limit"}
		}
		return []string{"rune-3byte"}
	}
	if r == 0x10000 || r == 0x10ffff {
		return []string{"rune-4byte-limit"}
	}
	return []string{"rune-4byte"}
}

// ---------------------------------------------------------------- byte strings

var asciiPieces = []string{"a", "b", "c", "a", "b", "A", "B", "z", "Z", "k", "K", "s", "0", "9", "5", " ", " ", "\t", "\n", "\r", "\v", "\f",
	",", ".", "_", "-", "+", "ab", "abc", "aa", "ba", "\x00", "\x7f", "\"", "\\", "'", "`", "=", "/"}

var utf8Pieces = []string{"\u00e9", "\u00c9", "\u00df", "\u20ac", "\u4e2d", "\u6587", "\U0001F600", "\u00a0", "\u0085", "\u2000", "\u3000", "\u2028", "\u1680",
	"\u0080", "\u07ff", "\u0800", "\uffff", "\U00010000", "\U0010ffff", "\ufffd", "\u212a", "\u017f", "\u0130", "\u0131", "\u01c5", "\u03a3", "\u03c3", "\u03c2",
	"\u00ad", "\ufeff", "\u0301", "\ue000", "\ud7ff", "\u044f", "\u042f", "\u2603", "\u00d7", "\u2260", "\u0661"}

var badPieces = []string{"\x80", "\xbf", "\xc0\x80", "\xc1\xbf", "\xc3", "\xc2", "\xe2\x82", "\xe2", "\xf0\x9f\x98", "\xf0\x9f", "\xf0", "\xe0\x80\x80", "\xe0\x9f\xbf",
	"\xed\xa0\x80", "\xed\xbf\xbf", "\xed\xa0", "\xf0\x80\x80\x80", "\xf0\x8f\xbf\xbf", "\xf4\x90\x80\x80", "\xf4\x8f\xbf", "\xf5\x80\x80\x80", "\xff", "\xfe", "\xf8\x88\x80\x80\x80", "\xc3\x28", "\xe2\x28\xa1"}

// caseless, non-space non-ASCII pieces: the Wa ports use the ASCII-only
// unicode/ctypes tables for case mapping and white space (plus U+0085/U+00A0),
// so functions depending on Unicode tables are exercised only on runes for
// which both definitions coincide.
var safeUTF8Pieces []string

func runeTablesAgree(r rune) bool {
	if r < utf8.RuneSelf {
		return true
	}
	if r == 0x85 || r == 0xa0 {
		return true // both say space, no case
	}
	return !unicode.IsSpace(r) && unicode.ToUpper(r) == r && unicode.ToLower(r) == r && unicode.ToTitle(r) == r &&
		unicode.SimpleFold(r) == r && !unicode.IsLetter(r) && !unicode.IsDigit(r)
}

func init() {
	for _, p := range utf8Pieces {
		r, _ := utf8.DecodeRuneInString(p)
		if runeTablesAgree(r) {
			safeUTF8Pieces = append(safeUTF8Pieces, p)
		}
	}
}

// tablesAgree reports whether every rune of s is one on which Wa's ctypes and
// Go's unicode tables coincide.
func tablesAgree(s string) bool {
	for _, r := range s {
		if !runeTablesAgree(r) {
			return false
		}
	}
	return true
}

// makeSafe replaces the runes on which Wa's ctypes tables and Go's unicode
// tables disagree (invalid bytes are kept).
func makeSafe(s string) string {
	if tablesAgree(s) {
		return s
	}
	var b strings.Builder
	for i := 0; i < len(s); {
		r, n := utf8.DecodeRuneInString(s[i:])
		if r != utf8.RuneError && !runeTablesAgree(r) {
			b.WriteString("\u20ac")
		} else {
			b.WriteString(s[i : i+n])
		}
		i += n
	}
	return b.String()
}

func genStr(t *rapid.T, safe bool) string {
	s := genStrRaw(t, safe)
	if safe {
		s = makeSafe(s)
	}
	return s
}

func genStrRaw(t *rapid.T, safe bool) string {
	u8 := utf8Pieces
	if safe {
		u8 = safeUTF8Pieces
	}
	join := func(pcs [][]string, lo, hi int) string {
		var all []string
		for _, p := range pcs {
			all = append(all, p...)
		}
		return strings.Join(rapid.SliceOfN(rapid.SampledFrom(all), lo, hi).Draw(t, "pieces"), "")
	}
	switch rapid.IntRange(0, 11).Draw(t, "smode") {
	case 0:
		return ""
	case 1, 2: // tiny alphabet: many matches
		return strings.Join(rapid.SliceOfN(rapid.SampledFrom([]string{"a", "b", "a", "ab", " ", ","}), 0, 14).Draw(t, "tiny"), "")
	case 3, 4:
		return join([][]string{asciiPieces}, 0, 16)
	case 5, 6:
		return join([][]string{asciiPieces[:16], u8}, 0, 12)
	case 7, 8:
		return join([][]string{asciiPieces[:12], u8, badPieces, badPieces}, 0, 12)
	case 9: // raw bytes
		b := rapid.SliceOfN(rapid.Byte(), 0, 12).Draw(t, "raw")
		return string(b)
	case 10: // long repetitive (crosses the brute-force / Rabin-Karp thresholds of Index)
		unit := rapid.SampledFrom([]string{"a", "ab", "aab", "abc", "a ", "中a", "\xffa"}).Draw(t, "unit")
		n := rapid.IntRange(8, 120).Draw(t, "rep")
		s := strings.Repeat(unit, n)
		if rapid.Bool().Draw(t, "tail") {
			s += rapid.SampledFrom([]string{"b", "c", "ba", "x", "é"}).Draw(t, "tailv")
		}
		if rapid.Bool().Draw(t, "head") {
			s = rapid.SampledFrom([]string{"b", "c", "x", " "}).Draw(t, "headv") + s
		}
		return s
	default: // long mixed
		return join([][]string{asciiPieces, u8[:4]}, 30, 90)
	}
}

func strClasses(v string, _ A, _ *fn) []string {
	s := A{v}.Str(0)
	return strValueClasses(s)
}

func strValueClasses(s string) []string {
	var c []string
	if s == "" {
		return []string{"str-empty"}
	}
	if !utf8.ValidString(s) {
		c = append(c, "str-invalid-utf8")
		for i := 0; i+1 < len(s); i++ {
			if s[i] == 0xed && s[i+1] >= 0xa0 && s[i+1] <= 0xbf {
				c = append(c, "str-surrogate-bytes")
				break
			}
		}
		for i := 0; i < len(s); i++ {
			if s[i] == 0xc0 || s[i] == 0xc1 || (i+1 < len(s) && ((s[i] == 0xe0 && s[i+1] < 0xa0 && s[i+1] >= 0x80) || (s[i] == 0xf0 && s[i+1] < 0x90 && s[i+1] >= 0x80))) {
				c = append(c, "str-overlong")
				break
			}
		}
		if r, n := utf8.DecodeLastRuneInString(s); r == utf8.RuneError && n == 1 && s[len(s)-1] >= 0xc2 {
			c = append(c, "str-truncated-tail")
		}
	} else if len(s) != utf8.RuneCountInString(s) {
		c = append(c, "str-multibyte")
	}
	if strings.IndexByte(s, 0) >= 0 {
		c = append(c, "str-nul")
	}
	switch {
	case len(s) >= 64:
		c = append(c, "str-len>=64")
	case len(s) >= 32:
		c = append(c, "str-len>=32")
	case len(s) == 1:
		c = append(c, "str-len=1")
	}
	if !tablesAgree(s) {
		c = append(c, "str-unicode-case-or-space")
	}
	return c
}

// genSep produces a separator / substring / prefix argument related to the
// string argument named "s" of the same call.
func genSep(g *genCtx, safe bool) string {
	s := genSepRaw(g)
	if safe {
		s = makeSafe(s)
	}
	return s
}

func genSepRaw(g *genCtx) string {
	t := g.t
	sv, ok := g.argByName("s")
	s := ""
	if ok {
		s = A{sv}.Str(0)
	}
	switch rapid.IntRange(0, 9).Draw(t, "sepmode") {
	case 0:
		return ""
	case 1, 2, 3: // substring of s
		if len(s) == 0 {
			return rapid.SampledFrom([]string{"a", "", " "}).Draw(t, "sepe")
		}
		i := rapid.IntRange(0, len(s)).Draw(t, "i")
		j := rapid.IntRange(i, len(s)).Draw(t, "j")
		if j-i > 40 && rapid.Bool().Draw(t, "short") {
			j = i + rapid.IntRange(1, 40).Draw(t, "jl")
		}
		return s[i:j]
	case 4: // prefix
		return s[:rapid.IntRange(0, len(s)).Draw(t, "pre")]
	case 5: // suffix
		return s[rapid.IntRange(0, len(s)).Draw(t, "suf"):]
	case 6: // substring with one more byte (near miss)
		if len(s) == 0 {
			return "a"
		}
		i := rapid.IntRange(0, len(s)-1).Draw(t, "i")
		j := rapid.IntRange(i, len(s)).Draw(t, "j")
		if j-i > 40 {
			j = i + 40
		}
		return s[i:j] + rapid.SampledFrom([]string{"a", "b", "x", "\x80", " "}).Draw(t, "extra")
	case 7: // one rune of s
		rs := []rune(s)
		if len(rs) == 0 {
			return ","
		}
		return string(rs[rapid.IntRange(0, len(rs)-1).Draw(t, "ri")])
	case 8: // s itself, or longer than s
		if rapid.Bool().Draw(t, "longer") {
			return s + "a"
		}
		return s
	}
	return rapid.SampledFrom([]string{"a", "b", "ab", "aa", " ", ",", "ba", "abc", "中", "\xff", "é", "\x80", "aab", ", "}).Draw(t, "sepfix")
}

func sepClasses(v string, a A, f *fn) []string {
	sep := A{v}.Str(0)
	var c []string
	for i, p := range f.params {
		if p.name != "s" {
			continue
		}
		s := A{a[i]}.Str(0)
		n := strings.Count(s, sep)
		switch {
		case sep == "":
			c = append(c, "sep-empty")
		case len(sep) > len(s):
			c = append(c, "sep-longer-than-s")
		case sep == s:
			c = append(c, "sep-equals-s")
		case n == 0:
			c = append(c, "sep-absent")
		default:
			if strings.HasPrefix(s, sep) {
				c = append(c, "sep-at-start")
			}
			if strings.HasSuffix(s, sep) {
				c = append(c, "sep-at-end")
			}
			if n > 1 {
				c = append(c, "sep-repeated")
			}
			// overlapping occurrences
			if k := strings.Index(s, sep); k >= 0 && len(sep) > 1 && strings.Index(s[k+1:], sep) >= 0 && strings.Index(s[k+1:], sep) < len(sep)-1 {
				c = append(c, "sep-overlapping")
			}
			if strings.Contains(s, sep+sep) {
				c = append(c, "sep-adjacent")
			}
		}
		if len(sep) >= 32 {
			c = append(c, "sep-len>=32")
		}
	}
	if sep != "" && !utf8.ValidString(sep) {
		c = append(c, "sep-invalid-utf8")
	} else if len(sep) > 1 && utf8.RuneCountInString(sep) == 1 {
		c = append(c, "sep-one-multibyte-rune")
	}
	return c
}

// genChars: a cutset / chars argument (set of runes and stray bytes), biased to
// contain the first and last characters of s.
func genChars(g *genCtx) string {
	t := g.t
	sv, _ := g.argByName("s")
	s := ""
	if sv != "" {
		s = A{sv}.Str(0)
	}
	var parts []string
	if len(s) > 0 && rapid.Bool().Draw(t, "first") {
		r, n := utf8.DecodeRuneInString(s)
		_ = r
		parts = append(parts, s[:n])
	}
	if len(s) > 0 && rapid.Bool().Draw(t, "last") {
		_, n := utf8.DecodeLastRuneInString(s)
		parts = append(parts, s[len(s)-n:])
	}
	parts = append(parts, rapid.SliceOfN(rapid.SampledFrom([]string{"a", "b", " ", ",", "\t", "é", "中", "😀", "\xff", "\x80", "�", "\x00", "z", "\xe2\x82"}), 0, 4).Draw(t, "cs")...)
	return strings.Join(parts, "")
}

func genStrsArg(g *genCtx) string {
	t := g.t
	n := rapid.IntRange(0, 6).Draw(t, "nl")
	if rapid.IntRange(0, 7).Draw(t, "big") == 0 {
		n = rapid.IntRange(7, 40).Draw(t, "nlbig")
	}
	var l []string
	for i := 0; i < n; i++ {
		if n > 8 {
			l = append(l, strings.Join(rapid.SliceOfN(rapid.SampledFrom([]string{"a", "b", "A", "", "é", "\xff", "0", "z"}), 0, 3).Draw(t, "e"), ""))
		} else {
			l = append(l, genStr(t, false))
		}
	}
	return encStrs(l)
}

func listClasses(v string, _ A, _ *fn) []string {
	l := A{v}.Strs(0)
	var c []string
	switch {
	case len(l) == 0:
		c = append(c, "list-empty")
	case len(l) == 1:
		c = append(c, "list-len=1")
	case len(l) > 12:
		c = append(c, "list-len>12")
	}
	seen := map[string]bool{}
	for _, e := range l {
		if e == "" {
			c = append(c, "list-has-empty-elem")
		}
		if seen[e] {
			c = append(c, "list-has-duplicates")
		}
		seen[e] = true
	}
	return dedup(c)
}

func genU16s(g *genCtx) string {
	t := g.t
	n := rapid.IntRange(0, 8).Draw(t, "nu")
	var l []int64
	for i := 0; i < n; i++ {
		switch rapid.IntRange(0, 4).Draw(t, "uc") {
		case 0: // valid pair
			l = append(l, int64(rapid.IntRange(0xd800, 0xdbff).Draw(t, "hi")), int64(rapid.IntRange(0xdc00, 0xdfff).Draw(t, "lo")))
		case 1: // lone surrogate
			l = append(l, int64(rapid.IntRange(0xd800, 0xdfff).Draw(t, "lone")))
		case 2:
			l = append(l, int64(rapid.SampledFrom([]int{0, 0x41, 0xd7ff, 0xe000, 0xffff, 0xfffd, 0xdc00, 0xdbff, 0xd800, 0xdfff}).Draw(t, "us")))
		default:
			l = append(l, int64(rapid.IntRange(0, 0xffff).Draw(t, "u")))
		}
	}
	return encInts(l)
}

func u16sClasses(v string, _ A, _ *fn) []string {
	l := A{v}.U16s(0)
	var c []string
	if len(l) == 0 {
		c = append(c, "list-empty")
	}
	for i := 0; i < len(l); i++ {
		u := l[i]
		switch {
		case u >= 0xd800 && u < 0xdc00:
			if i+1 < len(l) && l[i+1] >= 0xdc00 && l[i+1] < 0xe000 {
				c = append(c, "u16-valid-pair")
				i++
			} else if i+1 == len(l) {
				c = append(c, "u16-high-surrogate-at-end")
			} else {
				c = append(c, "u16-lone-high-surrogate")
			}
		case u >= 0xdc00 && u < 0xe000:
			c = append(c, "u16-lone-low-surrogate")
		}
	}
	return dedup(c)
}

// ---------------------------------------------------------------- floats

var hardFloats = []float64{
	5e-324, 1e-323, 2.2250738585072009e-308, 2.2250738585072014e-308, 1.7976931348623157e308, 1.7976931348623155e308,
	9007199254740991, 9007199254740992, 9007199254740993, 9007199254740994, 1e23, 8.41e21, 9.5e21, 1e22, 1e21, 1e20, 1e15, 1e16, 1e17,
	123456789012345678, 0.1, 0.2, 0.3, 0.30000000000000004, 1.0 / 3, 2.0 / 3, 0.5, 1.5, 2.5, 3.5, 0.25, 0.125, 0.375, 0.0625, 1.25, 1.35, 2.675,
	0.05, 0.15, 0.45, 0.95, 9.5, 9.95, 99.5, 99.95, 999.5, 9.999999999999999e22, 1e-5, 1e-4, 0.000123, 123456, 1234567, 12345678, 100000, 1000000, 1e21 - 1,
	9.5367431640625e-7, 4.656612873077393e-10, 5.960464477539063e-8, 1.1754943508222875e-38, 1.401298464324817e-45, 3.4028234663852886e38, 3.4028235677973366e38,
	16777216, 16777217, 8388608.5, 0.000001, 0.0000001, 1e-7, 123456.7, 5e-7, 2.5e-7, 4.9406564584124654e-324, 6.02214076e23, 1.616255e-35, 299792458,
	8.5, 0.085, 1.005, 1.015, 1.025, 1.045, 10.5, 100.5, 1000.5, 0.5e-10, 3.14159265358979, 2.718281828459045, 1e100, 1e-100, 1.7e308,
	622666234635.3213, 4.35, 5.55, 1.45, 32.5, 1e300, 5e-310, 4.450147717014403e-308, 2.2250738585072024e-308,
}

func genFloat(t *rapid.T) float64 {
	var f float64
	switch rapid.IntRange(0, 9).Draw(t, "fclass") {
	case 0:
		return rapid.SampledFrom([]float64{0, math.Copysign(0, -1), math.Inf(1), math.Inf(-1), math.NaN(), 1, -1}).Draw(t, "special")
	case 1: // subnormals
		m := rapid.Uint64Range(1, 1<<52-1).Draw(t, "mant")
		if rapid.Bool().Draw(t, "edge") {
			m = rapid.SampledFrom([]uint64{1, 2, 3, 1<<52 - 1, 1 << 51, 1<<51 + 1, 10, 100}).Draw(t, "mantedge")
		}
		f = math.Float64frombits(m)
	case 2: // powers of ten
		e := rapid.IntRange(-330, 310).Draw(t, "e10")
		if rapid.Bool().Draw(t, "smalle") {
			e = rapid.IntRange(-25, 25).Draw(t, "e10s")
		}
		f, _ = strconv.ParseFloat("1e"+strconv.Itoa(e), 64)
		f = math.Float64frombits(math.Float64bits(f) + uint64(int64(rapid.IntRange(-1, 1).Draw(t, "ulp"))))
	case 3, 4:
		f = rapid.SampledFrom(hardFloats).Draw(t, "hard")
	case 5: // powers of two ± ulp
		e := rapid.IntRange(-1074, 1023).Draw(t, "e2")
		f = math.Ldexp(1, e)
		f = math.Float64frombits(math.Float64bits(f) + uint64(int64(rapid.IntRange(-1, 1).Draw(t, "ulp"))))
	case 6: // short decimals: d.ddd × 10^e — exact decimal ties for fixed precision
		digits := rapid.IntRange(1, 99999).Draw(t, "digits")
		if rapid.Bool().Draw(t, "five") {
			digits = digits/10*10 + 5
		}
		e := rapid.IntRange(-8, 8).Draw(t, "dexp")
		f, _ = strconv.ParseFloat(strconv.Itoa(digits)+"e"+strconv.Itoa(e), 64)
	case 7: // float32 values
		b := rapid.Uint32().Draw(t, "b32")
		if rapid.Bool().Draw(t, "sub32") {
			b &= 0x807fffff
		}
		f = float64(math.Float32frombits(b))
	case 8: // integers around 2^53 and dyadic fractions k/2^n (exactly representable ties)
		k := rapid.Int64Range(1, 1<<20).Draw(t, "k")
		n := rapid.IntRange(1, 30).Draw(t, "n")
		f = math.Ldexp(float64(k), -n)
	default:
		f = math.Float64frombits(rapid.Uint64().Draw(t, "bits"))
	}
	if rapid.IntRange(0, 3).Draw(t, "fneg") == 0 {
		f = -f
	}
	return f
}

func floatClasses(v string, _ A, _ *fn) []string {
	f := A{v}.F64(0)
	b := math.Float64bits(f)
	var c []string
	switch {
	case f != f:
		return []string{"float-nan"}
	case math.IsInf(f, 0):
		return []string{"float-inf"}
	case f == 0:
		if b != 0 {
			return []string{"float-negzero"}
		}
		return []string{"float-zero"}
	}
	if b>>63 != 0 {
		c = append(c, "float<0")
	}
	a := math.Abs(f)
	if a < 2.2250738585072014e-308 {
		c = append(c, "float-subnormal")
	}
	if a >= 1.7976931348623155e308 || a <= 1e-323 {
		c = append(c, "float-extreme")
	}
	if b&(1<<52-1) == 0 {
		c = append(c, "float-pow2")
	}
	if m := b & (1<<52 - 1); m == 1<<52-1 || m == 1 {
		c = append(c, "float-pow2±ulp")
	}
	// exactly representable with few decimal digits => ties at fixed precision
	if s := strconv.FormatFloat(a, 'e', -1, 64); len(s) <= 8 {
		c = append(c, "float-short-decimal")
		if strings.Contains(s, "5e") {
			c = append(c, "float-decimal-ends-in-5")
		}
	} else if len(s) >= 21 {
		c = append(c, "float-17-digits")
	}
	if a >= 1e15 && a <= 1e22 {
		c = append(c, "float-e21-switch")
	}
	if float64(float32(f)) == f {
		c = append(c, "float-fits-f32")
	}
	return c
}

// ---------------------------------------------------------------- number strings

func genIntStr(g *genCtx) string {
	t := g.t
	base := int64(10)
	if b, ok := g.argByName("base"); ok {
		base = A{b}.I64(0)
	}
	bits := int64(32)
	if b, ok := g.argByName("bitSize"); ok {
		bits = A{b}.I64(0)
	}
	if bits <= 0 || bits > 64 {
		bits = 32
	}
	fb := int(base)
	prefix := ""
	if base == 0 {
		switch rapid.IntRange(0, 5).Draw(t, "pfx") {
		case 0:
			fb, prefix = 16, rapid.SampledFrom([]string{"0x", "0X"}).Draw(t, "px")
		case 1:
			fb, prefix = 2, rapid.SampledFrom([]string{"0b", "0B"}).Draw(t, "pb")
		case 2:
			fb, prefix = 8, rapid.SampledFrom([]string{"0o", "0O", "0"}).Draw(t, "po")
		default:
			fb = 10
		}
	}
	if fb < 2 || fb > 36 {
		fb = 10
	}
	// magnitude near the limits of the bit size (signed and unsigned), or anything
	var mag uint64
	switch rapid.IntRange(0, 4).Draw(t, "mclass") {
	case 0:
		mag = uint64(1)<<uint(bits-1) + uint64(int64(rapid.IntRange(-2, 2).Draw(t, "d")))
	case 1:
		mag = mask(uint(bits)) + uint64(int64(rapid.IntRange(-2, 2).Draw(t, "d")))
	case 2:
		mag = uint64(rapid.IntRange(0, 40).Draw(t, "smallmag"))
	default:
		mag = genBits(t, 64, false)
	}
	digits := strconv.FormatUint(mag, fb)
	if rapid.IntRange(0, 3).Draw(t, "beyond") == 0 {
		// just beyond the unsigned range of the bit size (2^bits + k): for 64 bits the
		// value does not fit in uint64, the accumulator wraps in the last digit
		over := new(big.Int).Lsh(big.NewInt(1), uint(bits))
		over.Add(over, big.NewInt(int64(rapid.IntRange(0, fb).Draw(t, "over"))))
		digits = over.Text(fb)
	}
	switch rapid.IntRange(0, 13).Draw(t, "mut") {
	case 0:
		digits = strings.ToUpper(digits)
	case 1: // one more digit: overflow of 64 bits for large values
		digits += strconv.FormatUint(uint64(rapid.IntRange(0, fb-1).Draw(t, "xd")), fb)
	case 2: // leading zeros
		digits = strings.Repeat("0", rapid.IntRange(1, 30).Draw(t, "lz")) + digits
	case 3: // digit == base (invalid)
		pos := rapid.IntRange(0, len(digits)).Draw(t, "pos")
		var d string
		if fb < 36 {
			d = strconv.FormatUint(uint64(fb), 36)
		} else {
			d = rapid.SampledFrom([]string{"_", "{", "@", "/", ":", "`", "[", "\x80"}).Draw(t, "bad")
		}
		digits = digits[:pos] + d + digits[pos:]
	case 4: // underscores (only legal with base 0 and a proper placement)
		pos := rapid.IntRange(0, len(digits)).Draw(t, "upos")
		digits = digits[:pos] + rapid.SampledFrom([]string{"_", "__"}).Draw(t, "us") + digits[pos:]
	case 5:
		digits = rapid.SampledFrom([]string{"", " ", "+", "-", "0x", "0b", "0o", "_", "0_", "x", "1 ", " 1", "1\x00", "0x_1", "0_7", "0__7", "1_000", "1_0_", "_1", "+-1", "--1", "१", "9223372036854775808", "18446744073709551616", "99999999999999999999999"}).Draw(t, "junk")
	case 6: // huge
		digits = strings.Repeat(strconv.FormatUint(uint64(fb-1), fb), rapid.IntRange(20, 70).Draw(t, "huge"))
	}
	sign := rapid.SampledFrom([]string{"", "", "", "-", "-", "+"}).Draw(t, "sign")
	return sign + prefix + digits
}

func intStrClasses(v string, a A, f *fn) []string {
	s := A{v}.Str(0)
	var c []string
	if s == "" {
		return []string{"num-empty"}
	}
	if strings.HasPrefix(s, "-") {
		c = append(c, "num-neg")
	}
	if strings.HasPrefix(s, "+") {
		c = append(c, "num-plus")
	}
	if strings.Contains(s, "_") {
		c = append(c, "num-underscore")
	}
	t := strings.TrimLeft(s, "+-")
	if len(t) > 1 && t[0] == '0' {
		c = append(c, "num-leading-zero-or-prefix")
	}
	if _, err := strconv.ParseInt(s, 0, 64); err != nil {
		if _, err2 := strconv.ParseUint(s, 0, 64); err2 != nil {
			if ne, ok := err2.(*strconv.NumError); ok && ne.Err == strconv.ErrRange {
				c = append(c, "num-overflows-64")
			}
		}
	}
	if len(s) >= 19 {
		c = append(c, "num-long")
	}
	return c
}

func genFloatStr(g *genCtx) string {
	t := g.t
	switch rapid.IntRange(0, 9).Draw(t, "fsmode") {
	case 0:
		return rapid.SampledFrom([]string{"inf", "+Inf", "-INF", "infinity", "-Infinity", "+INFINITY", "infinit", "in", "nan", "NaN", "+nan", "-NaN", "nanx", "infx",
			"", ".", "+", "-", "e5", ".e5", "1e", "1e+", "1e-", "0x", "0x.p1", "0x1", "0x1p", "0x1.8p1", "0X1P-2", "0x1p-1074", "0x1p-1075", "0x0.8p-1074", "0x1.fffffffffffffp1023",
			"0x1.fffffffffffff8p1023", "0x1p1024", "-0x1p-1080", "0x1.00000000000008p0", "0x1.000000000000081p0", "0x_1p1", "0x1_0p1", "1_0", "1_0.5", "1__0", "_1", "1_", "1e1_0", "1.e5", ".5", "5.", "+.5e-3",
			"1e400", "-1e400", "1e-400", "1e309", "1.7976931348623159e308", "1.797693134862315807e308", "1.797693134862315808e308", "4.9e-324", "2.4703282292062327e-324", "2.4703282292062328e-324",
			"2.2250738585072011e-308", "2.2250738585072012e-308", "0e999999999", "0.0e-999999999", "1e999999999999999999999", "1e-999999999999999999999", "00000000000000000000000000000000000001",
			"0.000000000000000000000000000000000000000000001", "1e23", "8.41e21", "9007199254740993", "9007199254740992.5", "9007199254740993.0000000000000000000000000000000000000001",
			"1.00000000000000011102230246251565404236316680908203125", "1.00000000000000011102230246251565404236316680908203124", "1.00000000000000011102230246251565404236316680908203126",
			"3.4028234664e38", "3.4028235677973366e38", "3.40282356779733661637539395458142568448e38", "1.4e-45", "7e-46", "7.006492321624085e-46", "7.006492321624086e-46", "16777217", "16777217.0000001",
			"1e+5", "1E5", "1e05", " 1", "1 ", "1f", "1.2.3", "--1", "+-1", "0x1p+5", "१.५", "1e5.5", "100000000000000000000000", "123456789012345678901234567890", "0.1", "0.30000000000000004",
			"6.0221e+23", "6.02214076E+23", "179769313486231580793728971405303415079934132710037826936173778980444968292764750946649017977587207096330286416692887910946555547851940402630657488671505820681908902000708383676273854845817711531764475730270069855571366959622842914819860834936475292719074168444365510704342711559699508093042880177904174497792"}).Draw(t, "special")
	case 1, 2: // a float formatted by Go with some format and precision
		f := genFloat(t)
		if f != f || math.IsInf(f, 0) {
			f = 1.5
		}
		fm := rapid.SampledFrom([]byte("eEfgGeg")).Draw(t, "fm")
		prec := rapid.IntRange(-1, 25).Draw(t, "fp")
		s := strconv.FormatFloat(f, fm, prec, 64)
		if len(s) > 400 {
			s = strconv.FormatFloat(f, 'e', prec, 64)
		}
		return s
	case 3: // shortest float32 representation
		f := genFloat(t)
		if f != f || math.IsInf(f, 0) {
			f = 2.5
		}
		return strconv.FormatFloat(f, 'g', -1, 32)
	case 4, 5: // exact halfway point between two adjacent floats (64 or 32 bit), nudged
		return genHalfway(t)
	case 6: // many digits
		n := rapid.IntRange(17, 60).Draw(t, "nd")
		var b strings.Builder
		for i := 0; i < n; i++ {
			b.WriteByte(byte('0' + rapid.IntRange(0, 9).Draw(t, "dg")))
			if i == 0 && rapid.Bool().Draw(t, "pt") {
				b.WriteByte('.')
			}
		}
		return b.String() + "e" + strconv.Itoa(rapid.IntRange(-340, 310).Draw(t, "ex"))
	case 7: // hex float of a random value
		f := genFloat(t)
		if f != f || math.IsInf(f, 0) {
			f = 3
		}
		return strconv.FormatFloat(f, rapid.SampledFrom([]byte("xX")).Draw(t, "hx"), rapid.IntRange(-1, 14).Draw(t, "hp"), 64)
	case 8: // integer strings
		return strconv.FormatUint(genBits(t, 64, false), 10) + rapid.SampledFrom([]string{"", "", ".0", "e0", "e3", "e-3", ".5", "5"}).Draw(t, "isuf")
	}
	// light mutation of a short decimal
	s := strconv.FormatFloat(genFloat(t), 'g', 6, 64)
	pos := rapid.IntRange(0, len(s)).Draw(t, "mp")
	return s[:pos] + rapid.SampledFrom([]string{"_", "e", ".", "0", "-", "+", "x", " ", "p"}).Draw(t, "mc") + s[pos:]
}

// genHalfway renders the exact decimal expansion of the midpoint between a
// float and its successor (the hardest inputs for correctly rounded parsing),
// optionally nudged by one unit in a far digit.
func genHalfway(t *rapid.T) string {
	var lo, hi float64
	if rapid.Bool().Draw(t, "h32") {
		b := rapid.Uint32Range(0, 0x7f7ffffe).Draw(t, "hb32")
		if rapid.Bool().Draw(t, "hsub") {
			b &= 0x007fffff
		}
		lo, hi = float64(math.Float32frombits(b)), float64(math.Float32frombits(b+1))
	} else {
		b := rapid.Uint64Range(0, 0x7feffffffffffffe).Draw(t, "hb64")
		switch rapid.IntRange(0, 3).Draw(t, "hcls") {
		case 0:
			b &= 1<<52 - 1 // subnormal
		case 1:
			b = math.Float64bits(rapid.SampledFrom(hardFloats).Draw(t, "hh"))
			if b >= 0x7feffffffffffffe {
				b = 0x7feffffffffffffe
			}
		}
		lo, hi = math.Float64frombits(b), math.Float64frombits(b+1)
	}
	x := new(big.Float).SetPrec(2200).SetFloat64(lo)
	y := new(big.Float).SetPrec(2200).SetFloat64(hi)
	mid := x.Add(x, y)
	mid.Quo(mid, big.NewFloat(2))
	s := mid.Text('e', 800)
	// trim trailing zeros of the mantissa
	ei := strings.IndexByte(s, 'e')
	m, e := strings.TrimRight(s[:ei], "0"), s[ei:]
	if strings.HasSuffix(m, ".") {
		m += "0"
	}
	switch rapid.IntRange(0, 3).Draw(t, "nudge") {
	case 0: // exactly halfway: round to even
	case 1: // just above
		m += rapid.SampledFrom([]string{"1", "0000000001", "000000000000000000000000000001"}).Draw(t, "up")
	case 2: // just below: decrement last digit (non-zero by construction)
		bs := []byte(m)
		bs[len(bs)-1]--
		m = string(bs) + rapid.SampledFrom([]string{"", "9", "99999999999999"}).Draw(t, "dn")
	case 3: // truncated
		if len(m) > 20 {
			m = m[:rapid.IntRange(17, len(m)-1).Draw(t, "cut")]
		}
	}
	return m + e
}

func fltStrClasses(v string, _ A, _ *fn) []string {
	s := A{v}.Str(0)
	var c []string
	f, err := strconv.ParseFloat(s, 64)
	if err != nil {
		if ne, ok := err.(*strconv.NumError); ok && ne.Err == strconv.ErrRange {
			c = append(c, "flt-out-of-range")
		} else {
			c = append(c, "flt-syntax-error")
		}
	} else {
		for _, cl := range floatClasses(encF(f), nil, nil) {
			if cl == "float-subnormal" || cl == "float-extreme" || cl == "float-inf" || cl == "float-nan" || cl == "float-zero" || cl == "float-negzero" {
				c = append(c, cl)
			}
		}
	}
	l := strings.ToLower(s)
	if strings.Contains(l, "0x") {
		c = append(c, "flt-hex")
	}
	if strings.Contains(s, "_") {
		c = append(c, "flt-underscore")
	}
	nd := 0
	for i := 0; i < len(s); i++ {
		if s[i] >= '0' && s[i] <= '9' {
			nd++
		}
		if s[i] == 'e' || s[i] == 'E' {
			break
		}
	}
	switch {
	case nd > 40:
		c = append(c, "flt-digits>40")
	case nd > 19:
		c = append(c, "flt-digits>19")
	case nd >= 16:
		c = append(c, "flt-digits>=16")
	}
	return c
}

// genQuoted produces inputs for Unquote / UnquoteChar / QuotedPrefix.
func genQuoted(g *genCtx) string {
	t := g.t
	switch rapid.IntRange(0, 6).Draw(t, "qmode") {
	case 0:
		return rapid.SampledFrom([]string{"", `"`, `""`, `''`, "``", `'a'`, `'ab'`, `'\''`, `"\""`, `'"'`, `"'"`, `'\"'`, `"\'"`, "`\\n`", "`a\rb`", "`a`b`", `"\x41"`, `"\x4"`, `"\xzz"`, `"é"`, `"\ud800"`, `"\U0010ffff"`, `"\U00110000"`,
			`"\101"`, `"\400"`, `"\377"`, `"\08"`, `"\a\b\f\n\r\t\v\\"`, `"\z"`, `"\`, `"abc`, `abc"`, `'\xff'`, `'\377'`, `"\xff\xfe"`, `'ሴ5'`, `"a` + "\n" + `b"`, `'` + "\n" + `'`, `'\n'`, `'aa'`, `'é'`, `'\xe9'`, "'\xe9'", "\"\xff\"",
			`"\u0000"`, `"\U0001F600"`, `"😀"`, `'😀'`, `"�"`, "'�'", `"\u00"`, `"\U0001F60"`, `"a"b`, `'a'b`, "`a`b", `"a" `, ` "a"`, `x`, `"\x00"`, `"\1"`, `"\12"`, `"\777"`, `"\x"`}).Draw(t, "qfix")
	case 1, 2: // a correctly quoted string (by Go), any flavour
		s := genStr(t, false)
		switch rapid.IntRange(0, 3).Draw(t, "qfl") {
		case 0:
			return strconv.Quote(s)
		case 1:
			return strconv.QuoteToASCII(s)
		case 2:
			if strconv.CanBackquote(s) {
				return "`" + s + "`"
			}
			return strconv.QuoteToGraphic(s)
		}
		r, _ := utf8.DecodeRuneInString(s + "x")
		return strconv.QuoteRune(r)
	case 3: // quoted then damaged
		s := strconv.Quote(genStr(t, false))
		pos := rapid.IntRange(0, len(s)).Draw(t, "qp")
		return s[:pos] + rapid.SampledFrom([]string{"\\", "\"", "'", "\n", "\\x", "\\u", "\\8", "`", "\xff"}).Draw(t, "qd") + s[pos:]
	case 4: // quoted with trailing text (QuotedPrefix)
		return strconv.Quote(genStr(t, false)) + genStr(t, false)
	case 5: // raw pieces between quotes
		q := rapid.SampledFrom([]string{`"`, `'`, "`"}).Draw(t, "qq")
		body := strings.Join(rapid.SliceOfN(rapid.SampledFrom([]string{"a", `\n`, `\x41`, `\xff`, `é`, `\ud800`, `\udfff`, `\U0001F600`, `\U00110000`, `\101`, `\377`, `\400`, `\'`, `\"`, "é", "\xff", "\n", "\r", "`", `\\`, `\`, "😀", `\0`, `\x4`, `\u12`}), 0, 5).Draw(t, "qb"), "")
		return q + body + q
	}
	return genStr(t, false)
}

func quotedClasses(v string, _ A, _ *fn) []string {
	s := A{v}.Str(0)
	var c []string
	if _, err := strconv.Unquote(s); err != nil {
		c = append(c, "quoted-invalid")
	} else {
		c = append(c, "quoted-valid")
	}
	if len(s) > 0 {
		switch s[0] {
		case '\'':
			c = append(c, "quote=single")
		case '`':
			c = append(c, "quote=back")
		}
	}
	if strings.Contains(s, `\u`) || strings.Contains(s, `\U`) {
		c = append(c, "quoted-unicode-escape")
	}
	if strings.Contains(s, `\x`) {
		c = append(c, "quoted-hex-escape")
	}
	if !utf8.ValidString(s) {
		c = append(c, "str-invalid-utf8")
	}
	return c
}

var _ = fmt.Sprint
