package c14

import (
	"strconv"

	"pgregory.net/rapid"
)

// Wa `int` is 32 bits wide: bitSize 0 means 32 on the Wa side, so the Go side
// is rendered with the matching width.
func bs32(b int) int {
	if b == 0 {
		return 32
	}
	return b
}

func init() {
	kinds["quotebyte"] = &kind{wa: "byte", gen: func(g *genCtx) string {
		return encI(int64(rapidPick(g.t, "q", []byte{'"', '\'', 0, '`', 'a'})))
	}, classes: func(v string, _ A, _ *fn) []string { return []string{"quote=" + v} }}

	// ------------------------------------------------------------ integers
	setGroup("strconv-int")
	reg("strconv", "Itoa", "i:int", "str", func(a A) []interface{} { return R(strconv.Itoa(a.Int(0))) })
	reg("strconv", "FormatInt", "i:i64 base:base", "str", func(a A) []interface{} { return R(strconv.FormatInt(a.I64(0), a.Int(1))) })
	reg("strconv", "FormatUint", "i:u64 base:base", "str", func(a A) []interface{} { return R(strconv.FormatUint(a.U64(0), a.Int(1))) })
	reg("strconv", "AppendInt", "dst:dst i:i64 base:base", "bytes", func(a A) []interface{} {
		return R(strconv.AppendInt(a.Bytes(0), a.I64(1), a.Int(2)))
	})
	reg("strconv", "AppendUint", "dst:dst i:u64 base:base", "bytes", func(a A) []interface{} {
		return R(strconv.AppendUint(a.Bytes(0), a.U64(1), a.Int(2)))
	})
	reg("strconv", "ParseInt", "s:intstr base:base0 bitSize:bitsize", "i64 err", func(a A) []interface{} {
		v, err := strconv.ParseInt(a.Str(0), a.Int(1), bs32(a.Int(2)))
		return R(v, E(err))
	}).Order(1, 2, 0)
	reg("strconv", "ParseUint", "s:intstr base:base0 bitSize:bitsize", "u64 err", func(a A) []interface{} {
		v, err := strconv.ParseUint(a.Str(0), a.Int(1), bs32(a.Int(2)))
		return R(v, E(err))
	}).Order(1, 2, 0)
	reg("strconv", "Atoi", "s:intstr", "int err", func(a A) []interface{} {
		// Wa's int is 32-bit: Atoi == ParseInt(s, 10, 32)
		v, err := strconv.ParseInt(a.Str(0), 10, 32)
		return R(v, E(err))
	})
	reg("strconv", "ParseBool", "str:boolstr", "bool err", func(a A) []interface{} {
		v, err := strconv.ParseBool(a.Str(0))
		return R(v, E(err))
	})
	reg("strconv", "FormatBool", "b:bool", "str", func(a A) []interface{} { return R(strconv.FormatBool(a.Bool(0))) })
	reg("strconv", "AppendBool", "dst:dst b:bool", "bytes", func(a A) []interface{} { return R(strconv.AppendBool(a.Bytes(0), a.Bool(1))) })
	reg("strconv", "rt:FormatInt/ParseInt", "i:i64 base:base", "bool", func(a A) []interface{} {
		v, err := strconv.ParseInt(strconv.FormatInt(a.I64(0), a.Int(1)), a.Int(1), 64)
		return R(v == a.I64(0) && err == nil)
	}).T("v, err := strconv.ParseInt(strconv.FormatInt($0, $1), $1, 64)\nr0 := v == $0 && err == nil")
	reg("strconv", "rt:FormatUint/ParseUint", "i:u64 base:base", "bool", func(a A) []interface{} {
		v, err := strconv.ParseUint(strconv.FormatUint(a.U64(0), a.Int(1)), a.Int(1), 64)
		return R(v == a.U64(0) && err == nil)
	}).T("v, err := strconv.ParseUint(strconv.FormatUint($0, $1), $1, 64)\nr0 := v == $0 && err == nil")
	reg("strconv", "rt:Itoa/Atoi", "i:int", "bool", func(a A) []interface{} {
		v, err := strconv.Atoi(strconv.Itoa(a.Int(0)))
		return R(v == a.Int(0) && err == nil)
	}).T("v, err := strconv.Atoi(strconv.Itoa($0))\nr0 := v == $0 && err == nil")

	// ------------------------------------------------------------ floats
	setGroup("strconv-float")
	reg("strconv", "FormatFloat", "f:f64 fmt:ffmt prec:prec bitSize:fbits", "str", func(a A) []interface{} {
		return R(strconv.FormatFloat(a.F64(0), byte(a.Int(1)), a.Int(2), a.Int(3)))
	})
	reg("strconv", "AppendFloat", "dst:dst f:f64 fmt:ffmt prec:prec bitSize:fbits", "bytes", func(a A) []interface{} {
		return R(strconv.AppendFloat(a.Bytes(0), a.F64(1), byte(a.Int(2)), a.Int(3), a.Int(4)))
	})
	reg("strconv", "ParseFloat", "s:fltstr bitSize:fbits", "f64 err", func(a A) []interface{} {
		v, err := strconv.ParseFloat(a.Str(0), a.Int(1))
		return R(v, E(err))
	})
	reg("strconv", "rt:FormatFloat/ParseFloat", "f:f64 fmt:ffmt bitSize:fbits", "bool", func(a A) []interface{} {
		f := a.F64(0)
		if a.Int(2) == 32 {
			f = float64(float32(f))
		}
		v, err := strconv.ParseFloat(strconv.FormatFloat(f, byte(a.Int(1)), -1, a.Int(2)), a.Int(2))
		return R((v == f || (v != v && f != f)) && err == nil)
	}).T("f := $0\nif $2 == 32 {\n\tf = f64(f32(f))\n}\nv, err := strconv.ParseFloat(strconv.FormatFloat(f, $1, -1, $2), $2)\nr0 := (v == f || (v != v && f != f)) && err == nil").
		Dom(func(a A) bool { c := byte(a.Int(1)); return c != 'b' }) // 'b' output is not accepted by ParseFloat (in Go either)

	// ------------------------------------------------------------ quoting
	setGroup("strconv-quote")
	reg("strconv", "Quote", "s:str", "str", func(a A) []interface{} { return R(strconv.Quote(a.Str(0))) })
	reg("strconv", "QuoteToASCII", "s:str", "str", func(a A) []interface{} { return R(strconv.QuoteToASCII(a.Str(0))) })
	reg("strconv", "QuoteToGraphic", "s:str", "str", func(a A) []interface{} { return R(strconv.QuoteToGraphic(a.Str(0))) })
	reg("strconv", "AppendQuote", "dst:dst s:str", "bytes", func(a A) []interface{} { return R(strconv.AppendQuote(a.Bytes(0), a.Str(1))) })
	reg("strconv", "AppendQuoteToASCII", "dst:dst s:str", "bytes", func(a A) []interface{} {
		return R(strconv.AppendQuoteToASCII(a.Bytes(0), a.Str(1)))
	})
	reg("strconv", "AppendQuoteToGraphic", "dst:dst s:str", "bytes", func(a A) []interface{} {
		return R(strconv.AppendQuoteToGraphic(a.Bytes(0), a.Str(1)))
	})
	reg("strconv", "QuoteRune", "r:rune", "str", func(a A) []interface{} { return R(strconv.QuoteRune(a.Rune(0))) })
	reg("strconv", "QuoteRuneToASCII", "r:rune", "str", func(a A) []interface{} { return R(strconv.QuoteRuneToASCII(a.Rune(0))) })
	reg("strconv", "QuoteRuneToGraphic", "r:rune", "str", func(a A) []interface{} { return R(strconv.QuoteRuneToGraphic(a.Rune(0))) })
	reg("strconv", "AppendQuoteRune", "dst:dst r:rune", "bytes", func(a A) []interface{} {
		return R(strconv.AppendQuoteRune(a.Bytes(0), a.Rune(1)))
	})
	reg("strconv", "AppendQuoteRuneToASCII", "dst:dst r:rune", "bytes", func(a A) []interface{} {
		return R(strconv.AppendQuoteRuneToASCII(a.Bytes(0), a.Rune(1)))
	})
	reg("strconv", "AppendQuoteRuneToGraphic", "dst:dst r:rune", "bytes", func(a A) []interface{} {
		return R(strconv.AppendQuoteRuneToGraphic(a.Bytes(0), a.Rune(1)))
	})
	reg("strconv", "CanBackquote", "s:str", "bool", func(a A) []interface{} { return R(strconv.CanBackquote(a.Str(0))) })
	reg("strconv", "IsPrint", "r:rune", "bool", func(a A) []interface{} { return R(strconv.IsPrint(a.Rune(0))) })
	reg("strconv", "IsGraphic", "r:rune", "bool", func(a A) []interface{} { return R(strconv.IsGraphic(a.Rune(0))) })
	reg("strconv", "Unquote", "s:qstr", "str err", func(a A) []interface{} {
		v, err := strconv.Unquote(a.Str(0))
		return R(v, E(err))
	})
	reg("strconv", "QuotedPrefix", "s:qstr", "str err", func(a A) []interface{} {
		v, err := strconv.QuotedPrefix(a.Str(0))
		return R(v, E(err))
	})
	f := reg("strconv", "UnquoteChar", "s:qstr quote:quotebyte", "rune bool str err", func(a A) []interface{} {
		v, mb, tail, err := strconv.UnquoteChar(a.Str(0), byte(a.Int(1)))
		return R(v, mb, tail, E(err))
	})
	f.errOnly = true // the values returned together with an error are unspecified
	reg("strconv", "rt:Quote/Unquote", "s:str", "bool", func(a A) []interface{} {
		v, err := strconv.Unquote(strconv.Quote(a.Str(0)))
		return R(v == a.Str(0) && err == nil)
	}).T("v, err := strconv.Unquote(strconv.Quote($0))\nr0 := v == $0 && err == nil")
}

// printBits packs (IsPrint, IsGraphic) of the 4096 runes of block blk, 2 bits
// per rune, 2 runes per hex digit... as 2048 characters '0'..'f'.
func printBits(blk int) string {
	const d = "0123456789abcdef"
	b := make([]byte, 2048)
	for i := 0; i < 2048; i++ {
		v := 0
		for k := 0; k < 2; k++ {
			r := rune(blk*4096 + i*2 + k)
			if inUnicodeGap(r) {
				continue // assigned after Unicode 13: not printable in the tables Wa carries
			}
			if strconv.IsPrint(r) {
				v |= 1 << uint(2*k)
			}
			if strconv.IsGraphic(r) {
				v |= 2 << uint(2*k)
			}
		}
		b[i] = d[v]
	}
	return string(b)
}

func init() {
	// Unicode-table-version dependent functions: stay off the runes assigned after Unicode 13
	for _, id := range []string{"Quote", "QuoteToASCII", "QuoteToGraphic", "rt:Quote/Unquote"} {
		registry["strconv."+id].Dom(func(a A) bool { return noGapRunes(a.Str(0)) })
	}
	for _, id := range []string{"AppendQuote", "AppendQuoteToASCII", "AppendQuoteToGraphic"} {
		registry["strconv."+id].Dom(func(a A) bool { return noGapRunes(a.Str(1)) })
	}
	for _, id := range []string{"QuoteRune", "QuoteRuneToASCII", "QuoteRuneToGraphic", "IsPrint", "IsGraphic"} {
		registry["strconv."+id].Dom(func(a A) bool { return !inUnicodeGap(a.Rune(0)) })
	}
	for _, id := range []string{"AppendQuoteRune", "AppendQuoteRuneToASCII", "AppendQuoteRuneToGraphic"} {
		registry["strconv."+id].Dom(func(a A) bool { return !inUnicodeGap(a.Rune(1)) })
	}
}

const numPrintBlocks = 0x111 // runes 0 .. 0x110FFF: all of Unicode plus one block above MaxRune

func init() {
	setGroup("strconv-quote")
	kinds["blk"] = &kind{wa: "int", gen: func(g *genCtx) string {
		return encI(int64(rapid.IntRange(0, numPrintBlocks-1).Draw(g.t, "blk")))
	}, classes: func(v string, _ A, _ *fn) []string {
		if (A{v}).Int(0) >= 16 {
			return []string{"block-above-BMP"}
		}
		return []string{"block-BMP"}
	}}
	reg("strconv", "IsPrint+IsGraphic#block4096", "blk:blk", "text", func(a A) []interface{} { return R(textRes(printBits(a.Int(0)))) }).
		T("const d = \"0123456789abcdef\"\nb := make([]byte, 2048)\nfor i := 0; i < 2048; i++ {\n\tv := 0\n\tfor k := 0; k < 2; k++ {\n\t\tr := rune($0*4096 + i*2 + k)\n\t\tif strconv.IsPrint(r) {\n\t\t\tv |= 1 << uint(2*k)\n\t\t}\n\t\tif strconv.IsGraphic(r) {\n\t\t\tv |= 2 << uint(2*k)\n\t\t}\n\t}\n\tb[i] = d[v]\n}\nr0 := string(b)")
}
