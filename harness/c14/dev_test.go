package c14

import (
	"os"
	"testing"
	"time"

	"wa-lang.org/wa/zverif/harness/wk"
)

// TestDevRunFile is a development aid: VERIF_C14_FILE=<file.wa> runs one Wa
// source through the worker and prints outcome, output and timing.
func TestDevRunFile(t *testing.T) {
	f := os.Getenv("VERIF_C14_FILE")
	if f == "" {
		t.Skip("VERIF_C14_FILE not set")
	}
	src, err := os.ReadFile(f)
	if err != nil {
		t.Fatal(err)
	}
	w := wk.New(wk.Options{})
	defer w.Close()
	for i := 0; i < 2; i++ {
		t0 := time.Now()
		o := w.Do("run", wk.Src{Name: "p.wa", Src: string(src)})
		var r wk.RunResult
		o.Decode(&r)
		t.Logf("kind=%s err=%q stage=%s cpu=%dms wall=%v\n%s", o.Kind, o.Err, r.Stage, o.CPUms, time.Since(t0), r.Stdout)
		if o.Kind != wk.OK {
			t.Logf("output: %s", o.Output)
		}
	}
}
