package c14

import (
	"fmt"
	"os"
	"strings"
	"testing"
	"time"

	"wa-lang.org/wa/zverif/harness/wk"
)

// TestDevRunFile is a development aid: VERIF_C14_FILE=<file.wa> runs one Wa
// source through the worker and prints outcome, output and timing.
func TestDevRunFile(t *testing.T) {
	f := os.Getenv("VERIF_C14_FILE")
	if f == "" {
		t.Skip("VERIF_C14_FILE not set")
	}
	src, err := os.ReadFile(f)
	if err != nil {
		t.Fatal(err)
	}
	w := wk.New(wk.Options{})
	defer w.Close()
	for i := 0; i < 2; i++ {
		t0 := time.Now()
		o := w.Do("run", wk.Src{Name: "p.wa", Src: string(src)})
		var r wk.RunResult
		o.Decode(&r)
		t.Logf("kind=%s err=%q stage=%s cpu=%dms wall=%v\n%s", o.Kind, o.Err, r.Stage, o.CPUms, time.Since(t0), r.Stdout)
		if o.Kind != wk.OK {
			t.Logf("output: %s", o.Output)
		}
	}
}

// TestDevGapTable (development aid, VERIF_C14_GAP=1): prints the rune ranges on
// which Wa's strconv.IsPrint/IsGraphic tables differ from Go's, as Go source.
func TestDevGapTable(t *testing.T) {
	if os.Getenv("VERIF_C14_GAP") == "" {
		t.Skip("VERIF_C14_GAP not set")
	}
	var calls []Call
	for b := 0; b < numPrintBlocks; b++ {
		calls = append(calls, Call{F: "strconv.IsPrint+IsGraphic#block4096", A: []string{encI(int64(b))}})
	}
	lines := map[int]string{}
	var o wk.Outcome
	for at := 0; at < len(calls); at += 24 {
		end := at + 24
		if end > len(calls) {
			end = len(calls)
		}
		o = theWorker().Do("run", wk.Src{Name: "gap.wa", Src: renderDriver(calls[at:end])})
		var r wk.RunResult
		o.Decode(&r)
		for _, l := range strings.Split(r.Stdout, "\n") {
			var idx int
			var body string
			if n, _ := fmt.Sscanf(l, "@%d %s", &idx, &body); n == 2 {
				lines[at+idx] = body
			}
		}
	}
	type rg struct{ lo, hi rune }
	var out []rg
	oneWay := true
	for b := 0; b < numPrintBlocks; b++ {
		want := printBits(b)
		got := lines[b]
		if len(got) != len(want) {
			t.Fatalf("block %d missing (%s)", b, o.String())
		}
		for i := 0; i < 4096; i++ {
			sh := uint(2 * (i % 2))
			w := (hexVal(want[i/2]) >> sh) & 3
			g := (hexVal(got[i/2]) >> sh) & 3
			if w != g {
				if g&^w != 0 {
					oneWay = false
				}
				r := rune(b*4096 + i)
				if n := len(out); n > 0 && out[n-1].hi == r-1 {
					out[n-1].hi = r
				} else {
					out = append(out, rg{r, r})
				}
			}
		}
	}
	total := 0
	var sb strings.Builder
	for _, g := range out {
		total += int(g.hi-g.lo) + 1
		fmt.Fprintf(&sb, "{0x%x, 0x%x}, ", g.lo, g.hi)
	}
	t.Logf("ranges=%d runes=%d oneWay(Go ⊇ Wa)=%v\n%s", len(out), total, oneWay, sb.String())
}

func hexVal(c byte) int {
	if c >= 'a' {
		return int(c-'a') + 10
	}
	return int(c - '0')
}
