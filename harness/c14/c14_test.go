package c14

import (
	"encoding/json"
	"fmt"
	"os"
	"sort"
	"strconv"
	"strings"
	"sync"
	"testing"
	"time"

	"pgregory.net/rapid"
	"wa-lang.org/wa/zverif/harness/core"
	"wa-lang.org/wa/zverif/harness/wk"
)

const prop = "C14"

func TestMain(m *testing.M) {
	core.Main(m)
}

var (
	workerOnce sync.Once
	worker     *wk.Client
)

// one worker client per test process (README); the child is killed when the
// test process exits (Pdeathsig).
func theWorker() *wk.Client {
	// CPU budget: a driver needs 1–4 s; on an oversubscribed machine the same work
	// has been observed to be charged 20 s, so the guard against hanging drivers is generous
	workerOnce.Do(func() { worker = wk.New(wk.Options{CPULimit: 90 * time.Second}) })
	return worker
}

// payload is the replayable form of one case: the call list of one driver.
type payload struct {
	Group string `json:"group,omitempty"`
	Calls []Call `json:"calls"`
}

func callsPerDriver() (lo, hi int) {
	if v, _ := strconv.Atoi(os.Getenv("VERIF_C14_CALLS")); v > 0 {
		return v, v
	}
	return 110, 150
}

// genCall draws one in-domain call of a function of the group; F == "" means
// that no in-domain tuple was found within the retry budget.
func genCall(s *core.Stats, fns []*fn) *rapid.Generator[Call] {
	return rapid.Custom(func(t *rapid.T) Call {
		f := fns[pickUniform(t, "fn", len(fns))]
		for try := 0; try < 6; try++ {
			g := &genCtx{t: t, f: f, args: make([]string, len(f.params))}
			for i := range g.args {
				g.args[i] = "\x00unset"
			}
			order := f.order
			if order == nil {
				for i := range f.params {
					order = append(order, i)
				}
			}
			for _, i := range order {
				g.args[i] = kinds[f.params[i].kind].gen(g)
			}
			a := A(g.args)
			if f.domain != nil && !f.domain(a) {
				s.Counter("rejected_by_domain/"+f.id(), 1)
				continue
			}
			if len(renderedSize(f, a)) > 6000 {
				s.Counter("rejected_by_domain/literal-too-long", 1)
				continue
			}
			excluded := false
			for _, cl := range classesOf(f, a) {
				if isKnown(f.id() + "/" + cl) {
					s.Counter("excluded_by_known/"+f.id()+"/"+cl, 1)
					excluded = true
					break
				}
			}
			if excluded {
				continue
			}
			if _, ok, msg := goExpected(f, a); !ok {
				// Go itself panics on this tuple: outside the documented domain of the function
				s.Counter("rejected_by_domain/go-panics/"+f.id(), 1)
				_ = msg
				continue
			}
			return Call{F: f.id(), A: g.args}
		}
		return Call{}
	})
}

// pickUniform: rapid's SampledFrom / IntRange favour small values; groups and
// functions must be covered evenly, so the index is the head of a rapid
// permutation (drawn without bias).
func pickUniform(t *rapid.T, label string, n int) int {
	idx := make([]int, n)
	for i := range idx {
		idx[i] = i
	}
	return rapid.Permutation(idx).Draw(t, label)[0]
}

func renderedSize(f *fn, a A) string {
	n := 0
	for _, v := range a {
		n += len(v)
	}
	return strings.Repeat("x", n)
}

const ruleText = "rapid: one driver = 110..150 calls (function drawn from one package group of the registry × argument tuple from boundary-biased, per-parameter generators: integers at every width/base 2..36, floats from bit patterns, byte strings ASCII / UTF-8 / invalid UTF-8 / surrogates / empty, separators derived from the subject string); oracle = the Go standard-library function called in-process on the same tuple vs the line printed by a generated Wa driver (hex for strings and byte slices, decimal integers, Float64bits for floats, error presence only); evaluations count calls with a verdict; a call is non-trivial when its argument tuple hits at least one boundary class (classes listed in coverage.classes as arg:<class>), distinct by (function, tuple)"

func TestStdlibAgreesWithGo(t *testing.T) {
	s := core.NewStats(prop, "StdlibAgreesWithGo")
	s.Rule(ruleText)
	s.Assume("Go's standard library (go1.23) is the reference; the driver's own 40-line formatting prelude (decimal/hex printing written in Wa) and the Wa compiler are trusted to print results faithfully (a compiler fault would show up as a disagreement, never hide one)")
	s.Assume("functions the Wa tree visibly implements with ASCII-only tables (unicode/ctypes) are compared only on strings whose non-ASCII runes have no case mapping and are not Unicode white space")
	noteRegistry(s)
	w := theWorker()
	s.Check(t, func(t *rapid.T, c *core.Case) {
		// every shard owns the groups g with g mod nshards == shard, so that each
		// run covers every group whatever the seed
		sh, nsh := core.Shard()
		var gids []string
		for i, g := range groupIDs {
			if only := os.Getenv("VERIF_C14_GROUPS"); only != "" {
				if strings.HasPrefix(g, only) {
					gids = append(gids, g)
				}
			} else if i%nsh == sh%len(groupIDs) || nsh > len(groupIDs) && sh >= len(groupIDs) && i == sh%len(groupIDs) {
				gids = append(gids, g)
			}
		}
		gname := gids[pickUniform(t, "group", len(gids))]
		lo, hi := callsPerDriver()
		drawn := rapid.SliceOfN(genCall(s, groups[gname]), lo, hi).Draw(t, "calls")
		var calls []Call
		for _, cl := range drawn {
			if cl.F != "" {
				calls = append(calls, cl)
			}
		}
		c.Set(payload{Group: gname, Calls: calls})
		c.Class("group:" + gname)
		if len(calls) == 0 {
			s.Counter("empty_drivers", 1)
			s.Eval(-1)
			return
		}
		expected := make([]string, len(calls))
		for i, cl := range calls {
			expected[i], _, _ = goExpected(registry[cl.F], cl.A)
		}
		v := runCalls(w, calls, expected)
		account(s, c, calls, v)
		for _, m := range v.all {
			fmt.Fprintln(os.Stderr, "MISMATCH\t"+gname+"\t"+m)
		}
		if v.inconclusive != "" {
			s.Counter("inconclusive_drivers", 1)
			s.Note("inconclusive driver (no verdict): " + tailStr(v.inconclusive, 300))
			if strings.HasPrefix(v.inconclusive, "driver does not compile") {
				// a harness rendering problem must never pass silently, and is never a violation
				c.Set(payload{Group: gname, Calls: calls})
				t.Fatalf("HARNESS: %s", v.inconclusive)
			}
			return
		}
		if v.failIdx >= 0 {
			// isolate: the failing call alone (calls are independent unless the library keeps state)
			one := []Call{calls[v.failIdx]}
			v1 := runCalls(w, one, []string{expected[v.failIdx]})
			if v1.failIdx == 0 {
				c.Set(payload{Group: gname, Calls: one})
				c.Fail(v1.key, "%s", v1.what)
			} else {
				c.Fail(v.key, "%s (only after the preceding %d calls of the same driver)", v.what, v.failIdx)
			}
		}
	})
}

// account records per-function and per-class coverage for the calls that got a verdict.
func account(s *core.Stats, c *core.Case, calls []Call, v verdict) {
	n := v.evaluated
	if v.failIdx >= 0 && v.failIdx >= n {
		n = v.failIdx + 1
	}
	if n > len(calls) {
		n = len(calls)
	}
	for _, cl := range calls[:n] {
		f := registry[cl.F]
		c.Class("fn:" + f.id())
		classes := classesOf(f, cl.A)
		for _, k := range classes {
			if i := strings.IndexByte(k, ':'); i >= 0 && !strings.Contains(k[:i], "=") {
				k = k[i+1:]
			}
			c.Class("arg:" + k)
		}
		if len(classes) > 0 {
			s.Nontrivial(core.Hash64(cl.F, strings.Join(cl.A, "|")))
		} else {
			s.Counter("trivial_calls", 1)
		}
	}
	if n > 0 {
		s.Sample(payload{Calls: calls[:1]})
	}
	// c.Done() adds one evaluation for the case itself
	s.Eval(int64(n) - 1)
}

// TestIsPrintExhaustive compares strconv.IsPrint and IsGraphic on every rune
// 0..0x110FFF (one driver, 273 blocks of 4096 runes): the Quote family depends
// on these tables, whose contents depend on the Unicode version.
func TestIsPrintExhaustive(t *testing.T) {
	s := core.NewStats(prop, "IsPrintExhaustive")
	defer s.Flush()
	s.Rule("enumeration of every rune 0..0x110FFF through strconv.IsPrint and strconv.IsGraphic in Wa drivers, compared block-wise (4096 runes) with Go's tables; the 5318 runes assigned after Unicode 13 (harness/c14/unicode_gap.go) are expected non-printable, as in the Unicode 13 tables the Wa port carries (exhaustive; blocks sharded; quick tier: the BMP and every 8th higher block); non-trivial = a block containing both printable and non-printable runes")
	sh, n := core.Shard()
	var calls []Call
	var expected []string
	for b := 0; b < numPrintBlocks; b++ {
		if b%n != sh || (!core.Thorough() && b >= 16 && b%8 != 0) {
			continue
		}
		c := Call{F: "strconv.IsPrint+IsGraphic#block4096", A: []string{encI(int64(b))}}
		calls = append(calls, c)
		e, _, _ := goExpected(registry[c.F], c.A)
		expected = append(expected, e)
	}
	s.Exhaustive(core.Thorough())
	s.Counter("runes_in_unicode_version_gap_expected_nonprintable", 5318)
	if len(calls) == 0 {
		return
	}
	v := runCalls(theWorker(), calls, expected)
	if v.inconclusive != "" {
		s.Counter("inconclusive_drivers", 1)
		s.Note("inconclusive driver (no verdict): " + tailStr(v.inconclusive, 300))
		return
	}
	m := v.evaluated
	if v.failIdx >= 0 {
		m = v.failIdx + 1
	}
	s.Eval(int64(m) * 4096 * 2)
	for i := 0; i < m; i++ {
		if strings.Trim(expected[i], "0") != "" && strings.Trim(expected[i], "5f") != "" {
			s.Nontrivial(core.Hash64("blk", calls[i].A[0]))
			s.Sample(payload{Calls: calls[i : i+1]})
		}
	}
	if v.failIdx >= 0 {
		c := s.NewCase(t)
		c.Set(payload{Calls: calls[v.failIdx : v.failIdx+1]})
		blk := A(calls[v.failIdx].A).Int(0)
		what := v.what
		if len(what) > 300 {
			what = what[:300] + "…"
		}
		c.Fail(fmt.Sprintf("strconv.IsPrint/block-0x%03x", blk), "IsPrint/IsGraphic tables differ from Go's in runes 0x%x..0x%x: %s", blk*4096, blk*4096+4095, what)
	}
}

// ---------------------------------------------------------------- replay

func replay(test string, raw json.RawMessage) (string, string) {
	var p payload
	if err := json.Unmarshal(raw, &p); err != nil {
		return "harness/bad-replay", err.Error()
	}
	if len(p.Calls) == 0 {
		return "", ""
	}
	expected := make([]string, len(p.Calls))
	for i, cl := range p.Calls {
		f := registry[cl.F]
		if f == nil || len(cl.A) != len(f.params) {
			return "harness/bad-replay", "unknown function or wrong arity: " + cl.F
		}
		var ok bool
		var msg string
		expected[i], ok, msg = goExpected(f, cl.A)
		if !ok {
			return "harness/bad-replay", "Go panics on " + describeCall(cl) + ": " + msg
		}
	}
	v := runCalls(theWorker(), p.Calls, expected)
	if v.inconclusive != "" {
		// no verdict: report on stderr, never as a violation
		fmt.Fprintln(os.Stderr, "C14 replay inconclusive:", v.inconclusive)
		return "", ""
	}
	return v.key, v.what
}

func TestReplay(t *testing.T) { core.RunReplays(t, prop, replay) }

// ---------------------------------------------------------------- registry evidence

func noteRegistry(s *core.Stats) {
	if !core.FirstShard() {
		return
	}
	perPkg := map[string]int{}
	for _, id := range regOrder {
		perPkg[registry[id].pkg]++
	}
	var pk []string
	for p, n := range perPkg {
		pk = append(pk, fmt.Sprintf("%s=%d", p, n))
	}
	sort.Strings(pk)
	s.Note(fmt.Sprintf("registry: %d entries in %d groups (%s)", len(regOrder), len(groupIDs), strings.Join(pk, " ")))
	s.Counter("registry_entries", int64(len(regOrder)))
}
