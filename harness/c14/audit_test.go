package c14

import (
	"fmt"
	"os"
	"path/filepath"
	"regexp"
	"sort"
	"strings"
	"testing"

	"wa-lang.org/wa/zverif/harness/core"
)

// auditedPkgs are the Wa packages whose exported API the registry was built from.
var auditedPkgs = []string{"strconv", "strings", "bytes", "unicode/utf8", "unicode/utf16", "encoding/base64", "encoding/base32",
	"encoding/hex", "encoding/binary", "math/bits", "sort", "hash/crc32", "hash/adler32", "hash/fnv", "crypto/md5",
	"container/list", "container/ring", "container/heap"}

var funcRe = regexp.MustCompile(`(?m)^func\s+(?:\(\s*\w+\s*:\s*\*?(\w+)\s*\)\s*)?(?:(\w+)\.)?(\w+)`)

// exportedAPI lists "Func" and "Type.Method" for the exported functions and
// methods of exported-or-not receiver types declared in a Wa package.
func exportedAPI(pkg string) ([]string, error) {
	files, err := filepath.Glob(filepath.Join(core.RepoDir(), "waroot", "src", pkg, "*.wa"))
	if err != nil || len(files) == 0 {
		return nil, fmt.Errorf("no sources for %s", pkg)
	}
	seen := map[string]bool{}
	for _, f := range files {
		if strings.HasSuffix(f, "_test.wa") {
			continue
		}
		data, err := os.ReadFile(f)
		if err != nil {
			return nil, err
		}
		for _, m := range funcRe.FindAllStringSubmatch(string(data), -1) {
			recv, name := m[1], m[3]
			if m[2] != "" {
				recv = m[2]
			}
			if name == "" || name[0] < 'A' || name[0] > 'Z' {
				continue
			}
			if recv != "" {
				name = recv + "." + name
			}
			seen[name] = true
		}
	}
	var out []string
	for n := range seen {
		out = append(out, n)
	}
	sort.Strings(out)
	return out, nil
}

// coveredBy maps an API name to the registry entry (or entries) exercising it
// when the names differ (methods reached through constructors, scripts).
func covered(pkg, name string) bool {
	base := filepath.Base(pkg)
	if registry[base+"."+name] != nil {
		return true
	}
	via, ok := coveredVia[pkg+"."+name]
	if !ok {
		if i := strings.LastIndexByte(name, '.'); i > 0 {
			via, ok = coveredVia[pkg+"."+name[:i]+".*"]
		}
	}
	if ok {
		for _, id := range strings.Fields(via) {
			if registry[id] == nil {
				return false
			}
		}
		return true
	}
	return false
}

// TestRegistryAudit re-reads the exported API of every audited Wa package and
// checks that each function is either registered (directly or through the
// entry named in coveredVia) or listed in skipped with a reason; the lists go
// into the evidence.
func TestRegistryAudit(t *testing.T) {
	if !core.FirstShard() {
		t.Skip("first shard only")
	}
	s := core.NewStats(prop, "RegistryAudit")
	defer s.Flush()
	s.Rule("enumeration of the exported functions and methods of the 18 audited Wa packages (regexp over waroot/src/<pkg>/*.wa): each must be registered, covered through a named registry entry, or listed as skipped with a reason; non-trivial = a registered or covered function")
	s.Exhaustive(true)
	var unclassified []string
	nReg, nSkip := 0, 0
	for _, pkg := range auditedPkgs {
		api, err := exportedAPI(pkg)
		if err != nil {
			s.Note("audit: " + err.Error())
			continue
		}
		var skippedHere []string
		for _, name := range api {
			s.Eval(1)
			full := pkg + "." + name
			switch {
			case covered(pkg, name):
				nReg++
				s.Class("registered/" + pkg)
				s.Nontrivial(core.Hash64(full))
			case skipReason(full) != "":
				nSkip++
				s.Class("skipped/" + pkg)
				skippedHere = append(skippedHere, name+" ("+skipReason(full)+")")
			default:
				unclassified = append(unclassified, full)
			}
		}
		if len(skippedHere) > 0 {
			s.Note("skipped in " + pkg + ": " + strings.Join(skippedHere, "; "))
		}
	}
	s.Counter("api_functions_registered_or_covered", int64(nReg))
	s.Counter("api_functions_skipped_with_reason", int64(nSkip))
	s.Counter("api_functions_unclassified", int64(len(unclassified)))
	s.Sample(map[string]interface{}{"registered_or_covered": nReg, "skipped": nSkip, "unclassified": unclassified})
	if len(unclassified) > 0 {
		s.Note("audit: exported Wa functions neither registered nor skipped: " + strings.Join(unclassified, ", "))
		t.Logf("unclassified: %s", strings.Join(unclassified, "\n"))
	}
	// every skip entry and coveredVia entry must refer to something that exists
	for k := range skipped {
		found := false
		for _, pkg := range auditedPkgs {
			if strings.HasPrefix(k, pkg+".") {
				api, _ := exportedAPI(pkg)
				for _, n := range api {
					if pkg+"."+n == k || strings.HasSuffix(k, ".*") && strings.HasPrefix(pkg+"."+n, strings.TrimSuffix(k, "*")) {
						found = true
					}
				}
			}
		}
		if !found {
			s.Note("audit: stale skip entry " + k)
		}
	}
}

func skipReason(full string) string {
	if r, ok := skipped[full]; ok {
		return r
	}
	if i := strings.LastIndexByte(full, '/'); true {
		// method of an unexported receiver type that no exported entry point hands out
		rest := full[i+1:]
		if parts := strings.Split(rest, "."); len(parts) == 3 && parts[1][0] >= 'a' && parts[1][0] <= 'z' {
			if _, listed := skipped[full]; !listed {
				if _, wild := skipped[full[:strings.LastIndexByte(full, '.')]+".*"]; !wild {
					return "method of an unexported type"
				}
			}
		}
	}
	// Type.* wildcards
	if i := strings.LastIndexByte(full, '.'); i > 0 {
		if r, ok := skipped[full[:i]+".*"]; ok {
			return r
		}
	}
	return ""
}
