package c23

import (
	"bytes"
	"encoding/json"
	"fmt"
	"os"
	"strings"
	"testing"
	"time"
	"unicode/utf8"

	"pgregory.net/rapid"
	"wa-lang.org/wa/internal/scanner"
	"wa-lang.org/wa/internal/token"
	"wa-lang.org/wa/zverif/harness/c23/mini"
	"wa-lang.org/wa/zverif/harness/core"
	"wa-lang.org/wa/zverif/harness/wk"
)

const prop = "C23"

func TestMain(m *testing.M) { core.Main(m) }

// ================================================================ part (a): FileSet positions

// fileSpec is the replayable description of one file of a set.
type fileSpec struct {
	Name    string     `json:"name"`
	Gap     int        `json:"gap"`     // distance between the set's Base() and this file's base (-1: let AddFile choose)
	Content []byte     `json:"content"` // base64 in JSON
	Mode    string     `json:"mode"`    // how the line table is built: addline | setlines | content | scan-wa | scan-wz
	Infos   []infoSpec `json:"infos,omitempty"`
}

type infoSpec struct {
	Offset int    `json:"offset"`
	File   string `json:"file"`
	Line   int    `json:"line"`
	Col    int    `json:"col"`
}

type setCase struct {
	Files []fileSpec `json:"files"`
	Dirty bool       `json:"dirty_target,omitempty"` // FromJson into a set that already holds (and has cached) another file
}

// lineStarts is the reference: offsets following every '\n'.
func lineStarts(content []byte) []int {
	out := []int{0}
	for i, b := range content {
		if b == '\n' {
			out = append(out, i+1)
		}
	}
	return out
}

// build constructs the file set exactly as the specs say.
func build(files []fileSpec) (*token.FileSet, []*token.File) {
	fs := token.NewFileSet()
	var out []*token.File
	for _, sp := range files {
		base := -1
		if sp.Gap >= 0 {
			base = fs.Base() + sp.Gap
		}
		f := fs.AddFile(sp.Name, base, len(sp.Content))
		switch sp.Mode {
		case "addline":
			for _, o := range lineStarts(sp.Content)[1:] {
				f.AddLine(o)
			}
		case "setlines":
			var ls []int
			for _, o := range lineStarts(sp.Content) {
				if o < len(sp.Content) || o == 0 {
					ls = append(ls, o)
				}
			}
			if len(sp.Content) > 0 { // SetLines rejects offset >= size, so an empty file keeps its default table
				if !f.SetLines(ls) {
					panic("harness: SetLines rejected a valid table")
				}
			}
		case "content":
			f.SetLinesForContent(sp.Content)
		case "scan-wa", "scan-wz":
			var s scanner.Scanner
			s.W2Mode = sp.Mode == "scan-wz"
			s.Init(f, sp.Content, nil, scanner.ScanComments)
			for i := 0; i <= 2*len(sp.Content)+10; i++ {
				if _, tok, _ := s.Scan(); tok == token.EOF {
					break
				}
			}
		}
		for _, in := range sp.Infos {
			f.AddLineColumnInfo(in.Offset, in.File, in.Line, in.Col)
		}
		out = append(out, f)
	}
	return fs, out
}

// checkMapping: every offset of every file maps to the (line, column) obtained
// by counting newlines and bytes.  Only the unadjusted mapping is compared with
// the count (alternative //line positions are a different, documented mapping);
// when a file has no alternative positions the adjusted mapping must agree too.
func checkMapping(files []fileSpec) (key, what string) {
	fs, fl := build(files)
	for i, sp := range files {
		f := fl[i]
		hasInfos := positionsAdjusted(sp)
		line, start := 1, 0
		for off := 0; off <= len(sp.Content); off++ {
			if off > 0 && sp.Content[off-1] == '\n' {
				line, start = line+1, off
			}
			col := off - start + 1
			p := f.Pos(off)
			got := fs.PositionFor(p, false)
			eof := off == len(sp.Content)
			if eof && (len(sp.Content) == 0 || sp.Content[off-1] == '\n') {
				// The position one past a final newline (or of an empty file) is not an
				// offset *in* the content; token.File documents that a line start equal
				// to the file size is not recorded.  Only internal consistency is required.
				if got.Offset != off || got.Filename != sp.Name {
					return "position/eof/inconsistent", fmt.Sprintf("file %q (%s) EOF offset %d: Position = %+v", sp.Name, sp.Mode, off, got)
				}
				continue
			}
			if got.Filename != sp.Name || got.Offset != off || got.Line != line || got.Column != col {
				return "position/" + sp.Mode + "/wrong-line-col", fmt.Sprintf("file %q (%d bytes, table built by %s) offset %d: Position = %s:%d:%d (offset %d), counting newlines and bytes gives line %d column %d",
					sp.Name, len(sp.Content), sp.Mode, off, got.Filename, got.Line, got.Column, got.Offset, line, col)
			}
			if !hasInfos {
				if adj := fs.Position(p); adj != got {
					return "position/adjusted-differs", fmt.Sprintf("file %q offset %d: Position = %+v but PositionFor(p,false) = %+v with no alternative positions", sp.Name, off, adj, got)
				}
				if fp := f.Position(p); fp != got {
					return "position/file-vs-set", fmt.Sprintf("file %q offset %d: File.Position = %+v, FileSet.Position = %+v", sp.Name, off, fp, got)
				}
				if l := f.Line(p); l != line {
					return "position/line", fmt.Sprintf("file %q offset %d: File.Line = %d, want %d", sp.Name, off, l, line)
				}
			}
			if fs.File(p) != f {
				return "position/file-lookup", fmt.Sprintf("file %q offset %d: FileSet.File returns another file", sp.Name, off)
			}
			if f.Offset(p) != off {
				return "position/offset", fmt.Sprintf("file %q: Offset(Pos(%d)) = %d", sp.Name, off, f.Offset(p))
			}
		}
		// LineStart agrees with the reference table
		ls := lineStarts(sp.Content)
		for ln := 1; ln <= f.LineCount() && ln <= len(ls); ln++ {
			if int(f.LineStart(ln))-f.Base() != ls[ln-1] {
				return "position/linestart", fmt.Sprintf("file %q: LineStart(%d) = offset %d, want %d", sp.Name, ln, int(f.LineStart(ln))-f.Base(), ls[ln-1])
			}
		}
	}
	return "", ""
}

func positionsAdjusted(sp fileSpec) bool {
	if len(sp.Infos) > 0 {
		return true
	}
	// the scanner interprets //line and /*line directives
	return strings.HasPrefix(sp.Mode, "scan") && bytes.Contains(sp.Content, []byte("line "))
}

// checkJSON: FromJson(ToJson()) preserves the mapping of every position.
func checkJSON(c setCase) (key, what string) {
	fs, fl := build(c.Files)
	data := fs.ToJson()
	fs2 := token.NewFileSet()
	if c.Dirty {
		old := fs2.AddFile("stale.wa", -1, 40)
		old.AddLine(7)
		_ = fs2.Position(old.Pos(9)) // fills the last-file cache
	}
	if err := fs2.FromJson(data); err != nil {
		return "json/read-error", fmt.Sprintf("FromJson(ToJson()) fails: %v", err)
	}
	if fs2.Base() != fs.Base() {
		return "json/base", fmt.Sprintf("Base() = %d after the round trip, was %d", fs2.Base(), fs.Base())
	}
	var fl2 []*token.File
	fs2.Iterate(func(f *token.File) bool { fl2 = append(fl2, f); return true })
	if len(fl2) != len(fl) {
		return "json/file-count", fmt.Sprintf("%d files after the round trip, were %d", len(fl2), len(fl))
	}
	for i, f := range fl {
		g := fl2[i]
		if f.Name() != g.Name() || f.Base() != g.Base() || f.Size() != g.Size() || f.LineCount() != g.LineCount() {
			return "json/file-attrs", fmt.Sprintf("file %d: name/base/size/lines = %q/%d/%d/%d after the round trip, were %q/%d/%d/%d",
				i, g.Name(), g.Base(), g.Size(), g.LineCount(), f.Name(), f.Base(), f.Size(), f.LineCount())
		}
	}
	for p := token.Pos(0); int(p) <= fs.Base()+1; p++ {
		for _, adj := range []bool{true, false} {
			a, b := fs.PositionFor(p, adj), fs2.PositionFor(p, adj)
			if a != b {
				return "json/position-differs", fmt.Sprintf("Pos %d (adjusted=%v): %+v before, %+v after FromJson(ToJson())", p, adj, a, b)
			}
		}
		if (fs.File(p) == nil) != (fs2.File(p) == nil) {
			return "json/file-lookup", fmt.Sprintf("Pos %d: File() nil-ness differs after the round trip", p)
		}
	}
	if again := fs2.ToJson(); !bytes.Equal(again, data) {
		return "json/not-idempotent", "ToJson of the decoded set differs from the first encoding"
	}
	return "", ""
}

// ---------------------------------------------------------------- generators (a)

var lineAlphabet = []rune("abcXYZ019 _(){}\t=+\"'/*·凹语言注é😀\r")

func genLine(t *rapid.T) []byte {
	switch rapid.IntRange(0, 7).Draw(t, "linekind") {
	case 0:
		return nil
	case 1:
		return []byte(string(rapid.SliceOfN(rapid.SampledFrom(lineAlphabet), 1, 12).Draw(t, "short")))
	case 2:
		return []byte(string(rapid.SliceOfN(rapid.SampledFrom(lineAlphabet), 20, 200).Draw(t, "long")))
	case 3:
		return rapid.SliceOfN(rapid.Byte(), 1, 16).Draw(t, "rawbytes") // may contain \n, NUL, invalid UTF-8
	case 4:
		return []byte(rapid.SampledFrom([]string{"func main {", "\tprintln(\"凹\")", "}", "// 注释", "注: 说明", "x := 1 // c", "/* a", "b */", "函数·主控:", "完毕", "`raw", "string`"}).Draw(t, "code"))
	case 5:
		return []byte("a\rb")
	case 6:
		return []byte(rapid.SampledFrom([]string{"//line other.wa:10", "//line :7:3", "/*line x.wa:3:4*/ y", "// line no"}).Draw(t, "directive"))
	default:
		return []byte(string(rapid.SliceOfN(rapid.SampledFrom([]rune("凹语言数据结构é😀")), 1, 20).Draw(t, "multibyte")))
	}
}

func genContent(t *rapid.T) []byte {
	n := rapid.SampledFrom([]int{0, 1, 2, 3, 5, 8, 13, 30}).Draw(t, "nlines")
	crlf := rapid.IntRange(0, 3).Draw(t, "crlf") // 0,1: \n   2: \r\n   3: mixed
	var b []byte
	for i := 0; i < n; i++ {
		b = append(b, genLine(t)...)
		if i == n-1 && rapid.Bool().Draw(t, "noFinalNewline") {
			break
		}
		if crlf == 2 || (crlf == 3 && rapid.Bool().Draw(t, "cr")) {
			b = append(b, '\r')
		}
		b = append(b, '\n')
	}
	return b
}

var fileNames = []string{"a.wa", "main.wa", "src/pkg/x.wa", "程序.wz", "/abs/path/y.wa", "", "with space.wa", "C:\\dir\\z.wa"}

func genSet(t *rapid.T, withInfos bool) []fileSpec {
	n := rapid.IntRange(1, 6).Draw(t, "nfiles")
	var out []fileSpec
	for i := 0; i < n; i++ {
		sp := fileSpec{
			Name:    rapid.SampledFrom(fileNames).Draw(t, "name"),
			Gap:     rapid.SampledFrom([]int{-1, -1, 0, 1, 7, 100}).Draw(t, "gap"),
			Content: genContent(t),
			Mode:    rapid.SampledFrom([]string{"addline", "setlines", "content", "scan-wa", "scan-wz"}).Draw(t, "mode"),
		}
		if withInfos && len(sp.Content) > 0 && rapid.Bool().Draw(t, "infos") {
			k := rapid.IntRange(1, 3).Draw(t, "ninfos")
			off := 0
			for j := 0; j < k; j++ {
				off += rapid.IntRange(0, len(sp.Content)/2+1).Draw(t, "infooff")
				sp.Infos = append(sp.Infos, infoSpec{Offset: off, File: rapid.SampledFrom([]string{"alt.wa", "", "gen/源.wa"}).Draw(t, "infofile"),
					Line: rapid.IntRange(1, 500).Draw(t, "infoline"), Col: rapid.IntRange(0, 9).Draw(t, "infocol")})
				off++
			}
		}
		out = append(out, sp)
	}
	return out
}

// interesting: some file has an offset on a line > 1 that contains a multi-byte rune or a '\r'.
func interesting(files []fileSpec) bool {
	for _, sp := range files {
		ls := lineStarts(sp.Content)
		for i := 1; i < len(ls); i++ {
			end := len(sp.Content)
			if i+1 < len(ls) {
				end = ls[i+1]
			}
			for _, b := range sp.Content[ls[i]:end] {
				if b >= 0x80 || b == '\r' {
					return true
				}
			}
		}
	}
	return false
}

func setClasses(c *core.Case, files []fileSpec) {
	c.Class(fmt.Sprintf("files=%d", len(files)))
	for _, sp := range files {
		c.Class("mode/" + sp.Mode)
		switch {
		case len(sp.Content) == 0:
			c.Class("content/empty")
		case sp.Content[len(sp.Content)-1] != '\n':
			c.Class("content/no-final-newline")
		default:
			c.Class("content/final-newline")
		}
		if bytes.Contains(sp.Content, []byte("\r\n")) {
			c.Class("content/crlf")
		}
		if len(sp.Infos) > 0 {
			c.Class("content/alt-positions")
		}
		if sp.Gap > 0 {
			c.Class("base/gap")
		}
	}
}

func TestPositionMapping(t *testing.T) {
	s := core.NewStats(prop, "PositionMapping")
	s.Rule("rapid: file sets of 1..6 files (content = 0..30 lines of length 0..200 mixing ASCII, multi-byte runes, raw bytes, '\\r', //line directives; '\\n' / '\\r\\n' / mixed terminators; with and without final newline; empty files; bases with gaps) whose line tables are built by AddLine, SetLines, SetLinesForContent or by the real Wa/Wz scanner; oracle: for EVERY offset of every file, FileSet.PositionFor(file.Pos(off), false) = (name, off, 1+number of '\\n' before off, off-start of line+1) counted directly on the bytes, and Position/File.Position/Line/Offset/File()/LineStart agree; non-trivial = an offset lies on a line > 1 that contains a multi-byte rune or '\\r'")
	s.Assume("the position one past a final newline (and of an empty file) is not an offset in the content: token.File documents that a line start equal to the size is not recorded, so only consistency is required there")
	s.Check(t, func(t *rapid.T, c *core.Case) {
		files := genSet(t, false)
		c.Set(setCase{Files: files})
		setClasses(c, files)
		var key, what string
		c.Guard(func() { key, what = checkMapping(files) })
		if key != "" {
			c.Fail(key, "%s", what)
		}
		n := 0
		for _, sp := range files {
			n += len(sp.Content) + 1
		}
		s.Counter("positions_checked", int64(n))
		if interesting(files) {
			c.Nontrivial()
		}
	})
}

func TestFileSetJSON(t *testing.T) {
	s := core.NewStats(prop, "FileSetJSON")
	s.Rule("rapid: the same file sets, additionally with 0..3 alternative (//line-style) position records per file and decoding into a fresh or an already used FileSet; oracle: after FromJson(ToJson()) every Pos from 0 to Base()+1 (all offsets of all files, the gaps between files, NoPos) has the same adjusted and unadjusted Position as before, file count/names/bases/sizes/line counts and Base() are equal, and re-encoding is byte-identical; non-trivial = as above or the set carries alternative positions")
	s.Check(t, func(t *rapid.T, c *core.Case) {
		k := setCase{Files: genSet(t, true), Dirty: rapid.Bool().Draw(t, "dirty")}
		c.Set(k)
		setClasses(c, k.Files)
		if k.Dirty {
			c.Class("target/used-set")
		} else {
			c.Class("target/fresh-set")
		}
		var key, what string
		c.Guard(func() { key, what = checkJSON(k) })
		if key != "" {
			c.Fail(key, "%s", what)
		}
		hasInfos := false
		for _, sp := range k.Files {
			hasInfos = hasInfos || len(sp.Infos) > 0
		}
		if hasInfos || interesting(k.Files) {
			c.Nontrivial()
		}
	})
}

// ================================================================ part (b): panic positions

type panicCase struct {
	Name     string   `json:"name"`
	Src      string   `json:"src"`
	Msg      string   `json:"msg"`
	Line     int      `json:"line"`
	Col      int      `json:"col"`      // byte column of the first byte of the call
	CalleeLn int      `json:"calleeLn"` // byte length of the callee identifier (`(` is at Col+CalleeLn)
	Prefix   []string `json:"stdout_prefix"`
	Depth    int      `json:"depth"`
	Form     string   `json:"form"`
}

type msgForm struct {
	form   string
	wa, wz string // argument expression
	decl   [2]string
	text   string
}

func genMsg(t *rapid.T) msgForm {
	lit := rapid.SampledFrom([]string{"boom", "invalid state", "出错了", "a (b.wa:1:2)", "x: y", "", "50% done"}).Draw(t, "msg")
	switch rapid.IntRange(0, 3).Draw(t, "msgform") {
	case 0, 1:
		q := fmt.Sprintf("%q", lit)
		return msgForm{form: "literal", wa: q, wz: q, text: lit}
	case 2:
		return msgForm{form: "global-var", wa: "msgE", wz: "msgE", text: lit,
			decl: [2]string{fmt.Sprintf("global msgE: string = %q", lit), fmt.Sprintf("全局·msgE: 字串 = %q", lit)}}
	default:
		q := fmt.Sprintf("%q + msgE", "E:")
		return msgForm{form: "concat", wa: q, wz: q, text: "E:" + lit,
			decl: [2]string{fmt.Sprintf("global msgE: string = %q", lit), fmt.Sprintf("全局·msgE: 字串 = %q", lit)}}
	}
}

func genPanicProgram(t *rapid.T) (panicCase, *mini.Unit) {
	wz := rapid.Bool().Draw(t, "wz")
	m := genMsg(t)
	o := mini.Opts{Wz: wz, Entry: "main", MaxDepth: 5,
		Site: mini.Site{Wa: "panic(" + m.wa + ")", Wz: "崩溃(" + m.wz + ")", Terminal: true}}
	callee := len("panic")
	if wz {
		o.Entry = "主控"
		callee = len("崩溃")
	}
	u := mini.Gen(t, o)
	var head []string
	nhead := rapid.IntRange(0, 4).Draw(t, "nheader")
	for i := 0; i < nhead; i++ {
		switch {
		case i == nhead-1:
			head = append(head, "")
		case wz && i%2 == 0:
			head = append(head, "注: 版权 @2025 测试 头部")
		default:
			head = append(head, "// header 注释 line")
		}
	}
	if d := m.decl[0]; d != "" {
		if wz {
			d = m.decl[1]
		}
		head = append(head, d, "")
	}
	body, line := u.Text(len(head))
	src := strings.Join(head, "\n")
	if len(head) > 0 {
		src += "\n"
	}
	src += body
	name := rapid.SampledFrom([]string{"p", "main", "程序", "a-b_c"}).Draw(t, "fname")
	if wz {
		name += ".wz"
	} else {
		name += ".wa"
	}
	return panicCase{Name: name, Src: src, Msg: m.text, Line: line, Col: u.SiteCol, CalleeLn: callee, Prefix: u.Out, Depth: u.Depth, Form: m.form}, u
}

var worker *wk.Client
var workerUses int

func getWorker() *wk.Client {
	if worker == nil {
		worker = wk.New(wk.Options{CPULimit: 90 * time.Second}) // generous: the machine is shared; a budget hit is inconclusive
	}
	return worker
}

// checkPanic runs the program and compares the reported position.
// skip != "" → generator/model defect or unusable run (never a violation).
func checkPanic(k panicCase) (key, what, skip string) {
	// The worker process accumulates address space over many compile+run
	// requests and eventually dies on its RLIMIT_AS; that says nothing about the
	// program, so it is recycled regularly and a request that ends with the
	// worker dying is retried once on a fresh process.
	if workerUses++; workerUses%40 == 0 && worker != nil {
		worker.Close()
		worker = nil
	}
	o := getWorker().Do("run", wk.Src{Name: k.Name, Src: k.Src})
	if o.Kind != wk.OK && o.Kind != wk.Error {
		fmt.Fprintf(os.Stderr, "worker outcome %s for %s - retrying once\n", tail(o.String(), 300), k.Name)
		o = getWorker().Do("run", wk.Src{Name: k.Name, Src: k.Src})
	}
	var r wk.RunResult
	switch o.Kind {
	case wk.OK:
		o.Decode(&r)
		return "", "", "model: program ran to completion without panicking; stdout:\n" + r.Stdout
	case wk.Error:
		o.Decode(&r)
	default:
		return "", "", "unusable: worker outcome " + o.String()
	}
	if r.Stage != "run" {
		return "", "", "generator: program rejected at stage " + r.Stage + ": " + o.Err
	}
	prefix := strings.Join(k.Prefix, "\n")
	if len(k.Prefix) > 0 {
		prefix += "\n"
	}
	if !strings.HasPrefix(r.Stdout, prefix) {
		return "", "", "model: stdout does not start with the modelled lines:\n" + r.Stdout
	}
	rest := r.Stdout[len(prefix):]
	head := "panic: " + k.Msg + " ("
	if !strings.HasPrefix(rest, head) || !strings.HasSuffix(rest, ")\n") || strings.Count(rest, "\n") != 1 {
		return "", "", fmt.Sprintf("model: expected a single line %q…) after the prefix, got %q (err %s)", head, rest, o.Err)
	}
	got := rest[len(head) : len(rest)-2]
	atCallee := fmt.Sprintf("%s:%d:%d", k.Name, k.Line, k.Col)
	atParen := fmt.Sprintf("%s:%d:%d", k.Name, k.Line, k.Col+k.CalleeLn)
	if got == atCallee || got == atParen {
		return "", "", ""
	}
	// structural key: which coordinate is off
	var file string
	var line, col int
	key = "panic-pos/unparsable"
	if i := strings.LastIndex(got, ":"); i > 0 {
		if j := strings.LastIndex(got[:i], ":"); j >= 0 {
			file = got[:j]
			fmt.Sscan(got[j+1:i], &line)
			fmt.Sscan(got[i+1:], &col)
			switch {
			case file != k.Name:
				key = "panic-pos/wrong-file"
			case line != k.Line:
				key = "panic-pos/wrong-line"
			default:
				key = "panic-pos/wrong-column"
			}
		}
	}
	return key, fmt.Sprintf("panic call at %s (its `(` at column %d) is reported as %q; program:\n%s", atCallee, k.Col+k.CalleeLn, got, k.Src), ""
}

func TestPanicPosition(t *testing.T) {
	s := core.NewStats(prop, "PanicPosition")
	s.Rule("rapid: single-file programs (.wa or .wz, drawn) with 0..4 header lines in which the entry function reaches, through a drawn nest (depth 0..5) of blocks/ifs/loops/switches/closures/helper functions/methods/deferred closures, a panic call whose line and byte column the generator tracks (indent by tabs or spaces; optionally preceded on the same line by a multi-byte comment, a statement on a multi-byte identifier or a string with multi-byte runes; message = literal, global variable or concatenation); compiled and run in the worker (op run = api.BuildFile + wat2wasm + wazero); oracle: the last output line is `panic: <msg> (<file>:<line>:<col>)` with the generator's file and line and col = the byte column of the call (its first byte, or its opening parenthesis - the position go/ssa-style compilers assign to a call); non-trivial = nesting depth >= 2 and line > 5")
	s.Assume("the generator's interpreter predicts the lines printed before the panic; a program that does not compile or whose output does not start with them is counted as rejected, never as a violation")
	defer func() {
		if worker != nil {
			worker.Close()
		}
	}()
	var rejected, unusable int64
	s.Check(t, func(t *rapid.T, c *core.Case) {
		k, u := genPanicProgram(t)
		c.Set(k)
		key, what, skip := checkPanic(k)
		if skip != "" {
			if strings.HasPrefix(skip, "unusable") {
				unusable++
				s.Counter("inconclusive_run", 1)
				fmt.Fprintf(os.Stderr, "UNUSABLE: %s\n", tail(skip, 400))
			} else {
				rejected++
				s.Counter("rejected_generator_or_model", 1)
				fmt.Fprintf(os.Stderr, "REJECTED: %s\n--- source\n%s\n---\n", skip, k.Src)
				s.Note("rejected case: " + tail(skip, 300))
			}
			c.Class("skipped")
			return
		}
		if strings.HasSuffix(k.Name, ".wz") {
			c.Class("syntax/wz")
		} else {
			c.Class("syntax/wa")
		}
		c.Class("msg/" + k.Form)
		if k.Depth >= 3 {
			c.Class("depth>=3")
		} else {
			c.Class(fmt.Sprintf("depth=%d", k.Depth))
		}
		for _, w := range u.Wrappers {
			c.Class("wrapper/" + w)
		}
		if len(u.Wrappers) > 0 {
			c.Class("innermost/" + u.Wrappers[len(u.Wrappers)-1])
		}
		lines := strings.Split(k.Src, "\n")
		if pre := lines[k.Line-1][:k.Col-1]; len(pre) != utf8.RuneCountInString(pre) {
			c.Class("multibyte-before-call-on-line")
		}
		if key != "" {
			c.Fail(key, "%s", what)
		}
		if k.Depth >= 2 && k.Line > 5 {
			c.Nontrivial(k.Src)
		}
	})
	if rejected > 0 {
		t.Errorf("HARNESS: %d generated programs were rejected (generator or model defect) - inconclusive", rejected)
	}
	if unusable > 2 {
		t.Errorf("HARNESS: %d runs were unusable - inconclusive", unusable)
	}
}

// ================================================================ replay

func replay(test string, raw json.RawMessage) (string, string) {
	switch test {
	case "PanicPosition":
		var k panicCase
		if err := json.Unmarshal(raw, &k); err != nil {
			return "harness/bad-replay", err.Error()
		}
		defer func() {
			if worker != nil {
				worker.Close()
				worker = nil
			}
		}()
		key, what, _ := checkPanic(k)
		return key, what
	case "AssertPosition":
		key, what := replayAssert(raw)
		return key, what
	case "PositionMapping":
		var k setCase
		if err := json.Unmarshal(raw, &k); err != nil {
			return "harness/bad-replay", err.Error()
		}
		return checkMapping(k.Files)
	default:
		var k setCase
		if err := json.Unmarshal(raw, &k); err != nil {
			return "harness/bad-replay", err.Error()
		}
		return checkJSON(k)
	}
}

func TestReplay(t *testing.T) { core.RunReplays(t, prop, replay) }

func tail(s string, n int) string {
	if len(s) > n {
		return s[:n] + "…"
	}
	return s
}
