// Package mini is a small self-contained generator of valid-by-construction Wa
// programs (both the English `.wa` and the Chinese `.wz` syntax) used by the
// C23 / C29 / C30 checks.  A generated *unit* is one entry function plus the
// helper declarations it needs; somewhere on its (statically known) execution
// path sits one caller-supplied *site* statement (a panic, an exit call, a
// trapping expression, a plain println …) wrapped in a drawn nest of blocks,
// ifs, loops, switches, closures, helper calls, method calls and deferred
// closures.  The generator also *interprets* the unit, so it knows every line
// the program prints before the site is reached (or until it returns), and it
// tracks the exact line / byte column at which the site statement is rendered.
//
// The language subset is deliberately tiny (i32 arithmetic on one global,
// println of string and i32 values): the checks that use it are about where
// and how a program ends, not about expression semantics.
package mini

import (
	"fmt"
	"strings"

	"pgregory.net/rapid"
)

// Site is the caller-supplied statement placed on the execution path.
type Site struct {
	Wa, Wz   string   // single-line statement text per syntax
	Terminal bool     // execution never continues past it
	Prints   []string // lines the site itself prints when executed (before terminating, if Terminal)
}

// Opts configure one unit.
type Opts struct {
	Wz       bool     // render the Chinese syntax
	ID       string   // suffix that makes the unit's top-level names unique within a package
	Entry    string   // name of the entry function (e.g. "main", "主控", "TestFoo")
	Tail     []string // extra lines appended to the entry function body (rendered by the caller, e.g. Output comments)
	MaxDepth int      // maximum number of wrappers around the site (0..)
	Site     Site
	// TailFn, when set, is called with the interpreted unit (Out, Reached, Depth,
	// Wrappers are valid; nothing is rendered yet) and returns further lines for
	// the end of the entry function body (e.g. an expected-output comment).
	TailFn func(u *Unit) []string
	// Quiet: nothing is printed before the site is reached.
	Quiet bool
}

// Chunk is one top-level declaration group.
type Chunk []string

// Unit is a generated unit and its model.
type Unit struct {
	Chunks    []Chunk  // in textual order
	SiteChunk int      // index of the chunk holding the site
	SiteLine  int      // 0-based line inside that chunk
	SiteCol   int      // 1-based byte column where the site statement starts
	Out       []string // model: lines printed, in order, until the terminal site / normal return
	Reached   bool     // model: the site was executed
	Depth     int      // wrappers around the site
	Wrappers  []string // their kinds, outermost first
	Lines     int
}

// Text joins chunks (separated by one blank line) and returns the text together
// with the 1-based line of the site, given the number of lines that precede
// the first chunk.
func (u *Unit) Text(linesBefore int) (text string, siteLine int) {
	var sb strings.Builder
	line := linesBefore
	for i, c := range u.Chunks {
		if i == u.SiteChunk {
			siteLine = line + u.SiteLine + 1
		}
		for _, l := range c {
			sb.WriteString(l)
			sb.WriteByte('\n')
		}
		sb.WriteByte('\n')
		line += len(c) + 1
	}
	return sb.String(), siteLine
}

// ---------------------------------------------------------------- AST

type node struct {
	k      string
	lit    string // print literal / comment text
	op     string
	c, c2  int32
	n      int
	body   []*node
	alt    []*node
	neg    bool
	pre    int  // site: same-line prefix kind
	suf    bool // site: trailing comment
	onPath bool
}

type gen struct {
	t       *rapid.T
	o       Opts
	nvar    int
	quietDf bool
}

// Literals are at least two bytes long on purpose: the compiler pools constant
// strings by searching the whole data segment, including the storage of
// mutable globals, so a one-byte literal such as "-" can alias the global
// counter while it holds 45 (a miscompilation outside the scope of the checks
// that use this generator; reported separately).
var lits = []string{"aa", "bb", "hello", "x y", "凹语言", "ok", "--", "line 1", "e=mc2", "日本"}

func (g *gen) simple(label string) *node {
	switch rapid.IntRange(0, 5).Draw(g.t, label) {
	case 0, 1:
		return &node{k: "print", lit: rapid.SampledFrom(lits).Draw(g.t, "lit")}
	case 2:
		return &node{k: "printg"}
	case 3:
		return &node{k: "upd", op: rapid.SampledFrom([]string{"mul", "add", "xor", "sub"}).Draw(g.t, "uop"),
			c: int32(rapid.IntRange(1, 9).Draw(g.t, "uc"))}
	case 4:
		g.nvar++
		return &node{k: "calc", n: g.nvar, op: rapid.SampledFrom([]string{"+", "-", "*", "^", "&", "|"}).Draw(g.t, "cop"),
			c: int32(rapid.IntRange(1, 1000).Draw(g.t, "cc"))}
	default:
		if rapid.Bool().Draw(g.t, "blank") {
			return &node{k: "blank"}
		}
		return &node{k: "comment", lit: rapid.SampledFrom([]string{"note", "注释 comment", "TODO: 多字节", "x"}).Draw(g.t, "ctext")}
	}
}

func (g *gen) simples(lo, hi int, label string, quiet bool) []*node {
	n := rapid.IntRange(lo, hi).Draw(g.t, label)
	var out []*node
	for i := 0; i < n; i++ {
		s := g.simple("s")
		if (quiet || g.o.Quiet) && (s.k == "print" || s.k == "printg" || s.k == "calc") {
			s = &node{k: "upd", op: "add", c: 1}
		}
		out = append(out, s)
	}
	return out
}

var pathKinds = []string{"block", "if", "for", "forbreak", "switch", "iife", "closure", "call", "method", "defer"}
var offKinds = []string{"ifdyn", "for", "iife", "defer", "call", "swdyn"}

// kinds that print nothing by themselves (used when Opts.Quiet)
var quietPathKinds = []string{"block", "if", "forbreak", "switch", "iife", "defer"}
var quietOffKinds = []string{"ifdyn", "iife", "defer"}

// offPath makes a small compound statement that is not on the site path.
func (g *gen) offPath() *node {
	kinds := offKinds
	if g.o.Quiet {
		kinds = quietOffKinds
	}
	k := rapid.SampledFrom(kinds).Draw(g.t, "offkind")
	n := &node{k: k}
	quiet := k == "defer" && g.quietDf
	n.body = g.simples(1, 2, "offn", quiet)
	switch k {
	case "ifdyn":
		n.alt = g.simples(0, 2, "offalt", false)
	case "swdyn":
		n.alt = g.simples(1, 1, "offalt", false)
	case "for":
		n.n = rapid.IntRange(1, 3).Draw(g.t, "iters")
		g.nvar++
		n.c = int32(g.nvar)
	case "call":
		g.nvar++
		n.n = g.nvar
		n.c = int32(rapid.IntRange(1, 9).Draw(g.t, "retc"))
		n.c2 = int32(rapid.IntRange(0, 99).Draw(g.t, "argc"))
	}
	return n
}

// path builds the statements of one level on the way to the site.
func (g *gen) path(depth int, wr *[]string) []*node {
	var out []*node
	out = append(out, g.simples(0, 3, "npre", false)...)
	if rapid.IntRange(0, 3).Draw(g.t, "offbefore") == 0 {
		out = append(out, g.offPath())
	}
	if depth <= 0 {
		out = append(out, &node{k: "site", onPath: true, pre: rapid.IntRange(0, 3).Draw(g.t, "sitepre"), suf: rapid.Bool().Draw(g.t, "sitesuf")})
	} else {
		kinds := pathKinds
		if g.o.Quiet {
			kinds = quietPathKinds
		}
		k := rapid.SampledFrom(kinds).Draw(g.t, "wrap")
		*wr = append(*wr, k)
		n := &node{k: k, onPath: true}
		switch k {
		case "if":
			n.op = rapid.SampledFrom([]string{"yes", "notno", "else"}).Draw(g.t, "cond")
			if n.op == "else" || rapid.Bool().Draw(g.t, "withalt") {
				n.alt = g.simples(1, 2, "altn", false)
			}
		case "for":
			n.n = rapid.IntRange(1, 3).Draw(g.t, "iters")
			g.nvar++
			n.c = int32(g.nvar)
		case "switch":
			n.alt = g.simples(1, 1, "altn", false)
		case "closure", "call", "method":
			g.nvar++
			n.n = g.nvar
			n.c = int32(rapid.IntRange(1, 9).Draw(g.t, "retc"))
			n.c2 = int32(rapid.IntRange(0, 99).Draw(g.t, "argc"))
		}
		n.body = g.path(depth-1, wr)
		out = append(out, n)
	}
	if rapid.IntRange(0, 3).Draw(g.t, "offafter") == 0 {
		out = append(out, g.offPath())
	}
	out = append(out, g.simples(0, 2, "npost", false)...)
	return out
}

// ---------------------------------------------------------------- rendering

type emitter struct {
	lines  []string
	indent int
}

type renderer struct {
	o      Opts
	ind    string
	chunks []*emitter
	cur    *emitter
	siteEm *emitter
	siteLn int
	siteCl int
	gname  string
}

func (r *renderer) w(format string, a ...interface{}) {
	r.cur.lines = append(r.cur.lines, strings.Repeat(r.ind, r.cur.indent)+fmt.Sprintf(format, a...))
}
func (r *renderer) raw(s string) { r.cur.lines = append(r.cur.lines, s) }

// kw picks the keyword / spelling for the current syntax.
func (r *renderer) kw(wa, wz string) string {
	if r.o.Wz {
		return wz
	}
	return wa
}

func (r *renderer) open(headWa, headWz string) {
	if r.o.Wz {
		r.w("%s:", headWz)
	} else {
		r.w("%s {", headWa)
	}
	r.cur.indent++
}
func (r *renderer) close(tail string) {
	r.cur.indent--
	r.w("%s%s", r.kw("}", "完毕"), tail)
}
func (r *renderer) println(args string) { r.w("%s(%s)", r.kw("println", "输出"), args) }
func (r *renderer) i32() string          { return r.kw("i32", "普整型") }
func (r *renderer) dot() string          { return r.kw(".", "·") }

func (r *renderer) name(base string, n int) string { return fmt.Sprintf("%s%d%s", base, n, r.o.ID) }

func (r *renderer) updText(n *node) string {
	g := r.gname
	switch n.op {
	case "mul":
		return fmt.Sprintf("%s = (%s*%d + 1) & 0xffff", g, g, n.c)
	case "add":
		return fmt.Sprintf("%s += %d", g, n.c)
	case "xor":
		return fmt.Sprintf("%s ^= %d", g, n.c)
	}
	return fmt.Sprintf("%s -= %d", g, n.c)
}

// newTop starts a new top-level chunk and returns the emitter to restore.
func (r *renderer) newTop() *emitter {
	old := r.cur
	r.cur = &emitter{}
	r.chunks = append(r.chunks, r.cur)
	return old
}

func (r *renderer) body(ns []*node) {
	for _, n := range ns {
		r.node(n)
	}
}

func (r *renderer) funcSig() string {
	return fmt.Sprintf("(a: %s) => %s", r.i32(), r.i32())
}

func (r *renderer) node(n *node) {
	switch n.k {
	case "blank":
		r.raw("")
	case "comment":
		if r.o.Wz && len(n.lit)%2 == 0 {
			r.w("注: %s", n.lit)
		} else {
			r.w("// %s", n.lit)
		}
	case "print":
		r.println(fmt.Sprintf("%q", n.lit))
	case "printg":
		r.println(fmt.Sprintf("\"g\", %s", r.gname))
	case "upd":
		r.w("%s", r.updText(n))
	case "calc":
		v := r.name("v", n.n)
		r.w("%s := %s %s %d", v, r.gname, n.op, n.c)
		r.println(fmt.Sprintf("%q, %s", "v", v))
	case "block":
		if r.o.Wz {
			r.w("区块:")
		} else {
			r.w("{")
		}
		r.cur.indent++
		r.body(n.body)
		r.close("")
	case "if":
		cond := map[string]string{"yes": "yes" + r.o.ID, "notno": "!no" + r.o.ID, "else": "no" + r.o.ID}[n.op]
		first, second := n.body, n.alt
		if n.op == "else" {
			first, second = n.alt, n.body
		}
		r.open("if "+cond, "如果 "+cond)
		r.body(first)
		if second != nil {
			r.cur.indent--
			if r.o.Wz {
				r.w("否则:")
			} else {
				r.w("} else {")
			}
			r.cur.indent++
			r.body(second)
		}
		r.close("")
	case "ifdyn":
		cond := r.gname + "&1 == 0"
		r.open("if "+cond, "如果 "+cond)
		r.body(n.body)
		if n.alt != nil {
			r.cur.indent--
			if r.o.Wz {
				r.w("否则:")
			} else {
				r.w("} else {")
			}
			r.cur.indent++
			r.body(n.alt)
		}
		r.close("")
	case "for":
		i := r.name("i", int(n.c))
		h := fmt.Sprintf("%s := 0; %s < %d; %s++", i, i, n.n, i)
		r.open("for "+h, "循环 "+h)
		r.println(fmt.Sprintf("%q, %s", "i", i))
		r.body(n.body)
		r.close("")
	case "forbreak":
		r.open("for", "循环")
		r.body(n.body)
		r.w("%s", r.kw("break", "跳出"))
		r.close("")
	case "switch", "swdyn":
		tag := "sel" + r.o.ID
		if n.k == "swdyn" {
			tag = r.gname + " & 3"
		}
		r.open("switch "+tag, "找辙 "+tag)
		r.cur.indent--
		r.w("%s 1:", r.kw("case", "有辙"))
		r.cur.indent++
		r.body(n.alt)
		r.cur.indent--
		r.w("%s 2:", r.kw("case", "有辙"))
		r.cur.indent++
		r.body(n.body)
		r.cur.indent--
		r.w("%s:", r.kw("default", "没辙"))
		r.cur.indent++
		r.println(`"default"`)
		r.close("")
	case "iife":
		r.open("func()", "函数()")
		r.body(n.body)
		r.close("()")
	case "defer":
		r.open("defer func()", "押后 函数()")
		r.body(n.body)
		r.close("()")
	case "closure":
		f := r.name("f", n.n)
		r.open(f+" := func"+r.funcSig(), f+" := 函数"+r.funcSig())
		r.body(n.body)
		r.w("%s a + %d", r.kw("return", "返回"), n.c)
		r.close("")
		r.println(fmt.Sprintf("%q, %s(%d)", "f", f, n.c2))
	case "call":
		h := r.name("h", n.n)
		old := r.newTop()
		r.open("func "+h+r.funcSig(), "函数·"+h+r.funcSig())
		r.body(n.body)
		r.w("%s a * %d", r.kw("return", "返回"), n.c)
		r.close("")
		r.cur = old
		r.println(fmt.Sprintf("%q, %s(%d)", "h", h, n.c2))
	case "method":
		T := r.name("T", n.n)
		old := r.newTop()
		if r.o.Wz {
			r.w("结构·%s:", T)
		} else {
			r.w("type %s :struct {", T)
		}
		r.cur.indent++
		r.w("v: %s", r.i32())
		r.close("")
		r.raw("")
		r.open("func "+T+".M"+r.funcSig(), "函数·"+T+"·M"+r.funcSig())
		this := r.kw("this", "我的") + r.dot() + "v"
		r.println(fmt.Sprintf("%q, %s", "this.v", this))
		r.body(n.body)
		r.w("%s %s + a", r.kw("return", "返回"), this)
		r.close("")
		r.cur = old
		o := r.name("o", n.n)
		r.w("%s := &%s{v: %d}", o, T, n.c)
		r.println(fmt.Sprintf("%q, %s%sM(%d)", "o", o, r.dot(), n.c2))
	case "site":
		pre := ""
		switch n.pre {
		case 1:
			pre = "/* 注释 c */ "
		case 2:
			pre = r.gname + " += 1; "
		case 3:
			pre = `_ = "字符串"; `
		}
		stmt := r.o.Site.Wa
		if r.o.Wz {
			stmt = r.o.Site.Wz
		}
		suf := ""
		if n.suf {
			suf = " // 尾注 trailing"
		}
		lead := strings.Repeat(r.ind, r.cur.indent) + pre
		r.siteEm, r.siteLn, r.siteCl = r.cur, len(r.cur.lines), len(lead)+1
		r.raw(lead + stmt + suf)
	default:
		panic("mini: unknown node " + n.k)
	}
}

// ---------------------------------------------------------------- model interpreter

type interp struct {
	site    Site
	g       int32
	out     []string
	dead    bool
	reached bool
	steps   int
}

type frame struct{ defers [][]*node }

func (in *interp) print(parts ...interface{}) {
	s := make([]string, len(parts))
	for i, p := range parts {
		s[i] = fmt.Sprint(p)
	}
	in.out = append(in.out, strings.Join(s, " "))
}

// fn runs a function-like body in a fresh frame, then its deferred closures.
func (in *interp) fn(body []*node) {
	fr := &frame{}
	in.run(body, fr)
	for i := len(fr.defers) - 1; i >= 0 && !in.dead; i-- {
		in.fn(fr.defers[i])
	}
}

func (in *interp) upd(n *node) {
	switch n.op {
	case "mul":
		in.g = (in.g*n.c + 1) & 0xffff
	case "add":
		in.g += n.c
	case "xor":
		in.g ^= n.c
	default:
		in.g -= n.c
	}
}

// run returns true when a break left the innermost loop.
func (in *interp) run(ns []*node, fr *frame) {
	for _, n := range ns {
		if in.dead {
			return
		}
		in.steps++
		switch n.k {
		case "blank", "comment":
		case "print":
			in.print(n.lit)
		case "printg":
			in.print("g", in.g)
		case "upd":
			in.upd(n)
		case "calc":
			var v int32
			switch n.op {
			case "+":
				v = in.g + n.c
			case "-":
				v = in.g - n.c
			case "*":
				v = in.g * n.c
			case "^":
				v = in.g ^ n.c
			case "&":
				v = in.g & n.c
			case "|":
				v = in.g | n.c
			}
			in.print("v", v)
		case "block", "forbreak":
			in.run(n.body, fr)
		case "if":
			in.run(n.body, fr) // body is always the taken branch
		case "ifdyn":
			if in.g&1 == 0 {
				in.run(n.body, fr)
			} else {
				in.run(n.alt, fr)
			}
		case "for":
			for i := 0; i < n.n && !in.dead; i++ {
				in.print("i", i)
				in.run(n.body, fr)
			}
		case "switch":
			in.run(n.body, fr)
		case "swdyn":
			switch in.g & 3 {
			case 1:
				in.run(n.alt, fr)
			case 2:
				in.run(n.body, fr)
			default:
				in.print("default")
			}
		case "iife":
			in.fn(n.body)
		case "defer":
			fr.defers = append(fr.defers, n.body)
		case "closure":
			in.fn(n.body)
			if !in.dead {
				in.print("f", n.c2+n.c)
			}
		case "call":
			in.fn(n.body)
			if !in.dead {
				in.print("h", n.c2*n.c)
			}
		case "method":
			in.print("this.v", n.c)
			in.fn(n.body)
			if !in.dead {
				in.print("o", n.c+n.c2)
			}
		case "site":
			if n.pre == 2 {
				in.g++
			}
			in.reached = true
			in.out = append(in.out, in.site.Prints...)
			if in.site.Terminal {
				in.dead = true
			}
		}
	}
}

// ---------------------------------------------------------------- entry point

// Gen draws one unit.
func Gen(t *rapid.T, o Opts) *Unit {
	g := &gen{t: t, o: o, quietDf: o.Site.Terminal}
	depth := rapid.IntRange(0, o.MaxDepth).Draw(t, "depth")
	var wr []string
	body := g.path(depth, &wr)
	g0 := int32(rapid.IntRange(0, 50).Draw(t, "g0"))
	r := &renderer{o: o, ind: rapid.SampledFrom([]string{"\t", "    ", "  "}).Draw(t, "indent")}
	r.gname = rapid.SampledFrom([]string{"g", "计数", "cnt_"}).Draw(t, "gname") + o.ID
	helpersFirst := rapid.Bool().Draw(t, "helpersFirst")

	// globals chunk
	r.newTop()
	if o.Wz {
		r.w("全局·%s: 普整型 = %d", r.gname, g0)
		r.w("全局·yes%s: 布尔 = 真", o.ID)
		r.w("全局·no%s: 布尔 = 假", o.ID)
		r.w("全局·sel%s: 普整型 = 2", o.ID)
	} else {
		r.w("global %s: i32 = %d", r.gname, g0)
		r.w("global yes%s: bool = true", o.ID)
		r.w("global no%s: bool = false", o.ID)
		r.w("global sel%s: i32 = 2", o.ID)
	}
	// model first (the tail of the entry function may depend on it)
	u := &Unit{Depth: depth, Wrappers: wr, SiteChunk: -1}
	in := &interp{site: o.Site, g: g0}
	in.fn(body)
	u.Out, u.Reached = in.out, in.reached
	tail := o.Tail
	if o.TailFn != nil {
		tail = append(append([]string{}, tail...), o.TailFn(u)...)
	}

	// entry chunk
	r.newTop()
	entry := r.cur
	r.open("func "+o.Entry, "函数·"+o.Entry)
	r.body(body)
	for _, l := range tail {
		if l == "" {
			r.raw("")
		} else {
			r.w("%s", l)
		}
	}
	r.close("")

	// order: globals, then entry and helpers
	ems := r.chunks
	if helpersFirst && len(ems) > 2 {
		// move entry (index 1) to the end
		re := []*emitter{ems[0]}
		re = append(re, ems[2:]...)
		re = append(re, entry)
		ems = re
	}
	for i, e := range ems {
		u.Chunks = append(u.Chunks, Chunk(e.lines))
		u.Lines += len(e.lines)
		if e == r.siteEm {
			u.SiteChunk, u.SiteLine, u.SiteCol = i, r.siteLn, r.siteCl
		}
	}
	return u
}
