package mini

import (
	"os"
	"os/exec"
	"path/filepath"
	"strings"
	"testing"

	"pgregory.net/rapid"
)

// Smoke test of the generator against a real `wa` binary (MINI_WA=<path>); skipped otherwise.
func TestSmoke(t *testing.T) {
	wa := os.Getenv("MINI_WA")
	if wa == "" {
		t.Skip("MINI_WA not set")
	}
	n, bad := 0, 0
	rapid.Check(t, func(rt *rapid.T) {
		wz := rapid.Bool().Draw(rt, "wz")
		o := Opts{Wz: wz, Entry: "main", MaxDepth: 5, Site: Site{Wa: `println("site")`, Wz: `输出("site")`, Prints: []string{"site"}}}
		if wz {
			o.Entry = "主控"
		}
		if rapid.Bool().Draw(rt, "term") {
			o.Site = Site{Wa: `panic("boom")`, Wz: `崩溃("boom")`, Terminal: true}
		}
		u := Gen(rt, o)
		src, line := u.Text(0)
		dir, _ := os.MkdirTemp("", "mini")
		defer os.RemoveAll(dir)
		name := "p.wa"
		if wz {
			name = "p.wz"
		}
		os.WriteFile(filepath.Join(dir, name), []byte(src), 0o644)
		cmd := exec.Command(wa, "run", name)
		cmd.Dir = dir
		out, _ := cmd.Output()
		want := strings.Join(u.Out, "\n")
		if len(u.Out) > 0 {
			want += "\n"
		}
		got := string(out)
		n++
		if o.Site.Terminal {
			if !strings.HasPrefix(got, want) || !strings.Contains(got[len(want):], "panic: boom") {
				bad++
				rt.Fatalf("mismatch (terminal) site=%d:%d\n--- src\n%s\n--- got\n%s\n--- want prefix\n%s", line, u.SiteCol, src, got, want)
			}
			return
		}
		if got != want {
			bad++
			rt.Fatalf("mismatch\n--- src\n%s\n--- got\n%s\n--- want\n%s", src, got, want)
		}
	})
	t.Logf("programs=%d bad=%d", n, bad)
}
