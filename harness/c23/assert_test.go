package c23

// TestAssertPosition: the position reported by a failing `assert` in unit-test
// mode (`wa test`) is the position of the assert call - also when the call is
// deferred, sits in a closure or in a helper function.  (`assert` is only
// predeclared in test mode, so the real `wa test` command is run.)

import (
	"bytes"
	"context"
	"encoding/json"
	"fmt"
	"os"
	"os/exec"
	"path/filepath"
	"regexp"
	"strings"
	"testing"
	"time"

	"pgregory.net/rapid"

	"wa-lang.org/wa/zverif/harness/core"
	"wa-lang.org/wa/zverif/harness/wk"
)

type assertCase struct {
	File     string `json:"file"` // name of the test file inside src/
	Src      string `json:"src"`
	Wz       bool   `json:"wz"`
	Form     string `json:"form"`
	Msg      string `json:"msg"`
	HasMsg   bool   `json:"has_msg"`
	Line     int    `json:"line"`
	Col      int    `json:"col"` // 1-based byte column of the first byte of `assert`
	CalleeLn int    `json:"callee_len"`
}

var assertForms = []string{"direct", "defer", "defer-closure", "helper-direct", "helper-defer", "closure-call", "method-defer"}

func genAssertCase(t *rapid.T) assertCase {
	wz := rapid.Bool().Draw(t, "wz")
	form := rapid.SampledFrom(assertForms).Draw(t, "form")
	kw := func(wa, wzs string) string {
		if wz {
			return wzs
		}
		return wa
	}
	assert_ := kw("assert", "断言")
	defer_ := kw("defer", "押后")
	hasMsg := rapid.Bool().Draw(t, "hasmsg")
	msg := rapid.SampledFrom([]string{"boom", "invalid state", "出错了", "x: y", "50% done"}).Draw(t, "msg")
	indent := rapid.SampledFrom([]string{"\t", "\t\t", "  ", "    ", "\t "}).Draw(t, "indent")
	// something in front of the statement on the same line (shifts the byte column)
	pre := rapid.SampledFrom([]string{"", "", kw(`println("é→"); `, `输出("é→"); `), "计数器 += 1; ", "/* 注释 */ "}).Draw(t, "pre")
	cond := rapid.SampledFrom([]string{"noE", "计数器 == 12345", "!yesE", "noE && yesE"}).Draw(t, "cond")
	call := assert_ + "(" + cond
	if hasMsg {
		call += fmt.Sprintf(", %q", msg)
	}
	call += ")"

	var lines []string
	nhead := rapid.IntRange(0, 3).Draw(t, "nheader")
	for i := 0; i < nhead; i++ {
		if wz {
			lines = append(lines, "注: 头部 header 行")
		} else {
			lines = append(lines, "// 头部 header line")
		}
	}
	if wz {
		lines = append(lines, "全局·noE: 布尔 = 假", "全局·yesE: 布尔 = 真", "全局·计数器: 整型 = 0", "")
	} else {
		lines = append(lines, "global noE: bool = false", "global yesE: bool = true", "global 计数器: int = 0", "")
	}
	fn := func(name string, body ...string) {
		if wz {
			lines = append(lines, "函数·"+name+":")
			lines = append(lines, body...)
			lines = append(lines, "完毕", "")
		} else {
			lines = append(lines, "func "+name+" {")
			lines = append(lines, body...)
			lines = append(lines, "}", "")
		}
	}
	// the statement holding the assert call, and the byte offset of `assert` in it
	var stmt string
	switch form {
	case "direct", "helper-direct":
		stmt = call
	case "defer", "helper-defer", "method-defer":
		stmt = defer_ + " " + call
	case "defer-closure":
		stmt = kw("defer func() { "+call+" }()", "押后 函数() { "+call+" }()")
	case "closure-call":
		stmt = kw("func() { "+call+" }()", "函数() { "+call+" }()")
	}
	site := []string{indent + pre + stmt}
	siteOff := 0 // index of the line in site that holds the assert call
	col := len(indent) + len(pre) + strings.Index(stmt, assert_) + 1
	if wz && (form == "defer-closure" || form == "closure-call") {
		// a 凹中文 function literal is a block: `函数():` … `完毕()`
		open := "函数():"
		if form == "defer-closure" {
			open = "押后 函数():"
		}
		site = []string{indent + open, indent + "\t" + pre + call, indent + "完毕()"}
		siteOff = 1
		col = len(indent) + 1 + len(pre) + 1
	}
	before := kw(`	println("before")`, `	输出("before")`)
	after := kw(`	println("after-site")`, `	输出("after-site")`)
	testName := kw("TestPos", "测Pos功能")
	with := func(pre []string, post ...string) []string {
		return append(append(append([]string{}, pre...), site...), post...)
	}
	var line int
	switch form {
	case "helper-direct", "helper-defer":
		line = len(lines) + 2 + siteOff
		fn("helperE()", with(nil, after)...)
		fn(testName, before, "\thelperE()")
	case "method-defer":
		if wz {
			lines = append(lines, "结构·TE:", "\tv: 普整型", "完毕", "")
			line = len(lines) + 2 + siteOff
			fn("TE.check()", with(nil, after)...)
			fn(testName, before, "\t设定 x: TE", "\tx.check()")
		} else {
			lines = append(lines, "type TE struct {", "\tv: i32", "}", "")
			line = len(lines) + 2 + siteOff
			fn("TE.check()", with(nil, after)...)
			fn(testName, before, "\tx: TE", "\tx.check()")
		}
	default:
		line = len(lines) + 3 + siteOff
		fn(testName, with([]string{before}, after)...)
	}
	ext := kw(".wa", ".wz")
	file := rapid.SampledFrom([]string{"pos_test", "a_b_test", "lib_test"}).Draw(t, "file") + ext
	return assertCase{File: file, Src: strings.Join(lines, "\n"), Wz: wz, Form: form, Msg: msg, HasMsg: hasMsg,
		Line: line, Col: col, CalleeLn: len(assert_)}
}

var assertLineRe = regexp.MustCompile(`(?m)^\s*assert failed(?:: (.*))? \(([^()]*):(\d+):(\d+)\)\s*$`)

func runAssertCase(k assertCase) (stdout string, status int, unusable string) {
	dir, err := os.MkdirTemp("", "c23a-")
	if err != nil {
		return "", 0, "mkdtemp: " + err.Error()
	}
	defer os.RemoveAll(dir)
	ext := ".wa"
	mainSrc := "// main package\n\nfunc main {\n\tprintln(\"main\")\n}\n"
	if k.Wz {
		ext = ".wz"
		mainSrc = "注: 主包\n\n函数·主控:\n\t输出(\"main\")\n完毕\n"
	}
	files := map[string]string{
		"wa.mod":         "name = \"gen\"\npkgpath = \"gen\"\nversion = \"0.0.1\"\n",
		"src/main" + ext: mainSrc,
		"src/" + k.File:  k.Src,
	}
	for rel, content := range files {
		p := filepath.Join(dir, filepath.FromSlash(rel))
		os.MkdirAll(filepath.Dir(p), 0o755)
		if err := os.WriteFile(p, []byte(content), 0o644); err != nil {
			return "", 0, "write: " + err.Error()
		}
	}
	ctx, cancel := context.WithTimeout(context.Background(), 10*time.Minute) // backstop only; hitting it is inconclusive
	defer cancel()
	cmd := exec.CommandContext(ctx, wk.BinPath("wa"), "test")
	cmd.Dir = dir
	var so bytes.Buffer
	cmd.Stdout, cmd.Stderr = &so, &so
	err = cmd.Run()
	if ctx.Err() != nil {
		return so.String(), 0, "time limit"
	}
	if err != nil {
		ee, ok := err.(*exec.ExitError)
		if !ok {
			return so.String(), 0, "exec: " + err.Error()
		}
		status = ee.ExitCode()
		if status < 0 {
			return so.String(), status, "killed by signal"
		}
	}
	return so.String(), status, ""
}

func checkAssert(k assertCase) (key, what, skip string) {
	out, _, unusable := runAssertCase(k)
	if unusable != "" {
		return "", "", "unusable: " + unusable
	}
	if !strings.Contains(out, "before") {
		return "", "", "generator: the test function did not run: " + tail(out, 400)
	}
	ms := assertLineRe.FindAllStringSubmatch(out, -1)
	if len(ms) != 1 {
		return "", "", fmt.Sprintf("model: expected exactly one `assert failed` line, got %d: %s", len(ms), tail(out, 400))
	}
	m := ms[0]
	if k.HasMsg && m[1] != k.Msg {
		return "", "", fmt.Sprintf("model: assert message %q, modelled %q", m[1], k.Msg)
	}
	got := fmt.Sprintf("%s:%s:%s", m[2], m[3], m[4])
	atCallee := fmt.Sprintf("%s:%d:%d", k.File, k.Line, k.Col)
	atParen := fmt.Sprintf("%s:%d:%d", k.File, k.Line, k.Col+k.CalleeLn)
	if got == atCallee || got == atParen {
		return "", "", ""
	}
	var line, col int
	fmt.Sscan(m[3], &line)
	fmt.Sscan(m[4], &col)
	switch {
	case m[2] != k.File:
		key = "assert-pos/wrong-file"
	case line != k.Line:
		key = "assert-pos/wrong-line"
	default:
		key = "assert-pos/wrong-column"
	}
	key += "/" + k.Form
	return key, fmt.Sprintf("assert call at %s (its `(` at column %d) is reported as %q; test file:\n%s", atCallee, k.Col+k.CalleeLn, got, k.Src), ""
}

func TestAssertPosition(t *testing.T) {
	s := core.NewStats(prop, "AssertPosition")
	s.Rule("rapid: one-function unit-test packages (.wa or .wz, drawn) whose test function fails an `assert` (with or without message; drawn condition over globals) written in a drawn form - direct call, `defer assert(…)`, inside a deferred closure, inside an immediately called closure, directly or deferred inside a helper function or a method - on a line with drawn indentation (tabs/spaces) and optionally preceded on the same line by a statement or comment containing multi-byte runes, after 0..3 header lines; the real `wa test` is run on the package; oracle: the single `assert failed[: msg] (<file>:<line>:<col>)` line names the test file, the generator's line and col = byte column of the assert call (its first byte, or its opening parenthesis); non-trivial = the call is deferred or not in the test function itself, or is preceded by multi-byte text on its line")
	s.Assume("a package whose test function does not start (no `before` line) or that prints no or several assert lines is counted as rejected, never as a violation")
	var rejected, unusable int64
	s.Check(t, func(t *rapid.T, c *core.Case) {
		k := genAssertCase(t)
		c.Set(k)
		key, what, skip := checkAssert(k)
		if skip != "" {
			if strings.HasPrefix(skip, "unusable") {
				unusable++
				s.Counter("inconclusive_run", 1)
			} else {
				rejected++
				s.Counter("rejected_generator_or_model", 1)
				fmt.Fprintf(os.Stderr, "REJECTED: %s\n--- source\n%s\n---\n", skip, k.Src)
				s.Note("rejected case: " + tail(skip, 300))
			}
			c.Class("skipped")
			return
		}
		c.Class("form/" + k.Form)
		if k.Wz {
			c.Class("syntax/wz")
		} else {
			c.Class("syntax/wa")
		}
		if k.HasMsg {
			c.Class("with-message")
		}
		if key != "" {
			c.Fail(key, "%s", what)
		}
		if k.Form != "direct" || strings.ContainsAny(lineOf(k.Src, k.Line), "é注计") {
			c.Nontrivial(k.Src)
		}
	})
	if rejected > 0 {
		t.Errorf("HARNESS: %d generated packages were rejected (generator or model defect) - inconclusive", rejected)
	}
	if unusable > 2 {
		t.Errorf("HARNESS: %d runs were unusable (time limit / signal) - inconclusive", unusable)
	}
}

func lineOf(src string, n int) string {
	ls := strings.Split(src, "\n")
	if n >= 1 && n <= len(ls) {
		return ls[n-1]
	}
	return ""
}

func replayAssert(raw json.RawMessage) (string, string) {
	var k assertCase
	if err := json.Unmarshal(raw, &k); err != nil {
		return "", "bad case: " + err.Error()
	}
	key, what, skip := checkAssert(k)
	if skip != "" {
		return "", "inconclusive: " + skip
	}
	return key, what
}
