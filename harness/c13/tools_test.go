package c13

import (
	"encoding/json"
	"os"
	"testing"

	"wa-lang.org/wa/zverif/harness/core"
)

// Developer aids (not part of the check):
//
//	VERIF_REPLAY=<file> C13_DUMP=<out.wa>   go test -run TestTools   write the rendered Wa program and its expected stdout
//	VERIF_REPLAY=<file> C13_MINIMIZE=<out>  go test -run TestTools   delta-debug the history (same failure key) into a new replay file
func TestTools(t *testing.T) {
	in := os.Getenv("VERIF_REPLAY")
	if in == "" || (os.Getenv("C13_DUMP") == "" && os.Getenv("C13_MINIMIZE") == "") {
		t.Skip("developer tool")
	}
	rf, err := core.LoadReplay(in)
	if err != nil {
		t.Fatal(err)
	}
	var h history
	if err := json.Unmarshal(rf.Case, &h); err != nil {
		t.Fatal(err)
	}
	if out := os.Getenv("C13_DUMP"); out != "" {
		src, exp, _ := h.build()
		os.WriteFile(out, []byte(src), 0o644)
		var b []byte
		for _, e := range exp {
			b = append(b, e.Text...)
			b = append(b, '\n')
		}
		os.WriteFile(out+".expected", b, 0o644)
	}
	if out := os.Getenv("C13_MINIMIZE"); out != "" {
		v := evaluate(&h)
		if v.Key == "" {
			t.Fatalf("replay does not fail")
		}
		want := v.Key
		if k := os.Getenv("C13_KEY"); k != "" {
			want = k
		}
		fails := func(c *history) bool { return evaluate(c).Key == want }
		m := minimize(&h, fails)
		v = evaluate(m)
		rf.Key, rf.What = v.Key, v.What
		rf.Case, _ = json.Marshal(m)
		data, _ := json.MarshalIndent(rf, "", " ")
		os.WriteFile(out, data, 0o644)
		t.Logf("minimized to %d keys, %d ops: %s %s", len(m.Keys), len(m.Ops), v.Key, v.What)
	}
}

// minimize: ddmin over ops, then drop unused keys (re-indexing), then simplify spellings.
func minimize(h *history, fails func(*history) bool) *history {
	cur := *h
	cur.Ops = append([]op{}, h.Ops...)
	for chunk := (len(cur.Ops) + 1) / 2; chunk >= 1; {
		removed := false
		for start := 0; start < len(cur.Ops); {
			end := start + chunk
			if end > len(cur.Ops) {
				end = len(cur.Ops)
			}
			c := cur
			c.Ops = append(append([]op{}, cur.Ops[:start]...), cur.Ops[end:]...)
			if len(c.Ops) > 0 && fails(&c) {
				cur = c
				removed = true
			} else {
				start = end
			}
		}
		if chunk == 1 && !removed {
			break
		}
		if !removed || chunk > len(cur.Ops) {
			chunk /= 2
		}
		if chunk < 1 {
			chunk = 1
		}
	}
	// drop unused keys
	used := map[int]bool{}
	for _, o := range cur.Ops {
		if o.T == "ins" || o.T == "del" || o.T == "get" || o.T == "ok" {
			used[o.K] = true
		}
	}
	c := cur
	c.Keys = nil
	remap := map[int]int{}
	for i, k := range cur.Keys {
		if used[i] {
			remap[i] = len(c.Keys)
			c.Keys = append(c.Keys, k)
		}
	}
	c.Ops = append([]op{}, cur.Ops...)
	ok := len(c.Keys) > 0
	for i := range c.Ops {
		o := &c.Ops[i]
		if o.T == "ins" || o.T == "del" || o.T == "get" || o.T == "ok" {
			o.K = remap[o.K]
		}
		if o.T == "rdel" {
			var m uint64
			for from, to := range remap {
				if o.M>>uint(from)&1 == 1 {
					m |= 1 << uint(to)
				}
			}
			o.M = m
		}
	}
	if ok && fails(&c) {
		cur = c
	}
	// plain spellings where they do not matter
	for i := range cur.Ops {
		if cur.Ops[i].Sp != "" && cur.Ops[i].Sp != "a" {
			c := cur
			c.Ops = append([]op{}, cur.Ops...)
			c.Ops[i].Sp = "a"
			if fails(&c) {
				cur = c
			}
		}
	}
	return &cur
}
