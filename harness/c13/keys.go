package c13

import (
	"encoding/hex"
	"fmt"
	"math"
	"sort"
	"strconv"
	"strings"
	"unicode/utf8"

	"pgregory.net/rapid"
)

// key is one pool entry in replayable form.  T is the (dynamic) type:
// i32 u8 i64 u64 str f64 bool struct ptr.  A map of kind "iface" has pool
// entries of mixed T; every other kind has entries whose T equals the kind.
type key struct {
	T string `json:"t"`
	I int64  `json:"i,omitempty"` // i32/i64/u8 value, bool 0/1, struct field a, ptr index (-1 = nil)
	U uint64 `json:"u,omitempty"` // u64 value, f64 bit pattern
	S string `json:"s,omitempty"` // hex of the bytes of a str key / struct field b
}

// structKey mirrors `type S :struct {a: i32; b: string}`.
type structKey struct {
	a int32
	b string
}

// ptrTargets are the Go-side stand-ins for the Wa pointer pool: identity only.
var ptrTargets [64]int

func (k key) bytes() string {
	b, _ := hex.DecodeString(k.S)
	return string(b)
}

func (k key) f64() float64 { return math.Float64frombits(k.U) }

// goKey is the value used as key of the Go model map; Go's own key equality
// (±0 equal, strings by content, structs field-wise, pointers by identity,
// interfaces by dynamic type + value) therefore defines the expected result.
// alt selects the alternative spelling (negative zero for a zero float).
func (k key) goKey(alt bool) interface{} {
	switch k.T {
	case "i32":
		return int32(k.I)
	case "u8":
		return uint8(k.I)
	case "i64":
		return k.I
	case "u64":
		return k.U
	case "str":
		return k.bytes()
	case "f64":
		f := k.f64()
		if alt && f == 0 {
			f = math.Copysign(0, -1) // the Wa program's alt() flips the sign of zero
		}
		return f
	case "bool":
		return k.I != 0
	case "struct":
		return structKey{int32(k.I), k.bytes()}
	case "ptr":
		if k.I < 0 {
			return (*int)(nil)
		}
		return &ptrTargets[k.I]
	}
	panic("bad key type " + k.T)
}

// waType is the Wa spelling of the static key type of a map kind.
func waType(kind string) string {
	switch kind {
	case "str":
		return "string"
	case "struct":
		return "S"
	case "ptr":
		return "*P"
	case "iface":
		return "interface{}"
	}
	return kind
}

func waString(s string) string {
	var b strings.Builder
	b.WriteByte('"')
	for i := 0; i < len(s); {
		c := s[i]
		if c < 0x80 {
			switch {
			case c == '"' || c == '\\':
				b.WriteByte('\\')
				b.WriteByte(c)
			case c < 0x20 || c == 0x7f:
				fmt.Fprintf(&b, "\\x%02x", c)
			default:
				b.WriteByte(c)
			}
			i++
			continue
		}
		r, n := utf8.DecodeRuneInString(s[i:])
		if r == utf8.RuneError && n <= 1 || r == 0xFEFF {
			fmt.Fprintf(&b, "\\x%02x", c)
			i++
			continue
		}
		// valid multi-byte sequence: alternate raw / escaped by position so both source forms occur
		if i%2 == 0 {
			b.WriteString(s[i : i+n])
		} else {
			for j := 0; j < n; j++ {
				fmt.Fprintf(&b, "\\x%02x", s[i+j])
			}
		}
		i += n
	}
	b.WriteByte('"')
	return b.String()
}

// lit is the Wa expression denoting the key (spelling "l").  Pointer keys
// have no literal; they are spelled through the pointer pool.
func (k key) lit() string {
	switch k.T {
	case "i32":
		return "i32(" + strconv.FormatInt(k.I, 10) + ")"
	case "u8":
		return "u8(" + strconv.FormatInt(k.I, 10) + ")"
	case "i64":
		return "i64(" + strconv.FormatInt(k.I, 10) + ")"
	case "u64":
		return "u64(" + strconv.FormatUint(k.U, 10) + ")"
	case "str":
		return waString(k.bytes())
	case "f64":
		f := k.f64()
		if f == 0 {
			return "f64(0.0)"
		}
		return "f64(" + strconv.FormatFloat(f, 'g', -1, 64) + ")"
	case "bool":
		if k.I != 0 {
			return "true"
		}
		return "false"
	case "struct":
		return "S{a: " + strconv.FormatInt(k.I, 10) + ", b: " + waString(k.bytes()) + "}"
	case "ptr":
		if k.I < 0 {
			return "pnil"
		}
		return "ps[" + strconv.FormatInt(k.I, 10) + "]"
	}
	panic("bad key type " + k.T)
}

var typeRank = map[string]int{"bool": 0, "u8": 1, "i32": 2, "i64": 3, "u64": 4, "f64": 5, "str": 6, "struct": 7, "ptr": 8}

// keyLess is the natural order used to lay the pool out so that the
// ascending / descending / zig-zag strategies are monotone in key order.
func keyLess(a, b key) bool {
	if a.T != b.T {
		return typeRank[a.T] < typeRank[b.T]
	}
	switch a.T {
	case "u64":
		return a.U < b.U
	case "f64":
		return a.f64() < b.f64()
	case "str":
		return a.bytes() < b.bytes()
	case "struct":
		if a.I != b.I {
			return a.I < b.I
		}
		return a.bytes() < b.bytes()
	}
	return a.I < b.I
}

// ---------------------------------------------------------------- generators

var kindList = []string{"i32", "u8", "i64", "u64", "str", "f64", "bool", "struct", "ptr", "iface"}

// weighted choice of the map kind (bool pools have two keys and can never be non-trivial)
var kindWeighted = []string{
	"str", "f64", "iface", "i32", "struct", "u8", "i64", "u64", "ptr", "str", "f64", "iface",
	"i32", "struct", "u8", "i64", "u64", "ptr", "bool", "str", "f64", "iface", "i32", "struct",
}

func hexOf(s string) string { return hex.EncodeToString([]byte(s)) }

var strAtoms = []string{"a", "b", "ab", "z", "A", " ", "0", "é", "日", "本", "è", "\U0001F600", "\x00", "\x7f", "k", "key", "aa"}
var strAtomsRaw = []string{"\xff", "\xfe", "\x80", "\xc3", "\xa9", "\xe6\x97", "\xf0\x9f"}

// genStr draws a byte string: built from atoms so that shared prefixes, the
// empty string, non-ASCII and (when raw) non-UTF-8 byte sequences are common.
func genStr(raw bool) *rapid.Generator[string] {
	return rapid.Custom(func(t *rapid.T) string {
		atoms := strAtoms
		if raw {
			atoms = append(append([]string{}, strAtoms...), strAtomsRaw...)
		}
		switch rapid.IntRange(0, 9).Draw(t, "sclass") {
		case 0:
			return ""
		case 1: // long run of one atom: pure shared-prefix family
			return strings.Repeat(rapid.SampledFrom([]string{"a", "ab", "é", "\x00"}).Draw(t, "rep"), rapid.IntRange(1, 12).Draw(t, "n"))
		}
		n := rapid.IntRange(1, 5).Draw(t, "natoms")
		var b strings.Builder
		for i := 0; i < n; i++ {
			b.WriteString(rapid.SampledFrom(atoms).Draw(t, "atom"))
		}
		return b.String()
	})
}

var i32Special = []int64{math.MinInt32, math.MinInt32 + 1, -65536, -256, -2, -1, 0, 1, 2, 255, 256, 65535, 65536, math.MaxInt32 - 1, math.MaxInt32}
var i64Special = []int64{math.MinInt64, math.MinInt64 + 1, -1 << 53, -1 << 32, -1<<32 - 1, -1<<31 - 1, -1 << 31, -1, 0, 1, 1<<31 - 1, 1 << 31, 1<<32 - 1, 1 << 32, 1<<32 + 1, 1 << 53, math.MaxInt64 - 1, math.MaxInt64}
var u64Special = []uint64{0, 1, 255, 1<<31 - 1, 1 << 31, 1<<32 - 1, 1 << 32, 1<<63 - 1, 1 << 63, 1<<63 + 1, math.MaxUint64 - 1, math.MaxUint64}
var f64Special = []float64{0, 1, -1, 0.5, -0.5, 1.5, 2, 3, 10, 0.1, -0.1, 1e-300, -1e-300, 1e300, -1e300, 5e-324, -5e-324,
	math.MaxFloat64, -math.MaxFloat64, math.SmallestNonzeroFloat64 * 3, 1 << 53, 1<<53 + 2, -(1 << 53), 4294967296, 2147483648, -2147483648,
	math.Nextafter(1, 2), math.Nextafter(1, 0), 3.141592653589793, 2.718281828459045, 1e21, 1e-7, 123456789.125}

// genKeyOf draws one key of dynamic type typ.  base shifts the dense integer
// window so that pools are runs of neighbouring values around a drawn origin.
func genKeyOf(typ string, base int64) *rapid.Generator[key] {
	return rapid.Custom(func(t *rapid.T) key {
		switch typ {
		case "i32":
			switch rapid.IntRange(0, 3).Draw(t, "iclass") {
			case 0:
				return key{T: typ, I: rapid.SampledFrom(i32Special).Draw(t, "special")}
			case 1:
				return key{T: typ, I: int64(rapid.Int32().Draw(t, "any"))}
			}
			return key{T: typ, I: int64(int32(base + int64(rapid.IntRange(-40, 40).Draw(t, "dense"))))}
		case "u8":
			return key{T: typ, I: int64(rapid.Uint8().Draw(t, "u8"))}
		case "i64":
			switch rapid.IntRange(0, 3).Draw(t, "iclass") {
			case 0:
				return key{T: typ, I: rapid.SampledFrom(i64Special).Draw(t, "special")}
			case 1:
				return key{T: typ, I: rapid.Int64().Draw(t, "any")}
			}
			return key{T: typ, I: base<<20 + int64(rapid.IntRange(-40, 40).Draw(t, "dense"))}
		case "u64":
			switch rapid.IntRange(0, 3).Draw(t, "iclass") {
			case 0:
				return key{T: typ, U: rapid.SampledFrom(u64Special).Draw(t, "special")}
			case 1:
				return key{T: typ, U: rapid.Uint64().Draw(t, "any")}
			}
			return key{T: typ, U: uint64(1)<<63 + uint64(base) + uint64(rapid.IntRange(-40, 40).Draw(t, "dense"))}
		case "str":
			return key{T: typ, S: hexOf(genStr(true).Draw(t, "str"))}
		case "f64":
			var f float64
			switch rapid.IntRange(0, 3).Draw(t, "fclass") {
			case 0:
				f = rapid.SampledFrom(f64Special).Draw(t, "special")
			case 1:
				f = math.Float64frombits(rapid.Uint64().Draw(t, "bits"))
				if math.IsNaN(f) || math.IsInf(f, 0) {
					f = 0
				}
			case 2:
				f = float64(base+int64(rapid.IntRange(-40, 40).Draw(t, "dense"))) / 4
			default: // neighbours in the last place
				f = math.Float64frombits(math.Float64bits(1.0+float64(base&7)) + uint64(rapid.IntRange(0, 30).Draw(t, "ulp")))
			}
			if f == 0 {
				f = 0 // pool entries are stored as +0; the negative zero is the "b" spelling
			}
			return key{T: typ, U: math.Float64bits(f)}
		case "bool":
			if rapid.Bool().Draw(t, "b") {
				return key{T: typ, I: 1}
			}
			return key{T: typ}
		case "struct":
			// few distinct a values so that field b decides, and few b values so that a decides
			a := rapid.SampledFrom([]int64{0, 1, -1, 2, math.MinInt32, math.MaxInt32, base}).Draw(t, "a")
			return key{T: typ, I: int64(int32(a)), S: hexOf(genStr(true).Draw(t, "b"))}
		case "ptr":
			return key{T: typ, I: int64(rapid.IntRange(-1, 55).Draw(t, "p"))}
		}
		panic("bad type " + typ)
	})
}

var ifaceDyn = []string{"i32", "i64", "u8", "u64", "str", "f64", "bool", "struct", "ptr"}

// genIfaceKey: mixed dynamic types with a strong bias to the same small
// numeric values under different types (1 as i32/i64/u8/u64/f64, "1", true …).
func genIfaceKey(base int64) *rapid.Generator[key] {
	return rapid.Custom(func(t *rapid.T) key {
		typ := rapid.SampledFrom(ifaceDyn).Draw(t, "dyn")
		if rapid.IntRange(0, 2).Draw(t, "small") > 0 {
			v := int64(rapid.IntRange(0, 5).Draw(t, "v"))
			switch typ {
			case "i32", "i64", "u8":
				return key{T: typ, I: v}
			case "u64":
				return key{T: typ, U: uint64(v)}
			case "f64":
				return key{T: typ, U: math.Float64bits(float64(v))}
			case "str":
				return key{T: typ, S: hexOf(strconv.FormatInt(v, 10))}
			case "struct":
				return key{T: typ, I: v, S: hexOf(strconv.FormatInt(v%2, 10))}
			case "ptr":
				return key{T: typ, I: v - 1}
			}
		}
		return genKeyOf(typ, base).Draw(t, "k")
	})
}

// genPool draws n pairwise distinct keys (distinct under Go key equality) and
// lays them out in natural order.
func genPool(kind string, n int) *rapid.Generator[[]key] {
	return rapid.Custom(func(t *rapid.T) []key {
		base := int64(rapid.SampledFrom([]int{0, 0, 100, -100, 1 << 20, math.MaxInt32 - 20, math.MinInt32 + 20, 1000003}).Draw(t, "base"))
		g := genKeyOf(kind, base)
		if kind == "iface" {
			g = genIfaceKey(base)
		}
		seen := map[interface{}]bool{}
		var pool []key
		for tries := 0; len(pool) < n && tries < 6*n+20; tries++ {
			k := g.Draw(t, "key")
			id := k.goKey(false)
			if seen[id] {
				continue
			}
			seen[id] = true
			pool = append(pool, k)
		}
		sort.SliceStable(pool, func(i, j int) bool { return keyLess(pool[i], pool[j]) })
		return pool
	})
}

func (k key) String() string {
	switch k.T {
	case "u64":
		return fmt.Sprintf("%s:%d", k.T, k.U)
	case "f64":
		return fmt.Sprintf("%s:%v", k.T, k.f64())
	case "str":
		return fmt.Sprintf("%s:%q", k.T, k.bytes())
	case "struct":
		return fmt.Sprintf("S{%d,%q}", k.I, k.bytes())
	}
	return fmt.Sprintf("%s:%d", k.T, k.I)
}
