package c13

import (
	"fmt"
	"strings"
)

// op is one step of a history (replayable form).
//
//	ins   m[K] = V                       prints len
//	del   delete(m, K)                   prints len
//	get   m[K]                           prints value (0 = absent; V is never 0)
//	ok    v, ok := m[K]                  prints value and ok
//	len   len(m)
//	range for … range m                  F = kv | k | v | n (which loop variables are bound)
//	rdel  range that deletes the visited key when bit <pool index> of M is set
//	new   m = make(map[K]i32)            drops the whole tree
type op struct {
	T  string `json:"t"`
	K  int    `json:"k,omitempty"`  // pool index
	V  int32  `json:"v,omitempty"`  // value (ins)
	Sp string `json:"sp,omitempty"` // key spelling: a = ka[i] (default), b = kb[i] (rebuilt at run time), l = literal
	M  uint64 `json:"m,omitempty"`  // rdel mask over pool indices
	F  string `json:"f,omitempty"`  // range form
}

// history is the replay payload: everything needed to re-render and re-run.
type history struct {
	Kind     string `json:"kind"`
	Strategy string `json:"strategy,omitempty"` // informational
	Keys     []key  `json:"keys"`
	Ops      []op   `json:"ops"`
	// StrictRangeDelete: demand Go's semantics for deleting the visited key
	// inside a range loop (every entry present at loop start is visited
	// exactly once).  When false only the implementation-independent part is
	// compared (no unknown key, no key twice, state after the loop).
	StrictRangeDelete bool `json:"strict_range_delete"`
}

// expLine is one expected stdout line.
type expLine struct {
	Text   string
	Op     int    // op index, -1 for prelude / epilogue
	Part   string // what the line observes (for the failure key)
	Strict bool   // compared only under StrictRangeDelete
}

// stats of a history, computed by the model while it runs.
type histStats struct {
	MaxLive          int
	Inserts          int
	Overwrites       int
	DelPresent       int
	DelAbsent        int
	Lookups          int
	Ranges           int
	RangeAfterDelete int
	RangeDeletes     int
	Reinserts        int // insert of a key that had been deleted before
	Remakes          int
}

const maxPool = 48

func (h *history) spell(o op) string {
	k := h.Keys[o.K]
	switch o.Sp {
	case "b":
		return fmt.Sprintf("kb[%d]", o.K)
	case "l":
		return k.lit()
	}
	return fmt.Sprintf("ka[%d]", o.K)
}

func (h *history) usesForm(f string) bool {
	for _, o := range h.Ops {
		if o.T == "range" && o.F == f {
			return true
		}
	}
	return false
}

func (h *history) usesType(t string) bool {
	for _, k := range h.Keys {
		if k.T == t {
			return true
		}
	}
	return false
}

// build renders the history into one Wa program and, by applying the same
// history to a Go map, the stdout the program must produce.
func (h *history) build() (src string, exp []expLine, st histStats) {
	n := len(h.Keys)
	K := waType(h.Kind)
	var b strings.Builder
	w := func(format string, a ...interface{}) { fmt.Fprintf(&b, format, a...) }

	w("// C13 generated history: kind=%s strategy=%s keys=%d ops=%d\n\n", h.Kind, h.Strategy, n, len(h.Ops))
	w("type S :struct {a: i32; b: string}\n\ntype P :struct {x: i32}\n\n")
	w("global m: map[%s]i32\nglobal nilm: map[%s]i32\nglobal ka: []%s\nglobal kb: []%s\nglobal ps: []*P\nglobal pnil: *P\nglobal vis: [%d]int\n", K, K, K, K, maxPool)
	w("global bit: [%d]u32 = [%d]u32{", maxPool, maxPool)
	for i := 0; i < maxPool; i++ {
		if i > 0 {
			w(", ")
		}
		w("%d", uint32(1)<<(uint(i)%32))
	}
	w("}\n\n")
	w(`func b2i(b: bool) => int {
	if b {
		return 1
	}
	return 0
}

func altStr(s: string) => string {
	b := make([]byte, 0)
	for i := 0; i < len(s); i++ {
		b = append(b, s[i])
	}
	return string(b)
}

func altF(x: f64) => f64 {
	if x == 0.0 {
		return -x
	}
	return x
}

func altS(k: S) => S {
	return S{a: k.a, b: altStr(k.b)}
}

`)
	// alt: same key, different representation (fresh string memory, negative zero, copied struct)
	w("func alt(k: %s) => %s {\n", K, K)
	switch h.Kind {
	case "str":
		w("\treturn altStr(k)\n")
	case "f64":
		w("\treturn altF(k)\n")
	case "struct":
		w("\treturn altS(k)\n")
	case "iface":
		if h.usesType("str") || h.usesType("f64") || h.usesType("struct") {
			w("\tswitch x := k.(type) {\n")
			if h.usesType("str") {
				w("\tcase string:\n\t\treturn altStr(x)\n")
			}
			if h.usesType("f64") {
				w("\tcase f64:\n\t\treturn altF(x)\n")
			}
			if h.usesType("struct") {
				w("\tcase S:\n\t\treturn altS(x)\n")
			}
			w("\t}\n")
		}
		w("\treturn k\n")
	default:
		w("\treturn k\n")
	}
	w("}\n\n")
	w(`func idx(k: %s) => int {
	for i := 0; i < len(ka); i++ {
		if ka[i] == k {
			return i
		}
	}
	return -1
}

func clearVis() {
	for i := 0; i < %d; i++ {
		vis[i] = 0
	}
}

func dups() => int {
	d := 0
	for i := 0; i < %d; i++ {
		if vis[i] > 1 {
			d++
		}
	}
	return d
}

func rangeKV(id: int) {
	n := 0
	sum: i64 = 0
	lo: u32 = 0
	hi: u32 = 0
	bad := 0
	clearVis()
	for k, v := range m {
		n++
		j := idx(k)
		if j < 0 {
			bad++
			continue
		}
		vis[j]++
		sum += i64(v) * i64(j+1)
		if j < 32 {
			lo |= bit[j]
		} else {
			hi |= bit[j]
		}
	}
	println(id, n, lo, hi, sum, bad, dups())
}

func rangeDel(id: int, dlo: u32, dhi: u32) {
	n := 0
	sum: i64 = 0
	lo: u32 = 0
	hi: u32 = 0
	bad := 0
	clearVis()
	for k, v := range m {
		n++
		j := idx(k)
		if j < 0 {
			bad++
			continue
		}
		vis[j]++
		sum += i64(v) * i64(j+1)
		if j < 32 {
			lo |= bit[j]
			if (dlo & bit[j]) != 0 {
				delete(m, k)
			}
		} else {
			hi |= bit[j]
			if (dhi & bit[j]) != 0 {
				delete(m, k)
			}
		}
	}
	println(id, n, lo, hi, sum)
	println(id, bad, dups())
	for i := 0; i < len(ka); i++ {
		if i < 32 {
			if (dlo & bit[i]) != 0 {
				delete(m, ka[i])
			}
		} else {
			if (dhi & bit[i]) != 0 {
				delete(m, ka[i])
			}
		}
	}
	println(id, len(m))
}

func okq(id: int, k: %s) {
	v, ok := m[k]
	println(id, v, b2i(ok))
}

func insq(id: int, k: %s, v: i32) {
	m[k] = v
	println(id, len(m))
}

func delq(id: int, k: %s) {
	delete(m, k)
	println(id, len(m))
}

func getq(id: int, k: %s) {
	println(id, m[k])
}

`, K, maxPool, maxPool, K, K, K, K)

	if h.usesForm("k") {
		w("%s", `func rangeK(id: int) {
	n := 0
	lo: u32 = 0
	hi: u32 = 0
	bad := 0
	clearVis()
	for k := range m {
		n++
		j := idx(k)
		if j < 0 {
			bad++
			continue
		}
		vis[j]++
		if j < 32 {
			lo |= bit[j]
		} else {
			hi |= bit[j]
		}
	}
	println(id, n, lo, hi, bad, dups())
}

`)
	}
	if h.usesForm("v") {
		w("%s", `func rangeV(id: int) {
	n := 0
	sum: i64 = 0
	for _, v := range m {
		n++
		sum += i64(v)
	}
	println(id, n, sum)
}

`)
	}
	if h.usesForm("n") {
		w("%s", `func rangeN(id: int) {
	n := 0
	for range m {
		n++
	}
	println(id, n)
}

`)
	}
	// --- setup: pools
	w("func setup() {\n")
	w("\tfor i := 0; i < 56; i++ {\n\t\tps = append(ps, &P{x: i32(i)})\n\t}\n")
	for _, k := range h.Keys {
		w("\tka = append(ka, %s)\n", k.lit())
	}
	w("\tfor i := 0; i < len(ka); i++ {\n\t\tkb = append(kb, alt(ka[i]))\n\t}\n")
	w("\tm = make(map[%s]i32)\n", K)
	w("}\n\n")

	// --- prelude: the sign of the alternative zero is really negative; nil map reads
	w("func prelude() {\n")
	w("\tprintln(\"nz\", b2i(1.0/altF(0.0) < 0.0), b2i(altF(0.0) == 0.0))\n")
	exp = append(exp, expLine{Text: "nz 1 1", Op: -1, Part: "prelude/negative-zero"})
	if n > 0 {
		w("\tv, ok := nilm[ka[0]]\n\tprintln(\"nil\", len(nilm), nilm[ka[0]], v, b2i(ok))\n")
		w("\tdelete(nilm, ka[0])\n\tc := 0\n\tfor k, v := range nilm {\n\t\tc += 1 + int(v) + idx(k)\n\t}\n\tprintln(\"nil\", c)\n")
		exp = append(exp, expLine{Text: "nil 0 0 0 0", Op: -1, Part: "prelude/nil-map"}, expLine{Text: "nil 0", Op: -1, Part: "prelude/nil-map"})
	}
	w("}\n\n")

	// --- the history
	model := map[interface{}]int32{}
	index := map[interface{}]int{}
	for i, k := range h.Keys {
		index[k.goKey(false)] = i
	}
	everDeleted := map[int]bool{}
	anyDelete := false
	const chunk = 40
	nchunks := 0
	for i, o := range h.Ops {
		if i%chunk == 0 {
			if i > 0 {
				w("}\n\n")
			}
			w("func chunk%d() {\n", nchunks)
			nchunks++
		}
		line := func(part string, strict bool, format string, a ...interface{}) {
			exp = append(exp, expLine{Text: fmt.Sprintf("%d ", i) + fmt.Sprintf(format, a...), Op: i, Part: part, Strict: strict})
		}
		var gk interface{}
		if o.T == "ins" || o.T == "del" || o.T == "get" || o.T == "ok" {
			gk = h.Keys[o.K].goKey(o.Sp == "b")
		}
		switch o.T {
		case "ins":
			if o.Sp == "l" { // inline form with a literal key
				w("\tm[%s] = %d\n\tprintln(%d, len(m))\n", h.spell(o), o.V, i)
			} else {
				w("\tinsq(%d, %s, %d)\n", i, h.spell(o), o.V)
			}
			if _, ok := model[gk]; ok {
				st.Overwrites++
			} else {
				st.Inserts++
				if everDeleted[o.K] {
					st.Reinserts++
				}
			}
			model[gk] = o.V
			line("len", false, "%d", len(model))
		case "del":
			if o.Sp == "l" {
				w("\tdelete(m, %s)\n\tprintln(%d, len(m))\n", h.spell(o), i)
			} else {
				w("\tdelq(%d, %s)\n", i, h.spell(o))
			}
			if _, ok := model[gk]; ok {
				st.DelPresent++
				everDeleted[o.K] = true
				anyDelete = true
			} else {
				st.DelAbsent++
			}
			delete(model, gk)
			line("len", false, "%d", len(model))
		case "get":
			if o.Sp == "l" {
				w("\tprintln(%d, m[%s])\n", i, h.spell(o))
			} else {
				w("\tgetq(%d, %s)\n", i, h.spell(o))
			}
			st.Lookups++
			line("lookup", false, "%d", model[gk])
		case "ok":
			if o.Sp == "l" { // inline form
				w("\t{\n\t\tv, ok := m[%s]\n\t\tprintln(%d, v, b2i(ok))\n\t}\n", h.spell(o), i)
			} else {
				w("\tokq(%d, %s)\n", i, h.spell(o))
			}
			st.Lookups++
			v, ok := model[gk]
			line("lookup", false, "%d %d", v, b2i(ok))
		case "len":
			w("\tprintln(%d, len(m))\n", i)
			line("len", false, "%d", len(model))
		case "new":
			w("\tm = make(map[%s]i32)\n\tprintln(%d, len(m))\n", K, i)
			model = map[interface{}]int32{}
			st.Remakes++
			line("len", false, "0")
		case "range", "rdel":
			cnt, lo, hi, sum, vsum := 0, uint32(0), uint32(0), int64(0), int64(0)
			for gk, v := range model { // commutative digests only
				j := index[gk]
				cnt++
				sum += int64(v) * int64(j+1)
				vsum += int64(v)
				if j < 32 {
					lo |= 1 << uint(j)
				} else {
					hi |= 1 << uint(j-32)
				}
			}
			st.Ranges++
			if anyDelete && cnt > 0 {
				st.RangeAfterDelete++
			}
			if o.T == "range" {
				switch o.F {
				case "k":
					w("\trangeK(%d)\n", i)
					line("range", false, "%d %d %d 0 0", cnt, lo, hi)
				case "v":
					w("\trangeV(%d)\n", i)
					line("range", false, "%d %d", cnt, vsum)
				case "n":
					w("\trangeN(%d)\n", i)
					line("range", false, "%d", cnt)
				default:
					w("\trangeKV(%d)\n", i)
					line("range", false, "%d %d %d %d 0 0", cnt, lo, hi, sum)
				}
				break
			}
			dlo, dhi := uint32(o.M), uint32(o.M>>32)
			w("\trangeDel(%d, %d, %d)\n", i, dlo, dhi)
			line("rdel-visits", true, "%d %d %d %d", cnt, lo, hi, sum)
			line("rdel-sanity", false, "0 0")
			for j, k := range h.Keys {
				if o.M>>uint(j)&1 == 1 {
					if _, ok := model[k.goKey(false)]; ok {
						delete(model, k.goKey(false))
						st.RangeDeletes++
						everDeleted[j] = true
						anyDelete = true
					}
				}
			}
			line("rdel-len", false, "%d", len(model))
		default:
			panic("bad op " + o.T)
		}
		if len(model) > st.MaxLive {
			st.MaxLive = len(model)
		}
	}
	if len(h.Ops) > 0 {
		w("}\n\n")
	}
	w("func main {\n\tsetup()\n\tprelude()\n")
	for c := 0; c < nchunks; c++ {
		w("\tchunk%d()\n", c)
	}
	w("\tprintln(\"end\", len(m))\n}\n")
	exp = append(exp, expLine{Text: fmt.Sprintf("end %d", len(model)), Op: -1, Part: "epilogue/len"})
	return b.String(), exp, st
}

func b2i(b bool) int {
	if b {
		return 1
	}
	return 0
}

// withoutRangeForms returns a copy whose range ops all bind both variables.
func (h *history) withoutRangeForms() (*history, string) {
	c := *h
	c.Ops = append([]op{}, h.Ops...)
	first := ""
	for i := range c.Ops {
		if c.Ops[i].T == "range" && c.Ops[i].F != "" && c.Ops[i].F != "kv" {
			if first == "" {
				first = c.Ops[i].F
			}
			c.Ops[i].F = "kv"
		}
	}
	return &c, first
}
